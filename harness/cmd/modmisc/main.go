// Command modmisc drives the parts of package modules that extension check X15 covers (failure status API, status
// predicates and export, module error reports, RunWorker / StartServiceWorker, the global Start / Shutdown flow,
// module management toggles, sleepy ticker channel) through scripts generated from spec/ModMiscGen.tla and records
// what the real package did, for validation by TLC against spec/ModMisc.tla (spec/ModMiscTrace.tla).
//
// The module system is a process-wide singleton: the parent process runs one child process per script.
//
// usage: modmisc <scripts.ndjson> <trace.ndjson> [skip]
package main

import (
	"context"
	"errors"
	"flag"
	"fmt"
	"os"
	"os/exec"
	"strconv"
	"strings"
	"sync"
	"sync/atomic"
	"time"

	"encoding/json"

	"github.com/safing/portbase/log"
	"github.com/safing/portbase/modules"

	"verifharness/internal/vio"
)

type config struct {
	N      int      `json:"n"`
	Deps   [][]int  `json:"deps"`
	Mgmt   bool     `json:"mgmt"`
	En     []bool   `json:"en"`
	Prep   []string `json:"prep"`
	Start  []string `json:"start"`
	Stop   []string `json:"stop"`
	Gprep  string   `json:"gprep"`
	Gshut  bool     `json:"gshut"`
	Cmd    string   `json:"cmd"`
	Help   bool     `json:"help"`
	Notify bool     `json:"notify"`
	Unit   int      `json:"unit"` // service worker back-off unit in microseconds
	Slow   int      `json:"slow"` // the failure update function takes this many milliseconds (directed scripts)
}

type op struct {
	Op string   `json:"op"`
	M  int      `json:"m"`
	A  string   `json:"a"`
	K  int      `json:"k"`
	N  int      `json:"n"`
	Sq []string `json:"sq"`
}

type script struct {
	Cfg   config `json:"cfg"`
	Steps []op   `json:"steps"`
}

type logEntry struct {
	T  string `json:"t"`
	M  int    `json:"m"`
	Sd bool   `json:"sd"`
}

type note struct {
	S  int    `json:"s"`
	ID string `json:"id"`
	K  int    `json:"k"`
}

type rep struct {
	Sev  string `json:"sev"`
	M    int    `json:"m"`
	Task string `json:"task"`
	K    int    `json:"k"`
}

var (
	tr   *vio.Trace
	hidx int
	sc   script
	mods []*modules.Module

	mu     sync.Mutex
	cblog  []logEntry
	fnotes []note
	chg    []int

	cbErr    []error // injected error of the lifecycle routines of module i
	gprepErr = errors.New("injected global prep failure")
	workErr  = errors.New("injected worker failure")

	repCh    chan *modules.ModuleError
	svcRuns  int64
	heldLive int64
)

func name(i int) string { return fmt.Sprintf("m%d", i) }

func modIndex(n string) int {
	for i := 1; i <= sc.Cfg.N; i++ {
		if name(i) == n {
			return i
		}
	}
	return 0
}

func shuttingDown() bool {
	closed := false
	select {
	case <-modules.ShuttingDown():
		closed = true
	default:
	}
	return closed && modules.IsShuttingDown()
}

func logCb(t string, m int) {
	sd := shuttingDown()
	mu.Lock()
	cblog = append(cblog, logEntry{T: t, M: m, Sd: sd})
	mu.Unlock()
}

func outcome(how string, m int) error {
	switch how {
	case "ok":
		return nil
	case "panic":
		panic("boom")
	case "clean":
		return modules.ErrCleanExit
	default:
		return cbErr[m]
	}
}

// --------------------------------------------------------------------------------------------- symbol mapping
func symID(raw string, m int) string {
	switch raw {
	case "", "a", "b":
		return raw
	}
	for i := 1; i <= sc.Cfg.N; i++ {
		for suffix, sym := range map[string]string{":prep-failed": "prepfail", ":start-failed": "startfail", ":stop-failed": "stopfail"} {
			if raw == name(i)+suffix {
				if m == 0 || i == m {
					return sym
				}
				return "foreign:" + sym
			}
		}
	}
	return "raw:" + raw
}

func realID(sym string, m int) string {
	switch sym {
	case "prepfail":
		return name(m) + ":prep-failed"
	case "startfail":
		return name(m) + ":start-failed"
	case "stopfail":
		return name(m) + ":stop-failed"
	}
	return sym
}

func numSuffix(s, prefix string) (int, bool) {
	if !strings.HasPrefix(s, prefix) {
		return 0, false
	}
	n, err := strconv.Atoi(s[len(prefix):])
	if err != nil {
		return 0, false
	}
	return n, true
}

func msgK(msg string) int {
	if msg == "" {
		return 0
	}
	if k, ok := numSuffix(msg, "msg"); ok {
		return k
	}
	if strings.HasPrefix(msg, "Failed to ") {
		return -2
	}
	return -3
}

func noteK(title, msg string) int {
	if title == "" && msg == "" {
		return -1
	}
	kt, ok1 := numSuffix(title, "t")
	km, ok2 := numSuffix(msg, "msg")
	if ok1 && ok2 && kt == km {
		return kt
	}
	if strings.HasPrefix(msg, "Failed to ") {
		return -2
	}
	return -3
}

func symRep(me *modules.ModuleError) rep {
	if me == nil {
		return rep{Sev: "none"}
	}
	r := rep{Sev: me.Severity, M: modIndex(me.ModuleName)}
	switch me.TaskName {
	case "", "tk", "w", "svc":
		r.Task = me.TaskName
	case "prep module":
		r.Task = "prep"
	case "start module":
		r.Task = "start"
	case "stop module":
		r.Task = "stop"
	default:
		r.Task = "raw:" + me.TaskName
	}
	msg := strings.TrimPrefix(me.Message, "panic: ")
	if k, ok := numSuffix(msg, "r"); ok {
		r.K = k
	}
	return r
}

// --------------------------------------------------------------------------------------------- snapshot
func view() map[string]any {
	st := modules.GetStatus()
	ms := make([]map[string]any, 0, len(mods))
	for i, m := range mods {
		fs, fid, fmsg := m.FailureStatus()
		ctxdone := false
		select {
		case <-m.Stopping():
			ctxdone = true
		default:
		}
		v := map[string]any{
			"st": int(m.Status()), "fs": int(fs), "fid": symID(fid, i+1), "fk": msgK(fmsg),
			"online": m.Online(), "soon": m.OnlineSoon(), "stopping": m.IsStopping(), "ctxdone": ctxdone,
			"sleeping": m.IsSleeping(),
			"wk":       -1, "est": "", "efs": "", "efid": "", "efk": 0, "een": false,
		}
		if st != nil {
			if e := st.Modules[m.Name]; e != nil {
				v["wk"] = e.Workers
				v["est"] = e.Status
				v["efs"] = e.FailureType
				v["efid"] = symID(e.FailureID, i+1)
				v["efk"] = msgK(e.FailureMsg)
				v["een"] = e.Enabled
			} else {
				v["est"] = "missing"
			}
		}
		ms = append(ms, v)
	}
	return map[string]any{
		"mods": ms, "starting": modules.IsStarting(), "sdflag": modules.IsShuttingDown(),
		"sdch": chanClosed(modules.ShuttingDown()), "nil": st == nil, "last": symRep(modules.GetLastReportedError()),
	}
}

func chanClosed(c <-chan struct{}) bool {
	select {
	case <-c:
		return true
	default:
		return false
	}
}

func counters() (int, int, int) {
	mu.Lock()
	defer mu.Unlock()
	return len(cblog), len(fnotes), len(chg)
}

// settle waits until the notification workers the last operation started have run.
func settle() {
	a, b, c := counters()
	stable := time.Now()
	hard := time.Now().Add(3 * time.Second)
	for time.Now().Before(hard) {
		time.Sleep(2 * time.Millisecond)
		x, y, z := counters()
		busy := false
		if st := modules.GetStatus(); st != nil && int64(st.Total.Workers) != atomic.LoadInt64(&heldLive) {
			busy = true
		}
		if x != a || y != b || z != c || busy {
			a, b, c = x, y, z
			stable = time.Now()
			continue
		}
		if time.Since(stable) > 40*time.Millisecond {
			return
		}
	}
}

func takeLogs() ([]logEntry, []note, []int) {
	mu.Lock()
	defer mu.Unlock()
	l, f, c := cblog, fnotes, chg
	cblog, fnotes, chg = nil, nil, nil
	if l == nil {
		l = []logEntry{}
	}
	if f == nil {
		f = []note{}
	}
	if c == nil {
		c = []int{}
	}
	return l, f, c
}

// timed runs fn and reports whether it returned within d.
func timed(d time.Duration, fn func()) bool {
	done := make(chan struct{})
	go func() {
		defer close(done)
		fn()
	}()
	select {
	case <-done:
		return true
	case <-time.After(d):
		return false
	}
}

// --------------------------------------------------------------------------------------------- operations
func classifyStart(err error) (string, int) {
	if err == nil {
		return "ok", 0
	}
	msg := err.Error()
	switch {
	case errors.Is(err, modules.ErrCleanExit):
		return "clean", 0
	case errors.Is(err, gprepErr):
		return "err:gprep", 0
	case msg == "module system already started":
		return "already", 0
	}
	for i := 1; i <= sc.Cfg.N; i++ {
		if strings.HasPrefix(msg, "failed to prep module "+name(i)+":") {
			return "err:prep", i
		}
		if strings.HasPrefix(msg, "modules: could not start module "+name(i)+":") {
			return "err:start", i
		}
	}
	return "err:other:" + msg, 0
}

func classifyShutdown(err error) string {
	if err == nil {
		return "nil"
	}
	if err.Error() == "shutdown already initiated" {
		return "already"
	}
	for i := 1; i <= sc.Cfg.N; i++ {
		if errors.Is(err, cbErr[i]) {
			return "err:stop"
		}
	}
	if strings.HasPrefix(err.Error(), "panic:") {
		return "err:stop"
	}
	return "err:other:" + err.Error()
}

func anyOnline() bool {
	for _, m := range mods {
		if m.Status() > modules.StatusOffline {
			return true
		}
	}
	return false
}

func doService(o op, ev map[string]any) {
	m := mods[o.M-1]
	unit := time.Duration(sc.Cfg.Unit) * time.Microsecond
	var lk sync.Mutex
	var starts, ends []time.Time
	var conc, maxconc, runs int
	reached := make(chan struct{})
	var once sync.Once
	fn := func(ctx context.Context) (err error) {
		lk.Lock()
		idx := runs
		runs++
		conc++
		if conc > maxconc {
			maxconc = conc
		}
		starts = append(starts, time.Now())
		lk.Unlock()
		atomic.AddInt64(&svcRuns, 1)
		defer func() {
			lk.Lock()
			conc--
			ends = append(ends, time.Now())
			lk.Unlock()
		}()
		how := o.A
		if idx < len(o.Sq) {
			how = o.Sq[idx]
		} else if idx > len(o.Sq) {
			return nil // an instance that should never have been started: counted, ends at once
		}
		switch how {
		case "err":
			return errors.New("injected service failure")
		case "panic":
			panic("service boom")
		case "restart":
			return fmt.Errorf("please: %w", modules.ErrRestartNow)
		case "ok":
			once.Do(func() { close(reached) })
			return nil
		case "cancel":
			once.Do(func() { close(reached) })
			return context.Canceled
		case "hold":
			atomic.AddInt64(&heldLive, 1)
			once.Do(func() { close(reached) })
			<-ctx.Done()
			atomic.AddInt64(&heldLive, -1)
			return ctx.Err()
		case "holderr":
			atomic.AddInt64(&heldLive, 1)
			once.Do(func() { close(reached) })
			<-ctx.Done()
			atomic.AddInt64(&heldLive, -1)
			return errors.New("injected failure after cancellation")
		}
		return nil
	}
	m.StartServiceWorker("svc", unit, fn)
	ev["ret"] = "ok"
	select {
	case <-reached:
	case <-time.After(400 * time.Millisecond):
		// a service worker that has not even started its first run by now is not going to (stopped module)
		lk.Lock()
		none := runs == 0
		lk.Unlock()
		if !none {
			select {
			case <-reached:
			case <-time.After(15 * time.Second):
				ev["ret"] = "timeout"
			}
		}
	}
	// a restart that must not happen would come after at most (failures + 1) back-off units
	time.Sleep(time.Duration(len(o.Sq)+2) * unit)
	lk.Lock()
	gaps := []int{}
	for i := 1; i < len(starts) && i-1 < len(ends); i++ {
		gaps = append(gaps, int(starts[i].Sub(ends[i-1])/time.Microsecond))
	}
	ev["sv"] = map[string]any{"runs": runs, "conc": maxconc, "gaps": gaps}
	lk.Unlock()
}

func doOp(o op) map[string]any {
	ev := map[string]any{"e": "op", "op": o, "h": hidx, "ret": "ok", "retm": 0}
	var m *modules.Module
	if o.M >= 1 && o.M <= len(mods) {
		m = mods[o.M-1]
	}
	patience := 6 * time.Second
	if o.Op == "service" {
		patience = 25 * time.Second
	}
	finished := timed(patience, func() {
		switch o.Op {
		case "fail":
			id, title, msg := realID(o.A, o.M), fmt.Sprintf("t%d", o.N), fmt.Sprintf("msg%d", o.N)
			switch o.K {
			case 1:
				m.Hint(id, title, msg)
			case 2:
				m.Warning(id, title, msg)
			default:
				m.Error(id, title, msg)
			}
		case "resolve":
			m.Resolve(realID(o.A, o.M))
		case "report":
			var me *modules.ModuleError
			switch o.A {
			case "info":
				me = m.NewInfoMessage(fmt.Sprintf("r%d", o.N))
			case "error":
				me = m.NewErrorMessage("tk", fmt.Errorf("r%d", o.N))
			default:
				me = m.NewPanicError("tk", "custom", fmt.Sprintf("r%d", o.N))
			}
			ev["rep"] = symRep(me)
			ev["ttype"] = me.TaskType
			if !timed(3*time.Second, me.Report) {
				ev["ret"] = "blocked"
			}
		case "setchan":
			if o.K < 0 {
				repCh = nil
			} else {
				repCh = make(chan *modules.ModuleError, o.K)
			}
			modules.SetErrorReportingChannel(repCh)
		case "drain":
			q := []rep{}
			for repCh != nil {
				select {
				case me := <-repCh:
					q = append(q, symRep(me))
					continue
				default:
				}
				break
			}
			ev["q"] = q
		case "runworker":
			wc, wctx := -2, false
			err := m.RunWorker("w", func(ctx context.Context) error {
				wc = -1
				if st := modules.GetStatus(); st != nil {
					wc = st.Modules[m.Name].Workers
				}
				wctx = ctx.Err() != nil
				switch o.A {
				case "err":
					return workErr
				case "cancel":
					return context.Canceled
				case "panic":
					panic("worker boom")
				}
				return nil
			})
			ev["wc"], ev["wctx"] = wc, wctx
			isPanic, me := modules.IsPanic(err)
			switch {
			case err == nil:
				ev["ret"] = "nil"
			case err == workErr:
				ev["ret"] = "same"
			case err == context.Canceled:
				ev["ret"] = "cancel"
			case isPanic:
				if me.ModuleName == m.Name && me.TaskName == "w" && me.TaskType == "worker" && me.Severity == "panic" &&
					fmt.Sprint(me.PanicValue) == "worker boom" {
					ev["ret"] = "panic"
				} else {
					ev["ret"] = "panic:badfields"
				}
			default:
				ev["ret"] = "other:" + err.Error()
			}
		case "service":
			doService(o, ev)
		case "start":
			ev["ret"], ev["retm"] = classifyStart(modules.Start())
		case "shutdown":
			ev["ret"] = classifyShutdown(modules.Shutdown())
		case "shutdown2":
			type r2 struct {
				Ret  string `json:"ret"`
				Done bool   `json:"done"`
			}
			res := make([]r2, 2)
			var wg sync.WaitGroup
			for i := 0; i < 2; i++ {
				i := i
				wg.Add(1)
				go func() {
					defer wg.Done()
					r := classifyShutdown(modules.Shutdown())
					res[i] = r2{Ret: r, Done: !anyOnline()}
				}()
			}
			wg.Wait()
			ev["rets"] = res
		case "toggle":
			if m.SetEnabled(o.K == 1) {
				ev["ret"] = "changed"
			} else {
				ev["ret"] = "same"
			}
		case "manage":
			if err := modules.ManageModules(); err != nil {
				ev["ret"] = "err:" + err.Error()
			} else {
				ev["ret"] = "nil"
			}
		case "setexit":
			modules.SetExitStatusCode(o.K)
		case "getexit":
			code := -1
			wait := 300 * time.Millisecond
			if modules.IsShuttingDown() {
				wait = 5 * time.Second // a shutdown is at least under way: be patient on a loaded machine
			}
			if timed(wait, func() { code = modules.GetExitStatusCode() }) {
				ev["ret"], ev["retm"] = "code", code
			} else {
				ev["ret"] = "blocked"
			}
		case "sleep":
			m.Sleep(o.K == 1)
		case "tick":
			sleepDur := time.Duration(0)
			if o.K == 1 {
				sleepDur = 8 * time.Millisecond
			}
			t := m.NewSleepyTicker(4*time.Millisecond, sleepDur)
			ch := t.Wait()
			if ch == m.WaitIfSleeping() {
				ev["ret"] = "sleepwait"
			} else {
				ev["ret"] = "ticker"
			}
			ticked := false
			select {
			case <-ch:
				ticked = true
			case <-time.After(2500 * time.Millisecond):
			}
			t.Stop()
			select {
			case <-ch: // a tick that was already waiting in the channel
			default:
			}
			afterStop := false
			if ev["ret"] == "ticker" {
				select {
				case <-ch:
					afterStop = true
				case <-time.After(30 * time.Millisecond):
				}
			}
			ev["ticked"], ev["afterstop"] = ticked, afterStop
		default:
			ev["ret"] = "unknown-op"
		}
	})
	if !finished {
		ev["ret"] = "hang"
	}
	switch o.Op {
	case "fail", "resolve", "shutdown", "shutdown2", "manage", "service":
		if sc.Cfg.Mgmt || sc.Cfg.Notify {
			settle()
		}
	case "start":
		settle() // prep routines of unrelated modules may still be running after a failed Start
	}
	ev["log"], ev["fn"], ev["chg"] = takeLogs()
	ev["view"] = view()
	return ev
}

// --------------------------------------------------------------------------------------------- child: one script
func child(scriptPath, tracePath string, idx int) {
	n := 0
	err := vio.ReadLines(scriptPath, func(line []byte) error {
		if n == idx {
			if e := json.Unmarshal(line, &sc); e != nil {
				return e
			}
		}
		n++
		return nil
	})
	if err != nil || n <= idx {
		fmt.Fprintln(os.Stderr, "cannot read script", idx, err)
		os.Exit(2)
	}
	tr, err = vio.NewTrace(tracePath)
	if err != nil {
		fmt.Fprintln(os.Stderr, err)
		os.Exit(2)
	}
	hidx = idx
	c := sc.Cfg
	_ = flag.CommandLine.Parse([]string{})
	log.SetLogLevel(log.CriticalLevel)
	modules.SetStdErrReporting(false)
	modules.VerifSetTimeouts(20*time.Second, 10*time.Second)
	tr.Emit(map[string]any{"e": "new", "cfg": c, "h": hidx})

	cbErr = make([]error, c.N+1)
	for i := 1; i <= c.N; i++ {
		i := i
		cbErr[i] = fmt.Errorf("injected failure of %s", name(i))
		var dn []string
		for _, d := range c.Deps[i-1] {
			dn = append(dn, name(d))
		}
		m := modules.Register(name(i),
			func() error { logCb("prep", i); return outcome(c.Prep[i-1], i) },
			func() error { logCb("start", i); return outcome(c.Start[i-1], i) },
			func() error { logCb("stop", i); return outcome(c.Stop[i-1], i) },
			dn...)
		mods = append(mods, m)
	}
	if c.Notify {
		modules.SetFailureUpdateNotifyFunc(func(st uint8, id, title, msg string) {
			mu.Lock()
			fnotes = append(fnotes, note{S: int(st), ID: symID(id, 0), K: noteK(title, msg)})
			mu.Unlock()
			if c.Slow > 0 {
				time.Sleep(time.Duration(c.Slow) * time.Millisecond)
			}
		})
	}
	if c.Mgmt {
		modules.EnableModuleManagement(func(m *modules.Module) {
			mu.Lock()
			chg = append(chg, modIndex(m.Name))
			mu.Unlock()
		})
	}
	for i, e := range c.En {
		if e && i < len(mods) {
			mods[i].Enable()
		}
	}
	if c.Gprep != "none" {
		modules.SetGlobalPrepFn(func() error {
			logCb("gprep", 0)
			switch c.Gprep {
			case "err":
				return gprepErr
			case "clean":
				return modules.ErrCleanExit
			}
			return nil
		})
	}
	if c.Gshut {
		modules.SetGlobalShutdownFn(func() { logCb("gshut", 0) })
	}
	if c.Cmd != "none" {
		modules.SetCmdLineOperation(func() error {
			logCb("cmd", 0)
			if c.Cmd == "err" {
				return errors.New("injected command failure")
			}
			return nil
		})
	}
	modules.HelpFlag = c.Help

	for _, o := range sc.Steps {
		if o.Sq == nil {
			o.Sq = []string{}
		}
		tr.Emit(map[string]any{"e": "try", "op": o, "h": hidx})
		tr.Flush()
		ev := doOp(o)
		tr.Emit(ev)
		tr.Flush()
		if ev["ret"] == "hang" {
			tr.Close()
			os.Exit(0)
		}
	}
	// late restarts of service workers show up in the total number of service function invocations
	time.Sleep(6 * time.Duration(c.Unit) * time.Microsecond)
	if c.Mgmt || c.Notify {
		settle()
	}
	tr.Emit(map[string]any{"e": "end", "runs": int(atomic.LoadInt64(&svcRuns)), "view": view(), "h": hidx})
	tr.Close()
	os.Exit(0)
}

func main() {
	if len(os.Args) >= 5 && os.Args[3] == "-child" {
		idx, _ := strconv.Atoi(os.Args[4])
		child(os.Args[1], os.Args[2], idx)
		return
	}
	if len(os.Args) < 3 {
		fmt.Fprintln(os.Stderr, "usage: modmisc <scripts> <trace> [skip]")
		os.Exit(2)
	}
	skip := 0
	if len(os.Args) > 3 {
		skip, _ = strconv.Atoi(os.Args[3])
	}
	total := 0
	if err := vio.ReadLines(os.Args[1], func([]byte) error { total++; return nil }); err != nil {
		fmt.Fprintln(os.Stderr, err)
		os.Exit(2)
	}
	out, err := os.Create(os.Args[2])
	if err != nil {
		fmt.Fprintln(os.Stderr, err)
		os.Exit(2)
	}
	defer out.Close()
	self, err := os.Executable()
	if err != nil {
		self = os.Args[0]
	}
	for i := skip; i < total; i++ {
		part := fmt.Sprintf("%s.%d", os.Args[2], i)
		cmd := exec.Command(self, os.Args[1], part, "-child", strconv.Itoa(i))
		var stderr strings.Builder
		cmd.Stderr = &stderr
		done := make(chan error, 1)
		if err := cmd.Start(); err != nil {
			fmt.Fprintln(os.Stderr, err)
			os.Exit(2)
		}
		go func() { done <- cmd.Wait() }()
		var werr error
		select {
		case werr = <-done:
		case <-time.After(90 * time.Second):
			_ = cmd.Process.Kill()
			werr = errors.New("child timeout")
		}
		if b, e := os.ReadFile(part); e == nil {
			_, _ = out.Write(b)
		}
		_ = os.Remove(part)
		if werr != nil {
			_ = out.Sync()
			lines := strings.Split(stderr.String(), "\n")
			keep := []string{}
			for _, l := range lines {
				if strings.HasPrefix(l, "panic:") || strings.HasPrefix(l, "fatal error:") || strings.Contains(l, "goroutine ") {
					keep = append(keep, l)
				}
				if len(keep) >= 6 {
					break
				}
			}
			fmt.Fprintf(os.Stderr, "script %d: child died: %v\n%s\n", i, werr, strings.Join(keep, "\n"))
			os.Exit(3)
		}
	}
}
