// Command dsdx instantiates the vectors of spec/DsdGen.tla (property C09) with seeded values of the
// harness schema, drives them through formats/dsd (Dump/Load, DumpAndCompress, the HTTP helpers on
// httptest objects and over a loopback socket, Load* on corrupted and random bytes) and records what
// happened as one ndjson event per case for validation against spec/DsdTrace.tla.
//
// usage: dsdx <directives.ndjson> <trace.ndjson> [skip]
package main

import (
	"bytes"
	"compress/gzip"
	"encoding/binary"
	"encoding/hex"
	"encoding/json"
	"errors"
	"fmt"
	"hash/fnv"
	"io"
	"math/rand"
	"net"
	"net/http"
	"net/http/httptest"
	"os"
	"runtime/debug"
	"strconv"
	"strings"
	"syscall"

	"github.com/fxamacker/cbor/v2"
	"github.com/ghodss/yaml"
	"github.com/vmihailenco/msgpack/v5"

	"github.com/safing/portbase/database/record"
	"github.com/safing/portbase/formats/dsd"

	"verifharness/internal/vio"
)

type tok struct {
	M string `json:"m"`
	S string `json:"s"`
	V string `json:"v"`
}

type directive struct {
	T     string   `json:"t"`
	Hdr   []tok    `json:"hdr"`
	F     int      `json:"f"`
	C     int      `json:"c"`
	Mk    string   `json:"mk"`
	Ma    int      `json:"ma"`
	Dser  int      `json:"dser"`
	Seed  int64    `json:"seed"`
	N     int      `json:"n"`
	Kinds []string `json:"kinds"` // optional restriction (replay)
	// t = "bytes": one Load* call on given bytes (replay of a call that killed the process)
	API    string `json:"api"`
	Hex    string `json:"hex"`
	Target string `json:"target"`
	Fmt    int    `json:"fmt"`
}

var (
	tr *vio.Trace
	h  int
)

type event map[string]any

func emit(ev event) {
	ev["h"] = h
	tr.EmitRaw(ev)
}

// guard runs fn; a panic is recorded in the event, which is emitted in any case.
func guard(ev event, fn func()) {
	defer func() {
		if p := recover(); p != nil {
			ev["panic"] = fmt.Sprint(p)
		}
		emit(ev)
	}()
	fn()
}

const (
	none  = -1
	fRAW  = 1
	fCBOR = 67
	fGen  = 71
	fJSON = 74
	fMsg  = 77
	fYAML = 89
	fGZIP = 90
)

var mimeFormats = []int{fCBOR, fJSON, fMsg, fYAML}

// ------------------------------------------------------------------ header tokens <-> strings

func renderTok(t tok) string {
	s := t.S
	if t.M != "" {
		s = t.M + "/" + t.S
	}
	switch t.V {
	case "upper":
		s = strings.ToUpper(s)
	case "q":
		s += ";q=0.8"
	case "sp":
		s = " " + s + " "
	case "charset":
		s += "; charset=utf-8"
	}
	return s
}

func renderHdr(ts []tok) string {
	parts := make([]string, len(ts))
	for i, t := range ts {
		parts[i] = renderTok(t)
	}
	return strings.Join(parts, ",")
}

var knownMain = map[string]bool{"application": true, "text": true, "*": true, "": true}
var knownSub = map[string]bool{"json": true, "cbor": true, "msgpack": true, "yaml": true, "yml": true, "html": true, "*": true, "": true}

// parseHdr maps a header value written by the implementation to model tokens.
func parseHdr(s string) []tok {
	out := []tok{}
	if s == "" {
		return out
	}
	for _, part := range strings.Split(s, ",") {
		v := "plain"
		trimmed := strings.TrimSpace(part)
		if trimmed != part {
			v = "sp"
		}
		base, params, has := strings.Cut(trimmed, ";")
		if has {
			switch strings.TrimSpace(params) {
			case "q=0.8":
				v = "q"
			case "charset=utf-8":
				v = "charset"
			default:
				v = "other"
			}
			if strings.TrimSpace(base) != base || trimmed != part {
				v = "other"
			}
		}
		lower := strings.ToLower(base)
		if lower != base {
			if v == "plain" {
				v = "upper"
			} else {
				v = "other"
			}
		}
		m, sub := "", lower
		if i := strings.Index(lower, "/"); i >= 0 {
			m, sub = lower[:i], lower[i+1:]
		}
		if !knownMain[m] {
			m = "other"
		}
		if !knownSub[sub] {
			sub = "other"
		}
		out = append(out, tok{m, sub, v})
	}
	return out
}

// ------------------------------------------------------------------ independent observation helpers

// leadID reads the identifier in front of a blob with encoding/binary (not with formats/varint).
func leadID(b []byte) (id int, n int) {
	x, k := binary.Uvarint(b)
	if k <= 0 || x > 1<<20 {
		return -1, 0
	}
	return int(x), k
}

func gunzip(b []byte) ([]byte, bool) {
	zr, err := gzip.NewReader(bytes.NewReader(b))
	if err != nil {
		return nil, false
	}
	out, err := io.ReadAll(io.LimitReader(zr, 1<<24))
	if err != nil {
		return nil, false
	}
	return out, true
}

func gz(b []byte) []byte {
	var buf bytes.Buffer
	zw := gzip.NewWriter(&buf)
	_, _ = zw.Write(b)
	_ = zw.Close()
	return buf.Bytes()
}

// sniff returns the media-type formats in which an independent decoder reads body back to want.
func sniff(body []byte, v value) []int {
	out := []int{}
	for _, f := range mimeFormats {
		t := v.fresh()
		var err error
		func() {
			defer func() {
				if p := recover(); p != nil {
					err = fmt.Errorf("panic: %v", p)
				}
			}()
			switch f {
			case fJSON:
				err = json.Unmarshal(body, t)
			case fCBOR:
				err = cbor.Unmarshal(body, t)
			case fMsg:
				err = msgpack.Unmarshal(body, t)
			case fYAML:
				err = yaml.Unmarshal(body, t)
			}
		}()
		if err == nil && canon(t) == v.want {
			out = append(out, f)
		}
	}
	return out
}

// rng gives every (directive, kind, iteration) its own stream, so that a replay restricted to one kind
// regenerates the same values.
func rng(d directive, kind string, i int) *rand.Rand {
	hsh := fnv.New64a()
	fmt.Fprintf(hsh, "%d/%s/%d", d.Seed, kind, i)
	return rand.New(rand.NewSource(int64(hsh.Sum64() >> 1)))
}

func kindsFor(d directive, dflt []string) []string {
	if len(d.Kinds) > 0 {
		return d.Kinds
	}
	return dflt
}

func u8(x int) uint8 { return uint8(x) }

// ------------------------------------------------------------------ rt: Dump/Load, DumpAndCompress

func representable(kind string, f int) bool {
	switch f {
	case fRAW:
		return kind == "bytes"
	case fGen:
		return kind == "gen" || kind == "meta"
	}
	return kind != "meta"
}

func resolve(f, dser int) int {
	if f == 0 {
		return dser
	}
	return f
}

func runRT(d directive, r *rand.Rand) {
	for _, kind := range kindsFor(d, allKinds) {
		n := d.N
		if !representable(kind, resolve(d.F, d.Dser)) {
			if kind == "meta" {
				continue
			}
			n = 1
		}
		for i := 0; i < n; i++ {
			v := genValue(kind, rng(d, kind, i))
			vias := []string{"load", "asformat"}
			api := "dump"
			if d.C != none {
				api = "compress"
				vias = []string{"load", "decomp"}
			}
			for _, via := range vias {
				rtOnce(d, v, api, via, i)
			}
		}
		// all dumps of this kind are taken: now load them
		flushLoads()
	}
	// DumpToHTTPRequest belongs to the format driven vectors
	if d.C == none {
		for _, kind := range kindsFor(d, []string{"doc", "gen", "bytes", "strs", "text"}) {
			for i := 0; i < d.N; i++ {
				reqOnce(d, genValue(kind, rng(d, "req/"+kind, i)))
			}
		}
	}
}

// pendingLoads holds the load halves of round trips whose dumps were all taken first: every dump of a group
// is produced before the first one is loaded, so a dump that aliases memory reused by a later dump is seen.
var pendingLoads []func()

func flushLoads() {
	for _, f := range pendingLoads {
		f()
	}
	pendingLoads = nil
}

func rtOnce(d directive, v value, api, via string, i int) {
	ev := event{"e": "rt", "api": api, "f": d.F, "c": d.C, "dser": d.Dser, "kind": v.kind, "via": via,
		"dok": false, "id": -1, "inner": -1, "lok": false, "lraw": false, "lfmt": -1, "want": v.want, "got": ""}
	var blob []byte
	dumped := false
	func() {
		defer func() {
			if p := recover(); p != nil {
				ev["panic"] = fmt.Sprint(p)
			}
		}()
		var err error
		switch {
		case api == "compress":
			blob, err = dsd.DumpAndCompress(v.val, u8(d.F), u8(d.C))
		case i%2 == 1:
			ev["indent"] = true
			blob, err = dsd.DumpIndent(v.val, u8(d.F), "  ")
		default:
			blob, err = dsd.Dump(v.val, u8(d.F))
		}
		if err != nil {
			ev["derr"] = err.Error()
			return
		}
		ev["dok"] = true
		dumped = true
	}()
	if !dumped {
		emit(ev)
		return
	}
	pendingLoads = append(pendingLoads, func() {
		guard(ev, func() {
			var err error
			ev["blob"] = hex.EncodeToString(blob)
			id, n := leadID(blob)
			ev["id"] = id
			if api == "compress" && id == fGZIP {
				if inner, ok := gunzip(blob[n:]); ok {
					ev["inner"], _ = leadID(inner)
				}
			}
			t := v.fresh()
			var lf uint8
			switch via {
			case "load":
				lf, err = dsd.Load(blob, t)
			case "decomp":
				if id < 0 || id > 255 {
					return
				}
				lf, err = dsd.DecompressAndLoad(blob[n:], u8(id), t)
			case "asformat":
				if id < 0 || id > 255 {
					return
				}
				lf = u8(id)
				err = dsd.LoadAsFormat(blob[n:], u8(id), t)
			}
			ev["lfmt"] = int(lf)
			switch {
			case err == nil:
				ev["lok"] = true
				ev["got"] = canon(t)
			case errors.Is(err, dsd.ErrIsRaw):
				ev["lraw"] = true
				if api == "dump" {
					ev["got"] = canon(blob[n:]) // the caller takes the bytes behind the identifier
				}
			default:
				ev["lerr"] = err.Error()
			}
		})
	})
}

// ------------------------------------------------------------------ HTTP

func httpEvent(e string, d directive, v value) event {
	return event{"e": e, "dser": d.Dser, "kind": v.kind, "dok": false, "ct": "", "ctt": []tok{}, "sniff": []int{},
		"lok": false, "lfmt": -1, "want": v.want, "got": ""}
}

// presetOf chooses (from the vector itself: reproducible) whether the message carries a content type before the dump.
func presetOf(d directive, v value) string {
	presets := []string{"", "", "application/json; charset=utf-8", "text/plain", "application/cbor", "application/msgpack"}
	return presets[(d.Dser+d.F+len(v.kind)+len(d.Hdr))%len(presets)]
}

func reqOnce(d directive, v value) {
	ev := httpEvent("req", d, v)
	ev["f"] = d.F
	guard(ev, func() {
		r := httptest.NewRequest(http.MethodPost, "http://verif.test/x", nil)
		if preset := presetOf(d, v); preset != "" {
			// a request object that carries a content type already (a retry with another format, a template)
			r.Header.Set("Content-Type", preset)
			ev["preset"] = preset
		}
		if err := dsd.DumpToHTTPRequest(r, v.val, u8(d.F)); err != nil {
			ev["derr"] = err.Error()
			return
		}
		ev["dok"] = true
		ct := r.Header.Get("Content-Type")
		ev["ct"], ev["ctt"], ev["accept"] = ct, parseHdr(ct), r.Header.Get("Accept")
		body, _ := io.ReadAll(r.Body)
		ev["body"] = hex.EncodeToString(body)
		ev["sniff"] = sniff(body, v)
		r.Body = io.NopCloser(bytes.NewReader(body))
		t := v.fresh()
		lf, err := dsd.LoadFromHTTPRequest(r, t) // the server side
		ev["lfmt"] = int(lf)
		if err != nil {
			ev["lerr"] = err.Error()
			return
		}
		ev["lok"], ev["got"] = true, canon(t)
	})
}

func respOnce(d directive, v value, api string) {
	ev := httpEvent("resp", d, v)
	accept := renderHdr(d.Hdr)
	ev["api"], ev["hdr"], ev["accept"] = api, d.Hdr, accept
	if d.Hdr == nil {
		ev["hdr"] = []tok{}
	}
	guard(ev, func() {
		var body []byte
		var ct string
		var resp *http.Response
		switch api {
		case "resp":
			r := httptest.NewRequest(http.MethodGet, "http://verif.test/x", nil)
			if len(d.Hdr) > 0 {
				r.Header.Set("Accept", accept)
			}
			w := httptest.NewRecorder()
			if preset := presetOf(d, v); preset != "" {
				// a response writer on which a middleware has set a default content type
				w.Header().Set("Content-Type", preset)
				ev["preset"] = preset
			}
			if err := dsd.DumpToHTTPResponse(w, r, v.val); err != nil {
				ev["derr"] = err.Error()
				return
			}
			resp = w.Result()
			ct = resp.Header.Get("Content-Type")
			body, _ = io.ReadAll(resp.Body)
			resp.Body = io.NopCloser(bytes.NewReader(body))
		case "mime":
			data, mt, f, err := dsd.MimeDump(v.val, accept)
			if err != nil {
				ev["derr"] = err.Error()
				return
			}
			body, ct = data, mt
			ev["rfmt"] = int(f)
		}
		ev["dok"] = true
		ev["ct"], ev["ctt"] = ct, parseHdr(ct)
		ev["body"] = hex.EncodeToString(body)
		ev["sniff"] = sniff(body, v)
		t := v.fresh()
		var lf uint8
		var err error
		if api == "resp" {
			lf, err = dsd.LoadFromHTTPResponse(resp, t) // the client side
		} else {
			lf, err = dsd.MimeLoad(body, ct, t)
		}
		ev["lfmt"] = int(lf)
		if err != nil {
			ev["lerr"] = err.Error()
			return
		}
		ev["lok"], ev["got"] = true, canon(t)
	})
}

// encodeIndependently produces a body in format fb without dsd.
func encodeIndependently(v any, fb int) ([]byte, error) {
	switch fb {
	case fJSON:
		return json.Marshal(v)
	case fCBOR:
		return cbor.Marshal(v)
	case fMsg:
		return msgpack.Marshal(v)
	case fYAML:
		return yaml.Marshal(v)
	}
	return nil, errors.New("no such format")
}

func cloadOnce(d directive, v value, api string, fb int) {
	ct := renderHdr(d.Hdr)
	ev := event{"e": "cload", "api": api, "hdr": d.Hdr, "ct": ct, "fb": fb, "dser": d.Dser, "kind": v.kind,
		"lok": false, "lfmt": -1, "want": v.want, "got": ""}
	if d.Hdr == nil {
		ev["hdr"] = []tok{}
	}
	body, err := encodeIndependently(v.val, fb)
	if err != nil {
		return
	}
	ev["body"] = hex.EncodeToString(body)
	guard(ev, func() {
		t := v.fresh()
		var lf uint8
		var err error
		if api == "req" {
			r := httptest.NewRequest(http.MethodPost, "http://verif.test/x", bytes.NewReader(body))
			if len(d.Hdr) > 0 {
				r.Header.Set("Content-Type", ct)
			}
			lf, err = dsd.LoadFromHTTPRequest(r, t)
		} else {
			resp := &http.Response{StatusCode: 200, Header: http.Header{}, Body: io.NopCloser(bytes.NewReader(body))}
			if len(d.Hdr) > 0 {
				resp.Header.Set("Content-Type", ct)
			}
			lf, err = dsd.LoadFromHTTPResponse(resp, t)
		}
		ev["lfmt"] = int(lf)
		if err != nil {
			ev["lerr"] = err.Error()
			return
		}
		ev["lok"], ev["got"] = true, canon(t)
	})
}

func runHdr(d directive, r *rand.Rand) {
	kinds := kindsFor(d, []string{"doc", "gen", "bytes", "strs", "text"})
	for i := 0; i < d.N; i++ {
		kind := kinds[(i+int(d.Seed%97))%len(kinds)]
		v := genValue(kind, rng(d, kind, i))
		respOnce(d, v, "resp")
		respOnce(d, v, "mime")
		fb := mimeFormats[(i+int(d.Seed%89))%len(mimeFormats)]
		for _, t := range d.Hdr { // prefer the body format the label talks about
			if f, ok := map[string]int{"json": fJSON, "cbor": fCBOR, "msgpack": fMsg, "yaml": fYAML}[t.S]; ok && i%2 == 0 {
				fb = f
				break
			}
		}
		cloadOnce(d, v, "req", fb)
		cloadOnce(d, v, "resp", fb)
	}
}

// ------------------------------------------------------------------ echo over a loopback socket

var (
	srv      *httptest.Server
	srvFresh func() any
	srvEv    event

	noLoopback bool
)

func server() *httptest.Server {
	if srv != nil || noLoopback {
		return srv
	}
	ln, err := net.Listen("tcp", "127.0.0.1:0")
	if err != nil {
		noLoopback = true // no sockets in this environment: the echo cases are not run
		return nil
	}
	srv = httptest.NewUnstartedServer(http.HandlerFunc(func(w http.ResponseWriter, r *http.Request) {
		defer func() {
			if p := recover(); p != nil {
				srvEv["panic"] = fmt.Sprint(p)
				w.WriteHeader(500)
			}
		}()
		t := srvFresh()
		f, err := dsd.LoadFromHTTPRequest(r, t)
		srvEv["sfmt"] = int(f)
		if err != nil {
			srvEv["serr"] = err.Error()
			w.WriteHeader(400)
			return
		}
		srvEv["sok"], srvEv["sgot"] = true, canon(t)
		if err := dsd.DumpToHTTPResponse(w, r, t); err != nil {
			srvEv["rerr"] = err.Error()
			return
		}
		srvEv["rok"] = true
	}))
	srv.Listener.Close()
	srv.Listener = ln
	srv.Start()
	return srv
}

func echoOnce(d directive, v value) {
	s := server()
	if s == nil {
		return
	}
	ev := httpEvent("echo", d, v)
	ev["f"], ev["sok"], ev["sfmt"], ev["sgot"], ev["rok"] = d.F, false, -1, "", false
	guard(ev, func() {
		srvFresh, srvEv = v.fresh, ev
		r, err := http.NewRequest(http.MethodPost, s.URL+"/echo", nil)
		if err != nil {
			panic(err)
		}
		if err := dsd.DumpToHTTPRequest(r, v.val, u8(d.F)); err != nil {
			ev["derr"] = err.Error()
			return
		}
		ev["dok"] = true
		resp, err := s.Client().Do(r)
		if err != nil {
			ev["neterr"] = err.Error()
			return
		}
		defer resp.Body.Close()
		body, _ := io.ReadAll(resp.Body)
		resp.Body = io.NopCloser(bytes.NewReader(body))
		ct := resp.Header.Get("Content-Type")
		ev["ct"], ev["ctt"] = ct, parseHdr(ct)
		ev["body"] = hex.EncodeToString(body)
		ev["sniff"] = sniff(body, v)
		t := v.fresh()
		lf, err := dsd.LoadFromHTTPResponse(resp, t)
		ev["lfmt"] = int(lf)
		if err != nil {
			ev["lerr"] = err.Error()
			return
		}
		ev["lok"], ev["got"] = true, canon(t)
	})
}

func runEcho(d directive, r *rand.Rand) {
	for _, kind := range kindsFor(d, []string{"doc", "gen", "bytes", "strs", "text"}) {
		for i := 0; i < d.N; i++ {
			echoOnce(d, genValue(kind, rng(d, kind, i)))
		}
	}
}

// ------------------------------------------------------------------ totality

func targets() map[string]func() any {
	return map[string]func() any{
		"doc":   func() any { return &Doc{} },
		"gen":   func() any { return &GenDoc{} },
		"meta":  func() any { return &record.Meta{} },
		"bytes": func() any { return &[]byte{} },
		"strs":  func() any { return &[]string{} },
		"text":  func() any { return new(string) },
		"map":   func() any { return &map[string]any{} },
		"any":   func() any { var x any; return &x },
	}
}

var targetNames = []string{"doc", "gen", "meta", "bytes", "strs", "text", "map", "any"}

func totalOnce(api, cls string, data []byte, target string, f int) {
	ev := event{"e": "total", "api": api, "cls": cls, "n": len(data), "target": target, "fmt": f, "ok": false, "hex": ""}
	if len(data) <= 1<<16 {
		ev["hex"] = hex.EncodeToString(data)
	} else {
		ev["big"] = true // reproduced from the directive
	}
	// a decoder may kill the process (allocation of a length read from the data): leave a mark
	tr.EmitRaw(map[string]any{"e": "try", "h": h, "api": api, "cls": cls, "target": target, "fmt": f, "hex": ev["hex"], "n": len(data)})
	tr.Flush()
	guard(ev, func() {
		t := targets()[target]()
		var err error
		switch api {
		case "Load":
			_, err = dsd.Load(data, t)
		case "DecompressAndLoad":
			_, err = dsd.DecompressAndLoad(data, u8(f), t)
		case "LoadAsFormat":
			err = dsd.LoadAsFormat(data, u8(f), t)
		case "MimeLoad":
			_, err = dsd.MimeLoad(data, dsd.FormatToMimeType[u8(f)], t)
		case "LoadFromHTTPRequest":
			r := httptest.NewRequest(http.MethodPost, "http://verif.test/x", bytes.NewReader(data))
			r.Header.Set("Content-Type", dsd.FormatToMimeType[u8(f)])
			_, err = dsd.LoadFromHTTPRequest(r, t)
		}
		ev["ok"] = err == nil
	})
}

func setID(blob []byte, x int) []byte {
	_, n := leadID(blob)
	return append(binary.AppendUvarint(nil, uint64(x)), blob[n:]...)
}

func mutate(blob []byte, mk string, ma int, r *rand.Rand) ([]byte, bool) {
	b := append([]byte(nil), blob...)
	switch mk {
	case "trunc":
		if ma > len(b) {
			return nil, false
		}
		return b[:ma], true
	case "cutend":
		if ma > len(b) {
			return nil, false
		}
		return b[:len(b)-ma], true
	case "setid":
		return setID(b, ma), true
	case "flip":
		if len(b) == 0 {
			return nil, false
		}
		pos := ma
		if ma >= 8 {
			pos = (ma - 7) * (len(b) - 1) / 8
		}
		if pos >= len(b) {
			return nil, false
		}
		b[pos] ^= byte(1 << uint(r.Intn(8)))
		return b, true
	case "tail":
		for i := 0; i < ma; i++ {
			b = append(b, byte(r.Intn(256)))
		}
		return b, true
	case "rewrap":
		for i := 0; i < ma; i++ {
			b = append([]byte{fGZIP}, gz(b)...)
		}
		return b, true
	case "innerid", "innertrunc":
		_, n := leadID(b)
		inner, ok := gunzip(b[n:])
		if !ok {
			return nil, false
		}
		if mk == "innerid" {
			inner = setID(inner, ma)
		} else {
			if ma > len(inner) {
				return nil, false
			}
			inner = inner[:ma]
		}
		return append([]byte{fGZIP}, gz(inner)...), true
	case "lenbomb":
		id, n := leadID(b)
		wrapped := false
		if id == fGZIP {
			inner, ok := gunzip(b[n:])
			if !ok {
				return nil, false
			}
			b, wrapped = inner, true
			id, n = leadID(b)
		}
		hdr, ok := bombs[id]
		if !ok || n == 0 {
			return nil, false
		}
		out := append(append(append([]byte(nil), b[:n]...), hdr[ma]...), b[n:]...)
		if wrapped {
			out = append([]byte{fGZIP}, gz(out)...)
		}
		return out, true
	case "nest":
		id, n := leadID(b)
		wrapped := false
		if id == fGZIP {
			inner, ok := gunzip(b[n:])
			if !ok {
				return nil, false
			}
			b, wrapped = inner, true
			id, n = leadID(b)
		}
		open, ok := nesters[id]
		if !ok || n == 0 {
			return nil, false
		}
		depth := 1
		for i := 0; i < ma; i++ {
			depth *= 10
		}
		out := append(append([]byte(nil), b[:n]...), bytes.Repeat(open, depth)...)
		out = append(out, b[n:]...)
		if wrapped {
			out = append([]byte{fGZIP}, gz(out)...)
		}
		return out, true
	case "gzhdr":
		if 1+ma >= len(b) {
			return nil, false
		}
		b[1+ma] ^= byte(1 << uint(r.Intn(8)))
		return b, true
	}
	return nil, false
}

// collection headers that declare far more elements/bytes than the data holds (strings: 256 MiB, which
// some decoders really allocate; collections: 2^31-1 and more)
var bombs = map[int][][]byte{
	fMsg: {
		{0xdf, 0x7f, 0xff, 0xff, 0xff},       // map32
		{0xdf, 0x37, 0xa4, 0xb0, 0xcb},       // map32
		{0xdd, 0x7f, 0xff, 0xff, 0xff},       // array32
		{0xdb, 0x0f, 0xff, 0xff, 0xff},       // str32
		{0xc6, 0x0f, 0xff, 0xff, 0xff},       // bin32
		{0xde, 0xff, 0xff},                   // map16
		{0x91, 0xdf, 0x7f, 0xff, 0xff, 0xff}, // [map32]
		{0xc9, 0x0f, 0xff, 0xff, 0xff, 0x01}, // ext32
	},
	fCBOR: {
		{0xbb, 0, 0, 0, 0, 0x7f, 0xff, 0xff, 0xff},                   // map, 8 byte length
		{0xba, 0x37, 0xa4, 0xb0, 0xcb},                               // map, 4 byte length
		{0x9a, 0x7f, 0xff, 0xff, 0xff},                               // array
		{0x7a, 0x0f, 0xff, 0xff, 0xff},                               // text
		{0x5a, 0x0f, 0xff, 0xff, 0xff},                               // bytes
		{0xb9, 0xff, 0xff},                                           // map, 2 byte length
		{0x81, 0xba, 0x7f, 0xff, 0xff, 0xff},                         // [map]
		{0xc1, 0x9b, 0x7f, 0xff, 0xff, 0xff, 0xff, 0xff, 0xff, 0xff}, // tag 1, array with 2^63-1 elements
	},
}

// openers of a one-element collection: repeated, they nest the payload deeply
var nesters = map[int][]byte{fMsg: {0x91}, fCBOR: {0x81}, fJSON: {'['}, fYAML: {'['}}

func runCorrupt(d directive, r *rand.Rand) {
	F := resolve(d.F, fJSON)
	var kinds []string
	switch F {
	case fRAW:
		kinds = []string{"bytes"}
	case fGen:
		kinds = []string{"gen", "meta"}
	default:
		kinds = []string{"doc", "text", "gen", "strs"}
	}
	for i := 0; i < d.N; i++ {
		kind := kinds[(i+int(d.Seed%97))%len(kinds)]
		v := genValue(kind, r)
		var blob []byte
		var err error
		if d.C == none {
			blob, err = dsd.Dump(v.val, u8(F))
		} else {
			blob, err = dsd.DumpAndCompress(v.val, u8(F), u8(d.C))
		}
		if err != nil {
			continue
		}
		bad, ok := mutate(blob, d.Mk, d.Ma, r)
		if !ok {
			continue
		}
		cls := fmt.Sprintf("%s:%d:f%d:c%d", d.Mk, d.Ma, d.F, d.C)
		tns := []string{kind, "any", targetNames[(i+d.Ma)%len(targetNames)]}
		if d.Mk == "lenbomb" || (d.Mk == "nest" && d.Ma < 6) {
			tns = targetNames
		}
		for _, tn := range tns {
			totalOnce("Load", cls, bad, tn, 0)
		}
		_, n := leadID(bad)
		if n > 0 && n <= len(bad) {
			if d.C != none {
				totalOnce("DecompressAndLoad", cls, bad[n:], kind, fGZIP)
			} else {
				totalOnce("LoadAsFormat", cls, bad[n:], kind, F)
				if _, ok := dsd.FormatToMimeType[u8(F)]; ok {
					totalOnce("MimeLoad", cls, bad[n:], kind, F)
				}
			}
		}
	}
}

var leadBytes = []byte{0, 1, 2, 67, 71, 74, 76, 77, 89, 90, 91, 127, 128, 129, 200, 255}

func runRandom(d directive, r *rand.Rand) {
	for i := 0; i < d.N; i++ {
		n := r.Intn(48)
		b := make([]byte, n)
		for j := range b {
			switch r.Intn(5) {
			case 0:
				b[j] = byte(r.Intn(32)) // small values: lengths, type tags
			case 1:
				const punct = "{}[]\":,-\n a1"
				b[j] = punct[r.Intn(len(punct))]
			case 2:
				b[j] = 0x80 | byte(r.Intn(128))
			default:
				b[j] = byte(r.Intn(256))
			}
		}
		cls := "random"
		switch r.Intn(4) {
		case 0: // as is
		case 1, 2:
			if n > 0 {
				b[0] = leadBytes[r.Intn(len(leadBytes))]
				cls = "random:id"
			}
		case 3:
			inner := b
			if n > 0 && r.Intn(2) == 0 {
				inner[0] = leadBytes[r.Intn(len(leadBytes))]
			}
			b = append([]byte{fGZIP}, gz(inner)...)
			cls = "random:gz"
		}
		tn := targetNames[r.Intn(len(targetNames))]
		totalOnce("Load", cls, b, tn, 0)
		totalOnce("Load", cls, b, "any", 0)
		f := []int{fRAW, fCBOR, fGen, fJSON, fMsg, fYAML, fGZIP, 0, 76, 200}[r.Intn(10)]
		totalOnce("LoadAsFormat", cls, b, tn, f)
		totalOnce("DecompressAndLoad", cls, b, tn, []int{fGZIP, 0, fJSON, 200}[r.Intn(4)])
		mf := mimeFormats[r.Intn(4)]
		totalOnce("MimeLoad", cls, b, tn, mf)
		if i%8 == 0 {
			totalOnce("LoadFromHTTPRequest", cls, b, tn, mf)
		}
	}
}

// ------------------------------------------------------------------ main

func run(d directive) {
	r := rand.New(rand.NewSource(d.Seed))
	if d.N <= 0 {
		d.N = 1
	}
	old := dsd.DefaultSerializationFormat
	if d.Dser != 0 {
		dsd.DefaultSerializationFormat = u8(d.Dser)
	} else {
		d.Dser = int(old)
	}
	defer func() { dsd.DefaultSerializationFormat = old }()
	switch d.T {
	case "rt":
		runRT(d, r)
	case "hdr":
		runHdr(d, r)
	case "echo":
		runEcho(d, r)
	case "corrupt":
		runCorrupt(d, r)
	case "random":
		runRandom(d, r)
	case "bytes":
		if b, err := hex.DecodeString(d.Hex); err == nil {
			totalOnce(d.API, "bytes", b, d.Target, d.Fmt)
		}
	}
}

func main() {
	if len(os.Args) < 3 {
		fmt.Fprintln(os.Stderr, "usage: dsdx <directives> <trace> [skip]")
		os.Exit(2)
	}
	// A decoder that allocates what a length field in the data says must not take the machine down:
	// the address space is bounded at 12 GiB, so the runtime gives up at once on a larger request
	// ("out of memory": the process dies, which the check reports). Allocations of a few GiB succeed
	// as on any ordinary machine; the soft memory limit makes the collector return them before the
	// next call, so that only a single huge request can hit the bound.
	lim := syscall.Rlimit{Cur: 12 << 30, Max: 12 << 30}
	_ = syscall.Setrlimit(syscall.RLIMIT_AS, &lim)
	debug.SetMemoryLimit(1 << 30)
	skip := 0
	if len(os.Args) > 3 {
		skip, _ = strconv.Atoi(os.Args[3])
	}
	var err error
	tr, err = vio.NewTrace(os.Args[2])
	if err != nil {
		fmt.Fprintln(os.Stderr, err)
		os.Exit(2)
	}
	err = vio.ReadLines(os.Args[1], func(line []byte) error {
		if h < skip {
			h++
			return nil
		}
		var d directive
		if err := json.Unmarshal(line, &d); err != nil {
			return err
		}
		tr.EmitRaw(map[string]any{"e": "try", "h": h})
		tr.Flush()
		run(d)
		h++
		return nil
	})
	if srv != nil {
		srv.Close()
	}
	tr.Close()
	if err != nil {
		fmt.Fprintln(os.Stderr, err)
		os.Exit(2)
	}
}
