package main

import (
	"encoding/binary"
	"errors"
	"fmt"
	"math/rand"
	"reflect"
	"sort"
	"strconv"
	"strings"

	"github.com/safing/portbase/database/record"
)

// ---------------------------------------------------------------------------------------------
// Harness schema: the values that travel through dsd.
// ---------------------------------------------------------------------------------------------

// Inner is nested in Doc (by value, by pointer, in slices and maps).
type Inner struct {
	N int32
	T string
	B []byte
	P *int64
	M map[string]string
}

// Doc is the main value kind ("doc").
type Doc struct {
	I8   int8
	I16  int16
	I32  int32
	I64  int64
	I    int
	U8   uint8
	U16  uint16
	U32  uint32
	U64  uint64
	U    uint
	Flag bool
	S    string
	PS   *string
	B    []byte
	SS   []string
	M    map[string]int64
	MI   map[string]Inner
	In   Inner
	PIn  *Inner
	L    []Inner
	LP   []*Inner
}

// GenDoc has a hand written, bounds checked GenCode codec ("gen"); as a plain struct it also goes
// through every other format.
type GenDoc struct {
	A int64
	U uint32
	F bool
	S string
	B []byte
	L []string
}

// GenCodeMarshal implements dsd.GenCodeCompatible.
func (g *GenDoc) GenCodeMarshal(buf []byte) ([]byte, error) {
	out := buf[:0]
	out = binary.LittleEndian.AppendUint64(out, uint64(g.A))
	out = binary.LittleEndian.AppendUint32(out, g.U)
	if g.F {
		out = append(out, 1)
	} else {
		out = append(out, 0)
	}
	out = binary.AppendUvarint(out, uint64(len(g.S)))
	out = append(out, g.S...)
	out = binary.AppendUvarint(out, uint64(len(g.B)))
	out = append(out, g.B...)
	out = binary.AppendUvarint(out, uint64(len(g.L)))
	for _, s := range g.L {
		out = binary.AppendUvarint(out, uint64(len(s)))
		out = append(out, s...)
	}
	return out, nil
}

var errShort = errors.New("gendoc: insufficient data")

func takeBlock(buf []byte, i uint64) ([]byte, uint64, error) {
	if i > uint64(len(buf)) {
		return nil, 0, errShort
	}
	l, n := binary.Uvarint(buf[i:])
	if n <= 0 {
		return nil, 0, errShort
	}
	i += uint64(n)
	if l > uint64(len(buf))-i {
		return nil, 0, errShort
	}
	return buf[i : i+l], i + l, nil
}

// GenCodeUnmarshal implements dsd.GenCodeCompatible.
func (g *GenDoc) GenCodeUnmarshal(buf []byte) (uint64, error) {
	if len(buf) < 13 {
		return 0, errShort
	}
	g.A = int64(binary.LittleEndian.Uint64(buf))
	g.U = binary.LittleEndian.Uint32(buf[8:])
	g.F = buf[12] == 1
	i := uint64(13)
	b, i, err := takeBlock(buf, i)
	if err != nil {
		return 0, err
	}
	g.S = string(b)
	b, i, err = takeBlock(buf, i)
	if err != nil {
		return 0, err
	}
	g.B = append([]byte(nil), b...)
	cnt, n := binary.Uvarint(buf[i:])
	if n <= 0 || cnt > uint64(len(buf)) {
		return 0, errShort
	}
	i += uint64(n)
	g.L = nil
	for k := uint64(0); k < cnt; k++ {
		b, i, err = takeBlock(buf, i)
		if err != nil {
			return 0, err
		}
		g.L = append(g.L, string(b))
	}
	return i, nil
}

// ---------------------------------------------------------------------------------------------
// Canonical text: nil and empty slices/maps are the same, everything else is spelled out.
// ---------------------------------------------------------------------------------------------

func canon(x any) string {
	v := reflect.ValueOf(x)
	if v.Kind() == reflect.Ptr && !v.IsNil() {
		v = v.Elem()
	}
	var sb strings.Builder
	canonV(&sb, v)
	return sb.String()
}

func canonV(sb *strings.Builder, v reflect.Value) {
	switch v.Kind() {
	case reflect.Invalid:
		sb.WriteString("nil")
	case reflect.Bool:
		sb.WriteString(strconv.FormatBool(v.Bool()))
	case reflect.Int, reflect.Int8, reflect.Int16, reflect.Int32, reflect.Int64:
		sb.WriteString(strconv.FormatInt(v.Int(), 10))
	case reflect.Uint, reflect.Uint8, reflect.Uint16, reflect.Uint32, reflect.Uint64:
		sb.WriteString(strconv.FormatUint(v.Uint(), 10))
	case reflect.Float32, reflect.Float64:
		sb.WriteString(strconv.FormatFloat(v.Float(), 'g', -1, 64))
	case reflect.String:
		sb.WriteString(strconv.QuoteToASCII(v.String()))
	case reflect.Ptr, reflect.Interface:
		if v.IsNil() {
			sb.WriteString("nil")
			return
		}
		if v.Kind() == reflect.Ptr {
			sb.WriteString("&")
		}
		canonV(sb, v.Elem())
	case reflect.Slice, reflect.Array:
		if v.Kind() == reflect.Slice && v.Type().Elem().Kind() == reflect.Uint8 {
			sb.WriteString("x'")
			for i := 0; i < v.Len(); i++ {
				fmt.Fprintf(sb, "%02x", v.Index(i).Uint())
			}
			sb.WriteString("'")
			return
		}
		sb.WriteString("[")
		for i := 0; i < v.Len(); i++ {
			if i > 0 {
				sb.WriteString(",")
			}
			canonV(sb, v.Index(i))
		}
		sb.WriteString("]")
	case reflect.Map:
		keys := v.MapKeys()
		sort.Slice(keys, func(i, j int) bool { return fmt.Sprint(keys[i]) < fmt.Sprint(keys[j]) })
		sb.WriteString("{")
		for i, k := range keys {
			if i > 0 {
				sb.WriteString(",")
			}
			canonV(sb, k)
			sb.WriteString(":")
			canonV(sb, v.MapIndex(k))
		}
		sb.WriteString("}")
	case reflect.Struct:
		sb.WriteString("{")
		for i := 0; i < v.NumField(); i++ {
			if i > 0 {
				sb.WriteString(",")
			}
			sb.WriteString(v.Type().Field(i).Name)
			sb.WriteString(":")
			canonV(sb, v.Field(i))
		}
		sb.WriteString("}")
	default:
		sb.WriteString("?" + v.Kind().String())
	}
}

// ---------------------------------------------------------------------------------------------
// Seeded generators
// ---------------------------------------------------------------------------------------------

var stringPool = []string{
	"", "a", "hello world", "ünïcödé", "日本語", "emoji \U0001F600", "line\nbreak", "tab\there",
	"quote\"back\\slash", "true", "null", "123", "1e3", "~", " leading", "trailing ", ": colon", "- dash", "#hash",
	"{brace}", "[x]", "<html>&amp;", "'single'", "%", "@at", "`", "|", ">", "yes", "No", "0x1F", "1_000", ".5", "+1",
	"2001-01-01", " ", " nbsp", "Жук", "key: value", "a,b", "\r\n", "\\n", "é", "\U00010348",
}

func genString(r *rand.Rand) string {
	switch r.Intn(4) {
	case 0:
		n := r.Intn(12)
		rs := make([]rune, n)
		alpha := []rune("abcXYZ 019_-./:;äßñ中文ж\U0001F680")
		for i := range rs {
			rs[i] = alpha[r.Intn(len(alpha))]
		}
		return string(rs)
	default:
		return stringPool[r.Intn(len(stringPool))]
	}
}

func genBytes(r *rand.Rand) []byte {
	switch r.Intn(6) {
	case 0:
		return nil
	case 1:
		return []byte{}
	case 2:
		return []byte{byte(r.Intn(256))}
	}
	b := make([]byte, 1+r.Intn(24))
	for i := range b {
		b[i] = byte(r.Intn(256))
	}
	return b
}

const lim53 = int64(1) << 53

// genInt returns a value in [lo, hi] clipped to +-2^53, boundary biased.
func genInt(r *rand.Rand, lo, hi int64) int64 {
	if lo < -lim53 {
		lo = -lim53
	}
	if hi > lim53 {
		hi = lim53
	}
	switch r.Intn(8) {
	case 0:
		return 0
	case 1:
		return lo
	case 2:
		return hi
	case 3:
		if lo < 0 {
			return -1
		}
		return 1
	case 4:
		return hi - 1
	}
	span := uint64(hi - lo)
	bits := uint(1 + r.Intn(54))
	x := r.Uint64() >> (64 - bits)
	if span != 0 {
		x %= span + 1
	}
	return lo + int64(x)
}

func genStrings(r *rand.Rand) []string {
	switch r.Intn(5) {
	case 0:
		return nil
	case 1:
		return []string{}
	}
	s := make([]string, 1+r.Intn(4))
	for i := range s {
		s[i] = genString(r)
	}
	return s
}

func genInner(r *rand.Rand) Inner {
	in := Inner{N: int32(genInt(r, -1<<31, 1<<31-1)), T: genString(r), B: genBytes(r)}
	if r.Intn(2) == 0 {
		x := genInt(r, -lim53, lim53)
		in.P = &x
	}
	switch r.Intn(3) {
	case 0:
		in.M = map[string]string{}
	case 1:
		in.M = map[string]string{}
		for i := r.Intn(3) + 1; i > 0; i-- {
			in.M[genKey(r)] = genString(r)
		}
	}
	return in
}

func genKey(r *rand.Rand) string {
	keys := []string{"a", "b", "key", "K", "ü", "with space", "1", "true", "null", "x.y", "日", "~", "- d", "k:v"}
	return keys[r.Intn(len(keys))]
}

func genDoc(r *rand.Rand) *Doc {
	if r.Intn(12) == 0 {
		return &Doc{} // all zero, all nil
	}
	d := &Doc{
		I8:   int8(genInt(r, -128, 127)),
		I16:  int16(genInt(r, -1<<15, 1<<15-1)),
		I32:  int32(genInt(r, -1<<31, 1<<31-1)),
		I64:  genInt(r, -lim53, lim53),
		I:    int(genInt(r, -lim53, lim53)),
		U8:   uint8(genInt(r, 0, 255)),
		U16:  uint16(genInt(r, 0, 1<<16-1)),
		U32:  uint32(genInt(r, 0, 1<<32-1)),
		U64:  uint64(genInt(r, 0, lim53)),
		U:    uint(genInt(r, 0, lim53)),
		Flag: r.Intn(2) == 0,
		S:    genString(r),
		B:    genBytes(r),
		SS:   genStrings(r),
		In:   genInner(r),
	}
	if r.Intn(2) == 0 {
		s := genString(r)
		d.PS = &s
	}
	switch r.Intn(3) {
	case 0:
		d.M = map[string]int64{}
	case 1:
		d.M = map[string]int64{}
		for i := r.Intn(4) + 1; i > 0; i-- {
			d.M[genKey(r)] = genInt(r, -lim53, lim53)
		}
	}
	if r.Intn(2) == 0 {
		d.MI = map[string]Inner{}
		for i := r.Intn(3); i > 0; i-- {
			d.MI[genKey(r)] = genInner(r)
		}
	}
	if r.Intn(2) == 0 {
		in := genInner(r)
		if r.Intn(4) == 0 {
			in = Inner{}
		}
		d.PIn = &in
	}
	switch r.Intn(3) {
	case 0:
		d.L = []Inner{}
	case 1:
		for i := r.Intn(3) + 1; i > 0; i-- {
			d.L = append(d.L, genInner(r))
		}
	}
	if r.Intn(2) == 0 {
		for i := r.Intn(3) + 1; i > 0; i-- {
			if r.Intn(3) == 0 {
				d.LP = append(d.LP, nil)
			} else {
				in := genInner(r)
				d.LP = append(d.LP, &in)
			}
		}
	}
	return d
}

func genGen(r *rand.Rand) *GenDoc {
	if r.Intn(10) == 0 {
		return &GenDoc{}
	}
	return &GenDoc{
		A: genInt(r, -lim53, lim53), U: uint32(genInt(r, 0, 1<<32-1)), F: r.Intn(2) == 0,
		S: genString(r), B: genBytes(r), L: genStrings(r),
	}
}

func genMeta(r *rand.Rand) *record.Meta {
	full := func() int64 {
		switch r.Intn(5) {
		case 0:
			return 0
		case 1:
			return -1 << 63
		case 2:
			return 1<<63 - 1
		}
		return int64(r.Uint64())
	}
	m := &record.Meta{Created: full(), Modified: full(), Expires: full(), Deleted: full()}
	if r.Intn(2) == 0 {
		m.MakeSecret()
	}
	if r.Intn(2) == 0 {
		m.MakeCrownJewel()
	}
	return m
}

// value is one generated subject: what is handed to the dump side, how to make an empty target for
// the load side, and the canonical text.
type value struct {
	kind  string
	val   any
	fresh func() any
	want  string
}

var allKinds = []string{"doc", "gen", "meta", "bytes", "strs", "text"}

func genValue(kind string, r *rand.Rand) value {
	v := value{kind: kind}
	switch kind {
	case "doc":
		v.val, v.fresh = genDoc(r), func() any { return &Doc{} }
	case "gen":
		v.val, v.fresh = genGen(r), func() any { return &GenDoc{} }
	case "meta":
		v.val, v.fresh = genMeta(r), func() any { return &record.Meta{} }
	case "bytes":
		b := genBytes(r)
		if b == nil {
			b = []byte{}
		}
		v.val, v.fresh = b, func() any { return &[]byte{} }
	case "strs":
		s := genStrings(r)
		if s == nil {
			s = []string{}
		}
		v.val, v.fresh = s, func() any { return &[]string{} }
	case "text":
		v.val, v.fresh = genString(r), func() any { return new(string) }
	default:
		panic("unknown kind " + kind)
	}
	v.want = canon(v.val)
	return v
}
