// Command hookx replays one schedule (behaviour of spec/HookCancel.tla) of database operations whose hooks are
// gates against concurrent RegisteredHook.Cancel calls on the real database package (property C14, hooks under
// concurrency).  One process per script.
//
// usage: hookx <script.ndjson> <trace.ndjson> [skip]
package main

import (
	"encoding/json"
	"fmt"
	"os"
	"sync"
	"time"

	"github.com/safing/portbase/database"
	"github.com/safing/portbase/database/query"
	"github.com/safing/portbase/database/record"
	_ "github.com/safing/portbase/database/storage/hashmap"
	"github.com/safing/portbase/log"

	"verifharness/internal/sched"
	"verifharness/internal/vio"
)

type script struct {
	Hooks   int    `json:"hooks"`
	Cancels []int  `json:"cancels"`
	Ops     int    `json:"ops"`
	Kind    string `json:"kind"` // put | get
	Policy  []int  `json:"policy"`
}

type rec struct {
	record.Base
	sync.Mutex
	N int
}

var (
	tr  *vio.Trace
	sch *sched.Sched
)

func emit(ev map[string]any) {
	ev["h"] = 0
	tr.Emit(ev)
}

type gateHook struct {
	database.HookBase
	id   int
	kind string
}

func (g *gateHook) UsesPrePut() bool  { return g.kind == "put" }
func (g *gateHook) UsesPreGet() bool  { return g.kind == "get" }
func (g *gateHook) UsesPostGet() bool { return false }

func (g *gateHook) park() {
	o := 0
	fmt.Sscanf(sch.Actor(), "o%d", &o)
	emit(map[string]any{"e": "hookbegin", "o": o, "hk": g.id})
	sch.Yield("hook", "")
	emit(map[string]any{"e": "hookend", "o": o, "hk": g.id})
}

func (g *gateHook) PrePut(r record.Record) (record.Record, error) {
	g.park()
	return r, nil
}

func (g *gateHook) PreGet(string) error {
	g.park()
	return nil
}

func main() {
	if len(os.Args) < 3 {
		fmt.Fprintln(os.Stderr, "usage: hookx <script> <trace> [skip]")
		os.Exit(2)
	}
	var sc script
	first := true
	err := vio.ReadLines(os.Args[1], func(line []byte) error {
		if !first {
			return nil
		}
		first = false
		return json.Unmarshal(line, &sc)
	})
	if err != nil {
		fmt.Fprintln(os.Stderr, err)
		os.Exit(2)
	}
	tr, err = vio.NewTrace(os.Args[2])
	if err != nil {
		fmt.Fprintln(os.Stderr, err)
		os.Exit(2)
	}
	sch = sched.New()
	log.SetLogLevel(log.CriticalLevel)
	root, err := os.MkdirTemp("", "verif-hookx-")
	if err != nil {
		fmt.Fprintln(os.Stderr, err)
		os.Exit(2)
	}
	defer os.RemoveAll(root)
	if err := database.InitializeWithPath(root); err != nil {
		fmt.Fprintln(os.Stderr, err)
		os.Exit(2)
	}
	if _, err := database.Register(&database.Database{Name: "hookx", Description: "verif", StorageType: "hashmap"}); err != nil {
		fmt.Fprintln(os.Stderr, err)
		os.Exit(2)
	}
	if sc.Kind == "" {
		sc.Kind = "put"
	}
	db := database.NewInterface(&database.Options{Local: true, Internal: true})
	seed := &rec{N: 0}
	seed.SetKey("hookx:k")
	if err := db.Put(seed); err != nil {
		fmt.Fprintln(os.Stderr, err)
		os.Exit(2)
	}
	emit(map[string]any{"e": "init", "hooks": sc.Hooks, "ops": sc.Ops, "kind": sc.Kind})
	hooks := make([]*database.RegisteredHook, sc.Hooks+1)
	for h := 1; h <= sc.Hooks; h++ {
		rh, err := database.RegisterHook(query.New("hookx:"), &gateHook{id: h, kind: sc.Kind})
		if err != nil {
			fmt.Fprintln(os.Stderr, err)
			os.Exit(2)
		}
		hooks[h] = rh
	}
	var wg sync.WaitGroup
	launched := map[int]bool{}
	for _, a := range sc.Policy {
		switch {
		case a > 0 && !launched[a]:
			launched[a] = true
			o := a
			wg.Add(1)
			go func() {
				defer wg.Done()
				sch.Bind(fmt.Sprintf("o%d", o))
				defer sch.Unbind()
				emit(map[string]any{"e": "opcall", "o": o})
				var err error
				if sc.Kind == "put" {
					r := &rec{N: o}
					r.SetKey("hookx:k")
					err = db.Put(r)
				} else {
					_, err = db.Get("hookx:k")
				}
				emit(map[string]any{"e": "opret", "o": o, "ok": err == nil})
			}()
			sch.Settle(fmt.Sprintf("o%d", o), 5*time.Millisecond)
		case a > 0:
			name := fmt.Sprintf("o%d", a)
			if sch.Await(name, 5*time.Millisecond, nil) {
				sch.Release(name)
				sch.Settle(name, 2*time.Millisecond)
			}
		case a < 0 && !launched[a]:
			launched[a] = true
			hk := -a
			wg.Add(1)
			go func() {
				defer wg.Done()
				emit(map[string]any{"e": "cancelcall", "hk": hk})
				_ = hooks[hk].Cancel()
				emit(map[string]any{"e": "cancelret", "hk": hk})
			}()
			time.Sleep(2 * time.Millisecond)
		}
	}
	sch.Free()
	fin := make(chan struct{})
	go func() { wg.Wait(); close(fin) }()
	select {
	case <-fin:
	case <-time.After(10 * time.Second):
		emit(map[string]any{"e": "hang"})
	}
	tr.Close()
	_ = os.RemoveAll(root) // os.Exit skips the deferred clean-up
	os.Exit(0)
}
