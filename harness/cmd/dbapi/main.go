// Command dbapi replays request scripts generated from spec/DbApiGen.tla against the real database API
// (api.CreateDatabaseAPI / DatabaseAPI.Handle) and records every message sent and received (property C13).
//
// usage: dbapi <scripts.ndjson> <trace.ndjson> [skip]
//
// Every script runs in a process of its own (`dbapi child <script.json> <trace>`): the database package is
// a process-wide singleton and the API handles every request on an unprotected goroutine, so the exit
// status of the child is the crash detector.  The parent copies the child's events into the trace and adds
// {"e":"died"} when the child did not exit cleanly.
//
// The symbolic script (operation id / key / query / content numbers, payload and malformed-message
// classes) is made concrete here, seeded by the script's "seed"; the tables are written into the "new"
// event so that a trace is self-contained.
package main

import (
	"bytes"
	"context"
	"encoding/hex"
	"encoding/json"
	"fmt"
	"math/rand"
	"os"
	"os/exec"
	"path/filepath"
	"reflect"
	"runtime"
	"strconv"
	"strings"
	"sync"
	"syscall"
	"time"

	"go.etcd.io/bbolt"

	"github.com/safing/portbase/api"
	"github.com/safing/portbase/database"
	"github.com/safing/portbase/database/record"
	_ "github.com/safing/portbase/database/storage/bbolt"
	_ "github.com/safing/portbase/database/storage/hashmap"
	"github.com/safing/portbase/formats/dsd"

	"verifharness/internal/vio"
)

// ------------------------------------------------------------------ script

type initRec struct {
	K   string `json:"k"`
	C   []int  `json:"c"`
	Sub string `json:"sub"`
}

type step struct {
	Cmd string `json:"cmd"`
	ID  int    `json:"id"`
	Key int    `json:"key"`
	Q   int    `json:"q"`
	Pf  string `json:"pf"`
	C   []int  `json:"c"`
	Cls string `json:"cls"`
}

type script struct {
	Mode    string    `json:"mode"`
	Backend string    `json:"backend"`
	Init    []initRec `json:"init"`
	Steps   []step    `json:"steps"`
	Seed    int64     `json:"seed"`
}

const (
	probeID   = 31 // reserved operation id of the final get probe
	nIDs      = 32
	otherC    = 9
	waitReply = 3 * time.Second
	waitProbe = 2 * time.Second
)

// ------------------------------------------------------------------ event log (child): unbuffered, so that
// nothing is lost when a goroutine of the API kills the process

type evlog struct {
	mu     sync.Mutex
	f      *os.File
	seq    int
	closed bool // after the "end" event: the observation is over
}

func (l *evlog) emit(ev map[string]any) {
	l.mu.Lock()
	defer l.mu.Unlock()
	if l.closed {
		return
	}
	l.seq++
	ev["seq"] = l.seq
	b, err := json.Marshal(ev)
	if err != nil {
		fmt.Fprintf(os.Stderr, "marshal: %v\n", err)
		os.Exit(3)
	}
	b = append(b, '\n')
	if _, err := l.f.Write(b); err != nil {
		fmt.Fprintf(os.Stderr, "trace write: %v\n", err)
		os.Exit(3)
	}
}

// ------------------------------------------------------------------ concrete values

type world struct {
	rnd    *rand.Rand
	db     string
	ids    []string // index -> operation id
	keys   []string // index 1..5 -> full key
	fields []string
	values [][]string // field -> value index 1..2 -> JSON text
	parsed [][]any
	log    *evlog

	mu      sync.Mutex
	cnt     [nIDs]map[string]int // replies per id and type
	errs    int                  // error replies in total
	signal  chan struct{}
	subLike map[int]string // ids used by sub / qsub
	stuck   bool           // a reply that had to come did not come in time
	iface   *database.Interface
	secret  *database.Interface
	crown   *database.Interface
	both    *database.Interface
}

var idPool = []string{"1", "42", "abc", "op-ü", "0", "a b", "-", "#7$%&", "007", " ", "get", "cancel", "\x01\x02", "\xff\xfe", "{}", "☃", "9999999999999999999999", "A", "id:with:colons", "tab\there", "nl\nhere", "\"q\"", "\\", "null", "-1", "3.14", "e", "ok", "error", "done", "x/y", "k=v;", "[1]", "~"}

func newWorld(seed int64, lg *evlog) *world {
	w := &world{rnd: rand.New(rand.NewSource(seed)), log: lg, signal: make(chan struct{}, 1), subLike: map[int]string{}}
	for i := range w.cnt {
		w.cnt[i] = map[string]int{}
	}
	w.db = []string{"core", "test-db", "DB_1", "cache", "x-y_z"}[w.rnd.Intn(5)]
	pool := append([]string{}, idPool...)
	if w.rnd.Intn(4) == 0 {
		pool = append(pool, strings.Repeat("L", 300))
	}
	w.rnd.Shuffle(len(pool), func(i, j int) { pool[i], pool[j] = pool[j], pool[i] })
	w.ids = append([]string{""}, pool[:nIDs-1]...)
	kv := [][]string{{"a/x", "a/y", "b/z"}, {"a/x", "a/y", "b/z"}, {"a/x1", "a/y-2", "b"}, {"a/ä", "a/y.z", "b/z/w"}}[w.rnd.Intn(4)]
	w.keys = []string{"", w.db + ":" + kv[0], w.db + ":" + kv[1], w.db + ":" + kv[2], w.db + ":", "nodb:k"}
	w.fields = []string{"a", "b", "c"}
	tabs := [][][]string{
		{{"1", "-2.5"}, {`"x"`, `"ü|\"q\" \\ /"`}, {`{"n":[1,2]}`, `[3,"z"]`}},
		{{"0", "1000"}, {`""`, `"a|b|c"`}, {`true`, `false`}},
		{{"7", "8"}, {`"J"`, `"done"`}, {`{"_x":null}`, `{"deep":{"er":[{}]}}`}},
	}
	w.values = tabs[w.rnd.Intn(len(tabs))]
	for _, f := range w.values {
		var p []any
		for _, t := range f {
			var v any
			if err := json.Unmarshal([]byte(t), &v); err != nil {
				panic(err)
			}
			p = append(p, v)
		}
		w.parsed = append(w.parsed, p)
	}
	return w
}

// jsonOf renders content c as a JSON object (fields with value 0 are left out).
func (w *world) jsonOf(c []int) []byte {
	var b bytes.Buffer
	b.WriteByte('{')
	first := true
	for i, v := range c {
		if v == 0 || i >= len(w.fields) {
			continue
		}
		if !first {
			b.WriteByte(',')
		}
		first = false
		fmt.Fprintf(&b, "%q:%s", w.fields[i], w.values[i][v-1])
	}
	b.WriteByte('}')
	return b.Bytes()
}

// contentOf maps the JSON data of a reply back: content vector and whether a _meta section naming key is there.
func (w *world) contentOf(data []byte, key string) (c []int, meta bool) {
	other := []int{otherC, otherC, otherC}
	if len(data) == 0 || data[0] != dsd.JSON {
		return other, false
	}
	var m map[string]any
	if err := json.Unmarshal(data[1:], &m); err != nil {
		return other, false
	}
	if mm, ok := m["_meta"].(map[string]any); ok {
		if k, ok := mm["Key"].(string); ok && k == key {
			meta = true
		}
	}
	delete(m, "_meta")
	c = []int{0, 0, 0}
	for name, v := range m {
		fi := -1
		for i, f := range w.fields {
			if f == name {
				fi = i
			}
		}
		if fi < 0 {
			return other, meta
		}
		vi := 0
		for j, p := range w.parsed[fi] {
			if reflect.DeepEqual(p, v) {
				vi = j + 1
			}
		}
		if vi == 0 {
			return other, meta
		}
		c[fi] = vi
	}
	return c, meta
}

func (w *world) queryText(q int) string {
	switch q {
	case 1:
		return "query " + w.db + ":"
	case 2:
		return "query " + w.db + ":a/"
	case 3:
		return "query " + strings.Replace(w.keys[1], " ", "\\ ", -1)
	case 4:
		return "query " + w.db + ":b"
	case 5:
		return "query " + w.db + ":zz"
	case 6:
		return "query nodb:"
	case 7:
		v := []string{"", w.db + ":a/", "select * from x", "query", "query " + w.db + ": where", "query " + w.db + ": limit x",
			"query " + w.db + ": foo", "query " + w.db + ": where a >", "\x00\xff", "query " + w.db + ": where (a > 1", "QUERY " + w.db + ":"}
		return v[w.rnd.Intn(len(v))]
	case 8:
		// (the query language itself is property C11: only plain clauses here)
		v := []string{" where a > -1000000", " where b exists", " where c exists or a > 0", " where a > 0 and b exists"}
		return "query " + w.db + ":" + v[w.rnd.Intn(len(v))]
	}
	return "query"
}

func (w *world) randBytes(n int) []byte {
	b := make([]byte, n)
	for i := range b {
		b[i] = byte(w.rnd.Intn(256))
	}
	return b
}

// opaquePayload: a create/update payload (format byte + data, at least 2 bytes) that is not a JSON object.
func (w *world) opaquePayload() []byte {
	cborMap := []byte{0xa1, 0x61, 0x61, 0x01} // {"a":1}
	switch w.rnd.Intn(12) {
	case 0:
		return append([]byte{dsd.CBOR}, cborMap...)
	case 1:
		return append([]byte{dsd.RAW}, w.randBytes(1+w.rnd.Intn(6))...)
	case 2:
		return append([]byte{dsd.MsgPack}, 0x81, 0xa1, 0x61, 0x01)
	case 3:
		return append([]byte{dsd.GenCode}, w.randBytes(3)...)
	case 4:
		return []byte("Ya: 1\n")
	case 5:
		return append([]byte{200}, []byte(`{"a":1}`)...)
	case 6:
		return append([]byte{0}, []byte(`{"a":1}`)...)
	case 7:
		return []byte("J[1,2,3]")
	case 8:
		return []byte(`J"text"`)
	case 9:
		return []byte(`J{"a":`)
	case 10:
		return append([]byte{dsd.CBOR}, w.randBytes(1+w.rnd.Intn(8))...)
	default:
		return append([]byte{byte(w.rnd.Intn(256))}, w.randBytes(1+w.rnd.Intn(5))...)
	}
}

// opaqueInsert: an insert payload that is not one of the modelled JSON objects.
func (w *world) opaqueInsert() []byte {
	v := []string{"[1,2]", `"x"`, "123", `{"a":{`, "", `{"":1}`, `{"a.b":1}`, "null", `{"a":null}`, "{}{}", `{"b":[1,"two"]}`, `{"c":{"k":"v"},"zz":true}`, "\x00"}
	if w.rnd.Intn(5) == 0 {
		return w.randBytes(1 + w.rnd.Intn(12))
	}
	return []byte(v[w.rnd.Intn(len(v))])
}

func noSep(b []byte) []byte {
	for i := range b {
		if b[i] == '|' {
			b[i] = '!'
		}
	}
	return b
}

// malformed concretises one class of malformed messages.
func (w *world) malformed(cls string, id int) []byte {
	opID := w.ids[id]
	switch cls {
	case "empty":
		return []byte{}
	case "nosep":
		switch w.rnd.Intn(4) {
		case 0:
			return noSep(w.randBytes(1 + w.rnd.Intn(20)))
		case 1:
			return []byte("get")
		case 2:
			return []byte(opID + " get " + w.keys[1])
		default:
			return []byte(strings.Repeat("A", 1+w.rnd.Intn(5000)))
		}
	case "onesep":
		v := []string{"get", "query", "sub", "qsub", "create", "update", "insert", "delete", "", "Cancel", "cancel ", "x"}
		return []byte(opID + "|" + v[w.rnd.Intn(len(v))])
	case "unkcmd":
		v := []string{"", "GET", "get ", "put", "cancel", "upsert", "drop", "\x00", "querysub", "ok", "error"}
		rest := [][]byte{[]byte(w.keys[1]), {}, []byte("a|b|c"), w.randBytes(w.rnd.Intn(10))}
		return append([]byte(opID+"|"+v[w.rnd.Intn(len(v))]+"|"), rest[w.rnd.Intn(len(rest))]...)
	case "nopayload":
		c := []string{"create", "update", "insert"}[w.rnd.Intn(3)]
		k := [][]byte{[]byte(w.keys[1+w.rnd.Intn(5)]), {}, noSep(w.randBytes(w.rnd.Intn(8)))}
		return append([]byte(opID+"|"+c+"|"), k[w.rnd.Intn(len(k))]...)
	case "short":
		c := []string{"create", "update"}[w.rnd.Intn(2)]
		p := [][]byte{{}, {'J'}, {'{'}, {0}, {byte(w.rnd.Intn(256))}}
		return append([]byte(opID+"|"+c+"|"+w.keys[1+w.rnd.Intn(5)]+"|"), p[w.rnd.Intn(len(p))]...)
	}
	return []byte{}
}

// ------------------------------------------------------------------ receiving

func (w *world) send(data []byte) {
	// split <opID>|<type>[|<key or message>[|<data>]]
	msg := append([]byte{}, data...)
	ev := map[string]any{"e": "rep", "raw": hex.EncodeToString(trunc(msg, 300)), "key": 0, "c": []int{0, 0, 0}, "meta": false}
	id := -1
	typ := "unparsable"
	i := bytes.IndexByte(msg, '|')
	if i >= 0 {
		opID := string(msg[:i])
		for k, s := range w.ids {
			if s == opID {
				id = k
			}
		}
		rest := msg[i+1:]
		j := bytes.IndexByte(rest, '|')
		if j < 0 {
			typ = string(rest)
			rest = nil
		} else {
			typ = string(rest[:j])
			rest = rest[j+1:]
		}
		switch typ {
		case "ok", "upd", "new", "del":
			key := rest
			var payload []byte
			if k := bytes.IndexByte(rest, '|'); k >= 0 {
				key = rest[:k]
				payload = rest[k+1:]
			}
			for k := 1; k < len(w.keys); k++ {
				if w.keys[k] == string(key) {
					ev["key"] = k
				}
			}
			if typ != "del" {
				c, meta := w.contentOf(payload, string(key))
				ev["c"] = c
				ev["meta"] = meta
			}
		case "error", "warning":
			ev["msg"] = string(trunc(rest, 200))
		}
	}
	ev["id"] = id
	ev["typ"] = typ
	w.mu.Lock()
	w.log.emit(ev) // sequence number taken here, inside send
	if id >= 0 {
		w.cnt[id][typ]++
	}
	if typ == "error" {
		w.errs++
	}
	w.mu.Unlock()
	select {
	case w.signal <- struct{}{}:
	default:
	}
}

func trunc(b []byte, n int) []byte {
	if len(b) > n {
		return b[:n]
	}
	return b
}

func (w *world) count(id int, types ...string) int {
	w.mu.Lock()
	defer w.mu.Unlock()
	n := 0
	for _, t := range types {
		n += w.cnt[id][t]
	}
	return n
}

func (w *world) errors() int {
	w.mu.Lock()
	defer w.mu.Unlock()
	return w.errs
}

// waitFor waits until pred holds or the time is up (it only paces the script; it never judges).
func (w *world) waitFor(pred func() bool, d time.Duration) bool {
	deadline := time.After(d)
	for {
		if pred() {
			return true
		}
		select {
		case <-w.signal:
		case <-time.After(2 * time.Millisecond):
		case <-deadline:
			return pred()
		}
	}
}

// quiet reports whether no other goroutine of the process can currently make progress: every one of them is
// parked on a channel, a select or a timer.  A request is handled on goroutines of its own, so "quiet" means
// that every reply that will come without further input has been sent - also on a machine so loaded that a
// runnable goroutine has to wait for milliseconds.
func quiet() bool {
	buf := make([]byte, 1<<20)
	n := runtime.Stack(buf, true)
	first := true
	for _, line := range strings.Split(string(buf[:n]), "\n") {
		if !strings.HasPrefix(line, "goroutine ") {
			continue
		}
		if first { // the caller
			first = false
			continue
		}
		i := strings.IndexByte(line, '[')
		j := strings.IndexByte(line, ']')
		if i < 0 || j < i {
			return false
		}
		state := line[i+1 : j]
		if k := strings.IndexByte(state, ','); k >= 0 { // "select, 2 minutes"
			state = state[:k]
		}
		switch state {
		case "chan receive", "select", "sleep", "finalizer wait", "force gc (idle)", "GC sweep wait",
			"GC scavenge wait", "GC worker (idle)", "chan receive (nil chan)", "select (no cases)":
		default:
			return false
		}
	}
	return true
}

// await is waitFor for a reply that has to come: when it does not, the API is wedged (or lost a reply); the rest
// of the script is cut short and the recorded trace lacks the reply, which is what the trace specification judges.
func (w *world) await(pred func() bool, d time.Duration) bool {
	if w.stuck {
		d = 20 * time.Millisecond
	}
	ok := w.waitFor(pred, d)
	if !ok {
		w.stuck = true
	}
	return ok
}

// settle waits until the process is quiet (at most d).
func (w *world) settle(d time.Duration) bool {
	if w.stuck {
		return false
	}
	ok := w.settle1(d)
	if !ok {
		w.stuck = true
	}
	return ok
}

func (w *world) settle1(d time.Duration) bool {
	end := time.Now().Add(d)
	for {
		if quiet() {
			return true
		}
		if time.Now().After(end) {
			return false
		}
		select {
		case <-w.signal:
		case <-time.After(200 * time.Microsecond):
		}
	}
}

// ------------------------------------------------------------------ setup

func infra(lg *evlog, format string, a ...any) {
	lg.emit(map[string]any{"e": "infra", "msg": fmt.Sprintf(format, a...)})
	os.Exit(0)
}

func (w *world) opaqueRecord(key, sub string) *record.Wrapper {
	var r *record.Wrapper
	switch sub {
	case "cbor":
		r, _ = record.NewWrapper(key, nil, dsd.CBOR, []byte{0xa1, 0x61, 0x61, 0x01})
	case "raw":
		r, _ = record.NewWrapper(key, nil, dsd.RAW, []byte("raw bytes"))
	case "empty":
		r, _ = record.NewWrapper(key, nil, dsd.JSON, []byte{})
	case "msgpack":
		r, _ = record.NewWrapper(key, nil, dsd.MsgPack, []byte{0x81, 0xa1, 0x61, 0x01})
	case "jarray":
		r, _ = record.NewWrapper(key, nil, dsd.JSON, []byte("[1,2,3]"))
	default: // jtext
		r, _ = record.NewWrapper(key, nil, dsd.JSON, []byte(`"just text"`))
	}
	return r
}

func (w *world) setup(s *script, root string) {
	dbKey := func(k int) string { return strings.SplitN(w.keys[k], ":", 2)[1] }
	// unreadable records have to be in the bbolt file before the database opens it
	hasBad := false
	for _, r := range s.Init {
		if r.K == "bad" {
			hasBad = true
		}
	}
	if hasBad {
		dir := filepath.Join(root, "databases", w.db, "bbolt")
		if err := os.MkdirAll(dir, 0o700); err != nil {
			infra(w.log, "mkdir: %v", err)
		}
		bdb, err := bbolt.Open(filepath.Join(dir, "db.bbolt"), 0o600, &bbolt.Options{Timeout: time.Second})
		if err != nil {
			infra(w.log, "bbolt open: %v", err)
		}
		err = bdb.Update(func(tx *bbolt.Tx) error {
			b, err := tx.CreateBucketIfNotExists([]byte{0})
			if err != nil {
				return err
			}
			for i, r := range s.Init {
				if r.K != "bad" {
					continue
				}
				val := []byte{2, 0, 0} // record version 2
				if r.Sub == "short" {
					val = []byte{1, 40, 'G', 1, 2} // meta block announced longer than the data
				}
				if err := b.Put([]byte(dbKey(i+1)), val); err != nil {
					return err
				}
			}
			return nil
		})
		if err != nil {
			infra(w.log, "bbolt seed: %v", err)
		}
		if err := bdb.Close(); err != nil {
			infra(w.log, "bbolt close: %v", err)
		}
	}
	if err := database.InitializeWithPath(root); err != nil {
		infra(w.log, "database init: %v", err)
	}
	if _, err := database.Register(&database.Database{Name: w.db, Description: "C13", StorageType: s.Backend}); err != nil {
		infra(w.log, "register: %v", err)
	}
	w.iface = database.NewInterface(&database.Options{Local: true, Internal: true})
	w.secret = database.NewInterface(&database.Options{Local: true, Internal: true, AlwaysMakeSecret: true})
	w.crown = database.NewInterface(&database.Options{Local: true, Internal: true, AlwaysMakeCrownjewel: true})
	w.both = database.NewInterface(&database.Options{Local: true, Internal: true, AlwaysMakeSecret: true, AlwaysMakeCrownjewel: true})
	for i, r := range s.Init {
		key := w.keys[i+1]
		var err error
		switch r.K {
		case "json":
			rec, _ := record.NewWrapper(key, nil, dsd.JSON, w.jsonOf(r.C))
			err = w.iface.Put(rec)
		case "opq":
			err = w.iface.Put(w.opaqueRecord(key, r.Sub))
		case "hid":
			err = w.hiddenPut(key, r.Sub, r.C)
		}
		if err != nil {
			infra(w.log, "seeding %s (%s): %v", key, r.K, err)
		}
	}
}

func (w *world) hiddenPut(key, sub string, c []int) error {
	rec, _ := record.NewWrapper(key, nil, dsd.JSON, w.jsonOf(c))
	switch sub {
	case "crown":
		return w.crown.Put(rec)
	case "both":
		return w.both.Put(rec)
	default:
		return w.secret.Put(rec)
	}
}

// ------------------------------------------------------------------ running a script

func (w *world) reqEvent(st step, raw []byte) map[string]any {
	c := st.C
	if len(c) != 3 {
		c = []int{0, 0, 0}
	}
	return map[string]any{"e": "req", "cmd": st.Cmd, "id": st.ID, "key": st.Key, "q": st.Q, "pf": st.Pf, "c": c,
		"cls": st.Cls, "raw": hex.EncodeToString(trunc(raw, 300))}
}

func (w *world) message(st step) []byte {
	id := w.ids[st.ID]
	switch st.Cmd {
	case "get", "delete":
		return []byte(id + "|" + st.Cmd + "|" + w.keys[st.Key])
	case "query", "sub", "qsub":
		return []byte(id + "|" + st.Cmd + "|" + w.queryText(st.Q))
	case "create", "update":
		p := w.opaquePayload()
		if st.Pf == "J" {
			p = append([]byte{dsd.JSON}, w.jsonOf(st.C)...)
		}
		return append([]byte(id+"|"+st.Cmd+"|"+w.keys[st.Key]+"|"), p...)
	case "insert":
		p := w.opaqueInsert()
		if st.Pf == "J" {
			p = w.jsonOf(st.C)
		}
		return append([]byte(id+"|insert|"+w.keys[st.Key]+"|"), p...)
	case "cancel":
		return []byte(id + "|cancel")
	case "mal":
		return w.malformed(st.Cls, st.ID)
	}
	return nil
}

// internalWrite performs a write through an internal interface of the process (feeds subscriptions).
func (w *world) internalWrite(st step, sub string) {
	ev := w.reqEvent(st, nil)
	w.log.emit(ev)
	key := w.keys[st.Key]
	var err error
	switch st.Pf {
	case "J":
		rec, _ := record.NewWrapper(key, nil, dsd.JSON, w.jsonOf(st.C))
		err = w.iface.Put(rec)
	case "opq":
		err = w.iface.Put(w.opaqueRecord(key, sub))
	case "hid":
		err = w.hiddenPut(key, sub, []int{1, 1, 1})
	case "del":
		err = w.iface.Delete(key)
	}
	if err == nil {
		st.Cmd = "iwok"
		w.log.emit(w.reqEvent(st, nil))
	}
}

func terminalTypes(cmd string) []string {
	switch cmd {
	case "get":
		return []string{"ok", "error"}
	case "query", "qsub", "sub", "cancel":
		return []string{"done", "error"}
	default:
		return []string{"success", "error"}
	}
}

func (w *world) run(s *script) {
	a := api.CreateDatabaseAPI(w.send)
	seq := s.Mode != "burst"
	subs := []string{"cbor", "raw", "empty", "msgpack", "jarray", "jtext"}
	hids := []string{"secret", "crown", "both"}
	var iw sync.WaitGroup
	type pend struct {
		id    int
		types []string
		base  int
	}
	var pending []pend
	for _, st := range s.Steps {
		if w.stuck && seq {
			break // the one-at-a-time client would still be waiting
		}
		if st.Cmd == "iw" {
			sub := subs[w.rnd.Intn(len(subs))]
			if st.Pf == "hid" {
				sub = hids[w.rnd.Intn(len(hids))]
			}
			if seq {
				w.internalWrite(st, sub)
			} else {
				iw.Add(1)
				go func(st step, sub string) {
					defer iw.Done()
					w.internalWrite(st, sub)
				}(st, sub)
			}
			continue
		}
		msg := w.message(st)
		if st.Cmd == "sub" || st.Cmd == "qsub" {
			w.subLike[st.ID] = st.Cmd
		}
		types := terminalTypes(st.Cmd)
		base := w.count(st.ID, types...)
		errBase := w.errors()
		w.log.emit(w.reqEvent(st, msg))
		a.Handle(msg)
		if !seq {
			if st.Cmd != "sub" && st.Cmd != "cancel" && st.Cmd != "mal" {
				pending = append(pending, pend{st.ID, types, base})
			}
			switch w.rnd.Intn(6) {
			case 0:
				runtime.Gosched()
			case 1:
				time.Sleep(time.Duration(w.rnd.Intn(300)) * time.Microsecond)
			}
			continue
		}
		id := st.ID
		switch st.Cmd {
		case "sub":
			// a subscription has no acknowledgement: it is registered when its handler is parked on the feed
		case "mal":
			w.await(func() bool { return w.errors() > errBase }, waitReply)
		case "cancel":
			if _, ok := w.subLike[id]; ok {
				w.await(func() bool { return w.count(id, types...) > base }, waitReply)
			} else { // a cancel of something that is not a subscription may stay unanswered
				w.waitFor(func() bool { return w.count(id, types...) > base }, time.Second)
			}
		default:
			w.await(func() bool { return w.count(id, types...) > base }, waitReply)
		}
		w.settle(waitReply)
	}
	iwDone := make(chan struct{})
	go func() { iw.Wait(); close(iwDone) }()
	select {
	case <-iwDone:
	case <-time.After(waitReply):
		w.stuck = true
		w.log.emit(map[string]any{"e": "note", "msg": "internal writers still blocked after 3 s"})
	}
	for _, p := range pending {
		p := p
		w.await(func() bool { return w.count(p.id, p.types...) > p.base }, waitReply)
	}
	w.settle(waitReply)
	// epilogue: cancel the subscriptions that are still running; `done` flushes their feeds
	for round := 0; round < 3; round++ {
		open := 0
		for id := 0; id < nIDs; id++ {
			cmd, ok := w.subLike[id]
			if !ok {
				continue
			}
			need := 1
			if cmd == "qsub" {
				need = 2
			}
			if w.count(id, "error") > 0 || w.count(id, "done") >= need {
				continue
			}
			open++
			base := w.count(id, "done", "error")
			st := step{Cmd: "cancel", ID: id}
			msg := w.message(st)
			w.log.emit(w.reqEvent(st, msg))
			a.Handle(msg)
			w.await(func() bool { return w.count(id, "done", "error") > base }, waitReply)
		}
		w.settle(waitReply)
		if open == 0 || w.stuck {
			break
		}
	}
	// wedge detector: one more get must be answered
	st := step{Cmd: "get", ID: probeID, Key: 1}
	msg := w.message(st)
	ev := w.reqEvent(st, msg)
	ev["probe"] = true
	w.log.emit(ev)
	a.Handle(msg)
	answered := w.waitFor(func() bool { return w.count(probeID, "ok", "error") > 0 }, waitProbe)
	w.settle(waitReply)
	end := map[string]any{"e": "end", "probe_answered": answered, "stuck": w.stuck}
	if w.stuck {
		// where the goroutines of the API are parked (evidence for the report; not judged)
		buf := make([]byte, 1<<20)
		n := runtime.Stack(buf, true)
		var keep []string
		for _, g := range strings.Split(string(buf[:n]), "\n\n") {
			if strings.Contains(g, "portbase/") && !strings.Contains(g, "main.(*world).run(") {
				lines := strings.Split(g, "\n")
				if len(lines) > 9 {
					lines = lines[:9]
				}
				keep = append(keep, strings.Join(lines, "\n"))
			}
		}
		end["stacks"] = string(trunc([]byte(strings.Join(keep, "\n\n")), 6000))
	}
	w.log.emit(end)
}

func childMain(scriptPath, tracePath string) {
	b, err := os.ReadFile(scriptPath)
	if err != nil {
		fmt.Fprintln(os.Stderr, err)
		os.Exit(3)
	}
	var s script
	if err := json.Unmarshal(b, &s); err != nil {
		fmt.Fprintln(os.Stderr, err)
		os.Exit(3)
	}
	f, err := os.Create(tracePath)
	if err != nil {
		fmt.Fprintln(os.Stderr, err)
		os.Exit(3)
	}
	lg := &evlog{f: f}
	w := newWorld(s.Seed, lg)
	root, err := os.MkdirTemp("", "verif-dbapi-")
	if err != nil {
		fmt.Fprintln(os.Stderr, err)
		os.Exit(3)
	}
	fmt.Fprintf(os.Stderr, "root=%s\n", root)
	store := make([]map[string]any, 0, 5)
	for _, r := range s.Init {
		c := r.C
		if len(c) != 3 {
			c = []int{0, 0, 0}
		}
		store = append(store, map[string]any{"k": r.K, "c": c})
	}
	for len(store) < 5 {
		store = append(store, map[string]any{"k": "abs", "c": []int{0, 0, 0}})
	}
	ids := make([]string, len(w.ids))
	for i, s := range w.ids {
		ids[i] = strconv.Quote(s)
	}
	w.setup(&s, root)
	lg.emit(map[string]any{"e": "new", "mode": s.Mode, "store": store, "backend": s.Backend, "ids": ids, "keys": w.keys[1:],
		"fields": w.fields, "values": w.values, "init": s.Init, "seed": s.Seed})
	w.run(&s)
	lg.mu.Lock()
	lg.closed = true
	lg.mu.Unlock()
	f.Close()
	os.RemoveAll(root)
	os.Exit(0)
}

// ------------------------------------------------------------------ parent

func runScript(tr *vio.Trace, line []byte, n int, dir string) error {
	sp := filepath.Join(dir, fmt.Sprintf("script-%d.json", n))
	tp := filepath.Join(dir, fmt.Sprintf("child-%d.ndjson", n))
	if err := os.WriteFile(sp, line, 0o600); err != nil {
		return err
	}
	self, err := os.Executable()
	if err != nil {
		return err
	}
	ctx, cancel := context.WithTimeout(context.Background(), 90*time.Second)
	defer cancel()
	cmd := exec.CommandContext(ctx, self, "child", sp, tp)
	cmd.Cancel = func() error { return cmd.Process.Signal(syscall.SIGQUIT) } // goroutine dump on stderr
	cmd.WaitDelay = 5 * time.Second
	var stderr bytes.Buffer
	cmd.Stderr = &stderr
	runErr := cmd.Run()
	// copy the child's events
	got := false
	_ = vio.ReadLines(tp, func(b []byte) error {
		var ev map[string]any
		if json.Unmarshal(b, &ev) != nil {
			return nil // torn last line of a killed child
		}
		ev["h"] = n
		tr.EmitRaw(ev)
		got = true
		return nil
	})
	errText := stderr.String()
	root := ""
	if i := strings.Index(errText, "root="); i >= 0 {
		root = strings.TrimSpace(strings.SplitN(errText[i+5:], "\n", 2)[0])
		errText = strings.Replace(errText, "root="+root+"\n", "", 1)
	}
	if runErr != nil {
		why := runErr.Error()
		if ctx.Err() != nil {
			why = "timeout"
		}
		if !got {
			abs := map[string]any{"k": "abs", "c": []int{0, 0, 0}}
			tr.EmitRaw(map[string]any{"e": "new", "h": n, "mode": "seq", "store": []any{abs, abs, abs, abs, abs}, "note": "child produced no events"})
		}
		tr.EmitRaw(map[string]any{"e": "died", "h": n, "why": why, "stderr": string(trunc([]byte(errText), 3000))})
	}
	if root != "" && strings.Contains(root, "verif-dbapi-") {
		os.RemoveAll(root)
	}
	os.Remove(sp)
	os.Remove(tp)
	tr.Flush()
	return nil
}

func main() {
	if len(os.Args) >= 4 && os.Args[1] == "child" {
		childMain(os.Args[2], os.Args[3])
		return
	}
	if len(os.Args) < 3 {
		fmt.Fprintln(os.Stderr, "usage: dbapi <scripts> <trace> [skip]")
		os.Exit(2)
	}
	skip := 0
	if len(os.Args) > 3 {
		skip, _ = strconv.Atoi(os.Args[3])
	}
	tr, err := vio.NewTrace(os.Args[2])
	if err != nil {
		fmt.Fprintln(os.Stderr, err)
		os.Exit(2)
	}
	dir := filepath.Dir(os.Args[2])
	n := 0
	err = vio.ReadLines(os.Args[1], func(line []byte) error {
		if n < skip {
			n++
			return nil
		}
		if err := runScript(tr, line, n, dir); err != nil {
			return err
		}
		n++
		return nil
	})
	tr.Close()
	if err != nil {
		fmt.Fprintln(os.Stderr, err)
		os.Exit(2)
	}
	fmt.Printf("histories=%d\n", n)
}
