// Command notif executes notification histories generated from spec/NotifGen.tla against the real
// notifications package (started as a module together with the database and config modules, cleaner
// included) and records, after every call, everything an application and a UI client can observe
// (extension check X04).  The judgement is made by TLC on spec/NotifTrace.tla.
//
// usage: notif <scripts.ndjson> <trace.ndjson> [skip]
//
// Symbolic -> concrete: EventID "a" of history h is "t<h>-a"; expiry "never" = 0, "future" = now+100000 s,
// "past" = now-100 s; "time passes" (tick) is played by moving the Expires of the named notifications
// into the past and waiting for the real cleaner; "not modified recently" (update with flag) by moving
// the record's modification time 60 s back.
package main

import (
	"bytes"
	"context"
	"encoding/json"
	"fmt"
	"os"
	"regexp"
	"runtime"
	"sort"
	"strconv"
	"strings"
	"sync"
	"time"

	"github.com/safing/portbase/database"
	_ "github.com/safing/portbase/database/dbmodule"
	"github.com/safing/portbase/database/query"
	"github.com/safing/portbase/database/record"
	"github.com/safing/portbase/dataroot"
	"github.com/safing/portbase/formats/dsd"
	"github.com/safing/portbase/log"
	"github.com/safing/portbase/modules"
	"github.com/safing/portbase/notifications"

	"verifharness/internal/vio"
)

type opT struct {
	Op   string `json:"op"`
	K    int    `json:"k"`
	ID   string `json:"id"`
	Sel  string `json:"sel"`
	Exp  string `json:"exp"`
	Flag bool   `json:"flag"`
	Ks   []int  `json:"ks"`
}

type stepT struct {
	Op opT `json:"op"`
}

type scriptT struct {
	Steps []stepT `json:"steps"`
}

type listener struct {
	mu     sync.Mutex
	status string
}

func (l *listener) get() string {
	l.mu.Lock()
	defer l.mu.Unlock()
	return l.status
}

func (l *listener) set(s string) {
	l.mu.Lock()
	l.status = s
	l.mu.Unlock()
}

type objT struct {
	n     *notifications.Notification
	mu    sync.Mutex
	calls []string
	rl    []*listener
	el    []*listener
}

var (
	ids     = []string{"a", "b"}
	dbi     = database.NewInterface(nil)
	sub     *database.Subscription
	hist    int
	objs    []*objT
	guids   map[string]int
	release chan struct{}
	lwg     sync.WaitGroup
	testMod *modules.Module
)

const hangTimeout = 20 * time.Second

func cid(id string) string { return fmt.Sprintf("t%d-%s", hist, id) }

func symID(c string) string {
	p := fmt.Sprintf("t%d-", hist)
	if strings.HasPrefix(c, p) {
		return strings.TrimPrefix(c, p)
	}
	return "?" + c
}

func idx(n *notifications.Notification) int {
	if n == nil {
		return 0
	}
	for i, o := range objs {
		if o.n == n {
			return i + 1
		}
	}
	objs = append(objs, &objT{n: n})
	return len(objs)
}

func expiry(class string) int64 {
	switch class {
	case "future":
		return time.Now().Unix() + 100000
	case "past":
		return time.Now().Unix() - 100
	}
	return 0
}

func expClass(v int64) string {
	now := time.Now().Unix()
	switch {
	case v == 0:
		return "never"
	case v < now-50:
		return "past"
	case v > now+50:
		return "future"
	}
	return "odd"
}

// ---------------------------------------------------------------- goroutine inspection

var gidRe = regexp.MustCompile(`^goroutine (\d+) \[`)

func curGID() string {
	buf := make([]byte, 64)
	buf = buf[:runtime.Stack(buf, false)]
	m := gidRe.FindSubmatch(buf)
	if m == nil {
		return "?"
	}
	return string(m[1])
}

func allStacks() string {
	buf := make([]byte, 1<<20)
	for {
		n := runtime.Stack(buf, true)
		if n < len(buf) {
			return string(buf[:n])
		}
		buf = make([]byte, 2*len(buf))
	}
}

// waitParked returns when goroutine gid is blocked in a channel receive.
func waitParked(gid string) bool {
	want := "goroutine " + gid + " [chan receive"
	deadline := time.Now().Add(hangTimeout)
	for time.Now().Before(deadline) {
		if strings.Contains(allStacks(), want) {
			return true
		}
		time.Sleep(50 * time.Microsecond)
	}
	return false
}

// busy: goroutines the package (or the module system on its behalf) started and that are still at work:
// action function workers, failure status workers, query feeders. The cleaner service worker is not one of them.
func busy() string {
	for _, g := range strings.Split(allStacks(), "\n\n") {
		if strings.Contains(g, "notifications.cleaner") || strings.Contains(g, "main.main()") {
			continue
		}
		if strings.Contains(g, "portbase/notifications.") ||
			strings.Contains(g, "(*Module).StartWorker") || strings.Contains(g, "(*Module).RunWorker") {
			return g
		}
	}
	return ""
}

func waitQuiet() string {
	deadline := time.Now().Add(hangTimeout)
	for {
		b := busy()
		if b == "" {
			return ""
		}
		if time.Now().After(deadline) {
			return b
		}
		time.Sleep(100 * time.Microsecond)
	}
}

// guarded runs fn in its own goroutine: "" = returned, "panic: ..." or "hang".
func guarded(fn func()) string {
	done := make(chan string, 1)
	go func() {
		defer func() {
			if p := recover(); p != nil {
				done <- "panic: " + fmt.Sprint(p)
			}
		}()
		fn()
		done <- ""
	}()
	select {
	case r := <-done:
		return r
	case <-time.After(hangTimeout):
		return "hang"
	}
}

// ---------------------------------------------------------------- operations

func newNotification(o opT) *notifications.Notification {
	n := &notifications.Notification{
		EventID: cid(o.ID),
		Type:    notifications.Info,
		Expires: expiry(o.Exp),
		AvailableActions: []*notifications.Action{
			{ID: "x", Text: "X"},
			{ID: "y", Text: "Y"},
		},
	}
	if o.Flag {
		n.Title = "title " + o.ID
		n.Message = "message " + o.ID
	}
	return n
}

func setExpires(n *notifications.Notification, v int64) {
	n.Lock()
	n.Expires = v
	n.Unlock()
}

func putRecord(key string, doc map[string]any) string {
	b, _ := json.Marshal(doc)
	r, err := record.NewWrapper(key, nil, dsd.JSON, b)
	if err != nil {
		return "wrap: " + err.Error()
	}
	if err := dbi.Put(r); err != nil {
		return "err"
	}
	return "ok"
}

func startListener(o *objT, expired bool) string {
	l := &listener{status: "w"}
	gidc := make(chan string, 1)
	lwg.Add(1)
	rel := release
	if expired {
		ch := o.n.Expired()
		o.el = append(o.el, l)
		go func() {
			defer lwg.Done()
			gidc <- curGID()
			_, ok := <-ch
			if ok {
				l.set("value")
			} else {
				l.set("c")
			}
			<-rel
		}()
	} else {
		ch := o.n.Response()
		o.rl = append(o.rl, l)
		go func() {
			defer lwg.Done()
			gidc <- curGID()
			v, ok := <-ch
			switch {
			case !ok:
				l.set("c")
			case v == "":
				l.set("empty")
			default:
				l.set(v)
			}
			<-rel
		}()
	}
	if !waitParked(<-gidc) {
		return "listener did not park"
	}
	return ""
}

func exec(o opT) (ret string) {
	ret = "ok"
	var ob *objT
	if o.K >= 1 && o.K <= len(objs) {
		ob = objs[o.K-1]
	}
	needObj := func() bool {
		if ob == nil {
			ret = "noobj"
			return false
		}
		return true
	}
	switch o.Op {
	case "notify":
		n := newNotification(o)
		objs = append(objs, &objT{n: n})
		notifications.Notify(n)
	case "save":
		if needObj() {
			ob.n.Save()
		}
	case "saveexp":
		if needObj() {
			setExpires(ob.n, expiry(o.Exp))
			ob.n.Save()
		}
	case "update":
		if needObj() {
			if o.Flag {
				ob.n.Lock()
				if m := ob.n.Meta(); m != nil {
					m.Modified -= 60
				}
				ob.n.Unlock()
			}
			ob.n.Update(expiry(o.Exp))
		}
	case "setfn":
		if needObj() {
			me := ob
			ob.n.SetActionFunction(func(ctx context.Context, n *notifications.Notification) error {
				n.Lock()
				sel := n.SelectedActionID
				n.Unlock()
				if n != me.n {
					sel = "wrongobj"
				}
				me.mu.Lock()
				me.calls = append(me.calls, sel)
				me.mu.Unlock()
				return nil
			})
		}
	case "listen":
		if needObj() {
			if e := startListener(ob, false); e != "" {
				ret = e
			}
		}
	case "waitexp":
		if needObj() {
			if e := startListener(ob, true); e != "" {
				ret = e
			}
		}
	case "delete":
		if needObj() {
			ob.n.Delete()
		}
	case "deleteid":
		notifications.Delete(cid(o.ID))
	case "dbput":
		doc := map[string]any{"EventID": cid(o.ID), "Title": "ui title", "Message": "ui message"}
		if o.Sel != "" {
			doc["SelectedActionID"] = o.Sel
		}
		if o.Flag {
			doc["State"] = "executed"
		}
		ret = putRecord("notifications:all/"+cid(o.ID), doc)
	case "dbdelete":
		if err := dbi.Delete("notifications:all/" + cid(o.ID)); err != nil {
			ret = "err"
		}
	case "dbinsert":
		if err := dbi.InsertValue("notifications:all/"+cid(o.ID), "SelectedActionID", o.Sel); err != nil {
			ret = "err"
		}
	case "tick":
		for _, k := range o.Ks {
			if k >= 1 && k <= len(objs) {
				setExpires(objs[k-1].n, expiry("past"))
			}
		}
		// wait for the cleaner: until no stored notification of this history is expired
		deadline := time.Now().Add(hangTimeout)
		for {
			left := 0
			for _, x := range objs {
				x.n.Lock()
				e := x.n.Expires
				id := x.n.EventID
				x.n.Unlock()
				if e > 0 && e < time.Now().Unix() && notifications.Get(id) == x.n {
					left++
				}
			}
			if left == 0 {
				break
			}
			if time.Now().After(deadline) {
				ret = "cleaner timeout"
				break
			}
			time.Sleep(2 * time.Millisecond)
		}
	default:
		ret = "unknown op"
	}
	return ret
}

// ---------------------------------------------------------------- observation

type objObs struct {
	ID    string   `json:"id"`
	KeyID string   `json:"keyid"`
	St    string   `json:"st"`
	Sel   string   `json:"sel"`
	Exp   string   `json:"exp"`
	Del   bool     `json:"del"`
	Calls []string `json:"calls"`
	Rl    []string `json:"rl"`
	El    []string `json:"el"`
	GUID  int      `json:"guid"`
}

type uiObs struct {
	St  string `json:"st"`
	Sel string `json:"sel"`
	ID  string `json:"id"`
}

type snapT struct {
	Get  map[string]int   `json:"get"`
	Db   map[string]int   `json:"db"`
	UI   map[string]uiObs `json:"ui"`
	Q    []int            `json:"q"`
	Qa   []int            `json:"qa"`
	Objs []objObs         `json:"objs"`
}

func runQuery(q *query.Query) []int {
	res := []int{}
	it, err := dbi.Query(q)
	if err != nil {
		return []int{-1}
	}
	for r := range it.Next {
		n, ok := r.(*notifications.Notification)
		if !ok {
			res = append(res, -2)
			continue
		}
		res = append(res, idx(n))
	}
	if it.Err() != nil {
		res = append(res, -3)
	}
	sort.Ints(res)
	return res
}

func snapshot() snapT {
	s := snapT{Get: map[string]int{}, Db: map[string]int{}, UI: map[string]uiObs{}}
	for _, id := range ids {
		s.Get[id] = idx(notifications.Get(cid(id)))
	}
	for _, id := range ids {
		r, err := dbi.Get("notifications:all/" + cid(id))
		if err != nil {
			s.Db[id] = 0
			s.UI[id] = uiObs{}
			continue
		}
		n, ok := r.(*notifications.Notification)
		if !ok {
			s.Db[id] = -2
			s.UI[id] = uiObs{}
			continue
		}
		s.Db[id] = idx(n)
		// the serialized form a UI client is sent
		r.Lock()
		data, err := r.Marshal(r, dsd.JSON)
		r.Unlock()
		u := uiObs{St: "?", Sel: "?", ID: "?"}
		if err == nil && len(data) > 1 {
			var doc struct {
				State            string
				SelectedActionID string
				EventID          string
			}
			if json.Unmarshal(data[1:], &doc) == nil {
				u = uiObs{St: doc.State, Sel: doc.SelectedActionID, ID: symID(doc.EventID)}
			}
		}
		s.UI[id] = u
	}
	prefix := fmt.Sprintf("notifications:all/t%d-", hist)
	s.Q = runQuery(query.New(prefix).MustBeValid())
	s.Qa = runQuery(query.New(prefix).Where(query.Where("State", query.SameAs, "active")).MustBeValid())
	s.Objs = make([]objObs, len(objs))
	for i, o := range objs {
		n := o.n
		var ob objObs
		n.Lock()
		ob.ID = symID(n.EventID)
		if n.KeyIsSet() {
			k := n.Key()
			if strings.HasPrefix(k, "notifications:all/") {
				ob.KeyID = symID(strings.TrimPrefix(k, "notifications:all/"))
			} else {
				ob.KeyID = "?" + k
			}
		}
		ob.St = string(n.State)
		ob.Sel = n.SelectedActionID
		ob.Exp = expClass(n.Expires)
		if m := n.Meta(); m != nil {
			ob.Del = m.IsDeleted()
		}
		if n.GUID != "" {
			g, ok := guids[n.GUID]
			if !ok {
				g = len(guids) + 1
				guids[n.GUID] = g
			}
			ob.GUID = g
		}
		n.Unlock()
		o.mu.Lock()
		ob.Calls = append([]string{}, o.calls...)
		o.mu.Unlock()
		ob.Rl = []string{}
		for _, l := range o.rl {
			ob.Rl = append(ob.Rl, l.get())
		}
		ob.El = []string{}
		for _, l := range o.el {
			ob.El = append(ob.El, l.get())
		}
		s.Objs[i] = ob
	}
	return s
}

// stableSnapshot repeats the observation until two consecutive ones agree (the cleaner runs in the background).
func stableSnapshot() (snapT, string) {
	var prev []byte
	for i := 0; i < 100; i++ {
		if b := waitQuiet(); b != "" {
			return snapT{}, "not quiet: " + firstLines(b, 6)
		}
		s := snapshot()
		cur, _ := json.Marshal(s)
		if prev != nil && bytes.Equal(prev, cur) {
			return s, ""
		}
		prev = cur
	}
	return snapT{}, "observation does not settle"
}

func firstLines(s string, n int) string {
	l := strings.Split(s, "\n")
	if len(l) > n {
		l = l[:n]
	}
	return strings.Join(l, " | ")
}

func drain() []string {
	seen := map[string]bool{}
	for {
		select {
		case r := <-sub.Feed:
			k := r.Key()
			p := fmt.Sprintf("notifications:all/t%d-", hist)
			if strings.HasPrefix(k, p) {
				seen[strings.TrimPrefix(k, p)] = true
			}
		default:
			res := []string{}
			for k := range seen {
				res = append(res, k)
			}
			sort.Strings(res)
			return res
		}
	}
}

func cleanup() {
	close(release)
	for _, o := range objs {
		n := o.n
		_ = guarded(func() { n.Delete() })
	}
	for _, id := range ids {
		c := cid(id)
		_ = guarded(func() { notifications.Delete(c) })
	}
	lwg.Wait()
	waitQuiet()
	drain()
}

func main() {
	if len(os.Args) < 3 {
		fmt.Fprintln(os.Stderr, "usage: notif <scripts> <trace> [skip]")
		os.Exit(2)
	}
	skip := 0
	if len(os.Args) > 3 {
		skip, _ = strconv.Atoi(os.Args[3])
	}
	tr, err := vio.NewTrace(os.Args[2])
	if err != nil {
		fmt.Fprintln(os.Stderr, err)
		os.Exit(2)
	}
	dir, err := os.MkdirTemp("", "verif-notif-")
	if err != nil {
		fmt.Fprintln(os.Stderr, err)
		os.Exit(2)
	}
	defer os.RemoveAll(dir)
	log.SetLogLevel(log.CriticalLevel)
	modules.SetStdErrReporting(false)
	// the notifications module depends on a module "base" that lives in the application (portmaster)
	modules.Register("base", nil, nil, nil)
	testMod = modules.Register("verifmod", nil, nil, nil, "notifications")
	if err := dataroot.Initialize(dir, 0o755); err != nil {
		fmt.Fprintln(os.Stderr, "dataroot:", err)
		os.Exit(2)
	}
	scriptPathArg := os.Args[1]
	os.Args = os.Args[:1] // modules.Start parses the command line
	if err := modules.Start(); err != nil {
		fmt.Fprintln(os.Stderr, "modules.Start:", err)
		os.RemoveAll(dir)
		os.Exit(2)
	}
	sub, err = dbi.Subscribe(query.New("notifications:all/"))
	if err != nil {
		fmt.Fprintln(os.Stderr, "subscribe:", err)
		os.RemoveAll(dir)
		os.Exit(2)
	}
	if os.Getenv("NOTIF_DUMP") != "" {
		time.Sleep(300 * time.Millisecond)
		fmt.Fprintln(os.Stderr, allStacks())
	}

	n := 0
	died := false
	err = vio.ReadLines(scriptPathArg, func(line []byte) error {
		if n < skip || died {
			n++
			return nil
		}
		var s scriptT
		if err := json.Unmarshal(line, &s); err != nil {
			return err
		}
		hist = n
		objs = nil
		guids = map[string]int{}
		release = make(chan struct{})
		tr.EmitRaw(map[string]any{"e": "new", "h": n})
		for _, st := range s.Steps {
			o := st.Op
			if o.Ks == nil {
				o.Ks = []int{}
			}
			tr.EmitRaw(map[string]any{"e": "try", "op": o, "h": n})
			tr.Flush()
			var ret string
			bad := guarded(func() { ret = exec(o) })
			var snap snapT
			if bad == "" {
				var sbad string
				if g := guarded(func() { snap, sbad = stableSnapshot() }); g != "" {
					bad = "observation: " + g
				} else if sbad != "" {
					bad = sbad
				}
			}
			pushed := drain()
			ev := map[string]any{"e": "op", "h": n, "op": o, "ret": ret, "bad": bad, "pushed": pushed,
				"get": snap.Get, "db": snap.Db, "ui": snap.UI, "q": snap.Q, "qa": snap.Qa, "objs": snap.Objs}
			if bad != "" {
				ev["get"], ev["db"], ev["ui"] = map[string]int{}, map[string]int{}, map[string]int{}
				ev["q"], ev["qa"], ev["objs"] = []int{}, []int{}, []int{}
			}
			tr.EmitRaw(ev)
			tr.Flush()
			if strings.Contains(bad, "hang") || strings.HasPrefix(bad, "not quiet") {
				// locks of the package are held for good: this process cannot go on
				died = true
				break
			}
			if bad != "" {
				break
			}
		}
		if !died {
			cleanup()
		}
		n++
		return nil
	})
	tr.Close()
	if err != nil {
		fmt.Fprintln(os.Stderr, err)
		os.RemoveAll(dir)
		os.Exit(2)
	}
	if died {
		os.RemoveAll(dir)
		os.Exit(3)
	}
	fmt.Printf("histories=%d\n", n)
}
