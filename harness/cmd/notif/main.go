// Command notif executes notification histories generated from spec/NotifGen.tla against the real
// notifications package (started as a module together with the database and config modules, cleaner
// included) and records, after every call, everything an application and a UI client can observe
// (extension check X04).  The judgement is made by TLC on spec/NotifTrace.tla.
//
// usage: notif <scripts.ndjson> <trace.ndjson> [skip]
//
// Symbolic -> concrete: EventID "a" of history h is "t<h>-a"; expiry "never" = 0, "future" = now+100000 s,
// "past" = now-100 s; "time passes" (tick) is played by moving the Expires of the named notifications
// into the past and waiting for the real cleaner; "not modified recently" (update with flag) by moving
// the record's modification time 60 s back.
package main

import (
	"bytes"
	"context"
	"encoding/json"
	"fmt"
	"os"
	"regexp"
	"runtime"
	"sort"
	"strconv"
	"strings"
	"sync"
	"time"

	"github.com/safing/portbase/config"
	"github.com/safing/portbase/database"
	_ "github.com/safing/portbase/database/dbmodule"
	"github.com/safing/portbase/database/query"
	"github.com/safing/portbase/database/record"
	"github.com/safing/portbase/dataroot"
	"github.com/safing/portbase/formats/dsd"
	"github.com/safing/portbase/log"
	"github.com/safing/portbase/modules"
	"github.com/safing/portbase/notifications"

	"verifharness/internal/vio"
)

type opT struct {
	Op   string `json:"op"`
	K    int    `json:"k"`
	ID   string `json:"id"`
	Sel  string `json:"sel"`
	Exp  string `json:"exp"`
	Flag bool   `json:"flag"`
	Ks   []int  `json:"ks"`
	N    int    `json:"n"`
}

type stepT struct {
	Op opT `json:"op"`
}

type scriptT struct {
	Steps []stepT `json:"steps"`
}

type listener struct {
	mu     sync.Mutex
	status string
}

func (l *listener) get() string {
	l.mu.Lock()
	defer l.mu.Unlock()
	return l.status
}

func (l *listener) set(s string) {
	l.mu.Lock()
	l.status = s
	l.mu.Unlock()
}

type objT struct {
	n     *notifications.Notification
	mu    sync.Mutex
	calls []string
	rl    []*listener
	el    []*listener
}

var (
	ids     = []string{"a", "b", "d"}
	derived string // EventID the package derived for the notifications of this history that were given none
	dbi     = database.NewInterface(nil)
	sub     *database.Subscription
	hist    int
	objs    []*objT
	guids   map[string]int
	release chan struct{}
	lwg     sync.WaitGroup
	listenerGIDs []string
)

const hangTimeout = 15 * time.Second

func cid(id string) string {
	if id == "d" {
		if derived == "" {
			return fmt.Sprintf("unknown:none-yet-%d", hist)
		}
		return derived
	}
	return fmt.Sprintf("t%d-%s", hist, id)
}

func symID(c string) string {
	if c != "" && c == derived {
		return "d"
	}
	p := fmt.Sprintf("t%d-", hist)
	if strings.HasPrefix(c, p) {
		return strings.TrimPrefix(c, p)
	}
	return "?" + c
}

func idx(n *notifications.Notification) int {
	if n == nil {
		return 0
	}
	for i, o := range objs {
		if o.n == n {
			return i + 1
		}
	}
	objs = append(objs, &objT{n: n})
	return len(objs)
}

func expiry(class string) int64 {
	switch class {
	case "future":
		return time.Now().Unix() + 100000
	case "past":
		return time.Now().Unix() - 100
	}
	return 0
}

func expClass(v int64) string {
	now := time.Now().Unix()
	switch {
	case v == 0:
		return "never"
	case v < now-50:
		return "past"
	case v > now+50:
		return "future"
	}
	return "odd"
}

// ---------------------------------------------------------------- goroutine inspection

var gidRe = regexp.MustCompile(`^goroutine (\d+) \[`)

func curGID() string {
	buf := make([]byte, 64)
	buf = buf[:runtime.Stack(buf, false)]
	m := gidRe.FindSubmatch(buf)
	if m == nil {
		return "?"
	}
	return string(m[1])
}

func allStacks() string {
	buf := make([]byte, 1<<20)
	for {
		n := runtime.Stack(buf, true)
		if n < len(buf) {
			return string(buf[:n])
		}
		buf = make([]byte, 2*len(buf))
	}
}

// waitParked returns when goroutine gid is blocked in its select (receive from the notification's channel).
func waitParked(gid string) bool {
	want := "goroutine " + gid + " [select"
	deadline := time.Now().Add(hangTimeout)
	for time.Now().Before(deadline) {
		if strings.Contains(allStacks(), want) {
			return true
		}
		time.Sleep(50 * time.Microsecond)
	}
	return false
}

// busy: goroutines the package (or the module system on its behalf) started and that are still at work:
// action function workers, failure status workers, query feeders. The cleaner service worker is not one of them.
func busy() string {
	all := allStacks()
	// the driver's own listeners: either still waiting (select) or done and parked until the end of the history
	for _, gid := range listenerGIDs {
		h := "goroutine " + gid + " ["
		if i := strings.Index(all, h); i >= 0 {
			st := all[i+len(h):]
			if !strings.HasPrefix(st, "select") && !strings.HasPrefix(st, "chan receive") {
				return "listener " + gid + " on its way"
			}
		}
	}
	for _, g := range strings.Split(all, "\n\n") {
		if strings.Contains(g, "notifications.cleaner") || strings.Contains(g, "main.main()") {
			continue
		}
		if strings.Contains(g, "portbase/notifications.") ||
			strings.Contains(g, "(*Module).StartWorker") || strings.Contains(g, "(*Module).RunWorker") {
			return g
		}
	}
	return ""
}

func waitQuiet() string {
	deadline := time.Now().Add(hangTimeout)
	for {
		b := busy()
		if b == "" {
			return ""
		}
		if time.Now().After(deadline) {
			return b
		}
		time.Sleep(100 * time.Microsecond)
	}
}

// guarded runs fn in its own goroutine: "" = returned, "panic: ..." or "hang".
func guarded(fn func()) string {
	done := make(chan string, 1)
	go func() {
		defer func() {
			if p := recover(); p != nil {
				done <- "panic: " + fmt.Sprint(p)
			}
		}()
		fn()
		done <- ""
	}()
	select {
	case r := <-done:
		return r
	case <-time.After(hangTimeout):
		return "hang"
	}
}

// ---------------------------------------------------------------- operations

func eventID(o opT) string {
	if o.ID == "d" {
		return ""
	}
	return cid(o.ID)
}

func message(o opT) string { return fmt.Sprintf("message %s of history %d", o.ID, hist) }

func newNotification(o opT) *notifications.Notification {
	n := &notifications.Notification{
		EventID:      eventID(o),
		Type:         notifications.Info,
		Expires:      expiry(o.Exp),
		ShowOnSystem: true,
		AvailableActions: []*notifications.Action{
			{ID: "x", Text: "X"},
			{ID: "y", Text: "Y"},
		},
	}
	if o.Flag {
		n.Title = "title " + o.ID
		n.Message = message(o)
	}
	return n
}

func setExpires(n *notifications.Notification, v int64) {
	n.Lock()
	n.Expires = v
	n.Unlock()
}

func putRecord(key string, doc map[string]any) string {
	b, _ := json.Marshal(doc)
	r, err := record.NewWrapper(key, nil, dsd.JSON, b)
	if err != nil {
		return "wrap: " + err.Error()
	}
	if err := dbi.Put(r); err != nil {
		return "err"
	}
	return "ok"
}

func startListener(o *objT, expired bool) string {
	l := &listener{status: "w"}
	gidc := make(chan string, 1)
	lwg.Add(1)
	rel := release
	if expired {
		ch := o.n.Expired()
		o.el = append(o.el, l)
		go func() {
			defer lwg.Done()
			gidc <- curGID()
			select {
			case _, ok := <-ch:
				if ok {
					l.set("value")
				} else {
					l.set("c")
				}
				<-rel
			case <-rel:
			}
		}()
	} else {
		ch := o.n.Response()
		o.rl = append(o.rl, l)
		go func() {
			defer lwg.Done()
			gidc <- curGID()
			select {
			case v, ok := <-ch:
				switch {
				case !ok:
					l.set("c")
				case v == "":
					l.set("empty")
				default:
					l.set(v)
				}
				<-rel
			case <-rel:
			}
		}()
	}
	gid := <-gidc
	listenerGIDs = append(listenerGIDs, gid)
	if !waitParked(gid) {
		return "listener did not park"
	}
	return ""
}

func exec(o opT) (ret string) {
	ret = "ok"
	var ob *objT
	if o.K >= 1 && o.K <= len(objs) {
		ob = objs[o.K-1]
	}
	needObj := func() bool {
		if ob == nil {
			ret = "noobj"
			return false
		}
		return true
	}
	switch o.Op {
	case "notify":
		var n *notifications.Notification
		if o.Sel == "" {
			n = newNotification(o)
			objs = append(objs, &objT{n: n})
			notifications.Notify(n)
		} else {
			var acts []notifications.Action
			if o.N > 0 {
				acts = []notifications.Action{{ID: "x", Text: "X"}, {ID: "y", Text: "Y"}}
			}
			switch o.Sel {
			case "info":
				n = notifications.NotifyInfo(eventID(o), "title "+o.ID, message(o), acts...)
			case "warn":
				n = notifications.NotifyWarn(eventID(o), "title "+o.ID, message(o), acts...)
			case "prompt":
				n = notifications.NotifyPrompt(eventID(o), "title "+o.ID, message(o), acts...)
			default:
				n = notifications.NotifyError(eventID(o), "title "+o.ID, message(o), acts...)
			}
			objs = append(objs, &objT{n: n})
		}
		if o.ID == "d" && derived == "" {
			n.Lock()
			if strings.HasPrefix(n.EventID, "unknown:") {
				derived = n.EventID
			}
			n.Unlock()
		}
	case "cfgsys":
		if err := config.SetConfigOption(notifications.CfgUseSystemNotificationsKey, o.Flag); err != nil {
			ret = "config: " + err.Error()
		}
	case "dbputrace":
		// several UI clients select at the same moment (released together), half of them x, half of them y
		var wg sync.WaitGroup
		sels := []string{"x", "y", "x", "y"}
		rets := make([]string, len(sels))
		start := make(chan struct{})
		for i, sel := range sels {
			wg.Add(1)
			go func(i int, sel string) {
				defer wg.Done()
				b, _ := json.Marshal(map[string]any{"EventID": cid(o.ID), "SelectedActionID": sel})
				r, err := record.NewWrapper("notifications:all/"+cid(o.ID), nil, dsd.JSON, b)
				if err != nil {
					rets[i] = "wrap"
					return
				}
				<-start
				if dbi.Put(r) != nil {
					rets[i] = "err"
				} else {
					rets[i] = "ok"
				}
			}(i, sel)
		}
		time.Sleep(200 * time.Microsecond)
		close(start)
		wg.Wait()
		for _, r := range rets {
			if r != "ok" {
				ret = r
			}
		}
	case "save":
		if needObj() {
			ob.n.Save()
		}
	case "saveexp":
		if needObj() {
			setExpires(ob.n, expiry(o.Exp))
			ob.n.Save()
		}
	case "update":
		if needObj() {
			if o.Flag {
				ob.n.Lock()
				if m := ob.n.Meta(); m != nil {
					m.Modified -= 60
				}
				ob.n.Unlock()
			}
			ob.n.Update(expiry(o.Exp))
		}
	case "setfn":
		if needObj() {
			me := ob
			ob.n.SetActionFunction(func(ctx context.Context, n *notifications.Notification) error {
				n.Lock()
				sel := n.SelectedActionID
				n.Unlock()
				if n != me.n {
					sel = "wrongobj"
				}
				me.mu.Lock()
				me.calls = append(me.calls, sel)
				me.mu.Unlock()
				return nil
			})
		}
	case "listen":
		if needObj() {
			if e := startListener(ob, false); e != "" {
				ret = e
			}
		}
	case "waitexp":
		if needObj() {
			if e := startListener(ob, true); e != "" {
				ret = e
			}
		}
	case "delete":
		if needObj() {
			ob.n.Delete()
		}
	case "deleteid":
		notifications.Delete(cid(o.ID))
	case "dbput":
		doc := map[string]any{"EventID": cid(o.ID), "Title": "ui title", "Message": "ui message"}
		if o.Sel != "" {
			doc["SelectedActionID"] = o.Sel
		}
		if o.Flag {
			doc["State"] = "executed"
		}
		ret = putRecord("notifications:all/"+cid(o.ID), doc)
	case "dbputbad":
		if o.Flag {
			ret = putRecord("notifications:misc/"+cid(o.ID), map[string]any{"EventID": cid(o.ID), "Message": "m", "SelectedActionID": "x"})
		} else {
			ret = putRecord("notifications:all/"+cid(o.ID), map[string]any{"EventID": 7, "State": 5, "SelectedActionID": []string{"x"}})
		}
	case "dbdelete":
		if err := dbi.Delete("notifications:all/" + cid(o.ID)); err != nil {
			ret = "err"
		}
	case "dbinsert":
		if err := dbi.InsertValue("notifications:all/"+cid(o.ID), "SelectedActionID", o.Sel); err != nil {
			ret = "err"
		}
	case "tick":
		for _, k := range o.Ks {
			if k >= 1 && k <= len(objs) {
				setExpires(objs[k-1].n, expiry("past"))
			}
		}
		// wait for the cleaner: until no stored notification of this history is expired
		deadline := time.Now().Add(hangTimeout)
		for {
			left := 0
			for _, x := range objs {
				x.n.Lock()
				e := x.n.Expires
				id := x.n.EventID
				x.n.Unlock()
				if e > 0 && e < time.Now().Unix() && notifications.Get(id) == x.n {
					left++
				}
			}
			if left == 0 {
				break
			}
			if time.Now().After(deadline) {
				ret = "cleaner timeout"
				break
			}
			time.Sleep(2 * time.Millisecond)
		}
	default:
		ret = "unknown op"
	}
	return ret
}

func sysOn() bool {
	return config.Concurrent.GetAsBool(notifications.CfgUseSystemNotificationsKey, true)()
}

// ---------------------------------------------------------------- observation

type objObs struct {
	ID    string   `json:"id"`
	KeyID string   `json:"keyid"`
	St    string   `json:"st"`
	Sel   string   `json:"sel"`
	Exp   string   `json:"exp"`
	Del   bool     `json:"del"`
	Calls []string `json:"calls"`
	Rl    []string `json:"rl"`
	El    []string `json:"el"`
	GUID  int      `json:"guid"`
	Typ   int      `json:"typ"`
	Sys   bool     `json:"sys"`
	Acts  []string `json:"acts"`
}

type uiObs struct {
	St  string `json:"st"`
	Sel string `json:"sel"`
	ID  string `json:"id"`
}

type snapT struct {
	Get  map[string]int   `json:"get"`
	Db   map[string]int   `json:"db"`
	UI   map[string]uiObs `json:"ui"`
	Q    []int            `json:"q"`
	Qa   []int            `json:"qa"`
	Objs []objObs         `json:"objs"`
}

func runQuery(q *query.Query) []int {
	res := []int{}
	it, err := dbi.Query(q)
	if err != nil {
		return []int{-1}
	}
	for r := range it.Next {
		n, ok := r.(*notifications.Notification)
		if !ok {
			res = append(res, -2)
			continue
		}
		res = append(res, idx(n))
	}
	if it.Err() != nil {
		res = append(res, -3)
	}
	sort.Ints(res)
	return res
}

func snapshot() snapT {
	s := snapT{Get: map[string]int{}, Db: map[string]int{}, UI: map[string]uiObs{}}
	for _, id := range ids {
		s.Get[id] = idx(notifications.Get(cid(id)))
	}
	for _, id := range ids {
		r, err := dbi.Get("notifications:all/" + cid(id))
		if err != nil {
			s.Db[id] = 0
			s.UI[id] = uiObs{}
			continue
		}
		n, ok := r.(*notifications.Notification)
		if !ok {
			s.Db[id] = -2
			s.UI[id] = uiObs{}
			continue
		}
		s.Db[id] = idx(n)
		// the serialized form a UI client is sent
		r.Lock()
		data, err := r.Marshal(r, dsd.JSON)
		r.Unlock()
		u := uiObs{St: "?", Sel: "?", ID: "?"}
		if err == nil && len(data) > 1 {
			var doc struct {
				State            string
				SelectedActionID string
				EventID          string
			}
			if json.Unmarshal(data[1:], &doc) == nil {
				u = uiObs{St: doc.State, Sel: doc.SelectedActionID, ID: symID(doc.EventID)}
			}
		}
		s.UI[id] = u
	}
	prefix := fmt.Sprintf("notifications:all/t%d-", hist)
	s.Q = runQuery(query.New(prefix).MustBeValid())
	s.Qa = runQuery(query.New(prefix).Where(query.Where("State", query.SameAs, "active")).MustBeValid())
	if derived != "" {
		// the derived EventID does not carry the history prefix
		s.Q = append(s.Q, runQuery(query.New("notifications:all/"+derived).MustBeValid())...)
		s.Qa = append(s.Qa, runQuery(query.New("notifications:all/"+derived).Where(query.Where("State", query.SameAs, "active")).MustBeValid())...)
		sort.Ints(s.Q)
		sort.Ints(s.Qa)
	}
	s.Objs = make([]objObs, len(objs))
	for i, o := range objs {
		n := o.n
		var ob objObs
		n.Lock()
		ob.ID = symID(n.EventID)
		if n.KeyIsSet() {
			k := n.Key()
			if strings.HasPrefix(k, "notifications:all/") {
				ob.KeyID = symID(strings.TrimPrefix(k, "notifications:all/"))
			} else {
				ob.KeyID = "?" + k
			}
		}
		ob.St = string(n.State)
		ob.Sel = n.SelectedActionID
		ob.Typ = int(n.Type)
		ob.Sys = n.ShowOnSystem
		ob.Acts = []string{}
		for _, a := range n.AvailableActions {
			if a == nil {
				ob.Acts = append(ob.Acts, "nil")
			} else {
				ob.Acts = append(ob.Acts, a.ID)
			}
		}
		ob.Exp = expClass(n.Expires)
		if m := n.Meta(); m != nil {
			ob.Del = m.IsDeleted()
		}
		if n.GUID != "" {
			g, ok := guids[n.GUID]
			if !ok {
				g = len(guids) + 1
				guids[n.GUID] = g
			}
			ob.GUID = g
		}
		n.Unlock()
		o.mu.Lock()
		ob.Calls = append([]string{}, o.calls...)
		o.mu.Unlock()
		ob.Rl = []string{}
		for _, l := range o.rl {
			ob.Rl = append(ob.Rl, l.get())
		}
		ob.El = []string{}
		for _, l := range o.el {
			ob.El = append(ob.El, l.get())
		}
		s.Objs[i] = ob
	}
	return s
}

// stableSnapshot repeats the observation until two consecutive ones agree (the cleaner runs in the background).
func stableSnapshot() (snapT, string) {
	var prev []byte
	for i := 0; i < 100; i++ {
		if b := waitQuiet(); b != "" {
			return snapT{}, "not quiet: " + firstLines(b, 6)
		}
		s := snapshot()
		cur, _ := json.Marshal(s)
		if prev != nil && bytes.Equal(prev, cur) {
			return s, ""
		}
		prev = cur
	}
	return snapT{}, "observation does not settle"
}

func firstLines(s string, n int) string {
	l := strings.Split(s, "\n")
	if len(l) > n {
		l = l[:n]
	}
	return strings.Join(l, " | ")
}

func drain() []string {
	seen := map[string]bool{}
	for {
		select {
		case r := <-sub.Feed:
			k := r.Key()
			p := fmt.Sprintf("notifications:all/t%d-", hist)
			if strings.HasPrefix(k, p) {
				seen[strings.TrimPrefix(k, p)] = true
			} else if derived != "" && k == "notifications:all/"+derived {
				seen["d"] = true
			}
		default:
			res := []string{}
			for k := range seen {
				res = append(res, k)
			}
			sort.Strings(res)
			return res
		}
	}
}

func cleanup() {
	close(release)
	for _, o := range objs {
		n := o.n
		_ = guarded(func() { n.Delete() })
	}
	for _, id := range ids {
		c := cid(id)
		_ = guarded(func() { notifications.Delete(c) })
	}
	lwg.Wait()
	waitQuiet()
	drain()
}

func main() {
	if len(os.Args) < 3 {
		fmt.Fprintln(os.Stderr, "usage: notif <scripts> <trace> [skip]")
		os.Exit(2)
	}
	skip := 0
	if len(os.Args) > 3 {
		skip, _ = strconv.Atoi(os.Args[3])
	}
	tr, err := vio.NewTrace(os.Args[2])
	if err != nil {
		fmt.Fprintln(os.Stderr, err)
		os.Exit(2)
	}
	dir, err := os.MkdirTemp("", "verif-notif-")
	if err != nil {
		fmt.Fprintln(os.Stderr, err)
		os.Exit(2)
	}
	defer os.RemoveAll(dir)
	log.SetLogLevel(log.CriticalLevel)
	modules.SetStdErrReporting(false)
	// the notifications module depends on a module "base" that lives in the application (portmaster)
	modules.Register("base", nil, nil, nil)
	if err := dataroot.Initialize(dir, 0o755); err != nil {
		fmt.Fprintln(os.Stderr, "dataroot:", err)
		os.Exit(2)
	}
	scriptPathArg := os.Args[1]
	os.Args = os.Args[:1] // modules.Start parses the command line
	if err := modules.Start(); err != nil {
		fmt.Fprintln(os.Stderr, "modules.Start:", err)
		os.RemoveAll(dir)
		os.Exit(2)
	}
	sub, err = dbi.Subscribe(query.New("notifications:all/"))
	if err != nil {
		fmt.Fprintln(os.Stderr, "subscribe:", err)
		os.RemoveAll(dir)
		os.Exit(2)
	}
	if os.Getenv("NOTIF_DUMP") != "" {
		time.Sleep(300 * time.Millisecond)
		fmt.Fprintln(os.Stderr, allStacks())
	}

	n := 0
	died := false
	err = vio.ReadLines(scriptPathArg, func(line []byte) error {
		if n < skip || died {
			n++
			return nil
		}
		var s scriptT
		if err := json.Unmarshal(line, &s); err != nil {
			return err
		}
		hist = n
		objs = nil
		derived = ""
		if !sysOn() {
			_ = config.SetConfigOption(notifications.CfgUseSystemNotificationsKey, true)
		}
		listenerGIDs = nil
		guids = map[string]int{}
		release = make(chan struct{})
		tr.EmitRaw(map[string]any{"e": "new", "h": n})
		for _, st := range s.Steps {
			o := st.Op
			if o.Ks == nil {
				o.Ks = []int{}
			}
			tr.EmitRaw(map[string]any{"e": "try", "op": o, "h": n})
			tr.Flush()
			var ret string
			t0 := time.Now()
			bad := guarded(func() { ret = exec(o) })
			ms1 := time.Since(t0).Milliseconds()
			var snap snapT
			if bad == "" {
				var sbad string
				if g := guarded(func() { snap, sbad = stableSnapshot() }); g != "" {
					bad = "observation: " + g
				} else if sbad != "" {
					bad = sbad
				}
			}
			pushed := drain()
			ev := map[string]any{"e": "op", "h": n, "op": o, "ret": ret, "bad": bad, "pushed": pushed,
				"ms": []int64{ms1, time.Since(t0).Milliseconds()},
				"get": snap.Get, "db": snap.Db, "ui": snap.UI, "q": snap.Q, "qa": snap.Qa, "objs": snap.Objs}
			if bad != "" {
				ev["get"], ev["db"], ev["ui"] = map[string]int{}, map[string]int{}, map[string]int{}
				ev["q"], ev["qa"], ev["objs"] = []int{}, []int{}, []int{}
			}
			tr.EmitRaw(ev)
			tr.Flush()
			if strings.Contains(bad, "hang") || strings.HasPrefix(bad, "not quiet") {
				// locks of the package are held for good: this process cannot go on
				died = true
				break
			}
			if bad != "" {
				break
			}
		}
		if !died {
			cleanup()
		}
		n++
		return nil
	})
	tr.Close()
	if err != nil {
		fmt.Fprintln(os.Stderr, err)
		os.RemoveAll(dir)
		os.Exit(2)
	}
	if died {
		os.RemoveAll(dir)
		os.Exit(3)
	}
	fmt.Printf("histories=%d\n", n)
}
