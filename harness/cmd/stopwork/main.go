// Command stopwork replays one scheduling policy (from spec/StopProtocolGen.tla) against the real
// stop protocol of the modules package (properties C05 and C06).  Work items of every managed kind are
// gates; `verifPoint` yield points inside the stop sequence and the counter hand-over let the policy
// order goroutines inside the protocol.  One process per script (the module system is a singleton).
//
// usage: stopwork <script.ndjson> <trace.ndjson> [skip]
package main

import (
	"context"
	"encoding/json"
	"errors"
	"fmt"
	"os"
	"reflect"
	"runtime"
	"strings"
	"sync"
	"sync/atomic"
	"time"

	"github.com/safing/portbase/log"
	"github.com/safing/portbase/modules"

	"verifharness/internal/sched"
	"verifharness/internal/vio"
)

type item struct {
	ID   string `json:"id"`
	Kind string `json:"kind"` // worker startworker service hook task micro_high micro_med micro_low startmicro signal
	Out  string `json:"out"`  // ok err panic_nil panic_err panic_str panic_rt panic_struct panic_cancel panic_slice panic_twice panic_nilerr
	Done int    `json:"done"` // signal variants: how often done() is called
	Bo   int    `json:"bo"`   // service workers: restart back-off in milliseconds (0: 10 ms)
	Pre  bool   `json:"pre"`  // worker / startworker: started before the module system is started
}

type script struct {
	Items     []item   `json:"items"`
	HasStopFn bool     `json:"hasStopFn"`
	StopErr   bool     `json:"stopErr"` // the stop routine of M returns an error
	MicroLimit int     `json:"microLimit"` // > 0: concurrency limit of microtasks (default 8)
	Dep       bool     `json:"dep"`
	Mode      string   `json:"mode"` // shutdown | manage
	Policy    []string `json:"policy"`
	Probes    bool     `json:"probes"`
	WaitAgain bool     `json:"waitAgain"` // before the stop: re-queue failed tasks and give restarts time (C06)
	Prelude   bool     `json:"prelude"`   // mode manage: an earlier life cycle of M whose stop ran into its timeout (a worker that
	// ignores its context); M is started again, the straggler returns, then the judged history begins
	Patient   bool     `json:"patient"`   // wait up to the documented execution-wait limit (1 min) for re-runs
}

type payload struct{ A, B int }

// payloadS is a panic value of a type that cannot be compared with ==.
type payloadS struct {
	Op      string
	Pending []int
}

var (
	tr       *vio.Trace
	sch      *sched.Sched
	modM     *modules.Module
	modA     *modules.Module
	sc       script
	byID     = map[string]*item{}
	mu       sync.Mutex
	launched = map[string]bool{}
	runs     = map[string]int{}
	endedRun = map[string]bool{}
	tasks    = map[string]*modules.Task{}
	stopRet  = make(chan struct{})
	stopOnce sync.Once
)

// quiet: the prelude (an earlier, unjudged life cycle of M) is running - nothing is recorded, nothing is parked
var quiet atomic.Bool

func emit(ev map[string]any) {
	if quiet.Load() {
		return
	}
	ev["t"] = sch.Ms()
	ev["h"] = 0
	tr.Emit(ev)
}

func panicValue(out string) any {
	switch out {
	case "panic_err":
		return errors.New("injected error value")
	case "panic_str":
		return "injected string value"
	case "panic_struct":
		return payload{A: 7, B: 9}
	case "panic_cancel":
		// an error value that wraps a sentinel the worker loops look for in *returned* errors
		return fmt.Errorf("sub-operation aborted: %w", context.Canceled)
	case "panic_slice", "panic_twice":
		return payloadS{Op: "flush", Pending: []int{1, 2, 3}}
	case "panic_nilerr":
		// an error value whose Error method itself panics (nil pointer receiver): rendering the value must not
		// take the process down either
		var e *brokenErr
		return e
	}
	return nil
}

type brokenErr struct{ msg string }

func (e *brokenErr) Error() string { return e.msg }

func finish(it *item) error {
	switch it.Out {
	case "ok":
		return nil
	case "err":
		return errors.New("injected failure")
	case "restartnow":
		// e.g. an accept loop whose listener went away: "restart me at once"
		return fmt.Errorf("listener closed: %w", modules.ErrRestartNow)
	case "panic_nil":
		panic(nil) //nolint
	case "panic_rt":
		var m map[string]int
		m["x"] = 1 // runtime error
	default:
		panic(panicValue(it.Out))
	}
	return nil
}

// work is the body of every managed work item.
func work(it *item) func(ctx context.Context) error {
	return func(ctx context.Context) error {
		mu.Lock()
		runs[it.ID]++
		n := runs[it.ID]
		mu.Unlock()
		if n > 1 && it.Out == "restartnow" && ctx.Err() != nil {
			// asked to restart at once although the module is being stopped: keeps asking
			return fmt.Errorf("listener closed: %w", modules.ErrRestartNow)
		}
		if n > 1 {
			// service worker restarted / task ran again after a failure
			if n == 2 {
				emit(map[string]any{"e": "restarted", "i": it.ID})
			}
			if n == 2 && it.Out == "panic_twice" {
				// the same item panics again with an equal value, nothing else reported in between
				panic(panicValue(it.Out))
			}
			return nil
		}
		sch.Bind(it.ID)
		emit(map[string]any{"e": "wbegin", "i": it.ID, "ctxdone": ctx.Err() != nil})
		sch.Yield("fn", it.ID)
		if it.Kind == "task" {
			// A task that returns within microseconds can hit the (documented) race between the refreshed
			// task context and the goroutine that releases the queue slot, which stalls the queue for the
			// execution-wait limit of one minute; that is allowed by the properties, so do not provoke it.
			time.Sleep(20 * time.Millisecond)
		}
		emit(map[string]any{"e": "wend", "i": it.ID, "ctxdone": ctx.Err() != nil})
		mu.Lock()
		endedRun[it.ID] = true
		mu.Unlock()
		return finish(it)
	}
}

func wret(it *item, err error) {
	isPanic, me := modules.IsPanic(err)
	valueOK, hasStack := false, false
	if isPanic && me != nil {
		hasStack = strings.Contains(me.StackTrace, "goroutine")
		switch it.Out {
		case "panic_nil":
			_, valueOK = me.PanicValue.(*runtime.PanicNilError)
		case "panic_rt":
			_, valueOK = me.PanicValue.(runtime.Error)
		case "panic_err":
			e, ok := me.PanicValue.(error)
			valueOK = ok && e.Error() == "injected error value"
		case "panic_cancel":
			e, ok := me.PanicValue.(error)
			valueOK = ok && errors.Is(e, context.Canceled) && e.Error() == fmt.Sprint(panicValue(it.Out))
		case "panic_nilerr":
			e, ok := me.PanicValue.(*brokenErr)
			valueOK = ok && e == nil
		default:
			valueOK = reflect.DeepEqual(me.PanicValue, panicValue(it.Out))
		}
	}
	emit(map[string]any{"e": "wret", "i": it.ID, "isPanic": isPanic, "valueOK": valueOK, "hasStack": hasStack,
		"err": fmt.Sprint(err)})
}

func launch(it *item) {
	fn := work(it)
	switch it.Kind {
	case "worker":
		go func() {
			err := modM.RunWorker(it.ID, fn)
			wret(it, err)
			sch.Unbind()
		}()
	case "startworker":
		modM.StartWorker(it.ID, fn)
	case "service":
		bo := 10 * time.Millisecond
		if it.Bo > 0 {
			bo = time.Duration(it.Bo) * time.Millisecond
		}
		modM.StartServiceWorker(it.ID, bo, fn)
	case "hook":
		modM.TriggerEvent("ev-"+it.ID, nil)
	case "xhook": // a hook of M on an event of the module it depends on
		if modA != nil {
			modA.TriggerEvent("ev-"+it.ID, nil)
		}
	case "task":
		t := modM.NewTask(it.ID, func(ctx context.Context, _ *modules.Task) error { return fn(ctx) })
		mu.Lock()
		tasks[it.ID] = t
		mu.Unlock()
		t.Queue()
	case "micro_high":
		go func() { wret(it, modM.RunHighPriorityMicroTask(it.ID, fn)); sch.Unbind() }()
	case "micro_med":
		go func() { wret(it, modM.RunMicroTask(it.ID, 10*time.Second, fn)); sch.Unbind() }()
	case "micro_low":
		go func() { wret(it, modM.RunLowPriorityMicroTask(it.ID, 10*time.Second, fn)); sch.Unbind() }()
	case "startmicro":
		modM.StartMicroTask(it.ID, 10*time.Second, fn)
	case "signal":
		go func() {
			done := modM.SignalMicroTask(10 * time.Second)
			func() {
				defer func() { _ = recover() }()
				_ = fn(modM.Ctx)
			}()
			for i := 0; i < it.Done || i < 1; i++ {
				done()
			}
			sch.Unbind()
		}()
	}
}

// runAgain queues every task whose run failed once more and gives failed service workers time to be
// restarted (their back-off is 10 ms in this harness).
func runAgain() {
	// let every item finish its bookkeeping first (the policy may have left some parked at yield points)
	quiet := time.Now()
	for time.Since(quiet) < 40*time.Millisecond {
		if len(sch.ParkedActors()) > 0 {
			sch.Release("")
			quiet = time.Now()
		}
		time.Sleep(200 * time.Microsecond)
	}
	emit(map[string]any{"e": "note", "parked": sch.ParkedActors()})
	// a task is queued again only after its first run has ended (a loaded machine may take its time)
	for deadline := time.Now().Add(5 * time.Second); time.Now().Before(deadline); {
		pending := false
		mu.Lock()
		for id := range tasks {
			if runs[id] > 0 && !endedRun[id] {
				pending = true
			}
		}
		mu.Unlock()
		if !pending {
			break
		}
		time.Sleep(time.Millisecond)
	}
	time.Sleep(5 * time.Millisecond) // the deferred bookkeeping of the run (executing = false)
	mu.Lock()
	for id, t := range tasks {
		if byID[id].Out != "ok" && runs[id] > 0 {
			t.Queue()
			emit(map[string]any{"e": "requeued", "i": id})
		}
	}
	mu.Unlock()
	time.Sleep(300 * time.Millisecond)
	if sc.Patient {
		deadline := time.Now().Add(75 * time.Second)
		for time.Now().Before(deadline) {
			missing := false
			mu.Lock()
			for id, it := range byID {
				if (it.Kind == "task" || it.Kind == "service") && it.Out != "ok" && runs[id] == 1 {
					missing = true
				}
			}
			mu.Unlock()
			if !missing {
				break
			}
			time.Sleep(100 * time.Millisecond)
		}
	}
}

func requestStop() {
	emit(map[string]any{"e": "stopcall"})
	go func() {
		var err error
		if sc.Mode == "manage" {
			modM.Disable()
			if modA != nil {
				modA.Disable()
			}
			err = modules.ManageModules()
		} else {
			err = modules.Shutdown()
		}
		ev := map[string]any{"e": "stopret", "ok": err == nil}
		if err != nil {
			ev["err"] = err.Error()
		}
		emit(ev)
		close(stopRet)
	}()
}

func main() {
	if len(os.Args) < 3 {
		fmt.Fprintln(os.Stderr, "usage: stopwork <script> <trace> [skip]")
		os.Exit(2)
	}
	first := true
	err := vio.ReadLines(os.Args[1], func(line []byte) error {
		if !first {
			return nil
		}
		first = false
		return json.Unmarshal(line, &sc)
	})
	if err != nil {
		fmt.Fprintln(os.Stderr, err)
		os.Exit(2)
	}
	tr, err = vio.NewTrace(os.Args[2])
	if err != nil {
		fmt.Fprintln(os.Stderr, err)
		os.Exit(2)
	}
	sch = sched.New()
	log.SetLogLevel(log.CriticalLevel)
	modules.SetStdErrReporting(false)
	modules.VerifSetTimeouts(10*time.Second, 8*time.Second)

	ids, kinds, outs, pans, fails := []string{}, []string{}, []string{}, []string{}, []string{}
	bos := []int{}
	for i := range sc.Items {
		it := &sc.Items[i]
		byID[it.ID] = it
		ids = append(ids, it.ID)
		kinds = append(kinds, it.Kind)
		outs = append(outs, it.Out)
		if it.Bo > 0 {
			bos = append(bos, it.Bo)
		} else {
			bos = append(bos, 10)
		}
		if strings.HasPrefix(it.Out, "panic") {
			pans = append(pans, it.ID)
		}
		if it.Out != "ok" {
			fails = append(fails, it.ID)
		}
	}
	probes := []item{}
	if sc.Probes {
		probes = append(probes, item{ID: "pw", Kind: "worker", Out: "ok"}, item{ID: "pm", Kind: "micro_med", Out: "ok"})
		if sc.Mode == "manage" {
			probes = append(probes, item{ID: "pt", Kind: "task", Out: "ok"}, item{ID: "ph", Kind: "hook", Out: "ok"})
		}
		for i := range probes {
			byID[probes[i].ID] = &probes[i]
			ids = append(ids, probes[i].ID)
			kinds = append(kinds, probes[i].Kind)
			outs = append(outs, "ok")
			bos = append(bos, 10)
		}
	}
	tr.Emit(map[string]any{"e": "init", "ids": ids, "kinds": kinds, "outs": outs, "hasStopFn": sc.HasStopFn,
		"panics": pans, "failing": fails, "backoffs": bos, "mode": sc.Mode, "dep": sc.Dep, "stopErr": sc.StopErr, "h": 0, "t": 0})

	// error channel collector
	repCh := make(chan *modules.ModuleError, 1000)
	modules.SetErrorReportingChannel(repCh)
	go func() {
		for me := range repCh {
			id := me.TaskName
			if k := strings.LastIndex(id, "/"); k >= 0 { // event hook names end in "/<description>"
				id = id[k+1:]
			}
			if _, ok := byID[id]; !ok {
				continue
			}
			emit(map[string]any{"e": "report", "i": id, "severity": me.Severity,
				"hasStack": strings.Contains(me.StackTrace, "goroutine")})
		}
	}()

	// modules: M depends on A
	var deps []string
	if sc.Dep {
		modA = modules.Register("A", nil, nil, func() error {
			emit(map[string]any{"e": "depstop"})
			return nil
		})
		deps = []string{"A"}
	}
	var stopFn func() error
	if sc.HasStopFn {
		stopFn = func() error {
			if quiet.Load() {
				return nil // prelude: the stop routine returns at once, the straggling worker is what the stop waits for
			}
			sch.Bind("fn")
			emit(map[string]any{"e": "fnbegin", "ctxdone": modM.Ctx.Err() != nil})
			sch.Yield("fn", "fn")
			emit(map[string]any{"e": "fnend"})
			if sc.StopErr {
				return errors.New("injected stop failure")
			}
			return nil
		}
	}
	modM = modules.Register("M", nil, nil, stopFn, deps...)
	for i := range sc.Items {
		if sc.Items[i].Kind == "hook" {
			modM.RegisterEvent("ev-"+sc.Items[i].ID, false)
		}
		if sc.Items[i].Kind == "xhook" && modA != nil {
			modA.RegisterEvent("ev-"+sc.Items[i].ID, false)
		}
	}
	modM.RegisterEvent("ev-ph", false)
	if sc.Mode == "manage" {
		modules.EnableModuleManagement(func(*modules.Module) {})
		modM.Enable()
		if modA != nil {
			modA.Enable()
		}
	}
	sch.Naming = func(point, tag string) string {
		if tag != "M" {
			return ""
		}
		if strings.HasPrefix(point, "stop.") {
			return "stopper"
		}
		return ""
	}
	modules.VerifHook = func(point string, m *modules.Module) {
		tag := ""
		if m != nil {
			tag = m.Name
		}
		if quiet.Load() {
			return
		}
		if os.Getenv("VERIF_DEBUG") != "" {
			emit(map[string]any{"e": "note", "point": point, "tag": tag, "actor": sch.Actor()})
		}
		switch point {
		case "stop.ctrlset", "stop.flagset", "stop.cancelled", "stop.fnstarted", "stop.beforeclose",
			"work.dec", "task.dec", "micro.dec", "micro.conclude", "ctrl.unset":
			if tag == "M" {
				sch.Yield(point, tag)
			}
		}
	}
	modules.SetMaxConcurrentMicroTasks(8)
	if sc.MicroLimit > 0 {
		modules.SetMaxConcurrentMicroTasks(sc.MicroLimit)
	}
	// work that is started before the module system is: it lives on across the start of its module
	for i := range sc.Items {
		it := &sc.Items[i]
		if it.Pre && (it.Kind == "worker" || it.Kind == "startworker") {
			launched[it.ID] = true
			launch(it)
			sch.Settle(it.ID, 20*time.Millisecond)
		}
	}
	if err := modules.Start(); err != nil {
		fmt.Fprintln(os.Stderr, "start failed:", err)
		os.Exit(2)
	}
	if sc.Prelude && sc.Mode == "manage" {
		quiet.Store(true)
		modules.VerifSetTimeouts(10*time.Second, 300*time.Millisecond)
		release := make(chan struct{})
		returned := make(chan struct{})
		modM.StartWorker("straggler", func(context.Context) error {
			<-release // does not look at its context
			close(returned)
			return nil
		})
		time.Sleep(5 * time.Millisecond)
		modM.Disable()
		_ = modules.ManageModules() // runs into the stop timeout
		modules.VerifSetTimeouts(10*time.Second, 8*time.Second)
		modM.Enable()
		if err := modules.ManageModules(); err != nil || !modM.Online() {
			fmt.Fprintln(os.Stderr, "prelude: M did not come back:", err)
			os.Exit(2)
		}
		close(release)
		<-returned
		time.Sleep(20 * time.Millisecond)
		quiet.Store(false)
	}
	for i := range sc.Items {
		it := &sc.Items[i]
		if it.Kind == "hook" || (it.Kind == "xhook" && modA != nil) {
			it := it
			fn := work(it)
			src := "M"
			if it.Kind == "xhook" {
				src = "A"
			}
			_ = modM.RegisterEventHook(src, "ev-"+it.ID, it.ID, func(ctx context.Context, _ interface{}) error { return fn(ctx) })
		}
	}
	phItem := byID["ph"]
	if phItem != nil {
		_ = modM.RegisterEventHook("M", "ev-ph", "ph", func(ctx context.Context, _ interface{}) error {
			emit(map[string]any{"e": "wbegin", "i": "ph", "ctxdone": ctx.Err() != nil})
			emit(map[string]any{"e": "wend", "i": "ph", "ctxdone": ctx.Err() != nil})
			return nil
		})
	}

	// offline poller
	go func() {
		for modM.Status() != modules.StatusOffline {
			time.Sleep(50 * time.Microsecond)
		}
		emit(map[string]any{"e": "offline"})
	}()

	// ---- walk the policy ----
	stopRequested := false
	for _, a := range sc.Policy {
		switch {
		case a == "stopper" && !stopRequested:
			stopRequested = true
			if sc.WaitAgain {
				runAgain()
			}
			requestStop()
			sch.Settle("stopper", 20*time.Millisecond)
		case a != "stopper" && a != "fn" && !launched[a]:
			it := byID[a]
			if it == nil {
				continue
			}
			launched[a] = true
			launch(it)
			sch.Settle(a, 50*time.Millisecond)
		default:
			ok := sch.Await(a, 8*time.Millisecond, nil)
			if !ok {
				continue
			}
			sch.Release(a)
			sch.Settle(a, 3*time.Millisecond)
		}
	}
	if !stopRequested {
		if sc.WaitAgain {
			runAgain()
		}
		requestStop()
	}
	emit(map[string]any{"e": "released"})
	sch.Free()
	select {
	case <-stopRet:
	case <-time.After(20 * time.Second):
		emit(map[string]any{"e": "hang"})
	}
	time.Sleep(5 * time.Millisecond)
	// probes on the stopped module
	for i := range probes {
		p := &probes[i]
		switch p.ID {
		case "pw":
			_ = modM.RunWorker("pw", func(ctx context.Context) error {
				emit(map[string]any{"e": "wbegin", "i": "pw", "ctxdone": ctx.Err() != nil})
				emit(map[string]any{"e": "wend", "i": "pw", "ctxdone": ctx.Err() != nil})
				return nil
			})
		case "pm":
			_ = modM.RunMicroTask("pm", 50*time.Millisecond, func(ctx context.Context) error {
				emit(map[string]any{"e": "wbegin", "i": "pm", "ctxdone": ctx.Err() != nil})
				emit(map[string]any{"e": "wend", "i": "pm", "ctxdone": ctx.Err() != nil})
				return nil
			})
		case "pt":
			modM.NewTask("pt", func(ctx context.Context, _ *modules.Task) error {
				emit(map[string]any{"e": "wbegin", "i": "pt", "ctxdone": ctx.Err() != nil})
				emit(map[string]any{"e": "wend", "i": "pt", "ctxdone": ctx.Err() != nil})
				return nil
			}).Queue()
		case "ph":
			modM.TriggerEvent("ev-ph", nil)
		}
	}
	if len(probes) > 2 {
		time.Sleep(150 * time.Millisecond)
	}
	st := modules.GetStatus()
	ms := st.Modules["M"]
	emit(map[string]any{"e": "final", "workers": ms.Workers, "tasks": ms.Tasks, "micro": ms.MicroTasks, "alive": true,
		"status": ms.Status})
	tr.Close()
	os.Exit(0)
}
