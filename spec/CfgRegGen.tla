---- MODULE CfgRegGen ----
\* Extension check X09: (a) breadth-first model checking of the laws of spec/CfgReg.tla on every reachable
\* state of a small operation domain (Emit = FALSE), (b) generation of operation histories for the driver
\* harness/cmd/cfgreg (Emit = TRUE, -simulate).
EXTENDS CfgReg, Json

CONSTANTS MaxLen,   \* operations per emitted history / depth bound of the breadth-first search
          Level,    \* 1: small operation domain, 2: larger (breadth-first search only)
          Emit      \* print finished histories as JSON

VARIABLES st, hist, done
vars == <<st, hist, done>>

Init == st = Empty /\ hist = <<>> /\ done = FALSE

\* the dummy parameter keeps TLC from caching a draw
Rnd(S, n) == RandomElement(S)
Bag(s, n) == s[Rnd(1..Len(s), n)]

Spec0(t, re, pv, vf, rl, rr, d) ==
    [nm |-> 1, ds |-> 1, hp |-> 1, t |-> t, re |-> re, pv |-> pv, vf |-> vf, rl |-> rl, el |-> 0, rr |-> rr, an |-> 0, d |-> d]

\* ---------------------------------------------------------------- random operations (simulation)
PvFor(t, n) == CASE t = 1 -> Bag(<<0, 0, 0, 1, 1, 2, 2>>, n)
                 [] t \in {3, 4} -> Bag(<<0, 0, 1>>, n)
                 [] OTHER -> 0
RandSpec(n) ==
    LET t == Bag(<<1, 1, 1, 2, 2, 3, 3, 4, 1, 2, 3, 4, 0, 9>>, n)
        base == [nm |-> Bag(<<1, 1, 1, 1, 1, 1, 1, 1, 1, 0>>, n), ds |-> Bag(<<1, 1, 1, 1, 1, 1, 1, 1, 1, 0>>, n),
                 hp |-> Bag(<<0, 1>>, n), t |-> t, re |-> Bag(<<0, 0, 0, 0, 1, 1, 1, 2>>, n), pv |-> PvFor(t, n),
                 vf |-> Bag(<<0, 0, 0, 1>>, n), rl |-> Bag(<<0, 0, 0, 1, 1, 2>>, n), el |-> Bag(<<0, 1, 2>>, n),
                 rr |-> Bag(<<0, 0, 1>>, n), an |-> Bag(<<0, 1>>, n), d |-> "nil"]
        good == {r \in RawIds : Valid(base, r)}
        d == IF good # {} /\ Rnd(1..6, n) > 1 THEN Rnd(good, n) ELSE Rnd(RawIds, n)
    IN [base EXCEPT !.d = d]

\* values for an option: mostly of its type
RawFor(k, n) ==
    IF k \in Keys(st) /\ Rnd(1..5, n) > 1
    THEN LET o == st.reg[k]
             typed == {r \in RawIds : Info[r].k = TName(o.t)}
             good == {r \in RawIds : Valid(o, r)}
         IN IF good # {} /\ Rnd(1..3, n) > 1 THEN Rnd(good, n) ELSE Rnd(typed \cup {"nil", "f:1.5", "is:a,#1"}, n)
    ELSE Rnd(RawIds, n)
KeyBag == <<KA, KA, KB, KB, KKD, KUA, KRL, KRL, KEL>>
RegKeyBag == <<KA, KA, KB, KB, KKD, KKD, KUA, KUA, <<>> >>
Prefixes == {<<>>, <<9>>, <<9, 1>>, <<9, 1, 7>>, <<9, 1, 7, 1>>, KA, KB, KKD, <<10>>, <<4, 1>>, KRL, <<4, 1, 6, 1>>, <<2>>, <<9, 1, 2, 1>>}
RECURSIVE RandMap(_, _, _)
RandMap(ks, n, acc) ==
    IF ks = {} THEN acc
    ELSE LET k == CHOOSE x \in ks : TRUE IN
         IF Rnd(1..2, n) = 1 THEN RandMap(ks \ {k}, n, acc)
         ELSE LET r == RawFor(k, n) IN RandMap(ks \ {k}, n, Append(acc, [k |-> k, raw |-> IF r \in {"nil", "x:map"} THEN "s:x" ELSE r]))
MapKeyPool == UserKeys \cup LevelKeys \cup {<<10, 1, 3>>}

Families == <<"register", "register", "register", "setuser", "setuser", "setdef", "dbput", "dbput", "dbput", "dbdel",
              "dbget", "dbquery", "replace", "persp", "persp">>
FamiliesStart == <<"register", "register", "register", "register", "setuser", "dbput", "dbquery">>
RandOp(n) ==
    LET f == IF Cardinality(Keys(st)) < 4 THEN Bag(FamiliesStart, n) ELSE Bag(Families, n) IN
    CASE f = "register" -> Op("register", Bag(RegKeyBag, n), "nil", RandSpec(n), <<>>)
      [] f \in {"setuser", "setdef"} -> LET k == Bag(KeyBag, n) IN Op(f, k, RawFor(k, n), NoSpec, <<>>)
      [] f = "dbput" -> LET k == Bag(KeyBag, n) IN
                        Op(f, k, IF Rnd(1..8, n) = 1 THEN "absent" ELSE RawFor(k, n), NoSpec, <<>>)
      [] f \in {"dbdel", "dbget"} -> Op(f, Bag(KeyBag, n), "nil", NoSpec, <<>>)
      [] f = "dbquery" -> Op(f, Rnd(Prefixes, n), "nil", NoSpec, <<>>)
      [] OTHER -> Op(f, <<>>, "nil", NoSpec, RandMap(MapKeyPool, n, <<>>))

\* ---------------------------------------------------------------- small domain (breadth-first search)
BfsKeys == IF Level = 1 THEN {KA, KKD} ELSE {KA, KB, KKD}
BfsSpecs == {Spec0(1, 0, 0, 0, 0, 0, "s:a"), Spec0(1, 1, 1, 0, 1, 1, "s:b"), Spec0(3, 0, 1, 1, 2, 0, "i:1"),
             Spec0(2, 1, 0, 1, 0, 1, "ss:a"), Spec0(1, 2, 0, 0, 0, 0, "s:a"), Spec0(4, 0, 0, 0, 0, 0, "s:a"),
             Spec0(1, 0, 2, 0, 0, 0, "s:a(")}
    \cup (IF Level = 1 THEN {} ELSE {Spec0(4, 0, 1, 0, 1, 1, "b:true"), Spec0(0, 0, 0, 0, 0, 0, "s:a"),
                                     [Spec0(1, 0, 0, 0, 0, 0, "s:a") EXCEPT !.nm = 0]})
BfsRaws == {"nil", "s:a", "s:b", "s:x", "i:1", "i:2", "f:1.5", "ss:a", "ss:b", "is:a,#1", "s:beta", "s:experimental", "s:expert"}
           \cup (IF Level = 1 THEN {} ELSE {"b:true", "b:false", "s:a(", "i:12", "ss:a,x", "x:map"})
BfsMaps == {<<>>, <<[k |-> KA, raw |-> "s:a"]>>, <<[k |-> KA, raw |-> "i:2"], [k |-> KKD, raw |-> "s:b"]>>,
            <<[k |-> KRL, raw |-> "s:beta"], [k |-> <<10, 1, 3>>, raw |-> "s:a"]>>}
BfsOps ==
    {Op("register", k, "nil", s, <<>>) : k \in BfsKeys \cup {<<>>}, s \in BfsSpecs}
    \cup {Op(f, k, r, NoSpec, <<>>) : f \in {"setuser", "setdef", "dbput"}, k \in BfsKeys \cup {KRL, KEL, KUA}, r \in BfsRaws}
    \cup {Op("dbput", k, "absent", NoSpec, <<>>) : k \in BfsKeys \cup {KUA}}
    \cup {Op(f, k, "nil", NoSpec, <<>>) : f \in {"dbdel", "dbget"}, k \in BfsKeys \cup {KUA}}
    \cup {Op("dbquery", p, "nil", NoSpec, <<>>) : p \in {<<>>, <<9, 1>>, <<4>>}}
    \cup {Op(f, <<>>, "nil", NoSpec, m) : f \in {"replace", "persp"}, m \in BfsMaps}

Pick(S) == IF Emit THEN {RandomElement(S)} ELSE S
\* generation follows the accepting outcome where the statement leaves a choice
Prefer(S) == IF \E x \in S : x.res.err = "ok" THEN {x \in S : x.res.err = "ok"} ELSE S

DoOp == /\ ~done /\ Len(hist) < MaxLen
        /\ \E o \in (IF Emit THEN {RandOp(0)} ELSE BfsOps) : \E x \in (IF Emit THEN Pick(Prefer(Step(st, o))) ELSE Step(st, o)) :
              /\ st' = x.st
              /\ hist' = Append(hist, IF Emit THEN o ELSE 0)
        /\ UNCHANGED done

Finish == /\ Emit /\ Len(hist) = MaxLen /\ ~done
          /\ done' = TRUE
          /\ PrintT(<<"@@", ToJson([steps |-> hist])>>)
          /\ UNCHANGED <<st, hist>>

Next == DoOp \/ Finish
Spec == Init /\ [][Next]_vars

Laws == /\ ValuesValid(st)
        /\ LevelsThere(st)
        /\ ActiveGated(st)
        /\ \A p \in Prefixes : QueryIsGets(st, p)
        /\ \A o \in BfsOps : Step(st, o) # {} /\ FailuresChangeNothing(st, o) /\ FeedShowsResult(st, o)
GenView == <<st, Len(hist), done>>
====
