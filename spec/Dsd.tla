---- MODULE Dsd ----
\* formats/dsd: format resolution, identifier prefix, compression wrapper and HTTP negotiation (C09).
\*
\* The encodings themselves (JSON, CBOR, MsgPack, YAML, GenCode) are third-party code and are not
\* specified here: a payload is opaque.  What is specified is everything dsd adds around them:
\*   * which format a request (possibly AUTO) resolves to,
\*   * the identifier that has to be written in front of a dump / a compressed dump,
\*   * which format Load has to report and that it has to give back an equal value,
\*   * HTTP: which formats a responder may choose for an Accept header, when it has to answer,
\*     and that the Content-Type it writes names the encoding of the body, so that the load
\*     side (which resolves the label again) recovers the value.
\* Values are compared through their canonical text (written by the driver); header values are
\* sequences of media-type tokens [m |-> main type, s |-> subtype, v |-> variant].
EXTENDS Integers, Sequences, FiniteSets

\* ------------------------------------------------------------------ format identifiers
AUTO == 0
RAW == 1
CBOR == 67
GENCODE == 71
JSON == 74
LIST == 76
MSGPACK == 77
YAML == 89
GZIP == 90
NONE == -1                \* "no compression requested" in vectors and events

SerFormats == {RAW, CBOR, GENCODE, JSON, MSGPACK, YAML}     \* concrete serialization formats
CompFormats == {GZIP}                                       \* concrete compression formats
MimeFormats == {CBOR, JSON, MSGPACK, YAML}                  \* formats that have a media type
DefaultComp == GZIP

SerRequest(f) == f \in SerFormats \cup {AUTO}
CompRequest(c) == c \in CompFormats \cup {AUTO}
\* dser: the configured default serialization format (dsd.DefaultSerializationFormat)
ResolveSer(f, dser) == IF f = AUTO THEN dser ELSE f
ResolveComp(c) == IF c = AUTO THEN DefaultComp ELSE c

\* ------------------------------------------------------------------ abstract blobs
\* The identifier structure of a dump: <<id>> or <<compression id, inner id>> (payload omitted).
DumpIds(f, c, dser) == IF c = NONE THEN <<ResolveSer(f, dser)>> ELSE <<ResolveComp(c), ResolveSer(f, dser)>>
\* The format Load reports for an identifier structure, 0 = error.
LoadIds(ids) == IF Len(ids) = 0 THEN 0
                ELSE IF ids[1] \in SerFormats THEN ids[1]
                ELSE IF ids[1] \in CompFormats /\ Len(ids) > 1 /\ ids[2] \in SerFormats THEN ids[2]
                ELSE 0

\* ------------------------------------------------------------------ value kinds of the harness schema
Kinds == {"doc", "gen", "meta", "bytes", "strs", "text"}
\* doc: nested struct; gen: struct with a GenCode codec; meta: record.Meta (GenCode only);
\* bytes: []byte; strs: []string; text: string
Representable(kind, F) == CASE F = RAW -> kind = "bytes"
                            [] F = GENCODE -> kind \in {"gen", "meta"}
                            [] OTHER -> kind # "meta"

\* ------------------------------------------------------------------ round trips through Dump/Load
\* ev: [api: "dump" | "compress", f, c, dser, kind, dok, id, inner, lok, lraw, lfmt, want, got]
\*   id: identifier found in front of the blob (-1: none), inner: identifier in front of the
\*   decompressed stream (-1: not compressed / not decompressable), lraw: Load returned ErrIsRaw,
\*   lfmt: format reported by Load, got: canonical text of the loaded value (RAW with ErrIsRaw: of
\*   the bytes behind the identifier)
RtDefined(ev) == /\ SerRequest(ev.f)
                 /\ ev.dser \in SerFormats
                 /\ (ev.api = "compress" => CompRequest(ev.c))
                 /\ (ev.api = "dump" => ev.c = NONE)
                 /\ Representable(ev.kind, ResolveSer(ev.f, ev.dser))
RtGood(ev) ==
    RtDefined(ev) =>
        LET F == ResolveSer(ev.f, ev.dser)
            ids == DumpIds(ev.f, ev.c, ev.dser)
        IN /\ ev.dok
           /\ ev.id = ids[1]
           /\ (ev.api = "compress" => ev.inner = ids[2])
           /\ LoadIds(ids) = F
           /\ ev.lfmt = F
           /\ IF F = RAW
              THEN \* RAW is bytes only: Load cannot fill an interface, it reports RAW with the ErrIsRaw
                   \* sentinel and the caller takes the bytes behind the identifier
                   /\ (ev.lok \/ ev.lraw)
                   /\ (ev.api = "dump" => ev.got = ev.want)
              ELSE ev.lok /\ ev.got = ev.want
\* outside the defined domain (unknown identifiers, values the format cannot hold) the property is
\* silent: error or success are both fine, a panic is not (checked for every event).

\* ------------------------------------------------------------------ media-type tokens
Mains == {"application", "text", "*", "", "other"}                  \* "": no slash in the token
Subs == {"json", "cbor", "msgpack", "yaml", "yml", "html", "*", "", "other"}
Variants == {"plain", "upper", "q", "sp", "charset", "other"}      \* upper case, ;q=0.8, blanks around, ; charset=utf-8

SubFormat(s) == CASE s = "json" -> JSON [] s = "cbor" -> CBOR [] s = "msgpack" -> MSGPACK
                  [] s = "yaml" -> YAML [] OTHER -> 0

\* formats a token names beyond doubt (media types are case insensitive, parameters and blanks are legal)
StrictNames(t) == IF t.m = "application" /\ SubFormat(t.s) # 0 /\ t.v # "other" THEN {SubFormat(t.s)} ELSE {}
\* formats a lenient reader may take the token for (text/yaml, bare "json", application/yml, ...)
LenientNames(t) == IF SubFormat(t.s) # 0 THEN {SubFormat(t.s)}
                   ELSE IF t.s = "yml" THEN {YAML} ELSE {}
StrictWild(t) == t.s = "*" /\ t.m \in {"*", "application"} /\ t.v # "other"
LenientWild(t) == t.s = "*"

Idx(h) == 1..Len(h)
\* The Accept header names a supported format or a wildcard: the responder has to answer.
Must(h) == \E i \in Idx(h) : StrictNames(h[i]) # {} \/ StrictWild(h[i])
\* Formats the responder may answer in (the property does not rank the entries of the list).
AllowedFmt(h) == UNION { LenientNames(h[i]) : i \in Idx(h) }
                 \cup (IF \E i \in Idx(h) : LenientWild(h[i]) THEN MimeFormats ELSE {})

\* The format a Content-Type label names: exactly one media type that names a format, else 0.
LabelFormat(ct) == IF Len(ct) = 1 /\ ct[1].m \in {"application", "text"} /\ ct[1].v # "other" /\ LenientNames(ct[1]) # {}
                   THEN CHOOSE F \in LenientNames(ct[1]) : TRUE ELSE 0
\* canonical label of a format
SubOf(F) == CASE F = JSON -> "json" [] F = CBOR -> "cbor" [] F = MSGPACK -> "msgpack" [] F = YAML -> "yaml"
CanonTok(F) == [m |-> "application", s |-> SubOf(F), v |-> "plain"]
CanonLabel == [x \in {"application/json", "application/cbor", "application/msgpack", "application/yaml"} |->
                 CASE x = "application/json" -> JSON [] x = "application/cbor" -> CBOR
                   [] x = "application/msgpack" -> MSGPACK [] x = "application/yaml" -> YAML]

\* Reference negotiation as documented at dsd.FormatFromAccept: empty header -> default; first entry
\* that names a format; otherwise default if there is a wildcard; otherwise 0 (nothing acceptable).
RECURSIVE FirstNamed(_, _)
FirstNamed(h, i) == IF i > Len(h) THEN 0
                    ELSE IF LenientNames(h[i]) # {} THEN CHOOSE F \in LenientNames(h[i]) : TRUE
                    ELSE FirstNamed(h, i + 1)
RefPick(h, dser) == IF Len(h) = 0 THEN dser
                    ELSE IF FirstNamed(h, 1) # 0 THEN FirstNamed(h, 1)
                    ELSE IF \E i \in Idx(h) : LenientWild(h[i]) THEN dser ELSE 0

\* ------------------------------------------------------------------ HTTP events
InSeq(x, s) == \E i \in DOMAIN s : s[i] = x
\* After a successful dump into a request/response:
\*   ct: raw Content-Type, ctt: its tokens, sniff: formats in which an independent decoder reads the
\*   body back to the dumped value, lok/lfmt/got: what LoadFromHTTP* did on the other side.
Consistent(ev) ==
    LET F == LabelFormat(ev.ctt)
    IN /\ F # 0
       /\ (ev.ct \in DOMAIN CanonLabel => CanonLabel[ev.ct] = F)
       /\ InSeq(F, ev.sniff)          \* the label names the encoding actually used
       /\ ev.lok /\ ev.lfmt = F /\ ev.got = ev.want

\* DumpToHTTPResponse / MimeDump for Accept header ev.hdr
RespGood(ev) ==
    IF Must(ev.hdr) /\ ev.dser \in MimeFormats /\ Representable(ev.kind, JSON)
    THEN ev.dok /\ Consistent(ev) /\ LabelFormat(ev.ctt) \in AllowedFmt(ev.hdr)
    ELSE ev.dok => Consistent(ev)

\* DumpToHTTPRequest with format ev.f
ReqGood(ev) ==
    IF ev.f \in MimeFormats /\ Representable(ev.kind, ev.f)
    THEN ev.dok /\ Consistent(ev) /\ LabelFormat(ev.ctt) = ev.f
    ELSE ev.dok => Consistent(ev)

\* LoadFromHTTPRequest/Response of a body encoded in ev.fb under Content-Type ev.hdr
CloadGood(ev) ==
    (Len(ev.hdr) = 1 /\ StrictNames(ev.hdr[1]) = {ev.fb}) => (ev.lok /\ ev.lfmt = ev.fb /\ ev.got = ev.want)

\* request -> server (LoadFromHTTPRequest, DumpToHTTPResponse) -> client (LoadFromHTTPResponse) over a socket
EchoGood(ev) ==
    (ev.f \in MimeFormats /\ Representable(ev.kind, ev.f)) =>
        /\ ev.dok /\ ev.sok /\ ev.sfmt = ev.f /\ ev.sgot = ev.want
        /\ ev.rok /\ Consistent(ev) /\ LabelFormat(ev.ctt) = ev.f
====
