---- MODULE Subsys ----
\* X05 (extension check) - package modules/subsystems of portbase: subsystems group modules behind one
\* config toggle (module.go, registry.go, subsystem.go; DefaultManager on top of the module manager,
\* the config system and the runtime database).
\*
\* STATEMENT (derived from the doc comments of the package, its test and the code; where these sources
\* are silent - or where documentation and code disagree - the model allows every outcome):
\*
\*  S1 registration.  Register(id, ..) before the manager is started creates the subsystem; a second
\*     registration of the same id is rejected (ErrDuplicateSubsystem) and leaves the first one as it
\*     was; any registration after the start is rejected (ErrManagerStarted) and changes nothing.
\*     Every registered subsystem - and nothing else - is readable under runtime:subsystems/<id>; a
\*     query of runtime:subsystems/ delivers all of them ordered by id ("the order is always the
\*     same"), each with the name, toggle option key and config key space it was registered with.
\*  S2 toggle.  A subsystem's module is enabled iff its toggle option (user value, else the option's
\*     default) is true; a subsystem registered with a nil option is always enabled ("pass a nil
\*     option to force enable").  After every config change has been handled - changes may follow each
\*     other faster than the debounce interval - the enabled flags are those of the LAST configuration,
\*     the dependency flags are exactly the dependency closure of the enabled modules, and (as long as
\*     no start routine fails) EXACTLY the modules of enabled subsystems plus their dependencies are
\*     online: nothing else runs, nothing needed is missing ("keeps dependencies running": the module of
\*     a disabled subsystem keeps running while an enabled subsystem depends on it).
\*     With failing start routines: no module runs without its dependencies, nothing unwanted runs,
\*     a module whose start failed is offline and carries the start failure; the subsystems module
\*     reports "modulemgmt-failed" after a (single) config change whose handling failed and resolves
\*     it after one that was handled without error.
\*  S3 module groups.  Modules[0] of a subsystem is its own module; every module that subsystem modules
\*     depend on (without being a subsystem module itself) is listed in exactly one subsystem, one that
\*     reaches it through non-subsystem modules; which one, where several do, is open (the code walks
\*     a map), but fixed once the manager has started: the groups are those of SOME registration order.
\*  S4 reflection.  When the system is quiet, every ModuleStatus of every subsystem record equals the
\*     current state of that module: Enabled (enabled or enabled as dependency), Status, failure
\*     status, id and message; Subsystem.FailureStatus is the worst failure status of its modules.
\*  S5 push.  Whenever a subsystem record changed between two quiet points, subscribers of
\*     runtime:subsystems/ have received that record (under its key runtime:subsystems/<id>) at least
\*     once in between - also subscribers that were there before anybody read the records; nothing but
\*     subsystem records under their own key is pushed.  (Pushes without a visible change: open.)
\*  S6 annotations (weak).  Manager.Start never replaces a subsystem annotation an option already has,
\*     never annotates an option outside of every config key space, and annotates an option only with
\*     the subsystem whose key space it is in.  (The doc promises that all options of a key space get
\*     annotated; the code compares the whole option key with the key space: not claimed.)
\*  Not claimed: registering one module for two subsystems, calling Manager.Start twice, Register racing
\*  with Start, module level calls (Error/Resolve/..) racing with a management pass, everything during
\*  shutdown, which of several racing config handlers reports "modulemgmt-failed" last.
\*
\* This module is the reference semantics at the level of quiet points: `Step(s, op)` = set of allowed
\* [res, st]; a `sync` step is decided against an observation with `SyncOK`.  Modules are 1..n (1 = "base",
\* a dependency of the subsystems module itself: always flagged and online), subsystems 1..3, the toggle
\* option of subsystem i is option i.
EXTENDS Integers, Sequences, FiniteSets, TLC

MaxSubs == 3
Base == 1
NoFail == [lvl |-> 0, id |-> 0, msg |-> 0]
StartFailed == [lvl |-> 3, id |-> 9, msg |-> 9]
NoSub == [m |-> 0, k |-> 0, def |-> FALSE, ord |-> 0]

ToSet(q) == {q[i] : i \in 1..Len(q)}
MaxOf(S) == IF S = {} THEN 0 ELSE CHOOSE x \in S : \A y \in S : y <= x

Op(op, id, m, k, def, v, lvl, fid) == [op |-> op, id |-> id, m |-> m, k |-> k, def |-> def, v |-> v, lvl |-> lvl, fid |-> fid]

\* a fresh process: n modules with their dependency sets
New(n, deps) ==
    [n |-> n, deps |-> deps, started |-> FALSE, subs |-> [i \in 1..MaxSubs |-> NoSub],
     optv |-> [i \in 1..MaxSubs |-> "N"], en |-> {}, depf |-> {}, on |-> {},
     fl |-> [m \in 1..n |-> NoFail], sf |-> {}, mg |-> FALSE, asg |-> [m \in 1..n |-> 0],
     rec0 |-> [i \in 1..MaxSubs |-> {}], pend |-> <<>>, first |-> FALSE, nreg |-> 0]

Regs(s) == {i \in 1..MaxSubs : s.subs[i].m # 0}
SubMods(s) == {s.subs[i].m : i \in Regs(s)}
Toggle(s, i) == IF s.subs[i].k = 0 THEN TRUE ELSE IF s.optv[i] = "N" THEN s.subs[i].def ELSE s.optv[i] = "T"
EnabledSet(s) == {s.subs[i].m : i \in {j \in Regs(s) : Toggle(s, j)}}

RECURSIVE Clo(_, _)
Clo(deps, S) == LET T == S \cup UNION {deps[m] : m \in S} IN IF T = S THEN S ELSE Clo(deps, T)
\* modules flagged "enabled as dependency" by buildEnabledTree: everything enabled modules depend on; the
\* subsystems module is enabled and depends on base
DepFlags(s, E) == Clo(s.deps, UNION {s.deps[m] : m \in E} \cup {Base})

\* ---------------------------------------------------------------------------------- S3 module groups
\* modules subsystem i reaches without passing through a subsystem module
RECURSIVE ReachFix(_, _, _)
ReachFix(s, i, S) ==
    LET T == S \cup {d \in UNION {s.deps[x] : x \in S \cup {s.subs[i].m}} : d \notin SubMods(s)}
    IN IF T = S THEN S ELSE ReachFix(s, i, T)
Reach(s, i) == ReachFix(s, i, {})
Orders(R) == {p \in [1..Cardinality(R) -> R] : \A a, b \in 1..Cardinality(R) : a # b => p[a] # p[b]}
Assign(s, p) == [d \in 1..s.n |->
    LET hit == {j \in 1..Len(p) : d \in Reach(s, p[j])} IN IF hit = {} THEN 0 ELSE p[CHOOSE j \in hit : \A k \in hit : j <= k]]
Assignments(s) == {Assign(s, p) : p \in Orders(Regs(s))}
Members(s, i) == {s.subs[i].m} \cup {d \in 1..s.n : s.asg[d] = i}

\* ---------------------------------------------------------------------------------- S4 records
ModRec(s, m) == [m |-> m, en |-> (m \in s.en \cup s.depf), st |-> IF m \in s.on THEN 5 ELSE 2,
                 fs |-> s.fl[m].lvl, fid |-> s.fl[m].id, msg |-> s.fl[m].msg]
Rec(s, i) == IF i \in Regs(s) THEN {ModRec(s, m) : m \in Members(s, i)} ELSE {}
Recs(s) == [i \in 1..MaxSubs |-> Rec(s, i)]

\* ---------------------------------------------------------------------------------- S2 management pass
\* one handled configuration with enabled set E: nothing happens if no enabled flag changes; else the dependency
\* flags are rebuilt, unwanted modules are stopped (a stopped module loses its failure), wanted ones are started in
\* dependency order; a failing start routine ends the pass early (modules that were ready at that time may or may
\* not have been started)
PassRun(s, E) ==
    LET D == DepFlags(s, E)
        W == E \cup D
        on1 == s.on \cap W
        fl1 == [m \in 1..s.n |-> IF m \in s.on \ W THEN NoFail ELSE s.fl[m]]
        Ready(O) == {m \in W \ O : s.deps[m] \subseteq O}
        Cands == {O \in SUBSET W : /\ on1 \subseteq O
                                   /\ \A m \in O : s.deps[m] \subseteq O
                                   /\ (O \ on1) \cap s.sf = {}}
    IN UNION {{[on |-> O, en |-> E, depf |-> D, err |-> F # {},
                fl |-> [m \in 1..s.n |-> IF m \in F THEN StartFailed ELSE fl1[m]]]
               : F \in {G \in SUBSET (Ready(O) \cap s.sf) : G = {} => Ready(O) = {}}} : O \in Cands}
Pass(s, E) == IF E = s.en THEN {[on |-> s.on, fl |-> s.fl, en |-> s.en, depf |-> s.depf, err |-> FALSE]} ELSE PassRun(s, E)

After(s, p) == [s EXCEPT !.on = p.on, !.fl = p.fl, !.en = p.en, !.depf = p.depf]

\* Several configurations await handling (s.pend; config changes that followed each other without waiting, or the
\* start and config changes).  The handlers debounce: a configuration may be handled on its own or be merged into a
\* later one, and a handler may switch the enabled flags to a later configuration while the management pass of an
\* earlier one is still running.  What is certain: if any enabled flag changes at all, the last change is followed by a
\* complete pass under the flags of the LAST configuration.  Before it, modules may have been stopped (and have lost
\* their failure) or started (or have failed to start) as far as SOME pending configuration does not want / wants them.
RevDeps(s, m) == {r \in 1..s.n : m \in s.deps[r]}
\* the enabled flags that can be seen while the pending configurations are handled: every subsystem module has the
\* value of the old or of some pending configuration (the flags are switched subsystem by subsystem); the dependency
\* flags of a running pass may stem from an earlier mix than the enabled flags
Mixes(s) == LET confs == {s.en} \cup ToSet(s.pend) IN
            {E \in SUBSET SubMods(s) : \A m \in SubMods(s) : \E X \in confs : (m \in E) = (m \in X)}
CanWant(s, m) == \E E \in Mixes(s) : m \in E \cup DepFlags(s, E)
CanUnwant(s, m) == (\E E \in Mixes(s) : m \notin E) /\ (\E E \in Mixes(s) : m \notin DepFlags(s, E))
Micro(s, x) ==
    {[on |-> x.on \ {m}, fl |-> [x.fl EXCEPT ![m] = NoFail]]
        : m \in {y \in x.on : CanUnwant(s, y) /\ RevDeps(s, y) \cap x.on = {}}}
    \cup {IF m \in s.sf THEN [on |-> x.on, fl |-> [x.fl EXCEPT ![m] = StartFailed]] ELSE [on |-> x.on \cup {m}, fl |-> x.fl]
        : m \in {y \in (1..s.n) \ x.on : CanWant(s, y) /\ s.deps[y] \subseteq x.on}}
RECURSIVE Reachable(_, _)
Reachable(s, S) == LET T == S \cup UNION {Micro(s, x) : x \in S} IN IF T = S THEN S ELSE Reachable(s, T)

\* the quiet states the system may be in when everything pending has been handled; "modulemgmt-failed" on the
\* subsystems module: the initial configuration reports no failure, a single config change reports the failure of its
\* pass and resolves it otherwise, after several the last handler to finish decides
Quiet(s) ==
    IF Len(s.pend) = 0 THEN {s}
    ELSE IF Len(s.pend) = 1 THEN
        {[After(s, p) EXCEPT !.pend = <<>>, !.first = FALSE, !.mg = IF s.first THEN s.mg ELSE p.err] : p \in Pass(s, s.pend[1])}
    ELSE LET last == s.pend[Len(s.pend)]
             mids == Reachable(s, {[on |-> s.on, fl |-> s.fl]})
             ends == UNION {PassRun([s EXCEPT !.on = x.on, !.fl = x.fl], last) : x \in mids}
             mgs == IF s.sf = {} THEN {FALSE} ELSE {FALSE, TRUE}
         IN (IF last = s.en THEN {[s EXCEPT !.pend = <<>>, !.first = FALSE, !.mg = FALSE]} ELSE {})
            \cup {[After(s, p) EXCEPT !.pend = <<>>, !.first = FALSE, !.mg = g] : p \in ends, g \in mgs}

\* ---------------------------------------------------------------------------------- steps
Register(s, o) ==
    LET res == IF s.started THEN "started" ELSE IF s.subs[o.id].m # 0 THEN "dup" ELSE "ok"
        s1 == [s EXCEPT !.nreg = s.nreg + 1]
    IN {[res |-> res, st |-> IF res = "ok" THEN [s1 EXCEPT !.subs[o.id] = [m |-> o.m, k |-> o.k, def |-> o.def, ord |-> s.nreg + 1]]
                             ELSE s1]}

Start(s) ==
    {[res |-> "ok", st |-> LET t == [s EXCEPT !.started = TRUE, !.asg = a, !.on = {Base}, !.depf = {Base}, !.en = {},
                                              !.pend = <<EnabledSet(s)>>, !.first = TRUE]
                           IN [t EXCEPT !.rec0 = Recs(t)]] : a \in Assignments(s)}

HasOption(s, i) == i \in Regs(s) /\ s.subs[i].k # 0
SetOpt(s, o) ==
    IF ~HasOption(s, o.id) THEN {[res |-> "err", st |-> s]} ELSE
    LET t == [s EXCEPT !.optv[o.id] = o.v] IN {[res |-> "ok", st |-> [t EXCEPT !.pend = Append(s.pend, EnabledSet(t))]]}

\* module level steps are made in a quiet system; a failure id stands for one title and message ("the given ID must be
\* unique for the given title and message"): message 10 + id; a call with the id the module already has is ignored
Fail(s, o) ==
    {[res |-> "ok", st |-> IF s.fl[o.m].id = o.fid THEN s
                           ELSE [s EXCEPT !.fl[o.m] = [lvl |-> o.lvl, id |-> o.fid, msg |-> 10 + o.fid]]]}
Resolve(s, o) ==
    {[res |-> "ok", st |-> IF o.fid = 0 \/ s.fl[o.m].id = o.fid THEN [s EXCEPT !.fl[o.m] = NoFail] ELSE s]}
SFail(s, o) == {[res |-> "ok", st |-> [s EXCEPT !.sf = IF o.v = "T" THEN s.sf \cup {o.m} ELSE s.sf \ {o.m}]]}

\* operations that make sense in state s (the generator produces only these, the trace validation insists on them)
WellFormed(s, o) ==
    CASE o.op = "register" -> /\ o.id \in 1..MaxSubs /\ o.m \in 1..s.n /\ o.k \in {0, 1}
                              /\ (~s.started /\ s.subs[o.id].m = 0 => o.m \notin SubMods(s))
      [] o.op = "start"    -> ~s.started
      [] o.op = "set"      -> s.started /\ o.id \in 1..MaxSubs /\ o.v \in {"T", "F", "N"}
      [] o.op \in {"fail", "resolve"} -> s.started /\ s.pend = <<>> /\ o.m \in 1..s.n /\ o.lvl \in 1..3 /\ o.fid \in 0..2
                                         /\ (o.op = "fail" => o.fid # 0)
      [] o.op = "sfail"    -> s.started /\ s.pend = <<>> /\ o.m \in 2..s.n /\ o.v \in {"T", "F"}
      [] o.op = "wait"     -> s.started /\ o.k \in 0..1000     \* the driver pauses for k milliseconds (no quiet point)
      [] OTHER             -> FALSE

Step(s, o) ==
    CASE o.op = "register" -> Register(s, o)
      [] o.op = "start"    -> Start(s)
      [] o.op = "set"      -> SetOpt(s, o)
      [] o.op = "fail"     -> Fail(s, o)
      [] o.op = "resolve"  -> Resolve(s, o)
      [] o.op = "sfail"    -> SFail(s, o)
      [] o.op = "wait"     -> {[res |-> "ok", st |-> s]}

\* ---------------------------------------------------------------------------------- observation at a quiet point
\* ev: [mods: <<[en, dep, st, fs, fid, msg]>>, recs: <<[id, ord, key, tk, ks, fs, m: <<[m, en, st, fs, fid, msg]>>]>>,
\*      gets: <<BOOLEAN x 3>>, pushed: <<id>>, badpush, mg, ann: [in, pre, tog: <<n x 3>>, out]]
ModsOK(t, ev) ==
    /\ Len(ev.mods) = t.n
    /\ \A m \in 1..t.n :
          /\ ev.mods[m].en = (m \in t.en) /\ ev.mods[m].dep = (m \in t.depf)
          /\ ev.mods[m].st = (IF m \in t.on THEN 5 ELSE 2)
          /\ ev.mods[m].fs = t.fl[m].lvl /\ ev.mods[m].fid = t.fl[m].id /\ ev.mods[m].msg = t.fl[m].msg

RecOK(t, r) ==
    /\ r.id \in Regs(t)
    /\ r.ord = t.subs[r.id].ord /\ r.key /\ r.ks /\ r.tk = t.subs[r.id].k
    /\ Len(r.m) >= 1 /\ r.m[1].m = t.subs[r.id].m
    /\ Len(r.m) = Cardinality(Members(t, r.id))
    /\ ToSet(r.m) = Rec(t, r.id)
    /\ r.fs = MaxOf({x.fs : x \in ToSet(r.m)})

DbOK(t, ev) ==
    /\ "qerr" \notin DOMAIN ev /\ "suberr" \notin DOMAIN ev
    /\ \A j \in 1..Len(ev.recs) : RecOK(t, ev.recs[j])
    /\ \A j \in 1..(Len(ev.recs) - 1) : ev.recs[j].id < ev.recs[j + 1].id
    /\ {ev.recs[j].id : j \in 1..Len(ev.recs)} = Regs(t)
    /\ \A i \in 1..MaxSubs : ev.gets[i] = (i \in Regs(t))

PushOK(s, t, ev) ==
    /\ ev.badpush = 0
    /\ ToSet(ev.pushed) \subseteq Regs(t)
    /\ \A i \in Regs(t) : Rec(t, i) # s.rec0[i] => i \in ToSet(ev.pushed)

AnnOK(t, ev) ==
    /\ ev.ann.out = 0
    /\ \A i \in 1..MaxSubs :
          /\ ev.ann.pre[i] = 9
          /\ ev.ann.in[i] \in {0} \cup (IF i \in Regs(t) THEN {i} ELSE {})
          /\ ev.ann.tog[i] \in {0} \cup (IF i \in Regs(t) THEN {i} ELSE {})

\* the quiet states that explain the observation (the record state of each becomes the base of the next push check)
Sync(s, ev) ==
    {[t EXCEPT !.rec0 = Recs(t)] : t \in {u \in Quiet(s) : /\ ModsOK(u, ev) /\ DbOK(u, ev) /\ PushOK(s, u, ev) /\ AnnOK(u, ev)
                                                          /\ ev.mg = u.mg}}
====
