---- MODULE SubCancelTrace ----
\* Property-level monitor for the concurrent part of C14 (driver harness/cmd/dbacc, mode "conc"): writers and
\* cancellers run as goroutines of the real database package under a scheduling policy; the events they record
\* are judged here.  trace.ndjson, one JSON object per line, in the order the events were recorded:
\*   {"e":"init","nsub":n}                  start of a run: n subscriptions on the whole database, nothing cancelled
\*   {"e":"wbegin","w":id} / {"e":"wend","w":id,"ok":b}   a write (put / delete / pushed update) is called / returned
\*   {"e":"cbegin","s":s} / {"e":"cret","s":s}            Subscription.Cancel is called / returned
\*   {"e":"feed","s":s,"items":[ids],"closed":b}          at the end: everything subscription s received, in order
\* Rules (the statement of C14): a write that returned before Cancel was called is in the feed; a write called
\* after Cancel returned is not; a write is never there twice; writes that do not overlap in time appear in their
\* order; after Cancel returned the feed is closed; a feed nobody cancelled is open and complete.
\* (A panic - send on a closed feed - kills the driver process and is reported by the check itself.)
EXTENDS Integers, Sequences, FiniteSets, TLC, Json

Trace == ndJsonDeserialize("trace.ndjson")
MaxSub == 3
Range(s) == {s[j] : j \in DOMAIN s}

VARIABLES l, begun, ended, failed, hb, cb, cr, must, mustnot
vars == <<l, begun, ended, failed, hb, cb, cr, must, mustnot>>
Ev == Trace[l]

Reset == /\ begun' = {} /\ ended' = {} /\ failed' = {} /\ hb' = {} /\ cb' = {} /\ cr' = {}
         /\ must' = [s \in 1..MaxSub |-> {}] /\ mustnot' = [s \in 1..MaxSub |-> {}]
Init == l = 1 /\ begun = {} /\ ended = {} /\ failed = {} /\ hb = {} /\ cb = {} /\ cr = {}
        /\ must = [s \in 1..MaxSub |-> {}] /\ mustnot = [s \in 1..MaxSub |-> {}]

FeedOK(s, items, closed) ==
    LET got == Range(items) IN
    /\ \A i, j \in 1..Len(items) : items[i] = items[j] => i = j                      \* at most once
    /\ got \subseteq begun
    /\ (s \in cr => closed) /\ (s \notin cb => ~closed)
    /\ (IF s \in cb THEN must[s] ELSE ended \ failed) \subseteq got                  \* completeness
    /\ got \cap mustnot[s] = {}                                                      \* nothing after cancel returned
    /\ \A i, j \in 1..Len(items) : i < j => <<items[j], items[i]>> \notin hb         \* order of non-overlapping writes

Next == /\ l <= Len(Trace)
        /\ l' = l + 1
        /\ CASE Ev.e = "init"   -> Reset
             [] Ev.e = "wbegin" -> /\ Ev.w \notin begun
                                   /\ begun' = begun \cup {Ev.w}
                                   /\ hb' = hb \cup {<<a, Ev.w>> : a \in ended}
                                   /\ mustnot' = [s \in 1..MaxSub |-> IF s \in cr THEN mustnot[s] \cup {Ev.w} ELSE mustnot[s]]
                                   /\ UNCHANGED <<ended, failed, cb, cr, must>>
             [] Ev.e = "wend"   -> /\ Ev.w \in begun
                                   /\ ended' = ended \cup {Ev.w}
                                   /\ failed' = IF Ev.ok THEN failed ELSE failed \cup {Ev.w}
                                   /\ UNCHANGED <<begun, hb, cb, cr, must, mustnot>>
             [] Ev.e = "cbegin" -> /\ cb' = cb \cup {Ev.s}
                                   /\ must' = [must EXCEPT ![Ev.s] = ended \ failed]
                                   /\ UNCHANGED <<begun, ended, failed, hb, cr, mustnot>>
             [] Ev.e = "cret"   -> /\ Ev.s \in cb /\ Ev.ok
                                   /\ cr' = cr \cup {Ev.s}
                                   /\ UNCHANGED <<begun, ended, failed, hb, cb, must, mustnot>>
             [] Ev.e = "feed"   -> /\ FeedOK(Ev.s, Ev.items, Ev.closed)
                                   /\ UNCHANGED <<begun, ended, failed, hb, cb, cr, must, mustnot>>
             [] Ev.e = "note"   -> UNCHANGED <<begun, ended, failed, hb, cb, cr, must, mustnot>>
             [] OTHER           -> FALSE
Spec == Init /\ [][Next]_vars
Accepted == TLCGet("stats").diameter - 1 = Len(Trace)
====
