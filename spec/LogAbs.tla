---- MODULE LogAbs ----
\* Property-level model of the logger (C20): per producing goroutine the sequence of enabled lines that
\* still has to reach the output adapter.  Every enabled line is handed to the adapter exactly once, in the
\* order of its goroutine, directly consecutive identical lines may be merged (duplicates count), tracer
\* submissions carry all their lines, lines below the level in force never appear, and when Shutdown
\* returns nothing is pending.
EXTENDS Integers, Sequences, FiniteSets, TLC

VARIABLES np,        \* number of producers (1..np)
          pending,   \* [1..np -> Seq([txt, sev, lines])]  lines = <<>> for plain log lines
          global,    \* global level (1 trace .. 6 critical)
          pkgOn,     \* package levels active
          pkgLv,     \* [origin -> level] ; 0 = origin not listed
          shut       \* "no" | "called" | "returned"
avars == <<np, pending, global, pkgOn, pkgLv, shut>>

Origins == {"logx", "other"}
Entry(txt, sev, lines) == [txt |-> txt, sev |-> sev, lines |-> lines]

Enabled(sev, origin) == IF pkgOn /\ pkgLv[origin] # 0 THEN sev >= pkgLv[origin] ELSE sev >= global

AbsInit == /\ np = 0 /\ pending = <<>> /\ global = 3 /\ pkgOn = FALSE
           /\ pkgLv = [o \in Origins |-> 0] /\ shut = "no"
Reset(n) == /\ np' = n /\ pending' = [p \in 1..n |-> <<>>] /\ global' = 3 /\ pkgOn' = FALSE
            /\ pkgLv' = [o \in Origins |-> 0] /\ shut' = "no"

\* producer p logs `rep` identical lines (same source line) at severity sev from the given origin
Log(p, origin, sev, txt, rep) ==
    /\ p \in 1..np /\ shut = "no"
    /\ pending' = IF Enabled(sev, origin)
                  THEN [pending EXCEPT ![p] = @ \o [k \in 1..rep |-> Entry(txt, sev, <<>>)]]
                  ELSE pending
    /\ UNCHANGED <<np, global, pkgOn, pkgLv, shut>>

\* a context tracer: created only if trace level is enabled for the origin; then it collects every line and
\* Submit hands them over as one entry (main line = last line).  Without tracer every line is logged directly.
RECURSIVE Direct(_, _)
Direct(ls, origin) == IF ls = <<>> THEN <<>>
                      ELSE (IF Enabled(Head(ls).sev, origin) THEN <<Entry(Head(ls).txt, Head(ls).sev, <<>>)>> ELSE <<>>)
                           \o Direct(Tail(ls), origin)
TracerSubmit(p, origin, ls) ==
    /\ p \in 1..np /\ shut = "no"
    /\ pending' = [pending EXCEPT ![p] = @ \o
            (IF Enabled(1, origin)
             THEN (IF ls = <<>> THEN <<>>
                   ELSE <<Entry(ls[Len(ls)].txt, ls[Len(ls)].sev,
                                \* a one-line submission looks like a plain line at the adapter
                                IF Len(ls) = 1 THEN <<>> ELSE [k \in 1..Len(ls) |-> ls[k].txt])>>)
             ELSE Direct(ls, origin))]
    /\ UNCHANGED <<np, global, pkgOn, pkgLv, shut>>

SetLevel(l) == global' = l /\ UNCHANGED <<np, pending, pkgOn, pkgLv, shut>>
SetPkg(lx, lo) == pkgOn' = TRUE /\ pkgLv' = [o \in Origins |-> IF o = "logx" THEN lx ELSE lo]
                  /\ UNCHANGED <<np, pending, global, shut>>
UnsetPkg == pkgOn' = FALSE /\ UNCHANGED <<np, pending, global, pkgLv, shut>>

\* the adapter received a line: it is the oldest pending entry of one producer, together with `dups`
\* directly following identical plain entries
Out(txt, sev, dups, lines) ==
    /\ shut # "returned"
    /\ \E p \in 1..np :
          /\ Len(pending[p]) >= dups + 1
          /\ pending[p][1] = Entry(txt, sev, lines)
          /\ dups > 0 => lines = <<>>
          /\ \A k \in 1..(dups + 1) : pending[p][k] = Entry(txt, sev, lines)
          /\ pending' = [pending EXCEPT ![p] = SubSeq(@, dups + 2, Len(@))]
    /\ UNCHANGED <<np, global, pkgOn, pkgLv, shut>>

\* (Shutdown may be called by several goroutines: every one of the calls returns only after everything is written)
ShutCall == shut' = (IF shut = "returned" THEN "returned" ELSE "called") /\ UNCHANGED <<np, pending, global, pkgOn, pkgLv>>
\* Shutdown returns only after everything logged before it has been written
ShutRet == /\ shut \in {"called", "returned"} /\ \A p \in 1..np : pending[p] = <<>>
           /\ shut' = "returned" /\ UNCHANGED <<np, pending, global, pkgOn, pkgLv>>
====
