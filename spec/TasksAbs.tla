---- MODULE TasksAbs ----
\* Property-level monitor for module tasks (C07): no self-overlap, no early start of an only-scheduled task,
\* no start decision after Cancel returned, not more runs than submissions, nothing lost at quiescence and,
\* for histories in which all submissions are made while the queue slot is held ("ordered"), the start order
\* start-as-soon-as-possible (latest first) < prioritized FIFO < normal FIFO, one after the other.
EXTENDS Integers, Sequences, FiniteSets, TLC

CONSTANTS EarlyMs,   \* tolerance for "before its scheduled time"
          DueMs      \* a scheduled time that passed this long before the final check must have led to a run

VARIABLES n, ordered, running, committed, subs, begins, cancelled, pend, schedAt, prioQ, normQ, holder,
          mdMs,     \* max delay of the tasks in milliseconds
          qsubT,    \* [task -> time of its last Queue/QueuePrioritized/StartASAP call, -1 = none since the last run]
          lastKind, \* [task -> kind of its last submission]
          rep,      \* [task -> repeat interval in milliseconds, 0 = not repeating]
          eaSet     \* [task -> the task was scheduled or queued since its last start decision]
avars == <<n, ordered, running, committed, subs, begins, cancelled, pend, schedAt, prioQ, normQ, holder, mdMs, qsubT, lastKind, rep, eaSet>>

T == 1..n
F(v) == [k \in 1..n |-> v]
Remove(q, k) == SelectSeq(q, LAMBDA x : x # k)
InSeq(q, k) == \E i \in 1..Len(q) : q[i] = k

AbsInit == /\ n = 0 /\ ordered = FALSE /\ running = <<>> /\ committed = <<>> /\ subs = <<>> /\ begins = <<>>
           /\ cancelled = <<>> /\ pend = <<>> /\ schedAt = <<>> /\ prioQ = <<>> /\ normQ = <<>> /\ holder = 0
           /\ mdMs = 0 /\ qsubT = <<>> /\ lastKind = <<>> /\ rep = <<>> /\ eaSet = <<>>

Reset(k, ord, md) ==
    /\ n' = k /\ ordered' = ord
    /\ running' = [i \in 1..k |-> FALSE] /\ committed' = [i \in 1..k |-> FALSE]
    /\ subs' = [i \in 1..k |-> 0] /\ begins' = [i \in 1..k |-> 0]
    /\ cancelled' = [i \in 1..k |-> FALSE] /\ pend' = [i \in 1..k |-> "none"] /\ schedAt' = [i \in 1..k |-> 0]
    /\ prioQ' = <<>> /\ normQ' = <<>> /\ holder' = 0
    /\ mdMs' = md /\ qsubT' = [i \in 1..k |-> -1] /\ lastKind' = [i \in 1..k |-> "none"]
    /\ rep' = [i \in 1..k |-> 0] /\ eaSet' = [i \in 1..k |-> FALSE]

\* a submission call begins (logged before the call, so that a run it causes is logged after it)
\* kind "repeat" (iv = interval): Repeat(interval) schedules the first execution one interval from now and makes the
\* task repeating; for every other kind iv is 0
Sub(k, kind0, at, t, iv) ==
    LET kind == IF kind0 = "repeat" THEN "schedule" ELSE kind0 IN
    /\ k \in T
    /\ rep' = IF kind0 = "repeat" THEN [rep EXCEPT ![k] = iv] ELSE rep
    /\ eaSet' = [eaSet EXCEPT ![k] = TRUE]
    /\ qsubT' = IF kind # "schedule" /\ ~cancelled[k] THEN [qsubT EXCEPT ![k] = t] ELSE qsubT
    \* "schedule1": the only submission since the last start decision (or since the task was unscheduled) is this Schedule call
    /\ lastKind' = [lastKind EXCEPT ![k] = IF kind = "schedule" /\ @ = "none" THEN "schedule1" ELSE kind]
    /\ mdMs' = mdMs
    /\ subs' = [subs EXCEPT ![k] = @ + 1]
    /\ pend' = [pend EXCEPT ![k] = IF cancelled[k] THEN "none"
                                   ELSE IF kind = "schedule" THEN (IF @ = "queued" THEN "queued" ELSE "sched")
                                   ELSE "queued"]
    /\ schedAt' = IF kind = "schedule" THEN [schedAt EXCEPT ![k] = at] ELSE schedAt
    /\ prioQ' = IF cancelled[k] THEN prioQ
                ELSE IF kind = "prio" THEN (IF InSeq(prioQ, k) THEN prioQ ELSE Append(prioQ, k))
                ELSE IF kind = "asap" THEN <<k>> \o Remove(prioQ, k)
                ELSE prioQ
    /\ normQ' = IF ~cancelled[k] /\ kind = "queue" /\ ~InSeq(normQ, k) THEN Append(normQ, k) ELSE normQ
    /\ UNCHANGED <<n, ordered, running, committed, begins, cancelled, holder>>

\* Schedule(zero time) returned: the task was taken out of the queues and the schedule
Unsched(k) ==
    /\ k \in T /\ pend' = [pend EXCEPT ![k] = "none"]
    /\ prioQ' = Remove(prioQ, k) /\ normQ' = Remove(normQ, k)
    /\ qsubT' = [qsubT EXCEPT ![k] = -1] /\ lastKind' = [lastKind EXCEPT ![k] = "none"]
    /\ eaSet' = [eaSet EXCEPT ![k] = FALSE]
    /\ UNCHANGED <<n, ordered, running, committed, subs, begins, cancelled, schedAt, holder, mdMs, rep>>

\* Repeat(0) returned: no further repetitions; what is scheduled stays scheduled
RepOff(k) == k \in T /\ rep' = [rep EXCEPT ![k] = 0]
             /\ UNCHANGED <<n, ordered, running, committed, subs, begins, cancelled, pend, schedAt, prioQ, normQ, holder, mdMs, qsubT, lastKind, eaSet>>

CancelRet(k) ==
    /\ k \in T /\ cancelled' = [cancelled EXCEPT ![k] = TRUE] /\ pend' = [pend EXCEPT ![k] = "none"]
    /\ holder' = IF holder = k THEN 0 ELSE holder
    /\ prioQ' = Remove(prioQ, k) /\ normQ' = Remove(normQ, k)      \* a cancelled task is skipped by the queue
    /\ UNCHANGED <<n, ordered, running, committed, subs, begins, schedAt, mdMs, qsubT, lastKind, rep, eaSet>>

\* a handler decided to start task k (linearization point of the start: state checks passed under the task lock)
Checked(k, t, by) ==
    /\ k \in T
    \* the schedule handler starts a task itself only when the max delay of a queued task has expired (or the time
    \* of a schedule entry placed over a queued one has come): never a task that still waits within its max delay
    /\ (by = "sh" /\ qsubT[k] >= 0) =>
          (IF lastKind[k] = "schedule" THEN t >= schedAt[k] - EarlyMs ELSE t >= qsubT[k] + mdMs - EarlyMs)
    \* a task that was only scheduled, once, since its last start is promoted into the queue when its time has come (not
    \* before) and waits there like a queued task: the schedule handler starts it itself only a max delay later
    /\ (by = "sh" /\ qsubT[k] < 0 /\ pend[k] = "sched" /\ lastKind[k] = "schedule1") => t >= schedAt[k] + mdMs - EarlyMs
    /\ qsubT' = [qsubT EXCEPT ![k] = -1] /\ lastKind' = [lastKind EXCEPT ![k] = "none"]
    /\ ~cancelled[k]                                        \* never started once cancelled while waiting
    /\ (pend[k] = "sched") => t >= schedAt[k] - EarlyMs      \* an only-scheduled task is not started early
    /\ begins[k] + (IF committed[k] THEN 1 ELSE 0) < subs[k] \* not more often than submitted
    /\ committed' = [committed EXCEPT ![k] = TRUE]
    /\ pend' = [pend EXCEPT ![k] = "none"]
    /\ ordered =>
          /\ holder = 0                                                      \* one after the other
          /\ k = (IF prioQ # <<>> THEN Head(prioQ) ELSE IF normQ # <<>> THEN Head(normQ) ELSE 0)
    /\ holder' = IF ordered THEN k ELSE holder
    /\ prioQ' = Remove(prioQ, k) /\ normQ' = Remove(normQ, k)
    /\ eaSet' = [eaSet EXCEPT ![k] = FALSE]     \* the execution time is cleared together with the start decision
    /\ UNCHANGED <<n, ordered, running, subs, begins, cancelled, schedAt, mdMs, rep>>

Begin(k, t) ==
    /\ k \in T /\ ~running[k]                               \* never concurrently with itself
    /\ committed[k]
    /\ running' = [running EXCEPT ![k] = TRUE] /\ committed' = [committed EXCEPT ![k] = FALSE]
    /\ begins' = [begins EXCEPT ![k] = @ + 1]
    \* this run comes after every submission so far - except a schedule entry whose time has not come yet
    /\ pend' = [pend EXCEPT ![k] = IF @ = "sched" /\ schedAt[k] > t + EarlyMs THEN "sched" ELSE "none"]
    /\ UNCHANGED <<n, ordered, subs, cancelled, schedAt, prioQ, normQ, holder, mdMs, qsubT, lastKind, rep, eaSet>>

\* the function returned at time t.  A repeating task that nobody scheduled or queued since its start was decided is
\* thereby scheduled again one interval later (an implicit submission; the code computes the time slightly after t,
\* so t + interval is a lower bound of the scheduled time: sound for "not before its scheduled time")
End(k, t) ==
    /\ k \in T /\ running[k] /\ running' = [running EXCEPT ![k] = FALSE]
    /\ holder' = IF holder = k THEN 0 ELSE holder
    /\ IF rep[k] > 0 /\ ~cancelled[k] /\ ~eaSet[k]
       THEN /\ subs' = [subs EXCEPT ![k] = @ + 1] /\ pend' = [pend EXCEPT ![k] = "sched"]
            /\ schedAt' = [schedAt EXCEPT ![k] = t + rep[k]]
            /\ lastKind' = [lastKind EXCEPT ![k] = IF @ = "none" THEN "schedule1" ELSE "schedule"]
            /\ eaSet' = [eaSet EXCEPT ![k] = TRUE]
       ELSE UNCHANGED <<subs, pend, schedAt, lastKind, eaSet>>
    /\ UNCHANGED <<n, ordered, committed, begins, cancelled, prioQ, normQ, mdMs, qsubT, rep>>

\* quiescence: nothing that was submitted (and whose time has come) and not cancelled is still waiting
Final(t) ==
    /\ \A k \in T : ~running[k] /\ ~committed[k]
    /\ \A k \in T : cancelled[k] \/ pend[k] = "none" \/ (pend[k] = "sched" /\ schedAt[k] > t - DueMs)
    /\ UNCHANGED avars
====
