---- MODULE ConfigFlagTrace ----
\* Monitor for the call/return events recorded by harness/cmd/cfgflag from the real config package (C04):
\*   {"e":"init","ns":n,...}   a new option with value version 0 (start of one recorded history)
\*   {"e":"scall","s":i} / {"e":"sret","s":i,"err":b}     setter i (writes version i) was called / returned
\*   {"e":"gcall","g":j} / {"e":"gret","g":j,"v":k}       getter call of caller j began / returned version k
\*   {"e":"final","v":k}       read by a new getter after everything returned (= the last write)
\* The events are in their real order (sequence numbers taken under one lock; a call is logged before it
\* starts and a return after it happened).
\*
\* Fresh: a getter call that begins after setter b returned returns b's value or a later one.  The order
\* of two writes is known to the monitor only when it follows from the recorded events: a returned
\* before b was called, or b is the last write of the history (the final read); version 0 precedes all.
\* A returned value is stale iff it is known to be older than the value of a setter that had returned
\* when the call began.  Everything else is allowed.
EXTENDS Integers, Sequences, FiniteSets, TLC, Json

Trace == ndJsonDeserialize("trace.ndjson")

VARIABLES l,
          called, returned,   \* setters seen called / returned
          before,             \* pairs <<a, b>>: a returned before b was called
          gbeg,               \* [caller -> set of setters that had returned when its running call began], {-1} = no call
          fin                 \* the last write of this history (-1 unknown)
vars == <<l, called, returned, before, gbeg, fin>>
Ev == Trace[l]

\* the final read of the history that starts at position i (look-ahead; -1 when the history was cut short)
FinalOf(i) == LET js == {j \in (i + 1)..Len(Trace) : Trace[j].e \in {"final", "init"}} IN
              IF js = {} THEN -1
              ELSE LET j == CHOOSE x \in js : \A y \in js : x <= y IN
                   IF Trace[j].e = "final" THEN Trace[j].v ELSE -1

Init == l = 1 /\ called = {} /\ returned = {} /\ before = {} /\ gbeg = <<>> /\ fin = -1

\* (the final read happens after every setter returned, so every other write precedes the one it shows)
WroteBefore(a, b) == a # b /\ (a = 0 \/ <<a, b>> \in before \/ fin = b)
Stale(v, seen) == \E b \in seen : WroteBefore(v, b)

Next == /\ l <= Len(Trace)
        /\ l' = l + 1
        /\ CASE Ev.e = "init" ->
                  /\ called' = {} /\ returned' = {} /\ before' = {}
                  /\ gbeg' = [g \in 1..Len(Ev.callers) |-> {-1}]
                  /\ fin' = FinalOf(l)
             [] Ev.e = "scall" ->
                  /\ Ev.s \notin called
                  /\ called' = called \cup {Ev.s}
                  /\ before' = before \cup {<<a, Ev.s>> : a \in returned}
                  /\ UNCHANGED <<returned, gbeg, fin>>
             [] Ev.e = "sret" ->
                  /\ Ev.s \in called /\ ~Ev.err          \* every value written by the driver is valid
                  /\ returned' = returned \cup {Ev.s}
                  /\ UNCHANGED <<called, before, gbeg, fin>>
             [] Ev.e = "gcall" ->
                  /\ gbeg' = [gbeg EXCEPT ![Ev.g] = returned]
                  /\ UNCHANGED <<called, returned, before, fin>>
             [] Ev.e = "gret" ->
                  /\ gbeg[Ev.g] # {-1}
                  /\ Ev.v \in {0} \cup called             \* nothing out of thin air
                  /\ ~Stale(Ev.v, gbeg[Ev.g])             \* Fresh
                  /\ gbeg' = [gbeg EXCEPT ![Ev.g] = {-1}]
                  /\ UNCHANGED <<called, returned, before, fin>>
             [] Ev.e = "final" ->
                  /\ Ev.v \in {0} \cup called
                  /\ ~\E b \in returned : Ev.v # b /\ (Ev.v = 0 \/ <<Ev.v, b>> \in before)
                  /\ UNCHANGED <<called, returned, before, gbeg, fin>>
             [] OTHER -> FALSE                             \* panic, hang
Spec == Init /\ [][Next]_vars

Accepted == TLCGet("stats").diameter - 1 = Len(Trace)
====
