---- MODULE CfgReg ----
\* Extension check X09: the option registry of portbase/config and the views on it (registry.go,
\* option.go, database.go, perspective.go, expertise.go, release.go, main.go: GetActiveConfigValues,
\* persistence.go: Clean*Config).  What the getters return for layered values and save/load is C04.
\*
\* STATEMENT (derived from the doc comments of Option and its fields, Register, GetOption, ExportOptions,
\* ForEachOption, Perspective / NewPerspective / Has, StorageInterface, the annotation constants,
\* Clean*Config, the README section "config" and registry_test.go / persistence_test.go).  For every
\* history of Register / SetConfigOption / SetDefaultConfigOption / ReplaceConfig / NewPerspective calls
\* and Get / Put / Delete / Query on the database "config":
\*  G1 Register refuses, and changes nothing, exactly if Name, Key or Description is empty, OptType is not
\*     set, ValidationRegex does not compile, or DefaultValue is not a valid value of the option: not of
\*     the option's type, not matched by ValidationRegex (every entry of a string array; bools exempt),
\*     not one of PossibleValues, or rejected by ValidationFunc.  Every other option is accepted - Help,
\*     the levels, annotations and the characters in PossibleValues do not matter.  (Registering a key a
\*     second time is not documented: refusing it, or replacing the option as a whole, are both allowed.)
\*  G2 an accepted option exists from then on: GetOption finds it, ForEachOption visits every registered
\*     option exactly once, ExportOptions lists all of them in ascending key order, the database "config"
\*     serves a record under its key - also when it is registered after configuration was loaded.
\*  G3 a value reaches the user layer (SetConfigOption, ReplaceConfig, database Put) or the default layer
\*     (SetDefaultConfigOption) only validated as in G1; an invalid value, or an unknown key, fails and
\*     changes nothing; nil (database: no "Value" / null / Delete) resets the layer to "not set".
\*     ReplaceConfig installs exactly the valid entries of its map, unsets every other option and reports
\*     exactly the invalid entries.
\*  G4 database view: Get(config:<key>) returns the option (Key, OptType, levels, RequiresRestart,
\*     annotations) with "DefaultValue" = the default in force (runtime default, else the registered) and
\*     "Value" = the user value, absent if not set; an unknown key is ErrNotFound.  Put stores the
\*     "Value" it was sent or fails - never another value.  Query(prefix) returns exactly the options
\*     whose key starts with the prefix, each once, in ascending key order, with the same content as Get.
\*     A RequiresRestart option whose value was changed carries the restart-pending annotation from then on
\*     (after an attempt that changed nothing, or a ReplaceConfig, it may or may not).
\*     A subscriber of the database "config" receives the option's record in its new state exactly once
\*     for every successful SetConfigOption / SetDefaultConfigOption / Put, one record of every option for
\*     a ReplaceConfig, nothing for reads, registrations and perspectives (after a failed attempt it may
\*     receive the unchanged record; what a Delete sends is not specified).
\*  G5 levels: the options core/releaseLevel (stable beta experimental) and core/expertiseLevel (user
\*     expert developer) exist from the start and accept exactly these values; the level in force is the
\*     user value, else the runtime default, else the registered default, and follows every change at
\*     once: GetExpertiseLevel() is its number; GetActiveConfigValues() is exactly the user values of the
\*     options whose ReleaseLevel is at most the release level in force.
\*  G6 NewPerspective(nested map) never changes the configuration; it returns an error exactly if an
\*     entry for a registered option is invalid (entries for unknown keys are ignored) and still yields
\*     the perspective of the valid entries; Has(key) is true exactly for a registered option with a
\*     valid entry whose ReleaseLevel is at most the release level in force; GetAs<T>(key) returns
\*     (entry, true) exactly if Has(key) and T is the option's type, else (zero, false) - a
\*     perspective never falls back to the global configuration.
\*  G7 CleanFlattenedConfig / CleanHierarchicalConfig keep exactly the entries of registered options.
\*
\* Keys are sequences of tokens (1 "/", 2 "a", 3 "b", 4 "core", 5 "d", 6 "expertiseLevel", 7 "k",
\* 8 "releaseLevel", 9 "t", 10 "u": all tokens start with a different character and are numbered in byte
\* order, so the order of the token sequences is the order of the strings).  Values are symbolic as in
\* spec/ConfigLayers.tla: a raw value is an identifier ("s:a", "f:1.5", "is:a,#1"), RawTab gives its type,
\* the canonical typed value and which of the fixture constraints it satisfies.
EXTENDS Integers, Sequences, FiniteSets, TLC

\* ---------------------------------------------------------------- keys
KA == <<9, 1, 2>>          \* t/a
KB == <<9, 1, 3>>          \* t/b
KKD == <<9, 1, 7, 1, 5>>   \* t/k/d
KUA == <<10, 1, 2>>        \* u/a
KRL == <<4, 1, 8>>         \* core/releaseLevel
KEL == <<4, 1, 6>>         \* core/expertiseLevel
UserKeys == {KA, KB, KKD, KUA}
LevelKeys == {KRL, KEL}
\* the keys of the probe maps handed to Clean*Config (u/b and t/k are never registered)
ProbeKeys == UserKeys \cup LevelKeys \cup {<<10, 1, 3>>, <<9, 1, 7, 1, 2>>}

IsPrefixOf(p, k) == Len(p) <= Len(k) /\ \A i \in 1..Len(p) : p[i] = k[i]
RECURSIVE LexLess(_, _)
LexLess(a, b) == IF a = <<>> THEN b # <<>>
                 ELSE IF b = <<>> THEN FALSE
                 ELSE IF a[1] # b[1] THEN a[1] < b[1] ELSE LexLess(Tail(a), Tail(b))
RECURSIVE SortKeys(_)
SortKeys(S) == IF S = {} THEN <<>>
               ELSE LET m == CHOOSE x \in S : \A y \in S \ {x} : LexLess(x, y) IN <<m>> \o SortKeys(S \ {m})
Range(s) == {s[i] : i \in 1..Len(s)}
SeqIsPermOfSet(s, S) == Len(s) = Cardinality(S) /\ Range(s) = S

\* ---------------------------------------------------------------- raw values
\* flags: re = matched by the fixture regex ^[ab12]+$ (arrays: every entry); p1 = in the possible values
\* {a, b} / {1, 2} / {true}; p2 = in {"a(", "a"}; p3 = a release level; p4 = an expertise level;
\* vf = rejected by the fixture validation function
R(id, k, c, f) == [id |-> id, k |-> k, c |-> c, f |-> f]
RawTab == {
    R("nil", "nil", "-", {}),
    R("s:a", "S", "S:a", {"re", "p1", "p2"}), R("s:b", "S", "S:b", {"re", "p1", "vf"}), R("s:ab", "S", "S:ab", {"re"}),
    R("s:x", "S", "S:x", {}), R("s:a(", "S", "S:a(", {"p2"}), R("s:", "S", "S:", {}),
    R("s:stable", "S", "S:stable", {"p3"}), R("s:beta", "S", "S:beta", {"p3"}),
    R("s:experimental", "S", "S:experimental", {"p3"}),
    R("s:user", "S", "S:user", {"p4"}), R("s:expert", "S", "S:expert", {"p4"}), R("s:developer", "S", "S:developer", {"p4"}),
    R("i:1", "I", "I:1", {"re", "p1"}), R("i:2", "I", "I:2", {"re", "p1", "vf"}), R("i:12", "I", "I:12", {"re"}),
    R("i:7", "I", "I:7", {}), R("f:1", "I", "I:1", {"re", "p1"}), R("f:1.5", "-", "-", {}),
    R("b:true", "B", "B:true", {"p1"}), R("b:false", "B", "B:false", {"vf"}),
    R("ss:a", "A", "A:a", {"re"}), R("ss:a,x", "A", "A:a|x", {}), R("ss:", "A", "A:", {"re"}), R("ss:b", "A", "A:b", {"re", "vf"}),
    R("is:a,b", "A", "A:a|b", {"re"}), R("is:a,#1", "-", "-", {}),
    R("x:map", "-", "-", {}) }
RawIds == {r.id : r \in RawTab}
Info == [id \in RawIds |-> CHOOSE r \in RawTab : r.id = id]
Canon(raw) == Info[raw].c

TName(t) == CASE t = 1 -> "S" [] t = 2 -> "A" [] t = 3 -> "I" [] t = 4 -> "B" [] OTHER -> "?"
PvFlag(pv) == CASE pv = 1 -> "p1" [] pv = 2 -> "p2" [] pv = 3 -> "p3" [] OTHER -> "p4"
\* o: anything with the fields t re pv vf (an option of the state or a registration request)
Valid(o, raw) == LET i == Info[raw] IN
    /\ i.k = TName(o.t)
    /\ (o.pv # 0 => PvFlag(o.pv) \in i.f)
    /\ (o.re = 1 /\ o.t # 4 => "re" \in i.f)
    /\ (o.vf = 1 => "vf" \notin i.f)

\* ---------------------------------------------------------------- state
\* reg: registered key -> [t re pv vf rl el rr an  d (registered default)  u (user value)  df (runtime default)
\*                         pend (restart pending)], values canonical, "-" = not set
Opt(t, re, pv, vf, rl, el, rr, an, d) ==
    [t |-> t, re |-> re, pv |-> pv, vf |-> vf, rl |-> rl, el |-> el, rr |-> rr, an |-> an, d |-> d,
     u |-> "-", df |-> "-", pend |-> FALSE]
Empty == [reg |-> (KRL :> Opt(1, 0, 3, 0, 0, 2, 0, 0, "S:stable")) @@ (KEL :> Opt(1, 0, 4, 0, 0, 0, 0, 0, "S:user"))]

Keys(st) == DOMAIN st.reg
InForce(o) == IF o.u # "-" THEN o.u ELSE IF o.df # "-" THEN o.df ELSE o.d
RelLevel(st) == LET c == InForce(st.reg[KRL]) IN CASE c = "S:beta" -> 1 [] c = "S:experimental" -> 2 [] OTHER -> 0
ExpLevel(st) == LET c == InForce(st.reg[KEL]) IN CASE c = "S:expert" -> 1 [] c = "S:developer" -> 2 [] OTHER -> 0
Active(st) == {[k |-> k, v |-> st.reg[k].u] : k \in {x \in Keys(st) : st.reg[x].u # "-" /\ st.reg[x].rl <= RelLevel(st)}}
Pending(st) == {k \in Keys(st) : st.reg[k].pend}

\* what the database shows for an option (the restart-pending annotation is compared separately)
View(st, k) == LET o == st.reg[k] IN
    [k |-> k, t |-> o.t, rl |-> o.rl, el |-> o.el, rr |-> o.rr, an |-> o.an,
     d |-> (IF o.df # "-" THEN o.df ELSE o.d), v |-> o.u]
Views(st, prefix) == LET ks == SortKeys({k \in Keys(st) : IsPrefixOf(prefix, k)}) IN [i \in 1..Len(ks) |-> View(st, ks[i])]

\* ---------------------------------------------------------------- operations
\* uniform shapes: op = [op, k, raw, spec, m]; res = [err, recs, keys, vals]
NoSpec == [nm |-> 0, ds |-> 0, hp |-> 0, t |-> 0, re |-> 0, pv |-> 0, vf |-> 0, rl |-> 0, el |-> 0, rr |-> 0, an |-> 0, d |-> "nil"]
Op(name, k, raw, spec, m) == [op |-> name, k |-> k, raw |-> raw, spec |-> spec, m |-> m]
Res(err, recs, keys, vals) == [err |-> err, recs |-> recs, keys |-> keys, vals |-> vals]
Plain(err) == Res(err, <<>>, {}, {})
\* may: options that may, but need not, have become restart-pending
\* fd: what a subscriber of the database receives during the operation: the views in must exactly once each, the
\* views in may at most once each, anything about the keys in any
Fd(must, may, any) == [must |-> must, may |-> may, any |-> any]
NoFd == Fd({}, {}, {})
OutF(r, st, may, fd) == [res |-> r, st |-> st, may |-> may, fd |-> fd]
Out(r, st, may) == OutF(r, st, may, NoFd)
Count(seq, x) == Cardinality({i \in 1..Len(seq) : seq[i] = x})
FeedOK(feed, fd) ==
    /\ \A v \in fd.must : Count(feed, v) = 1
    /\ \A v \in fd.may : Count(feed, v) <= 1
    /\ \A i \in 1..Len(feed) : feed[i] \in fd.must \cup fd.may \/ feed[i].k \in fd.any
\* "anyerr": the statement only says that the call fails

SetField(st, layer, k, c) ==
    LET o == st.reg[k]
        old == IF layer = "u" THEN o.u ELSE o.df
        n1 == IF layer = "u" THEN [o EXCEPT !.u = c] ELSE [o EXCEPT !.df = c]
        n2 == IF o.rr = 1 /\ old # c THEN [n1 EXCEPT !.pend = TRUE] ELSE n1
    IN [st EXCEPT !.reg[k] = n2]
MayPend(st, k) == IF st.reg[k].rr = 1 THEN {k} ELSE {}

\* SetConfigOption / SetDefaultConfigOption / database Put ("absent": a record without "Value") and Delete
SetStep(st, layer, k, raw, unknownErr, isDelete) ==
    LET done(nst) == OutF(Plain("ok"), nst, MayPend(st, k), IF isDelete THEN Fd({}, {}, {k}) ELSE Fd({View(nst, k)}, {}, {}))
    IN IF k \notin Keys(st) THEN {Out(Plain(unknownErr), st, {})}
       ELSE IF raw \in {"nil", "absent"} THEN {done(SetField(st, layer, k, "-"))}
       ELSE IF Valid(st.reg[k], raw) THEN {done(SetField(st, layer, k, Canon(raw)))}
       ELSE {OutF(Plain("anyerr"), st, MayPend(st, k), Fd({}, {View(st, k)}, {}))}

MapKeys(m) == {m[i].k : i \in 1..Len(m)}
MapRaw(m, k) == (CHOOSE e \in Range(m) : e.k = k).raw

Step(st, o) ==
  CASE o.op = "register" ->
         LET s == o.spec
             refuse == s.nm = 0 \/ o.k = <<>> \/ s.ds = 0 \/ s.t = 0 \/ s.re = 2 \/ ~Valid(s, s.d)
             new == Opt(s.t, s.re, s.pv, s.vf, s.rl, s.el, s.rr, s.an, Canon(s.d))
             nst == [st EXCEPT !.reg = [x \in Keys(st) \cup {o.k} |-> IF x = o.k THEN new ELSE st.reg[x]]]
         IN IF refuse THEN {Out(Plain("anyerr"), st, {})}
            ELSE IF o.k \in Keys(st) THEN {Out(Plain("ok"), nst, {}), Out(Plain("anyerr"), st, {})}
            ELSE {Out(Plain("ok"), nst, {})}
    [] o.op = "setuser" -> SetStep(st, "u", o.k, o.raw, "anyerr", FALSE)
    [] o.op = "setdef"  -> SetStep(st, "df", o.k, o.raw, "anyerr", FALSE)
    [] o.op = "dbput"   -> SetStep(st, "u", o.k, o.raw, "anyerr", FALSE)
    [] o.op = "dbdel"   -> SetStep(st, "u", o.k, "nil", "anyerr", TRUE)
    [] o.op = "dbget"   -> IF o.k \in Keys(st) THEN {Out(Res("ok", <<View(st, o.k)>>, {}, {}), st, {})}
                           ELSE {Out(Plain("notfound"), st, {})}
    [] o.op = "dbquery" -> {Out(Res("ok", Views(st, o.k), {}, {}), st, {})}
    [] o.op = "replace" ->
         LET val(k) == k \in MapKeys(o.m) /\ Valid(st.reg[k], MapRaw(o.m, k))
             inv == {k \in Keys(st) \cap MapKeys(o.m) : ~val(k)}
             nreg == [k \in Keys(st) |-> [st.reg[k] EXCEPT !.u = IF val(k) THEN Canon(MapRaw(o.m, k)) ELSE "-"]]
             nst == [st EXCEPT !.reg = nreg]
         IN {OutF(Res("ok", <<>>, inv, {}), nst, {k \in Keys(st) : st.reg[k].rr = 1},
                  Fd({View(nst, k) : k \in Keys(nst)}, {}, {}))}
    [] o.op = "persp" ->
         LET known == Keys(st) \cap MapKeys(o.m)
             good == {k \in known : Valid(st.reg[k], MapRaw(o.m, k))}
             has == {k \in good : st.reg[k].rl <= RelLevel(st)}
         IN {Out(Res(IF good = known THEN "ok" ELSE "anyerr", <<>>, has,
                     {[k |-> k, v |-> Canon(MapRaw(o.m, k))] : k \in has}), st, {})}

\* ---------------------------------------------------------------- laws of the model (checked by TLC)
\* every stored value is a valid value of its option (G1, G3): canonical value c is valid iff some raw value with
\* that canonical form is
CanonValid(o, c) == \E raw \in RawIds : Canon(raw) = c /\ Valid(o, raw)
ValuesValid(st) == \A k \in Keys(st) : LET o == st.reg[k] IN
    /\ CanonValid(o, o.d)
    /\ (o.u # "-" => CanonValid(o, o.u))
    /\ (o.df # "-" => CanonValid(o, o.df))
LevelsThere(st) == LevelKeys \subseteq Keys(st)
                   /\ InForce(st.reg[KRL]) \in {"S:stable", "S:beta", "S:experimental"}
                   /\ InForce(st.reg[KEL]) \in {"S:user", "S:expert", "S:developer"}
\* a query is the Gets of the keys below the prefix, strictly ascending
QueryIsGets(st, prefix) == LET q == Views(st, prefix) IN
    /\ \A i \in 1..(Len(q) - 1) : LexLess(q[i].k, q[i + 1].k)
    /\ {q[i] : i \in 1..Len(q)} = {View(st, k) : k \in {x \in Keys(st) : IsPrefixOf(prefix, x)}}
ActiveGated(st) == \A a \in Active(st) : st.reg[a.k].u = a.v /\ st.reg[a.k].rl <= RelLevel(st)
\* an operation that fails, a read and a perspective change nothing but (possibly) the pending annotation
Unpend(st) == [st EXCEPT !.reg = [k \in Keys(st) |-> [st.reg[k] EXCEPT !.pend = FALSE]]]
FailuresChangeNothing(st, o) == \A x \in Step(st, o) :
    /\ ((x.res.err # "ok" \/ o.op \in {"dbget", "dbquery", "persp"}) => Unpend(x.st) = Unpend(st))
    /\ (o.op # "register" => Keys(x.st) = Keys(st))
    /\ Pending(st) \subseteq Pending(x.st) \/ o.op = "register"
\* what a subscriber must receive is the state after the operation, and only a change is announced for certain
FeedShowsResult(st, o) == \A x \in Step(st, o) :
    /\ \A v \in x.fd.must : v.k \in Keys(x.st) /\ v = View(x.st, v.k)
    /\ \A v \in x.fd.may : v.k \in Keys(x.st) /\ v = View(x.st, v.k)
    /\ (x.fd.must # {} => x.res.err = "ok")
====
