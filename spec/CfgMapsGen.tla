---- MODULE CfgMapsGen ----
\* X09: (a) the laws of spec/CfgMaps.tla on every nested map reachable by puts over a small domain
\* (Emit = FALSE, breadth-first), (b) vectors for the driver harness/cmd/cfgreg, mode "maps" (Emit = TRUE).
EXTENDS CfgMaps, Json

CONSTANTS MaxLen,   \* vectors per emitted script / puts per nested map in the breadth-first search
          Emit

VARIABLES T, vecs, done
vars == <<T, vecs, done>>

\* the option keys the driver registers (fixture of the clean vectors): a, b/a, b/c/a, c/b
RegPaths == {<<1>>, <<2, 1>>, <<2, 3, 1>>, <<3, 2>>}
Segs == 1..3
PathsUpTo(n) == UNION {[1..k -> Segs] : k \in 1..n}
Pool == PathsUpTo(3)
SmallPool == {<<1>>, <<2>>, <<1, 2>>, <<2, 1>>, <<2, 3>>, <<2, 3, 1>>, <<1, 2, 1>>}

Rnd(S, n) == RandomElement(S)
\* paths near the registered keys and near each other, so that conflicts and registered leaves are frequent
NearPool == RegPaths \cup {<<2>>, <<2, 3>>, <<3>>, <<1, 1>>, <<2, 2>>, <<2, 3, 2>>, <<3, 2, 1>>, <<3, 1>>}
RandPath(n) == IF Rnd(1..3, n) = 1 THEN Rnd(Pool, n) ELSE Rnd(NearPool, n)
RECURSIVE RandTree(_, _, _)
RandTree(acc, k, n) == IF k = 0 THEN acc
                       ELSE RandTree(Put(acc, RandPath(n), Rnd({0, 1, 1, 2, 3, 4}, n)), k - 1, n)
RECURSIVE RandFlat(_, _, _)
RandFlat(acc, k, n) == IF k = 0 THEN acc
                       ELSE LET p == RandPath(n) IN
                            RandFlat({e \in acc : e.p # p} \cup {E(p, Rnd(1..4, n))}, k - 1, n)

Vec(fn, tree, flat, k, v) == [fn |-> fn, tree |-> tree, flat |-> flat, k |-> k, v |-> v, reg |-> RegPaths]
Fns == <<"flatten", "expand", "expand", "put", "put", "j2m", "m2j", "cleanflat", "cleanhier", "cleanhier", "round">>
RandVec(n) ==
    LET fn == Fns[Rnd(1..Len(Fns), n)]
        tree == RandTree({}, Rnd(0..5, n), n)
        flat == RandFlat({}, Rnd(0..4, n), n)
    IN CASE fn \in {"flatten", "j2m", "cleanhier", "round"} -> Vec(fn, tree, {}, <<>>, 0)
         [] fn \in {"expand", "m2j", "cleanflat"} -> Vec(fn, {}, flat, <<>>, 0)
         [] OTHER -> Vec(fn, tree, {}, RandPath(n), Rnd(1..4, n))

Init == T = {} /\ vecs = <<>> /\ done = FALSE

DoVec == /\ Emit /\ ~done /\ Len(vecs) < MaxLen
         /\ vecs' = Append(vecs, RandVec(0))
         /\ UNCHANGED <<T, done>>
Finish == /\ Emit /\ ~done /\ Len(vecs) = MaxLen
          /\ done' = TRUE
          /\ PrintT(<<"@@", ToJson([mode |-> "maps", vec |-> vecs])>>)
          /\ UNCHANGED <<T, vecs>>
\* breadth-first: every nested map built by at most MaxLen puts over the small pool (values 0 1 2)
DoPut == /\ ~Emit /\ Len(vecs) < MaxLen
         /\ \E p \in SmallPool, v \in 0..2 : T' = Put(T, p, v)
         /\ vecs' = Append(vecs, 0)
         /\ UNCHANGED done

Next == DoVec \/ Finish \/ DoPut
Spec == Init /\ [][Next]_vars

Laws == /\ TreeLaws(T, RegPaths)
        /\ \A p \in SmallPool, v \in 1..2 : PutLaws(T, p, v)
        /\ FlatLaws({E(e.p, IF e.v = 0 THEN 1 ELSE e.v) : e \in T} \cup {E(<<2>>, 2)})
        /\ FlatLaws({E(e.p, 1) : e \in T} \cup {E(<<1, 2>>, 2), E(<<1>>, 1)})
MapsView == <<T, Len(vecs)>>
====
