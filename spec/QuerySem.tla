---- MODULE QuerySem ----
\* Meaning of database/query conditions: Matches(condition, record) for all 18 operators, on
\* symbolic value domains.  Self-contained (standard modules only); used by QueryLang (C11) and
\* meant to be reused by the database store specifications (C02 / C14).
\*
\* VALUES (all records of this module have one shape each, so they can be put into TLC sets):
\*   a typed value is  [t, i, b, s, l]
\*     t = "int"    i = the integer.  TLC integers are 32 bit: a driver maps the model integers
\*                  strictly monotonically to int64 anchors (rank -> anchor); only = and < are used.
\*     t = "float"  i = rank of the float in a strictly monotone anchor list, or NaN (unordered).
\*     t = "str"    s = sequence of character codes (TLC strings are atomic, so strings are
\*                  sequences; the driver maps codes injectively to runes, which preserves
\*                  equality, prefix, suffix and substring in both directions).
\*     t = "bool"   b
\*     t = "list"   l = sequence of strings: operand of `in`
\*     t = "re"     operand of `matches`, a regular expression of the family  ^? literal $? :
\*                  s = the literal, i = 0 (unanchored) 1 (^lit) 2 (lit$) 3 (^lit$)
\*     t = "none"   no operand (`exists`)
\*   unused components hold the defaults 0 / FALSE / <<>> / <<>>.
\*
\* RECORDS: a record is a sequence of fields [key |-> k, val |-> typed value]; keys are any values
\*   that TLC can compare with each other (strings, or sequences of character codes); a key occurs
\*   at most once.  Field kinds are int, float, str, bool.
\*
\* CONDITIONS: one node shape  [k, key, op, val, sub]
\*     k = "leaf"   key, op \in Ops, val = operand;      sub = <<>>
\*     k = "and" / "or"   sub = sequence of nodes (the model gives the empty conjunction TRUE and
\*                        the empty disjunction FALSE, as the code does)
\*     k = "not"    sub = <<node>>
\*   unused components: key = <<>>, op = "", val = NoV.
\*
\* SEMANTICS (database/query/condition-*.go with accessor.StructAccessor): a leaf whose key is
\* missing, or whose field has another kind than the operator works on, is FALSE (so its negation
\* is TRUE); `exists` is TRUE iff the key is present.  The two accessors of portbase differ only
\* where an integer operator meets a float field or a float operator meets an integer field (the
\* JSON accessor converts, the struct accessor refuses): `Matches` is the strict (struct) meaning;
\* `MayMatch` / `MustMatch` / `Allowed` leave exactly those leaves open.
\*
\* USE: `Matches(c, r)` for the strict meaning; `Conforms(b, c, r)` to test an observed answer b
\* of an implementation (cheaper than b \in Allowed(c, r)); `WellFormed(c)` for what Query.Check
\* accepts.  TLC note: TLC does not cache zero-arity definitions whose value contains records (a
\* pool of witness records, say): bind them once with LET in the caller and pass them down.
EXTENDS Integers, Sequences

IntOps   == {"eq", "gt", "ge", "lt", "le"}                         \* ==  >  >=  <  <=
FloatOps == {"feq", "fgt", "fge", "flt", "fle"}                    \* f== f> f>= f< f<=
StrOps   == {"sameas", "contains", "startswith", "endswith"}
Ops      == IntOps \cup FloatOps \cup StrOps \cup {"in", "matches", "is", "exists"}

NaN == 2147483647     \* the float that is unordered and unequal to everything (itself included)

V(t, i, b, s, l) == [t |-> t, i |-> i, b |-> b, s |-> s, l |-> l]
IntV(n)      == V("int", n, FALSE, <<>>, <<>>)
FloatV(n)    == V("float", n, FALSE, <<>>, <<>>)
StrV(s)      == V("str", 0, FALSE, s, <<>>)
BoolV(b)     == V("bool", 0, b, <<>>, <<>>)
ListV(l)     == V("list", 0, FALSE, <<>>, l)
ReV(a, s)    == V("re", a, FALSE, s, <<>>)
NoV          == V("none", 0, FALSE, <<>>, <<>>)

\* operand kind an operator takes / field kind it works on
OperandKind(op) == CASE op \in IntOps -> "int" [] op \in FloatOps -> "float" [] op \in StrOps -> "str"
                     [] op = "in" -> "list" [] op = "matches" -> "re" [] op = "is" -> "bool" [] op = "exists" -> "none"
FieldKind(op) == CASE op \in IntOps -> "int" [] op \in FloatOps -> "float" [] op = "is" -> "bool"
                   [] op = "exists" -> "any" [] OTHER -> "str"

Leaf(key, op, val) == [k |-> "leaf", key |-> key, op |-> op, val |-> val, sub |-> <<>>]
Group(kind, subs)  == [k |-> kind, key |-> <<>>, op |-> "", val |-> NoV, sub |-> subs]
And(subs) == Group("and", subs)
Or(subs)  == Group("or", subs)
Not(c)    == Group("not", <<c>>)

\* ---- strings as sequences ----
IsPrefix(p, s) == Len(p) <= Len(s) /\ SubSeq(s, 1, Len(p)) = p
IsSuffix(p, s) == Len(p) <= Len(s) /\ SubSeq(s, Len(s) - Len(p) + 1, Len(s)) = p
IsInfix(p, s)  == \E k \in 0..(Len(s) - Len(p)) : SubSeq(s, k + 1, k + Len(p)) = p

\* ---- records ----
Has(r, key) == \E j \in 1..Len(r) : r[j].key = key
Get(r, key) == r[CHOOSE j \in 1..Len(r) : r[j].key = key].val
Field(key, val) == [key |-> key, val |-> val]

\* ---- leaves ----
Cmp(op, a, b) == CASE op \in {"eq", "feq"} -> a = b
                   [] op \in {"gt", "fgt"} -> a > b
                   [] op \in {"ge", "fge"} -> a >= b
                   [] op \in {"lt", "flt"} -> a < b
                   [] op \in {"le", "fle"} -> a <= b

\* value f of the right kind against the operand v
LeafOn(op, f, v) ==
    CASE op \in IntOps   -> Cmp(op, f.i, v.i)
      [] op \in FloatOps -> f.i # NaN /\ v.i # NaN /\ Cmp(op, f.i, v.i)
      [] op = "sameas"     -> f.s = v.s
      [] op = "contains"   -> IsInfix(v.s, f.s)
      [] op = "startswith" -> IsPrefix(v.s, f.s)
      [] op = "endswith"   -> IsSuffix(v.s, f.s)
      [] op = "in"         -> \E j \in 1..Len(v.l) : v.l[j] = f.s
      [] op = "matches"    -> CASE v.i = 0 -> IsInfix(v.s, f.s) [] v.i = 1 -> IsPrefix(v.s, f.s)
                                [] v.i = 2 -> IsSuffix(v.s, f.s) [] OTHER -> v.s = f.s
      [] op = "is"         -> f.b = v.b
      [] op = "exists"     -> TRUE

\* index of the field `key` in r, 0 if there is none
Idx(r, key) == IF \E j \in 1..Len(r) : r[j].key = key THEN CHOOSE j \in 1..Len(r) : r[j].key = key ELSE 0

\* "T" / "F": the leaf is true / false on r; "O": open, the leaves on which StructAccessor and
\* JSONAccessor disagree (numeric operator on a field of the other numeric kind)
LeafVal(c, r) ==
    LET j == Idx(r, c.key) IN
    IF j = 0 THEN "F"
    ELSE LET f == r[j].val
             kind == FieldKind(c.op)
         IN IF (kind = "int" /\ f.t = "float") \/ (kind = "float" /\ f.t = "int") THEN "O"
            ELSE IF kind \in {"any", f.t} /\ LeafOn(c.op, f, c.val) THEN "T" ELSE "F"

LeafStrict(c, r) == LeafVal(c, r) = "T"
LeafOpen(c, r) == LeafVal(c, r) = "O"

\* ---- conditions ----
RECURSIVE Matches(_, _)
Matches(c, r) ==
    CASE c.k = "leaf" -> LeafVal(c, r) = "T"
      [] c.k = "and"  -> \A j \in 1..Len(c.sub) : Matches(c.sub[j], r)
      [] c.k = "or"   -> \E j \in 1..Len(c.sub) : Matches(c.sub[j], r)
      [] c.k = "not"  -> ~Matches(c.sub[1], r)

\* MayMatch: TRUE under some resolution of the open leaves; MustMatch: under every resolution
\* (leaves are resolved independently: a sound over-approximation of the set of outcomes)
RECURSIVE MayMatch(_, _), MustMatch(_, _)
MayMatch(c, r) ==
    CASE c.k = "leaf" -> LeafVal(c, r) # "F"
      [] c.k = "and"  -> \A j \in 1..Len(c.sub) : MayMatch(c.sub[j], r)
      [] c.k = "or"   -> \E j \in 1..Len(c.sub) : MayMatch(c.sub[j], r)
      [] c.k = "not"  -> ~MustMatch(c.sub[1], r)
MustMatch(c, r) ==
    CASE c.k = "leaf" -> LeafVal(c, r) = "T"
      [] c.k = "and"  -> \A j \in 1..Len(c.sub) : MustMatch(c.sub[j], r)
      [] c.k = "or"   -> \E j \in 1..Len(c.sub) : MustMatch(c.sub[j], r)
      [] c.k = "not"  -> ~MayMatch(c.sub[1], r)

\* the set of answers a conforming implementation may give, and the test whether b is one of them
Allowed(c, r) == {b \in BOOLEAN : (b => MayMatch(c, r)) /\ (~b => ~MustMatch(c, r))}
Conforms(b, c, r) == IF b THEN MayMatch(c, r) ELSE ~MustMatch(c, r)

\* a query without a where clause matches every record: represent it as And(<<>>)
NoCondition == And(<<>>)

\* ---- well-formedness (what Query.Check accepts, restricted to this module's value kinds) ----
RECURSIVE WellFormed(_)
WellFormed(c) ==
    CASE c.k = "leaf" -> c.op \in Ops /\ c.val.t = OperandKind(c.op)
      [] c.k = "not"  -> Len(c.sub) = 1 /\ WellFormed(c.sub[1])
      [] c.k \in {"and", "or"} -> \A j \in 1..Len(c.sub) : WellFormed(c.sub[j])
      [] OTHER -> FALSE
====
