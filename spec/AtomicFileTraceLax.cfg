SPECIFICATION Spec
CONSTANTS
  Strict = FALSE
POSTCONDITION Accepted
CHECK_DEADLOCK FALSE
