---- MODULE MetricsTrace ----
\* Validates traces recorded from package metrics against the reference semantics (extension check X11).
\* trace.ndjson, one JSON object per line:
\*   {"e":"new"}                          a new recorded history: fresh data directory, first process life
\*   {"e":"op","op":{...},"res":{...}}    one operation (shape of MetricsGen!Op) with what the package answered:
\*        err (result class), lid (labeled id of a registered metric), v (value read back), lines (what an export
\*        showed, as [lid, v] in the order it was written; for ExportValues sorted by key)
\* A step is accepted iff the model allows an outcome with exactly this answer; the model state (which can be a
\* set of candidates where the statement leaves things open) moves on with it.
EXTENDS Metrics, Json

Trace == ndJsonDeserialize("trace.ndjson")

VARIABLES st, l
vars == <<st, l>>

Init == st = Fresh(NoDisk) /\ l = 1

New == /\ l <= Len(Trace) /\ Trace[l].e = "new"
       /\ st' = Fresh(NoDisk)
       /\ l' = l + 1

DoOp == /\ l <= Len(Trace) /\ Trace[l].e = "op"
        /\ \E x \in Step(st, Trace[l].op) :
              /\ x.res = [err |-> Trace[l].res.err, lid |-> Trace[l].res.lid, v |-> Trace[l].res.v, lines |-> Trace[l].res.lines]
              /\ st' = x.st
        /\ l' = l + 1

Next == New \/ DoOp
Spec == Init /\ [][Next]_vars

Accepted == TLCGet("stats").diameter - 1 = Len(Trace)
====
