---- MODULE QueryLangTrace ----
\* Judges every event recorded by harness/cmd/qlang (property C11). Stateless: one event per
\* observation; `Why(ev)` is the set of reasons for which the model rejects it (empty = accepted).
\*
\* common fields: ok (a checked query was obtained), chk, name (database name ":" key prefix as
\*   character codes), o0 / o1 (answers of that query on witness lists 0 / 1),
\*   p1 (its text), pok (p1 parses), p2 (text of the parsed-back query), name2, r0 / r1 (its answers)
\* "rt"   ast, pfx: the query was built through the API; witness lists are SW (typed struct) and JW (JSON)
\* "txt"  ast, pfx: the query was parsed from a text of the documented grammar rendered by the model
\* "tok"  s, ctx, cm, wits: the character string s was put into the context ctx; witness list 0/1 are
\*        typed / JSON records whose field XY is wits[i]  (contexts key, kopen: list 0 is <<{t: 1}, {}>>)
EXTENDS QueryLang, Json

Trace == ndJsonDeserialize("trace.ndjson")
VARIABLE l

\* printing and parsing back must not change anything observable
Unstable(ev) ==
    IF ~ev.ok THEN {}
    ELSE IF ~ev.pok THEN {"reparse"}
    ELSE (IF ev.p2 # ev.p1 THEN {"reprint"} ELSE {})
         \cup (IF ev.name2 # ev.name THEN {"rename"} ELSE {})
         \cup (IF ev.r0 # ev.o0 \/ ev.r1 # ev.o1 THEN {"rematch"} ELSE {})

\* the answers on the witness pools are answers the meaning of the tree allows
\* (sw, jw: the pools SW, JW, evaluated once by the caller: TLC does not cache these definitions)
ModelOK(ev, sw, jw) == /\ Len(ev.o0) = Len(sw) /\ \A i \in 1..Len(sw) : Conforms(ev.o0[i], ev.ast, sw[i])
                       /\ Len(ev.o1) = Len(jw) /\ \A i \in 1..Len(jw) : Conforms(ev.o1[i], ev.ast, jw[i])

\* a key with a backslash cannot be named by the JSON accessor (gjson path syntax; `X\` reads the field `X`): what a
\* condition on such a key matches is an accessor matter outside this property - only the text round trip is judged
RECURSIVE HasBSKey(_)
HasBSKey(c) == IF c.k = "leaf" THEN \E i \in 1..Len(c.key) : c.key[i] = BS
               ELSE \E j \in 1..Len(c.sub) : HasBSKey(c.sub[j])

WhyTree(ev, sw, jw) ==
    \* a tree with an operand that does not fit its operator must be refused (by Check or by the parser) ...
    IF ~WellFormed(ev.ast) THEN (IF ev.ok THEN {"accepted-invalid"} ELSE {}) ELSE
    \* ... every other tree yields a checked query
    (IF ev.ok THEN {} ELSE {IF ev.e = "rt" THEN "check" ELSE "parse"})
    \cup (IF ev.ok /\ ~ev.chk THEN {"unchecked"} ELSE {})
    \cup (IF ev.ok /\ ev.name # ev.pfx THEN {"name"} ELSE {})
    \cup (IF ev.ok /\ ~HasBSKey(ev.ast) /\ ~ModelOK(ev, sw, jw) THEN {"model"} ELSE {})

SafeKey(t) == t # <<>> /\ \A k \in 1..Len(t) : t[k] # BS       \* gjson paths cannot name keys with a backslash
Elems(t) == LET sp == Split(t) IN {sp[k] : k \in 1..Len(sp)}

WhyTok(ev) ==
    LET S == Shape(Tokenize(ev.s))
        t == S.t
        need == IF ev.ok THEN {} ELSE {"parse"}
        sameas(o) == IF ev.ok /\ (Len(o) # Len(ev.wits) \/ \E i \in 1..Len(ev.wits) : o[i] # (ev.wits[i] = t)) THEN {"value"} ELSE {}
        inlist(o) == IF ev.ok /\ (Len(o) # Len(ev.wits) \/ \E i \in 1..Len(ev.wits) : o[i] # (ev.wits[i] \in Elems(t))) THEN {"value"} ELSE {}
        key == IF ev.ok /\ ev.cm = 0 /\ SafeKey(t) /\ ev.o0 # <<TRUE, FALSE>> THEN {"key"} ELSE {}
        vector(sh) == IF S.sh # sh \/ (ev.wits # <<>> /\ ev.wits[1] # t) THEN {"vector"} ELSE {}
    IN (IF ev.ok /\ ~ev.chk THEN {"unchecked"} ELSE {})
       \cup CASE ev.ctx \in {"val", "vclose"} -> vector(IF ev.ctx = "val" THEN "w" ELSE "wc") \cup need \cup sameas(ev.o0) \cup sameas(ev.o1)
              [] ev.ctx = "in"  -> vector("w") \cup (IF Len(Split(t)) >= 2 THEN need \cup inlist(ev.o0) \cup inlist(ev.o1) ELSE {})
              [] ev.ctx = "pfx" -> vector("w") \cup need \cup (IF ev.ok /\ ev.name # t \o <<13>> THEN {"name"} ELSE {})
              [] ev.ctx = "ob"  -> vector("w") \cup need
              [] ev.ctx \in {"key", "kopen"} -> vector(IF ev.ctx = "key" THEN "w" ELSE "ow") \cup need \cup key
              [] OTHER -> {}         \* any other string: either a checked query or an error (and no panic)

Why(ev, sw, jw) == (IF "panic" \in DOMAIN ev THEN {"panic"} ELSE {})
           \cup (IF ev.e = "tok" THEN WhyTok(ev) ELSE WhyTree(ev, sw, jw))
           \cup Unstable(ev)

\* TLC evaluates every recorded event once (the verdict is kept in TLC register 7 for the postcondition)
Verdicts == LET sw == SW
                jw == JW
            IN {[i |-> i, w |-> Why(Trace[i], sw, jw)] : i \in 1..Len(Trace)}
Init == LET rej == {v \in Verdicts : v.w # {}}
        IN /\ l = 0
           /\ TLCSet(7, rej = {})
           /\ PrintT(<<"@@", ToJson([bad |-> {v.i : v \in rej}, n |-> Len(Trace), why |-> rej])>>)
Next == l < 1 /\ l' = 1
Spec == Init /\ [][Next]_l
Accepted == TLCGet(7)
====
