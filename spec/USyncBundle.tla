---- MODULE USyncBundle ----
\* X02 (extension check) -- the small concurrency primitives of package utils.
\*
\* This module is the CONTRACT MONITOR for the two "bundling" primitives OnceAgain (utils/onceagain.go)
\* and CallLimiter (utils/call_limiter.go).  The same monitor judges the implementation-shaped models
\* (USyncOnce.tla, USyncLimiter.tla: for every interleaving) and the histories recorded from the real
\* code (USyncTrace.tla).  Observable events of a history, in real-time order:
\*     call(p)        process p is about to call Do(f_p)            (recorded before the call)
\*     fs(p, t)       the function given by p's current call starts (recorded first thing inside f, time t)
\*     fe(p, t, pan)  ... is about to return / to panic            (recorded last thing inside f)
\*     ret(p, pan)    p's call to Do has returned / has panicked   (recorded after the call)
\*
\* Guarantees derived from the doc comments ("will perform only one action in flight", "Do guarantees that
\* when it returns, f has finished", "automatically reused when the function was executed and everyone who
\* waited has left", "All concurrent calls to Do are bundled and return when f() finishes", "Waits until the
\* minimum pause is over before executing f() again", "If f panics, Do considers it to have returned"):
\*   B1  executions of f never overlap                                                    (both)
\*   B2  the function given to a call runs only while that call is in progress, at most once (both)
\*   B3  a call to Do never returns before an execution of f has finished that started after the last
\*       moment at which no call was in progress (i.e. it was "bundled" with calls of its own busy period;
\*       in particular a call that starts while nothing is in progress is followed by a fresh execution
\*       before it returns: no call is lost, the object is reusable)                       (both)
\*   B4  CallLimiter only: calls are bundled only if they are concurrent -- when call c returned before call
\*       d started, the execution that serves d is a later one than the one that served c.
\*       (OnceAgain documents that it is "somewhat racy" here, so B4 is not claimed for it.)
\*   B5  CallLimiter only: an execution starts no earlier than `pause` after the end of the previous one.
\*   B6  a call panics exactly if it ran its own f and that f panicked; the object stays usable.
\* Liveness (every call returns when every f returns) is checked on the models (deadlock freedom) and
\* shows as a "stuck" event in recorded histories.
\* Where the documentation is silent (which of the concurrent callers runs its f, how many executions a busy
\* period has beyond the first, whether a call arriving while f runs is served by that execution) every
\* outcome is allowed.
EXTENDS Integers, FiniteSets

Max2(a, b) == IF a >= b THEN a ELSE b

\* np processes; strict: B4/B5 apply (CallLimiter); pause and tolerance in the time unit of the events
BInit(np, strict, pause, tol) ==
  [np |-> np, strict |-> strict, pause |-> pause, tol |-> tol,
   inprog |-> {},                          \* processes with a call in progress
   need |-> [p \in 1..np |-> 0],           \* number of the earliest execution that may serve p's call
   ran |-> [p \in 1..np |-> FALSE],        \* p's current call has started its f
   fpan |-> [p \in 1..np |-> FALSE],       \* ... and that f panicked
   started |-> 0, completed |-> 0,         \* executions so far
   running |-> 0,                          \* process whose f is executing, 0 = none
   qbase |-> 0,                            \* executions at the last quiescent moment
   served |-> 0,                           \* max need of the calls that returned
   lastFe |-> -1,
   bad |-> ""]

Fail(m, why) == [m EXCEPT !.bad = why]

BCall(m, p) ==
  IF p \notin 1..m.np THEN Fail(m, "call:unknown-process")
  ELSE IF p \in m.inprog THEN Fail(m, "call:reentered")
  ELSE [m EXCEPT !.inprog = @ \cup {p},
                 !.need[p] = 1 + (IF m.strict THEN Max2(m.served, m.qbase) ELSE m.qbase),
                 !.ran[p] = FALSE, !.fpan[p] = FALSE]

BFs(m, p, t) ==
  IF p \notin m.inprog THEN Fail(m, "fs:outside-its-call")
  ELSE IF m.running # 0 THEN Fail(m, "fs:overlap")
  ELSE IF m.ran[p] THEN Fail(m, "fs:twice")
  ELSE IF m.strict /\ m.pause > 0 /\ m.lastFe >= 0 /\ t - m.lastFe < m.pause - m.tol THEN Fail(m, "fs:pause")
  ELSE [m EXCEPT !.running = p, !.ran[p] = TRUE, !.started = @ + 1]

BFe(m, p, t, pan) ==
  IF m.running # p THEN Fail(m, "fe:not-running")
  ELSE [m EXCEPT !.running = 0, !.completed = @ + 1, !.lastFe = t, !.fpan[p] = pan]

BRet(m, p, pan) ==
  IF p \notin m.inprog THEN Fail(m, "ret:no-call")
  ELSE IF m.running = p THEN Fail(m, "ret:own-f-running")
  ELSE IF m.completed < m.need[p] THEN Fail(m, "ret:unserved")
  ELSE IF pan # (m.ran[p] /\ m.fpan[p]) THEN Fail(m, "ret:panic")
  ELSE LET ip == m.inprog \ {p} IN
       [m EXCEPT !.inprog = ip,
                 !.served = Max2(@, m.need[p]),
                 !.qbase = IF ip = {} THEN m.started ELSE @]
====
