---- MODULE MicroAbs ----
\* Property-level monitor for microtasks (C15): concurrency limit, exactly once, returned errors, idempotent
\* done functions, accounting after quiescence.  Events come from harness/cmd/micro.
EXTENDS Integers, Sequences, FiniteSets, TLC

CONSTANTS PromptMs

VARIABLES ids,        \* set of microtask ids
          prio,       \* [ids -> "high" | "med" | "low"]
          out,        \* [ids -> "ok" | "err" | "panic"]   outcome of the function
          limit,      \* configured concurrency limit
          expiry,     \* a maximum delay may expire in this history (then the limit clause does not apply)
          st,         \* [ids -> "new" | "running" | "ended"]
          lastT
avars == <<ids, prio, out, limit, expiry, st, lastT>>

ToSet(s) == {s[i] : i \in 1..Len(s)}
Max(a, b) == IF a > b THEN a ELSE b
AbsInit == ids = {} /\ prio = <<>> /\ out = <<>> /\ limit = 2 /\ expiry = FALSE /\ st = <<>> /\ lastT = 0

Reset(is, ps, os, lim, ex) ==
    /\ ids' = ToSet(is)
    /\ prio' = [i \in ToSet(is) |-> ps[CHOOSE k \in 1..Len(is) : is[k] = i]]
    /\ out' = [i \in ToSet(is) |-> os[CHOOSE k \in 1..Len(is) : is[k] = i]]
    /\ limit' = lim /\ expiry' = ex
    /\ st' = [i \in ToSet(is) |-> "new"] /\ lastT' = 0

RunningML == {i \in ids : st[i] = "running" /\ prio[i] # "high"}
HighRunning == \E i \in ids : st[i] = "running" /\ prio[i] = "high"

\* the function of microtask i was entered
Begin(i, t) ==
    /\ i \in ids /\ st[i] = "new"                                    \* executed at most once
    /\ st' = [st EXCEPT ![i] = "running"]
    \* at most `limit` medium/low microtasks at the same time, unless a high priority one runs or a delay expired
    /\ (prio[i] # "high" /\ ~expiry /\ ~HighRunning) => Cardinality(RunningML) + 1 <= limit
    /\ UNCHANGED <<ids, prio, out, limit, expiry, lastT>>
End(i, t) ==
    /\ i \in ids /\ st[i] = "running" /\ st' = [st EXCEPT ![i] = "ended"] /\ lastT' = Max(lastT, t)
    /\ UNCHANGED <<ids, prio, out, limit, expiry>>
\* a blocking Run*MicroTask returned: the function's own error, or a panic error
Ret(i, class) ==
    /\ i \in ids /\ st[i] = "ended" /\ class = out[i]
    /\ UNCHANGED avars
\* n-th call of a done function obtained from a Signal* variant; that it takes effect exactly once is judged by
\* the accounting at quiescence (module count zero, global count neither above nor below zero)
Done(i, n) == i \in ids /\ st[i] = "ended" /\ UNCHANGED avars
\* quiescence: every submitted function ran exactly once; per-module count is zero
Final(modCount, t) ==
    /\ \A i \in ids : st[i] = "ended"
    /\ modCount = 0
    /\ lastT' = Max(lastT, t)
    /\ UNCHANGED <<ids, prio, out, limit, expiry, st>>
\* a single microtask submitted while nothing runs and nothing waits was admitted within ms milliseconds
IdleProbe(ms) == ms <= PromptMs /\ UNCHANGED avars
\* `limit` probe microtasks submitted together after quiescence were all admitted within ms milliseconds
\* (the global count is back to zero: later microtasks are admitted immediately) ...
ProbeAdmitted(ms) == ms <= PromptMs /\ UNCHANGED avars
\* ... and one more was held back while they ran (the global count is not below zero)
ProbeHeld(held) == held /\ UNCHANGED avars
\* the module stopped promptly afterwards
StopRet(ok, t0, t1) == t1 - t0 <= PromptMs /\ UNCHANGED avars
====
