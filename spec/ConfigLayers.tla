---- MODULE ConfigLayers ----
\* The layered configuration of portbase/config (property C04, sequential part).
\*
\* State: for every registered option the value of the user layer and of the default layer ("NIL" =
\* not set); the third layer, the registered default, never changes.  `Step(st, op)` is the set of
\* allowed outcomes [res, st] of one operation; the same definition serves history generation
\* (ConfigLayersGen) and validation of what the Go package did (ConfigLayersTrace).
\*
\* Values are symbolic.  A *raw* value (what a caller hands to a setter) is an identifier such as
\* "i8:-2" or "is:a,#1"; the table RawTab gives, for each, the option type it converts to ("S" string,
\* "A" string array, "I" int, "B" bool, "-" none) and the canonical typed value it denotes ("I:-2").
\* The Go driver builds the concrete Go value from the identifier and prints every value it reads back
\* in canonical form, so that TLC compares atoms.
EXTENDS Integers, Sequences, FiniteSets, TLC

\* ---------------------------------------------------------------- the registered options (fixture)
Opts == {"str", "arr", "num", "flg", "re", "al", "fn", "nre", "nal", "are", "beta", "exp", "rl"}
Keys == Opts \cup {"unk"}                      \* "unk": a key that is not registered
\* str arr num flg: plain options of the four types; re: string + regex; al: string + allowed values;
\* fn: int + validation function; nre: int + regex; nal: int + allowed values; are: string array + regex;
\* beta, exp: options at release level beta / experimental; rl: the release-level option of the package
OType == [str |-> "S", arr |-> "A", num |-> "I", flg |-> "B", re |-> "S", al |-> "S", fn |-> "I",
          nre |-> "I", nal |-> "I", are |-> "A", beta |-> "S", exp |-> "I", rl |-> "S"]
Level == [str |-> 0, arr |-> 0, num |-> 0, flg |-> 0, re |-> 0, al |-> 0, fn |-> 0, nre |-> 0, nal |-> 0, are |-> 0,
          beta |-> 1, exp |-> 2, rl |-> 0]     \* 0 stable, 1 beta, 2 experimental
Reg == [str |-> "S:d", arr |-> "A:d", num |-> "I:7", flg |-> "B:false", re |-> "S:a", al |-> "S:x",
        fn |-> "I:0", nre |-> "I:0", nal |-> "I:4", are |-> "A:a",
        beta |-> "S:d", exp |-> "I:1", rl |-> "S:stable"]   \* registered defaults
Types == {"S", "A", "I", "B"}
Fallback == [S |-> "S:FB", A |-> "A:F|B", I |-> "I:-99", B |-> "B:true"]  \* fallback arguments of the getters

\* ---------------------------------------------------------------- raw values
P53 == "I:9007199254740992"
M53 == "I:-9007199254740992"
RawTab == {
    \* Go string
    <<"s:a", "S", "S:a">>, <<"s:ab", "S", "S:ab">>, <<"s:c", "S", "S:c">>, <<"s:x", "S", "S:x">>,
    <<"s:y", "S", "S:y">>, <<"s:", "S", "S:">>, <<"s:d", "S", "S:d">>,
    <<"s:stable", "S", "S:stable">>, <<"s:beta", "S", "S:beta">>, <<"s:experimental", "S", "S:experimental">>,
    \* []string, []interface{} (JSON-decoded array)
    <<"ss:a,b", "A", "A:a|b">>, <<"ss:x", "A", "A:x">>, <<"ss:", "A", "A:">>,
    <<"ss:nil", "A", "A:">>,                                  \* []string(nil): an empty array
    <<"is:a,b", "A", "A:a|b">>, <<"is:y", "A", "A:y">>, <<"is:", "A", "A:">>, <<"is:a,#1", "-", "-">>,
    \* Go integer types, float64 (JSON-decoded number), float32
    <<"i:4", "I", "I:4">>, <<"i:5", "I", "I:5">>, <<"i:0", "I", "I:0">>, <<"i:7", "I", "I:7">>,
    <<"i64:-3", "I", "I:-3">>, <<"i8:-2", "I", "I:-2">>, <<"u32:6", "I", "I:6">>, <<"i16:1", "I", "I:1">>,
    <<"i64:p53", "I", P53>>, <<"i64:m53", "I", M53>>,
    <<"f:4", "I", "I:4">>, <<"f:-3", "I", "I:-3">>, <<"f:p53", "I", P53>>, <<"f:m53", "I", M53>>,
    <<"f32:8", "I", "I:8">>, <<"f:4.5", "-", "-">>, <<"f32:0.5", "-", "-">>,
    \* bool
    <<"b:true", "B", "B:true">>, <<"b:false", "B", "B:false">>,
    \* Go types that no option accepts
    <<"x:map", "-", "-">>, <<"x:bytes", "-", "-">>, <<"x:struct", "-", "-">> }
RawIds == {t[1] : t \in RawTab}
RawOf == [id \in RawIds |-> CHOOSE t \in RawTab : t[1] = id]
As(v) == RawOf[v][2]
Canon(v) == RawOf[v][3]
Matching(o) == {v \in RawIds : As(v) = OType[o]}      \* raw values of the option's own type

\* re, are: regular expression ^[ab]+$ (are: on every entry); al: allowed values {x, y}; fn: validation
\* function "even"; nre: regular expression ^-?[0-9]+$ (every integer matches); nal: allowed values
\* {4, 6, 2^53}; rl: the three release levels
Even == {"I:4", "I:0", "I:-2", "I:6", "I:8", P53, M53}
ConstraintOK(o, c) ==
    CASE o = "re" -> c \in {"S:a", "S:ab"}
      [] o = "al" -> c \in {"S:x", "S:y"}
      [] o = "fn" -> c \in Even
      [] o = "nre" -> TRUE
      [] o = "nal" -> c \in {"I:4", "I:6", P53}
      [] o = "are" -> c \in {"A:a|b", "A:"}
      [] o = "rl" -> c \in {"S:stable", "S:beta", "S:experimental"}
      [] OTHER    -> TRUE
Valid(o, v) == As(v) = OType[o] /\ ConstraintOK(o, Canon(v))

\* ---------------------------------------------------------------- layering
NilLayer == [o \in Opts |-> "NIL"]
InitSt == [user |-> NilLayer, def |-> NilLayer]

LevelOf(c) == CASE c = "S:beta" -> 1 [] c = "S:experimental" -> 2 [] OTHER -> 0
\* the release-level option is itself stable, so its user value always counts
EffLevel(st) == LevelOf(IF st.user["rl"] # "NIL" THEN st.user["rl"]
                        ELSE IF st.def["rl"] # "NIL" THEN st.def["rl"] ELSE Reg["rl"])
Enabled(st, o) == Level[o] <= EffLevel(st)
Effective(st, o) == IF st.user[o] # "NIL" /\ Enabled(st, o) THEN st.user[o]
                    ELSE IF st.def[o] # "NIL" THEN st.def[o]
                    ELSE Reg[o]

\* ---------------------------------------------------------------- operations
\* uniform shapes: op = [op, L, o, v, m]; res = [err, inv]
EmptyMap == [k \in Keys |-> "-"]
SetOp(L, o, v) == [op |-> "Set", L |-> L, o |-> o, v |-> v, m |-> EmptyMap]
ReplaceOp(L, m) == [op |-> "Replace", L |-> L, o |-> "-", v |-> "-", m |-> m]
SaveLoadOp == [op |-> "SaveLoad", L |-> "user", o |-> "-", v |-> "-", m |-> EmptyMap]
Res(err, inv) == [err |-> err, inv |-> inv]
Out(r, s) == [res |-> r, st |-> s]
Put(st, L, o, c) == IF L = "user" THEN [st EXCEPT !.user[o] = c] ELSE [st EXCEPT !.def[o] = c]

\* SetConfigOption / SetDefaultConfigOption: nil unsets; an invalid value is rejected with an error and
\* nothing changes; an unknown key is an error
SetStep(st, L, o, v) ==
    IF o = "unk" THEN {Out(Res(TRUE, {}), st)}
    ELSE IF v = "nil" THEN {Out(Res(FALSE, {}), Put(st, L, o, "NIL"))}
    ELSE IF Valid(o, v) THEN {Out(Res(FALSE, {}), Put(st, L, o, Canon(v)))}
    ELSE {Out(Res(TRUE, {}), st)}

\* ReplaceConfig / ReplaceDefaultConfig: exactly the valid entries are installed, every other option
\* of the layer is unset, the invalid entries are reported.  The statement is silent on whether a nil
\* entry or an unknown key is reported as invalid: both are allowed.
ReplaceStep(st, L, m) ==
    LET layer == [o \in Opts |-> IF m[o] \notin {"-", "nil"} /\ Valid(o, m[o]) THEN Canon(m[o]) ELSE "NIL"]
        must  == {o \in Opts : m[o] \notin {"-", "nil"} /\ ~Valid(o, m[o])}
        may   == {k \in Keys : m[k] = "nil"} \cup (IF m["unk"] # "-" THEN {"unk"} ELSE {})
        nst   == IF L = "user" THEN [st EXCEPT !.user = layer] ELSE [st EXCEPT !.def = layer]
    IN  {Out(Res(FALSE, must \cup s), nst) : s \in SUBSET may}

\* SaveConfig in one process, start of the config module on the same data root in a new process:
\* the user layer is restored exactly; the default layer of a new process is empty
SaveLoadStep(st) == {Out(Res(FALSE, {}), [user |-> st.user, def |-> NilLayer])}

Step(st, op) ==
    CASE op.op = "Set"      -> SetStep(st, op.L, op.o, op.v)
      [] op.op = "Replace"  -> ReplaceStep(st, op.L, op.m)
      [] op.op = "SaveLoad" -> SaveLoadStep(st)

\* ---------------------------------------------------------------- what every read must show
ObsGet(st) == [o \in Opts |-> Effective(st, o)]                     \* GetAs*, Concurrent.GetAs*
ObsSet(st) == [o \in Opts |-> st.user[o] # "NIL"]                   \* Option.IsSetByUser
ObsActive(st) == [o \in Opts |-> IF st.user[o] # "NIL" /\ Enabled(st, o) THEN st.user[o] ELSE "NIL"]
\* a getter of another type returns its fallback argument (order S, A, I, B without the own type)
TypeSeq == <<"S", "A", "I", "B">>
ObsWrong == [o \in Opts |-> [i \in 1..4 |-> IF TypeSeq[i] = OType[o] THEN "OWN" ELSE Fallback[TypeSeq[i]]]]
ObsUnknown == [i \in 1..4 |-> Fallback[TypeSeq[i]]]
\* a Perspective built from the map m shows exactly its valid entries, behind the release-level gate
ObsPersp(st, m) == [o \in Opts |-> IF m[o] \notin {"-", "nil"} /\ Valid(o, m[o]) /\ Enabled(st, o)
                                   THEN Canon(m[o]) ELSE "NONE"]
OpMap(op) == IF op.op = "Set" /\ op.o \in Opts THEN [EmptyMap EXCEPT ![op.o] = op.v] ELSE op.m
====
