---- MODULE DbApi ----
\* The database API (api/database.go) as a protocol monitor (property C13).
\*
\* One connection.  The client sends messages `<opID>|<command>|<payload>`; the API answers with
\* messages `<opID>|<type>|...`.  The monitor state `s` holds, per operation id, the protocol automaton
\* of the request that carries this id, the replies a `cancel` or a malformed message may still
\* produce, and a projection of the stored records as a non-local, non-internal interface sees them.
\*
\*   Req(s, r)   the state after the client sent request r                       (a function)
\*   Rep(s, m)   the SET of states after the API sent reply m; {} = m is not allowed here
\*   EndOK(s)    nothing is owed any more (checked when the connection went quiet)
\*
\* The same operators are
\*   * model-checked (DbApiGen: client and a most general server that sends every allowed reply),
\*   * used to generate request scripts (DbApiGen -simulate), and
\*   * used to validate the message traces recorded from the real API (DbApiTrace).
\* Where the property is silent, Rep allows every outcome.
\*
\* Abstraction (the concrete values live in the Go driver and in the trace header):
\*   ids     0..MaxId, 0 = the empty operation id
\*   keys    1..4 keys of the database of the script ("a/x", "a/y", "b/z", "" in this order), 5 = a key of a
\*           database that is not registered
\*   content <<va, vb, vc>>, the values of three fields of a JSON object, 0 = field absent;
\*           OtherC = a payload the driver could not map back (never equal to a stored content)
\*   kind    "abs" no record | "json" JSON object with known content | "opq" anything else (CBOR, raw,
\*           empty, JSON that is not an object): reads may fail | "hid" secret / crown jewel: must never
\*           be shown and cannot be written | "bad" unreadable record (iteration over it fails) |
\*           "unk" unknown (concurrent mode)
\*   query   1..8, see QMatch
EXTENDS Integers, Sequences, FiniteSets, TLC

CONSTANT MaxId

Ids == 0..MaxId
Keys == 1..5
NoC == <<0, 0, 0>>
OtherC == <<9, 9, 9>>

OpCmds == {"get", "query", "sub", "qsub", "create", "update", "insert", "delete"}
WriteCmds == {"create", "update", "insert", "delete"}
SubCmds == {"sub", "qsub"}
RepTypes == {"ok", "error", "done", "success", "upd", "new", "del", "warning"}

\* ---------------------------------------------------------------- queries
\* 1 "db:"  2 "db:a/"  3 "db:a/x"  4 "db:b"  5 "db:zz" (matches nothing)  6 "nodb:" (unregistered database)
\* 7 text that is not a query   8 "db:" with a where clause (any subset of the matching records)
QMatch(q) == CASE q = 1 -> {1, 2, 3, 4}
               [] q = 2 -> {1, 2}
               [] q = 3 -> {1}
               [] q = 4 -> {3}
               [] q = 6 -> {5}
               [] q = 8 -> {1, 2, 3, 4}
               [] OTHER -> {}
QWhere(q) == q = 8
QMayFail(q) == q \in {6, 7}      \* a subscription with this query may be refused with an error

\* ---------------------------------------------------------------- contents
Overlay(c, p) == [i \in 1..3 |-> IF p[i] = 0 THEN c[i] ELSE p[i]]
Mask(p, S) == [i \in 1..3 |-> IF i \in S THEN p[i] ELSE 0]
\* an insert that failed half way may have written any subset of its fields
Partials(c, p) == {Overlay(c, Mask(p, S)) : S \in SUBSET {i \in 1..3 : p[i] # 0}}

\* ---------------------------------------------------------------- state
ZeroK == [k \in Keys |-> 0]
NoOp == [cmd |-> "none", ph |-> "none", key |-> 0, q |-> 0, pf |-> "", c |-> NoC,
         canc |-> 0, cerr |-> 0, owed |-> ZeroK, got |-> ZeroK, base |-> ZeroK]
\* ph: "run" awaiting the terminal reply (qsub: the query phase) | "sub" subscription phase | "term" finished
\* seen: the contents a notification about this key may show; loose: it may show anything (the record is or was
\* something else than a JSON object with known content)
Rec(kind, c) == [k |-> kind, c |-> c, seen |-> IF kind = "json" THEN {c} ELSE {},
                 loose |-> kind \in {"opq", "unk", "bad"}]
AbsRec == Rec("abs", NoC)

\* store: sequence of five [k, c]; mode "seq" (one request at a time) or "burst" (concurrent)
InitState(mode, store) ==
    [mode |-> mode,
     st |-> [k \in Keys |-> LET r == store[k] IN
                IF mode = "burst" /\ r.k \notin {"hid", "bad"} THEN Rec("unk", NoC) ELSE Rec(r.k, r.c)],
     op |-> [i \in Ids |-> NoOp],
     cred |-> [i \in Ids |-> 0],      \* cancel requests that may still be answered with an error
     mal |-> [i \in Ids |-> 0],       \* malformed messages (by the id they carried) still to be answered
     wr |-> ZeroK]                    \* writes attempted so far, per key

Live(o) == o.ph \in {"run", "sub"}
SubLive(o) == o.cmd \in SubCmds /\ Live(o)
IsSeq(s) == s.mode = "seq"

\* ---------------------------------------------------------------- requests
\* r = [cmd, id, key, q, pf, c]; cmd in OpCmds or "cancel", "mal" (malformed message that carried id; 0 if it
\* carried none), "iw" / "iwok" (a write through an internal interface of the process, not an API message:
\* announced / carried out).
\* pf: payload of create/update: "J" JSON object with content c | "opq" anything else;
\*     payload of insert: "J" JSON object c (0 = field not mentioned) | "opq" anything else;
\*     iw: "J" | "opq" | "hid" (secret record) | "del".
Attempt(s, k, r) ==
    \* a write on key k is under way: subscriptions may be notified from now on; contents a notification may show
    LET old == s.st[k]
        cs == CASE r.cmd = "insert" /\ r.pf = "J" -> Partials(old.c, r.c)
                [] r.cmd \in {"create", "update", "iw"} /\ r.pf = "J" -> {r.c}
                [] OTHER -> {}
        ls == old.loose \/ (r.pf = "opq") \/ old.k \in {"opq", "unk", "bad"} \/ ~IsSeq(s)
        nk == IF IsSeq(s) \/ old.k = "hid" THEN old.k ELSE "unk"
    IN [s EXCEPT !.wr[k] = @ + 1,
                 !.st[k] = [old EXCEPT !.seen = @ \cup cs, !.loose = ls, !.k = nk]]

\* a write on key k has been carried out (sequential mode): live subscriptions owe one notification
Owe(s, k) ==
    [s EXCEPT !.op = [i \in Ids |->
        LET o == s.op[i] IN
        IF SubLive(o) /\ k \in QMatch(o.q) /\ ~QWhere(o.q) THEN [o EXCEPT !.owed[k] = @ + 1] ELSE o]]

Written(old, r) ==      \* the record `old` after a successful write r (sequential mode)
    LET nk == IF r.cmd = "delete" \/ r.pf = "del" THEN "abs"
              ELSE IF r.cmd = "insert" THEN (IF old.k = "json" /\ r.pf = "J" THEN "json" ELSE "opq")
              ELSE IF r.pf = "J" THEN "json"
              ELSE IF r.pf = "hid" THEN "hid"
              ELSE "opq"
        nc == IF nk # "json" THEN NoC
              ELSE IF r.cmd = "insert" THEN Overlay(old.c, r.c)
              ELSE r.c
    IN [old EXCEPT !.k = nk, !.c = nc, !.seen = IF nk = "json" THEN @ \cup {nc} ELSE @,
                   !.loose = @ \/ nk = "opq"]

Req(s, r) ==
    CASE r.cmd \in OpCmds ->
            LET o == [NoOp EXCEPT !.cmd = r.cmd, !.ph = IF r.cmd = "sub" THEN "sub" ELSE "run",
                                  !.key = r.key, !.q = r.q, !.pf = r.pf, !.c = r.c,
                                  !.base = IF IsSeq(s) THEN s.wr ELSE ZeroK,
                                  \* requests are handled concurrently: a cancel sent earlier and not yet
                                  \* answered may still hit this operation
                                  !.canc = s.cred[r.id]]
                t == [s EXCEPT !.op[r.id] = o]
            IN IF r.cmd \in WriteCmds THEN Attempt(t, r.key, r) ELSE t
      [] r.cmd = "cancel" ->
            [s EXCEPT !.cred[r.id] = @ + 1,
                      !.op[r.id] = IF Live(@) THEN [@ EXCEPT !.canc = @ + 1] ELSE @]
      [] r.cmd = "mal" -> [s EXCEPT !.mal[r.id] = @ + 1]
      [] r.cmd = "iw" -> IF r.pf = "hid" THEN s ELSE Attempt(s, r.key, r)      \* announced before it is carried out
      [] r.cmd = "iwok" ->                                                      \* ... and it went through
            IF ~IsSeq(s) THEN s
            ELSE LET t == [s EXCEPT !.st[r.key] = Written(@, r)] IN
                 IF r.pf = "hid" THEN t ELSE Owe(t, r.key)

\* ---------------------------------------------------------------- replies
\* m = [id, typ, key, c, meta]; key 0 = the reply carries no (known) key; meta = the data has a _meta section
\* that names the key

\* may the record of key k be shown with content m.c?
ShowOK(s, k, m) ==
    LET r == s.st[k] IN
    CASE r.k = "json" -> m.c = r.c /\ m.meta
      [] r.k \in {"opq", "unk"} -> TRUE
      [] OTHER -> FALSE                      \* abs, hid, bad

Term(s, i) == [s EXCEPT !.op[i].ph = "term"]

\* a query ends: `done` claims the iteration went through, so it is wrong over an unreadable record
DoneOK(s, o) == o.canc > 0 \/ \A k \in QMatch(o.q) : s.st[k].k # "bad"
WarnOK(s, o) == \E k \in QMatch(o.q) : s.st[k].k \in {"opq", "unk", "bad"}

QueryRep(s, i, o, m) ==
    CASE m.typ = "ok" -> IF m.key \in QMatch(o.q) /\ ShowOK(s, m.key, m) THEN {s} ELSE {}
      [] m.typ = "warning" -> IF WarnOK(s, o) THEN {s} ELSE {}
      [] m.typ = "error" -> {Term(s, i)}
      [] m.typ = "done" ->
            IF ~DoneOK(s, o) THEN {}
            ELSE IF o.cmd = "query" THEN {Term(s, i)}
            ELSE {[s EXCEPT !.op[i].ph = "sub"]} \cup (IF o.canc > 0 THEN {Term(s, i)} ELSE {})
      [] OTHER -> {}

Room(s, o, k) == o.got[k] < s.wr[k] - o.base[k]     \* a write that this notification can stem from

SubRep(s, i, o, m) ==
    CASE m.typ \in {"upd", "new"} ->
            LET k == m.key IN
            IF k \in QMatch(o.q) /\ s.st[k].k # "hid" /\ Room(s, o, k)
               /\ (s.st[k].loose \/ (m.c \in s.st[k].seen /\ m.meta))
            THEN {[s EXCEPT !.op[i].got[k] = @ + 1]} ELSE {}
      [] m.typ = "del" ->
            LET k == m.key IN
            IF k \in QMatch(o.q) /\ s.st[k].k # "hid" /\ Room(s, o, k)
            THEN {[s EXCEPT !.op[i].got[k] = @ + 1]} ELSE {}
      [] m.typ = "warning" ->      \* a change of a record that cannot be shown as JSON
            {[s EXCEPT !.op[i].got[k] = @ + 1] :
                k \in {x \in QMatch(o.q) : Room(s, o, x) /\ s.st[x].loose /\ s.st[x].k # "hid"}}
      [] m.typ = "done" ->
            IF o.canc > 0 /\ (IsSeq(s) => \A k \in Keys : o.got[k] >= o.owed[k]) THEN {Term(s, i)} ELSE {}
      [] m.typ = "error" -> IF QMayFail(o.q) THEN {Term(s, i)} ELSE {}
      [] OTHER -> {}

GetRep(s, i, o, m) ==
    LET r == s.st[o.key] IN
    CASE m.typ = "ok" -> IF m.key = o.key /\ ShowOK(s, o.key, m) THEN {Term(s, i)} ELSE {}
      [] m.typ = "error" -> IF r.k = "json" THEN {} ELSE {Term(s, i)}    \* a written record is read back
      [] OTHER -> {}

WriteRep(s, i, o, m) ==
    LET k == o.key
        old == s.st[k]
    IN
    CASE m.typ = "success" ->
            IF old.k = "hid" THEN {}
            ELSE IF IsSeq(s) THEN {Owe(Term([s EXCEPT !.st[k] = Written(old, o)], i), k)}
            ELSE {Term(s, i)}
      [] m.typ = "error" ->
            IF IsSeq(s) /\ o.cmd = "insert" /\ o.pf = "J" /\ old.k = "json"
            THEN {Term([s EXCEPT !.st[k].c = c], i) : c \in Partials(old.c, o.c)}
            ELSE {Term(s, i)}
      [] OTHER -> {}

OpRep(s, m) ==
    LET i == m.id
        o == s.op[i]
    IN CASE o.ph = "run" /\ o.cmd = "get" -> GetRep(s, i, o, m)
         [] o.ph = "run" /\ o.cmd \in {"query", "qsub"} -> QueryRep(s, i, o, m)
         [] o.ph = "run" /\ o.cmd \in WriteCmds -> WriteRep(s, i, o, m)
         [] o.ph = "sub" -> SubRep(s, i, o, m)
         [] OTHER -> {}

\* the error a cancel request may be answered with (unknown subscription, or the subscription not yet / no
\* longer registered): the cancel had no effect
CancelRep(s, m) ==
    LET i == m.id IN
    IF m.typ = "error" /\ s.cred[i] > 0
    THEN {[s EXCEPT !.cred[i] = @ - 1,
                    !.op[i] = IF Live(@) /\ @.canc > 0 THEN [@ EXCEPT !.cerr = @ + 1] ELSE @]}
    ELSE {}

\* the error reply to a malformed message carries the id of that message or the empty id
MalRep(s, m) ==
    IF m.typ # "error" THEN {}
    ELSE {[s EXCEPT !.mal[j] = @ - 1] : j \in {x \in Ids : s.mal[x] > 0 /\ (x = m.id \/ m.id = 0)}}

Rep(s, m) ==
    IF m.id \notin Ids \/ m.typ \notin RepTypes THEN {}
    ELSE OpRep(s, m) \cup CancelRep(s, m) \cup MalRep(s, m)

\* ---------------------------------------------------------------- end of the connection
OpSettled(o) ==
    CASE o.cmd = "get" \/ o.cmd \in WriteCmds -> o.ph = "term"
      [] o.cmd = "query" -> o.ph = "term" \/ o.canc > 0
      [] o.cmd \in SubCmds /\ o.ph = "run" -> o.canc > 0
      [] o.cmd \in SubCmds /\ o.ph = "sub" -> o.canc = 0 \/ o.cerr > 0
      [] OTHER -> TRUE
EndOK(s) == \A i \in Ids : OpSettled(s.op[i]) /\ s.mal[i] = 0

\* does reply m bring the connection closer to EndOK? (fairness of the server in DbApiGen)
Owing(s, i) == LET o == s.op[i] IN o.ph = "sub" /\ \E k \in Keys : o.got[k] < o.owed[k]
====
