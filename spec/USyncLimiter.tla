---- MODULE USyncLimiter ----
\* Implementation-shaped model of utils.CallLimiter (utils/call_limiter.go): one action per atomic
\* operation of Do and lead (two mutexes that are unlocked by other goroutines than the one that locked
\* them, an atomic waiter count, the time of the last execution, time.Sleep for the rest of the pause).
\* TLC checks the contract monitor USyncBundle (B1..B6) for every interleaving, that a mutex is never
\* unlocked while it is not locked (a fatal error in Go), that the limiter is idle when no call is in
\* progress and - with Pause = 0 - that no call can get stuck (deadlock check).
\*
\* Time: a discrete clock that may tick between any two steps (up to MaxT).
\* Variant "real" is the code; "noretake": the leader does not take inLock again before it releases the
\* waiters ("Stop newcomers from waiting on previous execution" removed); "nosleep": the pause is ignored.
\* The monitor must reject both (model sensitivity).
EXTENDS USyncBundle, Sequences

CONSTANTS NP, Calls, Variant, Panics, Pause, MaxT

VARIABLES pc, left, inL, outL, waiters, lastExec, clock, wake, pan, badUnlock, m
vars == <<pc, left, inL, outL, waiters, lastExec, clock, wake, pan, badUnlock, m>>

P == 1..NP

Init == /\ pc = [p \in P |-> "idle"]
        /\ left = [p \in P |-> Calls]
        /\ inL = FALSE /\ outL = FALSE /\ waiters = 0
        /\ lastExec = -1            \* the zero time: infinitely long ago
        /\ clock = 0
        /\ wake = [p \in P |-> 0]
        /\ pan = [p \in P |-> FALSE]
        /\ badUnlock = FALSE
        /\ m = BInit(NP, TRUE, Pause, 0)

Go(p, l) == pc' = [pc EXCEPT ![p] = l]

Call(p) == /\ pc[p] = "idle" /\ left[p] > 0
           /\ m' = BCall(m, p)
           /\ pan' = [pan EXCEPT ![p] = FALSE]
           /\ Go(p, "inlock")
           /\ UNCHANGED <<left, inL, outL, waiters, lastExec, clock, wake, badUnlock>>

\* l.inLock.Lock()
InLock(p) == /\ pc[p] = "inlock" /\ ~inL /\ inL' = TRUE /\ Go(p, "add")
             /\ UNCHANGED <<left, outL, waiters, lastExec, clock, wake, pan, badUnlock, m>>

\* if l.waiters.Add(1) == 1 { l.lead(f) } else { l.inLock.Unlock() }
Add(p) == /\ pc[p] = "add" /\ waiters' = waiters + 1
          /\ Go(p, IF waiters + 1 = 1 THEN "l_out" ELSE "f_unin")
          /\ UNCHANGED <<left, inL, outL, lastExec, clock, wake, pan, badUnlock, m>>

UnIn(p, from, to) == /\ pc[p] = from
                     /\ badUnlock' = (badUnlock \/ ~inL)
                     /\ inL' = FALSE /\ Go(p, to)
                     /\ UNCHANGED <<left, outL, waiters, lastExec, clock, wake, pan, m>>

UnOut(p, from, to) == /\ pc[p] = from
                      /\ badUnlock' = (badUnlock \/ ~outL)
                      /\ outL' = FALSE /\ Go(p, to)
                      /\ UNCHANGED <<left, inL, waiters, lastExec, clock, wake, pan, m>>

OutLock(p, from, to) == /\ pc[p] = from /\ ~outL /\ outL' = TRUE /\ Go(p, to)
                        /\ UNCHANGED <<left, inL, waiters, lastExec, clock, wake, pan, badUnlock, m>>

\* lead: sinceLastExec := time.Since(l.lastExec); if sinceLastExec < l.pause { time.Sleep(l.pause - sinceLastExec) }
LPause(p) == /\ pc[p] = "l_pause"
             /\ IF Variant # "nosleep" /\ Pause > 0 /\ lastExec >= 0 /\ clock - lastExec < Pause
                THEN wake' = [wake EXCEPT ![p] = clock + (Pause - (clock - lastExec))] /\ Go(p, "l_sleep")
                ELSE wake' = wake /\ Go(p, "fs")
             /\ UNCHANGED <<left, inL, outL, waiters, lastExec, clock, pan, badUnlock, m>>

LSleep(p) == /\ pc[p] = "l_sleep" /\ clock >= wake[p] /\ Go(p, "fs")
             /\ UNCHANGED <<left, inL, outL, waiters, lastExec, clock, wake, pan, badUnlock, m>>

Fs(p) == /\ pc[p] = "fs" /\ m' = BFs(m, p, clock) /\ Go(p, "fe")
         /\ UNCHANGED <<left, inL, outL, waiters, lastExec, clock, wake, pan, badUnlock>>

Fe(p) == /\ pc[p] = "fe"
         /\ \E b \in (IF Panics THEN BOOLEAN ELSE {FALSE}) :
               /\ m' = BFe(m, p, clock, b)
               /\ pan' = [pan EXCEPT ![p] = b]
         /\ Go(p, "l_last")
         /\ UNCHANGED <<left, inL, outL, waiters, lastExec, clock, wake, badUnlock>>

\* deferred in lead: l.lastExec = time.Now().UTC()
LLast(p) == /\ pc[p] = "l_last" /\ lastExec' = clock
            /\ Go(p, IF Variant = "noretake" THEN "l_unout" ELSE "l_in")
            /\ UNCHANGED <<left, inL, outL, waiters, clock, wake, pan, badUnlock, m>>

\* l.inLock.Lock()  -- "Stop newcomers from waiting on previous execution"
LIn(p) == /\ pc[p] = "l_in" /\ ~inL /\ inL' = TRUE /\ Go(p, "l_unout")
          /\ UNCHANGED <<left, outL, waiters, lastExec, clock, wake, pan, badUnlock, m>>

\* if l.waiters.Add(-1) == 0 { l.inLock.Unlock() }
Dec(p) == /\ pc[p] = "dec" /\ waiters' = waiters - 1
          /\ Go(p, IF waiters - 1 = 0 /\ Variant # "noretake" THEN "u_in" ELSE "retn")
          /\ UNCHANGED <<left, inL, outL, lastExec, clock, wake, pan, badUnlock, m>>

Ret(p) == /\ pc[p] = "retn"
          /\ m' = BRet(m, p, pan[p])
          /\ left' = [left EXCEPT ![p] = @ - 1]
          /\ Go(p, "idle")
          /\ UNCHANGED <<inL, outL, waiters, lastExec, clock, wake, pan, badUnlock>>

Tick == /\ Pause > 0 /\ clock < MaxT /\ clock' = clock + 1
        /\ UNCHANGED <<pc, left, inL, outL, waiters, lastExec, wake, pan, badUnlock, m>>

Terminated == /\ \A p \in P : pc[p] = "idle" /\ left[p] = 0
              /\ UNCHANGED vars

Step(p) == \/ Call(p) \/ InLock(p) \/ Add(p)
           \/ UnIn(p, "f_unin", "w_out")              \* follower: let others in
           \/ OutLock(p, "l_out", "l_unin")           \* lead: l.outLock.Lock()
           \/ UnIn(p, "l_unin", "l_pause")            \* lead: l.inLock.Unlock()
           \/ LPause(p) \/ LSleep(p) \/ Fs(p) \/ Fe(p) \/ LLast(p) \/ LIn(p)
           \/ UnOut(p, "l_unout", IF pan[p] THEN "dec" ELSE "w_out")   \* lead: l.outLock.Unlock(); a panic skips the wait
           \/ OutLock(p, "w_out", "w_unout")          \* Do: l.outLock.Lock()
           \/ UnOut(p, "w_unout", "dec")              \*     l.outLock.Unlock()
           \/ Dec(p)
           \/ UnIn(p, "u_in", "retn")
           \/ Ret(p)

Next == (\E p \in P : Step(p)) \/ Tick \/ Terminated

Spec == Init /\ [][Next]_vars

Contract == m.bad = ""
NoBadUnlock == ~badUnlock
Idle == (\A p \in P : pc[p] = "idle") => (~inL /\ ~outL /\ waiters = 0)
====
