---- MODULE Notif ----
\* portbase/notifications: the lifecycle of a Notification and the store a UI client sees (extension check X04).
\*
\* STATEMENT (derived from the package documentation, the doc comments of notification.go / database.go /
\* cleaner.go and the way the API is meant to be used; for every history of API calls, UI-side database
\* operations and cleaner passes):
\*
\*  N1 store     After Notify/Save of a notification that has a Title or a Message, Get(EventID) and the database key
\*               "notifications:all/<EventID>" yield exactly that notification; a notification without Title and
\*               Message is ignored.  There is never more than one notification per EventID: saving another one
\*               with the same EventID takes its place.  The database key is set on the first save and never changes.
\*  N2 states    State is never empty after a save and only moves Active -> Responded -> Executed ("state
\*               transitions can only happen from top to bottom").  A notification is Active iff no action was
\*               selected; Responded means selected but nobody was there to perform the action; Executed means the
\*               action function was started or a listener on Response() received the selection (or the UI
\*               reported the action as executed externally).
\*  N3 actions   A selection made by the UI (a put of SelectedActionID on the key) is applied only to an Active
\*               notification: the action function runs exactly once with that notification and that action id,
\*               every goroutine waiting on Response() receives exactly that id once; later selections never change
\*               SelectedActionID and never run the function again (at most once per notification).
\*  N4 delete    After Delete the notification is not in the store, the UI cannot read or query it, subscribers
\*               were sent the deleted record, and every goroutine waiting on Response() is released (channel
\*               closed).  Deleting one notification never makes another EventID's notification disappear, and a
\*               notification that was never saved can be deleted without any effect (and without a crash).
\*  N5 expiry    A notification whose Expires lies in the past is removed by the cleaner (as by deletion: gone from
\*               the store and from the UI, subscribers told, Expired() channel closed); a notification with
\*               Expires = 0 or in the future is never removed by the cleaner.  Update(expires) on an Active
\*               notification that was not modified during the last seconds stores the new expiry and re-sends it.
\*  N6 UI view   What the UI reads (Get, Query, Query with a condition on State, serialized record) is the current
\*               content of the stored notification; deleted notifications are not listed; every change of what a
\*               key shows is pushed to subscribers of that key.
\*  N7 GUID      Every saved notification has a non-empty GUID that never changes; two notification objects never
\*               share a GUID, even with the same EventID.
\*  N8 liveness  Every call returns (no deadlock, no panic) whatever the state of the notification is, including
\*               database operations of a UI client (get, query, put - also of unusable data -, insert, delete) and two
\*               clients selecting at the same time (then exactly one selection is applied).
\*  N9 helpers   NotifyInfo / NotifyWarn / NotifyPrompt / NotifyError create a notification of that type, with
\*               ShowOnSystem off / on / off / on, with the given actions or a single default action "ack"; without an
\*               id the EventID is derived from the message (same message, same EventID).  ShowOnSystem is forced to
\*               false on the first save while the option "Desktop Notifications" is off, and not touched afterwards.
\*
\* Left open (the model allows every outcome, see the sets below): whether the UI may delete notifications or create
\* them; the return value of a put that changes nothing; whether Update is throttled; whether deleting a handle that
\* was replaced in the store by a newer notification with the same EventID also removes the newer one; whether
\* Response() listeners are released when the cleaner or the UI removes a notification and whether Expired() fires on
\* an explicit Delete; anything done with a notification after it was deleted (except deleting it again) or while it
\* waits for the cleaner (`Legal`).
\*
\* State:  objs   sequence of notification objects (handles held by the application, index = order of creation)
\*         store  EventID -> index of the stored object, 0 = none
\*         sysok  value of the option "Desktop Notifications"
\* Not covered: the mirroring of module failure states (module-mirror.go).
\* `Step(s, o)` is the set of allowed outcomes [ret, must, may, s]: the return class of the call, the keys that must /
\* may have been pushed to subscribers during the call, and the state afterwards.
EXTENDS Integers, Sequences, FiniteSets, TLC

IDs == {"a", "b", "d"}     \* "d": no EventID given, the package derives one from the message
Sels == {"x", "y"}

NewObj(id, valid, exp, typ, sys, acts) ==
    [id |-> id, valid |-> valid, saved |-> FALSE, st |-> "", sel |-> "", exp |-> exp, del |-> FALSE,
     fn |-> FALSE, calls |-> <<>>, rl |-> <<>>, el |-> <<>>, typ |-> typ, sys |-> sys, acts |-> acts]
\* rl / el: one entry per goroutine waiting on Response() / Expired():
\*   "w" waiting, "c" released by a closed channel, "wc" either of the two, an element of Sels: received that id
\* typ: notification type (0 info, 1 warning, 2 prompt, 3 error), sys: ShowOnSystem, acts: ids of the available actions
InitState == [objs |-> <<>>, store |-> [i \in IDs |-> 0], sysok |-> TRUE]   \* sysok: option "Desktop Notifications"

Out(r, must, may, s) == [ret |-> r, must |-> must, may |-> may, s |-> s]
Range(f) == {f[i] : i \in DOMAIN f}

Visible(s, id) == s.store[id] # 0 /\ ~s.objs[s.store[id]].del
Rank(st) == CASE st = "" -> 0 [] st = "active" -> 1 [] st = "responded" -> 2 [] st = "executed" -> 3

CloseAll(l) == [i \in 1..Len(l) |-> IF l[i] \in {"w", "wc"} THEN "c" ELSE l[i]]
Loose(l) == [i \in 1..Len(l) |-> IF l[i] = "w" THEN "wc" ELSE l[i]]

SetExp(s, k, e) == [s EXCEPT !.objs[k].exp = e]

\* n.Save(): ignored without Title and Message, else stored under its EventID and pushed
SaveK(s, k) ==
    LET o == s.objs[k] IN
    IF ~o.valid THEN Out("ok", {}, {}, s)
    ELSE LET o2 == [o EXCEPT !.saved = TRUE, !.st = IF @ = "" THEN "active" ELSE @,
                             !.sys = IF o.saved THEN @ ELSE (@ /\ s.sysok)]      \* forced to false on the first save
         IN Out("ok", IF o.del THEN {} ELSE {o.id}, {o.id},
                [s EXCEPT !.objs[k] = o2, !.store[o.id] = k])

\* the user selected an action of an Active notification
Select(o, sel) ==
    LET waiting == {i \in 1..Len(o.rl) : o.rl[i] = "w"}
        executed == o.fn \/ waiting # {}
    IN [o EXCEPT !.st = IF executed THEN "executed" ELSE "responded",
                 !.sel = sel,
                 !.calls = IF o.fn THEN Append(@, sel) ELSE @,
                 !.rl = [i \in 1..Len(o.rl) |-> IF o.rl[i] = "w" THEN sel ELSE o.rl[i]]]

\* removal by the cleaner or through the database: as Delete, but the Response() listeners are not promised anything
Removed(o) == [o EXCEPT !.del = TRUE, !.el = CloseAll(@), !.rl = Loose(@)]

\* n.Delete()
DeleteK(s, k) ==
    LET o == s.objs[k] IN
    IF ~o.saved THEN {Out("ok", {}, {o.id}, [s EXCEPT !.objs[k].rl = CloseAll(@), !.objs[k].el = Loose(@)])}
    ELSE LET o2 == [o EXCEPT !.del = TRUE, !.rl = CloseAll(@), !.el = Loose(@)]
             wasvis == s.store[o.id] = k /\ ~o.del
         IN IF s.store[o.id] \in {k, 0}
            THEN {Out("ok", IF wasvis THEN {o.id} ELSE {}, {o.id}, [s EXCEPT !.objs[k] = o2, !.store[o.id] = 0])}
            ELSE \* a handle that was replaced in the store by a newer notification with the same EventID
                 {Out("ok", {}, {o.id}, [s EXCEPT !.objs[k] = o2]),
                  Out("ok", {o.id}, {o.id}, [s EXCEPT !.objs[k] = o2, !.store[o.id] = 0])}

\* the UI puts {EventID, SelectedActionID: sel, State: executed if ext} on the key of id
DbPut(s, id, sel, ext) ==
    LET j == s.store[id] IN
    IF ~Visible(s, id)
    THEN {Out("err", {}, {id}, s)} \cup
         {LET nb == [NewObj(id, TRUE, "never", 0, FALSE, <<>>) EXCEPT !.saved = TRUE, !.st = "active"]
          IN Out("ok", {id}, {id}, [s EXCEPT !.objs = Append(@, nb), !.store[id] = Len(s.objs) + 1])}
    ELSE LET ob == s.objs[j] IN
         IF ob.st = "executed" THEN {Out(r, {}, {id}, s) : r \in {"ok", "err"}}
         ELSE IF ext
         THEN {Out("ok", {id}, {id},
                   [s EXCEPT !.objs[j].st = "executed", !.objs[j].sel = IF sel # "" THEN sel ELSE @])}
         ELSE IF sel # "" /\ ob.st = "active"
         THEN {Out("ok", {id}, {id}, [s EXCEPT !.objs[j] = Select(ob, sel)])}
         ELSE {Out(r, {}, {id}, s) : r \in {"ok", "err"}}

Step(s, o) ==
  CASE o.op = "notify" ->     \* o.sel = "": Notify(&Notification{..., ShowOnSystem: true, two actions}), else the helper
                              \* NotifyInfo / NotifyWarn / NotifyPrompt / NotifyError with o.n actions
         LET k == Len(s.objs) + 1
             typ == CASE o.sel = "warn" -> 1 [] o.sel = "prompt" -> 2 [] o.sel = "error" -> 3 [] OTHER -> 0
             sys == o.sel \in {"", "warn", "error"}
             acts == IF o.sel # "" /\ o.n = 0 THEN <<"ack">> ELSE <<"x", "y">>
             s1 == [s EXCEPT !.objs = Append(@, NewObj(o.id, o.flag, o.exp, typ, sys, acts))]
         IN {SaveK(s1, k)}
    [] o.op = "cfgsys" -> {Out("ok", {}, {}, [s EXCEPT !.sysok = o.flag])}
    [] o.op = "save" -> {SaveK(s, o.k)}
    [] o.op = "saveexp" -> {SaveK(SetExp(s, o.k, o.exp), o.k)}
    [] o.op = "update" ->       \* o.flag: the last modification is older than the throttle interval
         LET ob == s.objs[o.k] IN
         IF ob.st # "active" THEN {Out("ok", {}, {ob.id}, s)}
         ELSE (IF o.flag THEN {} ELSE {Out("ok", {}, {ob.id}, s)}) \cup {SaveK(SetExp(s, o.k, o.exp), o.k)}
    [] o.op = "setfn" -> {Out("ok", {}, {}, [s EXCEPT !.objs[o.k].fn = TRUE])}
    [] o.op = "listen" -> {Out("ok", {}, {}, [s EXCEPT !.objs[o.k].rl = Append(@, "w")])}
    [] o.op = "waitexp" -> {Out("ok", {}, {}, [s EXCEPT !.objs[o.k].el = Append(@, "w")])}
    [] o.op = "delete" -> DeleteK(s, o.k)
    [] o.op = "deleteid" -> IF s.store[o.id] = 0 THEN {Out("ok", {}, {}, s)} ELSE DeleteK(s, s.store[o.id])
    \* ------------------------------------------------------------ the UI, through the database interface
    [] o.op = "dbput" -> DbPut(s, o.id, o.sel, o.flag)
    [] o.op = "dbputrace" ->    \* two UI clients select x and y at the same time: one of them comes first
         {Out(r, x.must, x.may, x.s) : r \in {"ok", "err"},
                                       x \in UNION {DbPut(s, o.id, c, FALSE) : c \in Sels}}
    [] o.op = "dbputbad" ->     \* a put the package cannot use: fields of the wrong type (o.flag = FALSE) or a key outside "all/"
         {Out(r, {}, {o.id}, s) : r \in {"ok", "err"}}
    [] o.op = "dbdelete" ->
         LET j == s.store[o.id] IN
         IF ~Visible(s, o.id) THEN {Out(r, {}, {o.id}, s) : r \in {"ok", "err"}}
         ELSE {Out("err", {}, {o.id}, s),
               Out("ok", {o.id}, {o.id}, [s EXCEPT !.objs[j] = Removed(@), !.store[o.id] = 0])}
    [] o.op = "dbinsert" ->     \* insert of {SelectedActionID: o.sel} into the record of the key: the field is written
                                \* into the stored notification itself, which is then put
         LET j == s.store[o.id] IN
         IF ~Visible(s, o.id) THEN {Out(r, {}, {o.id}, s) : r \in {"ok", "err"}}
         ELSE LET ob == s.objs[j] IN
              IF ob.st = "active"
              THEN {Out("err", {}, {o.id}, s), Out("ok", {o.id}, {o.id}, [s EXCEPT !.objs[j] = Select(ob, o.sel)])}
              ELSE \* no longer active: whether the field is overwritten is left open, nothing else changes
                   {Out(r, {}, {o.id}, s2) : r \in {"ok", "err"}, s2 \in {s, [s EXCEPT !.objs[j].sel = o.sel]}}

\* ---------------------------------------------------------------- the cleaner
Cleanable(s) == {k \in 1..Len(s.objs) : s.store[s.objs[k].id] = k /\ s.objs[k].exp = "past" /\ ~s.objs[k].del}
IdsOf(s, K) == {s.objs[k].id : k \in K}
CleanSet(s, K) == [s EXCEPT !.objs = [k \in 1..Len(s.objs) |-> IF k \in K THEN Removed(s.objs[k]) ELSE s.objs[k]],
                            !.store = [i \in IDs |-> IF s.store[i] \in K THEN 0 ELSE s.store[i]]]
PastIds(s) == {s.objs[k].id : k \in {j \in 1..Len(s.objs) : s.objs[j].exp = "past"}}

\* time passes beyond the expiry of the notifications o.ks and the cleaner completes a pass
Tick(s, o) ==
    LET s1 == [s EXCEPT !.objs = [k \in 1..Len(s.objs) |-> IF k \in Range(o.ks) THEN [s.objs[k] EXCEPT !.exp = "past"] ELSE s.objs[k]]]
        K == Cleanable(s1)
    IN {Out("ok", IdsOf(s1, K), IdsOf(s1, K), CleanSet(s1, K))}

\* an operation with the cleaner running in the background: it may collect expired notifications before and after
FullStep(s, o, bg) ==
    IF o.op = "tick" THEN Tick(s, o)
    ELSE IF ~bg THEN Step(s, o)
    ELSE UNION { UNION { { Out(x.ret, x.must, x.may \cup IdsOf(s, K1) \cup IdsOf(x.s, K2), CleanSet(x.s, K2))
                           : K2 \in SUBSET Cleanable(x.s) }
                         : x \in Step(CleanSet(s, K1), o) }
                 : K1 \in SUBSET Cleanable(s) }

\* ---------------------------------------------------------------- what histories are judged (assumptions)
Live(s, k) == k \in 1..Len(s.objs) /\ ~s.objs[k].del /\ s.objs[k].exp # "past"
IdFree(s, id) == s.store[id] = 0 \/ Live(s, s.store[id])
Legal(s, o) ==
  CASE o.op = "notify" -> IdFree(s, o.id) /\ (o.sel # "" => o.exp = "never") /\ (o.id = "d" => o.flag)
    [] o.op = "cfgsys" -> TRUE
    [] o.op = "dbputrace" -> IdFree(s, o.id) /\ Visible(s, o.id)
    [] o.op \in {"save", "saveexp", "update", "setfn", "listen", "waitexp"} ->
           Live(s, o.k) /\ IdFree(s, s.objs[o.k].id)
    [] o.op = "delete" -> o.k \in 1..Len(s.objs) /\ s.objs[o.k].exp # "past" /\ IdFree(s, s.objs[o.k].id)
    [] o.op \in {"deleteid", "dbdelete", "dbinsert", "dbputbad"} -> IdFree(s, o.id)
    [] o.op = "dbput" -> IdFree(s, o.id) /\ (Visible(s, o.id) \/ (o.sel = "" /\ ~o.flag /\ o.id # "d"))
    [] o.op = "tick" -> \A k \in Range(o.ks) : Live(s, k) /\ s.objs[k].exp = "future"
    [] OTHER -> FALSE

\* ---------------------------------------------------------------- laws of the model (checked by TLC on NotifGen)
ObjOK(o) ==
    /\ o.st = "active" => o.sel = ""
    /\ o.st = "responded" => o.sel # ""
    /\ o.st = "" <=> ~o.saved
    /\ Len(o.calls) <= 1
    /\ o.calls # <<>> => o.st = "executed"
    /\ (\E i \in 1..Len(o.rl) : o.rl[i] \in Sels) => o.st = "executed"
StateOK(s) ==
    /\ \A k \in 1..Len(s.objs) : ObjOK(s.objs[k])
    /\ \A i \in IDs : s.store[i] # 0 => (s.store[i] \in 1..Len(s.objs) /\ s.objs[s.store[i]].id = i /\ s.objs[s.store[i]].saved)
\* every outcome of every step: states only move down, an executed action stays what it was, objects are not lost,
\* other EventIDs are left alone, what must be pushed may be pushed
StepOK(s, o, bg) ==
    \A x \in FullStep(s, o, bg) :
        /\ Len(x.s.objs) >= Len(s.objs)
        /\ x.must \subseteq x.may
        /\ \A k \in 1..Len(s.objs) :
              LET a == s.objs[k] b == x.s.objs[k] IN
              /\ Rank(b.st) >= Rank(a.st)
              /\ (a.sel # "" /\ ~(o.op = "dbput" /\ o.flag) /\ o.op # "dbinsert") => b.sel = a.sel
              /\ b.typ = a.typ /\ b.acts = a.acts /\ (a.saved => b.sys = a.sys)
              /\ a.st = "executed" => ((o.op # "dbinsert" => b.sel = a.sel) /\ b.calls = a.calls /\ b.st = "executed")
              /\ Len(b.calls) >= Len(a.calls)
              \* the action function runs, and a listener is answered, only when an Active notification gets its
              \* selection, and with that selection; what a listener was told stays
              /\ Len(b.calls) > Len(a.calls) => (a.st = "active" /\ b.calls = Append(a.calls, b.sel) /\ b.sel # "")
              /\ Len(b.rl) >= Len(a.rl)
              /\ \A i \in 1..Len(a.rl) :
                    /\ (a.rl[i] \notin Sels /\ b.rl[i] \in Sels) => (a.st = "active" /\ b.rl[i] = b.sel)
                    /\ a.rl[i] \in Sels \cup {"c"} => b.rl[i] = a.rl[i]
              /\ a.del => b.del
              /\ b.id = a.id
        /\ (o.op \notin {"tick", "cfgsys"} /\ ~bg) =>
              \A i \in IDs : (i # (IF o.op \in {"notify", "deleteid", "dbput", "dbputrace", "dbputbad", "dbdelete", "dbinsert"} THEN o.id ELSE s.objs[o.k].id))
                                => x.s.store[i] = s.store[i]
====
