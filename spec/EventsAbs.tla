---- MODULE EventsAbs ----
\* X01 (extension check) - the module event bus of portbase/modules (events.go):
\* RegisterEvent, RegisterEventHook, TriggerEvent, InjectEvent, SetEventSubscriptionFunc.
\*
\* STATEMENT (derived from the doc comments of events.go, the code and C05's wording; the model
\* allows every outcome wherever these sources are silent):
\*
\*  E1 no phantom, at most once.  A hook function is called only for a pair (trigger call, hook
\*     registration) of the same event (TriggerEvent on the owning module, or InjectEvent aimed at
\*     it), at most once per pair, and it receives exactly the data value given to that call.
\*  E2 delivery.  If the triggering module and the hooking module are "online soon" when the event
\*     is triggered (not stopped; under module management: enabled, or needed as a dependency of an
\*     enabled module) and neither is stopped afterwards, every hook registered before the call is
\*     executed exactly once, as soon as both modules are online - also while a management pass
\*     (ManageModules) that leaves both modules running is in progress - and in particular:
\*  E3 delayed delivery ("Whenever a hook is triggered and the receiving module has not yet fully
\*     started, hook execution will be delayed until the modules completed starting").  An event
\*     triggered while the source or the hooking module is still prepared/offline or starting is
\*     NOT lost: the hook runs once the start completed, and NEVER before the hooking module's
\*     start routine has returned.
\*  E4 isolation.  TriggerEvent/InjectEvent return without waiting for hooks; a hook that blocks,
\*     fails or panics does not keep other hooks of the same trigger, or hooks of later triggers,
\*     from running.
\*  E5 unknown names.  Triggering an event that is not registered runs nothing; InjectEvent returns
\*     an error for an unknown module/event, before Start() and when the injecting module is not
\*     online soon, and nil otherwise; RegisterEventHook returns an error for an unknown module or
\*     event (and registers nothing) and nil otherwise.  Registering an event twice keeps the first.
\*  E6 stopped modules (C05: "events triggered on a stopped module are not executed").  An event
\*     triggered on a module whose stop has completed (or that was never started and is disabled
\*     under module management) runs no hook; a hook of a module that is in that condition from the
\*     trigger until the end is not run, the other hooks are.  (A module that is disabled but still
\*     running: silent.)
\*  E7 subscription.  SetEventSubscriptionFunc's function is called exactly once per accepted
\*     trigger of a registered event with (owning module, event name, internal = not exposed, data)
\*     - for InjectEvent with the target's names - and never for unknown events or rejected calls.
\*  E8 a hook that must run gets the live (not cancelled) context of its module.
\*  Not claimed (silent): the order of hook executions for successive triggers (every hook call is
\*  its own goroutine), whether a hook registered after the call sees that event, everything that
\*  races with a stop/disable in progress, waiting for the *source* module's start.
\*
\* This module is the property-level monitor: `Apply(ab, ev)` = set of successor monitor states for
\* one observed event (empty = the observation is not allowed).  It is used by Events.tla (TLC checks
\* that the implementation-shaped model of events.go never produces a rejected observation) and by
\* EventsTrace.tla (validation of what the real code did).
EXTENDS Integers, Sequences, FiniteSets, TLC

AbsInit0 == [mgmt |-> FALSE, subscribed |-> FALSE, mods |-> {}, phase |-> <<>>, ever |-> <<>>, en |-> <<>>,
             dep |-> <<>>,     \* module -> set of modules it depends on
             den |-> <<>>,     \* module -> enabled as a dependency (as computed by the last Start/ManageModules call)
             chg |-> {},       \* modules whose dependency flag is being changed by the running call
             locked |-> FALSE, call |-> "none",
             evs |-> <<>>,     \* <<module, event>> -> [internal]
             hooks |-> <<>>,   \* hook id -> [h, key]
             trigs |-> <<>>,   \* trigger id -> [key, src, data, sub, subn, inj, exp]
             obl |-> <<>>]     \* <<trigger id, hook id>> -> [st, n, ended]

ToSet(s) == {s[i] : i \in 1..Len(s)}

\* phases of a module as far as the observer can know them
\*   fresh     never started, no start requested        prestart  a start pass that will start it is running
\*   starting  inside its start routine                 maybe     start routine returned, pass still running
\*   online    the pass that started it has returned    stopping  a pass that stops it is running
\*   stopped   that pass has returned                   unknown   anything else
OS(ab, m) == IF m \in ab.chg THEN "U" ELSE
             IF ab.mgmt /\ ~ab.en[m] /\ ~ab.den[m]
             THEN \* disabled: certainly not "online soon" when it is not running either; silent while it still runs
                  IF ab.phase[m] \in {"fresh", "stopped"} THEN "F" ELSE "U"
             ELSE CASE ab.phase[m] \in {"fresh", "starting", "maybe", "online"} -> "T"
                    [] ab.phase[m] = "prestart" -> IF ab.ever[m] THEN "U" ELSE "T"
                    [] ab.phase[m] = "stopped" -> "F"
                    [] OTHER -> "U"

\* a change of what is known about a module makes open obligations that involve it optional
Degrade(old, new) ==
    LET ch == {m \in new.mods : OS(old, m) # OS(new, m)} IN
    IF ch = {} THEN new ELSE
    [new EXCEPT !.obl = [p \in DOMAIN new.obl |->
        LET o == new.obl[p] IN
        IF o.n = 0 /\ o.st \in {"must", "not"} /\ (new.trigs[p[1]].src \in ch \/ new.hooks[p[2]].h \in ch)
        THEN [o EXCEPT !.st = "may"] ELSE o]]

AInit(mgmt, mods, deps, subscribed) ==
    {[AbsInit0 EXCEPT !.mgmt = mgmt, !.subscribed = subscribed, !.mods = ToSet(mods),
                      !.dep = [m \in ToSet(mods) |-> ToSet(deps[CHOOSE i \in 1..Len(mods) : mods[i] = m])],
                      !.den = [m \in ToSet(mods) |-> FALSE],
                      !.phase = [m \in ToSet(mods) |-> "fresh"],
                      !.ever = [m \in ToSet(mods) |-> FALSE],
                      !.en = [m \in ToSet(mods) |-> FALSE]]}

SetEnabled(ab, m, v) ==
    IF m \notin ab.mods \/ ~ab.mgmt \/ ab.call # "none" THEN {} ELSE
    {Degrade(ab, [ab EXCEPT !.en[m] = v])}

\* a lifecycle pass is invoked (the event is written before the call; the driver goes on only after it
\* has seen that Start() locked the module system)
RECURSIVE AClo(_, _)
AClo(ab, S) == LET T == S \cup UNION {ab.dep[m] : m \in S} IN IF T = S THEN S ELSE AClo(ab, T)
Call(ab, kind) ==
    IF ab.call # "none" THEN {} ELSE
    LET \* Start and ManageModules recompute which modules are enabled as a dependency of an enabled module
        needed == AClo(ab, UNION {ab.dep[m] : m \in {x \in ab.mods : ab.en[x]}})
        den == IF ab.mgmt /\ kind \in {"start", "manage"} THEN [m \in ab.mods |-> m \in needed] ELSE ab.den
        wanted(m) == ~ab.mgmt \/ ab.en[m] \/ den[m]
        ph(m) == CASE kind = "start" /\ wanted(m) /\ ab.phase[m] = "fresh" -> "prestart"
                   [] kind = "manage" /\ wanted(m) /\ ab.phase[m] \in {"fresh", "stopped"} -> "prestart"
                   [] kind = "manage" /\ ~wanted(m) /\ ab.phase[m] = "online" -> "stopping"
                   [] kind = "shutdown" /\ ab.phase[m] = "online" -> "stopping"
                   [] OTHER -> ab.phase[m]
        n == [ab EXCEPT !.call = kind, !.locked = TRUE, !.phase = [m \in ab.mods |-> ph(m)],
                        !.den = den, !.chg = {m \in ab.mods : den[m] # ab.den[m]},
                        !.ever = [m \in ab.mods |-> ab.ever[m] \/ ph(m) = "stopping"]]
    IN {Degrade(ab, n)}

SfBegin(ab, m) == IF m \notin ab.mods THEN {} ELSE {Degrade(ab, [ab EXCEPT !.phase[m] = "starting"])}
SfEnd(ab, m) == IF m \notin ab.mods \/ ab.phase[m] # "starting" THEN {} ELSE {Degrade(ab, [ab EXCEPT !.phase[m] = "maybe"])}

Ret(ab, kind) ==
    IF ab.call # kind THEN {} ELSE
    LET ph(m) == CASE ab.phase[m] = "maybe" -> "online"
                   [] ab.phase[m] = "stopping" -> "stopped"
                   [] ab.phase[m] \in {"prestart", "starting"} -> "unknown"
                   [] OTHER -> ab.phase[m]
    IN {Degrade(ab, [ab EXCEPT !.call = "none", !.chg = {}, !.phase = [m \in ab.mods |-> ph(m)]])}

RegEvent(ab, m, ev, expose) ==
    IF m \notin ab.mods THEN {} ELSE
    IF <<m, ev>> \in DOMAIN ab.evs THEN {ab}
    ELSE {[ab EXCEPT !.evs = ab.evs @@ (<<m, ev>> :> [internal |-> ~expose])]}

\* RegisterEventHook returned (ok = no error).  A trigger that is still being processed may or may
\* not see the new hook.
RegHook(ab, k, h, m, ev, ok) ==
    IF h \notin ab.mods \/ k \in DOMAIN ab.hooks THEN {} ELSE
    IF ok # (m \in ab.mods /\ <<m, ev>> \in DOMAIN ab.evs) THEN {} ELSE
    IF ~ok THEN {ab} ELSE
    LET past == {t \in DOMAIN ab.trigs : ab.trigs[t].key = <<m, ev>> /\ ab.trigs[t].exp # "F"} IN
    {[ab EXCEPT !.hooks = ab.hooks @@ (k :> [h |-> h, key |-> <<m, ev>>]),
                !.obl = ab.obl @@ [p \in {<<t, k>> : t \in past} |-> [st |-> "may", n |-> 0, ended |-> FALSE]]]}

HooksOf(ab, key) == {k \in DOMAIN ab.hooks : ab.hooks[k].key = key}

NewObl(ab, src, h) ==
    LET s == OS(ab, src)  d == OS(ab, h) IN
    IF s = "F" THEN "never" ELSE IF d = "F" THEN "not" ELSE IF s = "T" /\ d = "T" THEN "must" ELSE "may"

\* TriggerEvent is about to be called on module m (the event is written before the call)
Trig(ab, t, m, ev, data) ==
    IF m \notin ab.mods \/ t \in DOMAIN ab.trigs THEN {} ELSE
    LET key == <<m, ev>>
        known == key \in DOMAIN ab.evs
        os == OS(ab, m)
        tr == [key |-> key, src |-> m, data |-> data, inj |-> FALSE, exp |-> os,
               sub |-> IF known THEN os ELSE IF os = "F" THEN "F" ELSE "U", subn |-> 0]
        hs == IF known THEN HooksOf(ab, key) ELSE {}
    IN {[ab EXCEPT !.trigs = ab.trigs @@ (t :> tr),
                   !.obl = ab.obl @@ [p \in {<<t, k>> : k \in hs} |-> [st |-> NewObl(ab, m, ab.hooks[p[2]].h), n |-> 0, ended |-> FALSE]]]}

\* the call returned; blocked = it had not returned within the driver's (generous) limit
TrigRet(ab, t, blocked) == IF t \notin DOMAIN ab.trigs \/ blocked THEN {} ELSE {ab}

\* j.InjectEvent(_, m, ev, data) is about to be called
Inject(ab, t, j, m, ev, data) ==
    IF j \notin ab.mods \/ t \in DOMAIN ab.trigs THEN {} ELSE
    LET key == <<m, ev>>
        known == ab.locked /\ m \in ab.mods /\ key \in DOMAIN ab.evs
        os == IF known THEN OS(ab, j) ELSE "F"
        tr == [key |-> key, src |-> j, data |-> data, inj |-> TRUE, exp |-> os, sub |-> os, subn |-> 0]
        hs == IF known THEN HooksOf(ab, key) ELSE {}
    IN {[ab EXCEPT !.trigs = ab.trigs @@ (t :> tr),
                   !.obl = ab.obl @@ [p \in {<<t, k>> : k \in hs} |-> [st |-> NewObl(ab, j, ab.hooks[p[2]].h), n |-> 0, ended |-> FALSE]]]}

InjectRet(ab, t, ok, blocked) ==
    IF t \notin DOMAIN ab.trigs \/ blocked THEN {} ELSE
    LET e == ab.trigs[t].exp IN
    IF (e = "T" /\ ~ok) \/ (e = "F" /\ ok) THEN {} ELSE
    IF ok THEN {ab} ELSE
    \* rejected: nothing was started
    {[ab EXCEPT !.trigs[t].exp = "F", !.trigs[t].sub = "F",
                !.obl = [p \in DOMAIN ab.obl |-> IF p[1] = t THEN [ab.obl[p] EXCEPT !.st = "never"] ELSE ab.obl[p]]]}

\* a hook function was entered
HBegin(ab, t, k, data, ctxdone) ==
    IF <<t, k>> \notin DOMAIN ab.obl THEN {} ELSE
    LET o == ab.obl[<<t, k>>]
        h == ab.hooks[k].h IN
    IF /\ o.n = 0 /\ o.st \in {"must", "may"}
       /\ data = ab.trigs[t].data
       /\ ~(ab.phase[h] \in {"fresh", "prestart", "starting"} /\ (~ab.ever[h] \/ o.st = "must"))
       /\ (o.st = "must" => ~ctxdone)
    THEN {[ab EXCEPT !.obl[<<t, k>>].n = 1]} ELSE {}

HEnd(ab, t, k) ==
    IF <<t, k>> \notin DOMAIN ab.obl THEN {} ELSE
    IF ab.obl[<<t, k>>].n = 1 /\ ~ab.obl[<<t, k>>].ended THEN {[ab EXCEPT !.obl[<<t, k>>].ended = TRUE]} ELSE {}

\* the subscription function was called
Sub(ab, t, m, ev, internal, data) ==
    IF t \notin DOMAIN ab.trigs \/ ~ab.subscribed THEN {} ELSE
    LET tr == ab.trigs[t] IN
    IF /\ tr.sub # "F" /\ tr.subn = 0 /\ tr.key = <<m, ev>> /\ tr.data = data
       /\ (tr.key \in DOMAIN ab.evs => ab.evs[tr.key].internal = internal)
    THEN {[ab EXCEPT !.trigs[t].subn = 1]} ELSE {}

\* the system is quiet (nothing has happened for a while): what had to happen has happened
Settled(ab) ==
    /\ \A p \in DOMAIN ab.obl :
          (ab.obl[p].st = "must" /\ ab.obl[p].n = 0) =>
              ~(ab.phase[ab.trigs[p[1]].src] = "online" /\ ab.phase[ab.hooks[p[2]].h] = "online")
    /\ ab.subscribed => \A t \in DOMAIN ab.trigs : ab.trigs[t].sub = "T" => ab.trigs[t].subn = 1
Sync(ab) == IF Settled(ab) THEN {ab} ELSE {}

\* dispatcher over observed events (records; only the fields of the event kind are read)
Apply(ab, ev) ==
    CASE ev.e = "init"     -> AInit(ev.mgmt, ev.mods, ev.deps, ev.sub)
      [] ev.e = "enable"   -> SetEnabled(ab, ev.m, TRUE)
      [] ev.e = "disable"  -> SetEnabled(ab, ev.m, FALSE)
      [] ev.e = "call"     -> Call(ab, ev.kind)
      [] ev.e = "sfbegin"  -> SfBegin(ab, ev.m)
      [] ev.e = "sfend"    -> SfEnd(ab, ev.m)
      [] ev.e = "ret"      -> Ret(ab, ev.kind)
      [] ev.e = "regev"    -> RegEvent(ab, ev.m, ev.ev, ev.expose)
      [] ev.e = "reghook"  -> RegHook(ab, ev.k, ev.hm, ev.m, ev.ev, ev.ok)
      [] ev.e = "trig"     -> Trig(ab, ev.t, ev.m, ev.ev, ev.data)
      [] ev.e = "trigret"  -> TrigRet(ab, ev.t, ev.blocked)
      [] ev.e = "inject"   -> Inject(ab, ev.t, ev.j, ev.m, ev.ev, ev.data)
      [] ev.e = "injret"   -> InjectRet(ab, ev.t, ev.ok, ev.blocked)
      [] ev.e = "hbegin"   -> HBegin(ab, ev.t, ev.k, ev.data, ev.ctxdone)
      [] ev.e = "hend"     -> HEnd(ab, ev.t, ev.k)
      [] ev.e = "sub"      -> Sub(ab, ev.t, ev.m, ev.ev, ev.internal, ev.data)
      [] ev.e = "sync"     -> Sync(ab)
      [] ev.e = "note"     -> {ab}
      [] OTHER             -> {}
====
