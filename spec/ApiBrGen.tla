---- MODULE ApiBrGen ----
\* Extension check X10: (a) breadth-first model checking of the laws of spec/ApiBr.tla on every reachable
\* state (dev mode x sessions x subscriptions; Emit = FALSE), (b) generation of call histories for the
\* driver harness/cmd/apibr (Emit = TRUE, -simulate).
EXTENDS ApiBr, Json

CONSTANTS MaxLen,    \* operations per emitted history
          Emit       \* print finished histories as JSON

VARIABLES st, hist, done
vars == <<st, hist, done>>

Init == st = Empty /\ hist = <<>> /\ done = FALSE

\* the dummy parameter keeps TLC from caching a draw
Rnd(S, n) == RandomElement(S)
Bag(b, n) == b[Rnd(1..Len(b), n)]

NullOp == [op |-> "", on |-> FALSE, s |-> "", slot |-> 0, perm |-> 0, ch |-> "", ep |-> "", kf |-> "",
           m |-> "", data |-> "none", query |-> "none", mime |-> "none", pf |-> "none", cred |-> "none", hm |-> ""]

EpBag == <<"ping", "endpoints", "cfgopts", "authperm", "authperm", "bearer", "basic", "reset", "reset", "modstatus",
           "trigger", "trigger", "triggerbad", "echoA", "echoA", "echoA", "echoA", "echoU", "echoD", "echoS", "echoS",
           "dyn", "dyn", "ronly", "wonly", "empty", "empty", "fail", "fail", "conflict", "struct", "none">>
PutMethods == <<"", "", "", "", "GET", "GET", "POST", "POST", "PUT", "DELETE", "HEAD", "OPTIONS", "PATCH", "get", "bad", "bad">>
HttpMethods == <<"GET", "GET", "GET", "POST", "POST", "PUT", "DELETE", "HEAD", "OPTIONS", "PATCH", "get">>
CredBag == <<"none", "none", "user", "admin", "admin", "self", "s1", "s1", "s2">>

RndCall(n) ==
    LET ch == Bag(<<"get", "get", "put", "put", "put", "put", "put", "putw", "putw", "http", "http", "http", "putother", "putwbad">>, n)
        ep == Bag(EpBag, n + 1)
        kf == IF ch = "http" THEN Bag(<<"plain", "plain", "plain", "qkey">>, n + 2)
              ELSE Bag(<<"plain", "plain", "plain", "plain", "plain", "plain", "dotdot", "qkey", "escape", "empty", "weird">>, n + 2)
        m == IF ch = "get" THEN "GET" ELSE IF ch = "http" THEN Bag(HttpMethods, n + 3) ELSE Bag(PutMethods, n + 3)
        data == IF ch = "get" THEN "none"
                ELSE IF ch = "http" THEN (IF m \in {"POST", "PUT"} THEN Bag(<<"some", "some", "none">>, n + 4) ELSE "none")
                ELSE Bag(<<"none", "some", "some">>, n + 4)
        query == IF kf = "qkey" \/ ch = "get" THEN "none" ELSE Bag(<<"none", "none", "one", "two">>, n + 5)
        mime == IF ch = "get" THEN "none" ELSE Bag(<<"none", "json">>, n + 6)
        pf == IF ch \in {"put", "putw"} THEN Bag(<<"none", "same", "other", "other">>, n + 7) ELSE "none"
        cred == IF ch = "http" THEN Bag(CredBag, n + 8) ELSE "none"
    IN [NullOp EXCEPT !.op = "call", !.ch = ch, !.ep = ep, !.kf = kf, !.m = m, !.data = data, !.query = query,
                      !.mime = mime, !.pf = pf, !.cred = cred]

RndPair(n) ==
    LET ch == Bag(<<"get", "put", "put", "putw">>, n)
        ep == Bag(EpBag, n + 1)
        kf == Bag(<<"plain", "plain", "plain", "qkey", "dotdot">>, n + 2)
        m == IF ch = "get" THEN "GET" ELSE Bag(<<"", "", "", "GET", "POST", "PUT", "DELETE", "HEAD", "OPTIONS", "get">>, n + 3)
        data == IF ch = "get" THEN "none" ELSE Bag(<<"none", "some", "some">>, n + 4)
        query == IF kf = "qkey" \/ ch = "get" THEN "none" ELSE Bag(<<"none", "none", "one", "two">>, n + 5)
        mime == IF ch = "get" THEN "none" ELSE Bag(<<"none", "json">>, n + 6)
        cred == Bag(<<"admin", "admin", "admin", "admin", "none", "user", "self", "s1">>, n + 8)
    IN [NullOp EXCEPT !.op = "pair", !.ch = ch, !.ep = ep, !.kf = kf, !.m = m, !.data = data, !.query = query,
                      !.mime = mime, !.cred = cred, !.hm = IF ch = "get" THEN "GET" ELSE EffM(m, data)]

RndOp(s, n) ==
    LET f == Bag(<<"call", "call", "call", "call", "call", "call", "call", "call", "pair", "pair", "pair", "pair",
                   "dev", "sub", "sub", "unsub", "login", "login", "reset", "probe", "probe">>, n)
        live == {k \in 1..2 : s.sess[k] > 0}
        slot == IF live # {} /\ Rnd(1..5, n + 5) < 5 THEN Rnd(live, n + 6) ELSE Rnd(1..2, n + 7)
        ck == IF slot = 1 THEN "s1" ELSE "s2" IN
    CASE f = "call"  -> RndCall(n + 100)
      [] f = "pair"  -> RndPair(n + 200)
      [] f = "dev"   -> [NullOp EXCEPT !.op = "dev", !.on = ~s.dev]
      [] f = "sub"   -> [NullOp EXCEPT !.op = "sub", !.s = Bag(<<"all", "one">>, n + 1)]
      [] f = "unsub" -> [NullOp EXCEPT !.op = "unsub", !.s = Bag(<<"all", "one">>, n + 2)]
      [] f = "login" -> [NullOp EXCEPT !.op = "login", !.slot = Rnd(1..2, n + 3), !.perm = Rnd(2..4, n + 4)]
      \* the session flow of auth/reset: delete the session behind a cookie, look at what a cookie is still worth
      [] f = "reset" -> [NullOp EXCEPT !.op = "call", !.ch = "http", !.ep = "reset", !.kf = "plain",
                                        !.m = Bag(<<"GET", "GET", "HEAD", "POST">>, n + 8), !.cred = ck]
      [] f = "probe" -> [NullOp EXCEPT !.op = "call", !.ch = "http", !.kf = "plain", !.m = "GET", !.cred = ck,
                                        !.ep = Bag(<<"authperm", "authperm", "bearer", "basic", "echoU", "echoD", "echoS", "dyn", "modstatus">>, n + 9)]

\* ---------------------------------------------------------------- breadth-first search
BfsOps == {[NullOp EXCEPT !.op = "dev", !.on = b] : b \in BOOLEAN}
          \cup {[NullOp EXCEPT !.op = o, !.s = x] : o \in {"sub", "unsub"}, x \in {"all", "one"}}
          \cup {[NullOp EXCEPT !.op = "login", !.slot = k, !.perm = p] : k \in 1..2, p \in 2..4}
          \cup {[NullOp EXCEPT !.op = "call", !.ch = "http", !.ep = ep, !.kf = "plain", !.m = m, !.cred = c]
                : ep \in EpsAndNone, m \in Methods \ {"", "bad"}, c \in Creds}

DoOp == /\ Emit /\ ~done /\ Len(hist) < MaxLen
        /\ \E o \in {RndOp(st, 0)} :
              /\ st' = After(st, o)
              /\ hist' = Append(hist, o)
        /\ UNCHANGED done

DoOpAll == /\ ~Emit
           /\ \E o \in BfsOps : st' = After(st, o)
           /\ UNCHANGED <<hist, done>>

Finish == /\ Emit /\ Len(hist) = MaxLen /\ ~done
          /\ done' = TRUE
          /\ PrintT(<<"@@", ToJson([steps |-> hist])>>)
          /\ UNCHANGED <<st, hist>>

Next == DoOp \/ DoOpAll \/ Finish
Spec == Init /\ [][Next]_vars

TypeOK == /\ st.dev \in BOOLEAN /\ st.subs \subseteq {"all", "one"}
          /\ \A k \in 1..2 : st.sess[k] \in {0, 2, 3, 4}
Laws == TypeOK /\ LawSelf(st) /\ LawSame(st) /\ LawRun(st) /\ LawMono(st) /\ LawSess(st)
View == <<st, Len(hist), done>>
====
