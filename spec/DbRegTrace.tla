---- MODULE DbRegTrace ----
\* Validates what package database and database/migration did (driver harness/cmd/dbreg) against
\* spec/DbReg.tla (X06).  trace.ndjson, one JSON object per line:
\*   {"e":"new"}     a fresh data directory (start of one recorded history)
\*   {"e":"op","op":{...},"res":{"err","robj":{some,t,d,s,ll},"calls":[{n,ev,x}..],"io":k,
\*                               "runs":[{id,from,to}..],"diag":{failed,wid,start,lastok,target,plan},"sv":v},
\*    "file":[{n,t,d,s,ll}..]}
\*        one operation (op "proc": a new driver process on the same data directory) with its result class, the
\*        object Register returned, the life-cycle calls the storages saw during it (start / maintain /
\*        thorough / records / shutdown; x = storage type derived from the start location, or the
\*        ShadowDelete flag handed to MaintainRecordStates), the number of reads and writes that reached a
\*        storage, for Migrate the migrations that ran, the fields of the Diagnostics and the version the
\*        storage holds afterwards; file: the content of databases.json after the operation.
\*        op "race": op.par are operations released at the same time (w = "gate": first uses and injections are
\*        parked at the yield point in front of the controllers lock until the others have finished), res.errs
\*        their result classes, res.calls the calls of all of them
EXTENDS DbReg, Json

Trace == ndJsonDeserialize("trace.ndjson")

VARIABLES st, l
vars == <<st, l>>

Init == st = Empty /\ l = 1

New == /\ l <= Len(Trace) /\ Trace[l].e = "new"
       /\ st' = Empty
       /\ l' = l + 1

\* sets arrive as arrays; migrations of equal version may run in any order: the model follows the observed one
Norm(o, ev) == [o EXCEPT !.fails = Range(@), !.vetoes = Range(@), !.fll = Range(@),
                         !.tie = [i \in 1..Len(ev.res.runs) |-> ev.res.runs[i].id]]

KnownOps == {"proc", "init", "register", "use", "inject", "withdraw", "fail", "maintain", "shutdown", "madd", "migrate", "race"}
\* the step makes sense in the state the model is in (the generator guarantees it; a driver cannot smuggle
\* in anything else)
WellFormed(o) ==
    /\ o.op \in KnownOps
    /\ (o.op # "proc" => st.up)
    /\ (o.op = "init" /\ ~st.inited =>
            IF ~st.persist THEN o.fll = {}
            ELSE IF st.sloppy THEN o.fll \subseteq (st.ever \cap {r.n : r \in st.file})
            ELSE o.fll = {r.n : r \in {x \in st.file : x.ll}})
    /\ (o.op = "shutdown" /\ st.mod => st.inited)
    /\ (o.op = "maintain" => o.w \in Kinds)
    /\ (o.op = "race" => /\ Len(o.par) \in 1..4
                         /\ \A i \in 1..Len(o.par) : o.par[i].op \in {"use", "inject", "register", "shutdown"}
                         /\ (st.mod => \A i \in 1..Len(o.par) : o.par[i].op # "shutdown"))

Match(x, ev) ==
    LET r == x.res IN
    /\ ErrOK(r.err, ev.res.err)
    /\ Len(ev.res.errs) = Len(r.errs)
    /\ \A i \in 1..Len(r.errs) : ErrOK(r.errs[i], ev.res.errs[i])
    /\ ev.res.robj \in r.robj
    /\ CallsOK(r, ev.res.calls)
    /\ (r.io = "zero" => ev.res.io = 0)
    /\ ev.res.runs = r.runs
    /\ (r.dchk => ev.res.diag = r.diag)
    /\ (r.sv # -1 => ev.res.sv = r.sv)
    /\ Len(ev.file) = Cardinality(Range(ev.file))
    /\ FileOK(x.st, Range(ev.file))

DoOp == /\ l <= Len(Trace) /\ Trace[l].e = "op"
        /\ LET o == Norm(Trace[l].op, Trace[l]) IN
              /\ WellFormed(o)
              /\ \E x \in Step(st, o) :
                    /\ Match(x, Trace[l])
                    /\ st' = x.st
        /\ l' = l + 1

Next == New \/ DoOp
Spec == Init /\ [][Next]_vars

Accepted == TLCGet("stats").diameter - 1 = Len(Trace)
====
