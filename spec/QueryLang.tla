---- MODULE QueryLang ----
\* The textual query language of database/query (property C11), as far as README.md documents it:
\*   (a) the tokenizer: an automaton over character classes (modes: normal, in quotes, after a
\*       backslash) that turns a character string into word / "(" / ")" tokens,
\*   (b) the escaping that makes any string one token (`Escape`), the inverse of (a),
\*   (c) the harness schema: keys, operand domains and the witness records on which the meaning of
\*       a query (QuerySem!Matches) is observed,
\*   (d) query trees built from a vector of numbers (depth <= 2, fan-out <= 3, all 18 operators,
\*       and / or / not) and their rendering as query text in the documented grammar, with
\*       alternative operator spellings, quoting styles, spacing and groups at any position.
\* Where README.md is silent the tokenizer reports `open` and every outcome is allowed.
EXTENDS QuerySem, TLC

\* ---- alphabet: character codes; the driver maps them injectively to runes ----
\*  1 X   2 7   3 space   4 "   5 \   6 (   7 )   8 ,   9 É (two bytes in UTF-8)
\*  10 Y   11 ^   12 $   13 :         (10..13 behave like 1: plain characters)
\*  14 l   15 i   16 m   17 t         (plain characters as well: they spell the clause word "limit" as a key)
SP == 3  QT == 4  BS == 5  PO == 6  PC == 7  CM == 8  MB == 9
Classes == 1..9
Chars   == 1..17
Class(c) == IF c > 9 THEN 1 ELSE c

\* ---- (a) tokenizer ----
\* token: [p |-> 0 word / 1 "(" / 2 ")", x |-> text of a word]
Word(x)  == [p |-> 0, x |-> x]
Paren(c) == [p |-> IF c = PO THEN 1 ELSE 2, x |-> <<>>]

\* q: inside quotes; e: after a backslash; has: a word is in progress; adj: the previous character
\* closed a quoted word; open: the input left the documented language
TokInit == [q |-> FALSE, e |-> FALSE, has |-> FALSE, adj |-> FALSE, cur |-> <<>>, toks |-> <<>>, open |-> FALSE]

Flush(st) == IF st.has THEN [st EXCEPT !.toks = Append(@, Word(st.cur)), !.cur = <<>>, !.has = FALSE] ELSE st

\* characters README.md documents as "to be escaped": everywhere ( ) " \ and blanks, within quotes " and \
MustEscape(inQuotes) == IF inQuotes THEN {QT, BS} ELSE {SP, QT, BS, PO, PC}

TokStep(st, c) ==
    LET cl == Class(c) IN
    IF st.e THEN            \* escaped character: taken literally; escaping any other character is undocumented
        [st EXCEPT !.e = FALSE, !.cur = Append(@, c), !.open = @ \/ cl \notin MustEscape(st.q)]
    ELSE IF st.q THEN
        IF cl = QT THEN [Flush(st) EXCEPT !.q = FALSE, !.adj = TRUE]
        ELSE IF cl = BS THEN [st EXCEPT !.e = TRUE]
        ELSE [st EXCEPT !.cur = Append(@, c)]
    ELSE
        \* a word glued to a closing quote is undocumented
        LET s1 == [st EXCEPT !.adj = FALSE, !.open = @ \/ (st.adj /\ cl \notin {SP, PO, PC})] IN
        CASE cl = SP -> Flush(s1)
          [] cl \in {PO, PC} -> [Flush(s1) EXCEPT !.toks = Append(@, Paren(cl))]
          [] cl = QT -> IF s1.has THEN [s1 EXCEPT !.open = TRUE]      \* quote inside a word
                        ELSE [s1 EXCEPT !.q = TRUE, !.has = TRUE]
          [] cl = BS -> [s1 EXCEPT !.e = TRUE, !.has = TRUE]
          [] OTHER -> [s1 EXCEPT !.cur = Append(@, c), !.has = TRUE]

RECURSIVE TokFold(_, _, _)
TokFold(s, i, st) == IF i > Len(s) THEN st ELSE TokFold(s, i + 1, TokStep(st, s[i]))

\* [open |-> BOOLEAN, toks |-> sequence of tokens]; an unterminated quote and a trailing backslash are undocumented
Tokenize(s) == LET st == TokFold(s, 1, TokInit)
               IN [open |-> st.open \/ st.e \/ st.q, toks |-> Flush(st).toks]

\* shape of a token list: "w" one word, "wc" one word and j closing parentheses, "ow" j opening
\* parentheses and one word, "x" everything else
Shape(T) ==
    IF T.open \/ Len(T.toks) = 0 THEN [sh |-> "x", j |-> 0, t |-> <<>>]
    ELSE LET n == Len(T.toks) IN
         IF T.toks[1].p = 0 /\ \A k \in 2..n : T.toks[k].p = 2
         THEN [sh |-> IF n = 1 THEN "w" ELSE "wc", j |-> n - 1, t |-> T.toks[1].x]
         ELSE IF T.toks[n].p = 0 /\ \A k \in 1..(n - 1) : T.toks[k].p = 1
         THEN [sh |-> "ow", j |-> n - 1, t |-> T.toks[n].x]
         ELSE [sh |-> "x", j |-> 0, t |-> <<>>]

\* ---- (b) escaping: any string as one token ----
RECURSIVE EscChars(_, _)
EscChars(t, set) == IF t = <<>> THEN <<>>
                    ELSE (IF Class(Head(t)) \in set THEN <<BS, Head(t)>> ELSE <<Head(t)>>) \o EscChars(Tail(t), set)
\* style 0: quoted; style 1: bare with backslashes (not possible for the empty string)
Escape(t, style) == IF style = 0 \/ t = <<>> THEN <<QT>> \o EscChars(t, MustEscape(TRUE)) \o <<QT>>
                    ELSE EscChars(t, MustEscape(FALSE))
\* style 2: as the printer is expected to do it: bare if nothing needs escaping
NeedsQuote(t) == t = <<>> \/ \E k \in 1..Len(t) : Class(t[k]) \in MustEscape(FALSE)
EscapeAuto(t, style) == IF style = 2 THEN (IF NeedsQuote(t) THEN Escape(t, 0) ELSE t) ELSE Escape(t, style)

\* ---- comma separated lists (operand of `in`) ----
RECURSIVE Split(_), JoinC(_)
Split(s) == IF \A i \in 1..Len(s) : s[i] # CM THEN <<s>>
            ELSE LET k == CHOOSE i \in 1..Len(s) : s[i] = CM /\ \A j \in 1..(i - 1) : s[j] # CM
                 IN <<SubSeq(s, 1, k - 1)>> \o Split(SubSeq(s, k + 1, Len(s)))
JoinC(l) == IF Len(l) = 0 THEN <<>> ELSE IF Len(l) = 1 THEN l[1] ELSE l[1] \o <<CM>> \o JoinC(Tail(l))

\* source text of a regular expression value: anchors and the literal with \ ( ) ^ $ escaped
ReSrc(v) == (IF v.i \in {1, 3} THEN <<11>> ELSE <<>>) \o EscChars(v.s, {BS, PO, PC}) \o (IF v.i \in {2, 3} THEN <<12>> ELSE <<>>)
\* (codes 11 and 12 have class 1, so EscChars cannot see them; ReLits below do not contain them)

\* ---- (c) harness schema ----
KX == <<1>>  KY == <<10>>  KXY == <<1, 10>>  KYX == <<10, 1>>  KE == <<9>>          \* struct fields: int, float, string, bool, string
KS == <<1, 3, 10>>  KQ == <<1, 4>>  KP == <<6, 1, 7>>                               \* only in JSON records:  X Y   X"   (X)
KM == <<10, 2>>                                                                    \* never present
KB == <<1, 5>>                                                                     \* X\ (ends in a backslash); in no witness record: the JSON
                                                                                   \* accessor (gjson paths) cannot name such a key, so only the text
                                                                                   \* round trip of queries on it is judged
StructKeys == <<KX, KY, KXY, KYX, KE>>
KLIM == <<14, 15, 16, 15, 17>>                                                         \* limit: a key that reads like a clause word (in no record)
QKeys == <<KX, KY, KXY, KYX, KE, KS, KQ, KP, KM, KB, KLIM>>
StrKeys == <<KXY, KE, KS, KQ, KP, KB>>

IntRanks == 0..8          \* driver: MinInt64, -2^53-1, -1, 0, 1, 2^31, 2^53+1, MaxInt64-1, MaxInt64
FloatRanks == 0..8        \* driver: -Inf, -1e300, -1.5, 0, 5e-324, 0.1, float32(0.1) = 0.10000000149011612, 1e300, +Inf   (fields: 1..6 only)

SRec(x, y, xy, yx, e) == <<Field(KX, IntV(x)), Field(KY, FloatV(y)), Field(KXY, StrV(xy)), Field(KYX, BoolV(yx)), Field(KE, StrV(e))>>

\* witness records with a typed struct (all five fields present)
SW == << SRec(3, 3, <<>>, FALSE, <<>>),
         SRec(4, 5, <<1>>, TRUE, <<9>>),
         SRec(0, 1, <<1, 10>>, FALSE, <<1, 9>>),
         SRec(8, 6, <<1, 5, 10>>, TRUE, <<9, 9>>),
         SRec(2, 2, <<1, 3, 10>>, FALSE, <<4>>),
         SRec(6, 4, <<4, 1, 4>>, TRUE, <<1, 8, 10>>),
         SRec(5, 3, <<10, 1>>, FALSE, <<5>>),
         SRec(7, 4, <<6, 1, 7>>, TRUE, <<10>>),
         SRec(1, 2, <<9>>, TRUE, <<1>>),
         SRec(4, 3, <<1, 9>>, FALSE, <<1, 10>>) >>
\* witness records as JSON documents: the same ten, and documents with other keys, missing keys, other kinds
JW == SW \o << <<>>,
               <<Field(KS, StrV(<<1>>))>>,
               <<Field(KS, StrV(<<1, 10>>)), Field(KQ, StrV(<<9>>)), Field(KX, IntV(4))>>,
               <<Field(KP, StrV(<<1>>)), Field(KQ, StrV(<<1>>)), Field(KY, FloatV(3))>>,
               <<Field(KS, StrV(<<>>)), Field(KP, StrV(<<1, 5, 10>>)), Field(KYX, BoolV(TRUE))>>,
               <<Field(KXY, IntV(4)), Field(KX, StrV(<<1>>)), Field(KE, BoolV(FALSE)), Field(KS, StrV(<<1, 3, 10>>))>>,
               <<Field(KX, FloatV(5)), Field(KY, IntV(3)), Field(KQ, StrV(<<4>>)), Field(KS, StrV(<<9>>))>> >>

\* strings
Str1 == {<<a>> : a \in 1..10}
Str2 == {<<a, b>> : a \in 1..10, b \in 1..10}
FieldStrs == {<<>>, <<1>>, <<9>>, <<1, 10>>, <<1, 9>>, <<1, 5, 10>>, <<9, 9>>, <<1, 3, 10>>, <<4>>, <<4, 1, 4>>,
              <<1, 8, 10>>, <<10, 1>>, <<5>>, <<6, 1, 7>>, <<10>>}
LongStrs == {<<5, 5>>, <<1, 5>>, <<5, 4>>, <<4, 5>>, <<1, 3>>, <<3, 1>>, <<1, 10, 9>>, <<1, 3, 10, 9>>, <<4, 4>>, <<1, 5, 4, 10>>,
             <<6, 6, 1>>, <<1, 7, 7>>, <<3>>, <<1, 3, 3, 10>>, <<5, 1, 5>>, <<1, 4, 10, 4>>, <<9, 3, 9>>, <<2, 2>>, <<1, 13, 10>>}
StrOperands == {<<>>} \cup Str1 \cup Str2 \cup FieldStrs \cup LongStrs
NoComma(s) == \A k \in 1..Len(s) : s[k] # CM
InElems == {s \in FieldStrs \cup LongStrs \cup {<<3>>, <<5>>, <<7>>} : NoComma(s)}
ReLits == {s \in {<<>>} \cup Str1 \cup FieldStrs \cup LongStrs : \A k \in 1..Len(s) : s[k] \notin {11, 12}}

SetToSeq(S) == LET RECURSIVE f(_) f(T) == IF T = {} THEN <<>> ELSE LET e == CHOOSE e \in T : TRUE IN <<e>> \o f(T \ {e}) IN f(S)
FieldStrSeq == SetToSeq(FieldStrs)
StrOperandSeq == SetToSeq(StrOperands)
InElemSeq == SetToSeq(InElems)
ReLitSeq == SetToSeq(ReLits)
Nth(seq, n) == seq[(n % Len(seq)) + 1]

\* operator spellings of README.md (the first one is the one the printer uses)
OpSeq == <<"eq", "gt", "ge", "lt", "le", "feq", "fgt", "fge", "flt", "fle",
           "sameas", "contains", "startswith", "endswith", "in", "matches", "is", "exists">>
Spell(op) == CASE op = "eq" -> <<"==">> [] op = "gt" -> <<">">> [] op = "ge" -> <<">=">> [] op = "lt" -> <<"<">> [] op = "le" -> <<"<=">>
               [] op = "feq" -> <<"f==">> [] op = "fgt" -> <<"f>">> [] op = "fge" -> <<"f>=">> [] op = "flt" -> <<"f<">> [] op = "fle" -> <<"f<=">>
               [] op = "sameas" -> <<"sameas", "s==">> [] op = "contains" -> <<"contains", "co">>
               [] op = "startswith" -> <<"startswith", "sw">> [] op = "endswith" -> <<"endswith", "ew">>
               [] op = "in" -> <<"in">> [] op = "matches" -> <<"matches", "re">> [] op = "is" -> <<"is">>
               [] op = "exists" -> <<"exists", "ex">>
BoolSpell(b) == IF b THEN <<"true", "1", "t", "T", "True", "TRUE">> ELSE <<"false", "0", "f", "F", "False", "FALSE">>

\* ---- (d) query trees from a vector of numbers ----
\* node idx uses rv[(idx-1)*10 + 1 .. idx*10]: 1 leaf/group, 2 negation, 3 fan-out, 4 operator, 5 key,
\* 6 and 7 operand, 8 spelling, 9 token styles, 10 spacing.  Root 1, its children 2..4, their children 5..13.
NodeSlots == 10
MaxNodes == 13
G0 == MaxNodes * NodeSlots          \* global numbers follow: G0+1 prefix, +2 orderby, +3 limit, +4 offset, +5 root style, +6 api variant, +7.. separators
RVLen == G0 + 10
N(rv, idx, k) == rv[(idx - 1) * NodeSlots + k]
ChildIdx(idx, j) == IF idx = 1 THEN 1 + j ELSE 4 + (idx - 2) * 3 + j

KeysOfKind(kind) == CASE kind = "int" -> <<KX, KX, KY, KS>> [] kind = "float" -> <<KY, KY, KX>> [] kind = "bool" -> <<KYX>>
                      [] kind = "any" -> QKeys [] OTHER -> StrKeys
KeyFor(op, n) == IF n % 10 < 7 THEN Nth(KeysOfKind(FieldKind(op)), n \div 10) ELSE Nth(QKeys, n \div 10)
StrFor(n) == IF n % 3 = 0 THEN Nth(StrOperandSeq, n \div 3) ELSE Nth(FieldStrSeq, n \div 3)
ValFor(op, n, m) ==
    CASE op \in IntOps -> IntV(n % 9)
      [] op \in FloatOps -> FloatV(IF n % 10 = 9 THEN NaN ELSE n % 9)
      [] op \in StrOps -> StrV(StrFor(n))
      [] op = "in" -> ListV(IF m % 2 = 0 THEN <<Nth(InElemSeq, n), Nth(InElemSeq, m)>>
                            ELSE <<Nth(InElemSeq, n), Nth(InElemSeq, m), Nth(InElemSeq, n + m)>>)
      [] op = "matches" -> ReV(m % 4, Nth(ReLitSeq, n))
      [] op = "is" -> BoolV(n % 2 = 0)
      [] op = "exists" -> NoV
BuildLeaf(rv, idx) == LET op == Nth(OpSeq, N(rv, idx, 4)) IN Leaf(KeyFor(op, N(rv, idx, 5)), op, ValFor(op, N(rv, idx, 6), N(rv, idx, 7)))

RECURSIVE Build(_, _, _)
Build(rv, idx, depth) ==
    LET sel == N(rv, idx, 1) % 10
        isGroup == IF depth = 0 THEN sel >= 2 ELSE IF depth = 1 THEN sel >= 6 ELSE FALSE
        fan == 2 + (N(rv, idx, 3) % 2)
        base == IF isGroup THEN Group(IF N(rv, idx, 1) % 2 = 0 THEN "and" ELSE "or",
                                      [j \in 1..fan |-> Build(rv, ChildIdx(idx, j), depth + 1)])
                ELSE BuildLeaf(rv, idx)
        neg == N(rv, idx, 2) % 10
    IN IF neg < 6 THEN base ELSE IF neg < 9 THEN Not(base) ELSE Not(Not(base))

Prefixes == << <<10, 13>>, <<10, 13, 1>>, <<10, 13, 9>>, <<10, 13, 1, 3, 10>>, <<13>>, <<10, 13, 1, 5, 10>>, <<10, 13, 4, 1>>, <<10, 13, 1, 9, 10>> >>
OrderBys == << <<>>, <<>>, <<1>>, <<1, 10>>, <<9>>, <<1, 3, 10>>, <<1, 5>>, <<10, 9>> >>
Limits   == <<0, 0, 1, 10, 2147483647>>

\* ---- rendering as text ----
\* text = sequence of items [k, w, c, i]:  "kw" literal ASCII word w;  "ch" character codes c;
\* "int" / "float" number with rank i;  "num" the decimal number i
Kw(w)    == [k |-> "kw", w |-> w, c |-> <<>>, i |-> 0]
Ch(c)    == [k |-> "ch", w |-> "", c |-> c, i |-> 0]
IntI(i)  == [k |-> "int", w |-> "", c |-> <<>>, i |-> i]
FltI(i)  == [k |-> "float", w |-> "", c |-> <<>>, i |-> i]
NumI(i)  == [k |-> "num", w |-> "", c |-> <<>>, i |-> i]
IsParen(it) == it.k = "kw" /\ it.w \in {"(", ")"}

\* sty = 0: the canonical rendering (what a printer would choose); otherwise drawn from the numbers
TokStyle(rv, idx, slot, sty) == IF sty = 0 THEN 2 ELSE (N(rv, idx, 9) \div (IF slot = 0 THEN 1 ELSE 3)) % 3
ValueLex(v, style, n) ==
    CASE v.t = "int" -> <<IntI(v.i)>>
      [] v.t = "float" -> <<FltI(v.i)>>
      [] v.t = "str" -> <<Ch(EscapeAuto(v.s, style))>>
      [] v.t = "list" -> <<Ch(EscapeAuto(JoinC(v.l), style))>>
      [] v.t = "re" -> <<Ch(EscapeAuto(ReSrc(v), style))>>
      [] v.t = "bool" -> <<Kw(Nth(BoolSpell(v.b), n))>>
      [] OTHER -> <<>>
LeafLex(c, neg, rv, idx, sty) ==
    <<Ch(EscapeAuto(c.key, TokStyle(rv, idx, 0, sty)))>>
    \o (IF neg THEN <<Kw("not")>> ELSE <<>>)
    \o <<Kw(IF sty = 0 THEN Spell(c.op)[1] ELSE Nth(Spell(c.op), N(rv, idx, 8)))>>
    \o ValueLex(c.val, TokStyle(rv, idx, 1, sty), IF sty = 0 THEN 0 ELSE N(rv, idx, 8) \div 2)

\* lexemes of a condition; `bare`: a group at this position is written without its parentheses
RECURSIVE CondLex(_, _, _, _, _)
CondLex(c, rv, idx, sty, bare) ==
    CASE c.k = "leaf" -> LeafLex(c, FALSE, rv, idx, sty)
      [] c.k = "not" ->
            LET d == c.sub[1] IN
            IF d.k = "leaf" THEN LeafLex(d, TRUE, rv, idx, sty)
            ELSE IF d.k = "not" THEN <<Kw("not"), Kw("(")>> \o CondLex(d, rv, idx, sty, FALSE) \o <<Kw(")")>>
            ELSE <<Kw("not")>> \o CondLex(d, rv, idx, sty, FALSE)
      [] OTHER ->
            LET RECURSIVE chain(_)
                chain(j) == IF j > Len(c.sub) THEN <<>>
                            ELSE (IF j > 1 THEN <<Kw(c.k)>> ELSE <<>>) \o CondLex(c.sub[j], rv, ChildIdx(idx, j), sty, FALSE) \o chain(j + 1)
            IN IF bare THEN chain(1) ELSE <<Kw("(")>> \o chain(1) \o <<Kw(")")>>

\* separators: next to a parenthesis a blank is optional
RECURSIVE JoinLex(_, _, _, _)
JoinLex(lex, rv, k, sty) ==
    IF Len(lex) <= 1 THEN lex
    ELSE LET a == lex[1]
             b == lex[2]
             n == IF sty = 0 THEN 1 ELSE rv[G0 + 7 + (k % 4)] \div (1 + (k % 7))
             optional == IsParen(a) \/ IsParen(b)
             sep == IF optional /\ n % 3 = 0 THEN <<>> ELSE IF n % 3 = 2 THEN <<Ch(<<SP, SP>>)>> ELSE <<Ch(<<SP>>)>>
         IN <<a>> \o sep \o JoinLex(Tail(lex), rv, k + 1, sty)

\* the whole query; pfx, ob: character strings, lim, off: numbers (0 = absent)
QueryLex(ast, pfx, ob, lim, off, rv, sty) ==
    <<Kw("query"), Ch(EscapeAuto(pfx, IF sty = 0 THEN 2 ELSE (IF NeedsQuote(pfx) THEN rv[G0 + 5] % 2 ELSE 2)))>>
    \o (IF ast = NoCondition THEN <<>>
        ELSE <<Kw("where")>> \o CondLex(ast, rv, 1, sty, ast.k \in {"and", "or"} /\ (sty = 0 \/ rv[G0 + 5] % 4 # 3)))
    \o (IF ob = <<>> THEN <<>> ELSE <<Kw("orderby"), Ch(EscapeAuto(ob, IF sty = 0 THEN 2 ELSE (rv[G0 + 5] \div 4) % 3))>>)
    \o (IF lim = 0 THEN <<>> ELSE <<Kw("limit"), NumI(lim)>>)
    \o (IF off = 0 THEN <<>> ELSE <<Kw("offset"), NumI(off)>>)
QueryText(ast, pfx, ob, lim, off, rv, sty) == JoinLex(QueryLex(ast, pfx, ob, lim, off, rv, sty), rv, 0, sty)

ZeroRV == [i \in 1..RVLen |-> 0]

\* features of a tree that the signatures of violations are built from (classification only)
RECURSIVE HasNotNot(_), GroupAtEnd(_)
HasNotNot(c) == \/ c.k = "not" /\ c.sub[1].k = "not"
                \/ c.k # "leaf" /\ \E j \in 1..Len(c.sub) : HasNotNot(c.sub[j])
GroupAtEnd(c) == c.k # "leaf" /\ Len(c.sub) > 0 /\ LET d == c.sub[Len(c.sub)] IN d.k \in {"and", "or"} \/ (d.k = "not" /\ d.sub[1].k # "leaf")
====
