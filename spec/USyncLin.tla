---- MODULE USyncLin ----
\* Linearizability monitor over the sequential specifications of USyncSeq (just-in-time linearization):
\* the monitor keeps every configuration (abstract state + which pending operations have already taken
\* effect, with their results) that explains the call/return events seen so far.  An operation may take
\* effect at any instant between its call and its return; a history is rejected when no configuration is left.
EXTENDS USyncSeq

\* np processes, each with at most one operation in progress
LInit(kind, st0, np) ==
  [kind |-> kind, np |-> np,
   pend |-> [p \in 1..np |-> NoOp],
   cfgs |-> {[st |-> st0, eff |-> [p \in 1..np |-> NoRes]]},
   bad |-> ""]

LFail(L, why) == [L EXCEPT !.bad = why]

\* all configurations reachable by letting pending operations take effect, in any order
RECURSIVE Close(_, _, _)
Close(kind, C, pend) ==
  LET Todo(c) == {q \in DOMAIN pend : pend[q] # NoOp}
      Succ(c) == UNION { { [st |-> x.st, eff |-> [c.eff EXCEPT ![p] = x.res]] : x \in SeqStep(kind, c.st, pend[p], c.eff[p]) }
                         : p \in Todo(c) }
      N == C \cup UNION { Succ(c) : c \in C }
  IN IF N = C THEN C ELSE Close(kind, N, pend)

LCall(L, p, o) ==
  IF p \notin 1..L.np THEN LFail(L, "call:unknown-process")
  ELSE IF L.pend[p] # NoOp THEN LFail(L, "call:reentered")
  ELSE [L EXCEPT !.pend[p] = o]

LRet(L, p, res) ==
  IF p \notin 1..L.np \/ L.pend[p] = NoOp THEN LFail(L, "ret:no-call")
  ELSE LET C == Close(L.kind, L.cfgs, L.pend)
           K == {c \in C : c.eff[p] = res}
       IN IF K = {} THEN LFail(L, "ret:" \o L.pend[p].op \o "=" \o res.k \o ":not-linearizable")
          ELSE [L EXCEPT !.pend[p] = NoOp, !.cfgs = {[c EXCEPT !.eff[p] = NoRes] : c \in K}]
====
