---- MODULE UpdFlow ----
\* Extension check X08: the update FLOWS of package updater (indexes.go, updating.go, fetch.go, get.go,
\* file.go, state.go, notifier.go, storage.go LoadIndexes) seen through the public API of a
\* ResourceRegistry that talks to update servers (version selection, purge, atomic publishing and path
\* scoping are C19, C17 and C18; the selection cascade `Prescribed` and the Blacklist rule are taken from
\* spec/Updater.tla).
\*
\* STATEMENT (derived from the doc comments of the package and the code; for every history of calls and
\* every behaviour of the update servers):
\*  F1  fetching: every download (index or resource file) asks UpdateURLs[try mod #URLs] for try = 0, 1, ..
\*      (3 tries for indexes and DownloadUpdates, 5 for GetFile), stops at the first complete 200 answer
\*      and fails only when every try failed (404, 500, answer shorter than its Content-Length).  Nothing
\*      else is requested from the servers.
\*  F2  UpdateIndexes fetches every registered index in registration order.  A fetched index is accepted
\*      unless it cannot be parsed, names another channel, was published in the future or is older than
\*      the last release seen of that index (ErrIndexIsOlder; "LastRelease holds the time of the last seen
\*      release of this index").  An accepted index is stored byte for byte under its path in the storage
\*      dir, and every release "identifier: version" that lies below the directory of the index makes
\*      that version THE current release of the identifier (listed, pre-release when the index or the
\*      version number says so, not available); an index registered later overrides an earlier one;
\*      releases outside the index's directory and releases with an unparsable version add nothing.
\*      A rejected or unfetchable index changes nothing.  UpdateIndexes fails exactly when no index was
\*      accepted.  LoadIndexes uses the stored index file where there is one and fetches the index
\*      otherwise if the registry is online; it reports the first index that could be neither.
\*  F3  DownloadUpdates(includeManual) fetches, in the order of the identifiers, exactly the current
\*      releases that are not available locally of resources that have an index (AutoDownload, or any
\*      index with includeManual) and are in use (GetFile), available in some version or mandatory.  A
\*      fetched file is stored complete under its versioned path and the version is available from then
\*      on; a version that is available is never requested again.  When a download failed,
\*      UpdateState.LastDownloadError is set and LastSuccessAt does not move.
\*  F4  GetFile(identifier): ErrNotFound for an unknown identifier (never a panic); otherwise the selected
\*      version (selected on the spot when nothing is selected yet).  Available locally: returned without
\*      touching a server.  Not available: ErrNotAvailableLocally when offline, else fetched (F1, 5 tries)
\*      and stored; then the version is available locally (no second fetch).  A returned file has the
\*      path of exactly that version and makes it the active version (the resource is in use).
\*  F5  File.UpgradeAvailable() is false and WaitForAvailableUpgrade() open until a version selection
\*      (SelectVersions, Blacklist) leaves the resource with a selected version different from its active
\*      version; from then on it is true and the channel closed, for every file handed out since the last
\*      such signal, forever.  Files handed out afterwards start unsignalled.
\*  F6  registry state: ready outside operations; UpdateIndexes = checking, DownloadUpdates =
\*      downloading, a GetFile that fetches = fetching; no other call changes it.  StateNotifyFunc is
\*      called for every change: first with the operation's id (nothing else changed yet), last with
\*      ready / no details / the final UpdateState, in between only with the operation's id; while
\*      downloading the details list the resources being fetched and FinishedUpTo steps through 1..n.
\*      Operations exclude each other: a DownloadUpdates and a fetching GetFile called at the same time
\*      behave like one after the other (in either order), their requests do not interleave and download
\*      details are never seen under another state id.
\*      UpdateState: a check sets LastCheckAt, LastCheckError (nil exactly on success), on success
\*      LastSuccessAt = LastCheckAt and PendingDownload lists at least the pending downloads that need a
\*      manual trigger and at most all pending downloads; a download run with n > 0 sets LastDownloadAt,
\*      LastDownload (at least what was fetched, at most what was tried) and removes what was fetched
\*      from PendingDownload.
\*      With a context that is already cancelled nothing is fetched, no index is accepted and no version
\*      becomes available (UpdateIndexes, LoadIndexes for indexes that are not stored, DownloadUpdates).
\*  F7  restart: a new registry on the same storage dir that runs ScanStorage, LoadIndexes,
\*      SelectVersions finds every stored file as an available version and the stored indexes' current
\*      releases; blacklisting and the in-use marks do not survive.
\* Where the documentation is silent the model allows every outcome: an index without releases and
\* channel, an index older than an earlier but not the last seen release, authority of index files loaded
\* from disk, what a failed AddVersion leaves behind on a known resource, the return value of a
\* DownloadUpdates with failed downloads, PendingDownload after a failed check.
\*
\* Symbols: resources R = 1..3 (Ident), versions = the ids of spec/Updater.tla (7 = an unparsable version
\* string), indexes 1 = pk/stable.json, 2 = pk/beta.json (PreRelease), servers 1..2 = UpdateURLs.
EXTENDS Integers, Sequences, FiniteSets, TLC

U == INSTANCE Updater

R == 1..3
InAuth == {1, 2}                  \* identifiers below the directory of the indexes
Ident == <<"pk/a.bin", "pk/b.tar.gz", "pkx/c.bin">>
I == 1..2
IdxPath == <<"pk/stable.json", "pk/beta.json">>
IdxPre == <<FALSE, TRUE>>
Srv == 1..2
BadV == 7                         \* "1.x": not a version
VerStr == <<"0.0.0", "1.0.0", "1.1.0", "1.2.0-beta", "2.0.0-rc", "2.0.0", "1.x">>
FileOf == << <<"pk/a_v0-0-0.bin", "pk/a_v1-0-0.bin", "pk/a_v1-1-0.bin", "pk/a_v1-2-0-beta.bin", "pk/a_v2-0-0-rc.bin", "pk/a_v2-0-0.bin">>,
             <<"pk/b_v0-0-0.tar.gz", "pk/b_v1-0-0.tar.gz", "pk/b_v1-1-0.tar.gz", "pk/b_v1-2-0-beta.tar.gz", "pk/b_v2-0-0-rc.tar.gz", "pk/b_v2-0-0.tar.gz">>,
             <<"pkx/c_v0-0-0.bin", "pkx/c_v1-0-0.bin", "pkx/c_v1-1-0.bin", "pkx/c_v1-2-0-beta.bin", "pkx/c_v2-0-0-rc.bin", "pkx/c_v2-0-0.bin">> >>
Future == 9                       \* publication stamps: 0 = none, 1 < 2 < 3 in the past, 9 in the future
NoV == 0

Max(S) == CHOOSE x \in S : \A y \in S : y <= x
Min(S) == CHOOSE x \in S : \A y \in S : x <= y
Range(s) == {s[i] : i \in DOMAIN s}
MaxOf(a, b) == IF a < b THEN b ELSE a

\* ------------------------------------------------------------------ records
NoRes == [known |-> FALSE, L |-> {}, av |-> {}, cur |-> {}, pre |-> {}, bl |-> {}, sel |-> NoV, act |-> NoV, idx |-> 0]
NoDoc == [tag |-> 0, kind |-> "none", chan |-> "", pub |-> 0, rel |-> <<0, 0, 0>>]
NoUpd == [chkAt |-> 0, chkErr |-> FALSE, pend |-> {}, dlAt |-> 0, dlErr |-> FALSE, lastdl |-> {}, succAt |-> 0]
\* one update server: iok[i] whether it answers the request for index i completely, idoc[i] what it sends,
\* ffail = the <<r, v>> whose file it does not deliver
Server0 == [iok |-> <<FALSE, FALSE>>, idoc |-> <<NoDoc, NoDoc>>, ffail |-> {}]

Cfg(online, usepre, nurls, a1, a2, mand) ==
    [online |-> online, usepre |-> usepre, nurls |-> nurls, auto |-> <<a1, a2>>, mand |-> mand]

Empty(cfg) ==
    [cfg |-> cfg, res |-> [r \in R |-> NoRes], files |-> {}, disk |-> <<NoDoc, NoDoc>>,
     last |-> <<0, 0>>, lmax |-> <<0, 0>>, srv |-> <<Server0, Server0>>,
     upd |-> NoUpd, clock |-> 0,
     handles |-> <<>>, gen |-> <<0, 0, 0>>, nextgen |-> 1, upg |-> {}]

\* ------------------------------------------------------------------ operations and results (uniform shapes)
Op(name, r, v, u, i, flag, mode, doc) ==
    [op |-> name, r |-> r, v |-> v, u |-> u, i |-> i, flag |-> flag, mode |-> mode, doc |-> doc]
NoArg(name) == Op(name, 0, 0, 0, 0, FALSE, "", NoDoc)
OkModes == {"ok", "slow"}
FailModes == {"404", "500", "trunc"}

Req(u, k, a, v) == [u |-> u, k |-> k, a |-> a, v |-> v]
\* what the update-state part of an outcome demands (F6): mode none | checkok | checkfail | dl, and checkcancel |
\* dlcancel for calls with a cancelled context (a failure report or no report at all)
NoU == [mode |-> "none", att |-> <<>>, suc |-> {}, plo |-> {}, phi |-> {}]
\* one allowed outcome: errs = allowed error classes of the call, v = version of the returned file,
\* reqs = the exact request sequence, opid = registry state during the call ("" = no operation)
\* (errs2, v2: the second call of a concurrent pair, see "Par")
Out(errs, v, s, reqs, opid, u) ==
    [errs |-> errs, v |-> v, errs2 |-> {""}, v2 |-> NoV, st |-> s, reqs |-> reqs, opid |-> opid, u |-> u]

\* ------------------------------------------------------------------ F1 fetching
Url(t, n) == (t % n) + 1
FetchAt(okset, tries, n) == LET T == {t \in 0..(tries - 1) : Url(t, n) \in okset} IN IF T = {} THEN -1 ELSE Min(T)
ReqSeq(k, a, v, cnt, n) == [t \in 1..cnt |-> Req(Url(t - 1, n), k, a, v)]
\* [ok, at (server that delivered), reqs]
Fetch(s, okset, tries, k, a, v) ==
    LET n == s.cfg.nurls
        t == FetchAt(okset, tries, n)
    IN IF t < 0 THEN [ok |-> FALSE, at |-> 0, reqs |-> ReqSeq(k, a, v, tries, n)]
       ELSE [ok |-> TRUE, at |-> Url(t, n), reqs |-> ReqSeq(k, a, v, t + 1, n)]
FileServers(s, r, v) == {u \in Srv : <<r, v>> \notin s.srv[u].ffail}
IdxServers(s, i) == {u \in Srv : s.srv[u].iok[i]}

\* ------------------------------------------------------------------ selection (spec/Updater.tla)
ResView(s, r) ==
    LET x == s.res[r] IN
    [L |-> x.L, av |-> x.av, cur |-> x.cur, pre |-> x.pre, bl |-> x.bl, files |-> {v \in 1..6 : <<r, v>> \in s.files},
     sel |-> x.sel, act |-> x.act, online |-> s.cfg.online, dev |-> FALSE, usepre |-> s.cfg.usepre,
     idx |-> IF x.idx = 0 THEN "none" ELSE IF s.cfg.auto[x.idx] THEN "auto" ELSE "manual"]
Prescribed(s, r) == U!Prescribed(ResView(s, r))

\* F5: a selection that leaves selected # active signals the current notifier of the resource and drops it
Signals(s, r, newsel) == s.res[r].act # NoV /\ newsel # s.res[r].act /\ s.gen[r] # 0
\* new selected versions for the resources in RS (function r -> version)
WithSelection(s, RS, sel) ==
    LET hit == {r \in RS : Signals(s, r, sel[r])} IN
    [s EXCEPT !.res = [r \in R |-> IF r \in RS THEN [s.res[r] EXCEPT !.sel = sel[r]] ELSE s.res[r]],
              !.upg = @ \cup {s.gen[r] : r \in hit},
              !.gen = [r \in R |-> IF r \in hit THEN 0 ELSE s.gen[r]]]
Known(s) == {r \in R : s.res[r].known}
SelectAll(s) == WithSelection(s, Known(s), [r \in R |-> Prescribed(s, r)])

\* ------------------------------------------------------------------ F2 indexes
DocPub(d) == IF d.kind = "old" THEN 0 ELSE d.pub
NoRel(d) == \A r \in R : d.rel[r] = 0
\* "accept" / "reject" a parsed index; both where the documentation is silent
DocVerdict(d, last, lmax) ==
    CASE d.kind = "garbage" -> {"reject"}
      [] d.kind = "old" -> {"accept"}
      [] OTHER -> IF d.pub = Future \/ d.chan = "wrong" \/ (d.pub # 0 /\ last # 0 /\ d.pub < last) THEN {"reject"}
                  ELSE IF (NoRel(d) /\ d.chan = "") \/ (d.pub # 0 /\ d.pub < lmax) THEN {"accept", "reject"}
                  ELSE {"accept"}

ApplyEntry(x, v, i) == [x EXCEPT !.known = TRUE, !.L = @ \cup {v}, !.cur = {v},
                                 !.pre = IF IdxPre[i] \/ v \in U!PreNum THEN @ \cup {v} ELSE @, !.idx = i]
\* what an entry with an unparsable version may leave behind (the documentation only says it is not added)
BadEntryVariants(x, i) ==
    IF ~x.known THEN {x}
    ELSE {x, [x EXCEPT !.cur = {}], [x EXCEPT !.idx = i], [x EXCEPT !.cur = {}, !.idx = i]}
\* resource tables after applying document d of index i; strict = releases outside the index's directory are dropped
Applied(s, i, d, strict) ==
    LET choice(r) == IF d.rel[r] = 0 \/ (strict /\ r \notin InAuth) THEN {s.res[r]}
                     ELSE IF d.rel[r] = BadV THEN BadEntryVariants(s.res[r], i)
                     ELSE {ApplyEntry(s.res[r], d.rel[r], i)}
    IN {g \in [R -> UNION {choice(r) : r \in R}] : \A r \in R : g[r] \in choice(r)}
Taken(s, i, d, tables) ==
    {[s EXCEPT !.res = t, !.last[i] = DocPub(d), !.lmax[i] = MaxOf(@, DocPub(d))] : t \in tables}

\* outcomes [st, ok, reqs] of fetching and applying index i
DlIndex(s, i) ==
    LET f == Fetch(s, IdxServers(s, i), 3, "idx", i, 0) IN
    IF ~f.ok THEN {[st |-> s, ok |-> FALSE, reqs |-> f.reqs]}
    ELSE LET d == s.srv[f.at].idoc[i]
             V == DocVerdict(d, s.last[i], s.lmax[i])
         IN (IF "reject" \in V THEN {[st |-> s, ok |-> FALSE, reqs |-> f.reqs]} ELSE {})
            \cup (IF "accept" \in V
                  THEN {[st |-> [t EXCEPT !.disk[i] = d], ok |-> TRUE, reqs |-> f.reqs] :
                            t \in Taken(s, i, d, Applied(s, i, d, TRUE))}
                  ELSE {})
\* outcomes of loading index i from the storage dir (the file exists)
LoadDisk(s, i) ==
    LET d == s.disk[i]
        V == DocVerdict(d, s.last[i], s.lmax[i])
        strictness == IF d.rel[3] # 0 THEN {TRUE, FALSE} ELSE {TRUE}
    IN (IF "reject" \in V THEN {[st |-> s, ok |-> FALSE, reqs |-> <<>>]} ELSE {})
       \cup (IF "accept" \in V
             THEN UNION {{[st |-> t, ok |-> TRUE, reqs |-> <<>>] : t \in Taken(s, i, d, Applied(s, i, d, b))} : b \in strictness}
             ELSE {})
LoadIndex(s, i) ==
    IF s.disk[i].kind # "none" THEN LoadDisk(s, i)
    ELSE IF s.cfg.online THEN DlIndex(s, i)
    ELSE {[st |-> s, ok |-> FALSE, reqs |-> <<>>]}

\* both indexes in registration order: [st, oks, reqs]
Both(s, One(_, _)) ==
    UNION {{[st |-> b.st, oks |-> <<a.ok, b.ok>>, reqs |-> a.reqs \o b.reqs] : b \in One(a.st, 2)} : a \in One(s, 1)}

\* ------------------------------------------------------------------ F3 pending downloads
Pending(s, manual, auto) ==
    {<<r, v>> \in R \X (1..6) :
        LET x == s.res[r] IN
        /\ x.known /\ x.idx # 0
        /\ (manual /\ ~s.cfg.auto[x.idx]) \/ (auto /\ s.cfg.auto[x.idx])
        /\ x.act # NoV \/ x.av # {} \/ r \in s.cfg.mand
        /\ v \in x.cur \ x.av}
\* the pending downloads as the sequence in which they are fetched (identifier order; one current release each)
InOrder(P) == LET rs == {p[1] : p \in P}
                  f[n \in 0..3] == IF n = 0 THEN <<>>
                                   ELSE IF n \in rs THEN Append(f[n - 1], CHOOSE p \in P : p[1] = n) ELSE f[n - 1]
              IN f[3]
RECURSIVE DownloadAll(_, _, _)
\* [st, reqs, suc]: fetch the pairs of todo (from position k) one after the other
DownloadAll(s, todo, k) ==
    IF k > Len(todo) THEN [st |-> s, reqs |-> <<>>, suc |-> {}]
    ELSE LET r == todo[k][1]
             v == todo[k][2]
             f == Fetch(s, FileServers(s, r, v), 3, "file", r, v)
             t == IF f.ok THEN [s EXCEPT !.res[r].av = @ \cup {v}, !.files = @ \cup {<<r, v>>}] ELSE s
             rest == DownloadAll(t, todo, k + 1)
         IN [st |-> rest.st, reqs |-> f.reqs \o rest.reqs, suc |-> (IF f.ok THEN {<<r, v>>} ELSE {}) \cup rest.suc]

\* ------------------------------------------------------------------ the reference semantics
Restarted(s) ==     \* a fresh registry over the same storage dir after ScanStorage("")
    [s EXCEPT !.res = [r \in R |-> LET vs == {v \in 1..6 : <<r, v>> \in s.files} IN
                                   IF vs = {} THEN NoRes
                                   ELSE [NoRes EXCEPT !.known = TRUE, !.L = vs, !.av = vs, !.pre = vs \cap U!PreNum]],
              !.last = <<0, 0>>, !.lmax = <<0, 0>>, !.upd = NoUpd,
              !.handles = <<>>, !.gen = <<0, 0, 0>>, !.upg = {}]

Step1(s, o) ==
  CASE o.op = "SetIndex" ->     \* server o.u answers requests for index o.i with document o.doc / fails (o.mode)
          {Out({""}, NoV, [s EXCEPT !.srv[o.u].iok[o.i] = (o.mode \in OkModes), !.srv[o.u].idoc[o.i] = o.doc], <<>>, "", NoU)}
    [] o.op = "SetFile" ->      \* server o.u delivers / does not deliver the file of version o.v of resource o.r
          {Out({""}, NoV, [s EXCEPT !.srv[o.u].ffail = IF o.mode \in OkModes THEN @ \ {<<o.r, o.v>>} ELSE @ \cup {<<o.r, o.v>>}],
               <<>>, "", NoU)}
    [] o.op = "SetOnline" -> {Out({""}, NoV, [s EXCEPT !.cfg.online = o.flag], <<>>, "", NoU)}
    [] o.op = "UpdateIndexes" /\ o.mode = "cancelled" ->
          {Out({"failed"}, NoV, s, <<>>, "checking", [NoU EXCEPT !.mode = "checkcancel"])}
    [] o.op = "LoadIndexes" /\ o.mode = "cancelled" ->    \* stored indexes are loaded, nothing is fetched
          {Out({IF x.oks[1] /\ x.oks[2] THEN "" ELSE "failed"}, NoV, [x.st EXCEPT !.cfg.online = s.cfg.online], <<>>, "", NoU)
           : x \in Both([s EXCEPT !.cfg.online = FALSE], LoadIndex)}
    [] o.op = "Download" /\ o.mode = "cancelled" ->
          {Out({"", "failed"}, NoV, s, <<>>, "downloading",
               [mode |-> "dlcancel", att |-> InOrder(Pending(s, o.flag, TRUE)), suc |-> {}, plo |-> {}, phi |-> {}])}
    [] o.op = "UpdateIndexes" /\ o.mode # "cancelled" ->
          {LET any == x.oks[1] \/ x.oks[2] IN
           Out({IF any THEN "" ELSE "failed"}, NoV, x.st, x.reqs, "checking",
               IF any THEN [mode |-> "checkok", att |-> <<>>, suc |-> {}, plo |-> Pending(x.st, TRUE, FALSE), phi |-> Pending(x.st, TRUE, TRUE)]
               ELSE [NoU EXCEPT !.mode = "checkfail"])
           : x \in Both(s, DlIndex)}
    [] o.op = "LoadIndexes" /\ o.mode # "cancelled" ->
          {Out({IF x.oks[1] /\ x.oks[2] THEN "" ELSE "failed"}, NoV, x.st, x.reqs, "", NoU) : x \in Both(s, LoadIndex)}
    [] o.op = "Select" -> {Out({""}, NoV, SelectAll(s), <<>>, "", NoU)}
    [] o.op = "Download" /\ o.mode # "cancelled" ->     \* DownloadUpdates(ctx, includeManual = o.flag)
          LET P == Pending(s, o.flag, TRUE)
              todo == InOrder(P)
              d == DownloadAll(s, todo, 1)
              failed == d.suc # P
          IN {Out(IF failed THEN {"", "failed"} ELSE {""}, NoV, d.st, d.reqs, "downloading",
                  [mode |-> "dl", att |-> todo, suc |-> d.suc, plo |-> {}, phi |-> {}])}
    [] o.op = "GetFile" ->
          IF ~s.res[o.r].known THEN {Out({"notfound"}, NoV, s, <<>>, "", NoU)}
          ELSE LET g0 == IF s.gen[o.r] = 0 THEN [s EXCEPT !.gen[o.r] = s.nextgen, !.nextgen = @ + 1] ELSE s
                   v == IF s.res[o.r].sel # NoV THEN s.res[o.r].sel ELSE Prescribed(s, o.r)
                   t == IF s.res[o.r].sel # NoV THEN g0 ELSE WithSelection(g0, {o.r}, [r \in R |-> v])
                   got(w) == [w EXCEPT !.res[o.r].act = v, !.handles = Append(@, [r |-> o.r, v |-> v, g |-> w.gen[o.r]])]
               IN IF v = NoV THEN {Out({"notfound"}, NoV, s, <<>>, "", NoU)}     \* (no version listed: not generated)
                  ELSE IF v \in s.res[o.r].av THEN {Out({""}, v, got(t), <<>>, "", NoU)}
                  ELSE IF ~s.cfg.online THEN {Out({"notlocal"}, NoV, t, <<>>, "", NoU)}
                  ELSE LET f == Fetch(s, FileServers(s, o.r, v), 5, "file", o.r, v) IN
                       IF f.ok THEN {Out({""}, v, got([t EXCEPT !.res[o.r].av = @ \cup {v}, !.files = @ \cup {<<o.r, v>>}]),
                                         f.reqs, "fetching", NoU)}
                       ELSE {Out({"fetch"}, NoV, t, f.reqs, "fetching", NoU)}
    [] o.op = "Blacklist" ->    \* File.Blacklist() of handle o.i
          IF o.i \notin DOMAIN s.handles THEN {Out({"nohandle"}, NoV, s, <<>>, "", NoU)}
          ELSE LET h == s.handles[o.i]
                   X == U!Step(ResView(s, h.r), U!Op("Blacklist", h.v, FALSE, FALSE, FALSE, "none", FALSE, 0))
               IN {IF y.res.err = "" THEN Out({""}, NoV, WithSelection([s EXCEPT !.res[h.r].bl = y.st.bl], {h.r}, [r \in R |-> y.st.sel]), <<>>, "", NoU)
                   ELSE Out({"refused"}, NoV, s, <<>>, "", NoU) : y \in X}
    [] o.op = "Restart" ->      \* new registry: ScanStorage, LoadIndexes, SelectVersions
          {Out({IF x.oks[1] /\ x.oks[2] THEN "" ELSE "failed"}, NoV, SelectAll(x.st), x.reqs, "", NoU) : x \in Both(Restarted(s), LoadIndex)}

\* DownloadUpdates(includeManual = o.flag) and GetFile(Ident[o.r]) called at the same time: registry operations
\* exclude each other (F6), so the pair behaves like one of the two orders and the requests of the two calls
\* do not interleave.  GetFile looks at the Available flag before it waits for the running operation, so after
\* a DownloadUpdates that fetched its version it may or may not fetch that version once more.
ParOutcome(d, g, first, second) ==
    [errs |-> d.errs, v |-> NoV, errs2 |-> g.errs, v2 |-> g.v, st |-> second.st, reqs |-> first.reqs \o second.reqs,
     opid |-> "par", u |-> d.u]
Step(s, o) ==
    IF o.op # "Par" THEN Step1(s, o)
    ELSE LET D == [NoArg("Download") EXCEPT !.flag = o.flag]
             G == [NoArg("GetFile") EXCEPT !.r = o.r]
             again(x, y) ==      \* y: GetFile after the download run x
                 IF s.cfg.online /\ y.v # NoV /\ y.v \notin s.res[o.r].av /\ y.v \in x.st.res[o.r].av
                 THEN {[y EXCEPT !.reqs = Fetch(x.st, FileServers(x.st, o.r, y.v), 5, "file", o.r, y.v).reqs]}
                 ELSE {}
         IN UNION {UNION {{ParOutcome(x, z, x, z) : z \in {y} \cup again(x, y)} : y \in Step1(x.st, G)} : x \in Step1(s, D)}
            \cup UNION {{ParOutcome(x, y, y, x) : x \in Step1(y.st, D)} : y \in Step1(s, G)}

\* ------------------------------------------------------------------ F6: what the registry state must look like
\* update state t after a call whose outcome demands u, coming from update state p at clock c
RECURSIVE UpdViolations(_, _, _, _)
UpdViolations(p, c, u, t) ==
    CASE u.mode = "none" -> IF t = p THEN {} ELSE {"update-state-changed"}
      [] u.mode = "checkok" ->
            (IF t.chkAt > c /\ ~t.chkErr THEN {} ELSE {"check-not-reported"})
            \cup (IF t.succAt = t.chkAt THEN {} ELSE {"last-success-not-set"})
            \cup (IF u.plo \subseteq t.pend /\ t.pend \subseteq u.phi THEN {} ELSE {"pending-downloads"})
            \cup (IF t.dlAt = p.dlAt /\ t.dlErr = p.dlErr /\ t.lastdl = p.lastdl THEN {} ELSE {"download-report-changed"})
      [] u.mode = "checkfail" ->
            (IF t.chkAt > c /\ t.chkErr THEN {} ELSE {"check-error-not-reported"})
            \cup (IF t.succAt = p.succAt THEN {} ELSE {"last-success-moved-on-failure"})
            \cup (IF t.dlAt = p.dlAt /\ t.dlErr = p.dlErr /\ t.lastdl = p.lastdl THEN {} ELSE {"download-report-changed"})
      [] u.mode = "checkcancel" -> IF t = p THEN {} ELSE UpdViolations(p, c, [u EXCEPT !.mode = "checkfail"], t)
      [] u.mode = "dlcancel" -> IF t = p THEN {} ELSE UpdViolations(p, c, [u EXCEPT !.mode = "dl"], t)
      [] u.mode = "dl" ->
            IF u.att = <<>> THEN (IF t = p THEN {} ELSE {"update-state-changed"})
            ELSE LET att == Range(u.att)
                     failed == u.suc # att
                 IN (IF t.dlAt > c THEN {} ELSE {"download-not-reported"})
                    \cup (IF t.dlErr = failed THEN {} ELSE IF failed THEN {"download-error-not-reported"} ELSE {"download-error-without-failure"})
                    \cup (IF failed /\ t.succAt # p.succAt THEN {"last-success-moved-on-failure"} ELSE {})
                    \cup (IF ~failed /\ t.succAt # t.dlAt THEN {"last-success-not-set"} ELSE {})
                    \cup (IF u.suc \subseteq t.lastdl /\ t.lastdl \subseteq att THEN {} ELSE {"last-download-list"})
                    \cup (IF (p.pend \ att) \subseteq t.pend /\ t.pend \subseteq (p.pend \ u.suc) THEN {} ELSE {"pending-downloads"})
                    \cup (IF t.chkAt = p.chkAt /\ t.chkErr = p.chkErr THEN {} ELSE {"check-report-changed"})

\* the notifications ns (sequence of [id, dn, upto, dres, upd]; dn = -1: no details) of a call with operation id
\* opid (""= none) that went from update state p to t and fetched the sequence att of resources
\* (strict = FALSE, calls with a cancelled context: the progress through the downloads need not be complete)
NoteViolations(opid, att, p, t, ns, strict) ==
    LET N == Len(ns) IN
    IF opid = "" THEN (IF N = 0 THEN {} ELSE {"state-change-outside-operation"})
    ELSE IF opid = "par" THEN    \* concurrent calls: the callback may run late; details belong to the download run only
         (IF \A j \in 1..N : ns[j].dn # -1 => ns[j].id = "downloading" THEN {} ELSE {"details-outside-download"})
    ELSE IF N < 2 THEN {"state-change-not-notified"}
    ELSE (IF ns[1].id = opid /\ ns[1].dn = -1 /\ ns[1].upd = p THEN {} ELSE {"first-notification"})
         \cup (IF ns[N].id = "ready" /\ ns[N].dn = -1 /\ ns[N].upd = t THEN {} ELSE {"last-notification"})
         \cup (IF \A j \in 1..(N - 1) : ns[j].id = opid THEN {} ELSE {"state-id-during-operation"})
         \cup (IF \A j \in 1..N : ns[j].upd \in {p, t} /\ (\A k \in j..N : ns[j].upd # p => ns[k].upd # p) THEN {} ELSE {"update-state-notified"})
         \cup (IF opid = "downloading"
               THEN LET n == Len(att)
                        D == {j \in 2..(N - 1) : ns[j].dn # -1}
                    IN (IF /\ \A j \in D : ns[j].dn = n /\ Range(ns[j].dres) = Range(att) /\ ns[j].upto \in 0..n
                           /\ \A j \in D : \A k \in D : j < k => ns[j].upto <= ns[k].upto
                           /\ \A j \in D : (j + 1 <= N - 1) => (j + 1) \in D              \* once set, details stay until the end
                           /\ strict => D # {}
                        THEN {} ELSE {"download-details"})
                       \cup (IF strict => \A q \in 1..n : \E j \in D : ns[j].upto = q THEN {} ELSE {"download-progress-not-notified"})
               ELSE IF \A j \in 1..N : ns[j].dn = -1 THEN {} ELSE {"details-outside-download"})

\* ------------------------------------------------------------------ laws of the model (checked by TLC, UpdFlowGen)
WellFormed(s) ==
    /\ \A r \in R : LET x == s.res[r] IN
          /\ x.av \subseteq x.L /\ x.cur \subseteq x.L /\ x.pre \subseteq x.L /\ x.bl \subseteq x.L
          /\ Cardinality(x.cur) <= 1
          /\ x.sel \in x.L \cup {NoV} /\ x.act \in x.L \cup {NoV}
          /\ x.known <=> x.L # {}
          /\ x.L \cap U!PreNum \subseteq x.pre
          /\ BadV \notin x.L
          /\ x.av = {v \in 1..6 : <<r, v>> \in s.files}        \* available <=> the file is in the storage dir
          /\ x.act # NoV => x.act \in x.av                       \* F4: what is in use is there
          /\ x.idx # 0 => x.known
    /\ \A k \in DOMAIN s.handles : s.handles[k].g # 0 /\ s.handles[k].g < s.nextgen
    /\ \A r \in R : s.gen[r] < s.nextgen /\ s.gen[r] \notin s.upg
    /\ \A i \in I : s.disk[i].kind \in {"none", "v2", "old"} /\ s.lmax[i] >= s.last[i]

\* laws about single calls in state s
CallLaws(s) ==
    \* F3: an available version is never requested; requests go to configured servers in rotation
    /\ \A m \in BOOLEAN : \A x \in Step(s, [NoArg("Download") EXCEPT !.flag = m]) :
          /\ \A j \in DOMAIN x.reqs : /\ x.reqs[j].k = "file" /\ x.reqs[j].v \notin s.res[x.reqs[j].a].av
                                      /\ x.reqs[j].u \in 1..s.cfg.nurls
          /\ s.files \subseteq x.st.files
          \* everything is fetched when the servers deliver, and then nothing is left to do
          /\ (\A u \in 1..s.cfg.nurls : s.srv[u].ffail = {}) =>
                /\ Pending(x.st, m, TRUE) = {}
                /\ \A y \in Step(x.st, [NoArg("Download") EXCEPT !.flag = m]) : y.reqs = <<>>
    \* F4: GetFile asks a server only for a version that is not available, and never when offline
    /\ \A r \in R : \A x \in Step(s, [NoArg("GetFile") EXCEPT !.r = r]) :
          /\ (x.reqs # <<>>) => s.cfg.online /\ \A j \in DOMAIN x.reqs : x.reqs[j].v \notin s.res[r].av
          /\ ("" \in x.errs) => /\ x.st.res[r].act = x.v /\ x.v \in x.st.res[r].av
                                /\ \A y \in Step(x.st, [NoArg("GetFile") EXCEPT !.r = r]) : y.reqs = <<>> /\ y.v = x.v
    \* F2: an index registered later overrides an earlier one; a failed round changes nothing
    /\ \A y \in Both(s, DlIndex) :
          /\ (~y.oks[1] /\ ~y.oks[2]) => y.st = s
          /\ y.st.res[3] = s.res[3]                       \* outside the indexes' authority
          /\ \A r \in InAuth :
                LET v1 == y.st.disk[1].rel[r]
                    v2 == y.st.disk[2].rel[r]
                IN /\ (y.oks[2] /\ v2 \in 1..6) => y.st.res[r].cur = {v2} /\ y.st.res[r].idx = 2
                   /\ (y.oks[1] /\ v1 \in 1..6 /\ ~(y.oks[2] /\ v2 # 0)) => y.st.res[r].cur = {v1} /\ y.st.res[r].idx = 1
    \* a cancelled context: nothing is fetched, accepted or made available
    /\ \A n \in {"UpdateIndexes", "LoadIndexes", "Download"} : \A x \in Step(s, [NoArg(n) EXCEPT !.mode = "cancelled"]) :
          /\ x.reqs = <<>> /\ x.st.files = s.files /\ \A r \in R : x.st.res[r].av = s.res[r].av
          /\ x.st.disk = s.disk
          /\ (n # "LoadIndexes") => x.st = s
    \* F5: signals are never withdrawn
    /\ \A o \in {NoArg("Select"), NoArg("UpdateIndexes"), NoArg("Download")} : \A x \in Step(s, o) : s.upg \subseteq x.st.upg
    /\ \A x \in Step(s, NoArg("Select")) :
          \A k \in DOMAIN s.handles : LET h == s.handles[k] IN
              (x.st.res[h.r].sel # x.st.res[h.r].act /\ h.g = s.gen[h.r]) => h.g \in x.st.upg
====
