SPECIFICATION Spec
CONSTANTS PromptMs = 1500
POSTCONDITION Accepted
CHECK_DEADLOCK FALSE
