---- MODULE StopTrace ----
\* Trace validation of the real stop protocol against StopAbs (C05, C06).
EXTENDS StopAbs, Json

Trace == ndJsonDeserialize("trace.ndjson")
VARIABLE l
tvars == <<avars, l>>
Ev == Trace[l]

TInit == AbsInit /\ l = 1
TNext == /\ l <= Len(Trace)
         /\ l' = l + 1
         /\ CASE Ev.e = "init"     -> Reset(Ev.ids, Ev.kinds, Ev.hasStopFn, Ev.panics, Ev.failing, Ev.backoffs, IF "dep" \in DOMAIN Ev THEN Ev.dep ELSE FALSE)
              [] Ev.e = "wbegin"   -> WBegin(Ev.i, Ev.ctxdone, Ev.t)
              [] Ev.e = "wend"     -> WEnd(Ev.i, Ev.ctxdone, Ev.t)
              [] Ev.e = "stopcall" -> StopCall(Ev.t)
              [] Ev.e = "fnbegin"  -> FnBegin(Ev.ctxdone, Ev.t)
              [] Ev.e = "fnend"    -> FnEnd(Ev.t)
              [] Ev.e = "released" -> Released(Ev.t)
              [] Ev.e = "offline"  -> Offline(Ev.t)
              [] Ev.e = "depstop"  -> DepStop(Ev.t)
              [] Ev.e = "stopret"  -> StopRet(Ev.t)
              [] Ev.e = "wret"     -> WRet(Ev.i, Ev.isPanic, Ev.valueOK, Ev.hasStack)
              [] Ev.e = "report"   -> Report(Ev.i, Ev.severity, Ev.hasStack)
              [] Ev.e = "final"    -> Final(Ev.workers, Ev.tasks, Ev.micro, Ev.alive)
              [] Ev.e = "requeued" -> Requeued(Ev.i, Ev.t)
              [] Ev.e = "restarted" -> RanAgain(Ev.i)
              [] Ev.e = "note"     -> UNCHANGED avars
              [] OTHER             -> FALSE
Spec == TInit /\ [][TNext]_tvars
Accepted == TLCGet("stats").diameter - 1 = Len(Trace)
====
