---- MODULE HookCancel ----
\* database/controller.go run*Hooks vs database/hook.go RegisteredHook.Cancel (implementation-shaped, C14):
\* an operation iterates over the registered hooks while it holds the hooks read lock; Cancel takes the write
\* lock, removes the entry *in place* (the slice shares its backing array) and returns.
\* HoldLock = TRUE is the code; FALSE is the plausible regression "take the slice header under the lock, iterate
\* after releasing it", whose counterexamples are replayed against the real code.
EXTENDS Integers, Sequences, FiniteSets, TLC

CONSTANTS NHooks,    \* hooks 1..NHooks, registered in this order
          Cancels,   \* set of hooks that get cancelled
          NOps,      \* number of operations (puts) 1..NOps
          HoldLock

Hooks == 1..NHooks
Ops == 1..NOps

VARIABLES arr,      \* backing array of the hook list (sequence of hook ids; 0 = vacated slot)
          len,      \* current length of the list
          readers,  \* operations holding the read lock
          writer,   \* canceller holding the write lock (0 = none)
          opc,      \* [Ops -> "idle" | "locked" | "iter" | "in" | "done"]
          oidx,     \* [Ops -> index into arr]
          olen,     \* [Ops -> length seen when the iteration began]
          cur,      \* [Ops -> hook being executed]
          cpc,      \* [Cancels -> "idle" | "locked" | "returned"]
          calls,    \* [Ops -> sequence of hooks called]
          afterCancel  \* ghost: a hook began although its Cancel had returned
vars == <<arr, len, readers, writer, opc, oidx, olen, cur, cpc, calls, afterCancel>>

Init == /\ arr = [i \in 1..NHooks |-> i] /\ len = NHooks /\ readers = {} /\ writer = 0
        /\ opc = [o \in Ops |-> "idle"] /\ oidx = [o \in Ops |-> 1] /\ olen = [o \in Ops |-> 0]
        /\ cur = [o \in Ops |-> 0]
        /\ cpc = [h \in Cancels |-> "idle"] /\ calls = [o \in Ops |-> <<>>] /\ afterCancel = FALSE

\* ---- operation ----
OpLock(o) == /\ opc[o] = "idle" /\ writer = 0
             /\ readers' = readers \cup {o} /\ opc' = [opc EXCEPT ![o] = IF HoldLock THEN "iter" ELSE "snap"]
             /\ olen' = [olen EXCEPT ![o] = len] /\ oidx' = [oidx EXCEPT ![o] = 1]
             /\ UNCHANGED <<arr, len, writer, cur, cpc, calls, afterCancel>>
\* regression: the lock is released right after the slice header (pointer, length) was copied
OpSnap(o) == /\ opc[o] = "snap" /\ readers' = readers \ {o} /\ opc' = [opc EXCEPT ![o] = "iter"]
             /\ UNCHANGED <<arr, len, writer, oidx, olen, cur, cpc, calls, afterCancel>>
OpNext(o) == /\ opc[o] = "iter"
             /\ IF oidx[o] > olen[o]
                THEN /\ opc' = [opc EXCEPT ![o] = "done"] /\ readers' = readers \ {o}
                     /\ UNCHANGED <<cur, calls, afterCancel, oidx>>
                ELSE LET h == arr[oidx[o]] IN
                     /\ oidx' = [oidx EXCEPT ![o] = @ + 1]
                     /\ IF h = 0 THEN UNCHANGED <<opc, cur, calls, afterCancel>>
                        ELSE /\ opc' = [opc EXCEPT ![o] = "in"] /\ cur' = [cur EXCEPT ![o] = h]
                             /\ calls' = [calls EXCEPT ![o] = Append(@, h)]
                             /\ afterCancel' = (afterCancel \/ (h \in Cancels /\ cpc[h] = "returned"))
                     /\ UNCHANGED readers
             /\ UNCHANGED <<arr, len, writer, olen, cpc>>
\* the hook function returns (it may take arbitrarily long)
OpReturn(o) == /\ opc[o] = "in" /\ opc' = [opc EXCEPT ![o] = "iter"] /\ cur' = [cur EXCEPT ![o] = 0]
               /\ UNCHANGED <<arr, len, readers, writer, oidx, olen, cpc, calls, afterCancel>>

\* ---- Cancel ----
RECURSIVE Shift(_, _, _)
Shift(a, k, n) == IF k >= n THEN [a EXCEPT ![n] = 0] ELSE Shift([a EXCEPT ![k] = a[k + 1]], k + 1, n)
Pos(h) == CHOOSE i \in 1..len : arr[i] = h
CLock(h) == /\ cpc[h] = "idle" /\ writer = 0 /\ readers = {}
            /\ writer' = h /\ cpc' = [cpc EXCEPT ![h] = "locked"]
            /\ UNCHANGED <<arr, len, readers, opc, oidx, olen, cur, calls, afterCancel>>
CRemove(h) == /\ cpc[h] = "locked"
              /\ arr' = Shift(arr, Pos(h), len) /\ len' = len - 1
              /\ writer' = 0 /\ cpc' = [cpc EXCEPT ![h] = "returned"]
              /\ UNCHANGED <<readers, opc, oidx, olen, cur, calls, afterCancel>>

Next == \/ \E o \in Ops : OpLock(o) \/ OpSnap(o) \/ OpNext(o) \/ OpReturn(o)
        \/ \E h \in Cancels : CLock(h) \/ CRemove(h)
Spec == Init /\ [][Next]_vars /\ WF_vars(Next)

\* ---- properties ----
NoCallAfterCancel == ~afterCancel
RECURSIVE NoDup(_)
NoDup(s) == IF Len(s) < 2 THEN TRUE ELSE (\A i \in 2..Len(s) : s[i] # s[1]) /\ NoDup(Tail(s))
AtMostOncePerOp == \A o \in Ops : NoDup(calls[o])
InOrder == \A o \in Ops : \A i, j \in 1..Len(calls[o]) : i < j => calls[o][i] < calls[o][j]
\* hooks that nobody cancels are called by every finished operation
Complete == \A o \in Ops : opc[o] = "done" => \A h \in Hooks \ Cancels : \E i \in 1..Len(calls[o]) : calls[o][i] = h
AllDone == <>(\A o \in Ops : opc[o] = "done")
====
