---- MODULE ApiClient ----
\* Extension check X13: the websocket client of the database API (portbase/api/client).
\*
\* STATEMENT (derived from client.go, api.go, message.go, websocket.go and the protocol comment in
\* api/database.go; where these are silent the model allows every outcome):
\*
\*  S1  fresh ids      Every operation started with Get/Query/Sub/Qsub/Create/Update/Insert/Delete or
\*                     NewOperation gets an id that no other operation of this client ever had, also when
\*                     operations are started concurrently.
\*  S2  request        While the client is connected the request of a started operation reaches the server
\*                     exactly once, in the documented form  <id>|<type>|<key>[|<dsd value>].  A request
\*                     started while the client is offline is not lost: it reaches the server exactly once
\*                     after the next reconnect.  A request that has been sent is never sent a second time,
\*                     unless EnableResuscitation was called for the operation.
\*  S3  dispatch       The callback of an operation receives exactly the well-formed messages the server sends
\*                     for its id, unchanged (type, key, raw value), in the order sent, and no others.  The
\*                     value of ok/upd/new and the text of error/warning are free form: a separator inside
\*                     them belongs to them.  Messages for unknown ids, frames without a separator and frames
\*                     that are too short for their type are dropped without harm (the client goes on working).
\*                     (Open: unknown message types, surplus fields behind del/done/success, error/warning
\*                     without text; whether an operation that got its terminating message is forgotten.)
\*  S4  cancel         After Cancel has returned, messages the server sends for that id are no longer delivered.
\*                     Cancel may be called more than once and while messages for the operation are arriving;
\*                     it never brings the client down.  (Open: whether Cancel tells the server.)
\*  S5  offline        When the connection is lost the client says so (Offline() is closed) and every open
\*                     operation with a callback is told exactly once with a message of type "offline";
\*                     messages received before the loss are still delivered, in order.  (Open: the position
\*                     of the offline message relative to messages that were in flight.)
\*  S6  reconnect      StayConnected connects again after the back-off (1s): never earlier than 1s after the
\*                     loss, attempts at least 1s apart, and within the back-off (x10 margin) once the server
\*                     accepts connections again; Online() is closed then.  Operations with resuscitation
\*                     whose request had been sent get it sent again, exactly once per reconnect, however many
\*                     there are; operations without are not re-sent.
\*  S7  shutdown       Shutdown ends StayConnected and closes the connection; it may be called repeatedly;
\*                     starting or cancelling operations afterwards does not block or panic.
\*  S8  robustness     No exported call panics or blocks for ever in any of the above.
EXTENDS Integers, Sequences, FiniteSets, TLC

Kinds   == {"get", "query", "sub", "qsub", "create", "update", "insert", "delete", "none"}
WithVal == {"create", "update", "insert"}
Keys    == {"k1", "k2"}
Vals    == {"v1", "v2"}
\* wire form of the symbolic values (dsd: format byte J + JSON); the concrete Go values live in the driver
ValWire(v) == IF v = "v1" THEN "J{\"n\":1}" ELSE "J{\"s\":\"x|y\"}"

M(t, k, v) == [ty |-> t, key |-> k, val |-> v]
OFF == M("offline", "", "")

\* ------------------------------------------------------------------ frames the server may send
\* parts: what follows the id on the wire (joined with "|");  cls: good = must be delivered as exp,
\* bad = must not be delivered, open = may be dropped or delivered as a message of type parts[1]
F(p, c, e) == [parts |-> p, cls |-> c, exp |-> e]
Frames == {
    F(<<"ok", "k1", "v1">>, "good", M("ok", "k1", "v1")),
    F(<<"ok", "k2", "v1", "x", "y">>, "good", M("ok", "k2", "v1|x|y")),
    F(<<"upd", "k1", "v2">>, "good", M("upd", "k1", "v2")),
    F(<<"new", "k2", "v1">>, "good", M("new", "k2", "v1")),
    F(<<"del", "k1">>, "good", M("del", "k1", "")),
    F(<<"warning", "w1">>, "good", M("warning", "w1", "")),
    F(<<"error", "e1">>, "good", M("error", "e1", "")),
    F(<<"done">>, "good", M("done", "", "")),
    F(<<"success">>, "good", M("success", "", "")),
    F(<<"error", "e1", "x">>, "good", M("error", "e1|x", "")),
    F(<<"warning", "w1", "x", "y">>, "good", M("warning", "w1|x|y", "")),
    F(<<"ok", "k1">>, "bad", OFF),
    F(<<"upd">>, "bad", OFF),
    F(<<"new", "k1">>, "bad", OFF),
    F(<<"del">>, "bad", OFF),
    F(<<>>, "bad", OFF),
    F(<<"bogus", "z">>, "open", OFF),
    F(<<"del", "k1", "x">>, "open", OFF),
    F(<<"done", "x">>, "open", OFF),
    F(<<"success", "x", "y">>, "open", OFF),
    F(<<"error">>, "open", OFF),
    F(<<"warning">>, "open", OFF) }
FrameOf(p) == CHOOSE f \in Frames : f.parts = p
KnownParts == { f.parts : f \in Frames }
\* frames without any id
Garbage == { <<>>, <<"garbage">>, <<"", "">>, <<"x", "ok", "k1", "v1">> }

\* the message that ends an operation of that kind (over-approximated: it only opens outcomes)
Terminating(kind, ty) ==
    CASE kind = "get"   -> ty \in {"ok", "error"}
      [] kind = "query" -> ty \in {"done", "error"}
      [] kind = "sub"   -> ty \in {"done", "error"}
      [] kind = "qsub"  -> ty \in {"error"}
      [] kind = "none"  -> FALSE
      [] OTHER          -> ty \in {"success", "error"}

\* ------------------------------------------------------------------ model state
\* ops: sequence of [kind, key, val, mode, resus, cancelled, sent, pend, fin]; conn: online | offline | down
NewOp(kind, key, val, mode, resus, conn) ==
    [kind |-> kind, key |-> key, val |-> val, mode |-> mode, resus |-> resus, cancelled |-> FALSE,
     sent |-> (conn = "online" /\ kind # "none"), pend |-> (conn # "online" /\ kind # "none"), fin |-> FALSE]
Repeat(x, n) == [i \in 1..n |-> x]
Init0 == [ops |-> <<>>, conn |-> "online"]

OpNames == {"start", "many", "storm", "srv", "flood", "cancel", "drop", "await", "shutdown"}
Blank == [op |-> "", kind |-> "", key |-> "", val |-> "", mode |-> "", resus |-> FALSE, to |-> 0, parts |-> <<>>,
          how |-> "", hold |-> 0, g |-> 0, m |-> 0, echo |-> FALSE]

Enabled(st, o) ==
    CASE o.op = "start"    -> TRUE
      [] o.op = "many"     -> st.conn = "online"
      [] o.op = "storm"    -> st.conn = "online"
      [] o.op = "srv"      -> st.conn = "online" /\ o.to \in -1..Len(st.ops)
      [] o.op = "flood"    -> st.conn = "online" /\ o.to \in 1..Len(st.ops)
      [] o.op = "cancel"   -> o.to \in 1..Len(st.ops)
      [] o.op = "drop"     -> st.conn = "online"
      [] o.op = "await"    -> st.conn = "offline"
      [] o.op = "shutdown" -> TRUE
      [] OTHER             -> FALSE

Next(st, o) ==
    CASE o.op = "start" -> [st EXCEPT !.ops = Append(@, NewOp(o.kind, o.key, o.val, o.mode, o.resus, st.conn))]
      [] o.op = "many"  -> [st EXCEPT !.ops = @ \o Repeat(NewOp("sub", "k1", "", "func", o.resus, "online"), o.g * o.m)]
      [] o.op = "storm" -> [st EXCEPT !.ops = @ \o Repeat([NewOp("sub", "k1", "", "nil", FALSE, "online") EXCEPT !.cancelled = TRUE], o.m)]
      [] o.op = "srv"   ->
            IF o.to \in 1..Len(st.ops) /\ FrameOf(o.parts).cls # "bad" /\ Len(o.parts) > 0
               /\ Terminating(st.ops[o.to].kind, o.parts[1]) /\ ~st.ops[o.to].cancelled
            THEN [st EXCEPT !.ops[o.to].fin = TRUE] ELSE st
      [] o.op = "flood" -> IF o.how = "drop" THEN [st EXCEPT !.conn = "offline"]
                           ELSE [st EXCEPT !.ops[o.to].cancelled = TRUE]
      [] o.op = "cancel" -> [st EXCEPT !.ops[o.to].cancelled = TRUE]
      [] o.op = "drop"  -> [st EXCEPT !.conn = "offline"]
      [] o.op = "await" -> [st EXCEPT !.conn = "online",
                                      !.ops = [i \in 1..Len(st.ops) |->
                                                 IF st.ops[i].pend THEN [st.ops[i] EXCEPT !.pend = FALSE, !.sent = TRUE]
                                                 ELSE st.ops[i]]]
      [] o.op = "shutdown" -> [st EXCEPT !.conn = "down"]

\* ------------------------------------------------------------------ what may be observed
ReqFrame(op, id) == IF op.kind \in WithVal THEN <<id, op.kind, op.key, ValWire(op.val)>> ELSE <<id, op.kind, op.key>>
CancelFrame(id) == <<id, "cancel">>

\* requests that have to arrive / may arrive when the connection comes back
MustResend(st) == { i \in 1..Len(st.ops) : LET p == st.ops[i] IN
                      \/ p.pend /\ ~p.cancelled
                      \/ p.resus /\ p.sent /\ ~p.cancelled /\ ~p.fin }
MayResend(st)  == { i \in 1..Len(st.ops) : LET p == st.ops[i] IN
                      \/ p.pend /\ p.cancelled
                      \/ p.resus /\ p.sent /\ ~p.cancelled /\ p.fin }

Count(f, w) == Cardinality({ k \in 1..Len(w) : w[k] = f })
\* every frame of must exactly once, frames of may at most once, nothing else
WireIs(w, must, may) == /\ \A k \in 1..Len(w) : w[k] \in must \cup may
                        /\ \A f \in must : Count(f, w) = 1
                        /\ \A f \in may : Count(f, w) <= 1

IsPrefix(s, t) == Len(s) <= Len(t) /\ \A k \in 1..Len(s) : s[k] = t[k]
Quiet(got, S) == \A i \in S : got[i] = <<>>

\* deliveries to operation p when the server sends the frame with these parts for its id
Delivered(p, parts, g) ==
    LET f == FrameOf(parts) IN
    IF p.cancelled \/ p.mode = "nil" THEN g = <<>>
    ELSE IF f.cls = "bad" THEN g = <<>>
    ELSE IF f.cls = "open" THEN g = <<>> \/ (Len(g) = 1 /\ g[1].ty = parts[1])
    ELSE IF p.fin THEN g = <<>> \/ g = <<f.exp>>
    ELSE g = <<f.exp>>

\* what an operation hears when the connection is lost
OffOK(p, g) == IF p.cancelled \/ p.mode = "nil" THEN g = <<>>
               ELSE IF p.fin THEN g = <<>> \/ g = <<OFF>>
               ELSE g = <<OFF>>

FloodSeq(m) == [j \in 1..m |-> M("upd", "k1", ToString(j))]
NoOff(g) == SelectSeq(g, LAMBDA x : x # OFF)
NumOff(g) == Len(g) - Len(NoOff(g))

FreshIds(new, ids, bar) == /\ \A k \in 1..Len(new) : new[k] # "" /\ new[k] # bar /\ \A j \in 1..Len(ids) : ids[j] # new[k]
                           /\ \A k, j \in 1..Len(new) : k # j => new[k] # new[j]

\* st: state before the step, ids: ids of st.ops, o: the step, b: what the driver observed
ObsOK(st, ids, bar, o, b) ==
    LET st2 == Next(st, o)
        n   == Len(st.ops)
        n2  == Len(st2.ops)
        old == 1..n
    IN
    /\ b.panic = "" /\ b.returned
    /\ Len(b.got) = n2
    /\ b.sync = (IF st2.conn = "online" THEN "ok" ELSE "na")
    /\ CASE o.op = "start" ->
              /\ FreshIds(<<b.id>>, ids, bar)
              /\ b.wire = (IF st.conn = "online" /\ o.kind # "none" THEN <<ReqFrame(st2.ops[n2], b.id)>> ELSE <<>>)
              /\ Quiet(b.got, 1..n2)
         [] o.op = "many" ->
              /\ Len(b.ids) = o.g * o.m /\ FreshIds(b.ids, ids, bar)
              /\ WireIs(b.wire, { ReqFrame(st2.ops[n + k], b.ids[k]) : k \in 1..Len(b.ids) }, {})
              /\ Quiet(b.got, old)
              /\ \A k \in 1..Len(b.ids) : b.got[n + k] = (IF o.echo THEN <<M("upd", "k1", "v1")>> ELSE <<>>)
         [] o.op = "storm" ->
              /\ Len(b.ids) = o.m /\ FreshIds(b.ids, ids, bar)
              /\ WireIs(b.wire, { ReqFrame(st2.ops[n + k], b.ids[k]) : k \in 1..Len(b.ids) },
                                { CancelFrame(b.ids[k]) : k \in 1..Len(b.ids) })
              /\ Quiet(b.got, 1..n2)
         [] o.op = "srv" ->
              /\ b.wire = <<>>
              /\ Quiet(b.got, old \ {o.to})
              /\ o.to \in old => Delivered(st.ops[o.to], o.parts, b.got[o.to])
         [] o.op = "flood" /\ o.how = "cancel" ->
              /\ WireIs(b.wire, {}, {CancelFrame(ids[o.to])})
              /\ Quiet(b.got, old \ {o.to})
              /\ IF st.ops[o.to].cancelled \/ st.ops[o.to].mode = "nil" THEN b.got[o.to] = <<>>
                 ELSE IsPrefix(b.got[o.to], FloodSeq(o.m))
         [] o.op = "flood" /\ o.how = "drop" ->
              /\ b.wire = <<>> /\ b.offline
              /\ \A i \in old \ {o.to} : OffOK(st.ops[i], b.got[i])
              /\ LET p == st.ops[o.to] g == b.got[o.to] IN
                 IF p.cancelled \/ p.mode = "nil" THEN g = <<>>
                 ELSE /\ IsPrefix(NoOff(g), FloodSeq(o.m))
                      /\ IF p.fin THEN NumOff(g) <= 1 ELSE NumOff(g) = 1
         [] o.op = "cancel" ->
              /\ WireIs(b.wire, {}, {CancelFrame(ids[o.to])})
              /\ Quiet(b.got, old)
         [] o.op = "drop" ->
              /\ b.wire = <<>> /\ b.offline
              /\ \A i \in old : OffOK(st.ops[i], b.got[i])
         [] o.op = "await" ->
              /\ b.online
              /\ b.since_drop_ms >= 1000
              /\ (b.refused + 1) * 1000 <= b.since_drop_ms
              /\ b.since_open_ms >= 0 /\ b.since_open_ms <= 10000
              /\ WireIs(b.wire, { ReqFrame(st.ops[i], ids[i]) : i \in MustResend(st) },
                                { ReqFrame(st.ops[i], ids[i]) : i \in MayResend(st) })
              /\ Quiet(b.got, old)
         [] o.op = "shutdown" ->
              /\ b.stopped /\ b.wire = <<>>
              /\ IF st.conn = "online"
                 THEN b.srvclosed /\ \A i \in old : b.got[i] = <<>> \/ OffOK(st.ops[i], b.got[i])
                 ELSE Quiet(b.got, old)

\* ------------------------------------------------------------------ laws of the model (checked by TLC on ApiClientGen)
\* a request is pending or sent, never both; an operation without request is neither
OpsWF(st) == \A i \in 1..Len(st.ops) : LET p == st.ops[i] IN
                /\ ~(p.pend /\ p.sent)
                /\ p.kind = "none" => ~p.pend /\ ~p.sent
                /\ st.conn = "online" => ~p.pend
\* no request is lost and none is duplicated by a reconnect
ResendLaw(st) == /\ MustResend(st) \cap MayResend(st) = {}
                 /\ \A i \in 1..Len(st.ops) : LET p == st.ops[i] IN
                      /\ (p.pend /\ ~p.cancelled) => i \in MustResend(st)
                      /\ (p.sent /\ ~p.resus) => i \notin MustResend(st) \cup MayResend(st)
                      /\ p.kind = "none" => i \notin MustResend(st) \cup MayResend(st)
\* every frame of the table is decided for every operation state: exactly the good ones must come through
\* unchanged, a cancelled operation and one without callback hear nothing
DispatchLaw(st) == \A i \in 1..Len(st.ops) : \A f \in Frames : LET p == st.ops[i] IN
                      /\ (f.cls = "good" /\ ~p.cancelled /\ p.mode = "func") => Delivered(p, f.parts, <<f.exp>>)
                      /\ (f.cls = "good" /\ ~p.cancelled /\ p.mode = "func" /\ ~p.fin) => ~Delivered(p, f.parts, <<>>)
                      /\ (f.cls = "bad" \/ p.cancelled \/ p.mode = "nil") => ~Delivered(p, f.parts, <<f.exp>>)
                      /\ Delivered(p, f.parts, <<>>) \/ Delivered(p, f.parts, <<f.exp>>)
                      /\ ~Delivered(p, f.parts, <<f.exp, f.exp>>)
                      /\ (p.cancelled \/ p.mode = "nil") => (OffOK(p, <<>>) /\ ~OffOK(p, <<OFF>>))
                      /\ (~p.cancelled /\ p.mode = "func" /\ ~p.fin) => (OffOK(p, <<OFF>>) /\ ~OffOK(p, <<>>))
====
