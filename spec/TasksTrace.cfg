SPECIFICATION Spec
CONSTANTS
 EarlyMs = 20
 DueMs = 300
POSTCONDITION Accepted
CHECK_DEADLOCK FALSE
