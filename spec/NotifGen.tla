---- MODULE NotifGen ----
\* Generates histories for the notifications driver (harness/cmd/notif) from spec/Notif.tla and, in exhaustive mode,
\* checks the laws of the model itself on every reachable state (X04).
EXTENDS Notif, Json

CONSTANTS MaxLen,     \* operations per history
          MaxObj,     \* notification objects per history
          Emit,       \* print finished histories as JSON (simulation)
          Background, \* the cleaner also runs between the operations (exhaustive check of the laws)
          WithInsert  \* histories contain database inserts

VARIABLES s, hist, done
vars == <<s, hist, done>>

Op(name, k, id, sel, exp, flag, ks) == [op |-> name, k |-> k, id |-> id, sel |-> sel, exp |-> exp, flag |-> flag, ks |-> ks]
SetToSeq(S) == LET RECURSIVE f(_) f(T) == IF T = {} THEN <<>> ELSE LET e == CHOOSE e \in T : \A y \in T : e <= y IN <<e>> \o f(T \ {e}) IN f(S)

Objs == 1..Len(s.objs)
Family == {"create", "app", "chan", "ui", "tick"} \cup (IF WithInsert THEN {"insert"} ELSE {})
Raw(f) ==
  CASE f = "create" -> {Op("notify", 0, i, "", e, TRUE, <<>>) : i \in IDs, e \in {"never", "future", "past"}}
                       \cup {Op("notify", 0, i, "", "never", FALSE, <<>>) : i \in IDs}
    [] f = "app" -> {Op("save", k, "", "", "", FALSE, <<>>) : k \in Objs}
                    \cup {Op("saveexp", k, "", "", e, FALSE, <<>>) : k \in Objs, e \in {"never", "future"}}
                    \cup {Op("update", k, "", "", e, b, <<>>) : k \in Objs, e \in {"never", "future"}, b \in BOOLEAN}
                    \cup {Op("setfn", k, "", "", "", FALSE, <<>>) : k \in Objs}
                    \cup {Op("delete", k, "", "", "", FALSE, <<>>) : k \in Objs}
                    \cup {Op("deleteid", 0, i, "", "", FALSE, <<>>) : i \in IDs}
    [] f = "chan" -> {Op("listen", k, "", "", "", FALSE, <<>>) : k \in {j \in Objs : Len(s.objs[j].rl) < 2}}
                     \cup {Op("waitexp", k, "", "", "", FALSE, <<>>) : k \in {j \in Objs : Len(s.objs[j].el) < 2}}
    [] f = "ui" -> {Op("dbput", 0, i, x, "", b, <<>>) : i \in IDs, x \in Sels \cup {""}, b \in BOOLEAN}
                   \cup {Op("dbput", 0, i, x, "", FALSE, <<>>) : i \in IDs, x \in Sels}    \* (selections twice as likely)
                   \cup {Op("dbdelete", 0, i, "", "", FALSE, <<>>) : i \in IDs}
    [] f = "tick" -> {Op("tick", 0, "", "", "", FALSE, SetToSeq(K)) : K \in SUBSET {k \in Objs : Live(s, k) /\ s.objs[k].exp = "future"}}
    [] f = "insert" -> {Op("dbinsert", 0, i, x, "", FALSE, <<>>) : i \in IDs, x \in Sels}
Creates(o) == o.op = "notify" \/ (o.op = "dbput" /\ ~Visible(s, o.id))
Cand(f) == {o \in Raw(f) : Legal(s, o) /\ (Creates(o) => Len(s.objs) < MaxObj)}

Init == s = InitState /\ hist = <<>> /\ done = FALSE

Pick(S) == IF Emit THEN (IF S = {} THEN {} ELSE {RandomElement(S)}) ELSE S

DoOp == /\ Len(hist) < MaxLen
        /\ \E f \in Pick({g \in Family : Cand(g) # {}}) : \E o \in Pick(Cand(f)) : \E x \in FullStep(s, o, Background) :
              /\ s' = x.s
              /\ hist' = Append(hist, [op |-> o])
        /\ UNCHANGED done

Finish == /\ Len(hist) = MaxLen /\ ~done
          /\ done' = TRUE
          /\ (Emit => PrintT(<<"@@", ToJson([steps |-> hist])>>))
          /\ UNCHANGED <<s, hist>>

Next == DoOp \/ Finish
Spec == Init /\ [][Next]_vars

\* the laws of the model: on every reachable state, for every operation the assumptions admit
AllOps == UNION {Raw(f) : f \in Family}
LawsOK == /\ StateOK(s)
          /\ \A o \in AllOps : Legal(s, o) => (FullStep(s, o, Background) # {} /\ StepOK(s, o, Background))
View == <<s, Len(hist), done>>
====
