---- MODULE NotifGen ----
\* Generates histories for the notifications driver (harness/cmd/notif) from spec/Notif.tla and, in exhaustive mode,
\* checks the laws of the model itself on every reachable state (X04).
EXTENDS Notif, Json

CONSTANTS MaxLen,     \* operations per history
          MaxObj,     \* notification objects per history
          Emit,       \* print finished histories as JSON (simulation)
          Background, \* the cleaner also runs between the operations (exhaustive check of the laws)
          WithInsert, \* histories contain database inserts
          GenIDs,     \* EventIDs used (a subset of IDs keeps the exhaustive check small)
          GenKinds    \* helper functions used

VARIABLES s, hist, done
vars == <<s, hist, done>>

Op(name, k, id, sel, exp, flag, ks) == [op |-> name, k |-> k, id |-> id, sel |-> sel, exp |-> exp, flag |-> flag, ks |-> ks, n |-> 2]
SetToSeq(S) == LET RECURSIVE f(_) f(T) == IF T = {} THEN <<>> ELSE LET e == CHOOSE e \in T : \A y \in T : e <= y IN <<e>> \o f(T \ {e}) IN f(S)

Objs == 1..Len(s.objs)
Family == {"create", "helper", "app", "chan", "ui", "tick"} \cup (IF WithInsert THEN {"insert"} ELSE {})
Raw(f) ==
  CASE f = "create" -> {Op("notify", 0, i, "", e, TRUE, <<>>) : i \in GenIDs, e \in {"never", "future", "past"}}
                       \cup {Op("notify", 0, i, "", "never", FALSE, <<>>) : i \in GenIDs}
    [] f = "helper" -> {[Op("notify", 0, i, h, "never", TRUE, <<>>) EXCEPT !.n = c] :
                                 i \in GenIDs, h \in GenKinds, c \in {0, 2}}
    [] f = "app" -> {Op("save", k, "", "", "", FALSE, <<>>) : k \in Objs}
                    \cup {Op("saveexp", k, "", "", e, FALSE, <<>>) : k \in Objs, e \in {"never", "future"}}
                    \cup {Op("update", k, "", "", e, b, <<>>) : k \in Objs, e \in {"never", "future"}, b \in BOOLEAN}
                    \cup {Op("setfn", k, "", "", "", FALSE, <<>>) : k \in Objs}
                    \cup {Op("delete", k, "", "", "", FALSE, <<>>) : k \in Objs}
                    \cup {Op("deleteid", 0, i, "", "", FALSE, <<>>) : i \in GenIDs}
                    \cup {Op("cfgsys", 0, "", "", "", b, <<>>) : b \in BOOLEAN}
    [] f = "chan" -> {Op("listen", k, "", "", "", FALSE, <<>>) : k \in {j \in Objs : Len(s.objs[j].rl) < 2}}
                     \cup {Op("waitexp", k, "", "", "", FALSE, <<>>) : k \in {j \in Objs : Len(s.objs[j].el) < 2}}
    [] f = "ui" -> {Op("dbput", 0, i, x, "", b, <<>>) : i \in GenIDs, x \in Sels \cup {""}, b \in BOOLEAN}
                   \cup {Op("dbput", 0, i, x, "", FALSE, <<>>) : i \in GenIDs, x \in Sels}    \* (selections twice as likely)
                   \cup {Op("dbdelete", 0, i, "", "", FALSE, <<>>) : i \in GenIDs}
                   \cup {Op("dbputrace", 0, i, "", "", FALSE, <<>>) : i \in GenIDs}
                   \cup {Op("dbputbad", 0, i, "", "", b, <<>>) : i \in GenIDs, b \in BOOLEAN}
    [] f = "tick" -> {Op("tick", 0, "", "", "", FALSE, SetToSeq(K)) :
                        K \in {J \in SUBSET {k \in Objs : Live(s, k) /\ s.objs[k].exp = "future"} : J # {} \/ Cleanable(s) # {}}}
    [] f = "insert" -> {Op("dbinsert", 0, i, x, "", FALSE, <<>>) : i \in GenIDs, x \in Sels}
Creates(o) == o.op = "notify" \/ (o.op = "dbput" /\ ~Visible(s, o.id))
Cand(f) == {o \in Raw(f) : Legal(s, o) /\ (Creates(o) => Len(s.objs) < MaxObj)}

Init == s = InitState /\ hist = <<>> /\ done = FALSE

Pick(S) == IF Emit THEN (IF S = {} THEN {} ELSE {RandomElement(S)}) ELSE S
\* Where the model leaves the outcome open, generated histories continue along the outcome the implementation is
\* known to take (the UI may create and delete, a put that changes nothing succeeds, Update is throttled, deleting a
\* replaced handle frees the EventID), so that the object numbers of a script fit what the driver will see.
\* This is a bias of the generator only: the trace specification accepts every outcome of Step.
Usual(o, x) ==
  CASE o.op = "dbput" -> x.ret = (IF Visible(s, o.id) /\ s.objs[s.store[o.id]].st = "executed" THEN "err" ELSE "ok")
    [] o.op = "dbdelete" -> x.ret = (IF Visible(s, o.id) THEN "ok" ELSE "err")
    [] o.op = "dbinsert" -> x.ret = (IF Visible(s, o.id) THEN "ok" ELSE "err") /\ (Visible(s, o.id) => x.s.objs[s.store[o.id]].sel = o.sel)
    [] o.op = "update" -> (~o.flag => x.s = s)
    [] o.op = "delete" -> x.s.store[s.objs[o.k].id] = 0
    [] o.op = "dbputrace" -> x.ret = "ok"
    [] OTHER -> TRUE
Outcomes(o) == LET all == FullStep(s, o, Background) IN
               IF Emit /\ {x \in all : Usual(o, x)} # {} THEN {x \in all : Usual(o, x)} ELSE all

DoOp == /\ Len(hist) < MaxLen
        /\ \E f \in Pick({g \in Family : Cand(g) # {}}) : \E o \in Pick(Cand(f)) : \E x \in Outcomes(o) :
              /\ s' = x.s
              /\ hist' = Append(hist, [op |-> o])
        /\ UNCHANGED done

Finish == /\ Len(hist) = MaxLen /\ ~done
          /\ done' = TRUE
          /\ (Emit => PrintT(<<"@@", ToJson([steps |-> hist])>>))
          /\ UNCHANGED <<s, hist>>

Next == DoOp \/ Finish
Spec == Init /\ [][Next]_vars

\* the laws of the model: on every reachable state, for every operation the assumptions admit
AllOps == UNION {Raw(f) : f \in Family}
LawsOK == /\ StateOK(s)
          /\ \A o \in AllOps : Legal(s, o) => (FullStep(s, o, Background) # {} /\ StepOK(s, o, Background))
View == <<s, Len(hist), done>>
====
