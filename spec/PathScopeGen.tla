---- MODULE PathScopeGen ----
\* C18: enumeration of all names over the segment alphabet (BFS: one state per name, one transition per
\* appended segment) with the laws of the PathScope model as invariants / step properties, and emission
\* of every name with its verdict per component operation.  In -simulate mode (thorough tier) the same
\* module draws seeded random longer names.
EXTENDS PathScope, Json, TLC

CONSTANTS MaxLen,    \* longest name (segments)
          PadLen,    \* sandbox padding above the outer directory (> MaxLen)
          Depths,    \* set of root depths (subset of {1, 2})
          AbsSet,    \* subset of BOOLEAN: names with / without a leading separator
          Emit       \* print the vectors

VARIABLES depth, abs, segs
vars == <<depth, abs, segs>>

OpSeq == << <<"fstree", "put">>, <<"fstree", "get">>, <<"fstree", "delete">>, <<"fstree", "query">>,
            <<"zip", "file">>, <<"zip", "dir">>,
            <<"ds", "rel">>, <<"ds", "relchild">>, <<"ds", "absroot">>, <<"ds", "absparent">>, <<"ds", "reldir">>,
            <<"scan", "root">>, <<"scan", "parent">>, <<"scan", "relroot">> >>
KindSeq == <<"root", "child", "parent", "zip">>

\* verdict of the model for one name, per way of resolving it (same order as KindSeq)
Verdicts(d, sg) == [i \in 1..Len(KindSeq) |->
    LET y == LayoutK(KindSeq[i], PadLen, d)
    IN [esc |-> Escapes(y.roots, y.base, sg), cls |-> Class(y.roots, y.base, sg)]]

\* one line per name
Out(d, ab, sg) == Emit => PrintT(<<"@@", ToJson([depth |-> d, abs |-> ab, segs |-> sg, v |-> Verdicts(d, sg)])>>)
\* the table that turns a name into vectors: operations with their kind, the layout of every kind
Table(d) == Emit => PrintT(<<"@T", ToJson([depth |-> d, pad |-> PadLen, kinds |-> KindSeq,
    ops |-> [i \in 1..Len(OpSeq) |-> [comp |-> OpSeq[i][1], op |-> OpSeq[i][2], kind |-> Kind(OpSeq[i][1], OpSeq[i][2])]],
    lay |-> [i \in 1..Len(KindSeq) |-> LayoutK(KindSeq[i], PadLen, d)]])>>)

Init == /\ depth \in Depths
        /\ abs \in AbsSet
        /\ segs = <<>>
        /\ Table(depth)
        /\ Out(depth, abs, segs)

Next == /\ Len(segs) < MaxLen
        /\ \E s \in Seg \cup (IF Len(segs) < 3 /\ \A i \in 1..Len(segs) : segs[i] \notin ExtraSeg THEN ExtraSeg ELSE {}) :
              segs' = Append(segs, s)
        /\ UNCHANGED <<depth, abs>>
        /\ Out(depth, abs, segs')

Spec == Init /\ [][Next]_vars

\* ---- laws of the model (for every way of resolving a name) ----
HasUp(sg) == \E i \in 1..Len(sg) : sg[i] = ".."

OpsCovered == /\ {OpSeq[i] : i \in 1..Len(OpSeq)} = CompOps
              /\ {Kind(co[1], co[2]) : co \in CompOps} = Kinds
              /\ {KindSeq[i] : i \in 1..Len(KindSeq)} = Kinds
\* y: layout, p: resolved path, esc: verdict
\* a resolved path is clean: cleaning is idempotent and leaves no special segment
CleanIsClean(p) == Clean(p) = p /\ \A i \in 1..Len(p) : p[i] \notin {"", ".", ".."}
\* no name of the bounded alphabet reaches the sandbox top: the driver can observe every effect
StaysInSandbox(y) == Low(y.base, segs) >= 1
\* the two formulations of containment agree (prefix with separator  <=>  Rel does not start with "..")
RelAgrees(y, esc) == esc = EscapesRel(y.roots, y.base, segs)
\* without a parent reference nothing leaves the directory it is resolved against
NoUpNoEscape(y, esc) == (~HasUp(segs) /\ Inside(y.roots, y.base)) => ~esc
\* a sibling that extends the root's name is outside, so is every ancestor
SiblingAndAncestorOutside(y, esc) == Class(y.roots, y.base, segs) \in {"sibling-prefix", "sibling-case", "ancestor", "outside"} <=> esc
\* the root itself is not an escape
RootItselfInside(y) == \A i \in 1..Len(y.roots) : ~Escapes(y.roots, y.roots[i], <<>>)

Laws == \A k \in Kinds :
    LET y == LayoutK(k, PadLen, depth)
        p == Resolve(y.base, segs)
        esc == ~Inside(y.roots, p)
    IN /\ esc = Escapes(y.roots, y.base, segs)
       /\ CleanIsClean(p) /\ StaysInSandbox(y) /\ RelAgrees(y, esc) /\ NoUpNoEscape(y, esc)
       /\ SiblingAndAncestorOutside(y, esc) /\ RootItselfInside(y)

\* step laws: resolution is incremental; appending a plain segment never leaves the owned directories
StepLaws == [][\A k \in Kinds :
    LET y == LayoutK(k, PadLen, depth)
        p == Resolve(y.base, segs)
        q == Resolve(y.base, segs')
        s == segs'[Len(segs')]
    IN /\ q = StepSeg(p, s)
       /\ (Inside(y.roots, p) /\ s \in Plain \cup {"", "."}) => Inside(y.roots, q)]_vars
====
