---- MODULE EventsTrace ----
\* X01 - validation of what the real event bus did (harness/cmd/events) against the monitor EventsAbs.
\* trace.ndjson: one observation per line (see Apply in EventsAbs.tla); an "init" line starts the next
\* recorded history.
EXTENDS EventsAbs, Json

Trace == ndJsonDeserialize("trace.ndjson")

VARIABLES ab, l
vars == <<ab, l>>

Init == ab = AbsInit0 /\ l = 1
Next == /\ l <= Len(Trace)
        /\ \E x \in Apply(ab, Trace[l]) : ab' = x
        /\ l' = l + 1
Spec == Init /\ [][Next]_vars

Accepted == TLCGet("stats").diameter - 1 = Len(Trace)
====
