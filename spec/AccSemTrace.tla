---- MODULE AccSemTrace ----
\* X12: validates what harness/cmd/accx recorded against AccSem.  trace.ndjson, one JSON object per line:
\*   {"e":"new","acc":"struct"|"json"|"jsonbytes","st":{leaf key -> value}}     start of one recorded history
\*   {"e":"op","op":{"op","key","val":{"g","v"}},"res":{"ok","v"},"st":{...},"rawsame":bool}
\*        one call with its result, the object afterwards (read without the accessor: Go fields / encoding/json)
\*        and whether the raw object (json.Marshal of the struct + unexported field / the JSON text) is unchanged.
\*   a panic is recorded as a field "panic" of the event: no step of the model has it.
EXTENDS AccSem, Json, TLC

Trace == ndJsonDeserialize("trace.ndjson")

VARIABLES acc, st, l
vars == <<acc, st, l>>

Init == acc = "struct" /\ st = [k \in LeafKeys |-> NoneV] /\ l = 1

New == /\ l <= Len(Trace) /\ Trace[l].e = "new"
       /\ Trace[l].acc \in Accs
       /\ DOMAIN Trace[l].st = LeafKeys
       /\ acc' = Trace[l].acc
       /\ st' = Trace[l].st
       /\ l' = l + 1

DoOp == /\ l <= Len(Trace) /\ Trace[l].e = "op"
        /\ "panic" \notin DOMAIN Trace[l]
        /\ DOMAIN Trace[l].st = LeafKeys
        /\ StepOK(acc, st, Trace[l].op, R(Trace[l].res.ok, Trace[l].res.v), Trace[l].st, Trace[l].rawsame)
        /\ st' = Trace[l].st
        /\ l' = l + 1
        /\ UNCHANGED acc

Next == New \/ DoOp
Spec == Init /\ [][Next]_vars

Accepted == TLCGet("stats").diameter - 1 = Len(Trace)
====
