---- MODULE ContainerTrace ----
\* Validates traces recorded from the Go container against the reference semantics (C16).
\* trace.ndjson: one JSON object per line:
\*   {"e":"new","parts":[[..],..]}                      a new container (start of one recorded history)
\*   {"e":"op","op":{...},"res":{...},"len":n,"all":[[..],..]}
\*        one operation on container op.c with its observed result, Length() of that container and the
\*        bytes held by every container of the history afterwards (read with Peek, which changes nothing)
EXTENDS Container, Json

Trace == ndJsonDeserialize("trace.ndjson")

VARIABLES qs, l
vars == <<qs, l>>

Init == qs = << <<>> >> /\ l = 1

New == /\ l <= Len(Trace) /\ Trace[l].e = "new"
       /\ qs' = << Flat(Trace[l].parts) >>
       /\ l' = l + 1

DoOp == /\ l <= Len(Trace) /\ Trace[l].e = "op"
        /\ Trace[l].op.c \in 1..Len(qs)
        /\ \E x \in MStep(qs, Trace[l].op) :
              /\ x.res = Trace[l].res
              /\ Len(x.qs[Trace[l].op.c]) = Trace[l].len
              /\ Len(x.qs) = Len(Trace[l].all)
              /\ \A i \in 1..Len(x.qs) : x.qs[i] = Trace[l].all[i]
              /\ qs' = x.qs
        /\ l' = l + 1

Next == New \/ DoOp
Spec == Init /\ [][Next]_vars

Accepted == TLCGet("stats").diameter - 1 = Len(Trace)
====
