---- MODULE ContainerTrace ----
\* Validates traces recorded from the Go container against the reference semantics (C16).
\* trace.ndjson: one JSON object per line:
\*   {"e":"new","parts":[[..],..]}                      a new container (start of one recorded history)
\*   {"e":"op","op":{...},"res":{...},"len":n}          one operation with its observed result and Length()
EXTENDS Container, Json

Trace == ndJsonDeserialize("trace.ndjson")

VARIABLES q, l
vars == <<q, l>>

Init == q = <<>> /\ l = 1

New == /\ l <= Len(Trace) /\ Trace[l].e = "new"
       /\ q' = Flat(Trace[l].parts)
       /\ l' = l + 1

DoOp == /\ l <= Len(Trace) /\ Trace[l].e = "op"
        /\ \E x \in Step(q, Trace[l].op) :
              /\ x.res = Trace[l].res
              /\ Len(x.q) = Trace[l].len
              /\ q' = x.q
        /\ l' = l + 1

Next == New \/ DoOp
Spec == Init /\ [][Next]_vars

Accepted == TLCGet("stats").diameter - 1 = Len(Trace)
====
