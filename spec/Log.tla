---- MODULE Log ----
\* log/input.go, output.go, logging.go: producers (enqueue into the bounded buffer, forced emptying when it is
\* full, wake-up flag CAS, wake-up token), the writer (token, flag reset, write slot, drain with merging of
\* directly consecutive identical lines, back-off, shutdown -> finalize) — implementation-shaped layer of C20.
\* Producers are 1..NProd.
EXTENDS Integers, FiniteSets, Sequences, TLC

CONSTANTS NProd,       \* number of producers
          NMsgs,       \* messages per producer
          Cap,         \* log buffer capacity (1024 in the code)
          Scheduled    \* external scheduling of the writer (writeTrigger) vs free running

Producers == 1..NProd

VARIABLES ppc,       \* producer pc: "idle" | "enq" | "wake" | "token" | "done"
          pidx,      \* next message index per producer
          buf,       \* buffer: sequence of <<p, i, txt>>
          flag,      \* logsWaitingFlag
          token,     \* logsWaiting channel (cap 1): TRUE if a token is present
          wpc,       \* writer pc
          cur, dups, \* writer's currentLine / duplicates
          out,       \* adapter output: sequence of <<txt, dups>>
          shutdown,  \* shutdownSignal closed
          shutRet    \* Shutdown() returned

vars == <<ppc, pidx, buf, flag, token, wpc, cur, dups, out, shutdown, shutRet>>

NoLine == <<0, 0, <<-1, -1>>>>
\* message text: producers 1 logs identical lines (merge candidates), others unique
Txt(p, i) == IF p = 1 THEN <<0, 0>> ELSE <<p, i>>

Init == /\ ppc = [p \in Producers |-> "idle"]
        /\ pidx = [p \in Producers |-> 1]
        /\ buf = <<>> /\ flag = FALSE /\ token = FALSE
        /\ wpc = "waitLogs" /\ cur = NoLine /\ dups = 0 /\ out = <<>>
        /\ shutdown = FALSE /\ shutRet = FALSE

\* ---- producer: log() ----
StartLog(p) == /\ ppc[p] = "idle" /\ pidx[p] <= NMsgs /\ ~shutdown
               /\ ppc' = [ppc EXCEPT ![p] = "enq"]
               /\ UNCHANGED <<pidx, buf, flag, token, wpc, cur, dups, out, shutdown, shutRet>>

Enqueue(p) == /\ ppc[p] = "enq" /\ Len(buf) < Cap
              /\ buf' = Append(buf, <<p, pidx[p], Txt(p, pidx[p])>>)
              /\ ppc' = [ppc EXCEPT ![p] = "wake"]
              /\ UNCHANGED <<pidx, flag, token, wpc, cur, dups, out, shutdown, shutRet>>

\* buffer full: producer offers forceEmptyingOfBuffer; writer must be in a select on it
ForceEmpty(p) == /\ ppc[p] = "enq" /\ Len(buf) >= Cap
                 /\ wpc \in {"waitLogs", "waitSlot"}
                 /\ wpc' = IF wpc = "waitLogs" THEN "waitSlot" ELSE "drain"
                 /\ UNCHANGED <<ppc, pidx, buf, flag, token, cur, dups, out, shutdown, shutRet>>

Wake(p) == /\ ppc[p] = "wake"
           /\ IF ~flag THEN /\ flag' = TRUE /\ ppc' = [ppc EXCEPT ![p] = "token"]
                       ELSE /\ UNCHANGED flag /\ ppc' = [ppc EXCEPT ![p] = "idle"]
           /\ pidx' = [pidx EXCEPT ![p] = IF flag THEN @ + 1 ELSE @]
           /\ UNCHANGED <<buf, token, wpc, cur, dups, out, shutdown, shutRet>>

\* non-blocking send of the wake-up token (log()); ContextTracer.Submit blocks instead
SendToken(p) == /\ ppc[p] = "token"
                /\ token' = TRUE
                /\ ppc' = [ppc EXCEPT ![p] = "idle"]
                /\ pidx' = [pidx EXCEPT ![p] = @ + 1]
                /\ UNCHANGED <<buf, flag, wpc, cur, dups, out, shutdown, shutRet>>

\* ---- writer ----
WTakeToken == /\ wpc = "waitLogs" /\ token
              /\ token' = FALSE /\ wpc' = "unset"
              /\ UNCHANGED <<ppc, pidx, buf, flag, cur, dups, out, shutdown, shutRet>>
WUnset == /\ wpc = "unset" /\ flag' = FALSE /\ wpc' = "waitSlot"
          /\ UNCHANGED <<ppc, pidx, buf, token, cur, dups, out, shutdown, shutRet>>
WSlot == /\ wpc = "waitSlot"   \* writeTrigger fires (always enabled when not scheduled)
         /\ wpc' = "drain"
         /\ UNCHANGED <<ppc, pidx, buf, flag, token, cur, dups, out, shutdown, shutRet>>
WDrainOne == /\ wpc = "drain" /\ buf # <<>>
             /\ LET l == Head(buf) IN
                  IF cur = NoLine THEN /\ cur' = l /\ UNCHANGED <<dups, out>>
                  ELSE IF l[3] = cur[3] THEN /\ dups' = dups + 1 /\ UNCHANGED <<cur, out>>
                  ELSE /\ out' = Append(out, <<cur[3], dups>>) /\ cur' = l /\ dups' = 0
             /\ buf' = Tail(buf)
             /\ UNCHANGED <<ppc, pidx, flag, token, wpc, shutdown, shutRet>>
WDrainEnd == /\ wpc = "drain" /\ buf = <<>>
             /\ IF cur # NoLine THEN out' = Append(out, <<cur[3], dups>>) ELSE UNCHANGED out
             /\ cur' = NoLine /\ dups' = 0
             /\ wpc' = "backoff"
             /\ UNCHANGED <<ppc, pidx, buf, flag, token, shutdown, shutRet>>
WBackoff == /\ wpc = "backoff" /\ wpc' = "waitLogs"
            /\ UNCHANGED <<ppc, pidx, buf, flag, token, cur, dups, out, shutdown, shutRet>>
\* shutdown observed in any of the writer's selects
WShutdown == /\ shutdown /\ wpc \in {"waitLogs", "waitSlot", "backoff"}
             /\ wpc' = "final"
             /\ UNCHANGED <<ppc, pidx, buf, flag, token, cur, dups, out, shutdown, shutRet>>
WFinalOne == /\ wpc = "final" /\ buf # <<>>
             /\ out' = Append(out, <<Head(buf)[3], 0>>) /\ buf' = Tail(buf)
             /\ UNCHANGED <<ppc, pidx, flag, token, wpc, cur, dups, shutdown, shutRet>>
\* finalizeWriting returns after 10ms of silence: modelled as "buffer empty and no producer mid-enqueue"
WFinalEnd == /\ wpc = "final" /\ buf = <<>> /\ \A p \in Producers : ppc[p] # "enq"
             /\ wpc' = "stopped" /\ shutRet' = TRUE
             /\ UNCHANGED <<ppc, pidx, buf, flag, token, cur, dups, out, shutdown>>

CallShutdown == /\ ~shutdown /\ shutdown' = TRUE
                /\ UNCHANGED <<ppc, pidx, buf, flag, token, wpc, cur, dups, out, shutRet>>

Next == \/ WTakeToken \/ WUnset \/ WSlot \/ WDrainOne \/ WDrainEnd \/ WBackoff \/ WShutdown \/ WFinalOne \/ WFinalEnd
        \/ CallShutdown
        \/ \E p \in Producers : StartLog(p) \/ Enqueue(p) \/ ForceEmpty(p) \/ Wake(p) \/ SendToken(p)

Spec == Init /\ [][Next]_vars /\ WF_vars(Next)

\* ---------------- properties (C20) ----------------
TokenImpliesFlag == token => flag
\* SendToken is never attempted while a token is already present (so the blocking send in Submit cannot block)
NoBlockedSend == \A p \in Producers : ppc[p] = "token" => ~token

\* expansion of the adapter output
RECURSIVE Expand(_)
Expand(s) == IF s = <<>> THEN <<>> ELSE
             LET h == Head(s) IN [i \in 1..(h[2] + 1) |-> h[1]] \o Expand(Tail(s))
Proj(s, p) == SelectSeq(s, LAMBDA x : IF p = 1 THEN x[1] = 0 ELSE x[1] = p)
Logged(p) == [i \in 1..(pidx[p] - 1) |-> Txt(p, i)]

\* when Shutdown has returned: everything that was logged has been written exactly once, in per-producer order
\* at any time: what was written is a per-producer prefix of what was submitted (no dup, no reorder, no invention)
IsPrefix(a, b) == Len(a) <= Len(b) /\ \A i \in 1..Len(a) : a[i] = b[i]
Submitted(p) == [i \in 1..(IF ppc[p] \in {"wake", "token"} THEN pidx[p] ELSE pidx[p] - 1) |-> Txt(p, i)]
Complete == shutRet => \A p \in Producers : Proj(Expand(out), p) = Submitted(p)
PrefixOK == \A p \in Producers : IsPrefix(Proj(Expand(out), p), Submitted(p))
====
