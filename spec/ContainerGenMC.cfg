SPECIFICATION Spec
CONSTANTS
  MaxLen = 3
  MaxQ = 30
  Emit = FALSE
INVARIANT SemOK
VIEW View
CHECK_DEADLOCK FALSE
