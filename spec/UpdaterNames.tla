---- MODULE UpdaterNames ----
\* Versioned file names of the updater (property C19, last sentence): a file name of the documented format
\* and its (identifier, version) pair convert into each other without loss.
\*
\* Strings are sequences of one-character strings (TLC has no string operations).  An identifier is
\* structured  d = [dir, stem, exts]: `dir` ends with "/" or is empty, `stem` is the part of the file name in
\* front of its first ".", `exts` is empty or starts with ".".  A version is v = [maj, min, pat, pre]
\* (digit strings and a lower-case pre-release tag, possibly empty).  Documented format:
\*       identifier   dir stem exts                    version   maj.min.pat[-pre]
\*       file name    dir stem _v maj-min-pat[-pre] exts
EXTENDS Integers, Sequences, FiniteSets, TLC

Digit == {"0", "1", "2", "3", "4", "5", "6", "7", "8", "9"}
Lower == {"a", "b", "c", "d", "e", "f", "g", "h", "i", "j", "k", "l", "m", "n", "o", "p", "q", "r", "s", "t",
          "u", "v", "w", "x", "y", "z"}

\* ---------------------------------------------------------------- the format, structurally
PreSuffix(v, sep) == IF v.pre = <<>> THEN <<>> ELSE <<sep>> \o v.pre
VersionStr(v) == v.maj \o <<".">> \o v.min \o <<".">> \o v.pat \o PreSuffix(v, "-")
VersionPart(v) == <<"_", "v">> \o v.maj \o <<"-">> \o v.min \o <<"-">> \o v.pat \o PreSuffix(v, "-")
IdentStr(d) == d.dir \o d.stem \o d.exts
NameStr(d, v) == d.dir \o d.stem \o VersionPart(v) \o d.exts

\* ---------------------------------------------------------------- the two conversions on flat strings
At(s, i) == IF i >= 1 /\ i <= Len(s) THEN s[i] ELSE "$"
\* first position >= i that is not in the character class C
RunEnd(s, i, C) == CHOOSE j \in i..(Len(s) + 1) : /\ \A k \in i..(j - 1) : s[k] \in C
                                                  /\ At(s, j) \notin C
MaxOf(S) == CHOOSE x \in S : \A y \in S : y <= x
MinOfSet(S) == CHOOSE x \in S : \A y \in S : x <= y
LastSlash(s) == MaxOf({0} \cup {i \in 1..Len(s) : s[i] = "/"})
FirstDot(f) == MinOfSet({Len(f) + 1} \cup {i \in 1..Len(f) : f[i] = "."})
\* replace the first two occurrences of a by b
Replace2(r, a, b) == [k \in 1..Len(r) |-> IF r[k] = a /\ Cardinality({j \in 1..(k - 1) : r[j] = a}) < 2 THEN b ELSE r[k]]

\* identifier, version -> file name: the version goes behind the first dot-free part of the file name
Versioned(id, ver) ==
    LET p == LastSlash(id)
        f == SubSeq(id, p + 1, Len(id))
        k == FirstDot(f)
    IN SubSeq(id, 1, p) \o SubSeq(f, 1, k - 1) \o <<"_", "v">> \o Replace2(ver, ".", "-") \o SubSeq(f, k, Len(f))

\* where a version  _v[0-9]+-[0-9]+-[0-9]+(-[a-z]+)?  that starts at position i of f ends (0: none starts there)
MatchEnd(f, i) ==
    IF At(f, i) = "_" /\ At(f, i + 1) = "v"
    THEN LET a == RunEnd(f, i + 2, Digit) IN
         IF a = i + 2 \/ At(f, a) # "-" THEN 0 ELSE
         LET b == RunEnd(f, a + 1, Digit) IN
         IF b = a + 1 \/ At(f, b) # "-" THEN 0 ELSE
         LET c == RunEnd(f, b + 1, Digit) IN
         IF c = b + 1 THEN 0
         ELSE IF At(f, c) = "-" /\ RunEnd(f, c + 1, Lower) > c + 1 THEN RunEnd(f, c + 1, Lower) ELSE c
    ELSE 0

\* file name -> identifier, version: the first version in the file name is cut out
Parse(s) ==
    LET p == LastSlash(s)
        f == SubSeq(s, p + 1, Len(s))
        M == {i \in 1..Len(f) : MatchEnd(f, i) > 0}
    IN IF M = {} THEN [ok |-> FALSE, id |-> <<>>, ver |-> <<>>]
       ELSE LET i == MinOfSet(M)
                e == MatchEnd(f, i)
            IN [ok |-> TRUE,
                id |-> SubSeq(s, 1, p) \o SubSeq(f, 1, i - 1) \o SubSeq(f, e, Len(f)),
                ver |-> Replace2(SubSeq(f, i + 2, e - 1), "-", ".")]

\* the stem itself does not contain something that reads as a version (then the format is ambiguous and the
\* property is silent)
CleanStem(d, v) == LET f == d.stem \o VersionPart(v) \o d.exts
                   IN \A i \in 1..Len(d.stem) : MatchEnd(f, i) = 0

\* ---------------------------------------------------------------- laws (TLC: UpdaterNamesGen)
Laws(d, v) ==
    /\ Versioned(IdentStr(d), VersionStr(v)) = NameStr(d, v)                 \* the flat conversion builds the format
    /\ CleanStem(d, v) =>
         LET r == Parse(NameStr(d, v)) IN
           /\ r = [ok |-> TRUE, id |-> IdentStr(d), ver |-> VersionStr(v)]   \* pair -> name -> pair
           /\ Versioned(r.id, r.ver) = NameStr(d, v)                           \* name -> pair -> name

\* ---------------------------------------------------------------- domains
Dirs == { <<>>, <<"a", "/">>, <<"/", "x", "/", "b", ".", "c", "/">>, <<"p", "_", "v", "1", "-", "2", "-", "3", "/">> }
Stems == { <<"t">>, <<"t", "o", "o", "l">>, <<"a", "-", "b">>, <<"x", "_", "v">>, <<"v", "1">>, <<"_">>,
           <<"a", "_", "v", "1", "-", "2">>, <<"T", "1", "_", "V">>, <<>>,
           <<"a", "_", "v", "1", "-", "2", "-", "3">> }            \* the last one is not clean
ExtsSet == { <<>>, <<".", "e", "x", "e">>, <<".", "t", "a", "r", ".", "g", "z">>, <<".", "v", "1">>,
             <<".", "d", "_", "v", "1", "-", "0", "-", "0">> }
Majs == { <<"0">>, <<"1">>, <<"1", "2">>, <<"0", "0", "7">>, <<"1", "0", "0">> }
Mins == { <<"0">>, <<"1", "2">>, <<"0", "0", "7">> }
Pats == { <<"0">>, <<"3">>, <<"1", "0">> }
Pres == { <<>>, <<"b">>, <<"b", "e", "t", "a">>, <<"r", "c">>, <<"s", "t", "a", "g", "i", "n", "g">> }
====
