---- MODULE DbApiTrace ----
\* Validates message traces recorded from the real database API against the protocol monitor DbApi (C13).
\* trace.ndjson, one JSON object per line (the driver harness/cmd/dbapi writes them in the order of the
\* sequence numbers it takes inside its send function and before every Handle call):
\*   {"e":"new","mode":"seq"|"burst","store":[{"k":kind,"c":[..]} x 5], ...}   a new connection on fresh databases
\*   {"e":"req","cmd":..,"id":..,"key":..,"q":..,"pf":..,"c":[..], ...}        message handed to Handle (or internal write)
\*   {"e":"rep","id":..,"typ":..,"key":..,"c":[..],"meta":.., ...}             message the API passed to send
\*   {"e":"end"}                                                               the connection went quiet (after the
\*                                                                             final cancels and the get probe)
\* Any other event (e.g. "died": the process crashed) is not a step of the monitor and is rejected.
EXTENDS DbApi, Json

Trace == ndJsonDeserialize("trace.ndjson")

VARIABLES s, l
vars == <<s, l>>

Init == /\ l = 1
        /\ s = InitState("seq", [k \in Keys |-> [k |-> "abs", c |-> NoC]])

New == /\ l <= Len(Trace) /\ Trace[l].e = "new"
       /\ s' = InitState(Trace[l].mode, Trace[l].store)
       /\ l' = l + 1

DoReq == /\ l <= Len(Trace) /\ Trace[l].e = "req"
         /\ Trace[l].id \in Ids
         /\ s' = Req(s, Trace[l])
         /\ l' = l + 1

DoRep == /\ l <= Len(Trace) /\ Trace[l].e = "rep"
         /\ s' \in Rep(s, Trace[l])
         /\ l' = l + 1

End == /\ l <= Len(Trace) /\ Trace[l].e = "end"
       /\ EndOK(s)
       /\ s' = s
       /\ l' = l + 1

Next == New \/ DoReq \/ DoRep \/ End
Spec == Init /\ [][Next]_vars

Accepted == TLCGet("stats").diameter - 1 = Len(Trace)
====
