---- MODULE ApiAuthTable ----
\* The decision table of property C12: configurations (groups) x requests.
\*  * Emit = FALSE: TLC enumerates every cell (one initial state per cell) and checks the laws of ApiAuth
\*    on it (the procedural decision function agrees with the declarative statement of the property).
\*  * Emit = TRUE: the same cells are printed as scripts for the driver harness/cmd/apiauth: per group the
\*    operations that establish its configuration (prefix) and the request operations.
\* Thorough = TRUE is the complete table of the property statement, FALSE a covering subset.
EXTENDS ApiAuth, Json, TLC

CONSTANTS Thorough, Emit

K(r, w, exp, form, short, reuse) == [r |-> r, w |-> w, exp |-> exp, form |-> form, short |-> short, reuse |-> reuse]

\* the key configuration before the standard one: entries 1 and 3 are taken over (with changed
\* permissions), entry 2 is revoked
OldKeys == << K(3, 3, "none", "ok", FALSE, FALSE), K(3, 3, "none", "ok", FALSE, FALSE), K(1, 1, "none", "ok", FALSE, FALSE) >>

StdKeys == <<
    K(1, 1, "none", "ok", FALSE, TRUE),    \*  1  downgraded, same key string as before
    K(2, 2, "none", "ok", FALSE, FALSE),   \*  2  new key string: the old entry 2 is revoked
    K(3, 3, "none", "ok", FALSE, TRUE),    \*  3  upgraded, same key string as before
    K(1, 3, "none", "ok", FALSE, FALSE),   \*  4
    K(3, 1, "none", "ok", FALSE, FALSE),   \*  5
    K(2, 3, "none", "ok", FALSE, FALSE),   \*  6
    K(3, 2, "none", "ok", FALSE, FALSE),   \*  7
    K(1, 2, "none", "ok", FALSE, FALSE),   \*  8
    K(2, 1, "none", "ok", FALSE, FALSE),   \*  9
    K(2, 2, "far",  "ok", FALSE, FALSE),   \* 10  valid for an hour
    K(3, 3, "past", "ok", FALSE, FALSE),   \* 11  expired before it was loaded
    K(3, 3, "none", "badperm", FALSE, FALSE),  \* 12
    K(3, 3, "none", "badexp", FALSE, FALSE),   \* 13
    K(3, 3, "none", "ok", TRUE, FALSE),    \* 14  a configured key of fewer than four characters
    K(3, 3, "soon", "ok", FALSE, FALSE) >> \* 15  expires while the script runs
NK == Len(StdKeys)
SoonKey == 15

\* tokens of the sessions the prefix creates; 11 is expired afterwards, 12 expired and cleaned away
StdSess == << <<1, 1>>, <<2, 2>>, <<3, 3>>, <<4, 4>>, <<1, 4>>, <<4, 1>>, <<0, 3>>, <<3, 0>>, <<5, 5>>, <<-3, 2>>, <<4, 4>>, <<4, 4>> >>
NS == Len(StdSess)

\* ------------------------------------------------------------------------------------ request dimensions
RW(route, a, b) == [route |-> route, rr |-> a, rw |-> b]
Az(k, i, n) == [azk |-> k, azid |-> i, azn |-> n]
Ck(k, i) == [ckk |-> k, ckid |-> i]
AzNone == Az("none", 0, 0)
CkNone == Ck("none", 0)
Cr(a, c) == [az |-> a, ck |-> c]

Mk(via, rt, me, or, cr) ==
    [via |-> via, route |-> rt.route, rr |-> rt.rr, rw |-> rt.rw, m |-> me[1], acrm |-> me[2], origin |-> or,
     azk |-> cr.az.azk, azid |-> cr.az.azid, azn |-> cr.az.azn, ckk |-> cr.ck.ckk, ckid |-> cr.ck.ckid]

Diag(S) == {<<a, a>> : a \in S}
WrapPairs == IF Thorough THEN Perms \X Perms
             ELSE Diag(Perms) \cup {<<1, 4>>, <<4, 1>>, <<4, -1>>, <<-1, 4>>, <<2, 3>>, <<3, 2>>, <<0, 4>>, <<4, 0>>}
EpPerms == PDynamic..PSelf
EpPairs == IF Thorough THEN EpPerms \X EpPerms
           ELSE Diag(EpPerms) \cup {<<1, 4>>, <<4, 1>>, <<-1, 3>>, <<3, -1>>}
WrapRoutes(a) == {RW("wrap", p[1], p[2]) : p \in {x \in WrapPairs : x[1] = a}}
EpRoutes == {RW("ep", p[1], p[2]) : p \in EpPairs}
OtherRoutes == {RW("plain", 4, 4), RW("none", -2, -2), RW("epmiss", -2, -2), RW("getonly", 2, 3), RW("getonly", 1, 1)}
DiagRoutes == IF Thorough
              THEN {RW("wrap", p[1], p[2]) : p \in Diag(Perms) \cup {<<1, 4>>, <<4, 1>>}}
                   \cup {RW("ep", a, a) : a \in EpPerms} \cup {RW("plain", 4, 4), RW("epmiss", -2, -2)}
              ELSE {RW("wrap", a, a) : a \in Perms} \cup {RW("ep", 2, 2), RW("plain", 4, 4)}
FewRoutes == {RW("wrap", 2, 2), RW("wrap", -1, -1), RW("wrap", 1, 1), RW("wrap", 4, 4), RW("plain", 4, 4),
              RW("none", -2, -2), RW("ep", 2, 2)}

AllMethods == {<<"GET", "">>, <<"HEAD", "">>, <<"POST", "">>, <<"PUT", "">>, <<"DELETE", "">>, <<"PATCH", "">>,
               <<"OPTIONS", "">>, <<"OPTIONS", "GET">>, <<"OPTIONS", "POST">>, <<"OPTIONS", "PATCH">>,
               <<"GET", "POST">>, <<"POST", "GET">>}
\* the covering subset keeps every method of the property statement in the main table
Methods == IF Thorough THEN AllMethods
           ELSE {<<"GET", "">>, <<"HEAD", "">>, <<"POST", "">>, <<"PUT", "">>, <<"DELETE", "">>, <<"PATCH", "">>,
                 <<"OPTIONS", "">>, <<"OPTIONS", "GET">>, <<"GET", "POST">>}
SideMethods == IF Thorough THEN AllMethods
               ELSE {<<"GET", "">>, <<"HEAD", "">>, <<"POST", "">>, <<"DELETE", "">>, <<"OPTIONS", "POST">>, <<"PATCH", "">>}
BridgeMethods == {<<"GET", "">>, <<"HEAD", "">>, <<"POST", "">>, <<"PUT", "">>, <<"DELETE", "">>, <<"PATCH", "">>, <<"OPTIONS", "">>}

Origins == {"host", "hostnoport", "portless", "ext", "local", "foreign", "bad", "garbage"}

AzAll == {AzNone} \cup {Az(k, i, 0) : k \in {"bearer", "basic"}, i \in 1..NK} \cup {Az("old", i, 0) : i \in 1..3}
         \cup {Az(k, 0, n) : k \in {"short", "basicshort"}, n \in 0..3}
         \cup {Az(k, 0, 0) : k \in {"unknown", "basicbad", "scheme", "garbage"}}
CkAll == {CkNone} \cup {Ck("sess", i) : i \in 1..NS + 1} \cup {Ck(k, 0) : k \in {"unknown", "othername", "garbage"}}
Singles == {Cr(a, CkNone) : a \in AzAll} \cup {Cr(AzNone, c) : c \in CkAll}
\* two credentials at once: a dead one next to a live one, and two live ones that grant differently
Combos == {Cr(Az("short", 0, 2), Ck("sess", 3)), Cr(Az("unknown", 0, 0), Ck("sess", 4)),
           Cr(Az("bearer", 2, 0), Ck("sess", 11)), Cr(Az("bearer", 2, 0), Ck("sess", 4)),
           Cr(Az("bearer", 11, 0), Ck("sess", 2)), Cr(Az("basicbad", 0, 0), Ck("sess", 3)),
           Cr(Az("bearer", 3, 0), Ck("garbage", 0)), Cr(Az("garbage", 0, 0), Ck("sess", 3)),
           Cr(Az("basic", 5, 0), Ck("unknown", 0))}
\* credentials that grant nothing (the authenticator decides) and two that do
FallCreds == {Cr(AzNone, CkNone), Cr(Az("unknown", 0, 0), CkNone), Cr(Az("short", 0, 2), CkNone),
              Cr(Az("bearer", 11, 0), CkNone), Cr(AzNone, Ck("sess", 11)),
              Cr(Az("bearer", 2, 0), CkNone), Cr(AzNone, Ck("sess", 3))}
             \cup (IF Thorough THEN {Cr(Az("basicbad", 0, 0), CkNone), Cr(Az("bearer", 12, 0), CkNone),
                                     Cr(Az("old", 2, 0), CkNone), Cr(AzNone, Ck("sess", 12)),
                                     Cr(AzNone, Ck("unknown", 0)), Cr(AzNone, Ck("garbage", 0))} ELSE {})
FewCreds == {Cr(AzNone, CkNone), Cr(Az("bearer", 3, 0), CkNone)}
            \cup (IF Thorough THEN {Cr(AzNone, Ck("sess", 4)), Cr(Az("short", 0, 2), CkNone)} ELSE {})
LateCreds == {Cr(AzNone, CkNone), Cr(Az("bearer", SoonKey, 0), CkNone), Cr(Az("basic", SoonKey, 0), CkNone),
              Cr(Az("bearer", 10, 0), CkNone)}

Product(via, routes, methods, origins, creds) ==
    {Mk(via, rt, me, or, cr) : rt \in routes, me \in methods, or \in origins, cr \in creds}

\* ------------------------------------------------------------------------------------ groups
G(name, authset, dev, amode, ar, aw, late, reqs) ==
    [name |-> name, authset |-> authset, dev |-> dev, amode |-> amode, ar |-> ar, aw |-> aw, late |-> late, reqs |-> reqs]

AModes == {<<"err", 1, 1>>, <<"denied", 1, 1>>} \cup {<<"ok", p, p>> : p \in Perms}
          \cup {<<"ok", 1, 4>>, <<"ok", 4, 1>>, <<"ok", 3, 0>>, <<"ok", 0, 3>>}

PermSeq == [i \in 1..9 |-> i - 4]
AModeSeq == << <<"err", 1, 1>>, <<"denied", 1, 1>> >> \o [i \in 1..9 |-> <<"ok", i - 4, i - 4>>]
            \o << <<"ok", 1, 4>>, <<"ok", 4, 1>>, <<"ok", 3, 0>>, <<"ok", 0, 3>> >>
BoolSeq == <<FALSE, TRUE>>

BaseGroups ==
    [i \in 1..9 |-> G("base-wrap", TRUE, FALSE, "nil", 1, 1, FALSE,
                      Product("http", WrapRoutes(PermSeq[i]), Methods, {"none"}, Singles \cup Combos))]
    \o << G("base-ep", TRUE, FALSE, "nil", 1, 1, FALSE, Product("http", EpRoutes, Methods, {"none"}, Singles \cup Combos)),
          G("base-other", TRUE, FALSE, "nil", 1, 1, FALSE, Product("http", OtherRoutes, Methods, {"none"}, Singles \cup Combos)) >>

AModeGroups ==
    [i \in 1..Len(AModeSeq) |-> G("amode", TRUE, FALSE, AModeSeq[i][1], AModeSeq[i][2], AModeSeq[i][3], FALSE,
                                  Product("http", DiagRoutes, SideMethods, {"none"}, FallCreds))]

OriginGroups ==
    [i \in 1..4 |-> LET dev == BoolSeq[((i - 1) % 2) + 1]  ok == i > 2 IN
        G("origin", TRUE, dev, IF ok THEN "ok" ELSE "nil", IF ok THEN 3 ELSE 1, IF ok THEN 3 ELSE 1, FALSE,
          Product("http", FewRoutes, SideMethods, Origins, FewCreds))]

DevGroups ==
    << G("dev", TRUE, TRUE, "nil", 1, 1, FALSE,
         Product("http", UNION {WrapRoutes(a) : a \in Perms} \cup EpRoutes \cup OtherRoutes, Methods, {"none"}, FewCreds)),
       G("dev-err", TRUE, TRUE, "err", 1, 1, FALSE, Product("http", DiagRoutes, Methods, {"none"}, {Cr(AzNone, CkNone)})) >>

BridgeGroups ==
    [i \in 1..4 |-> LET dev == BoolSeq[((i - 1) % 2) + 1]  err == i > 2 IN
        G("bridge", TRUE, dev, IF err THEN "err" ELSE "nil", 1, 1, FALSE,
          Product("bridge", EpRoutes \cup {RW("epmiss", -2, -2), RW("wrap", 3, 3), RW("plain", 4, 4)}, BridgeMethods,
                  {"none"}, {Cr(AzNone, CkNone)}))]

LateGroups == << G("late", TRUE, FALSE, "nil", 1, 1, TRUE, Product("http", DiagRoutes, Methods, {"none"}, LateCreds)) >>

NoAuthGroups ==
    [i \in 1..2 |-> G("noauthfn", FALSE, BoolSeq[i], "nil", 1, 1, FALSE,
                      Product("http", DiagRoutes, SideMethods, {"none"}, FallCreds)
                      \cup Product("http", FewRoutes, SideMethods, {"host", "foreign"}, FewCreds))]

Groups == BaseGroups \o AModeGroups \o OriginGroups \o DevGroups \o BridgeGroups \o LateGroups \o NoAuthGroups

\* ------------------------------------------------------------------------------------ prefixes
CreateReq == Mk("http", RW("wrap", PDynamic, PDynamic), <<"GET", "">>, "none", Cr(AzNone, CkNone))
OpKeys(ks)       == [op |-> "keys", keys |-> ks]
OpAuth(m, r, w)  == [op |-> "auth", mode |-> m, r |-> r, w |-> w]
OpDev(b)         == [op |-> "dev", on |-> b]
OpReq(q)         == [op |-> "req", q |-> q]
OpExpire(k)      == [op |-> "expire", s |-> k]
OpClean          == [op |-> "clean"]
OpWait           == [op |-> "wait"]
OpPanic(k, v, m) == [op |-> "panic", kind |-> k, pv |-> v, m |-> m]

SessPrefix == [i \in 1..2 * NS |-> IF i % 2 = 1 THEN OpAuth("ok", StdSess[(i + 1) \div 2][1], StdSess[(i + 1) \div 2][2])
                                   ELSE OpReq(CreateReq)]
              \o << OpExpire(12), OpClean, OpExpire(11) >>

Prefix(g) == << OpKeys(OldKeys), OpKeys(StdKeys) >>
             \o (IF g.authset THEN SessPrefix ELSE << >>)
             \o << OpAuth(g.amode, g.ar, g.aw), OpDev(g.dev) >>
             \o (IF g.late THEN << OpWait >> ELSE << >>)

ApplyOp(S, o) ==
    CASE o.op = "keys"   -> SetKeys(S, o.keys)
      [] o.op = "auth"   -> SetAuth(S, o.mode, o.r, o.w)
      [] o.op = "dev"    -> SetDev(S, o.on)
      [] o.op = "storm"  -> SetDev(SetKeys(S, o.keys), o.on)
      [] o.op = "expire" -> ExpireSession(S, o.s)
      [] o.op = "clean"  -> CleanSessions(S)
      [] o.op = "req"    -> IF CreatesSession(S, o.q) THEN AddSession(S) ELSE S
      [] OTHER           -> S

RECURSIVE Replay(_, _, _)
Replay(S, ops, i) == IF i > Len(ops) THEN S ELSE Replay(ApplyOp(S, ops[i]), ops, i + 1)

GState == [i \in 1..Len(Groups) |-> Replay(S0(Groups[i].authset), Prefix(Groups[i]), 1)]

\* the configuration the prefix establishes is the one the table is about
PrefixOK == \A i \in 1..Len(Groups) :
    LET S == GState[i]  g == Groups[i] IN
    /\ S.keys = StdKeys /\ S.prevn = 3 /\ S.dev = g.dev /\ S.amode = g.amode /\ S.ar = g.ar /\ S.aw = g.aw
    /\ Len(S.sess) = IF g.authset THEN NS ELSE 0
    /\ g.authset => /\ \A k \in 1..10 : S.sess[k] = [r |-> StdSess[k][1], w |-> StdSess[k][2], state |-> "live"]
                    /\ S.sess[11].state = "expired" /\ S.sess[12].state = "gone"

PanicKinds == {"action", "data", "struct", "record", "handler", "wrap", "handlerlate", "wraplate"}
PanicValues == {"nil", "err", "str", "rt", "struct"}
PanicOps == {OpPanic(k, v, m) : k \in PanicKinds, v \in PanicValues, m \in {"GET", "POST"}}

\* ------------------------------------------------------------------------------------ the two uses
VARIABLE cell

UsesSoon(q) == q.azk \in {"bearer", "basic"} /\ q.azid = SoonKey
Phases(g, q) == IF UsesSoon(q) THEN (IF g.late THEN {"after", "around"} ELSE {"before", "around"}) ELSE {"before"}

\* (an operator with a parameter: TLC evaluates constant definitions without parameters eagerly)
EmitAll(x) ==
    /\ \A i \in 1..Len(Groups) :
          PrintT(<<"@@", ToJson([name |-> Groups[i].name, authset |-> Groups[i].authset, prefix |-> Prefix(Groups[i]),
                                 ops |-> {OpReq(q) : q \in Groups[i].reqs}])>>)
    /\ \A b \in BOOLEAN :
          PrintT(<<"@@", ToJson([name |-> "panic", authset |-> TRUE, prefix |-> << OpDev(b) >>, ops |-> PanicOps])>>)

\* one root state per group, its successors are the cells of the group (so that the workers share the table)
Init == /\ Emit => EmitAll(0)
        /\ \E i \in 1..Len(Groups) : cell = [g |-> i, q |-> CreateReq, ph |-> "root"]
Next == /\ cell.ph = "root"
        /\ \E q \in Groups[cell.g].reqs : \E ph \in Phases(Groups[cell.g], q) : cell' = [g |-> cell.g, q |-> q, ph |-> ph]
Spec == Init /\ [][Next]_cell

CellLaws == cell.ph # "root" => Laws(GState[cell.g], cell.q, cell.ph)
ASSUME PrefixLaw == PrefixOK
====
