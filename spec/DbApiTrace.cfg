SPECIFICATION Spec
CONSTANTS
  MaxId = 31
POSTCONDITION Accepted
CHECK_DEADLOCK FALSE
