---- MODULE SubsysTrace ----
\* X05 - validates what the real subsystem layer did (driver harness/cmd/subsys) against spec/Subsys.tla.
\* trace.ndjson, one JSON object per line:
\*   {"e":"init","n":N,"deps":[[..],..]}          a fresh process (start of one recorded history)
\*   {"e":"op","op":{op,id,m,k,def,v,lvl,fid},"res":"ok|dup|started|err","ord":n}     one driver step and its result
\*   {"e":"sync","mods":[..],"recs":[..],"gets":[..],"pushed":[..],"badpush":n,"mg":b,"ann":{..}}
\*        the system is quiet: state of every module (module API), the subsystem records as queried from
\*        runtime:subsystems/ (in the order delivered), Get of every possible id, the ids of the records pushed to the
\*        subscriber since the last sync, failure "modulemgmt-failed" on the subsystems module, option annotations
EXTENDS Subsys, Json

Trace == ndJsonDeserialize("trace.ndjson")

VARIABLES st, l
vars == <<st, l>>

Init == st = New(1, << {} >>) /\ l = 1

NewHist == /\ l <= Len(Trace) /\ Trace[l].e = "init"
           /\ st' = New(Trace[l].n, [m \in 1..Trace[l].n |-> ToSet(Trace[l].deps[m])])
           /\ l' = l + 1

DoOp == /\ l <= Len(Trace) /\ Trace[l].e = "op"
        /\ WellFormed(st, Trace[l].op)
        /\ \E x \in Step(st, Trace[l].op) :
              /\ x.res = Trace[l].res
              /\ st' = x.st
        /\ l' = l + 1

DoSync == /\ l <= Len(Trace) /\ Trace[l].e = "sync"
          /\ st.started
          /\ \E t \in Sync(st, Trace[l]) : st' = t
          /\ l' = l + 1

Next == NewHist \/ DoOp \/ DoSync
Spec == Init /\ [][Next]_vars

Accepted == TLCGet("stats").diameter - 1 = Len(Trace)
====
