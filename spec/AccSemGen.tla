---- MODULE AccSemGen ----
\* X12: laws of the accessor model (BFS) and generation of operation tables / histories for harness/cmd/accx.
EXTENDS AccSem, Json, TLC

CONSTANTS MaxLen,    \* operations per history
          Emit,      \* print finished histories (simulation) / the one-step table (Table)
          Table,     \* TRUE: Init prints every (accessor, operation) of the full domain once, no behaviours
          Small      \* TRUE: reduced key / value domain (BFS deeper than one step)

VARIABLES acc, st, hist, init, done
vars == <<acc, st, hist, init, done>>

\* ---- initial objects (mirrored by the driver: "full" has PS set, "nilps" has PS = nil) ----
Base == [k \in LeafKeys |->
    CASE k \in {"S"} -> StrV("banana") [] k = "NS" -> StrV("ns") [] k = "ES" -> StrV("emb") [] k = "Sub.S" -> StrV("sub")
      [] k = "Sub.Deep.S" -> StrV("") [] k = "PS.S" -> StrV("ps") [] k = "M.k" -> StrV("mv")
      [] k = "A" -> ArrV(<<"black", "white">>)
      [] k \in {"I", "I8", "I16", "I32", "I64", "UI", "UI8", "UI16", "UI32", "UI64", "NI", "EI"} -> NumV(11)
      [] k = "Sub.I" -> NumV(7) [] k = "PS.I" -> NumV(Zero)
      [] k = "F32" -> FracV(4) [] k = "F64" -> FracV(6)
      [] k = "B" -> BoolV(TRUE)
      [] OTHER -> NoneV]
NilPS == [Base EXCEPT !["PS.S"] = NoneV, !["PS.I"] = NoneV]
InitName(s) == IF s = Base THEN "full" ELSE "nilps"

\* ---- argument domain of Set ----
Val(g, v) == [g |-> g, v |-> v]
IntTypes == IntG
IntVals == { Val(g, NumV(r)) : g \in IntTypes, r \in 0..27 }
IntValsOK == { x \in IntVals : InRange(x.g, x.v.r) }                    \* a Go value of type g exists
FloatVals == { Val("float64", NumV(r)) : r \in {0, 7, 8, 9, 11, 15, 24, 26, 28} }
             \cup { Val("float64", FracV(r)) : r \in 0..MaxFrac }
             \cup { Val("float32", NumV(r)) : r \in {7, 8, 9, 11, 15, 26} }
             \cup { Val("float32", FracV(r)) : r \in {0, 1, 2, 3, 4, 5, 7} }
StrVals == { Val("string", StrV(s)) : s \in {"coconut", "", "banana"} } \cup { Val("mystr", StrV("named")) }
BoolVals == { Val("bool", BoolV(b)) : b \in BOOLEAN }
ArrVals == { Val("strarr", ArrV(l)) : l \in {<<>>, <<"x">>, <<"green", "blue">>} } \cup { Val("anyarr", ArrV(<<"p", "q">>)) }
OddVals == { Val("intarr", NoneV), Val("map", NoneV), Val("nil", NoneV) }
AllVals == IntValsOK \cup FloatVals \cup StrVals \cup BoolVals \cup ArrVals \cup OddVals
SmallVals == { Val("int", NumV(5)), Val("int", NumV(11)), Val("int", NumV(13)), Val("uint64", NumV(27)), Val("int64", NumV(7)),
               Val("float64", FracV(6)), Val("float64", NumV(9)), Val("string", StrV("coconut")), Val("bool", BoolV(FALSE)),
               Val("strarr", ArrV(<<"x">>)), Val("nil", NoneV), Val("map", NoneV) }
NoVal == Val("", NoneV)

SetKeys == (LeafKeys \ {"M.k", "M.z"}) \cup ObjKeys \cup OpenKeys
SmallKeys == {"S", "A", "I8", "UI64", "F32", "B", "Sub.S", "PS.S", "X", "S.X", "Sub", "A.1", "A.#"}
Op(o, k, v) == [op |-> o, key |-> k, val |-> v]
GetOps(K) == { Op(g, k, NoVal) : g \in Getters, k \in K }
SetOps(K, Vs) == { Op("Set", k, v) : k \in K \cap SetKeys, v \in Vs }
\* one argument of every Go type (keys that are no plain fields get these only)
KindVals == { Val("int", NumV(11)), Val("int8", NumV(7)), Val("int16", NumV(9)), Val("int32", NumV(2)), Val("int64", NumV(0)),
              Val("uint", NumV(27)), Val("uint8", NumV(14)), Val("uint16", NumV(8)), Val("uint32", NumV(22)), Val("uint64", NumV(9)),
              Val("myu8", NumV(9)), Val("float64", FracV(3)), Val("float64", NumV(9)), Val("float32", FracV(2)) }
            \cup StrVals \cup BoolVals \cup ArrVals \cup OddVals
Ops == IF Small THEN GetOps(SmallKeys) \cup SetOps(SmallKeys, SmallVals)
       ELSE GetOps(AllKeys) \cup SetOps(FieldKeys, AllVals) \cup SetOps(AllKeys \ FieldKeys, KindVals)

SetToSeq(S) == LET RECURSIVE f(_) f(T) == IF T = {} THEN <<>> ELSE LET e == CHOOSE e \in T : TRUE IN <<e>> \o f(T \ {e}) IN f(S)

Pick(S) == IF Emit THEN {RandomElement(S)} ELSE S

\* histories favour Set (otherwise most of a random history would be reads of the initial object); the operation is
\* drawn component by component, so that a simulation step never enumerates the whole operation domain
KeysB == IF Small THEN SmallKeys ELSE AllKeys
ValsFor(k) == IF Small THEN SmallVals ELSE IF k \in FieldKeys THEN AllVals ELSE KindVals
Cands(f, k) == IF f = "get" THEN { Op(g, k, NoVal) : g \in Getters }
               ELSE IF f = "set" THEN { Op("Set", k, v) : v \in ValsFor(k) }
               ELSE { Op("Set", k, v) : v \in { x \in ValsFor(k) : VC(x) = Resolve(st, k).t } }
KeysOf(f) == IF f = "get" THEN KeysB ELSE IF f = "set" THEN KeysB \cap SetKeys ELSE KeysB \cap (FieldKeys \ {"M.k"})

Init == /\ acc \in (IF Table THEN {"struct"} ELSE Accs)
        /\ st \in (IF Table THEN {Base} ELSE {Base, NilPS})
        /\ init = st
        /\ hist = <<>>
        /\ done = FALSE
        /\ (Table /\ Emit => PrintT(<<"@@", ToJson([ops |-> SetToSeq(Ops)])>>))

\* the model continues along every outcome it allows that is no marker (markers: the state stays as it is)
Outcomes(o) == IF o.op = "Set" THEN { x.st : x \in SetAllowed(acc, st, o.key, o.val) } ELSE {st}

DoOp == /\ ~Table /\ Len(hist) < MaxLen
        /\ \E f \in Pick({"get", "set", "setsame"}) : \E k \in Pick(KeysOf(f)) :
              \E o \in Pick(IF Cands(f, k) = {} THEN Cands("get", k) ELSE Cands(f, k)) : \E s2 \in Pick(Outcomes(o)) :
                 /\ st' = s2
                 /\ hist' = Append(hist, o)
        /\ UNCHANGED <<acc, init, done>>

Finish == /\ ~Table /\ Len(hist) = MaxLen /\ ~done
          /\ done' = TRUE
          /\ (Emit => PrintT(<<"@@", ToJson([acc |-> acc, init |-> InitName(init), steps |-> hist])>>))
          /\ UNCHANGED <<acc, st, hist, init>>

Next == DoOp \/ Finish
Spec == Init /\ [][Next]_vars
View == <<acc, st, Len(hist), done>>

\* ---- laws of the model, checked on every reachable state ----
\* every operation has an allowed outcome
Total == \A o \in Ops : IF o.op = "Set" THEN SetAllowed(acc, st, o.key, o.val) # {} ELSE GetAllowed(acc, st, o.op, o.key) # {}

\* a refusal is always "nothing changed"; an acceptance changes at most the addressed key
Frame == \A o \in Ops : o.op = "Set" =>
            \A x \in SetAllowed(acc, st, o.key, o.val) :
                /\ (~x.ok => x.st = st)
                /\ (x.ok /\ ~x.any => \A k \in LeafKeys \ {o.key} : x.st[k] = st[k])

\* Set then Get: after an accepted Set of a plain value the typed getter of that kind must return exactly that value
\* (float32 fields: its float32 neighbour), Exists is true, and no other typed getter may succeed with another kind
SetGet == \A o \in Ops : (o.op = "Set" /\ o.key \in LeafKeys) =>
            \A x \in SetAllowed(acc, st, o.key, o.val) : (x.ok /\ ~x.any /\ x.st[o.key].t \in {"str", "bool", "arr", "num"}) =>
                LET nv == x.st[o.key]
                    g == CASE nv.t = "str" -> "GetString" [] nv.t = "bool" -> "GetBool" [] nv.t = "arr" -> "GetStringArray"
                           [] OTHER -> IF IsJSON(acc) THEN "GetFloat" ELSE IF SK(o.key) \in FloatKinds THEN "GetFloat" ELSE "GetInt"
                    S == GetAllowed(acc, x.st, g, o.key)
                IN /\ GetAllowed(acc, x.st, "Exists", o.key) = {Yes}
                   /\ (S = {R(TRUE, nv)} \/ (nv.t = "num" /\ ~nv.fr /\ Big(nv.r)))
                   /\ (nv.t = "num" \/ nv = (IF o.val.g \in {"nil", "intarr"} THEN nv ELSE o.val.v))
                   /\ (nv.t # "str" => GetAllowed(acc, x.st, "GetString", o.key) = {No})
                   /\ (nv.t # "bool" => GetAllowed(acc, x.st, "GetBool", o.key) = {No})
                   /\ (nv.t # "arr" => GetAllowed(acc, x.st, "GetStringArray", o.key) = {No})

\* the struct never changes the kind of a field and never leaves the range of its width; a struct cannot grow
StructTyped == acc = "struct" =>
    \A k \in LeafKeys :
        /\ (init[k].t = "none" => st[k].t = "none")
        /\ (init[k].t # "none" => st[k].t = init[k].t)
        /\ (SK(k) \in IntKinds /\ st[k].t = "num" => ~st[k].fr /\ InRange(SK(k), st[k].r))

\* "behave alike": where neither answer is left open, struct and JSON allow the same results for the same state
\* (getters on every key that is a field in both), and both JSON accessors are the same function
Alike == \A o \in Ops : o.op # "Set" /\ o.key \in FieldKeys \cup IdxKeys \cup LenKeys \cup MissKeys =>
            LET a == GetAllowed("struct", st, o.op, o.key)
                b == GetAllowed("json", st, o.op, o.key)
            IN /\ GetAllowed("jsonbytes", st, o.op, o.key) = b
               /\ (a = b \/ (o.op \in {"GetInt", "GetFloat", "Get"} /\ Resolve(st, o.key).t = "num"))
JSONSame == \A o \in Ops : o.op = "Set" => SetAllowed("json", st, o.key, o.val) = SetAllowed("jsonbytes", st, o.key, o.val)
====
