---- MODULE TasksImplGen ----
\* Behaviours of TasksImpl as scripts for harness/cmd/tasks: API calls, clock ticks, handler steps, task ends.
EXTENDS TasksImpl, Json
VARIABLES hist, done
gvars == <<vars, hist, done>>
GenInit == Init /\ hist = <<>> /\ done = FALSE
GenStep == /\ ~done /\ Next /\ hist' = Append(hist, last') /\ done' = done
Stop == s.calls = MaxCalls /\ s.now = MaxT /\ s.qh = "idle" /\ s.sh = "wait" /\ ~s.notif /\ \A t \in Tasks : ~s.running[t]
GenEmit == /\ ~done /\ Stop /\ done' = TRUE
           /\ PrintT(<<"@@", ToJson([n |-> NTasks, md |-> MD, steps |-> hist])>>)
           /\ UNCHANGED <<vars, hist>>
GenNext == GenStep \/ GenEmit
GenSpec == GenInit /\ [][GenNext]_gvars
====
