SPECIFICATION Spec
CONSTANTS
  Strict = TRUE
POSTCONDITION Accepted
CHECK_DEADLOCK FALSE
