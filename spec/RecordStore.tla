---- MODULE RecordStore ----
\* Reference model of a portbase database as seen through ONE fully privileged database.Interface
\* (property C02): a plain map from keys to records (data fields + metadata).  The model knows nothing
\* about storage backends, shadow deletes or caches: that is the point of the property.
\*
\*   StepAt(st, o, t)  = the SET of allowed outcomes [res, st] of operation o at time t (seconds),
\*   Post(st, o, t, obs, t1) = the states a conforming implementation may be in after it answered obs.
\* The same definitions generate histories (RecordStoreGen) and judge what the Go code did
\* (RecordStoreTrace).  Where the property is silent there is more than one outcome:
\*   - PutMany / Purge are optional capabilities of a backend ("notimpl", store unchanged),
\*   - a relative expiry set through the interface may take effect at once or at the next save,
\*   - leaves on which the struct and the JSON accessor are documented to differ (QuerySem "open"),
\*   - the number a purge reports may include expired records,
\*   - Modified may be refreshed by a delayed write (lower bound only).
\*
\* KEYS are sequences of character codes (TLC strings are atomic):
\*   1 a  2 b  3 c  4 d  5 /  6 x  7 y  8 z  9 q  10 r
\* FIELD NAMES of the record schema are one-element sequences: <<1>> I1  <<2>> I2 (int64)  <<3>> F (float64)
\*   <<4>> B (bool)  <<5>> S1  <<6>> S2 (string)  <<7>> M (never present); values as in QuerySem
\*   (ints and floats are ranks in the driver's anchor tables, strings are sequences of codes 1..4).
\* TIME is in seconds relative to a base chosen by the driver; 0 stands for "no expiry".  Created may be
\*   preset by the writer (tokens 1..3, far below any time stamp).
EXTENDS QuerySem, FiniteSets, TLC

Sep == 5
KA == <<1>>   KAB == <<1, 5, 2>>   KABC == <<1, 5, 2, 3>>   KAD == <<1, 5, 4>>   KAB2 == <<1, 2>>   KXYZ == <<6, 5, 7, 5, 8>>
AllKeys == {KA, KAB, KABC, KAD, KAB2, KXYZ}

\* a key set is legal for the file-tree backend iff no key is a directory of another one
SegFree(S) == \A p \in S : \A k \in S : ~IsPrefix(p \o <<Sep>>, k)

QPrefixes == { <<>>, <<1>>, <<1, 5>>, <<1, 5, 2>>, <<1, 2>>, <<1, 5, 2, 3>>, <<1, 5, 3>>, <<2>>, <<6>>, <<6, 5>>, <<6, 5, 7>>,
               <<6, 5, 7, 5>>, <<6, 5, 7, 5, 8>>, <<6, 5, 9, 5>>, <<9, 5, 10>>, <<1, 5, 2, 5>> }

\* ---------------------------------------------------------------- records
FI1 == <<1>>  FI2 == <<2>>  FF == <<3>>  FB == <<4>>  FS1 == <<5>>  FS2 == <<6>>  FM == <<7>>
Data(i1, i2, f, b, s1, s2) ==
    << Field(FI1, IntV(i1)), Field(FI2, IntV(i2)), Field(FF, FloatV(f)), Field(FB, BoolV(b)),
       Field(FS1, StrV(s1)), Field(FS2, StrV(s2)) >>
IntDom == 0..4
FloatDom == 0..3
StrDom == { <<>>, <<1>>, <<1, 2>>, <<2, 1>>, <<3>>, <<1, 3, 2>> }
StrOperands == StrDom \cup { <<2>>, <<1, 2, 1>>, <<3, 2>> }

\* metadata a writer hands in with a record
MetaIn(cr, exp, del, rel, sec, cj) == [cr |-> cr, exp |-> exp, del |-> del, rel |-> rel, sec |-> sec, cj |-> cj]
NoMeta == MetaIn(0, 0, FALSE, 0, FALSE, FALSE)

\* what the store holds under a key
Absent == [present |-> FALSE, data |-> <<>>, cr |-> 0, mo |-> 0, exp |-> 0, del |-> FALSE, rel |-> 0, sec |-> FALSE, cj |-> FALSE]
Empty == [k \in AllKeys |-> Absent]

\* saving: Modified = now, Created = now unless preset, a relative expiry is re-armed
Stored(data, m, t) ==
    [present |-> TRUE, data |-> data, cr |-> IF m.cr # 0 THEN m.cr ELSE t, mo |-> t,
     exp |-> IF m.rel > 0 THEN t + m.rel ELSE m.exp, del |-> m.del, rel |-> m.rel, sec |-> m.sec, cj |-> m.cj]
Touch(r, t) == [r EXCEPT !.mo = t, !.exp = IF r.rel > 0 THEN t + r.rel ELSE @]

Expired(r, t) == r.exp # 0 /\ r.exp < t
Visible(st, k, t) == st[k].present /\ ~st[k].del /\ ~Expired(st[k], t)
VisibleKeys(st, t) == {k \in AllKeys : Visible(st, k, t)}

Item(k, r) == [key |-> k, data |-> r.data, cr |-> r.cr, mo |-> r.mo, exp |-> r.exp, rel |-> r.rel, sec |-> r.sec, cj |-> r.cj]

\* ---------------------------------------------------------------- operations and results (uniform shapes)
\* ok / ox: the Always... option of the interface the call goes through ("none", "sec" AlwaysMakeSecret, "cj"
\* AlwaysMakeCrownjewel, "abs" AlwaysSetAbsoluteExpiry = ox (absolute time), "rel" AlwaysSetRelativateExpiry = ox seconds)
Op(name, k, data, m, form, pfx, cond, x, batch) ==
    [op |-> name, k |-> k, data |-> data, m |-> m, form |-> form, pfx |-> pfx, cond |-> cond, x |-> x, batch |-> batch,
     ok |-> "none", ox |-> 0]
WithOpt(o, kind, x) == [o EXCEPT !.ok = kind, !.ox = x]
KeyOp(name, k)  == Op(name, k, <<>>, NoMeta, "", <<>>, NoCondition, 0, <<>>)
PlainOp(name)   == KeyOp(name, <<>>)
PutOp(name, k, data, m, form) == Op(name, k, data, m, form, <<>>, NoCondition, 0, <<>>)
NumOp(name, k, x) == Op(name, k, <<>>, NoMeta, "", <<>>, NoCondition, x, <<>>)
QueryOp(name, pfx, cond) == Op(name, <<>>, <<>>, NoMeta, "", pfx, cond, 0, <<>>)
BatchEl(k, data, m, form) == [k |-> k, data |-> data, m |-> m, form |-> form]
BatchOp(batch) == Op("PutMany", <<>>, <<>>, NoMeta, "", <<>>, NoCondition, 0, batch)

Maintenance == {"Maintain", "MaintainThorough", "MaintainRecordStates"}

R(err, flag, n, n2, items) == [err |-> err, flag |-> flag, n |-> n, n2 |-> n2, items |-> items]
ROk == R("nil", FALSE, 0, 0, {})
RErr(e) == R(e, FALSE, 0, 0, {})
Out(res, st) == [res |-> res, st |-> st]

\* expiry arguments travel as offsets in generated histories and as absolute values in recorded ones
AbsExp(d, t) == IF d = 0 THEN 0 ELSE t + d
Concretize(o, t) ==
    [o EXCEPT !.m = [@ EXCEPT !.exp = AbsExp(@, t)],
              !.x = IF o.op = "SetAbsoluteExpiry" THEN AbsExp(@, t) ELSE @,
              !.batch = [j \in 1..Len(o.batch) |-> [o.batch[j] EXCEPT !.m = [@ EXCEPT !.exp = AbsExp(@, t)]]]]

\* The interface's Always... option is applied to every record written through it, *before* the call's own change of
\* the metadata (so an explicit Delete / SetAbsoluteExpiry / ... of the call wins) and after the metadata was brought
\* up to date.  "All saved records get an absolute expiry / a relative expiry / the flag."  A relative expiry set this
\* way takes effect at once or at the next save (as for SetRelativeExpiry).  late = that choice.
ApplyOpt(r, o, t, late) ==
    CASE o.ok = "sec" -> [r EXCEPT !.sec = TRUE]
      [] o.ok = "cj"  -> [r EXCEPT !.cj = TRUE]
      \* (a record that is marked deleted stays as it is: an expiry option must not bring it back)
      [] o.ok = "abs" -> IF r.del THEN r ELSE [r EXCEPT !.exp = o.ox, !.rel = 0]
      [] o.ok = "rel" -> IF r.del THEN r ELSE [r EXCEPT !.rel = o.ox, !.exp = IF late THEN @ ELSE t + o.ox]
      [] OTHER -> r
Lates(o) == IF o.ok = "rel" THEN BOOLEAN ELSE {FALSE}

RECURSIVE ApplyBatch(_, _, _, _, _)
ApplyBatch(st, b, t, o, late) ==
    IF b = <<>> THEN st
    ELSE ApplyBatch([st EXCEPT ![b[1].k] = ApplyOpt(Stored(b[1].data, b[1].m, t), o, t, late)], Tail(b), t, o, late)

\* records a query (prefix, condition) must / may select: visible, key starts with the prefix, fields satisfy
\* the condition; between the two lie the records with leaves on which the two accessors differ
Selected(st, pfx, t) == {k \in AllKeys : Visible(st, k, t) /\ IsPrefix(pfx, k)}
MustSel(st, pfx, c, t) == {k \in Selected(st, pfx, t) : MustMatch(c, st[k].data)}
MaySel(st, pfx, c, t) == {k \in Selected(st, pfx, t) : MayMatch(c, st[k].data)}
Between(lo, hi) == {lo \cup x : x \in SUBSET (hi \ lo)}
\* expired (but stored, not deleted) records a purge may count as well
PurgeExtra(st, pfx, c, t) == {k \in AllKeys : st[k].present /\ ~st[k].del /\ Expired(st[k], t) /\ IsPrefix(pfx, k) /\ MayMatch(c, st[k].data)}

OnVisible(st, o, t, new) == IF Visible(st, o.k, t) THEN {Out(ROk, [st EXCEPT ![o.k] = n]) : n \in new} ELSE {Out(RErr("notfound"), st)}
\* the stored record brought up to date and with the interface option applied: what the call's own change starts from
Pre(st, o, t) == {ApplyOpt(Touch(st[o.k], t), o, t, late) : late \in Lates(o)}

StepAt(st, o, t) ==
  CASE o.op = "Put"    -> {Out(ROk, [st EXCEPT ![o.k] = ApplyOpt(Stored(o.data, o.m, t), o, t, late)]) : late \in Lates(o)}
    [] o.op = "PutNew" -> {Out(ROk, [st EXCEPT ![o.k] = ApplyOpt(Stored(o.data, MetaIn(0, 0, FALSE, 0, o.m.sec, o.m.cj), t), o, t, late)])
                           : late \in Lates(o)}
    [] o.op = "Get"    -> IF Visible(st, o.k, t) THEN {Out(R("nil", TRUE, 0, 0, {Item(o.k, st[o.k])}), st)}
                          ELSE {Out(RErr("notfound"), st)}
    [] o.op = "Exists" -> {Out(R("nil", Visible(st, o.k, t), 0, 0, {}), st)}
    [] o.op = "Delete" -> OnVisible(st, o, t, {[r EXCEPT !.del = TRUE, !.rel = 0] : r \in Pre(st, o, t)})
    [] o.op = "SetAbsoluteExpiry" -> OnVisible(st, o, t, {[r EXCEPT !.exp = o.x, !.rel = 0] : r \in Pre(st, o, t)})
    [] o.op = "SetRelativeExpiry" -> OnVisible(st, o, t, {[r EXCEPT !.rel = o.x, !.exp = t + o.x] : r \in Pre(st, o, t)}
                                                         \cup {[r EXCEPT !.rel = o.x] : r \in Pre(st, o, t)})
    [] o.op = "MakeSecret"     -> OnVisible(st, o, t, {[r EXCEPT !.sec = TRUE] : r \in Pre(st, o, t)})
    [] o.op = "MakeCrownJewel" -> OnVisible(st, o, t, {[r EXCEPT !.cj = TRUE] : r \in Pre(st, o, t)})
    [] o.op = "PutMany" -> {Out(ROk, ApplyBatch(st, o.batch, t, o, late)) : late \in Lates(o)} \cup {Out(RErr("notimpl"), st)}
    [] o.op = "Purge"   -> {Out(RErr("notimpl"), st)} \cup
                           { Out(R("nil", FALSE, Cardinality(T), Cardinality(T) + Cardinality(PurgeExtra(st, o.pfx, o.cond, t)), {}),
                                 [k \in AllKeys |-> IF k \in T THEN [st[k] EXCEPT !.del = TRUE, !.rel = 0] ELSE st[k]])
                             : T \in Between(MustSel(st, o.pfx, o.cond, t), MaySel(st, o.pfx, o.cond, t)) }
    [] o.op = "Query"   -> { Out(R("nil", TRUE, 0, 0, {Item(k, st[k]) : k \in T}), st)
                             : T \in Between(MustSel(st, o.pfx, o.cond, t), MaySel(st, o.pfx, o.cond, t)) }
    [] o.op \in Maintenance \cup {"FlushCache", "Tick"} -> {Out(ROk, st)}

\* ---------------------------------------------------------------- judging an observation
\* observed item: key, d (fields read as a typed struct), j (fields read from the serialized form), cr, mo, exp, rel, sec, cj
ItemAgrees(m, ob, t1) == /\ m.key = ob.key /\ m.data = ob.d /\ m.data = ob.j
                         /\ m.cr = ob.cr /\ m.exp = ob.exp /\ m.rel = ob.rel /\ m.sec = ob.sec /\ m.cj = ob.cj
                         /\ m.mo <= ob.mo /\ ob.mo <= t1
ItemsAgree(M, obs, t1) == /\ Len(obs) = Cardinality(M)
                          /\ Cardinality({obs[i].key : i \in 1..Len(obs)}) = Len(obs)
                          /\ \A i \in 1..Len(obs) : \E m \in M : ItemAgrees(m, obs[i], t1)

Rng(s) == {s[i] : i \in 1..Len(s)}
\* maintenance: pb / pa = keys physically stored before / after.  Nothing appears, what disappears was
\* deleted or expired, what is visible is still stored.
PhysOK(st, pb, pa, t) == /\ Rng(pa) \subseteq Rng(pb)
                         /\ \A k \in Rng(pb) \ Rng(pa) : k \in AllKeys /\ ~Visible(st, k, t)
                         /\ VisibleKeys(st, t) \subseteq Rng(pa)

Agree(x, ob, o, st, t, t1) ==
    /\ ob.panic = ""
    /\ ob.err = x.res.err
    /\ o.op \in {"Get", "Exists"} => ob.flag = x.res.flag
    /\ o.op \in {"Get", "Query"} => ItemsAgree(x.res.items, ob.items, t1)
    /\ o.op = "Query" => ob.iterr = "nil"             \* the model has no storage errors: the stream ends without one
    /\ (o.op = "Purge" /\ x.res.err = "nil") => (x.res.n <= ob.n /\ ob.n <= x.res.n2)
    /\ o.op \in Maintenance => PhysOK(st, ob.pb, ob.pa, t)

Post(st, o, t, ob, t1) == {x.st : x \in {y \in StepAt(st, o, t) : Agree(y, ob, o, st, t, t1)}}

\* ---------------------------------------------------------------- laws of the reference model (checked by TLC)
WellFormedState(st) == \A k \in AllKeys : /\ ~st[k].present => st[k] = Absent
                                          /\ st[k].present => (st[k].mo > 0 /\ st[k].cr > 0 /\ ~(st[k].del /\ st[k].rel > 0))

\* every operation has an outcome, reads change nothing, maintenance changes nothing
OpLaws(st, ops, t) == \A o \in ops : LET X == StepAt(st, o, t) IN
    /\ X # {}
    /\ \A x \in X : WellFormedState(x.st)
    /\ o.op \in {"Get", "Exists", "Query", "FlushCache", "Tick"} \cup Maintenance => \A x \in X : x.st = st
    /\ \A x \in X : x.res.err # "nil" => x.st = st
    \* a query yields visible records below the prefix, all of them when there is no condition
    /\ o.op = "Query" => \A x \in X : LET K == {i.key : i \in x.res.items} IN
            /\ K \subseteq VisibleKeys(st, t) /\ \A k \in K : IsPrefix(o.pfx, k) /\ MayMatch(o.cond, st[k].data)
            /\ (o.cond = NoCondition /\ o.pfx = <<>>) => K = VisibleKeys(st, t)
            /\ \A i \in x.res.items : i = Item(i.key, st[i.key])
    \* get returns what was stored most recently
    /\ o.op \in {"Put", "PutNew"} => \A x \in X :
            /\ \A k \in AllKeys \ {o.k} : x.st[k] = st[k]
            /\ x.st[o.k].data = o.data /\ x.st[o.k].mo = t
            /\ LET G == StepAt(x.st, KeyOp("Get", o.k), t) IN
                 \A g \in G : IF o.ok \in {"abs", "rel"} /\ ~(o.op = "Put" /\ o.m.del)
                              THEN TRUE      \* the option replaces the writer's expiry (see below)
                              ELSE IF (o.op = "Put" /\ (o.m.del \/ (o.m.rel = 0 /\ o.m.exp # 0 /\ o.m.exp < t)))
                              THEN g.res.err = "notfound"
                              ELSE g.res.err = "nil" /\ \A i \in g.res.items : i.data = o.data /\ i.key = o.k
    \* deleted and expired records are gone, for Get, Exists and every query
    /\ o.op = "Delete" => \A x \in X : ~Visible(x.st, o.k, t) /\ (x.res.err = "nil" <=> Visible(st, o.k, t))
    /\ (o.op = "SetAbsoluteExpiry" /\ o.x # 0 /\ o.x < t) => \A x \in X : ~Visible(x.st, o.k, t)
    \* after a purge nothing visible is certain to match, and records outside the query are untouched
    /\ o.op = "Purge" => \A x \in X :
            /\ x.res.err = "nil" => MustSel(x.st, o.pfx, o.cond, t) = {}
            /\ \A k \in AllKeys : (~IsPrefix(o.pfx, k) \/ ~MayMatch(o.cond, st[k].data)) => x.st[k] = st[k]
            /\ VisibleKeys(x.st, t) \subseteq VisibleKeys(st, t)
    \* a batch is the sequence of its puts
    /\ o.op = "PutMany" => \E x \in X : x.res.err = "nil" /\ \A j \in 1..Len(o.batch) :
            (\A j2 \in (j + 1)..Len(o.batch) : o.batch[j2].k # o.batch[j].k) => x.st[o.batch[j].k].data = o.batch[j].data
    \* whatever is written through an interface with an Always... option carries that option afterwards (an explicit
    \* expiry call of its own excepted), and a deleted record stays deleted
    /\ (o.op \in {"Put", "PutNew"} /\ o.ok = "sec") => \A x \in X : x.st[o.k].sec
    /\ (o.op \in {"Put", "PutNew"} /\ o.ok = "cj") => \A x \in X : x.st[o.k].cj
    /\ (o.op \in {"Put", "PutNew", "MakeSecret", "MakeCrownJewel", "Delete"} /\ o.ok = "abs" /\ ~(o.op = "Put" /\ o.m.del)) =>
            \A x \in X : x.res.err = "nil" => (x.st[o.k].exp = o.ox /\ x.st[o.k].rel = 0)
    /\ (o.op \in {"Put", "PutNew", "MakeSecret", "MakeCrownJewel"} /\ o.ok = "rel" /\ ~(o.op = "Put" /\ o.m.del)) =>
            \A x \in X : x.res.err = "nil" => x.st[o.k].rel = o.ox
====
