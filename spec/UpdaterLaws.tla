---- MODULE UpdaterLaws ----
\* Exhaustive check of the laws of spec/Updater.tla over EVERY configuration of a version set (property C19:
\* "for every multiset of versions with every combination of flags and every combination of registry
\* flags"), one TLC state per configuration:
\*   Mode = "select":  every listed set x Available x Blacklisted x PreRelease x current release x
\*                     online x dev mode x use pre-releases x index   -> SelectionLaws, BlacklistLaws
\*   Mode = "purge":   every listed set x Available x PreRelease x files without Available flag x selected x
\*                     active x (nothing | oldest version blacklisted) -> PurgeLaws for keep = 0..3
\* The initial states fix the listed and the available versions, one step chooses the rest (so that TLC's
\* workers share the enumeration).
EXTENDS Updater

CONSTANTS Vs, Mode
VARIABLES st, ph
vars == <<st, ph>>

One(S) == {{}} \cup {{v} : v \in S}

Init == /\ ph = 0
        /\ \E L \in SUBSET Vs : \E av \in SUBSET L :
              st = [Empty(FALSE, FALSE, FALSE) EXCEPT !.L = L, !.av = av, !.files = av, !.pre = L \cap PreNum]

Next == /\ ph = 0 /\ ph' = 1
        /\ LET L == st.L
               av == st.av
           IN \E p \in SUBSET (L \ PreNum) :
               IF Mode = "select"
               THEN \E bl \in SUBSET L : \E c \in One(L) : \E on \in BOOLEAN : \E dv \in BOOLEAN : \E up \in BOOLEAN : \E ix \in Idxs :
                       st' = [st EXCEPT !.cur = c, !.pre = @ \cup p, !.bl = bl, !.online = on, !.dev = dv, !.usepre = up, !.idx = ix]
               ELSE \E extra \in SUBSET (Vs \ av) : \E s \in L \cup {NoV} : \E a \in (L \cap (av \cup extra)) \cup {NoV} :
                    \E bl \in (IF L = {} THEN {{}} ELSE {{}, {Min(L)}}) :
                       st' = [st EXCEPT !.pre = @ \cup p, !.bl = bl, !.files = av \cup extra, !.sel = s, !.act = a]

Spec == Init /\ [][Next]_vars

LawsOK == ph = 1 => /\ WellFormed(st)
                    /\ Mode = "select" => SelectionLaws(st) /\ BlacklistLaws(st, Vs)
                    /\ Mode = "purge" => PurgeLaws(st)
====
