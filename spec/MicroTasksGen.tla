---- MODULE MicroTasksGen ----
\* Behaviours of MicroTasks projected to actor sequences (0 = scheduler, t = microtask t) = policies for
\* the yield-point driver harness/cmd/micro.
EXTENDS MicroTasks, Json

VARIABLES hist, done
gvars == <<vars, hist, done>>

Label == IF spc' # spc THEN 0 ELSE CHOOSE t \in Tasks : tpc'[t] # tpc[t]

GenInit == Init /\ hist = <<>> /\ done = FALSE
GenStep == /\ ~done /\ Next /\ hist' = Append(hist, Label) /\ done' = done
GenEmit == /\ ~done /\ Quiescent /\ done' = TRUE
           /\ PrintT(<<"@@", ToJson([prio |-> [t \in Tasks |-> Prio[t]], threshold |-> Threshold,
                                      expiry |-> (timedOut # {}), policy |-> hist])>>)
           /\ UNCHANGED <<vars, hist>>
GenNext == GenStep \/ GenEmit
GenSpec == GenInit /\ [][GenNext]_gvars
====
