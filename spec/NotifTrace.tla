---- MODULE NotifTrace ----
\* Judges histories recorded from the real notifications package (driver harness/cmd/notif) against spec/Notif.tla (X04).
\* trace.ndjson, one JSON object per line:
\*   {"e":"new"}                                   a new history: empty store
\*   {"e":"op","op":{op,k,id,sel,exp,flag,ks,n},    one call and everything observable after it went quiet:
\*    "ret":"ok"|"err", "bad":"" | "panic: ..." | "hang" | ...,
\*    "pushed":[ids],                             keys the subscriber of "notifications:all/" was sent during the call
\*    "get":{id:k}, "db":{id:k},                  object returned by notifications.Get(id) / by a database Get of the key (0 = none)
\*    "ui":{id:{st,sel,id}},                      State, SelectedActionID, EventID in the serialized record the UI reads
\*    "q":[k..], "qa":[k..],                      objects listed by a query of the key prefix / with `where State is active`
\*    "objs":[{id,keyid,st,sel,exp,del,calls,rl,el,guid,typ,sys,acts}..]}   every notification object of the history (read under its lock):
\*        keyid = EventID part of its database key ("" = no key), calls = action ids the action function was run with,
\*        rl / el = what became of the goroutines waiting on Response() / Expired(), guid = number of its GUID (0 = empty)
\* One TLC state per line and allowed model state.  A history that leaves the assumptions of the model (`Legal`) is not
\* judged from there on (void).
EXTENDS Notif, Json

Trace == ndJsonDeserialize("trace.ndjson")

VARIABLES s, l, g, void
vars == <<s, l, g, void>>

Init == s = InitState /\ l = 1 /\ g = <<>> /\ void = FALSE

New == /\ l <= Len(Trace) /\ Trace[l].e = "new"
       /\ s' = InitState /\ g' = <<>> /\ void' = FALSE
       /\ l' = l + 1

ToSet(q) == {q[i] : i \in 1..Len(q)}
NoDup(q) == Cardinality(ToSet(q)) = Len(q)

ListMatch(m, o) == /\ Len(m) = Len(o)
                   /\ \A i \in 1..Len(m) : IF m[i] = "wc" THEN o[i] \in {"w", "c"} ELSE o[i] = m[i]
ObjMatch(m, o) ==
    /\ o.id = m.id
    /\ o.keyid = (IF m.saved THEN m.id ELSE "")
    /\ o.st = m.st /\ o.sel = m.sel /\ o.exp = m.exp /\ o.del = m.del
    /\ o.calls = m.calls
    /\ ListMatch(m.rl, o.rl) /\ ListMatch(m.el, o.el)
    /\ (o.guid # 0) <=> m.saved
    /\ o.typ = m.typ /\ o.sys = m.sys /\ o.acts = m.acts

VisSet(x) == {x.store[i] : i \in {j \in IDs : Visible(x, j)}}
Match(x, t, before) ==
    /\ t.bad = ""
    /\ t.ret = x.ret
    /\ x.must \subseteq ToSet(t.pushed)
    /\ ToSet(t.pushed) \subseteq (x.may \cup PastIds(before) \cup PastIds(x.s))
    /\ Len(t.objs) = Len(x.s.objs)
    /\ \A k \in 1..Len(t.objs) : ObjMatch(x.s.objs[k], t.objs[k])
    /\ \A i \in IDs :
          /\ t.get[i] = x.s.store[i]
          /\ t.db[i] = (IF Visible(x.s, i) THEN x.s.store[i] ELSE 0)
          /\ t.ui[i] = (IF Visible(x.s, i) THEN [st |-> x.s.objs[x.s.store[i]].st, sel |-> x.s.objs[x.s.store[i]].sel, id |-> i]
                        ELSE [st |-> "", sel |-> "", id |-> ""])
    /\ NoDup(t.q) /\ ToSet(t.q) = VisSet(x.s)
    /\ NoDup(t.qa) /\ ToSet(t.qa) = {k \in VisSet(x.s) : x.s.objs[k].st = "active"}
    \* GUIDs: never change, never shared
    /\ \A k \in 1..Len(g) : g[k] # 0 => t.objs[k].guid = g[k]
    /\ \A k1, k2 \in 1..Len(t.objs) : (k1 # k2 /\ t.objs[k1].guid # 0) => t.objs[k1].guid # t.objs[k2].guid

DoOp == /\ l <= Len(Trace) /\ Trace[l].e = "op"
        /\ IF void \/ ~Legal(s, Trace[l].op)
           THEN void' = TRUE /\ UNCHANGED <<s, g>> /\ (~void => PrintT(<<"@@", ToJson([void |-> l])>>))
           ELSE /\ \E x \in FullStep(s, Trace[l].op, TRUE) : Match(x, Trace[l], s) /\ s' = x.s
                /\ g' = [k \in 1..Len(Trace[l].objs) |-> Trace[l].objs[k].guid]
                /\ void' = FALSE
        /\ l' = l + 1

Next == New \/ DoOp
Spec == Init /\ [][Next]_vars

Accepted == TLCGet("stats").diameter - 1 = Len(Trace)
====
