---- MODULE RecordFormat ----
\* database/record: the storage form of a record (property C08).
\*
\*   wire  ==  version varint (1)
\*          |  varint length | meta section = DSD id varint (GenCode = 71) | 34 bytes fixed-width meta
\*          |  DSD format varint | payload                     (both absent when the record is deleted)
\*
\* Byte strings are sequences over 0..255.  TLC integers are 32 bit, therefore an int64 meta field is
\* its 8-byte little-endian two's complement image (the only questions the format asks about such a
\* number are equality and "is it > 0").  Varints are taken from the Varint module (C10).
\*
\* Encode(r) is the canonical writer.  ParseSet(b) is the *total* reader: for EVERY byte string it is a
\* non-empty set of abstract outcomes; it has more than one element (or wildcards) exactly where
\* property C08 is silent:
\*   - non-shortest varints may be accepted or refused (inherited from Varint!UnpackAllowed)
\*   - a meta section that is not a plain GenCode section (other DSD id, compressed, ...): any meta or
\*     an error (only totality and the treatment of the remaining bytes are judged)       -> mwild
\*   - GenCode flag bytes other than 0/1: either truth value
\*   - bytes behind the 34 meta bytes inside the meta section: ignored, or an error
\*   - a deleted record carries no payload: bytes behind the meta block are dropped or handed out as
\*     they are, and the data format of a deleted record is unconstrained                  -> fwild
EXTENDS Integers, Sequences, FiniteSets, Varint

Take(s, n) == IF n <= 0 THEN <<>> ELSE IF n >= Len(s) THEN s ELSE SubSeq(s, 1, n)
Drop(s, n) == IF n <= 0 THEN s ELSE IF n >= Len(s) THEN <<>> ELSE SubSeq(s, n + 1, Len(s))

\* ---------------------------------------------------------------- int64 as 8 little-endian bytes
Rep8(v) == [i \in 1..8 |-> v]
Positive(x) == x[8] < 128 /\ \E i \in 1..8 : x[i] # 0

\* ---------------------------------------------------------------- meta
ZeroMeta == [created |-> Rep8(0), modified |-> Rep8(0), expires |-> Rep8(0), deleted |-> Rep8(0),
             secret |-> FALSE, cronjewel |-> FALSE]
IsDeleted(m) == Positive(m.deleted)

GenCode == 71
JSON == 74
Version == 1
MetaSize == 34

FlagByte(f) == IF f THEN 1 ELSE 0
MetaBody(m) == m.created \o m.modified \o m.expires \o m.deleted \o <<FlagByte(m.secret), FlagByte(m.cronjewel)>>
MetaSection(m) == <<GenCode>> \o MetaBody(m)

\* varint of a uint8
PackByte(f) == Pack(OfNat(f))

\* ---------------------------------------------------------------- writer
\* r = [meta, format \in 0..255, data]
Encode(r) == <<Version>> \o Pack(OfNat(Len(MetaSection(r.meta)))) \o MetaSection(r.meta)
             \o (IF IsDeleted(r.meta) THEN <<>> ELSE PackByte(r.format) \o r.data)
\* number of bytes in front of the payload
HeaderLen(r) == 1 + 1 + 1 + MetaSize + (IF IsDeleted(r.meta) THEN 0 ELSE Len(PackByte(r.format)))

\* ---------------------------------------------------------------- total reader
\* abstract outcome; all of one shape.  mwild: meta unconstrained and `data` holds the bytes behind the
\* meta block (see Match); fwild: format unconstrained.
Out(ok, mw, fw, m, f, d) == [ok |-> ok, mwild |-> mw, fwild |-> fw, meta |-> m, format |-> f, data |-> d]
ErrOut == Out(FALSE, FALSE, FALSE, ZeroMeta, 0, <<>>)

FlagVals(x) == IF x = 0 THEN {FALSE} ELSE IF x = 1 THEN {TRUE} ELSE {TRUE, FALSE}
MetaOf(body) == { [created |-> SubSeq(body, 1, 8), modified |-> SubSeq(body, 9, 16),
                   expires |-> SubSeq(body, 17, 24), deleted |-> SubSeq(body, 25, 32),
                   secret |-> s, cronjewel |-> c] : s \in FlagVals(body[33]), c \in FlagVals(body[34]) }

MRes(kind, m) == [kind |-> kind, meta |-> m]
\* outcomes of reading a meta section: "err" | "any" | "meta"
MetaOutcomes(ms) ==
    UNION { IF ~u.ok THEN {MRes("err", ZeroMeta)}
            ELSE IF u.val # <<GenCode>> \/ u.n # 1 THEN {MRes("any", ZeroMeta)}
            ELSE LET body == Drop(ms, 1) IN
                 IF Len(body) < MetaSize THEN {MRes("err", ZeroMeta)}       \* the length must be validated
                 ELSE IF Len(body) = MetaSize THEN {MRes("meta", m) : m \in MetaOf(body)}
                 ELSE {MRes("meta", m) : m \in MetaOf(body)} \cup {MRes("err", ZeroMeta)}
          : u \in UnpackAllowed(ms, 8, 1000) }

\* format varint + payload of a record that is not deleted
TRes(ok, f, d) == [ok |-> ok, format |-> f, data |-> d]
Tails(rest) == { IF f.ok THEN TRes(TRUE, ToNat(f.val), Drop(rest, f.n)) ELSE TRes(FALSE, 0, <<>>)
                 : f \in UnpackAllowed(rest, 8, 1000) }

AfterMeta(m, rest) ==
    CASE m.kind = "err"  -> {ErrOut}
      [] m.kind = "any"  -> {ErrOut, Out(TRUE, TRUE, TRUE, ZeroMeta, 0, rest)}
      [] m.kind = "meta" -> IF IsDeleted(m.meta)
                            THEN {Out(TRUE, FALSE, TRUE, m.meta, 0, <<>>), Out(TRUE, FALSE, TRUE, m.meta, 0, rest)}
                            ELSE { IF t.ok THEN Out(TRUE, FALSE, FALSE, m.meta, t.format, t.data) ELSE ErrOut
                                   : t \in Tails(rest) }

ParseSet(b) ==
    UNION { IF ~(v.ok /\ v.val = <<Version>>) THEN {ErrOut}
            ELSE LET r1 == Drop(b, v.n) IN
                 UNION { IF ~blk.ok THEN {ErrOut}
                         ELSE UNION { AfterMeta(m, Drop(r1, blk.total)) : m \in MetaOutcomes(blk.data) }
                       : blk \in BlockAllowed(r1) }
          : v \in UnpackAllowed(b, 8, 1000) }

\* does the observation o = [ok, meta, format, data] of a real decoder conform to abstract outcome a
Match(o, a) ==
    IF ~a.ok THEN ~o.ok
    ELSE /\ o.ok
         /\ IF a.mwild
            THEN IF IsDeleted(o.meta) THEN o.data \in {<<>>, a.data}
                 ELSE \E t \in Tails(a.data) : t.ok /\ t.format = o.format /\ t.data = o.data
            ELSE /\ o.meta = a.meta
                 /\ o.data = a.data
                 /\ (a.fwild \/ o.format = a.format)
Accepts(b, o) == \E a \in ParseSet(b) : Match(o, a)
Obs(ok, m, f, d) == [ok |-> ok, meta |-> m, format |-> f, data |-> d]

\* the one outcome a canonical encoding of r must have
Canon(r) == IF IsDeleted(r.meta) THEN Out(TRUE, FALSE, TRUE, r.meta, 0, <<>>)
            ELSE Out(TRUE, FALSE, FALSE, r.meta, r.format, r.data)

\* b is a canonical storage form of a record with meta m, format f (-1: any) and data d (deleted: no data)
IsStorageFormOf(b, m, f, d, anydata) ==
    \A a \in ParseSet(b) :
        /\ a.ok /\ ~a.mwild /\ a.meta = m
        /\ IF IsDeleted(m) THEN a.data = <<>>
           ELSE ~a.fwild /\ (f < 0 \/ a.format = f) /\ (anydata \/ a.data = d)

\* ---------------------------------------------------------------- keys ("dbname:dbkey", bytes)
Colon == 58
RECURSIVE IndexOf(_, _, _)
IndexOf(s, x, i) == IF i > Len(s) THEN 0 ELSE IF s[i] = x THEN i ELSE IndexOf(s, x, i + 1)
ParseKey(k) == LET i == IndexOf(k, Colon, 1) IN
               IF i = 0 THEN [name |-> k, key |-> <<>>]
               ELSE [name |-> Take(k, i - 1), key |-> Drop(k, i)]
KeyOf(p) == p.name \o <<Colon>> \o p.key
====
