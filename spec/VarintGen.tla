---- MODULE VarintGen ----
\* Structured test vectors for formats/varint (property C10) and laws of the Varint model itself.
EXTENDS Varint, Json, TLC, FiniteSets

VARIABLE x

Rep(v, k) == [i \in 1..k |-> v]

\* every 7-bit group boundary of the uint64 range, +-1, as digit sequences
Boundary == UNION { { Rep(0, k - 1) \o <<1>>,             \* 2^(7(k-1))
                      Rep(127, k),                         \* 2^(7k) - 1
                      Rep(1, 1) \o Rep(0, k - 2) \o <<1>>, \* 2^(7(k-1)) + 1   (k >= 2)
                      Rep(126, 1) \o Rep(127, k - 1) }     \* 2^(7k) - 2
                    : k \in 2..9 }
            \cup { <<0>>, <<1>>, <<126>>, <<127>>,
                   Rep(0, 9) \o <<1>>, Rep(127, 9) \o <<1>>, Rep(126, 1) \o Rep(127, 8) \o <<1>>,   \* 2^63, 2^64-1, 2^64-2
                   <<127, 1>>, <<0, 2>>, <<127, 127, 3>>, <<0, 0, 4>>,                              \* 255, 256, 65535, 65536
                   <<127, 127, 127, 127, 15>>, <<0, 0, 0, 0, 16>> }                                 \* 2^32-1, 2^32

\* encodings derived from a number: shortest, zero padded, truncated, top group bumped, with trailing bytes
Encodings(d) == LET p == Pack(d) IN
    { p, p \o <<0>>, p \o <<200, 1>>,
      [i \in 1..Len(p) |-> IF i = Len(p) THEN p[i] + 128 ELSE p[i]] \o <<0>>,          \* padded with a zero group
      [i \in 1..Len(p) |-> IF i = Len(p) THEN p[i] + 128 ELSE p[i]] \o <<128, 0>>,     \* two zero groups
      [i \in 1..Len(p) |-> IF i = Len(p) THEN p[i] + 128 ELSE p[i]] }                  \* truncated: no terminator
    \cup { SubSeq(p, 1, k) : k \in 0..Len(p) }
ContRuns == { Rep(128, k) : k \in 1..12 } \cup { Rep(255, k) \o <<1>> : k \in 1..11 } \cup { Rep(255, k) \o <<2>> : k \in 8..10 }

UnpackVectors == UNION { Encodings(d) : d \in Boundary } \cup ContRuns

\* blocks: length prefix class x payload short / exact / long
Payload(n) == [i \in 1..n |-> (i * 7) % 256]
BlockVectors ==
    { Pack(OfNat(n)) \o Payload(m) : n \in {0, 1, 2, 127, 128, 129, 300}, m \in {0, 1, 2, 126, 127, 128, 129, 130, 299, 300, 301} }
    \cup { Pack(d) \o Payload(m) : d \in {Rep(0, 4) \o <<1>>, Rep(127, 4) \o <<15>>, Rep(0, 5) \o <<1>>, Rep(127, 9), Rep(0, 9) \o <<1>>, Rep(127, 9) \o <<1>>,
                                          Rep(126, 1) \o Rep(127, 8) \o <<1>>}, m \in {0, 1, 20} }
    \cup { e \o Payload(3) : e \in ContRuns }

SetToSeq(S) == LET RECURSIVE f(_) f(T) == IF T = {} THEN <<>> ELSE LET e == CHOOSE e \in T : TRUE IN <<e>> \o f(T \ {e}) IN f(S)

Init == /\ x = 0
        /\ PrintT(<<"@@", ToJson([nums |-> SetToSeq(Boundary), unpack |-> SetToSeq(UnpackVectors), block |-> SetToSeq(BlockVectors)])>>)
Next == x < 1 /\ x' = x + 1
Spec == Init /\ [][Next]_x

\* ---- laws of the model (checked by TLC as invariants of the single-variable spec) ----
RoundTrip == \A d \in Boundary : \A w \in {8, 16, 32, 64} :
    Fits(d, w) => UnpackAllowed(Pack(d), w, 1000) = {[ok |-> TRUE, val |-> d, n |-> Len(d)]}
TooLargeIsError == \A d \in Boundary : \A w \in {8, 16, 32, 64} :
    ~Fits(d, w) => UnpackAllowed(Pack(d), w, 1000) = {ErrRes}
ShortestLen == \A d \in Boundary : IsNorm(d) /\ EncodedSize(d) = Len(Pack(d)) /\ Pack(d)[Len(d)] < 128
ConsumedInside == \A b \in UnpackVectors : \A w \in {8, 16, 32, 64} : \A r \in UnpackAllowed(b, w, 1000) :
    r.ok => (r.n >= 1 /\ r.n <= Len(b))
BlockInside == \A b \in BlockVectors : \A r \in BlockAllowed(b) :
    r.ok => (r.total <= Len(b) /\ \E k \in 1..10 : r.data = SubSeq(b, k + 1, r.total))
====
