---- MODULE ModMiscTrace ----
\* X15: validates what harness/cmd/modmisc recorded from the real package modules against the reference ModMisc.
\* trace.ndjson:
\*   {"e":"new","cfg":{...}}                                        start of one recorded history (one process)
\*   {"e":"op","op":{...},"ret":..,"retm":..,"fn":[..],"chg":[..],"log":[..],"view":{..}, ...}   one operation, observed
\*   {"e":"end","runs":n,"view":{..}}                               end of the script
EXTENDS ModMisc, Json

Trace == ndJsonDeserialize("trace.ndjson")

VARIABLES s, act, l
vars == <<s, act, l>>
Ev == Trace[l]

Blank == [cfg |-> [n |-> 0]]
Init == s = Blank /\ act = FALSE /\ l = 1

New == /\ Ev.e = "new"
       /\ s' = InitState(Ev.cfg) /\ act' = TRUE

RetOK(x, o, ev) ==
  IF o.op = "shutdown2"
  THEN /\ Len(ev.rets) = 2
       /\ ev.rets[1].done /\ ev.rets[2].done
       /\ \E i \in 1..2 : ev.rets[i].ret \in x.ret /\ ev.rets[3 - i].ret \in {"already", "nil"}
  ELSE ev.ret \in x.ret /\ ev.retm = x.retm

ExtraOK(o, x, ev) ==
  CASE o.op = "report"    -> ev.rep = Rep(o.a, o.m, IF o.a = "info" THEN "" ELSE "tk", o.n)
                             /\ ev.ttype = (IF o.a = "panic" THEN "custom" ELSE "")
    [] o.op = "drain"     -> ev.q = s.q
    [] o.op = "runworker" -> ev.wc = (IF s.locked THEN s.live[o.m] + 1 ELSE -1) /\ ev.wctx = s.stopped[o.m]
    [] o.op = "service"   -> SvcOK(s, o, ev.sv)
    [] o.op = "tick"      -> ev.ticked = ~(s.sleep[o.m] /\ o.k = 0) /\ ~ev.afterstop
    [] OTHER -> TRUE

DoOp == /\ Ev.e = "op"
        /\ act /\ act' = TRUE
        /\ \E x \in Step(s, Ev.op) :
              /\ RetOK(x, Ev.op, Ev)
              /\ NotesOK(x, Ev.fn)
              /\ ViewOK(x.st, Ev.view)
              /\ LogOK(s, Ev.op, x.st, Ev.log)
              /\ ChgOK(s, x.st, Ev.chg)
              /\ ExtraOK(Ev.op, x, Ev)
              /\ s' = x.st

End == /\ Ev.e = "end"
       /\ act /\ act' = FALSE
       /\ Ev.runs = s.runs
       /\ ViewOK(s, Ev.view)
       /\ s' = Blank

Next == /\ l <= Len(Trace)
        /\ l' = l + 1
        /\ (New \/ DoOp \/ End)
Spec == Init /\ [][Next]_vars

Accepted == TLCGet("stats").diameter - 1 = Len(Trace)
====
