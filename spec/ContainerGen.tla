---- MODULE ContainerGen ----
\* Generates operation histories for the container driver (property C16) and checks the queue
\* invariants of the reference semantics on every reachable state.
EXTENDS Container, Json

CONSTANTS MaxLen,   \* operations per history
          MaxQ,     \* bound on the queue length
          Emit      \* print finished histories as JSON

VARIABLES q, hist, init, done
vars == <<q, hist, init, done>>

InitParts == PartLists \cup { << <<200, 1, 4>>, <<>> >>, << <<128>>, <<1>>, <<3, 1, 2, 3, 4>> >> }

Init == /\ init \in InitParts
        /\ q = Flat(init)
        /\ hist = <<>>
        /\ done = FALSE

\* When histories are emitted (simulation) the operation is drawn at random *before* its outcomes are
\* enumerated: families are equally likely and TLC computes one or two successors instead of hundreds.
Pick(S) == IF Emit THEN {RandomElement(S)} ELSE S

DoOp == /\ Len(hist) < MaxLen
        /\ \E f \in Pick(Family) : \E o \in Pick(OpsOf(f, q)) : \E x \in Step(q, o) :
              /\ Len(x.q) <= MaxQ
              /\ q' = x.q
              /\ hist' = Append(hist, [op |-> o, res |-> x.res, len |-> Len(x.q)])
        /\ UNCHANGED <<init, done>>

Finish == /\ Len(hist) = MaxLen /\ ~done
          /\ done' = TRUE
          /\ (Emit => PrintT(<<"@@", ToJson([init |-> init, steps |-> hist])>>))
          /\ UNCHANGED <<q, hist, init>>

Next == DoOp \/ Finish
Spec == Init /\ [][Next]_vars

\* the reference semantics itself is a faithful queue, for every state and operation
SemOK == \A o \in Ops(q) : ReadIsPrefix(q, o) /\ FramedReadInside(q, o) /\ Step(q, o) # {}
View == <<q, Len(hist), done>>
====
