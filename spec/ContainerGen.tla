---- MODULE ContainerGen ----
\* Generates operation histories for the container driver (property C16) and checks the queue
\* invariants of the reference semantics on every reachable state.
EXTENDS Container, Json

CONSTANTS MaxLen,   \* operations per history
          MaxQ,     \* bound on the queue length
          MaxC,     \* bound on the number of containers of one history
          Emit      \* print finished histories as JSON

VARIABLES qs, hist, init, done
vars == <<qs, hist, init, done>>

InitParts == PartLists \cup { << <<200, 1, 4>>, <<>> >>, << <<128>>, <<1>>, <<3, 1, 2, 3, 4>> >>,
                              << <<65, 65, 65, 65, 66, 66, 66, 66, 67, 67, 67, 67>> >> }

Init == /\ init \in InitParts
        /\ qs = << Flat(init) >>
        /\ hist = <<>>
        /\ done = FALSE

\* When histories are emitted (simulation) the operation is drawn at random *before* its outcomes are
\* enumerated: families are equally likely and TLC computes one or two successors instead of hundreds.
Pick(S) == IF Emit THEN {RandomElement(S)} ELSE S

Families == Family \cup (IF Len(qs) >= 2 THEN {"existing"} ELSE {})
Candidates(f, c) == IF f = "existing" THEN ExistingOps(qs, c)
                    ELSE { On(o, c, k) : o \in OpsOf(f, qs[c]),
                                         k \in (IF f \in {"sized", "varint", "plain"} /\ Len(qs) < MaxC THEN BOOLEAN ELSE {FALSE}) }

DoOp == /\ Len(hist) < MaxLen
        /\ \E c \in Pick(1..Len(qs)) : \E f \in Pick(Families) : \E o \in Pick(Candidates(f, c)) : \E x \in MStep(qs, o) :
              /\ \A i \in 1..Len(x.qs) : Len(x.qs[i]) <= MaxQ
              /\ qs' = x.qs
              /\ hist' = Append(hist, [op |-> o, res |-> x.res, len |-> Len(x.qs[c])])
        /\ UNCHANGED <<init, done>>

Finish == /\ Len(hist) = MaxLen /\ ~done
          /\ done' = TRUE
          /\ (Emit => PrintT(<<"@@", ToJson([init |-> init, steps |-> hist])>>))
          /\ UNCHANGED <<qs, hist, init>>

Next == DoOp \/ Finish
Spec == Init /\ [][Next]_vars

\* the reference semantics itself is a faithful queue, for every state and operation, and containers
\* do not influence each other
SemOK == \A c \in 1..Len(qs) :
            /\ \A o \in Ops(qs[c]) : ReadIsPrefix(qs[c], o) /\ FramedReadInside(qs[c], o) /\ Step(qs[c], o) # {}
            /\ \A f \in Families : \A o \in Candidates(f, c) : OthersUntouched(qs, o) /\ MStep(qs, o) # {}
View == <<qs, Len(hist), done>>
====
