---- MODULE LifecycleGen ----
\* Behaviours of Lifecycle projected to the environment's choices (API calls, which callback returns
\* next and with which outcome) = scheduling scripts for the gate driver harness/cmd/life.
EXTENDS Lifecycle, Json

CONSTANT Target  \* "none", or the name of a situation at which the behaviour is emitted (directed scripts):
                 \* "twofails": two start routines have failed in the Start pass while another one is still running
CONSTANT Slow    \* modules whose callbacks return last: only when no callback of a faster module is still running
                 \* (a random walk rarely keeps one callback running across several failures of others)

VARIABLES hist, done, en0   \* en0: the enabled flags before Start (script header)
gvars == <<vars, hist, done, en0>>

Ev(op, m, ok) == [op |-> op, m |-> m, ok |-> ok]

\* which environment action was the step (internal manager steps are not part of the script)
Label ==
    IF mgr.op = "idle" /\ mgr'.op = "start" THEN <<Ev("start", 0, TRUE)>>
    ELSE IF mgr.op = "idle" /\ mgr'.op = "manage" THEN <<Ev("manage", 0, TRUE)>>
    ELSE IF mgr.op = "idle" /\ mgr'.op = "shutdown" THEN <<Ev("shutdown", 0, TRUE)>>
    ELSE IF enabled' # enabled THEN LET m == CHOOSE x \in Modules : enabled'[x] # enabled[x] IN <<Ev("toggle", m, enabled'[m])>>
    ELSE IF \E m \in Modules : cb[m] # None /\ cb'[m] = None
         THEN LET m == CHOOSE x \in Modules : cb[x] # None /\ cb'[x] = None
              IN <<Ev("finish", m, <<m, TRUE>> \in reports')>>
    ELSE <<>>

GenInit == Init /\ hist = <<>> /\ done = FALSE /\ en0 = enabled
           /\ (Target = "twofails" => deps = [m \in Modules |-> {}])     \* all modules start concurrently
TwoFails == /\ mgr.op = "start" /\ mgr.phase = "start" /\ fails >= 2
            /\ \E m \in Modules : cb[m] = "start"
            /\ Cardinality({i \in 1..Len(hist) : hist[i].op = "finish" /\ ~hist[i].ok /\
                             \E j \in 1..(i - 1) : hist[j].op = "finish" /\ hist[j].m = hist[i].m /\ hist[j].ok}) >= 2
Terminal == IF Target = "twofails" THEN TwoFails ELSE mgr.op = "idle" /\ lastRet.op = "shutdown"
SlowOK == \A m \in Modules \cap Slow : (cb[m] # None /\ cb'[m] = None) =>
              \A x \in Modules \ Slow : cb[x] = None
\* directed generation: only start routines of the faster modules fail
TargetOK == (Target = "twofails") =>
              \A m \in Modules : (cb[m] # None /\ cb'[m] = None /\ <<m, FALSE>> \in reports') => (cb[m] = "start" /\ m \notin Slow)
GenStep == /\ ~done /\ Next /\ SlowOK /\ TargetOK /\ hist' = hist \o Label /\ done' = done /\ en0' = en0
GenEmit == /\ ~done /\ Terminal /\ done' = TRUE
           /\ PrintT(<<"@@", ToJson([n |-> N, mgmt |-> Mgmt, deps |-> [m \in Modules |-> deps[m]],
                                      enabled |-> [m \in Modules |-> en0[m]], steps |-> hist])>>)
           /\ UNCHANGED <<vars, hist, en0>>
GenNext == GenStep \/ GenEmit
GenSpec == GenInit /\ [][GenNext]_gvars
====
