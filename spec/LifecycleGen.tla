---- MODULE LifecycleGen ----
\* Behaviours of Lifecycle projected to the environment's choices (API calls, which callback returns
\* next and with which outcome) = scheduling scripts for the gate driver harness/cmd/life.
EXTENDS Lifecycle, Json

VARIABLES hist, done, en0   \* en0: the enabled flags before Start (script header)
gvars == <<vars, hist, done, en0>>

Ev(op, m, ok) == [op |-> op, m |-> m, ok |-> ok]

\* which environment action was the step (internal manager steps are not part of the script)
Label ==
    IF mgr.op = "idle" /\ mgr'.op = "start" THEN <<Ev("start", 0, TRUE)>>
    ELSE IF mgr.op = "idle" /\ mgr'.op = "manage" THEN <<Ev("manage", 0, TRUE)>>
    ELSE IF mgr.op = "idle" /\ mgr'.op = "shutdown" THEN <<Ev("shutdown", 0, TRUE)>>
    ELSE IF enabled' # enabled THEN LET m == CHOOSE x \in Modules : enabled'[x] # enabled[x] IN <<Ev("toggle", m, enabled'[m])>>
    ELSE IF \E m \in Modules : cb[m] # None /\ cb'[m] = None
         THEN LET m == CHOOSE x \in Modules : cb[x] # None /\ cb'[x] = None
              IN <<Ev("finish", m, <<m, TRUE>> \in reports')>>
    ELSE <<>>

GenInit == Init /\ hist = <<>> /\ done = FALSE /\ en0 = enabled
Terminal == mgr.op = "idle" /\ lastRet.op = "shutdown"
GenStep == /\ ~done /\ Next /\ hist' = hist \o Label /\ done' = done /\ en0' = en0
GenEmit == /\ ~done /\ Terminal /\ done' = TRUE
           /\ PrintT(<<"@@", ToJson([n |-> N, mgmt |-> Mgmt, deps |-> [m \in Modules |-> deps[m]],
                                      enabled |-> [m \in Modules |-> en0[m]], steps |-> hist])>>)
           /\ UNCHANGED <<vars, hist, en0>>
GenNext == GenStep \/ GenEmit
GenSpec == GenInit /\ [][GenNext]_gvars
====
