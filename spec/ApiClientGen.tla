---- MODULE ApiClientGen ----
\* Generates scripts for the api/client driver (harness/cmd/apicl) from the model of ApiClient.tla and
\* checks the laws of that model on every reachable state (extension check X13).
EXTENDS ApiClient, Json

CONSTANTS MaxLen,    \* steps per script
          MaxDrops,  \* connection losses per script (each costs at least the back-off of 1s)
          MaxOps,    \* bound on the number of operations of one script
          Big,       \* size of the large "many" step (more than the client's queue length of 100)
          Emit

VARIABLES st, hist, drops, done
vars == <<st, hist, drops, done>>

Init == st = Init0 /\ hist = <<>> /\ drops = 0 /\ done = FALSE

Pick(S) == IF Emit THEN {RandomElement(S)} ELSE S

N == Len(st.ops)
Online == st.conn = "online"
\* families with weights (a family listed twice is drawn twice as often when scripts are emitted)
FamList ==
    <<"start", "start">>
    \o (IF Online THEN <<"srvx", "many", "storm">> ELSE <<>>)
    \o (IF Online /\ N > 0 THEN <<"srv", "srv", "srv", "srv", "flood">> ELSE <<>>)
    \o (IF Online /\ drops < MaxDrops THEN <<"drop", "drop">> ELSE <<>>)
    \o (IF st.conn = "offline" THEN <<"await", "await", "await2">> ELSE <<>>)
    \o (IF N > 0 THEN <<"cancel">> ELSE <<>>)
    \o (IF st.conn # "down" /\ Len(hist) >= MaxLen - 3 THEN <<"shutdown">> ELSE <<>>)
    \o (IF st.conn = "down" THEN <<"shutdown">> ELSE <<>>)
Families == { FamList[i] : i \in 1..Len(FamList) }
PickFam == IF Emit THEN {FamList[RandomElement(1..Len(FamList))]} ELSE Families

Starts == { [Blank EXCEPT !.op = "start", !.kind = k, !.key = key, !.val = (IF k \in WithVal THEN v ELSE ""),
                          !.mode = md, !.resus = r] :
              k \in Kinds, key \in (IF Emit THEN Keys ELSE {"k1"}), v \in (IF Emit THEN Vals ELSE {"v1"}),
              md \in {"func", "nil"}, r \in BOOLEAN }

Candidates(f) ==
    CASE f = "start"  -> IF Emit THEN LET k == RandomElement(Kinds) IN { s \in Starts : s.kind = k } ELSE Starts
      [] f = "srv"    -> { [Blank EXCEPT !.op = "srv", !.to = t, !.parts = p] : t \in 1..N, p \in KnownParts }
      [] f = "srvx"   -> { [Blank EXCEPT !.op = "srv", !.to = 0, !.parts = p] : p \in KnownParts }
                         \cup { [Blank EXCEPT !.op = "srv", !.to = -1, !.parts = p] : p \in Garbage }
      [] f = "many"   -> { [Blank EXCEPT !.op = "many", !.g = gm[1], !.m = gm[2], !.resus = r, !.echo = e] :
                             gm \in {<<4, 3>>, <<8, 2>>, <<2, 2>>} \cup (IF N + Big <= MaxOps THEN {<<4, Big \div 4>>} ELSE {}),
                             r \in BOOLEAN, e \in BOOLEAN }
      [] f = "storm"  -> { [Blank EXCEPT !.op = "storm", !.m = m] : m \in {5, 30} }
      [] f = "flood"  -> { [Blank EXCEPT !.op = "flood", !.to = t, !.m = m, !.how = h] :
                             t \in 1..N, m \in {5, 40}, h \in (IF drops < MaxDrops THEN {"drop", "cancel"} ELSE {"cancel"}) }
      [] f = "cancel" -> { [Blank EXCEPT !.op = "cancel", !.to = t] : t \in 1..N }
      [] f = "drop"   -> { [Blank EXCEPT !.op = "drop", !.how = h] : h \in {"close", "abort"} }
      [] f = "await"  -> { [Blank EXCEPT !.op = "await"] }
      [] f = "await2" -> { [Blank EXCEPT !.op = "await", !.hold = h] : h \in {0, 1500} }
      [] f = "shutdown" -> { [Blank EXCEPT !.op = "shutdown"] }

DoOp == /\ Len(hist) < MaxLen /\ ~done
        /\ \E f \in PickFam : \E o \in Pick(Candidates(f)) :
              /\ Enabled(st, o)
              /\ Len(Next(st, o).ops) <= MaxOps
              /\ st' = Next(st, o)
              /\ hist' = Append(hist, o)
              /\ drops' = drops + (IF o.op = "drop" \/ (o.op = "flood" /\ o.how = "drop") THEN 1 ELSE 0)
        /\ UNCHANGED done

Finish == /\ Len(hist) = MaxLen /\ ~done
          /\ done' = TRUE
          /\ (Emit => PrintT(<<"@@", ToJson([steps |-> hist])>>))
          /\ UNCHANGED <<st, hist, drops>>

Next1 == DoOp \/ Finish
Spec == Init /\ [][Next1]_vars

Laws == OpsWF(st) /\ ResendLaw(st) /\ DispatchLaw(st)
\* every step the generator can take is decided by the model: the step function is total on what is enabled
Total == \A f \in Families : \A o \in Candidates(f) : Enabled(st, o) => Next(st, o).conn \in {"online", "offline", "down"}
View == <<st, drops, Len(hist), done>>
====
