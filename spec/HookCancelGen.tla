---- MODULE HookCancelGen ----
\* Behaviours of HookCancel as actor sequences (o = operation o, -h = canceller of hook h) for harness/cmd/hookx.
EXTENDS HookCancel, Json
VARIABLES hist, done
gvars == <<vars, hist, done>>
Label == IF \E o \in Ops : opc'[o] # opc[o] \/ oidx'[o] # oidx[o]
         THEN CHOOSE o \in Ops : opc'[o] # opc[o] \/ oidx'[o] # oidx[o]
         ELSE 0 - (CHOOSE h \in Cancels : cpc'[h] # cpc[h])
GenInit == Init /\ hist = <<>> /\ done = FALSE
Fin == (\A o \in Ops : opc[o] = "done") /\ (\A h \in Cancels : cpc[h] = "returned")
GenStep == /\ ~done /\ Next /\ hist' = Append(hist, Label) /\ done' = done
GenEmit == /\ ~done /\ Fin /\ done' = TRUE
           /\ PrintT(<<"@@", ToJson([hooks |-> NHooks, cancels |-> Cancels, ops |-> NOps, policy |-> hist])>>)
           /\ UNCHANGED <<vars, hist>>
GenNext == GenStep \/ GenEmit
GenSpec == GenInit /\ [][GenNext]_gvars
====
