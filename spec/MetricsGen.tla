---- MODULE MetricsGen ----
\* Generates operation histories for the metrics driver (extension check X11) and checks the laws of the
\* reference semantics (Metrics.tla) on every reachable state of a small universe.
EXTENDS Metrics, Json

CONSTANTS MaxLen,    \* operations per history
          MaxLives,  \* process lives per history
          Small,     \* the small universe of the exhaustive run
          Http,      \* include requests to the /metrics handler of the API
          Emit       \* print finished histories as JSON

VARIABLES st, hist, done, lives, nh, seen
vars == <<st, hist, done, lives, nh, seen>>

\* ---------------------------------------------------------------- the universe
\* ids: a b a/b a_b /b B9 | 9a a-b "" "a b" "a\n"
GoodIds == IF Small THEN {<<97, 47, 98>>, <<97, 95, 98>>}
           ELSE {<<97>>, <<98>>, <<97, 47, 98>>, <<97, 95, 98>>, <<47, 98>>, <<66, 57>>}
BadIds == IF Small THEN {<<57, 97>>} ELSE {<<57, 97>>, <<97, 45, 98>>, <<>>, <<97, 32, 98>>, <<97, 10>>}
\* label names: x y instance | 9x "" x-y ; values: 1 2 q" \ "" newline a,b={
LNames == IF Small THEN {<<120>>} ELSE {<<120>>, <<121>>, Instance}
BadLNames == IF Small THEN {} ELSE {<<57, 120>>, <<>>, <<120, 45, 121>>}
LVals == IF Small THEN {<<49>>} ELSE {<<49>>, <<50>>, <<113, 34>>, <<92>>, <<>>, <<10>>, <<97, 44, 98, 61, 123>>}
\* namespaces: ns _n | n-s "n s" 9
Spaces == IF Small THEN {<<110, 115>>, <<110, 45, 115>>} ELSE {<<>>, <<110, 115>>, <<95, 110>>, <<110, 45, 115>>, <<110, 32, 115>>, <<57>>}
\* global label names: g x | 9g ; instance names: "" i1 | i-1
GNames == IF Small THEN {<<103>>} ELSE {<<103>>, <<120>>, <<57, 103>>}
Insts == IF Small THEN {<<>>, <<105, 49>>} ELSE {<<>>, <<>>, <<105, 49>>, <<105, 50>>, <<105, 45, 49>>}
InstSeq == IF Small THEN << <<>>, <<105, 49>> >> ELSE << <<>>, <<>>, <<105, 49>>, <<105, 49>>, <<105, 50>>, <<105, 45, 49>> >>
IIDs == IF Small THEN {<<>>} ELSE {<<>>, <<>>, <<73, 49>>, <<73, 50>>}
IIDSeq == IF Small THEN << <<>> >> ELSE << <<>>, <<>>, <<>>, <<73, 49>>, <<73, 50>> >>
Kinds == IF Small THEN {"counter", "gauge"} ELSE {"counter", "gauge", "fcounter", "hist"}
KindSeq == IF Small THEN <<"counter", "gauge">> ELSE <<"counter", "counter", "counter", "gauge", "fcounter", "hist">>
Perms == IF Small THEN {0, 3} ELSE {0 - 1, 0, 1, 2, 3, 4}
ReqPerms == IF Small THEN {2, 4} ELSE {0, 1, 2, 3, 4}
Levels == IF Small THEN {0} ELSE {0, 1, 2}

Label(n, v) == [n |-> n, v |-> v]
LabelSets == IF Small THEN {<<>>, <<Label(<<120>>, <<49>>)>>}
             ELSE {<<>>} \cup {<<Label(n, v)>> : n \in LNames \cup BadLNames, v \in LVals}
                  \cup {<<Label(<<120>>, v), Label(n, w)>> : n \in {<<121>>, Instance, <<57, 120>>}, v \in {<<49>>, <<113, 34>>}, w \in {<<49>>, <<50>>}}

Op(name) == [op |-> name, kind |-> "", id |-> <<>>, labels |-> <<>>, perm |-> 0, level |-> 0, persist |-> FALSE,
             iid |-> <<>>, h |-> 0, n |-> 0, g |-> 0, key |-> 1, flag |-> FALSE]

Pick(S) == IF Emit THEN {RandomElement(S)} ELSE S
PickSeq(s) == IF Emit THEN {s[RandomElement(1..Len(s))]} ELSE Range(s)

NewOps == { [Op("new") EXCEPT !.kind = k, !.id = i, !.labels = ls, !.perm = p, !.level = l, !.persist = ps, !.iid = ii,
                              !.h = nh + 1, !.n = n, !.flag = f] :
              k \in PickSeq(KindSeq), i \in Pick(GoodIds \cup (IF Emit /\ RandomElement(1..5) > 1 THEN {} ELSE BadIds)),
              ls \in Pick(IF Emit /\ RandomElement(1..3) = 1 THEN {<<>>} ELSE LabelSets),
              p \in Pick(Perms), l \in Pick(IF Emit /\ RandomElement(1..2) = 1 THEN {0} ELSE Levels), ps \in Pick(IF Small THEN {TRUE} ELSE BOOLEAN),
              ii \in PickSeq(IIDSeq), n \in Pick(IF Small THEN {2} ELSE 0..3),
              f \in Pick(IF Small THEN {FALSE} ELSE {FALSE, FALSE, FALSE, FALSE, TRUE}) }
\* a metric an earlier life registered, declared again in the same way (this is what persistence is about)
AgainOps == { [o EXCEPT !.h = nh + 1] : o \in Pick(seen) }

Registered(k) == {r.h : r \in {x \in st.reg : x.kind \in k}}
IncOps == { [Op("inc") EXCEPT !.h = h, !.n = n, !.g = g] :
              h \in Pick(Registered({"counter"})), n \in Pick(IF Small THEN {0, 1} ELSE {0, 1, 1, 2, 5, 50}),
              g \in Pick(IF Small THEN {1} ELSE {1, 1, 1, 2, 8}) }
SetOps == { [Op("set") EXCEPT !.h = h, !.n = n] : h \in Pick(Registered({"gauge", "fcounter"})), n \in Pick(IF Small THEN {5} ELSE 0..7) }
ExportOps == { [Op(name) EXCEPT !.perm = IF name = "http" /\ p = 0 THEN 1 ELSE p, !.level = l, !.flag = f] :
                 name \in Pick(IF Small THEN {"write", "list"} ELSE {"write", "list", "values"} \cup (IF st.phase = "up" /\ Http THEN {"http"} ELSE {})),
                 p \in Pick(ReqPerms), l \in Pick(IF Emit /\ RandomElement(1..2) = 1 THEN {2} ELSE Levels), f \in Pick(BOOLEAN) }
EnableOps == { [Op("enable") EXCEPT !.key = k] : k \in Pick(IF Small THEN {1} ELSE {1, 2}), z \in {Len(hist)} }
NsOps == { [Op("ns") EXCEPT !.id = s] : s \in Pick(Spaces), z \in {Len(hist)} }
GlOps == { [Op("glabel") EXCEPT !.id = n, !.iid = v] : n \in Pick(GNames), v \in Pick(LVals), z \in {Len(hist)} }
StartOps == { [Op("start") EXCEPT !.id = i] : i \in PickSeq(InstSeq), z \in {Len(hist)} }

Fams == CASE st.phase = "dead" -> <<"proc">>
          [] st.phase = "pre" -> IF Small THEN <<"ns", "new", "start", "export">>
                                 ELSE <<"ns", "glabel", "new", "export", "start", "start", "start", "start", "start", "start", "start">>
          [] OTHER -> (IF Small THEN <<"new", "inc", "export", "enable", "stop">>
                       ELSE <<"new", "new", "new", "again", "again", "inc", "inc", "inc", "set", "export", "export", "export",
                              "enable", "enable", "stop", "kill", "ns", "glabel">>)
OpsOf(f) == CASE f = "proc" -> {Op("proc")} [] f = "kill" -> (IF lives < MaxLives THEN {Op("proc")} ELSE {Op("stop")})
              [] f = "ns" -> NsOps [] f = "glabel" -> GlOps [] f = "start" -> StartOps
              [] f = "new" -> (IF nh + 1 \in Handles THEN NewOps ELSE ExportOps) [] f = "again" -> (IF seen = {} THEN NewOps ELSE AgainOps)
              [] f = "inc" -> (IF Registered({"counter"}) = {} THEN NewOps ELSE IncOps)
              [] f = "set" -> (IF Registered({"gauge", "fcounter"}) = {} THEN NewOps ELSE SetOps)
              [] f = "export" -> ExportOps [] f = "enable" -> EnableOps [] f = "stop" -> {Op("stop")}

Init == st = Fresh(NoDisk) /\ hist = <<>> /\ done = FALSE /\ lives = 1 /\ nh = 0 /\ seen = {}

DoOp == /\ Len(hist) < MaxLen /\ ~done
        /\ \E f \in PickSeq(Fams) : \E o \in OpsOf(f) : \E x \in Pick(Step(st, o)) :
              /\ (o.op = "proc" => lives < MaxLives)
              /\ (o.op = "new" => nh + 1 \in Handles \ {0})
              /\ st' = x.st
              /\ hist' = Append(hist, [op |-> o, res |-> x.res])
              /\ lives' = IF o.op = "proc" THEN lives + 1 ELSE lives
              /\ nh' = IF o.op = "new" THEN nh + 1 ELSE nh
              /\ seen' = IF o.op = "new" /\ x.res.err = "ok" /\ ~Small THEN seen \cup {o} ELSE seen
        /\ UNCHANGED done

Finish == /\ ~done /\ (Len(hist) = MaxLen \/ (st.phase = "dead" /\ lives = MaxLives))
          /\ done' = TRUE
          /\ (Emit => PrintT(<<"@@", ToJson([steps |-> [i \in 1..Len(hist) |-> hist[i].op]])>>))
          /\ UNCHANGED <<st, hist, lives, nh, seen>>

Next == DoOp \/ Finish
Spec == Init /\ [][Next]_vars

\* ---------------------------------------------------------------- laws
\* a counter never loses what it counted: within a life every step leaves a registered counter at least where it was
Monotone == [][\A r \in st.reg : (r.kind = "counter" /\ st'.phase = "up" /\ st.phase = "up") => st'.val[r.h] >= st.val[r.h]]_vars
\* what a stop stores is what the counters show; nothing else ever changes the stored data
DiskOK == [][st'.disk # st.disk =>
               /\ st.phase = "up" /\ st'.phase = "dead" /\ st.pinit
               /\ \A r \in st.reg : (r.kind = "counter" /\ r.persist) => [lid |-> r.lid, v |-> st.val[r.h]] \in st'.disk[st.pkey].m
               /\ \A k \in Keys \ {st.pkey} : st'.disk[k] = st.disk[k]]_vars
Laws == RegOK(st) /\ ExportOK(st)
View == <<st, done, lives, nh, Len(hist)>>
====
