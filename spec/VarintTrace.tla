---- MODULE VarintTrace ----
\* Validates recorded calls of formats/varint against the Varint model (C10). Stateless: one event per call.
\*  {"e":"pack","w":w,"num":digits,"out":bytes,"size":n}   PackW(num) = out, EncodedSize(num) = size (size -1: not applicable)
\*  {"e":"unpack","w":w,"b":bytes,"ok":..,"num":digits,"n":consumed}
\*  {"e":"block","b":bytes,"ok":..,"data":bytes,"total":n}
\*  {"e":"prepend","b":bytes,"out":bytes}
EXTENDS Varint, Json, TLC

Trace == ndJsonDeserialize("trace.ndjson")
VARIABLE l

Good(ev) ==
    /\ "panic" \notin DOMAIN ev
    /\ CASE ev.e = "pack"    -> /\ ev.out = Pack(ev.num)
                                /\ (ev.size >= 0 => ev.size = EncodedSize(ev.num))
                                /\ Len(ev.out) = EncodedSize(ev.num)
         [] ev.e = "unpack"  -> [ok |-> ev.ok, val |-> ev.num, n |-> ev.n] \in UnpackAllowed(ev.b, ev.w, 1000)
         [] ev.e = "block"   -> [ok |-> ev.ok, data |-> ev.data, total |-> ev.total] \in BlockAllowed(ev.b)
         [] ev.e = "prepend" -> ev.out = Pack(OfNat(Len(ev.b))) \o ev.b

\* Stateless: TLC evaluates every recorded call once and reports the indices it rejects.
Bad == {i \in 1..Len(Trace) : ~Good(Trace[i])}
Init == l = 0 /\ PrintT(<<"@@", ToJson([bad |-> Bad, n |-> Len(Trace)])>>)
Next == l < 1 /\ l' = 1
Spec == Init /\ [][Next]_l
Accepted == TLCGet("level") >= 0 /\ Bad = {}
====
