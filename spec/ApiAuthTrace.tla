---- MODULE ApiAuthTrace ----
\* Validates what the real api package answered (driver harness/cmd/apiauth) against the ApiAuth model
\* (C12, and the API part of C06).  trace.ndjson, one JSON object per line:
\*   {"e":"new","authset":b}                       start of a history: no keys, no dev mode, authenticator "nil"
\*   {"e":"keys","keys":[{r,w,exp,form,short,reuse},..],"err":""}   the API key option was set and has been loaded
\*   {"e":"dev","on":b,"err":""}           ("err":"timeout": the configuration change did not return)
\*   {"e":"storm","keys":[..],"on":b,"err":""}   both options were changed by two concurrent callers, repeatedly
\*   {"e":"auth","mode":m,"r":r,"w":w}   {"e":"expire","s":k}   {"e":"clean"}   {"e":"wait"}
\*   {"e":"req","q":{request},"phase":p,"ob":{st,inv,tr,tw,ac,sc,err}}   one request and what was observed
\*   {"e":"apipanic","kind":k,"pv":v,"st":n,"err":"","probe":n,"probeinv":b}   a panicking endpoint function
EXTENDS ApiAuth, Json, TLC

Trace == ndJsonDeserialize("trace.ndjson")

VARIABLES S, l
vars == <<S, l>>

Init == S = S0(TRUE) /\ l = 1

Ev == Trace[l]

New    == Ev.e = "new"    /\ S' = S0(Ev.authset)
\* a configuration change returns (it never wedges the server)
\* stale: an entry of the replaced configuration is still in the key table after the reload has come to rest
NotStale == ("stale" \in DOMAIN Ev) => ~Ev.stale
Keys   == Ev.e = "keys"   /\ Ev.err = "" /\ NotStale /\ S' = SetKeys(S, Ev.keys)
Dev    == Ev.e = "dev"    /\ Ev.err = "" /\ S' = SetDev(S, Ev.on)
Storm  == Ev.e = "storm"  /\ Ev.err = "" /\ S' = SetDev(SetKeys(S, Ev.keys), Ev.on)
Auth   == Ev.e = "auth"   /\ S' = SetAuth(S, Ev.mode, Ev.r, Ev.w)
Expire == Ev.e = "expire" /\ S' = ExpireSession(S, Ev.s)
Clean  == Ev.e = "clean"  /\ S' = CleanSessions(S)
Wait   == Ev.e = "wait"   /\ S' = S
Req    == /\ Ev.e = "req"
          /\ ReqAllowed(S, Ev.q, Ev.phase, Ev.ob)
          /\ S' = IF Ev.ob.sc THEN AddSession(S) ELSE S
Panic  == Ev.e = "apipanic" /\ PanicAllowed(Ev) /\ S' = S

Next == /\ l <= Len(Trace)
        /\ (New \/ Keys \/ Dev \/ Storm \/ Auth \/ Expire \/ Clean \/ Wait \/ Req \/ Panic)
        /\ l' = l + 1
Spec == Init /\ [][Next]_vars

Accepted == TLCGet("stats").diameter - 1 = Len(Trace)
====
