---- MODULE ApiEpGen ----
\* Extension check X07: (a) breadth-first model checking of the laws of spec/ApiEp.tla on every reachable
\* registry state of a small declaration domain (Emit = FALSE), (b) generation of operation histories for
\* the driver harness/cmd/apiep (Emit = TRUE, -simulate).
EXTENDS ApiEp, Json

CONSTANTS MaxLen,    \* operations per emitted history / depth bound of the breadth-first search
          Emit,      \* print finished histories as JSON
          Heavy,     \* emitted histories may contain bodies above the 20 MB limit that are really sent
          Dom        \* declaration domain of the breadth-first search (1, 2 or 3)

VARIABLES st, hist, done
vars == <<st, hist, done>>

Init == st = Empty /\ hist = <<>> /\ done = FALSE

\* the dummy parameter keeps TLC from caching a draw
Rnd(S, n) == RandomElement(S)
Bag(b, n) == b[Rnd(1..Len(b), n)]

\* ---------------------------------------------------------------- random operations (simulation)
KindBag == <<"action", "action", "data", "data", "struct", "struct", "record", "record", "handler", "handler">>
FnLists == {<<>>, <<"action", "data">>, <<"struct", "record">>, <<"data", "handler">>,
            <<"action", "data", "struct", "record", "handler">>}
GoodPerm == <<1, 1, 1, 1, 1, -1, -1, 0, 0, 2, 3, 4>>
BadPerm == <<-3, -2, 5, 6>>
RmBag == <<"", "", "", "GET", "GET", "HEAD", "POST", "get">>
WmBag == <<"", "", "", "POST", "PUT", "DELETE", "GET", "PATCH", "put">>

RndDecl(s, n) ==
    LET flavour == Rnd(1..20, n)          \* 1..14 well-formed, 15..20 one thing is wrong or unusual
        free == {p \in 1..NPaths : ~Registered(s, p)}
        p == IF flavour = 15 THEN Rnd({PEmpty, PBlank, PBroken}, n + 1)
             ELSE IF flavour = 16 \/ free = {} THEN Rnd(1..NPaths, n + 2)
             ELSE Rnd(free, n + 3)
        fns == IF flavour = 17 THEN Rnd(FnLists, n + 4) ELSE <<Bag(KindBag, n + 5)>>
        rd == IF flavour = 18 /\ Rnd(1..2, n + 6) = 1 THEN Bag(BadPerm, n + 7) ELSE Bag(GoodPerm, n + 8)
        wr == IF flavour = 18 /\ rd \in -1..4 THEN Bag(BadPerm, n + 9) ELSE Bag(GoodPerm, n + 10)
        rm == IF flavour \in {19, 20} THEN Bag(RmBag, n + 11) ELSE Bag(<<"", "", "GET">>, n + 12)
        wm == IF flavour \in {19, 20} THEN Bag(WmBag, n + 13) ELSE Bag(<<"", "", "POST", "PUT", "DELETE">>, n + 14)
    IN [p |-> p, fns |-> fns, rd |-> rd, wr |-> wr, rm |-> rm, wm |-> wm,
        mime |-> Bag(<<"", "", "", "decl">>, n + 15), mod |-> Bag(<<0, 0, 0, 1, 1>>, n + 16)]

\* a request path that matches template t: parameters filled with segments, a trailing parameter with 1..3
Fill(t, n) ==
    LET head == [i \in 1..Len(t) |-> IF t[i] > 0 THEN t[i] ELSE Rnd(SegVals, n + i)]
    IN IF t[Len(t)] # -3 THEN head
       ELSE CASE Rnd(1..3, n + 10) = 1 -> head
              [] Rnd(1..3, n + 11) = 1 -> Append(head, Rnd(SegVals, n + 12))
              [] OTHER -> head \o <<Rnd(SegVals, n + 13), Rnd(SegVals, n + 14)>>
RndSegs(n) == LET k == Rnd(1..4, n) IN [i \in 1..k |-> Rnd(1..5, n + i)]

MethodBag == <<"GET", "GET", "GET", "GET", "HEAD", "HEAD", "POST", "POST", "POST", "PUT", "PUT", "DELETE", "DELETE",
               "OPTIONS", "OPTIONS", "PATCH", "TRACE">>
BehBag == <<"val", "val", "val", "val", "empty", "nil", "nil", "nl", "err", "status", "status", "wrap">>
CodeBag == <<400, 403, 404, 409, 418, 429, 500, 503>>
AcceptBag == <<"", "", "", "", "json", "cbor", "msgpack", "yaml", "wild", "multi", "bad">>
WriteBodies == <<"none", "none", "small", "small", "small", "small", "small", "small", "small", "small", "mid", "mid",
                 "chunksmall", "chunksmall", "chunksmall", "overdecl", "overdecl", "overdecl", "overchunk", "under">>
WriteBodiesLight == <<"none", "small", "small", "small", "mid", "chunksmall", "chunksmall", "overdecl">>

RndReq(s, n) ==
    LET aimed == s.regs # {} /\ Rnd(1..10, n) <= 9
        \* mostly at endpoints this request may call without authentication
        open == {e \in s.regs : e.rd \in {-1, 0, 1} /\ e.wr \in {-1, 0, 1}}
        tgt == IF ~aimed THEN 0 ELSE IF open # {} /\ Rnd(1..10, n + 1) <= 9 THEN Rnd(open, n + 2).p ELSE Rnd(s.regs, n + 3).p
        segs == IF tgt = 0 THEN RndSegs(n + 20) ELSE Fill(Tpl[tgt], n + 40)
        m == Bag(MethodBag, n + 4)
        body == IF m \in {"POST", "PUT"} THEN (IF Heavy THEN Bag(WriteBodies, n + 5) ELSE Bag(WriteBodiesLight, n + 5))
                ELSE IF m \in {"GET", "DELETE"} THEN Bag(<<"none", "none", "none", "none", "small">>, n + 6)
                ELSE "none"
    IN [m |-> m,
        acrm |-> IF m = "OPTIONS" THEN Bag(<<"", "GET", "POST", "DELETE", "PATCH">>, n + 7) ELSE "",
        segs |-> segs, accept |-> Bag(AcceptBag, n + 8), body |-> body,
        beh |-> Bag(BehBag, n + 9), code |-> Bag(CodeBag, n + 10),
        hdr |-> Rnd(1..3, n + 11) = 1, ct |-> Rnd(1..5, n + 12) = 1, tp |-> tgt]

\* a request that arrives while the module is starting: aimed at an endpoint of the module if there is one
RndReqStart(s, n) ==
    LET q == RndReq(s, n)
        M == {e \in s.regs : e.mod = 1 /\ e.rd \in {-1, 1} /\ e.wr \in {-1, 1}}
    IN IF M = {} THEN q
       ELSE LET t == Rnd(M, n + 77).p
            IN [q EXCEPT !.segs = Fill(Tpl[t], n + 80), !.tp = t,
                         !.body = IF @ \in {"overdecl", "overchunk", "under"} THEN "small" ELSE @]

FamBag(s) == IF Cardinality(s.regs) < 3
             THEN <<"reg", "reg", "reg", "reg", "reg", "reg", "req", "req", "list", "mod", "race">>
             ELSE <<"reg", "reg", "req", "req", "req", "req", "req", "req", "req", "req", "req", "req", "req", "req",
                    "list", "bypath", "mod", "race">>
RndOp(s, n) ==
    LET f == Bag(FamBag(s), n) IN
    CASE f = "reg"    -> Op("reg", RndDecl(s, n + 100), NullQ, FALSE, "", 0, <<>>)
      [] f = "req"    -> Op("req", NullD, RndReq(s, n + 200), FALSE, "", 0, <<>>)
      [] f = "list"   -> Op("list", NullD, NullQ, FALSE, Bag(<<"http", "export">>, n + 1), 0, <<>>)
      [] f = "bypath" -> Op("bypath", NullD, NullQ, FALSE, "", Rnd(1..NPaths, n + 2), <<>>)
      [] f = "mod"    -> IF ~s.online /\ Rnd(1..6, n + 6) = 1
                         THEN Op("reqstart", NullD, RndReqStart(s, n + 400), FALSE, "", 0, <<>>)
                         ELSE Op("mod", NullD, NullQ, ~s.online, "", 0, <<>>)
      [] f = "race"   -> LET k == Rnd(2..4, n + 3)
                             same == Rnd(1..NPaths, n + 4)
                         IN Op("race", NullD, NullQ, FALSE, "", 0,
                               [i \in 1..k |-> LET d == RndDecl(s, n + 300 + 20 * i)
                                               IN IF Rnd(1..3, n + 5 + i) < 3 THEN [d EXCEPT !.p = same] ELSE d])

\* the history continues from the outcome in which racing registrations are made in list order (the trace
\* validation follows what was observed)
RECURSIVE AfterRace(_, _, _)
AfterRace(s, ds, i) ==
    IF i > Len(ds) THEN s
    ELSE LET R == RegResults(s, ds[i])
             r == IF "ok" \in R THEN "ok" ELSE CHOOSE x \in R : TRUE
         IN AfterRace(AfterReg(s, ds[i], r), ds, i + 1)

\* ---------------------------------------------------------------- small domains (breadth-first search)
\* Dom = 1: the small domain (searched to depth 2), Dom = 3: the same with all five function types,
\* Dom = 2: a thinner one (searched to depth 3, where three endpoints, two of them with overlapping
\* templates, are registered together)
BfsDecls == {[p |-> p, fns |-> f, rd |-> pm[1], wr |-> pm[2], rm |-> "", wm |-> wm, mime |-> "", mod |-> md]
             : p \in {2, 3, 6, PEmpty},
               f \in (CASE Dom = 1 -> {<<"action">>, <<"handler">>, <<"record">>, <<"action", "data">>}
                        [] Dom = 2 -> {<<"data">>, <<"record">>, <<"struct">>, <<"action", "data">>}
                        [] OTHER   -> {<<"action">>, <<"data">>, <<"struct">>, <<"record">>, <<"handler">>, <<>>, <<"action", "data">>}),
               pm \in (IF Dom = 3 THEN {<<1, 1>>, <<1, 0>>, <<0, 0>>, <<5, 1>>, <<2, -1>>} ELSE {<<1, 1>>, <<1, 0>>, <<0, 0>>, <<5, 1>>}),
               wm \in (IF Dom = 3 THEN {"", "PUT", "GET"} ELSE {"", "GET"}), md \in {0, 1}}
BfsReqs == {[m |-> m, acrm |-> ac, segs |-> sg, accept |-> "", body |-> bd, beh |-> bh, code |-> 418,
             hdr |-> TRUE, ct |-> FALSE, tp |-> 0]
            : m \in {"GET", "HEAD", "POST", "DELETE", "OPTIONS", "PATCH"}, ac \in {"", "GET"},
              sg \in {<<1>>, <<1, 2>>, <<1, 6>>, <<3, 6, 4, 7>>}, bd \in {"none", "small", "overchunk"},
              bh \in {"val", "nil", "status", "err"}}
BfsOps == {Op("reg", d, NullQ, FALSE, "", 0, <<>>) : d \in BfsDecls}
          \cup {Op("mod", NullD, NullQ, b, "", 0, <<>>) : b \in BOOLEAN}

Pick(S) == IF Emit THEN {RandomElement(S)} ELSE S

DoOp == /\ ~done /\ Len(hist) < MaxLen
        /\ \E o \in (IF Emit THEN {RndOp(st, 0)} ELSE BfsOps) :
              /\ st' = (IF o.op = "race" THEN AfterRace(st, o.ds, 1)
                        ELSE LET X == Step(st, o) IN (IF Emit THEN RandomElement(X) ELSE CHOOSE x \in X : TRUE).st)
              /\ hist' = Append(hist, IF Emit THEN o ELSE 0)
        /\ UNCHANGED done

\* breadth-first search: every outcome of every operation
DoOpAll == /\ ~Emit /\ Len(hist) < MaxLen
           /\ \E o \in BfsOps : \E x \in Step(st, o) :
                 /\ st' = x.st
                 /\ hist' = Append(hist, 0)
           /\ UNCHANGED done

Finish == /\ Emit /\ Len(hist) = MaxLen /\ ~done
          /\ done' = TRUE
          /\ PrintT(<<"@@", ToJson([steps |-> hist])>>)
          /\ UNCHANGED <<st, hist>>

Next == (IF Emit THEN DoOp ELSE DoOpAll) \/ Finish
Spec == Init /\ [][Next]_vars

Laws == /\ RegsUnique(st) /\ RegsValid(st)
        /\ ListingLaw(st)
        /\ \A d \in BfsDecls : RegLaw(st, d)
        /\ \A q \in BfsReqs : TableLaw(st, q)
View == <<st, Len(hist), done>>
====
