---- MODULE TasksImpl ----
\* modules/tasks.go as the code performs it (implementation-shaped layer of property C07):
\* the normal and the prioritized queue, the schedule list with the overtime flag, the *stale* list-element
\* pointers (a handler pops an element without clearing the task's pointer), the per-task flags, the queue
\* slot (queueWg), the queue handler (wake, wait for the slot, pop, runWithLocking, launch) and the schedule
\* handler (timer fired, take the front, decide: overtime -> run directly, else StartASAP), a discrete clock.
\*
\* Constants select the variant that is checked:
\*   DueCheck        the schedule handler re-checks under the schedule lock that the front entry is due
\*                   (FALSE = pinned tree: defect F-C07-1; TRUE = repaired tree)
\*   AtomicHandlers  a handler's decision and the task lock are one step (hides the stale-decision windows
\*                   S2/S3 that exist in the code between pop / decide and lock)
EXTENDS Integers, FiniteSets, Sequences, TLC

CONSTANTS NTasks, MaxT, MD, MaxCalls, DueCheck, AtomicHandlers,
          RepIv,          \* interval of Task.Repeat calls in clock ticks (0: no Repeat calls are explored)
          ResetUnderLock, \* executeAt is cleared together with the start decision, under the task lock (TRUE = repaired
                          \* tree; FALSE = pinned tree: cleared by the launched goroutine without the lock, finding F-C07-4)
          KeepQueued,     \* when the schedule handler finds the max delay of a queued task expired while the task is still executing,
                          \* the submission stays in its queue and the entry is re-armed one max delay later (TRUE = repaired tree;
                          \* FALSE: finding F-C07-2, the submission made during the run was dropped)
          QueueElemCheck, \* runWithLocking ignores the queue handler's pop when the task no longer holds the popped queue element
                          \* (TRUE = repaired tree; FALSE: finding F-C07-3)
          SchedElemCheck, \* runWithLocking ignores the schedule handler's decision when the task no longer holds the schedule entry
                          \* the handler acted on (TRUE = repaired tree; FALSE: finding F-C07-5, a task run twice for one submission)
          Fault   \* "none", or a plausible regression whose counterexamples become adversarial scripts:
                  \* "cancelctx" (the start check trusts the task context, which is refreshed after a run, instead of the
                  \* canceled flag), "overtimenodue" (the due re-check guards only the promote branch),
                  \* "lateexecuting" (the executing flag is set when the function is launched, not when the start is decided),
                  \* "staleovertime" (the overtime flag survives the removal of the task from the schedule),
                  \* "noslot" (an execution started by the schedule handler does not take the queue slot)
Tasks == 1..NTasks
None == 0

VARIABLES s,      \* the whole state as one record (see Init)
          last    \* label of the last step (for script generation): [a, t, k, at]
vars == <<s, last>>

Lbl(a, t, k, at) == [a |-> a, t |-> t, k |-> k, at |-> at]
AllF(v) == [t \in Tasks |-> v]

Init ==
  /\ s = [ now |-> 0, queue |-> <<>>, prio |-> <<>>, sched |-> <<>>,
           qe |-> AllF(FALSE), pe |-> AllF(FALSE), se |-> AllF(FALSE),          \* element pointers non-nil
           canceled |-> AllF(FALSE), executing |-> AllF(FALSE), overtime |-> AllF(FALSE),
           execAt |-> AllF(0), running |-> AllF(FALSE), slot |-> AllF(FALSE),
           qh |-> "idle", qt |-> None, sh |-> "arm", st |-> None, signal |-> FALSE, calls |-> 0,
           \* ghost variables for the properties
           subKind |-> AllF("none"),      \* what the task is waiting for: none | queued | sched
           schedAt |-> AllF(0),           \* time requested by the last Schedule call
           subAfter |-> AllF(FALSE),      \* a submission happened after the current run was launched
           early |-> FALSE, overlap |-> FALSE, lost |-> FALSE, startedCanceled |-> FALSE, earlyOT |-> FALSE,
           armed |-> -1,                  \* time the schedule handler's timer is armed for (-1: waits for a notification)
           notif |-> FALSE,               \* notifyTaskScheduler (addToSchedule notifies, removeFromQueues does not)
           ctxc |-> AllF(FALSE),          \* the task context is cancelled (refreshed after every run)
           rep |-> AllF(0),               \* Task.repeat: interval after which a finished run is scheduled again (0: none)
           sgen |-> AllF(0),              \* identity of the task's schedule entry: counts the entries created for it (only
                                          \* tracked when handler decisions are split, AtomicHandlers = FALSE)
           qgen |-> AllF(0), pgen |-> AllF(0),   \* likewise for the elements of the normal and the prioritized queue
           qg |-> [k |-> "-", n |-> 0],   \* the element the queue handler popped: list and number
           sg |-> 0,                      \* the entry (its number) the schedule handler acted on when it decided to run a task
           open |-> AllF(FALSE),          \* ghost: a submission was made since the task's last start (Schedule(zero time) leaves it
                                          \* as it is: whether unscheduling withdraws a queue submission is not documented)
           extra |-> FALSE,
           directSched |-> FALSE,         \* ghost: the schedule handler decided to run a task itself that was only scheduled (never queued)
           qdrop |-> FALSE ]              \* ghost: the queue handler took a task from the queue while its function was running              \* ghost: a run was started for a task that had no submission pending              \* Task.repeat: interval after which a finished run is scheduled again (0: none)
  /\ last = Lbl("init", 0, "-", 0)

Remove(q, t) == SelectSeq(q, LAMBDA x : x # t)
\* a new schedule entry is created iff the task holds none
Gen(r, t) == IF AtomicHandlers \/ r.se[t] THEN r.sgen ELSE [r.sgen EXCEPT ![t] = @ + 1]
GenQ(r, t, has, g) == IF AtomicHandlers \/ has[t] THEN g ELSE [g EXCEPT ![t] = @ + 1]
InSeq(q, t) == \E i \in 1..Len(q) : q[i] = t
RECURSIVE Ins(_, _, _)
Ins(q, t, ea) == IF q = <<>> THEN <<t>>
                 ELSE IF ea[t] < ea[Head(q)] THEN <<t>> \o q
                 ELSE <<Head(q)>> \o Ins(Tail(q), t, ea)

\* ------------------------------------------------------------------ API calls (t.lock held for the whole call)
\* prepForQueueing: executeAt = now + maxDelay, addToSchedule(overtime = TRUE)
Prep(r, t) == LET ea == [r.execAt EXCEPT ![t] = r.now + MD] IN
    [r EXCEPT !.execAt = ea, !.overtime[t] = TRUE, !.sched = Ins(Remove(r.sched, t), t, ea), !.se[t] = TRUE, !.notif = TRUE,
              !.sgen = Gen(r, t)]

Submit(r, t, kind) ==
    LET r1 == Prep(r, t)
        r2 == CASE kind = "queue" -> [r1 EXCEPT !.queue = IF r1.qe[t] THEN @ ELSE Append(@, t), !.qe[t] = TRUE,
                                                 !.qgen = GenQ(r1, t, r1.qe, r1.qgen)]
                [] kind = "prio"  -> [r1 EXCEPT !.prio = IF r1.pe[t] THEN @ ELSE Append(@, t), !.pe[t] = TRUE,
                                                 !.pgen = GenQ(r1, t, r1.pe, r1.pgen)]
                [] kind = "asap"  -> [r1 EXCEPT !.prio = IF r1.pe[t] THEN (IF InSeq(@, t) THEN <<t>> \o Remove(@, t) ELSE @)
                                                                     ELSE <<t>> \o @,
                                                 !.pe[t] = TRUE, !.pgen = GenQ(r1, t, r1.pe, r1.pgen)]
    IN [r2 EXCEPT !.signal = TRUE]

ApiSubmit(t, kind) ==
    /\ s.calls < MaxCalls /\ ~s.canceled[t]
    /\ s' = [Submit(s, t, kind) EXCEPT !.calls = @ + 1, !.subKind[t] = "queued", !.open[t] = TRUE,
                                       !.subAfter[t] = s.running[t]]
    /\ last' = Lbl("api", t, kind, 0)

ApiSchedule(t, at) ==
    /\ s.calls < MaxCalls /\ ~s.canceled[t] /\ at > s.now /\ at <= MaxT
    /\ LET ea == [s.execAt EXCEPT ![t] = at] IN
       s' = [s EXCEPT !.calls = @ + 1, !.execAt = ea, !.sched = Ins(Remove(s.sched, t), t, ea), !.se[t] = TRUE, !.notif = TRUE,
                      !.sgen = Gen(s, t),
                      !.subKind[t] = IF s.subKind[t] = "queued" THEN "queued" ELSE "sched", !.open[t] = TRUE,
                      !.schedAt[t] = at, !.subAfter[t] = s.running[t]]
    /\ last' = Lbl("api", t, "schedule", at)

ApiCancel(t) ==
    /\ s.calls < MaxCalls /\ ~s.canceled[t]
    /\ s' = [s EXCEPT !.calls = @ + 1, !.canceled[t] = TRUE,
                      !.slot[t] = FALSE,          \* the task context is cancelled: the slot waiter lets go
                      !.subKind[t] = "none", !.ctxc[t] = TRUE]
    /\ last' = Lbl("api", t, "cancel", 0)

\* Repeat(interval): remembers the interval and schedules the first execution after it.  (addToSchedule does nothing for a
\* cancelled task; cancelled tasks are not explored here.)
ApiRepeat(t) ==
    /\ RepIv > 0 /\ s.calls < MaxCalls /\ ~s.canceled[t]
    /\ LET ea == [s.execAt EXCEPT ![t] = s.now + RepIv] IN
       s' = [s EXCEPT !.calls = @ + 1, !.rep[t] = RepIv, !.execAt = ea, !.sched = Ins(Remove(s.sched, t), t, ea), !.se[t] = TRUE,
                      !.sgen = Gen(s, t),
                      !.notif = TRUE, !.subKind[t] = IF s.subKind[t] = "queued" THEN "queued" ELSE "sched", !.open[t] = TRUE,
                      !.schedAt[t] = s.now + RepIv, !.subAfter[t] = s.running[t]]
    /\ last' = Lbl("api", t, "repeat", RepIv)
\* Repeat(0): "will disable repeating, but won't change the current schedule"
ApiRepeatOff(t) ==
    /\ RepIv > 0 /\ s.calls < MaxCalls /\ s.rep[t] # 0
    /\ s' = [s EXCEPT !.calls = @ + 1, !.rep[t] = 0]
    /\ last' = Lbl("api", t, "repeatoff", 0)

\* Schedule(zero time): removes the task from all lists (no notification of the schedule handler)
ApiUnschedule(t) ==
    /\ s.calls < MaxCalls /\ s.se[t]
    /\ s' = [s EXCEPT !.calls = @ + 1,
                      !.queue = IF s.qe[t] THEN Remove(@, t) ELSE @, !.prio = IF s.pe[t] THEN Remove(@, t) ELSE @,
                      !.sched = Remove(@, t), !.overtime[t] = FALSE, !.execAt[t] = 0,
                      !.qe[t] = FALSE, !.pe[t] = FALSE, !.se[t] = FALSE, !.subKind[t] = "none"]
    /\ last' = Lbl("api", t, "unschedule", 0)

Tick == /\ s.now < MaxT /\ s' = [s EXCEPT !.now = @ + 1] /\ last' = Lbl("tick", 0, "-", 0)

\* ------------------------------------------------------------------ runWithLocking (locked part)
\* returns the new state and whether the task goes on to execute
RWL(r, t, bysh) ==
    LET r1 == [r EXCEPT !.queue = IF r.qe[t] THEN Remove(@, t) ELSE @,
                        !.prio = IF r.pe[t] THEN Remove(@, t) ELSE @,
                        !.sched = IF r.se[t] THEN Remove(@, t) ELSE @,
                        !.overtime[t] = IF r.se[t] /\ Fault # "staleovertime" THEN FALSE ELSE @,
                        !.qe[t] = FALSE, !.pe[t] = FALSE, !.se[t] = FALSE]
    IN IF r.executing[t] /\ bysh /\ KeepQueued
       THEN LET ea == [r.execAt EXCEPT ![t] = r.now + MD]
            IN [go |-> FALSE, r |-> [r EXCEPT !.execAt = ea, !.overtime[t] = TRUE, !.sched = Ins(Remove(r.sched, t), t, ea), !.notif = TRUE]]
       ELSE IF r.executing[t]
       THEN [go |-> FALSE, r |-> [r1 EXCEPT !.lost = @ \/ (r.subAfter[t] /\ ~r.canceled[t] /\ r.subKind[t] # "none"),
                                            !.subKind[t] = IF r.canceled[t] THEN @ ELSE "none"]]
       ELSE IF (IF Fault = "cancelctx" THEN r.ctxc[t] ELSE r.canceled[t])
       THEN [go |-> FALSE, r |-> r1]
       ELSE [go |-> TRUE, r |-> [r1 EXCEPT !.executing[t] = (Fault # "lateexecuting"), !.startedCanceled = @ \/ r.canceled[t],
                                           !.execAt[t] = IF ResetUnderLock THEN 0 ELSE @,
                                           !.early = @ \/ (r.subKind[t] = "sched" /\ r.now < r.schedAt[t]),
                                           !.extra = @ \/ ~r.open[t], !.open[t] = FALSE,
                                           !.subKind[t] = "none", !.subAfter[t] = FALSE]]

\* queueWg.Add(1); go executeWithLocking
\* (the launched goroutine clears executeAt "to detect if the task set its next execution itself": a schedule entry made
\*  since the start decision keeps its place in the list but loses its time)
Launch(r, t) == [r EXCEPT !.overlap = @ \/ r.running[t], !.running[t] = TRUE, !.slot[t] = TRUE, !.executing[t] = TRUE,
                          !.execAt[t] = IF ResetUnderLock THEN @ ELSE 0]

\* ------------------------------------------------------------------ queue handler
QWake == /\ s.qh = "idle" /\ s.signal
         /\ s' = [s EXCEPT !.signal = FALSE, !.qh = "wgwait"] /\ last' = Lbl("qh", 0, "wake", 0)
QPop == /\ s.qh = "wgwait" /\ \A t \in Tasks : ~s.slot[t]
        /\ s' = IF s.prio # <<>> THEN [s EXCEPT !.qt = Head(s.prio), !.prio = Tail(@), !.qh = "rwl",
                                                   !.qg = [k |-> "p", n |-> s.pgen[Head(s.prio)]]]
                ELSE IF s.queue # <<>> THEN [s EXCEPT !.qt = Head(s.queue), !.queue = Tail(@), !.qh = "rwl",
                                                       !.qg = [k |-> "q", n |-> s.qgen[Head(s.queue)]]]
                ELSE [s EXCEPT !.qt = None, !.qh = "idle"]
        /\ last' = Lbl("qh", 0, "pop", 0)
\* t.runWithLocking(e, nil): void when neither queue pointer of the task is the popped element e any more
PoppedHeld == \/ s.qg.k = "q" /\ s.qe[s.qt] /\ s.qgen[s.qt] = s.qg.n
              \/ s.qg.k = "p" /\ s.pe[s.qt] /\ s.pgen[s.qt] = s.qg.n
QRwl == /\ s.qh = "rwl"
        /\ IF QueueElemCheck /\ ~AtomicHandlers /\ ~PoppedHeld
           THEN s' = [s EXCEPT !.qh = "wgwait"]
           ELSE LET x == RWL(s, s.qt, FALSE) IN s' = [x.r EXCEPT !.qh = IF x.go THEN "launch" ELSE "wgwait",
                                                           !.qdrop = @ \/ (s.running[s.qt] /\ ~s.canceled[s.qt])]
        /\ last' = Lbl("qh", s.qt, "rwl", 0)
QLaunch == /\ s.qh = "launch" /\ s' = [Launch(s, s.qt) EXCEPT !.qh = "wgwait"] /\ last' = Lbl("qh", s.qt, "launch", 0)

\* ------------------------------------------------------------------ schedule handler
\* the handler (re)arms its timer for the current front of the schedule, or waits for a notification
SArm == /\ s.sh = "arm"
        /\ s' = [s EXCEPT !.sh = "wait", !.notif = FALSE,
                          !.armed = IF s.sched = <<>> THEN -1 ELSE s.execAt[Head(s.sched)]]
        /\ last' = Lbl("sh", 0, "arm", 0)
SNotified == /\ s.sh = "wait" /\ s.notif /\ s' = [s EXCEPT !.sh = "arm"] /\ last' = Lbl("sh", 0, "notified", 0)
SFire == /\ s.sh = "wait" /\ s.armed >= 0 /\ s.armed <= s.now
         /\ s' = [s EXCEPT !.sh = "fired"] /\ last' = Lbl("sh", 0, "fire", 0)
SFront == /\ s.sh = "fired"
          /\ s' = IF s.sched = <<>> \/ (DueCheck /\ s.execAt[Head(s.sched)] > s.now
                                         /\ ~(Fault = "overtimenodue" /\ s.overtime[Head(s.sched)]))
                  THEN [s EXCEPT !.sh = "arm"]
                  ELSE LET t == Head(s.sched) IN
                       \* acting on an entry that is not due: an only-scheduled task is promoted before its time
                       LET e == s.early \/ (s.subKind[t] = "sched" /\ s.schedAt[t] > s.now) IN
                       \* running a queued task directly although its max delay has not expired
                       IF s.overtime[t] THEN [s EXCEPT !.st = t, !.overtime[t] = FALSE, !.sh = "rwl", !.early = e, !.sg = s.sgen[t],
                                                      !.directSched = @ \/ (s.subKind[t] = "sched" /\ ~s.executing[t]),
                                                      !.earlyOT = @ \/ (s.execAt[t] > s.now)]
                                        ELSE [s EXCEPT !.st = t, !.overtime[t] = TRUE, !.sh = "asap", !.early = e]
          /\ last' = Lbl("sh", 0, "front", 0)
\* t.StartASAP() from the schedule handler (takes t.lock: checks isActive)
SAsap == /\ s.sh = "asap"
         /\ s' = IF s.canceled[s.st] THEN [s EXCEPT !.sh = "arm"]
                 ELSE [Submit(s, s.st, "asap") EXCEPT !.sh = "arm",
                          \* its scheduled time has come: from now on it waits in the queue like a queued task
                          !.subKind[s.st] = IF s.subKind[s.st] = "none" THEN "none" ELSE "queued"]
         /\ last' = Lbl("sh", s.st, "asap", 0)
\* t.runWithLocking(nil, e): void when the task no longer holds the entry e the decision was taken on
SRwl == /\ s.sh = "rwl"
        /\ IF SchedElemCheck /\ ~AtomicHandlers /\ (~s.se[s.st] \/ s.sgen[s.st] # s.sg)
           THEN s' = [s EXCEPT !.sh = "arm"]
           ELSE LET x == RWL(s, s.st, TRUE) IN s' = [x.r EXCEPT !.sh = IF x.go THEN "launch" ELSE "arm"]
        /\ last' = Lbl("sh", s.st, "rwl", 0)
SLaunch == /\ s.sh = "launch"
           /\ s' = [Launch(s, s.st) EXCEPT !.sh = "arm", !.slot[s.st] = IF Fault = "noslot" THEN FALSE ELSE @]
           /\ last' = Lbl("sh", s.st, "launch", 0)

\* ------------------------------------------------------------------ the task function returns (deferred part of executeWithLocking)
\* "repeat?": a repeating task whose execution time is still cleared (nobody scheduled or queued it since the start was
\* decided) is scheduled again, one interval from now
End(t) == /\ s.running[t]
          /\ LET r1 == [s EXCEPT !.running[t] = FALSE, !.executing[t] = FALSE, !.slot[t] = FALSE, !.ctxc[t] = FALSE]
                 ea == [s.execAt EXCEPT ![t] = s.now + s.rep[t]]
             IN s' = IF ~s.canceled[t] /\ s.rep[t] # 0 /\ s.execAt[t] = 0
                     THEN [r1 EXCEPT !.execAt = ea, !.sched = Ins(Remove(s.sched, t), t, ea), !.se[t] = TRUE, !.notif = TRUE,
                                     !.sgen = Gen(s, t),
                                     !.subKind[t] = "sched", !.schedAt[t] = s.now + s.rep[t], !.subAfter[t] = FALSE, !.open[t] = TRUE]
                     ELSE r1
          /\ last' = Lbl("end", t, "-", 0)

Env == \/ Tick \/ QWake \/ QLaunch \/ SLaunch \/ SArm \/ SNotified
       \/ \E t \in Tasks : End(t) \/ ApiCancel(t) \/ ApiUnschedule(t) \/ ApiRepeat(t) \/ ApiRepeatOff(t)
       \/ \E t \in Tasks, k \in {"queue", "prio", "asap"} : ApiSubmit(t, k)
       \/ \E t \in Tasks, at \in 1..MaxT : ApiSchedule(t, at)
UrgentQ == s.qh = "rwl"
UrgentS == s.sh \in {"fired", "rwl", "asap"}
Next == IF AtomicHandlers /\ UrgentS THEN (SFront \/ SAsap \/ SRwl)
        ELSE IF AtomicHandlers /\ UrgentQ THEN QRwl
        ELSE (Env \/ QPop \/ QRwl \/ SFire \/ SFront \/ SAsap \/ SRwl)

Spec == Init /\ [][Next]_vars

\* ------------------------------------------------------------------ properties (C07)
NoSelfOverlap == ~s.overlap
NoEarlyStart  == ~s.early
NoLostSubmission == ~s.lost
NoStartAfterCancel == ~s.startedCanceled
NoEarlyOvertime == ~s.earlyOT
\* "not more often than it was submitted": no run is started for a task without a pending submission
NoExtraRun == ~s.extra
\* a task that was only scheduled is put into the queue at its time, never run by the schedule handler itself
NoDirectSched == ~s.directSched
\* the queue handler takes the next task only when no execution holds the queue slot: never a task whose function is running
NoQueueDropWhileRunning == ~s.qdrop
Quiescent == /\ s.qh = "idle" /\ ~s.signal /\ s.sh = "wait" /\ ~s.notif /\ \A t \in Tasks : ~s.running[t]
             /\ s.now = MaxT /\ (s.sched = <<>> \/ s.execAt[Head(s.sched)] > s.now)
\* at quiescence nothing that was submitted and not cancelled is forgotten: it is still in the schedule for later
NothingLost == Quiescent => \A t \in Tasks : (s.subKind[t] # "none" /\ ~s.canceled[t]) => (s.se[t] /\ s.execAt[t] > s.now)
View == s
====
