---- MODULE ConfigLayersTrace ----
\* Validates what the Go config package did (recorded by harness/cmd/cfg) against ConfigLayers (C04).
\* trace.ndjson, one JSON object per line:
\*   {"e":"new", ...}                          a new process on a fresh data root (start of one history)
\*   {"e":"op","op":{...},"res":{"err":b,"inv":[..]},"obs":{...}}   one operation, its result, and what
\*        every getter showed afterwards: g (GetAs*), c (Concurrent.GetAs*), n (getters created after the
\*        step), w (getters of the other types), unk (getters of an unregistered key), uv/set
\*        (Option.UserValue / IsSetByUser), act (GetActiveConfigValues), p (Perspective of the step's map)
EXTENDS ConfigLayers, Json

Trace == ndJsonDeserialize("trace.ndjson")

VARIABLES st, l
vars == <<st, l>>

Init == st = InitSt /\ l = 1

New == /\ l <= Len(Trace) /\ Trace[l].e = "new"
       /\ st' = InitSt
       /\ l' = l + 1

ToSet(s) == {s[i] : i \in 1..Len(s)}
Same(f, g) == \A o \in Opts : f[o] = g[o]

ObsOK(s, op, obs) ==
    /\ Same(obs.g, ObsGet(s)) /\ Same(obs.c, ObsGet(s)) /\ Same(obs.n, ObsGet(s))
    /\ Same(obs.uv, s.user) /\ Same(obs.set, ObsSet(s)) /\ Same(obs.act, ObsActive(s))
    /\ \A o \in Opts : \A i \in 1..4 : obs.w[o][i] = ObsWrong[o][i]
    /\ \A i \in 1..4 : obs.unk[i] = ObsUnknown[i]
    /\ Same(obs.p, ObsPersp(s, OpMap(op)))

DoOp == /\ l <= Len(Trace) /\ Trace[l].e = "op"
        /\ "panic" \notin DOMAIN Trace[l].res
        /\ "obs" \in DOMAIN Trace[l]
        /\ \E x \in Step(st, Trace[l].op) :
              /\ x.res.err = Trace[l].res.err
              /\ x.res.inv = ToSet(Trace[l].res.inv)
              /\ ObsOK(x.st, Trace[l].op, Trace[l].obs)
              /\ st' = x.st
        /\ l' = l + 1

Next == New \/ DoOp
Spec == Init /\ [][Next]_vars

Accepted == TLCGet("stats").diameter - 1 = Len(Trace)
====
