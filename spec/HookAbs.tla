---- MODULE HookAbs ----
\* Property-level monitor for hooks under concurrent Cancel (C14): a hook is called at most once per operation,
\* in registration order, never after its Cancel returned, and every hook whose Cancel had not been called when
\* the operation began is called. Events from harness/cmd/hookx.
EXTENDS Integers, Sequences, FiniteSets, TLC
VARIABLES nh, cancelCalled, cancelRet, opOpen, opCalls, opMust
avars == <<nh, cancelCalled, cancelRet, opOpen, opCalls, opMust>>
AbsInit == nh = 0 /\ cancelCalled = {} /\ cancelRet = {} /\ opOpen = {} /\ opCalls = <<>> /\ opMust = <<>>
Reset(n, nops) == /\ nh' = n /\ cancelCalled' = {} /\ cancelRet' = {} /\ opOpen' = {}
                  /\ opCalls' = [o \in 1..nops |-> <<>>] /\ opMust' = [o \in 1..nops |-> {}]
OpCall(o) == /\ opOpen' = opOpen \cup {o}
             /\ opMust' = [opMust EXCEPT ![o] = (1..nh) \ cancelCalled]
             /\ UNCHANGED <<nh, cancelCalled, cancelRet, opCalls>>
HookBegin(o, h) == /\ o \in opOpen
                   /\ h \notin cancelRet                                           \* not after its cancel returned
                   /\ \A i \in 1..Len(opCalls[o]) : opCalls[o][i] < h               \* once, in registration order
                   /\ opCalls' = [opCalls EXCEPT ![o] = Append(@, h)]
                   /\ UNCHANGED <<nh, cancelCalled, cancelRet, opOpen, opMust>>
OpRet(o) == /\ o \in opOpen /\ opOpen' = opOpen \ {o}
            /\ \A h \in opMust[o] \ cancelCalled : \E i \in 1..Len(opCalls[o]) : opCalls[o][i] = h
            /\ UNCHANGED <<nh, cancelCalled, cancelRet, opCalls, opMust>>
CancelCall(h) == cancelCalled' = cancelCalled \cup {h} /\ UNCHANGED <<nh, cancelRet, opOpen, opCalls, opMust>>
CancelRet(h) == cancelRet' = cancelRet \cup {h} /\ UNCHANGED <<nh, cancelCalled, opOpen, opCalls, opMust>>
====
