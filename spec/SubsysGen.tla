---- MODULE SubsysGen ----
\* Extension check X05: (a) breadth-first model checking of the laws of the reference semantics spec/Subsys.tla on
\* every reachable state of small module graphs (Emit = FALSE), (b) generation of driver scripts for
\* harness/cmd/subsys (Emit = TRUE, -simulate).
EXTENDS Subsys, Json

CONSTANTS MaxLen,    \* steps per emitted script / depth bound of the breadth-first search
          Level,     \* 1: small module graphs and operation domains (breadth-first search), 2: all
          Emit       \* print finished scripts as JSON

VARIABLES st, hist, done, eversf
vars == <<st, hist, done, eversf>>

Shape(n, deps) == [n |-> n, deps |-> deps]
ShapesSmall == {Shape(3, << {}, {}, {2} >>), Shape(3, << {}, {1}, {} >>)}
ShapesAll == ShapesSmall \cup
    {Shape(3, << {}, {}, {} >>),
     Shape(3, << {}, {1}, {2} >>),
     Shape(4, << {}, {}, {2}, {2} >>),             \* a dependency shared by two modules
     Shape(4, << {}, {1}, {2}, {2, 3} >>),
     Shape(4, << {}, {}, {}, {2, 3} >>),
     Shape(5, << {}, {}, {2}, {3}, {2} >>),         \* chain 4 -> 3 -> 2, and 5 -> 2
     Shape(5, << {}, {1}, {1}, {2, 3}, {4} >>)}

Init == /\ \E sh \in (IF Level = 1 THEN ShapesSmall ELSE ShapesAll) : st = New(sh.n, sh.deps)
        /\ hist = <<>> /\ done = FALSE /\ eversf = FALSE

SyncOp == Op("sync", 0, 0, 0, FALSE, "", 0, 0)
StartOp == Op("start", 0, 0, 0, FALSE, "", 0, 0)

\* the dummy parameter keeps TLC from caching a draw
Rnd(S, n) == RandomElement(S)
Bag(q, n) == q[Rnd(1..Len(q), n)]
OrElse(S, T) == IF S = {} THEN T ELSE S

\* what a quiet point leads to without an observation
GenSync(s) == {[t EXCEPT !.rec0 = Recs(t)] : t \in Quiet(s)}

\* ---------------------------------------------------------------------------------- random scripts
RegisterOps(s) ==
    LET id == Rnd(1..MaxSubs, 1)
        free == (1..s.n) \ SubMods(s)
        m == IF s.subs[id].m # 0 \/ s.started \/ free = {} THEN Rnd(1..s.n, 2) ELSE Rnd(free, 3)
    IN {Op("register", id, m, IF m = Base THEN Bag(<<0, 0, 1>>, 4) ELSE Bag(<<1, 1, 1, 1, 0>>, 5), Rnd(BOOLEAN, 6), "", 0, 0)}
SetOps(s) ==
    LET ids == {i \in Regs(s) : s.subs[i].k # 0} IN
    IF ids = {} THEN {} ELSE
    LET id == Rnd(ids, 7)
        flip == IF Toggle(s, id) THEN "F" ELSE "T"
    IN {Op("set", id, 0, 0, FALSE, Bag(<<flip, flip, flip, flip, "N", "T", "F">>, 8), 0, 0)}
FailOps(s) ==
    LET listed == UNION {Members(s, i) : i \in Regs(s)} IN
    {Op("fail", 0, Rnd(OrElse(listed, 1..s.n), 9), 0, FALSE, "", Rnd(1..3, 10), Rnd(1..2, 11))}
ResolveOps(s) ==
    LET failing == {m \in 1..s.n : s.fl[m].id # 0}
        m == Rnd(OrElse(failing, 1..s.n), 12)
    IN {Op("resolve", 0, m, 0, FALSE, "", 1, Bag(<<0, 0, IF s.fl[m].id \in 1..2 THEN s.fl[m].id ELSE 1, 1, 2>>, 13))}
SFailOps(s) ==
    LET m == Rnd(2..s.n, 14) IN {Op("sfail", 0, m, 0, FALSE, IF m \in s.sf THEN Bag(<<"F", "F", "T">>, 15) ELSE "T", 0, 0)}

\* after a sync something happens before the next one; module level steps are followed by a sync sooner or later
RandOps(s) ==
    LET fresh == hist # <<>> /\ hist[Len(hist)].op = "sync" IN
    IF ~s.started THEN
        (IF Regs(s) = {} \/ (s.nreg < 4 /\ Rnd(1..3, 16) # 1) THEN RegisterOps(s) ELSE {StartOp})
    ELSE IF s.pend # <<>> THEN
        (IF Len(s.pend) >= 3 THEN {SyncOp}
         ELSE LET f == Bag(<<"sync", "sync", "sync", "set", "set", "wait">>, 17) IN
              IF f = "sync" \/ (f = "wait" /\ hist[Len(hist)].op = "wait") THEN {SyncOp}
              ELSE IF f = "wait" THEN {Op("wait", 0, 0, Bag(<<40, 95, 105, 130, 210>>, 19), FALSE, "", 0, 0)}
              ELSE OrElse(SetOps(s), {SyncOp}))
    ELSE LET f == Bag(<<"set", "set", "set", "set", "set", "fail", "fail", "resolve", "sfail", "sfail", "register",
                        IF fresh THEN "set" ELSE "sync", IF fresh THEN "fail" ELSE "sync", IF fresh THEN "sfail" ELSE "sync">>, 18) IN
         CASE f = "set" -> OrElse(SetOps(s), FailOps(s)) [] f = "fail" -> FailOps(s) [] f = "resolve" -> ResolveOps(s)
           [] f = "sfail" -> SFailOps(s) [] f = "register" -> RegisterOps(s) [] OTHER -> {SyncOp}

\* ---------------------------------------------------------------------------------- exhaustive operation domain
BfsOps(s) ==
    IF ~s.started THEN
        {Op("register", id, m, k, FALSE, "", 0, 0) : id \in 1..2, m \in (1..s.n) \ SubMods(s), k \in {0, 1}}
        \cup (IF Regs(s) # {} THEN {StartOp} ELSE {})
    ELSE {Op("set", id, 0, 0, FALSE, v, 0, 0) : id \in {i \in Regs(s) : s.subs[i].k # 0}, v \in {"T", "F"}}
         \cup {SyncOp}
         \cup (IF s.pend # <<>> THEN {} ELSE
                 {Op("fail", 0, m, 0, FALSE, "", 3, 1) : m \in 2..s.n}
                 \cup {Op("sfail", 0, m, 0, FALSE, v, 0, 0) : m \in 2..s.n, v \in {"T", "F"}}
                 \cup {Op("register", 1, 2, 0, FALSE, "", 0, 0)})

Pick(S) == IF Emit THEN {RandomElement(S)} ELSE S

DoOp == /\ ~done /\ Len(hist) < MaxLen
        /\ \E o \in (IF Emit THEN RandOps(st) ELSE {x \in BfsOps(st) : Len(st.pend) < 3 \/ x.op # "set"}) :
              /\ IF o.op = "sync" THEN \E t \in Pick(GenSync(st)) : st' = t
                 ELSE WellFormed(st, o) /\ \E x \in Pick(Step(st, o)) : st' = x.st
              /\ hist' = Append(hist, IF Emit THEN o ELSE [op |-> o.op])
              /\ eversf' = (eversf \/ o.op = "sfail")
        /\ UNCHANGED done

Finish == /\ Emit /\ Len(hist) = MaxLen /\ ~done
          /\ done' = TRUE
          /\ PrintT(<<"@@", ToJson([n |-> st.n, deps |-> st.deps, steps |-> hist,
                                    \* in a quarter of the scripts the start routine of one module takes longer than the
                                    \* debounce interval (no meaning for the model: management passes overlap later handlers)
                                    slow |-> IF Rnd(1..4, 20) = 1 THEN {Rnd(2..st.n, 21)} ELSE {}])>>)
          /\ UNCHANGED <<st, hist, eversf>>

Next == DoOp \/ Finish
Spec == Init /\ [][Next]_vars

\* ---------------------------------------------------------------------------------- laws of the reference semantics
Wanted(s) == s.en \cup s.depf
QuietLaws(s) ==
    /\ s.en = EnabledSet(s)                                        \* the flags of the last configuration are in force
    /\ s.depf = DepFlags(s, s.en)                                  \* dependency flags = dependency closure
    /\ s.on \subseteq Wanted(s)                                    \* nothing runs that nobody wants
    /\ \A m \in s.on : s.deps[m] \subseteq s.on                    \* nothing runs without its dependencies
    /\ Base \in s.on
    /\ (~eversf => s.on = Wanted(s))                               \* exactly the enabled subsystems and their dependencies
    /\ \A i \in Regs(s) : s.subs[i].k = 0 => s.subs[i].m \in s.en \* a subsystem without option cannot be disabled
    /\ \A m \in (1..s.n) \ s.on : s.fl[m].id \in {0, 1, 2, 9}
GroupLaws(s) ==
    LET needed == Clo(s.deps, SubMods(s)) \ SubMods(s) IN
    /\ \A d \in 1..s.n : (s.asg[d] # 0) = (d \in needed)            \* every dependency is listed, in exactly one subsystem
    /\ \A d \in needed : s.asg[d] \in Regs(s) /\ d \in Reach(s, s.asg[d])
    /\ \A i, j \in Regs(s) : i # j => Members(s, i) \cap Members(s, j) = {}
Laws ==
    /\ \A o \in BfsOps(st) \ {SyncOp} : WellFormed(st, o) /\ Step(st, o) # {}
    /\ st.started => GenSync(st) # {}
    /\ (st.started /\ st.pend = <<>>) => QuietLaws(st)
    /\ st.started => GroupLaws(st)
    /\ ~st.started => st.pend = <<>> /\ st.on = {}
View == <<st, Len(hist), done, eversf>>
====
