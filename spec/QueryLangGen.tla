---- MODULE QueryLangGen ----
\* Generation of vectors for property C11 and TLC checks of the laws of the model itself.
\* Three state spaces over the same variables (chosen with INIT/NEXT in the configuration):
\*   S  strings:  every character string over the 9 classes up to MaxLen (BFS); invariant TokLaws;
\*                emits the predicted token list of every string
\*   L  trees:    every leaf of the exhaustive leaf family, wrapped up to Deep times into
\*                not / and / or (BFS); invariant SemLaws; emits every tree as a query
\*   R  random:   trees of depth <= 2, fan-out <= 3 drawn from a vector of random numbers with
\*                prefix, orderby, limit, offset and a randomly styled text, and a character
\*                string of 7..30 characters with its predicted token list (simulation)
EXTENDS QueryLang, Json

CONSTANTS MaxLen, Deep, Emit
VARIABLES str, ast, n
vars == <<str, ast, n>>

Out(x) == IF Emit THEN PrintT(<<"@@", ToJson(x)>>) ELSE TRUE

\* ------------------------------------------------------------------ S: strings
Wits(t) == IF t = <<>> THEN << <<>>, <<1>> >>
           ELSE <<t, Append(t, 1), SubSeq(t, 1, Len(t) - 1)>> \o (IF Len(Split(t)) > 1 THEN Split(t) ELSE <<>>)
TokVector(s) == LET sh == Shape(Tokenize(s))
                IN [k |-> "tok", s |-> s, sh |-> sh.sh, j |-> sh.j, t |-> sh.t, wits |-> IF sh.sh = "x" THEN <<>> ELSE Wits(sh.t)]

InitS == /\ str = <<>> /\ ast = NoCondition /\ n = 0
         /\ Out([k |-> "pool", sw |-> SW, jw |-> JW])
         /\ Out(TokVector(<<>>))
NextS == /\ Len(str) < MaxLen
         /\ \E c \in Classes : str' = Append(str, c)
         /\ Out(TokVector(str'))
         /\ UNCHANGED <<ast, n>>

Plain(s) == \A k \in 1..Len(s) : s[k] \notin {QT, BS}
RECURSIVE SumLen(_)
SumLen(toks) == IF toks = <<>> THEN 0 ELSE (IF Head(toks).p = 0 THEN Len(Head(toks).x) ELSE 1) + SumLen(Tail(toks))
CountOf(s, c) == LET RECURSIVE f(_) f(i) == IF i > Len(s) THEN 0 ELSE (IF s[i] = c THEN 1 ELSE 0) + f(i + 1) IN f(1)

TokLaws ==
    LET T == Tokenize(str) IN
    \* escaping makes any string exactly one word, quoted and bare (every token text is itself such a string)
    /\ \A st \in {0, 1} : Tokenize(Escape(str, st)) = [open |-> FALSE, toks |-> <<Word(str)>>]
    /\ EscapeAuto(str, 2) \in {Escape(str, 0), str}
    \* blanks separate, parentheses are tokens of their own: tokenizing is compositional
    /\ ~T.open => /\ Tokenize(str \o <<SP, 1>>) = [open |-> FALSE, toks |-> Append(T.toks, Word(<<1>>))]
                  /\ Tokenize(<<PO, 1, SP>> \o str \o <<PC>>) = [open |-> FALSE, toks |-> <<Paren(PO), Word(<<1>>)>> \o T.toks \o <<Paren(PC)>>]
    \* without quotes and backslashes nothing is open and no character is lost or invented
    /\ Plain(str) => ~T.open /\ SumLen(T.toks) + CountOf(str, SP) = Len(str)

\* ------------------------------------------------------------------ L: trees
LeafFamily ==
       {Leaf(key, op, IntV(v)) : key \in {KX, KY, KM}, op \in IntOps, v \in IntRanks}
  \cup {Leaf(key, op, FloatV(v)) : key \in {KY, KX, KM}, op \in FloatOps, v \in FloatRanks \cup {NaN}}
  \cup {Leaf(key, op, StrV(s)) : key \in {KXY, KS}, op \in StrOps, s \in StrOperands}
  \cup {Leaf(key, "sameas", StrV(s)) : key \in {KX, KY, KYX, KE, KQ, KP, KM}, s \in {<<1>>, <<9>>}}
  \cup {Leaf(KB, op, StrV(s)) : op \in {"sameas", "contains"}, s \in {<<1>>, <<1, 3, 10>>, <<9>>}}
  \cup {Leaf(KXY, "in", ListV(<<a, b>>)) : a \in InElems, b \in {<<1>>, <<9>>, <<1, 3, 10>>, <<>>}}
  \cup {Leaf(KE, "in", ListV(<<a, b, a>>)) : a \in {<<9>>, <<1, 9>>}, b \in InElems}
  \cup {Leaf(key, "matches", ReV(a, s)) : key \in {KXY, KE}, a \in 0..3, s \in ReLits}
  \cup {Leaf(key, "is", BoolV(b)) : key \in {KYX, KX, KM}, b \in BOOLEAN}
  \cup {Leaf(key, "exists", NoV) : key \in {QKeys[k] : k \in 1..Len(QKeys)}}
  \* operands that do not fit their operator (a word where a number or a truth value belongs): Check / ParseQuery must
  \* refuse the query wherever such a leaf stands in the tree
  \cup {Leaf(key, op, StrV(<<1>>)) : key \in {KX}, op \in {"eq", "gt", "le"}}
  \cup {Leaf(KY, op, StrV(<<10>>)) : op \in {"feq", "flt"}}
  \cup {Leaf(KYX, "is", StrV(<<1, 10>>))}
  \* keys that read like a token of the grammar: "(" and ")"  (and, or, not cannot be spelled in the alphabet)
  \cup {Leaf(key, op, IF op = "eq" THEN IntV(4) ELSE NoV) : key \in {<<PO>>, <<PC>>}, op \in {"exists", "eq"}}
  \* a key that reads like a clause word (limit): a condition on it is printed and parsed like any other
  \cup {Leaf(KLIM, "gt", IntV(5)), Leaf(KLIM, "sameas", StrV(<<1>>)), Leaf(KLIM, "is", BoolV(TRUE))}

Partner1 == Leaf(KX, "gt", IntV(3))
Partner2 == Not(Leaf(KS, "sameas", StrV(<<1>>)))
Partner3 == And(<<Leaf(KXY, "contains", StrV(<<1>>)), Leaf(KYX, "is", BoolV(TRUE))>>)
Partner4 == Or(<<Leaf(KE, "startswith", StrV(<<9>>)), Leaf(KS, "exists", NoV), Leaf(KY, "flt", FloatV(4))>>)
Wraps(c) == {Not(c), And(<<c, Partner1>>), Or(<<Partner2, c>>), Or(<<c, Partner3>>), And(<<Partner4, c>>),
             Or(<<Partner1, c, Partner3>>)}

QScript(a, pfx, ob, lim, off, rv, sty, api) ==
    [k |-> "q", ast |-> a, pfx |-> pfx, ob |-> ob, lim |-> lim, off |-> off, api |-> api,
     items |-> QueryText(a, pfx, ob, lim, off, rv, sty),
     f |-> [notnot |-> HasNotNot(a), grpend |-> GroupAtEnd(a)]]
Canon(a) == QScript(a, <<10, 13>>, <<>>, 0, 0, ZeroRV, 0, 0)

InitL == /\ ast \in LeafFamily /\ str = <<>> /\ n = 0
         /\ Out(Canon(ast))
NextL == /\ n < Deep
         /\ ast' \in Wraps(ast)
         /\ n' = n + 1
         /\ Out(Canon(ast'))
         /\ UNCHANGED str

Sub(c, op, v) == Leaf(c.key, op, v)
LeafLaws(c, r) ==
    /\ ~Has(r, c.key) => ~Matches(c, r)
    /\ c.op = "ge"  => Matches(c, r) = (Matches(Sub(c, "gt", c.val), r) \/ Matches(Sub(c, "eq", c.val), r))
    /\ c.op = "le"  => Matches(c, r) = (Matches(Sub(c, "lt", c.val), r) \/ Matches(Sub(c, "eq", c.val), r))
    /\ c.op = "fge" => Matches(c, r) = (Matches(Sub(c, "fgt", c.val), r) \/ Matches(Sub(c, "feq", c.val), r))
    /\ c.op = "fle" => Matches(c, r) = (Matches(Sub(c, "flt", c.val), r) \/ Matches(Sub(c, "feq", c.val), r))
    /\ (c.op = "eq" /\ Has(r, c.key) /\ Get(r, c.key).t = "int") =>
           (Matches(c, r) # (Matches(Sub(c, "lt", c.val), r) \/ Matches(Sub(c, "gt", c.val), r)))
    /\ (c.op \in FloatOps /\ c.val.i = NaN) => ~Matches(c, r)
    /\ c.op = "sameas" => (Matches(c, r) => /\ Matches(Sub(c, "startswith", c.val), r)
                                            /\ Matches(Sub(c, "endswith", c.val), r))
    /\ c.op \in {"startswith", "endswith"} => (Matches(c, r) => Matches(Sub(c, "contains", c.val), r))
    /\ c.op = "in" => Matches(c, r) = \E j \in 1..Len(c.val.l) : Matches(Sub(c, "sameas", StrV(c.val.l[j])), r)
    /\ c.op = "matches" => Matches(c, r) = Matches(Sub(c, CASE c.val.i = 0 -> "contains" [] c.val.i = 1 -> "startswith"
                                                               [] c.val.i = 2 -> "endswith" [] OTHER -> "sameas", StrV(c.val.s)), r)
    /\ c.op = "exists" => Matches(c, r) = Has(r, c.key)

Balanced(lex) == LET RECURSIVE cnt(_, _) cnt(i, w) == IF i > Len(lex) THEN 0 ELSE (IF lex[i].k = "kw" /\ lex[i].w = w THEN 1 ELSE 0) + cnt(i + 1, w)
                 IN cnt(1, "(") = cnt(1, ")")

SemLaws == WellFormed(ast) =>
    /\ WellFormed(ast)
    /\ Balanced(QueryLex(ast, <<10, 13>>, <<>>, 0, 0, ZeroRV, 0))
    /\ LET jw == JW IN \A i \in 1..Len(jw) :
         LET r == jw[i]
             m == Matches(ast, r)
         IN
         /\ Conforms(m, ast, r)                              \* the strict meaning is one of the allowed answers
         /\ MustMatch(ast, r) => MayMatch(ast, r)
         /\ Allowed(ast, r) # {}
         /\ Matches(Not(Not(ast)), r) = m
         /\ Allowed(Not(ast), r) = {~b : b \in Allowed(ast, r)}
         /\ ast.k = "leaf" => LeafLaws(ast, r)
         /\ ast.k = "and" => Matches(Not(ast), r) = Matches(Or([j \in 1..Len(ast.sub) |-> Not(ast.sub[j])]), r)
         /\ ast.k = "or"  => Matches(Not(ast), r) = Matches(And([j \in 1..Len(ast.sub) |-> Not(ast.sub[j])]), r)

\* ------------------------------------------------------------------ R: random trees
RVec(seed) == [i \in 1..RVLen |-> RandomElement(0..9999)]
\* a longer character string (7..30 characters, plain characters and escapes more likely) from the same numbers
LongStr(rv) == [i \in 1..(7 + (rv[RVLen] % 24)) |-> Nth(<<1, 1, 1, 2, 2, 3, 4, 4, 5, 5, 6, 7, 8, 9>>, rv[i] + rv[i + 40])]
InitR == str = <<>> /\ ast = NoCondition /\ n = 0
NextR == /\ n' = n + 1
         /\ UNCHANGED <<str, ast>>
         /\ \E rv \in {RVec(n)} :
              LET a == Build(rv, 1, 0)
                  b == IF rv[G0 + 6] % 25 = 0 THEN NoCondition ELSE a
              IN /\ Out(QScript(b, Nth(Prefixes, rv[G0 + 1]), Nth(OrderBys, rv[G0 + 2]), Nth(Limits, rv[G0 + 3]),
                                Nth(Limits, rv[G0 + 4]), rv, 1, rv[G0 + 6]))
                 /\ Out(TokVector(LongStr(rv)))

SpecS == InitS /\ [][NextS]_vars
SpecL == InitL /\ [][NextL]_vars
SpecR == InitR /\ [][NextR]_vars
====
