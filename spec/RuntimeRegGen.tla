---- MODULE RuntimeRegGen ----
\* Extension check X03: (a) breadth-first model checking of the laws of spec/RuntimeReg.tla on every
\* reachable state of a small key set (Emit = FALSE), (b) generation of operation histories for the
\* driver harness/cmd/rtreg (Emit = TRUE, -simulate).
EXTENDS RuntimeReg, Json

CONSTANTS MaxLen,    \* operations per emitted history / depth bound of the breadth-first search
          MaxRegs,   \* bound on the number of successful registrations
          MaxSubs,   \* bound on the number of subscriptions
          Level,     \* 1: small key and kind sets (breadth-first search), 2: all
          Emit,      \* print finished histories as JSON
          RaceN      \* 0, or the number of registrations that race each other at the start of an emitted history

VARIABLES st, hist, done, race
vars == <<st, hist, done, race>>

\* racing registrations (kind rw): the history continues from the outcome in which they are made in the
\* order of the list (the driver numbers the providers by the outcome it observed, the trace validation
\* follows the observation)
RaceKeys == {<<1>>, <<1, 3>>, <<1, 3, 1>>, <<1, 3, 1, 3>>, <<1, 2>>, <<1, 2, 3>>, <<1, 3, 2>>, <<2, 3>>, <<>>}
RECURSIVE AfterRace(_, _, _)
AfterRace(s, ks, i) ==
    IF i > Len(ks) THEN s
    ELSE LET o == Op("register", ks[i], 0, 0, "rw", <<>>, 0)
             x == CHOOSE y \in Step(s, o) : y.res.err \in {"ok", "taken"}
         IN AfterRace(x.st, ks, i + 1)
Init == /\ race \in (IF Emit /\ RaceN > 0 THEN [1..RaceN -> RaceKeys] ELSE {<<>>})
        /\ st = AfterRace(Empty, race, 1)
        /\ hist = <<>> /\ done = FALSE

K0 == IF Level = 1 THEN KeysSmall ELSE KeysAll
Kinds0 == IF Level = 1 THEN KindsSmall ELSE KindsAll

\* the dummy parameter keeps TLC from caching a draw
Rnd(S, n) == RandomElement(S)

\* keys close to what is registered, stored or subscribed: the keys themselves, their prefixes, one more character
Near(s) ==
    LET base == {KeyOf(s, p) : p \in Pids(s)} \cup {r.k : r \in s.store} \cup Range(s.subs) \cup {<<1>>, <<1, 3>>}
    IN base \cup {Append(b, c) : b \in base, c \in 1..3} \cup UNION {{SubSeq(b, 1, n) : n \in 0..Len(b)} : b \in base}

FamiliesStart == <<"register", "register", "register", "register", "register", "inject", "inject", "get", "query", "subscribe">>
FamiliesBefore == <<"inject", "inject", "inject", "inject", "register", "register", "register", "get", "put", "query", "subscribe", "push">>
FamiliesAfter == <<"register", "register", "get", "get", "get", "put", "put", "put", "put", "delete", "delete",
                   "query", "query", "query", "query", "subscribe", "poke", "poke", "poke", "push", "push", "inject">>
AllFamilies == {"register", "inject", "get", "put", "delete", "query", "subscribe", "poke", "push"}
KindBag == <<"rw", "rw", "rw", "sloppy", "sloppy", "ro", "ro", "wo", "single", "single", "fail", "modint">>

Bounded(f, s) == IF f = "register" /\ Len(s.regs) >= MaxRegs THEN "get"
                 ELSE IF f = "subscribe" /\ Len(s.subs) >= MaxSubs THEN "query" ELSE f
\* keys worth asking for: mostly those something is stored under or somebody is responsible for
OrElse(S, T) == IF S = {} THEN T ELSE S
KeysFor(f, n) ==
    LET near == Near(st)
        held == {r.k : r \in st.store}
        owned == {k \in near : Route(st, k) # {}}
        tops == UNION {{SubSeq(b, 1, m) : m \in 0..Len(b)} : b \in {KeyOf(st, p) : p \in Pids(st)} \cup held}
        sel == Rnd(1..8, n)
    IN CASE f \in {"get", "delete"} -> IF sel <= 4 THEN OrElse(held, near) ELSE IF sel <= 6 THEN OrElse(owned, near)
                                                                      ELSE IF sel = 7 THEN near ELSE KeysAll
         [] f = "put"   -> IF sel <= 5 THEN OrElse(owned, near) ELSE IF sel <= 7 THEN near ELSE KeysAll
         [] f = "query" -> IF sel <= 5 THEN OrElse(tops, near) ELSE IF sel <= 7 THEN near ELSE KeysAll
         [] OTHER       -> IF sel <= 2 THEN KeysAll ELSE near
RandOps(n) ==
    LET F == IF Len(st.regs) < 2 THEN FamiliesStart ELSE IF st.inj THEN FamiliesAfter ELSE FamiliesBefore
        f == Bounded(F[Rnd(1..Len(F), n)], st)
        K == KeysFor(f, n)
        S == OpsOf(f, st, K, {KindBag[Rnd(1..Len(KindBag), n)]})
    IN IF S = {} THEN OpsOf("get", st, K, Kinds0) ELSE S
BfsOps == UNION {OpsOf(f, st, K0, Kinds0) : f \in {g \in AllFamilies : Bounded(g, st) = g}}

Pick(S) == IF Emit THEN {RandomElement(S)} ELSE S

DoOp == /\ ~done /\ Len(hist) < MaxLen
        /\ \E o \in (IF Emit THEN Pick(RandOps(0)) ELSE BfsOps) : \E x \in Pick(Step(st, o)) :
              /\ st' = x.st
              /\ hist' = Append(hist, IF Emit THEN o ELSE 0)
        /\ UNCHANGED <<done, race>>

Finish == /\ Emit /\ Len(hist) = MaxLen /\ ~done
          /\ done' = TRUE
          /\ PrintT(<<"@@", ToJson([mode |-> IF race = <<>> THEN "seq" ELSE "race", race |-> race, steps |-> hist])>>)
          /\ UNCHANGED <<st, hist, race>>

Next == DoOp \/ Finish
Spec == Init /\ [][Next]_vars

\* the laws of the reference semantics hold in every reachable state, for every operation of the domain
Laws == /\ RouteUnique(st, K0 \cup Near(st))
        /\ NoOverlap(st)
        /\ StoreOwned(st)
        /\ QueryIsGets(st, K0)
        /\ PutThenGet(st, K0)
        /\ \A o \in BfsOps : Step(st, o) # {} /\ FailuresChangeNothing(st, o)
View == <<st, Len(hist), done>>
====
