---- MODULE ApiEpTrace ----
\* Validates what the Go api package did (driver harness/cmd/apiep) against spec/ApiEp.tla (X07).
\* trace.ndjson, one JSON object per line:
\*   {"e":"new"}                                    a fresh path prefix, module offline (start of a history)
\*   {"e":"reg","d":{decl},"res":"ok|invalid|dup|othererr|panic"}      RegisterEndpoint
\*   {"e":"race","ds":[decl..],"errs":[res..]}      concurrent RegisterEndpoint calls
\*   {"e":"mod","on":bool}                          the module was taken online / offline
\*   {"e":"req","q":{request},"ob":{st,ct,body,inv,input,rbody,vars,xh,rl,err}}   one HTTP round trip
\*   {"e":"reqstart","q":{request},"ob":{...}}     a round trip that began while the module was starting
\*   {"e":"list","via":"http|export","ob":{st,ct,entries,err}}   the registry as exported, own prefix only
\*   {"e":"bypath","p":id,"found":bool,"entry":{...}}              GetEndpointByPath
EXTENDS ApiEp, Json

Trace == ndJsonDeserialize("trace.ndjson")

VARIABLES st, l
vars == <<st, l>>

Init == st = Empty /\ l = 1

Ev == Trace[l]
At(kind) == l <= Len(Trace) /\ Trace[l].e = kind

New == /\ At("new")
       /\ st' = Empty
       /\ l' = l + 1

Reg == /\ At("reg")
       /\ Ev.res \in RegResults(st, Ev.d)
       /\ st' = AfterReg(st, Ev.d, Ev.res)
       /\ l' = l + 1

\* registrations racing each other: the results must be those of the same calls in SOME order
RECURSIVE RaceOK(_, _, _, _)
RaceOK(s, ds, errs, todo) ==
    IF todo = {} THEN TRUE
    ELSE \E i \in todo : /\ errs[i] \in RegResults(s, ds[i])
                         /\ RaceOK(AfterReg(s, ds[i], errs[i]), ds, errs, todo \ {i})
RECURSIVE AfterAll(_, _, _, _)
AfterAll(s, ds, errs, i) == IF i > Len(ds) THEN s
                            ELSE AfterAll(IF errs[i] = "ok" /\ ~Registered(s, ds[i].p) /\ Len(ds[i].fns) >= 1
                                          THEN AfterReg(s, ds[i], "ok") ELSE s, ds, errs, i + 1)
Race == /\ At("race")
        /\ Len(Ev.ds) = Len(Ev.errs)
        /\ RaceOK(st, Ev.ds, Ev.errs, 1..Len(Ev.ds))
        /\ st' = AfterAll(st, Ev.ds, Ev.errs, 1)
        /\ l' = l + 1

Mod == /\ At("mod")
       /\ st' = [st EXCEPT !.online = Ev.on]
       /\ l' = l + 1

Req == /\ At("req")
       /\ ReqOK(st, Ev.q, Ev.ob)
       /\ UNCHANGED st
       /\ l' = l + 1

\* the request arrived while the module was starting and the start completed within the waiting time:
\* it is answered as with the module online
ReqStart == /\ At("reqstart")
            /\ ReqOK([st EXCEPT !.online = TRUE], Ev.q, Ev.ob)
            /\ st' = [st EXCEPT !.online = TRUE]
            /\ l' = l + 1

List == /\ At("list")
        /\ ListOK(st, Ev.ob)
        /\ UNCHANGED st
        /\ l' = l + 1

ByPath == /\ At("bypath")
          /\ ByPathOK(st, Ev.p, Ev.found, Ev.entry)
          /\ UNCHANGED st
          /\ l' = l + 1

Next == New \/ Reg \/ Race \/ Mod \/ Req \/ ReqStart \/ List \/ ByPath
Spec == Init /\ [][Next]_vars

Accepted == TLCGet("stats").diameter - 1 = Len(Trace)
====
