---- MODULE AccSem ----
\* Extension check X12: package database/accessor - StructAccessor (reflection over a Go struct),
\* JSONAccessor (*string) and JSONBytesAccessor (*[]byte) "supply the query matcher a method to
\* retrieve values from an object" and let InsertValue / the API's `insert` write single fields.
\*
\* STATEMENT (derived from the doc comments of accessor*.go, accessor_test.go and database/query/README.md,
\* section "Selectors": "Supported by all feeders: root level field `field`, sub level field `field.sub`,
\* array/slice/map access `map.0`, array/slice/map length `map.#`"):
\*  A1  No operation of any accessor ever panics; getters and Exists never change the object.
\*  A2  For every key that addresses a present field (root level, sub level through nested structs /
\*      objects and non-nil pointers, fields promoted from an embedded struct, fields of named types):
\*      Exists is true, Get succeeds with the field's value, and exactly the typed getter of the field's
\*      kind succeeds with the field's value: GetString on strings, GetStringArray on arrays of strings,
\*      GetBool on bools, GetInt on every int/uint width (exact within int64), GetFloat on float32/float64.
\*      Every other typed getter reports ok = false.  Numeric cross conversions (GetInt on a float, GetFloat
\*      on an int) are where the accessors are known to differ (JSON has one number kind and converts, the
\*      struct accessor refuses; see QuerySem.tla "O" leaves): both answers are allowed there, a JSON number
\*      without a fraction must be readable with both getters.  Beyond 2^53 JSON answers are left open.
\*  A3  For every key that addresses nothing (unknown name, sub key of a missing or nil parent, sub key of a
\*      scalar, index beyond the length) every getter reports ok = false and Exists is false.
\*      `arr.N` addresses element N, `arr.#` the length (an integer).
\*  A4  Set with a value of the field's kind stores it: nil error, afterwards the field holds exactly that
\*      value (float32 fields: the nearest float32) and every other field is unchanged.  Integers convert
\*      between all int/uint types, iff the value is in the range of the field's width; floats between
\*      float32 and float64.
\*  A5  Set with a value of another kind (string / number / bool / array / object against each other), or
\*      an integer outside the range of the field's width, is refused: an error is returned and NOTHING
\*      in the object changes.  Whenever Set returns an error the object is unchanged.
\*  A6  Set on a key that addresses nothing: the struct accessor refuses (a struct cannot grow); the JSON
\*      accessors may refuse or create the key with that value (undocumented, sjson creates) - but never by
\*      destroying an existing scalar (Set "S.X" on a string S must not turn S into an object).
\*  A7  JSONAccessor and JSONBytesAccessor are indistinguishable.
\* Left open (every outcome but a panic allowed; an error still means "unchanged"): pointer fields to
\* basic types, unexported fields, the name of an embedded struct itself, slices of non-strings, fields
\* promoted through a nil embedded pointer (missing or not), nil as a value, objects/maps as values on
\* object fields, an int value on a float field and an integral float value on an int field (QuerySem
\* difference), string vs named-string types, []interface{} of strings on a string array, float32 overflow,
\* everything once a JSON field is null.
\*
\* VALUES: [t, r, fr, s, b, l] (one shape).  t = "str" (s), "bool" (b), "arr" (l: sequence of strings),
\*   "num": r = rank in the integer anchor list (fr = FALSE) or in the fraction anchor list (fr = TRUE);
\*   TLC integers are 32 bit, so numbers are ranks; the driver owns the rank <-> number table (IntAnchors /
\*   FracAnchors in harness/cmd/accx) and the spec only uses order, the width bounds below and Trunc.
\*   "none" absent, "null" JSON null / nil pointer, "obj" object / struct, "other" anything else (array of
\*   non-strings ...), "any" marker: unconstrained.
EXTENDS Integers, Sequences, FiniteSets

V(t, r, fr, s, b, l) == [t |-> t, r |-> r, fr |-> fr, s |-> s, b |-> b, l |-> l]
NoneV    == V("none", 0, FALSE, "", FALSE, <<>>)
NullV    == V("null", 0, FALSE, "", FALSE, <<>>)
ObjV     == V("obj", 0, FALSE, "", FALSE, <<>>)
OtherV   == V("other", 0, FALSE, "", FALSE, <<>>)
AnyV     == V("any", 0, FALSE, "", FALSE, <<>>)
StrV(s)  == V("str", 0, FALSE, s, FALSE, <<>>)
BoolV(b) == V("bool", 0, FALSE, "", b, <<>>)
ArrV(l)  == V("arr", 0, FALSE, "", FALSE, l)
NumV(r)  == V("num", r, FALSE, "", FALSE, <<>>)
FracV(r) == V("num", r, TRUE, "", FALSE, <<>>)

\* ---- integer anchors (rank -> number; the table is repeated in the driver) ----
\*  0 -2^63   1 -2^31-1  2 -2^31   3 -32769  4 -32768  5 -129   6 -128   7 -1     8 0      9 1
\* 10 2      11 42      12 127     13 128    14 255    15 256   16 32767 17 32768 18 65535 19 65536
\* 20 2^31-1 21 2^31    22 2^32-1  23 2^32   24 2^53   25 2^63-1 26 2^63 27 2^64-1 28 2^130
MaxRank == 28
Zero == 8
Lo(k) == CASE k \in {"int8"} -> 6 [] k = "int16" -> 4 [] k = "int32" -> 2 [] k \in {"int64", "int"} -> 0 [] OTHER -> 8
Hi(k) == CASE k = "int8" -> 12 [] k = "int16" -> 16 [] k = "int32" -> 20 [] k \in {"int64", "int"} -> 25
           [] k \in {"uint8", "myu8"} -> 14 [] k = "uint16" -> 18 [] k = "uint32" -> 22 [] k \in {"uint64", "uint"} -> 27
IntKinds   == {"int", "int8", "int16", "int32", "int64", "uint", "uint8", "uint16", "uint32", "uint64", "myu8"}
UintKinds  == {"uint", "uint8", "uint16", "uint32", "uint64", "myu8"}
FloatKinds == {"float32", "float64"}
InRange(k, r) == Lo(k) <= r /\ r <= Hi(k)
Big(r) == r = 0 \/ r >= 25                              \* |n| > 2^53: JSON answers are left open
F64Exact(r) == r \notin {25, 27}                         \* integer anchors that are float64 values
F32Exact(r) == r \in ({0, 2, 21, 23, 24, 26} \cup (3..19))  \* ... that are float32 values
\* ---- fraction anchors: 0 -1.5  1 -0.5  2 0.5  3 1.5  4 42.25  5 float32(42.42)  6 42.42  7 127.5 ----
MaxFrac == 7
Trunc(fr) == CASE fr = 0 -> 7 [] fr \in {1, 2} -> 8 [] fr = 3 -> 9 [] fr \in {4, 5, 6} -> 11 [] fr = 7 -> 12
ToF32(v) == IF v.fr /\ v.r = 6 THEN FracV(5) ELSE v
F32Holds(v) == IF v.fr THEN TRUE ELSE F32Exact(v.r)      \* ToF32(v) is an anchor again
LenRank(n) == CASE n = 0 -> 8 [] n = 1 -> 9 [] n = 2 -> 10 [] OTHER -> -1

\* ---- the object under test (type Obj in harness/cmd/accx; the JSON accessors see json.Marshal of it) ----
\* leaf keys and the Go kind of the struct field behind them
SK(key) == CASE key \in {"S", "ES", "Sub.S", "Sub.Deep.S", "PS.S", "M.k", "M.z"} -> "string"
             [] key = "NS" -> "mystr"
             [] key = "A" -> "strarr"
             [] key = "I" -> "int" [] key = "I8" -> "int8" [] key = "I16" -> "int16" [] key \in {"I32", "EI"} -> "int32"
             [] key \in {"I64", "Sub.I", "PS.I", "A.#"} -> "int64"
             [] key = "UI" -> "uint" [] key = "UI8" -> "uint8" [] key = "UI16" -> "uint16" [] key = "UI32" -> "uint32"
             [] key = "UI64" -> "uint64" [] key = "NI" -> "myu8"
             [] key = "F32" -> "float32" [] key = "F64" -> "float64"
             [] key = "B" -> "bool"
             [] OTHER -> "nokind"
FieldKeys == {"S", "A", "I", "I8", "I16", "I32", "I64", "UI", "UI8", "UI16", "UI32", "UI64", "F32", "F64", "B",
              "NS", "NI", "ES", "EI", "Sub.S", "Sub.I", "Sub.Deep.S", "PS.S", "PS.I", "M.k"}
MissKeys  == {"X", "Sub.X", "S.X", "I8.X", "M.z"}          \* absent in the initial object
LeafKeys  == FieldKeys \cup MissKeys                       \* = DOMAIN of a state
ObjKeys   == {"Sub", "Sub.Deep", "PS", "M"}
IdxKeys   == {"A.0", "A.1", "A.2"}
LenKeys   == {"A.#"}
OpenKeys  == {"P", "IA", "u", "Emb", "Emb.ES", "PE"}
AllKeys   == LeafKeys \cup ObjKeys \cup IdxKeys \cup LenKeys \cup OpenKeys
Index(key) == CASE key = "A.0" -> 0 [] key = "A.1" -> 1 [] key = "A.2" -> 2
\* the field a sub key hangs under, for keys whose parent is a leaf
ScalarParent(key) == CASE key = "S.X" -> "S" [] key = "I8.X" -> "I8" [] OTHER -> ""

Accs == {"struct", "json", "jsonbytes"}
IsJSON(acc) == acc # "struct"

\* the leaves below an object key: the object is known to be one while one of them is present; otherwise it is a nil
\* pointer / null / has been replaced (JSON) - treated like null: typed getters fail, everything else is open
Under(key) == CASE key = "Sub" -> {"Sub.S", "Sub.I", "Sub.Deep.S", "Sub.X"} [] key = "Sub.Deep" -> {"Sub.Deep.S"}
                [] key = "PS" -> {"PS.S", "PS.I"} [] key = "M" -> {"M.k", "M.z"}

\* what a key addresses in state st
Resolve(st, key) ==
    IF key \in LeafKeys THEN st[key]
    ELSE IF key \in IdxKeys THEN
        (IF st["A"].t = "arr" THEN (IF Index(key) < Len(st["A"].l) THEN StrV(st["A"].l[Index(key) + 1]) ELSE NoneV) ELSE AnyV)
    ELSE IF key \in LenKeys THEN
        (IF st["A"].t = "arr" /\ LenRank(Len(st["A"].l)) >= 0 THEN NumV(LenRank(Len(st["A"].l))) ELSE AnyV)
    ELSE IF key \in ObjKeys THEN (IF \E k \in Under(key) : st[k].t # "none" THEN ObjV ELSE NullV)
    ELSE AnyV

\* ---- results of getters: [ok, v]; markers: AnyR (everything allowed), R(TRUE, AnyV) (ok with any value) ----
R(ok, v) == [ok |-> ok, v |-> v]
No   == R(FALSE, NoneV)
Yes  == R(TRUE, NoneV)
AnyR == R(FALSE, AnyV)
Conf(obs, S) == \/ AnyR \in S
                \/ obs \in S
                \/ (obs.ok /\ R(TRUE, AnyV) \in S)

Getters == {"Get", "GetString", "GetStringArray", "GetInt", "GetFloat", "GetBool", "Exists"}

GetIntOn(acc, key, v) ==
    IF IsJSON(acc)
    THEN (IF v.fr THEN {No, R(TRUE, NumV(Trunc(v.r)))} ELSE IF Big(v.r) THEN {AnyR} ELSE {R(TRUE, v)})
    ELSE LET k == SK(key) IN
         IF k \in UintKinds THEN (IF v.r <= 25 THEN {R(TRUE, v)} ELSE {AnyR})
         ELSE IF k \in IntKinds THEN {R(TRUE, v)}
         ELSE IF k \in FloatKinds THEN (IF v.fr THEN {No, R(TRUE, NumV(Trunc(v.r)))}
                                        ELSE IF InRange("int64", v.r) /\ ~Big(v.r) THEN {No, R(TRUE, v)} ELSE {AnyR})
         ELSE {AnyR}

GetFloatOn(acc, key, v) ==
    IF IsJSON(acc)
    THEN (IF ~v.fr /\ Big(v.r) THEN {R(TRUE, AnyV)} ELSE {R(TRUE, v)})
    ELSE LET k == SK(key) IN
         IF k \in FloatKinds THEN {R(TRUE, v)}
         ELSE IF k \in IntKinds THEN (IF Big(v.r) THEN {AnyR} ELSE {No, R(TRUE, v)})
         ELSE {AnyR}

GetAllowed(acc, st, op, key) ==
    LET v == Resolve(st, key) IN
    CASE v.t = "any"  -> {AnyR}
      [] v.t = "none" -> {No}
      [] v.t = "null" -> IF op \in {"Get", "Exists"} THEN {AnyR} ELSE {No}
      [] v.t \in {"obj", "other"} -> IF op = "Exists" THEN {Yes} ELSE IF op = "Get" THEN {R(TRUE, AnyV)} ELSE {No}
      [] OTHER ->
           CASE op = "Exists" -> {Yes}
             [] op = "Get" -> IF IsJSON(acc) /\ v.t = "num" /\ ~v.fr /\ Big(v.r) THEN {R(TRUE, AnyV)} ELSE {R(TRUE, v)}
             [] op = "GetString" -> IF v.t = "str" THEN {R(TRUE, v)} ELSE {No}
             [] op = "GetStringArray" -> IF v.t = "arr" THEN {R(TRUE, v)} ELSE {No}
             [] op = "GetBool" -> IF v.t = "bool" THEN {R(TRUE, v)} ELSE {No}
             [] op = "GetInt" -> IF v.t = "num" THEN GetIntOn(acc, key, v) ELSE {No}
             [] op = "GetFloat" -> IF v.t = "num" THEN GetFloatOn(acc, key, v) ELSE {No}

\* ---- Set: value = [g, v], g = Go type of the argument ----
IntG   == {"int", "int8", "int16", "int32", "int64", "uint", "uint8", "uint16", "uint32", "uint64", "myu8"}
FloatG == {"float32", "float64"}
\* outcomes: [ok, st, any]; any = TRUE: unconstrained (an error still leaves the object unchanged, see SetConf)
Out(ok, st) == [ok |-> ok, st |-> st, any |-> FALSE]
AnyOut(st) == [ok |-> FALSE, st |-> st, any |-> TRUE]
Refuse(st) == Out(FALSE, st)
Acc(st, key, nv) == Out(TRUE, [st EXCEPT ![key] = nv])

\* class of the argument
VC(val) == CASE val.g = "nil" -> "null" [] val.g = "map" -> "obj" [] val.g = "intarr" -> "other" [] OTHER -> val.v.t
\* what is stored for an accepted argument
Stored(val) == CASE val.g = "nil" -> NullV [] val.g = "intarr" -> OtherV [] OTHER -> val.v

SetStruct(st, key, val) ==
    LET k == SK(key)
        v == val.v
        vc == VC(val)
    IN CASE k \in {"string", "mystr"} ->
              IF vc = "str" THEN (IF val.g = k THEN {Acc(st, key, v)} ELSE {Refuse(st), Acc(st, key, v)}) ELSE {Refuse(st)}
         [] k \in IntKinds ->
              IF vc # "num" THEN {Refuse(st)}
              ELSE IF val.g \in IntG THEN (IF ~v.fr /\ InRange(k, v.r) THEN {Acc(st, key, v)} ELSE {Refuse(st)})
              ELSE (IF ~v.fr /\ InRange(k, v.r) THEN {Refuse(st), Acc(st, key, v)} ELSE {Refuse(st)})
         [] k \in FloatKinds ->
              IF vc # "num" THEN {Refuse(st)}
              ELSE IF val.g \in FloatG THEN
                   (IF k = "float64" THEN {Acc(st, key, v)}
                    ELSE IF F32Holds(v) THEN {Acc(st, key, ToF32(v))} ELSE {AnyOut(st)})
              ELSE (IF ~v.fr /\ F32Exact(v.r) THEN {Refuse(st), Acc(st, key, v)} ELSE {AnyOut(st)})
         [] k = "bool" -> IF vc = "bool" THEN {Acc(st, key, v)} ELSE {Refuse(st)}
         [] k = "strarr" ->
              IF val.g = "strarr" THEN {Acc(st, key, v)}
              ELSE IF val.g = "anyarr" THEN {Refuse(st), Acc(st, key, v)}
              ELSE {Refuse(st)}
         [] OTHER -> {AnyOut(st)}

\* JSON text has no float32: sjson writes the shortest decimal that identifies the float32, which read back as a
\* float64 is another number (float32(42.42) is stored as 42.42); both are allowed, beyond 2^53 everything is
StoredJSON(val) == IF val.g = "float32" /\ val.v = FracV(5) THEN {FracV(5), FracV(6)} ELSE {Stored(val)}
OpenJSONArg(val) == val.g = "float32" /\ ~val.v.fr /\ Big(val.v.r)
AccJSON(st, key, val) == IF OpenJSONArg(val) THEN {AnyOut(st)} ELSE { Acc(st, key, nv) : nv \in StoredJSON(val) }

SetJSON(st, key, val, cur) ==
    LET vc == VC(val) IN
    IF vc = "obj" THEN {Refuse(st)}                    \* a map on a scalar or an array (object fields: handled by the caller)
    ELSE IF vc = "null" THEN {Refuse(st), Acc(st, key, NullV)}
    ELSE CASE cur.t \in {"str", "num", "bool"} -> IF vc = cur.t THEN AccJSON(st, key, val) ELSE {Refuse(st)}
           [] cur.t = "arr" -> IF val.g = "strarr" THEN {Acc(st, key, Stored(val))}
                               ELSE IF val.g \in {"anyarr", "intarr"} THEN {Refuse(st), Acc(st, key, Stored(val))}
                               ELSE {Refuse(st)}
           [] OTHER -> {AnyOut(st)}

SetAllowed(acc, st, key, val) ==
    LET cur == Resolve(st, key)
        vc == VC(val)
    IN IF key \notin LeafKeys
       THEN (IF cur.t = "obj" /\ vc \in {"str", "num", "bool", "arr", "other"} THEN {Refuse(st)} ELSE {AnyOut(st)})
       ELSE IF key \in {"M.k", "M.z"} THEN {AnyOut(st)}     \* map entries: written by JSON only, not part of the statement
       ELSE IF cur.t = "none" THEN
            (IF ~IsJSON(acc) THEN {Refuse(st)}
             ELSE IF ScalarParent(key) # "" /\ st[ScalarParent(key)].t \in {"str", "num", "bool", "arr"} THEN {Refuse(st)}
             ELSE IF ScalarParent(key) # "" \/ vc = "obj" THEN {AnyOut(st)}
             ELSE {Refuse(st)} \cup AccJSON(st, key, val))
       ELSE IF cur.t \in {"null", "other", "obj", "any"} THEN {AnyOut(st)}
       ELSE IF IsJSON(acc) THEN SetJSON(st, key, val, cur)
       ELSE SetStruct(st, key, val)

\* observed: ok (err = nil) and the object afterwards
SetConf(ok, st2, S) == \E o \in S : o.any \/ (o.ok = ok /\ o.st = st2)

\* ---- one step: op = [op, key, val], observation = [ok, v], st2, and whether the raw object text changed ----
StepOK(acc, st, op, res, st2, rawsame) ==
    IF op.op = "Set"
    THEN /\ SetConf(res.ok, st2, SetAllowed(acc, st, op.key, op.val))
         /\ (~res.ok => (st2 = st /\ rawsame))            \* A5: an error means nothing changed
    ELSE /\ Conf(res, GetAllowed(acc, st, op.op, op.key))
         /\ st2 = st /\ rawsame                            \* A1: getters change nothing
====
