---- MODULE UpdFlowTrace ----
\* Judges histories recorded from a real updater.ResourceRegistry talking to loopback update servers
\* (driver harness/cmd/updflow) against spec/UpdFlow.tla (extension check X08).  trace.ndjson, one JSON
\* object per line:
\*   {"e":"new","cfg":{online,usepre,nurls,auto:[..],mand:[..]},"ident":[..],"vers":[..],"names":[[..],..],"idx":[..]}
\*   {"e":"op","op":{...},"res":{"err":..,"v":..,"err2":..,"v2":..,"pok":..,"panic":..},"obs":{...}}   one call (or the pair of
\*        concurrent calls "Par": err = DownloadUpdates, err2/v2 = GetFile), its result and what is
\*        observable afterwards:
\*        res      per resource: known, l/av/cur/pre/bl (version ids of Export()), sel, act
\*        files    [r, v] of the complete, correctly named files in the storage dir; odd = anything else found there,
\*                 unknown versions / identifiers, unreadable details
\*        idxdisk  per index: tag of the document stored under the index path (0 = no file, -1 = something else)
\*        state    GetState(): id, dn (number of resources in the details, -1 = no details)
\*        upd      GetState().Updates: chkAt/dlAt/succAt = ordinal of the time stamp (0 = nil, numbered in the order in
\*                 which the driver saw them first), chkErr/dlErr, pend/lastdl as [r, v] lists
\*        notes    what StateNotifyFunc was called with during the call: id, dn, upto, dres, upd
\*        reqs     the requests the update servers received during the call: server u, k = idx|file|other, a, v
\*        handles  per file handed out by GetFile since the last restart: up = UpgradeAvailable(), closed = channel closed
\* The model has hidden state (last seen release of an index, the index of a resource) and leaves outcomes
\* open, so the validation tracks the SET of model states that explain the history so far.  One TLC state
\* per line; a call that no candidate explains is reported once with the names of the violated
\* requirements (PrintT "@@") and the rest of that history is skipped; `Accepted`: every line consumed.
EXTENDS UpdFlow, Json

Trace == ndJsonDeserialize("trace.ndjson")

VARIABLES l, S, dead
vars == <<l, S, dead>>

Init == l = 1 /\ S = {} /\ dead = FALSE

ObsUpd(u) == [chkAt |-> u.chkAt, chkErr |-> u.chkErr, pend |-> Range(u.pend), dlAt |-> u.dlAt, dlErr |-> u.dlErr,
              lastdl |-> Range(u.lastdl), succAt |-> u.succAt]
ObsNotes(ns) == [j \in 1..Len(ns) |-> [id |-> ns[j].id, dn |-> ns[j].dn, upto |-> ns[j].upto, dres |-> ns[j].dres, upd |-> ObsUpd(ns[j].upd)]]

VersEq(m, ob) == m.known = ob.known /\ m.L = Range(ob.l) /\ m.cur = Range(ob.cur) /\ m.pre = Range(ob.pre) /\ m.bl = Range(ob.bl)
AvEq(m, ob) == m.av = Range(ob.av)
HandlesEq(t, hs) == /\ Len(hs) = Len(t.handles)
                    /\ \A k \in 1..Len(hs) : hs[k].up = (t.handles[k].g \in t.upg) /\ hs[k].closed = hs[k].up
DiskEq(t, tags) == \A i \in I : tags[i] = t.disk[i].tag

\* (the requests of a call with a cancelled context are not judged: they may or may not reach a server)
Match(x, ob, cancelled) ==
    /\ cancelled \/ x.reqs = ob.reqs
    /\ \A r \in R : VersEq(x.st.res[r], ob.res[r]) /\ AvEq(x.st.res[r], ob.res[r])
                    /\ x.st.res[r].sel = ob.res[r].sel /\ x.st.res[r].act = ob.res[r].act
    /\ x.st.files = Range(ob.files)
    /\ DiskEq(x.st, ob.idxdisk)
    /\ HandlesEq(x.st, ob.handles)

\* requirements on the parts that are judged by predicates (F6, the returned path, nothing unexpected)
Extra(s, x, ev) ==
    LET t == ObsUpd(ev.obs.upd)
        p == IF ev.op.op = "Restart" THEN NoUpd ELSE s.upd       \* a new registry starts with an empty update state
    IN
    UpdViolations(p, s.clock, x.u, t)
    \cup NoteViolations(x.opid, x.u.att, p, t, ObsNotes(ev.obs.notes), ev.op.mode # "cancelled")
    \cup (IF ev.obs.state.id = "ready" /\ ev.obs.state.dn = -1 THEN {} ELSE {"state-not-ready-after-call"})
    \cup (IF ev.obs.odd = 0 THEN {} ELSE {"unexpected-files-or-entries"})
    \cup (IF (ev.op.op = "GetFile" /\ ev.res.err = "" /\ ~ev.res.pok) \/ (ev.op.op = "Par" /\ ev.res.err2 = "" /\ ~ev.res.pok)
          THEN {"file-path"} ELSE {})

Candidates(s, ev) == IF ev.res.panic # "" THEN {} ELSE {x \in Step(s, ev.op) : ev.res.err \in x.errs /\ ev.res.v = x.v /\ ev.res.err2 \in x.errs2 /\ ev.res.v2 = x.v2}

\* the model states after the call for candidate state s ({} = s does not explain the call)
Nexts(s, ev) ==
    LET t == ObsUpd(ev.obs.upd)
        c == Max({s.clock, t.chkAt, t.dlAt, t.succAt})
    IN {[x.st EXCEPT !.upd = t, !.clock = c] : x \in {y \in Candidates(s, ev) : Match(y, ev.obs, ev.op.mode = "cancelled") /\ Extra(s, y, ev) = {}}}

Smallest(SS) == CHOOSE a \in SS : \A b \in SS : Cardinality(a) <= Cardinality(b)

\* names of what is wrong with the call for candidate state s
Verdict(s, ev) ==
    IF ev.res.panic # "" THEN {"panic"}
    ELSE LET C == Candidates(s, ev)
             M == {x \in C : Match(x, ev.obs, ev.op.mode = "cancelled")}
             ob == ev.obs
         IN IF C = {} THEN {"result"}
            ELSE IF M # {} THEN Smallest({Extra(s, x, ev) : x \in M})
            ELSE LET again == \E j \in DOMAIN ob.reqs : ob.reqs[j].k = "file" /\ ob.reqs[j].a \in R /\ ob.reqs[j].v \in s.res[ob.reqs[j].a].av
                     parts == (IF ev.op.mode = "cancelled" \/ \E x \in C : x.reqs = ob.reqs THEN {} ELSE IF again THEN {"requested-available-version"} ELSE {"requests"})
                              \cup (IF \E x \in C : \A r \in R : VersEq(x.st.res[r], ob.res[r]) THEN {} ELSE {"versions"})
                              \cup (IF \E x \in C : \A r \in R : AvEq(x.st.res[r], ob.res[r]) THEN {} ELSE {"available-flag"})
                              \cup (IF \E x \in C : \A r \in R : x.st.res[r].sel = ob.res[r].sel THEN {} ELSE {"selected"})
                              \cup (IF \E x \in C : \A r \in R : x.st.res[r].act = ob.res[r].act THEN {} ELSE {"active"})
                              \cup (IF \E x \in C : x.st.files = Range(ob.files) THEN {} ELSE {"files"})
                              \cup (IF \E x \in C : DiskEq(x.st, ob.idxdisk) THEN {} ELSE {"index-file"})
                              \cup (IF \E x \in C : HandlesEq(x.st, ob.handles) THEN {} ELSE {"upgrade-signal"})
                 IN IF parts = {} THEN {"state"} ELSE parts

New == /\ l <= Len(Trace) /\ Trace[l].e = "new"
       /\ LET c == Trace[l].cfg IN
          IF Trace[l].ident = Ident /\ Trace[l].vers = VerStr /\ Trace[l].names = FileOf /\ Trace[l].idx = IdxPath
          THEN /\ dead' = FALSE
               /\ S' = {Empty(Cfg(c.online, c.usepre, c.nurls, c.auto[1], c.auto[2], {r \in R : c.mand[r]}))}
          ELSE /\ PrintT(<<"@@", ToJson([line |-> l, why |-> {"driver-tables-differ-from-spec"}])>>)
               /\ dead' = TRUE /\ S' = S
       /\ l' = l + 1

DoOp == /\ l <= Len(Trace) /\ Trace[l].e = "op"
        /\ IF dead THEN UNCHANGED <<S, dead>>
           ELSE LET N == UNION {Nexts(s, Trace[l]) : s \in S} IN
                IF N # {} THEN S' = N /\ dead' = FALSE
                ELSE /\ PrintT(<<"@@", ToJson([line |-> l, why |-> Smallest({Verdict(s, Trace[l]) : s \in S})])>>)
                     /\ dead' = TRUE /\ S' = S
        /\ l' = l + 1

Next == New \/ DoOp
Spec == Init /\ [][Next]_vars

Accepted == TLCGet("stats").diameter - 1 = Len(Trace)
====
