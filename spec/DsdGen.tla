---- MODULE DsdGen ----
\* Vectors for the dsd driver (property C09) and the laws of the Dsd model itself.
\*
\* One TLC state = one vector:
\*   t = "hdr"     a header value (Accept / Content-Type) as a list of media-type tokens; lists grow by
\*                 one token per step up to MaxLen (BFS enumerates all of them over the alphabet)
\*   t = "rt"      a (format, compression) request for Dump/Load, DumpAndCompress, DumpToHTTPRequest
\*   t = "corrupt" a (format, compression) dump with one structured corruption, for the totality clause
\* Every vector is printed with the model's predictions; the invariants are the laws the model has
\* to satisfy for every vector (the label written by the dump side resolves on the load side to the
\* encoding used; the documented negotiation is one of the allowed behaviours; identifiers resolve).
EXTENDS Dsd, Json, TLC

CONSTANTS MaxLen,   \* maximal number of tokens in a header list
          Wide,     \* larger token alphabet for lists
          Emit      \* print vectors

VARIABLE vec

Tok(m, s, v) == [m |-> m, s |-> s, v |-> v]

Core == { Tok("application", s, "plain") : s \in {"json", "cbor", "msgpack", "yaml"} }
        \cup { Tok("*", "*", "plain"), Tok("text", "html", "plain"), Tok("", "", "plain"),
               Tok("application", "json", "upper"), Tok("application", "cbor", "q"),
               Tok("application", "yaml", "sp"), Tok("application", "msgpack", "charset"),
               Tok("", "json", "plain"), Tok("text", "*", "plain"), Tok("application", "*", "q"),
               Tok("application", "yml", "plain"), Tok("text", "yaml", "upper"), Tok("", "*", "sp") }
More == { Tok("*", "*", "q"), Tok("text", "html", "q"), Tok("", "", "sp"), Tok("application", "html", "plain"),
          Tok("text", "json", "charset"), Tok("", "yaml", "q"), Tok("application", "msgpack", "upper"),
          Tok("*", "json", "plain"), Tok("", "html", "upper") }
Alphabet == IF Wide THEN Core \cup More ELSE Core
\* single-token lists over the complete token space
Full == { Tok(m, s, v) : m \in Mains \ {"other"}, s \in Subs \ {"other"}, v \in Variants \ {"other"} }

FDomain == {0, 1, 2, 67, 71, 74, 76, 77, 89, 90, 127, 128, 200, 255}
CDomain == {NONE, 0, 1, 74, 90, 91, 255}
IdDomain == {0, 1, 2, 67, 71, 74, 76, 77, 89, 90, 91, 127, 128, 129, 200, 255}

Mut(k, a) == [k |-> k, a |-> a]
Muts == { Mut("trunc", n) : n \in 0..12 } \cup { Mut("cutend", n) : n \in 1..4 }
        \cup { Mut("setid", x) : x \in IdDomain } \cup { Mut("flip", p) : p \in 0..15 }
        \cup { Mut("tail", n) : n \in 1..3 } \cup { Mut("rewrap", n) : n \in 1..2 }
        \cup { Mut("lenbomb", k) : k \in 0..7 }     \* payload replaced by a collection header that declares a huge length
        \cup { Mut("nest", k) : k \in {2, 4, 7} }   \* payload wrapped into 10^k one-element collections
InnerMuts == { Mut("innerid", x) : x \in IdDomain } \cup { Mut("innertrunc", n) : n \in 0..3 }
             \cup { Mut("gzhdr", p) : p \in 0..9 }

Vec(t, hdr, f, c, m) == [t |-> t, hdr |-> hdr, f |-> f, c |-> c, mk |-> m.k, ma |-> m.a]
NoMut == Mut("", 0)

Describe(v) ==
    IF v.t = "hdr"
    THEN [t |-> "hdr", hdr |-> v.hdr, must |-> Must(v.hdr), allowed |-> AllowedFmt(v.hdr),
          ref |-> [d \in {"74", "67"} |-> RefPick(v.hdr, IF d = "74" THEN JSON ELSE CBOR)]]
    ELSE IF v.t = "rt"
    THEN [t |-> "rt", f |-> v.f, c |-> v.c,
          defined |-> SerRequest(v.f) /\ (v.c = NONE \/ CompRequest(v.c)),
          ids |-> IF SerRequest(v.f) /\ (v.c = NONE \/ CompRequest(v.c)) THEN DumpIds(v.f, v.c, JSON) ELSE <<>>]
    ELSE [t |-> "corrupt", f |-> v.f, c |-> v.c, mk |-> v.mk, ma |-> v.ma]

Init == /\ vec \in { Vec("hdr", <<>>, 0, 0, NoMut) }
                   \cup { Vec("hdr", <<t>>, 0, 0, NoMut) : t \in Full \ Alphabet }
                   \cup { Vec("rt", <<>>, f, c, NoMut) : f \in FDomain, c \in CDomain }
                   \cup { Vec("corrupt", <<>>, f, NONE, m) : f \in SerFormats \cup {AUTO}, m \in Muts }
                   \cup { Vec("corrupt", <<>>, f, GZIP, m) : f \in SerFormats \cup {AUTO}, m \in Muts \cup InnerMuts }
        /\ (Emit => PrintT(<<"@@", ToJson(Describe(vec))>>))

Grow == /\ vec.t = "hdr"
        /\ Len(vec.hdr) < MaxLen
        /\ (Len(vec.hdr) = 1 => vec.hdr[1] \in Alphabet)
        /\ \E t \in Alphabet : vec' = [vec EXCEPT !.hdr = Append(@, t)]
        /\ (Emit => PrintT(<<"@@", ToJson(Describe(vec'))>>))

Next == Grow
Spec == Init /\ [][Next]_vec

\* ------------------------------------------------------------------ laws of the model
Rev(s) == [i \in 1..Len(s) |-> s[Len(s) + 1 - i]]

LawFormats ==
    /\ SerFormats \cap CompFormats = {}
    /\ AUTO \notin SerFormats \cup CompFormats /\ LIST \notin SerFormats \cup CompFormats
    /\ MimeFormats \subseteq SerFormats
    /\ \A x \in SerFormats \cup CompFormats : x \in 1..127           \* one varint byte
    /\ \A F \in MimeFormats : /\ StrictNames(CanonTok(F)) = {F}
                              /\ LabelFormat(<<CanonTok(F)>>) = F     \* the canonical label resolves to its format
                              /\ Must(<<CanonTok(F)>>)                \* a request that asks for F (DumpToHTTPRequest) ...
                              /\ AllowedFmt(<<CanonTok(F)>>) = {F}    \* ... has to be answered in F
    /\ LoadIds(<<AUTO>>) = 0 /\ LoadIds(<<GZIP, AUTO>>) = 0           \* an unresolved identifier cannot be loaded

LawHdr ==
    vec.t = "hdr" =>
        LET h == vec.hdr IN
        /\ \A i \in Idx(h) : StrictNames(h[i]) \subseteq LenientNames(h[i]) /\ (StrictWild(h[i]) => LenientWild(h[i]))
        /\ AllowedFmt(h) \subseteq MimeFormats
        /\ (Must(h) => AllowedFmt(h) # {})
        /\ Must(Rev(h)) = Must(h) /\ AllowedFmt(Rev(h)) = AllowedFmt(h)       \* no ranking by position
        /\ (Len(h) > 0 => LET p == SubSeq(h, 1, Len(h) - 1) IN
                            AllowedFmt(p) \subseteq AllowedFmt(h) /\ (Must(p) => Must(h)))
        \* the documented negotiation is an allowed behaviour and writes a label that resolves to what it used
        /\ \A d \in MimeFormats : LET r == RefPick(h, d) IN
              /\ (Must(h) => r # 0)
              /\ (r # 0 /\ Len(h) > 0 => r \in AllowedFmt(h))
              /\ (r # 0 => LabelFormat(<<CanonTok(r)>>) = r)

LawRt ==
    vec.t = "rt" =>
        \A d \in MimeFormats :
            (SerRequest(vec.f) /\ (vec.c = NONE \/ CompRequest(vec.c))) =>
                LET ids == DumpIds(vec.f, vec.c, d) IN
                /\ LoadIds(ids) = ResolveSer(vec.f, d) /\ LoadIds(ids) \in SerFormats
                /\ ResolveSer(ResolveSer(vec.f, d), d) = ResolveSer(vec.f, d)
                /\ \A i \in 1..Len(ids) : ids[i] \in 1..127
                /\ (vec.c # NONE => ids[1] \in CompFormats /\ ResolveComp(ResolveComp(vec.c)) = ResolveComp(vec.c))
====
