---- MODULE RecordAccessTrace ----
\* Judges histories recorded from the real database package (driver harness/cmd/dbacc, mode "hist") against
\* spec/RecordAccess.tla (properties C03 and C14).  trace.ndjson, one JSON object per line:
\*   {"e":"new","loose":b,"alias":b, ...}             start of a history (fresh database); loose: key-prefix handling of
\*                                                    the backend is not judged (fstree); alias: the backend hands out
\*                                                    live record objects (hashmap, cached interface)
\*   {"e":"op","op":{..},"res":{"err","rec","items","flag","cnt","vh","panic"},
\*    "feeds":[{"items":[..],"closed":b} x NS],"calls":[{"h","ph","k"}..],
\*    "store":[{"present","n","sec","crown","exp"} x 4]}
\*        one call, its result, what every subscription slot received during it (feeds are drained after every
\*        call), the hook calls it caused, and the records as a full-privilege observer reads them afterwards.
\* One TLC state per line.  A call that the model does not allow is reported once with the names of what is
\* wrong (PrintT "@@" line) and the rest of that history is skipped, so one run judges all histories;
\* `Accepted` holds when every line was consumed.
EXTENDS RecordAccess, Json

Trace == ndJsonDeserialize("trace.ndjson")

VARIABLES l, st, loose, alias, dead
vars == <<l, st, loose, alias, dead>>

Init == l = 1 /\ st = InitState /\ loose = FALSE /\ alias = FALSE /\ dead = FALSE

ObsItems(res) == [res EXCEPT !.items = Range(res.items)]

\* names of what is wrong with event ev in state s; {} = the model allows it
Verdict(s, ev) ==
    LET o == ev.op
        X == Step(s, o, loose)
        leaks == (IF LeakRead(s, o, ObsItems(ev.res)) THEN {"leak-read"} ELSE {})
                 \cup (IF LeakFeed(s, ev.feeds) THEN {"leak-feed"} ELSE {})
                 \cup (IF LeakWrite(s, o, ev.store) THEN {"leak-write"} ELSE {})
    IN IF ev.res.panic # "" THEN {"panic"}
       ELSE IF leaks # {} THEN leaks
       ELSE IF \E x \in X : ResMatch(x.res, ev.res) /\ StoreMatch(x, ev.store) /\ FeedsMatch(x, ev.feeds, alias) /\ CallsMatch(x, ev.calls) THEN {}
       ELSE LET R == {x \in X : ResMatch(x.res, ev.res)} IN
            IF R = {} THEN {"result"}
            ELSE LET parts == (IF \E x \in R : StoreMatch(x, ev.store) THEN {} ELSE {"store"})
                              \cup (IF \E x \in R : FeedsMatch(x, ev.feeds, alias) THEN {} ELSE {"feed"})
                              \cup (IF \E x \in R : CallsMatch(x, ev.calls) THEN {} ELSE {"hooks"})
                 IN IF parts = {} THEN {"state"} ELSE parts

After(s, ev) ==
    (CHOOSE x \in Step(s, ev.op, loose) :
        ResMatch(x.res, ev.res) /\ StoreMatch(x, ev.store) /\ FeedsMatch(x, ev.feeds, alias) /\ CallsMatch(x, ev.calls)).st

New == /\ l <= Len(Trace) /\ Trace[l].e = "new"
       /\ st' = InitState /\ loose' = Trace[l].loose /\ alias' = Trace[l].alias /\ dead' = FALSE
       /\ l' = l + 1

DoOp == /\ l <= Len(Trace) /\ Trace[l].e = "op"
        /\ IF dead THEN UNCHANGED <<st, dead>>
           ELSE LET V == Verdict(st, Trace[l]) IN
                IF V = {} THEN st' = After(st, Trace[l]) /\ dead' = FALSE
                ELSE /\ PrintT(<<"@@", ToJson([line |-> l, why |-> V])>>)
                     /\ dead' = TRUE /\ st' = st
        /\ l' = l + 1 /\ UNCHANGED <<loose, alias>>

Next == New \/ DoOp
Spec == Init /\ [][Next]_vars

Accepted == TLCGet("stats").diameter - 1 = Len(Trace)
====
