---- MODULE USyncSeq ----
\* X02 -- sequential specifications (set-valued: every allowed outcome) of the two linearizable objects of
\* package utils: StablePool (utils/stablepool.go) and BroadcastFlag/Flag (utils/broadcastflag.go).
\* Used by the linearizability monitor USyncLin, which judges the implementation-shaped models
\* (USyncPool.tla, USyncFlag.tla) and the call/return histories recorded from the real code.
\*
\* StablePool, from its doc comments ("items are not removed automatically. Every item will be returned at
\* some point. Items are returned in a FIFO manner in order to evenly distribute usage", "Get never ignores
\* the pool", "If Get would otherwise return nil and p.New is non-nil, Get returns the result of calling
\* p.New", Size "the amount of items the pool currently holds", Max "the amount of items the pool held at
\* maximum"):
\*   P1  the pool is a multiset that only Put and Get change: Put(x) adds x (Put(nil) is ignored), nothing is
\*       ever lost or duplicated
\*   P2  Get on a pool that holds items returns (and removes) one of the items it holds - never nil / New()
\*   P3  Get on an empty pool returns New() if New is set and nil otherwise
\*   P4  Size() is the number of items held, Max() the largest number ever held
\*   P5  no starvation ("every item will be returned at some point", "FIFO manner"): strict FIFO order is NOT
\*       claimed ("Callers should not assume any relation between values passed to Put and the values returned
\*       by Get"; the ring of slots is not a queue); claimed is the bound the round-robin scan implies and
\*       every FIFO-like discipline satisfies: an item held by the pool is passed over by fewer than Max() Gets.
\*
\* BroadcastFlag ("NotifyAndReset notifies all flags", NewFlag "In the initial state, the flag is set and the
\* signal triggers", IsSet "whether the flag was set since the last Refresh", Signal "waits for the flag to be
\* set", Refresh "fetches the current state from the broadcasting flag"; a Flag is used by one goroutine):
\*   F1  a new Flag is set and its signal is triggered until its first Refresh
\*   F2  after a Refresh the Flag is set / its signal is triggered exactly if NotifyAndReset took effect
\*       since that Refresh; neither IsSet nor Signal resets it
\*   F3  every operation takes effect between its call and its return (linearizability; see FlagStep for the
\*       two effects of NotifyAndReset).
EXTENDS Integers, Sequences, FiniteSets

Mx(a, b) == IF a >= b THEN a ELSE b

Res(k, v) == [k |-> k, v |-> v]
NoRes == Res("-", 0)
Op(op, a) == [op |-> op, a |-> a]      \* a: the item put (0 = nil) / the Flag concerned / 0
NoOp == Op("-", 0)
Out(r, s) == [res |-> r, st |-> s]

\* ---------------------------------------------------------------------------------------- StablePool
\* items: set of [v |-> item, s |-> number of Gets that passed it over]
PoolInit(hasNew) == [items |-> {}, hwm |-> 0, hasNew |-> hasNew]

PoolStep(st, o) ==
  CASE o.op = "put" ->
         IF o.a = 0 THEN {Out(Res("ok", 0), st)}
         ELSE LET it == st.items \cup {[v |-> o.a, s |-> 0]}
              IN  {Out(Res("ok", 0), [st EXCEPT !.items = it, !.hwm = Mx(@, Cardinality(it))])}
    [] o.op = "get" ->
         IF st.items = {} THEN {Out(IF st.hasNew THEN Res("new", 0) ELSE Res("nil", 0), st)}
         ELSE { Out(Res("item", x.v), [st EXCEPT !.items = {[v |-> y.v, s |-> y.s + 1] : y \in st.items \ {x}}]) :
                  x \in {x \in st.items : \A y \in st.items \ {x} : y.s + 1 < st.hwm} }
    [] o.op = "size" -> {Out(Res("int", Cardinality(st.items)), st)}
    [] o.op = "max" -> {Out(Res("int", st.hwm), st)}
    [] OTHER -> {}

\* ------------------------------------------------------------------------------------- BroadcastFlag
\* NotifyAndReset sets the flag and then triggers the signal: two effects, in this order, both between its
\* call and its return (the documentation does not promise that IsSet and Signal change at the same instant).
\* gF / gS: notifications whose first / second effect has happened; r[f]: their value at the last Refresh of
\* Flag f (-1 = never refreshed).  Refresh does not fall between the two effects of a notification (it
\* "fetches the current state" as a whole), hence gF = gS whenever it takes effect, and always gS <= gF:
\*   F4  a triggered signal implies that the flag is set.
FlagInit(nf) == [gF |-> 0, gS |-> 0, r |-> [f \in 1..nf |-> -1]]

IsSetIn(st, f) == st.r[f] = -1 \/ st.gF > st.r[f]
SignalIn(st, f) == st.r[f] = -1 \/ st.gS > st.r[f]
B2I(b) == IF b THEN 1 ELSE 0

\* cur: what the operation has done so far (NoRes = nothing yet, "half" = first effect of a notification)
FlagStep(st, o, cur) ==
  CASE o.op = "notify" /\ cur = NoRes -> {Out(Res("half", 0), [st EXCEPT !.gF = @ + 1])}
    [] o.op = "notify" /\ cur = Res("half", 0) -> {Out(Res("ok", 0), [st EXCEPT !.gS = @ + 1])}
    [] o.op = "refresh" /\ cur = NoRes -> IF st.gF = st.gS THEN {Out(Res("ok", 0), [st EXCEPT !.r[o.a] = st.gF])} ELSE {}
    [] o.op = "isset" /\ cur = NoRes -> {Out(Res("bool", B2I(IsSetIn(st, o.a))), st)}
    [] o.op \in {"poll", "wait"} /\ cur = NoRes -> {Out(Res("bool", B2I(SignalIn(st, o.a))), st)}
    [] OTHER -> {}

\* outcomes of the next effect of operation o (an operation has one effect, NotifyAndReset two)
SeqStep(kind, st, o, cur) == IF kind = "pool" THEN (IF cur = NoRes THEN PoolStep(st, o) ELSE {}) ELSE FlagStep(st, o, cur)
====
