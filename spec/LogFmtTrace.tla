---- MODULE LogFmtTrace ----
\* Trace validation of package log against the LogFmt model (X14).  Events written by harness/cmd/logfmt:
\*  {"e":"start","ini":{flag,flagc,preset,plog,pre:[{sev,site,txt,t0,t1}]},"err":bool}    a new process: flags, lines logged
\*                                                                                      before Start, Start's error
\*  {"e":"op","op":{k,a,b,c,s,l,m,txt,t0,t1},"res":{lv,nn,ctxnil,held,tot,name,tag}}       one call with its result
\*  {"e":"out","txt","sev","file":[chars],"line","tus","dups","r":{...}}                  the adapter received a message
\*  {"e":"spin","ctrs":[..]}       counters of further renderings of the same message (counter wrap)
\*  {"e":"synced"}                                                                        the synchronisation line was written
\*  {"e":"unexp","un":[r, ...]}                                                           GetLastUnexpectedLogs()
\*  {"e":"end"}                                                                           Shutdown has returned
EXTENDS LogFmt, Json

Trace == ndJsonDeserialize("trace.ndjson")
VARIABLES st, l
vars == <<st, l>>
Ev == Trace[l]

Init == st = Fresh(3, FALSE, <<0, 0, 0, 0, 0>>) /\ l = 1

Next == /\ l <= Len(Trace)
        /\ l' = l + 1
        /\ CASE Ev.e = "start"  -> /\ Ev.err = StartErr(Ev.ini)
                                   /\ \E cont \in BOOLEAN : st' = Started(Ev.ini, cont)
             [] Ev.e = "op"     -> /\ "panic" \notin DOMAIN Ev
                                   /\ ResOK(st, Ev.op, Ev.res)
                                   /\ st' = Apply(st, Ev.op)
             [] Ev.e = "out"    -> Ev.ok /\ st' \in OutStates(st, Ev)
             [] Ev.e = "spin"   -> /\ \A i \in 1..Len(Ev.ctrs) : Ev.ctrs[i] = NextCtr(IF i = 1 THEN st.pctr ELSE Ev.ctrs[i - 1])
                                   /\ st' = [st EXCEPT !.pctr = IF Ev.ctrs = <<>> THEN @ ELSE Ev.ctrs[Len(Ev.ctrs)]]
             [] Ev.e = "synced" -> Drained(st) /\ st' = st
             [] Ev.e = "unexp"  -> UnexpOK(st, Ev.un) /\ st' = st
             [] Ev.e = "end"    -> Finished(st) /\ st' = st
             [] OTHER           -> FALSE
Spec == Init /\ [][Next]_vars
Accepted == TLCGet("stats").diameter - 1 = Len(Trace)
====
