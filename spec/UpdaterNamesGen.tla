---- MODULE UpdaterNamesGen ----
\* Enumerates (identifier, version) vectors of the documented file-name format for the driver
\* harness/cmd/upd and checks the laws of spec/UpdaterNames.tla on every one of them (one state per vector).
EXTENDS UpdaterNames, Json

CONSTANTS Small,    \* TRUE: reduced number domains (quick tier)
          Emit

VARIABLE vec

NumsMaj == IF Small THEN { <<"0">>, <<"1", "2">>, <<"0", "0", "7">> } ELSE Majs
NumsMin == IF Small THEN { <<"0">>, <<"1", "2">> } ELSE Mins
NumsPat == IF Small THEN { <<"3">>, <<"1", "0">> } ELSE Pats

Domain == { x \in [dir : Dirs, stem : Stems, exts : ExtsSet, maj : NumsMaj, min : NumsMin, pat : NumsPat, pre : Pres]
            : x.stem # <<>> \/ x.exts # <<>> }

Init == /\ vec \in Domain
        /\ Emit => PrintT(<<"@@", ToJson(vec)>>)
Next == UNCHANGED vec
Spec == Init /\ [][Next]_vec

LawsOK == Laws(vec, vec)
====
