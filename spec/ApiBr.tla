---- MODULE ApiBr ----
\* Extension check X10: the database bridge of package api (api_bridge.go, database "api:") and the built-in
\* endpoints of endpoints_meta.go / endpoints_config.go / endpoints_modules.go / endpoints_debug.go (ping).
\*
\* STATEMENT (derived from the code, its comments and the tests; for every history of calls)
\*  P1 keys      Get("api:") and a Put with an empty key answer "not found".  A key that leaves the
\*               /api/v1/ scope once it is joined to the prefix and cleaned ("../x") is refused with an
\*               error and NO endpoint function runs.  A key that stays inside after cleaning
\*               ("a/../ping") addresses the cleaned path.
\*  P2 routing   A bridge call for key k reaches exactly the endpoint a real HTTP request for
\*               /api/v1/<k> reaches; its function runs exactly once if the HTTP request would run it and
\*               not at all otherwise.  The Path field of a written request is ignored: the key decides
\*               ("override path with key to mitigate sneaky stuff").
\*  P3 mapping   Get is a GET without body.  Put: Method "" means POST if Data is not empty, else GET;
\*               otherwise the Method given.  The function sees Data as input for POST and PUT and no
\*               input for GET/HEAD/DELETE, the Query map as the URL query (every value verbatim), MimeType
\*               as Content-Type.  A typed *EndpointBridgeRequest and a wrapped record (as written through
\*               the websocket database API) are treated alike; a record of another type is refused.
\*  P4 authority A bridge request holds exactly the database compatibility permission (PermitAdmin) for
\*               reading and writing, PermitSelf in dev mode; an endpoint open to anyone sees the public
\*               token.  An endpoint that requires PermitSelf is therefore never run through the bridge
\*               outside dev mode.
\*  P5 result    The call returns a record iff the HTTP answer is a success (status 2xx): key "api:"+k,
\*               MimeType = the Content-Type header, Body = the body.  Otherwise it returns an error; for
\*               status 500 ("a Go error was returned internally") the error carries the text the endpoint
\*               function returned, else it names the status code.  Whatever Method, Path, Query, MimeType
\*               and Data contain, the call returns: it never panics.
\*  P6 delivery  A successful Put pushes the response record exactly once to every subscription whose query
\*               matches the response key; a failed Put and every Get push nothing.
\*  P7 same      The same request made over HTTP on loopback by a client holding the permission of P4
\*               gets the same status, the same Content-Type and a byte-equal body.
\*  P8 built-ins ping: "Pong." once the module system is up.  endpoints: the JSON list of everything
\*               registered, sorted by path.  config/options: the JSON list of registered options.
\*               auth/permissions: the token of this very request (permission and role names, read and
\*               write).  auth/bearer, auth/basic: 200 "Authenticated." iff the request holds more than the
\*               public permission, else 401 with the matching WWW-Authenticate challenge.  auth/reset:
\*               always 401 "Session deleted.", the session named by the cookie is gone afterwards (the
\*               cookie authenticates nothing any more), other sessions stay.  modules/status: needs
\*               PermitUser, JSON status containing the running modules.  modules/{m}/trigger/{e}: needs
\*               PermitSelf for writing, injects the event exactly once into the hooks of module m; an
\*               unknown event is a 500 and injects nothing.
\*  P9 the database endpoint (/api/database/v1, websocket) is an external interface whoever connects - also a
\*               client on the loopback address with admin permission: it acts as neither local nor internal (database.Options
\*               doc: Local "crown jewels may only be accessed by local", Internal "secrets may only be accessed by
\*               internal"; property C03 names the database API as non-privileged).  A plain record is served, a get for a
\*               secret or a crown-jewel record is answered with an error, and a query lists neither.
\* Where the statement is silent (body of a refused HTTP request seen through the bridge, Content-Type of a
\* HEAD answer, the wording of errors) every outcome is allowed.
EXTENDS Integers, Sequences, FiniteSets, TLC

Dyn == -1
NotSup == 0
Anyone == 1
User == 2
Admin == 3
Self == 4

\* r, w: required permissions; kind: what the function does; own: registered (and instrumented) by the driver
E(r, w, k, own) == [r |-> r, w |-> w, kind |-> k, own |-> own]
EpTab == [ping      |-> E(1, 0, "ping", FALSE),
          endpoints |-> E(1, 0, "listing", FALSE),
          cfgopts   |-> E(1, 0, "options", FALSE),
          authperm  |-> E(-1, 0, "perm", FALSE),
          bearer    |-> E(-1, 0, "bearer", FALSE),
          basic     |-> E(-1, 0, "basic", FALSE),
          reset     |-> E(1, 0, "reset", FALSE),
          modstatus |-> E(2, 0, "status", FALSE),
          trigger   |-> E(0, 4, "trigger", FALSE),
          triggerbad |-> E(0, 4, "triggerbad", FALSE),
          echoA     |-> E(1, 1, "echo", TRUE),
          echoU     |-> E(2, 2, "echo", TRUE),
          echoD     |-> E(3, 3, "echo", TRUE),
          echoS     |-> E(4, 4, "echo", TRUE),
          dyn       |-> E(-1, -1, "echo", TRUE),
          ronly     |-> E(1, 0, "echo", TRUE),
          wonly     |-> E(0, 3, "echo", TRUE),
          empty     |-> E(1, 1, "empty", TRUE),
          fail      |-> E(1, 1, "fail", TRUE),
          conflict  |-> E(1, 1, "conflict", TRUE),
          struct    |-> E(1, 1, "struct", TRUE)]
Eps == DOMAIN EpTab
EpsAndNone == Eps \cup {"none"}

Methods == {"", "GET", "POST", "PUT", "DELETE", "HEAD", "OPTIONS", "PATCH", "get", "bad"}
Creds == {"none", "user", "admin", "self", "s1", "s2"}

EffM(m, data) == IF m = "" THEN (IF data # "none" THEN "POST" ELSE "GET") ELSE m
MClass(m) == CASE m \in {"GET", "HEAD"} -> "read"
               [] m \in {"POST", "PUT", "DELETE"} -> "write"
               [] m = "bad" -> "invalid"
               [] OTHER -> "no"

\* ---------------------------------------------------------------- state
\* dev: dev mode; sess: permission of the session behind cookie slot 1, 2 (0: no such session);
\* subs: live subscriptions ("all": query api:, "one": query api:x10/echoA)
Empty == [dev |-> FALSE, sess |-> <<0, 0>>, subs |-> {}]

SlotOf(cred) == IF cred = "s1" THEN 1 ELSE IF cred = "s2" THEN 2 ELSE 0
CredPerm(s, cred) == CASE cred = "none" -> 1 [] cred = "user" -> 2 [] cred = "admin" -> 3 [] cred = "self" -> 4
                       [] OTHER -> IF s.sess[SlotOf(cred)] > 0 THEN s.sess[SlotOf(cred)] ELSE 1

\* the permission a request holds when the endpoint requires req (P4)
Tok(s, via, cred, req) == IF req = Anyone THEN 1
                          ELSE IF s.dev THEN 4
                          ELSE IF via = "bridge" THEN 3
                          ELSE CredPerm(s, cred)

\* ---------------------------------------------------------------- the answer of the API to one request
\* st: HTTP status (-1: the request cannot be built); run: the endpoint function ran (once); tok: the
\* permission it saw; body, mime: classes ("any": not determined); ev: events injected
A(st, run, tok, body, mime, ev) == [st |-> st, run |-> run, tok |-> tok, body |-> body, mime |-> mime, ev |-> ev]
Refuse(st, body) == A(st, FALSE, 0, body, "text", 0)

Ran(kind, m, tok) ==
    LET head == m = "HEAD" IN
    CASE kind \in {"echo", "ping", "struct", "listing", "options", "status", "perm"} ->
             IF head THEN A(204, TRUE, tok, "empty", "any", 0)
             ELSE A(200, TRUE, tok, kind, IF kind \in {"echo", "ping"} THEN "text" ELSE "json", 0)
      [] kind = "empty"      -> A(204, TRUE, tok, "empty", "any", 0)
      [] kind = "fail"       -> A(500, TRUE, tok, "failmsg", "text", 0)
      [] kind = "conflict"   -> A(409, TRUE, tok, "conflictmsg", "text", 0)
      [] kind \in {"bearer", "basic"} ->
             IF tok # 1 THEN A(200, TRUE, tok, IF head THEN "any" ELSE "authenticated", "text", 0)
             ELSE A(401, TRUE, tok, IF head THEN "any" ELSE "authreq", "text", 0)
      [] kind = "reset"      -> A(401, TRUE, tok, IF head THEN "any" ELSE "sessdel", "text", 0)
      [] kind = "trigger"    -> A(200, TRUE, tok, "injected", "text", 1)
      [] kind = "triggerbad" -> A(500, TRUE, tok, "injectfail", "text", 0)

Answer(s, via, cred, ep, m) ==
    CASE MClass(m) = "invalid" -> A(-1, FALSE, 0, "any", "any", 0)
      [] MClass(m) = "no"      -> Refuse(405, "notallowed")
      [] ep = "none"           -> Refuse(404, "notfound")
      [] OTHER ->
         LET e == EpTab[ep]
             req == IF MClass(m) = "read" THEN e.r ELSE e.w
             need == IF req = Dyn THEN Anyone ELSE req
             tok == Tok(s, via, cred, req)
         IN IF req = NotSup THEN Refuse(405, "notallowed")
            ELSE IF tok < need THEN (IF tok = 1 THEN Refuse(401, "authreq") ELSE Refuse(403, "insufficient"))
            ELSE Ran(e.kind, m, tok)

\* what an instrumented function saw (P3)
SeenQ(kf, query) == IF query # "none" THEN query ELSE IF kf = "qkey" THEN "one" ELSE "none"
SeenIn(m, data) == IF m \in {"POST", "PUT"} THEN data ELSE "none"

\* the key forms: which reach the endpoint (P1), which keep the literal prefix api:x10/echoA (P6)
Reaches(kf) == kf \in {"plain", "dotdot", "qkey"}
HasOnePrefix(ep, kf) == ep = "echoA" /\ kf \in {"plain", "qkey"}

\* ---------------------------------------------------------------- operations
\* call: ch in get | put | putw | putother | putwbad | http
IsBridge(ch) == ch # "http"
Via(ch) == IF ch = "http" THEN "http" ELSE "bridge"
\* method and data as they take effect per channel
ChM(o) == IF o.ch = "get" THEN "GET" ELSE EffM(o.m, o.data)
ChData(o) == IF o.ch = "get" THEN "none" ELSE o.data

CallAnswer(s, o) == Answer(s, Via(o.ch), o.cred, o.ep, ChM(o))

\* effect of an HTTP answer on the sessions (auth/reset, P8)
AfterHTTP(s, ep, cred, a) ==
    IF ep = "reset" /\ a.run /\ SlotOf(cred) > 0 THEN [s EXCEPT !.sess[SlotOf(cred)] = 0] ELSE s

After(s, o) ==
    CASE o.op = "dev"   -> [s EXCEPT !.dev = o.on]
      [] o.op = "sub"   -> [s EXCEPT !.subs = @ \cup {o.s}]
      [] o.op = "unsub" -> [s EXCEPT !.subs = @ \ {o.s}]
      [] o.op = "login" -> IF s.dev THEN s ELSE [s EXCEPT !.sess[o.slot] = o.perm]
      [] o.op = "call"  -> IF o.ch = "http" THEN AfterHTTP(s, o.ep, o.cred, CallAnswer(s, o)) ELSE s
      [] o.op = "pair"  -> AfterHTTP(s, o.ep, o.cred, Answer(s, "http", o.cred, o.ep, o.hm))
      [] OTHER -> s

\* ---------------------------------------------------------------- what may be observed
MimeOK(obs, want) == want = "any" \/ obs = want
BodyOK(obs, want) == want = "any" \/ obs = want

\* an instrumented function ran exactly as often as the model says, it was the right one and saw the right things
SawOK(o, ob, a, m, data) ==
    IF o.ep \in Eps /\ EpTab[o.ep].own /\ a.run
    THEN /\ ob.inv = 1 /\ ob.invep = o.ep
         /\ ob.sm = m /\ ob.sin = SeenIn(m, data)
         /\ ob.sq = SeenQ(o.kf, o.query)
         /\ ob.sct = o.mime
         /\ ob.str = a.tok /\ ob.stw = a.tok
    ELSE ob.inv = 0

PermBodyOK(ob, a) ==
    a.body = "perm" => /\ ob.pr = a.tok /\ ob.pw = a.tok
                       /\ ob.roles = (CASE a.tok = 1 -> "Anyone/Anyone" [] a.tok = 2 -> "User/User"
                                        [] a.tok = 3 -> "Admin/Admin" [] OTHER -> "Self/Self")

\* one call through the bridge; ob: ok, ec (error class), code, body, ebody, mime, keyok, fed counts
BridgeOK(s, o, ob) ==
    LET m == ChM(o)
        data == ChData(o)
        a == Answer(s, "bridge", o.cred, o.ep, m)
        none == /\ ~ob.ok /\ ob.inv = 0 /\ ob.evd = 0 /\ ob.fedall = 0 /\ ob.fedone = 0 /\ ob.feddrv = 0
    IN /\ ob.ec # "panic"
       /\ CASE o.kf = "weird" -> TRUE      \* odd keys: only "the call returns" is claimed (P5)
            [] o.kf = "empty" -> none /\ ob.ec = "notfound"
            [] o.kf = "escape" -> none
            [] o.ch \in {"putother", "putwbad"} -> none
            [] a.st = -1 -> none
            [] OTHER ->
               /\ SawOK(o, ob, a, m, data)
               /\ ob.evd = a.ev
               /\ IF a.st \in 200..299
                  THEN /\ ob.ok /\ ob.ec = "" /\ ob.keyok
                       /\ BodyOK(ob.body, a.body) /\ MimeOK(ob.mime, a.mime)
                       /\ PermBodyOK(ob, a)
                       /\ IF o.ch = "get" THEN ob.fedall = 0 /\ ob.fedone = 0 /\ ob.feddrv = 0
                          ELSE /\ ob.feddrv = 1
                               /\ ob.fedall = (IF "all" \in s.subs THEN 1 ELSE 0)
                               /\ ob.fedone = (IF "one" \in s.subs /\ HasOnePrefix(o.ep, o.kf) THEN 1 ELSE 0)
                  ELSE /\ ~ob.ok /\ ob.fedall = 0 /\ ob.fedone = 0 /\ ob.feddrv = 0
                       /\ IF a.st = 500 THEN ob.ec = "failed" /\ BodyOK(ob.ebody, a.body)
                          ELSE ob.ec = "code" /\ ob.code = a.st

\* one HTTP round trip; ob: code (status), body, mime, instrumentation
HttpOK(s, o, m, ob) ==
    LET a == Answer(s, "http", o.cred, o.ep, m)
        data == IF m \in {"POST", "PUT"} THEN o.data ELSE "none"
    IN /\ ob.ec = ""
       /\ ob.code = a.st
       /\ SawOK(o, ob, a, m, data)
       /\ ob.evd = a.ev
       /\ IF m = "HEAD" THEN TRUE ELSE BodyOK(ob.body, a.body) /\ MimeOK(ob.mime, a.mime)
       /\ (a.st = 200 /\ m # "HEAD") => PermBodyOK(ob, a)
       /\ ob.fedall = 0 /\ ob.fedone = 0 /\ ob.feddrv = 0

CallOK(s, o, ob) == IF o.ch = "http" THEN HttpOK(s, o, o.m, ob) ELSE BridgeOK(s, o, ob)

\* the same request through the bridge and over HTTP (P7): both as the model says, and where both succeed
\* with a determined body the two bodies and content types are equal byte for byte
PairOK(s, o, b, w, same, samect) ==
    LET ab == Answer(s, "bridge", o.cred, o.ep, ChM(o))
        aw == Answer(s, "http", o.cred, o.ep, o.hm)
    IN /\ BridgeOK(s, o, b)
       /\ HttpOK(s, o, o.hm, w)
       /\ (Reaches(o.kf) /\ o.ch \in {"get", "put", "putw"} /\ ab = aw /\ ab.st \in 200..299
           /\ o.hm # "HEAD" /\ EpTab[o.ep].kind # "status") => same /\ samect

LoginOK(s, o, ob) == ob.code = 200 /\ ob.cookie = ~s.dev

\* P9: what a websocket client saw for the plain, the secret and the crown-jewel record (reply types) and in the query
WsProbeOK(ob) == /\ ob.plain = "ok" /\ ob.secret = "error" /\ ob.crown = "error"
                 /\ ob.q = <<"plain">>

\* ---------------------------------------------------------------- laws of the model (checked breadth-first)
\* P4: nothing that needs PermitSelf runs through the bridge outside dev mode
LawSelf(s) == \A ep \in Eps, m \in Methods :
    LET a == Answer(s, "bridge", "none", ep, m)
        req == IF MClass(m) = "read" THEN EpTab[ep].r ELSE EpTab[ep].w
    IN (~s.dev /\ req = Self /\ MClass(m) \in {"read", "write"}) => ~a.run /\ a.st = 403
\* P7: the bridge answers like an HTTP client with admin permission (like any client in dev mode)
LawSame(s) == \A ep \in EpsAndNone, m \in Methods, c \in Creds :
    (s.dev \/ c = "admin" \/ CredPerm(s, c) = 3) => Answer(s, "bridge", c, ep, m) = Answer(s, "http", c, ep, m)
\* a function runs only for a supported method on an existing endpoint with sufficient permission
LawRun(s) == \A ep \in EpsAndNone, m \in Methods, c \in Creds, via \in {"bridge", "http"} :
    LET a == Answer(s, via, c, ep, m) IN
    /\ a.run => /\ ep \in Eps /\ MClass(m) \in {"read", "write"}
                /\ a.tok >= (IF MClass(m) = "read" THEN EpTab[ep].r ELSE EpTab[ep].w)
                /\ a.tok \in 1..4
    /\ ~a.run => a.st \in {-1, 401, 403, 404, 405} /\ a.ev = 0
    /\ a.ev = 1 => a.run /\ a.tok = 4
\* more permission never turns an answer into a refusal
LawMono(s) == \A ep \in Eps, m \in Methods :
    \A c1, c2 \in {"none", "user", "admin", "self"} :
       (CredPerm(s, c1) <= CredPerm(s, c2) /\ Answer(s, "http", c1, ep, m).run) => Answer(s, "http", c2, ep, m).run
\* a deleted session authenticates nothing
LawSess(s) == \A k \in 1..2 : s.sess[k] = 0 =>
    \A ep \in Eps, m \in Methods : Answer(s, "http", IF k = 1 THEN "s1" ELSE "s2", ep, m) = Answer(s, "http", "none", ep, m)
====
