---- MODULE PathScope ----
\* C18: externally supplied names never reach files outside the component's root.
\*
\* TLC strings are atomic, so a path is a *sequence of segments*.  Every path of the model is
\* absolute below the top of a sandbox directory (<<>> is the sandbox top itself).  A name is what the
\* outside world hands to a component: a segment sequence over a small alphabet (plus the flag
\* "begins with a separator").  The components differ only in the directory the name is resolved
\* against (`base`) and in the directories they own (`roots`); resolution is purely lexical
\* (join, then clean), which is what all four components do (filepath.Join / filepath.Abs).
\*
\* The segments "root" and "root-other" are symbolic: the driver maps them to the concrete name of
\* the component's own directory and to that name extended by "-other" (a sibling that merely shares
\* the root's name as a string prefix).
EXTENDS Integers, Sequences, FiniteSets

Seg == {"..", ".", "", "a", "b", "root", "root-other"}
\* further plain segments, used sparingly (at most one per name): "ROOT" = the root's name in another letter case (on a
\* case-sensitive file system a different directory: a sibling), "bs2" = a name made of parent references written with
\* backslashes (`..\..\bsx`: on this platform one ordinary file name, not a path)
ExtraSeg == {"ROOT", "bs2"}
Plain == {"a", "b", "root", "root-other"} \cup ExtraSeg

Parent(p) == IF p = <<>> THEN <<>> ELSE SubSeq(p, 1, Len(p) - 1)

\* ---- lexical clean of an absolute path: one segment at a time ----
StepSeg(acc, s) == IF s = "" \/ s = "." THEN acc
                   ELSE IF s = ".." THEN Parent(acc)       \* ".." at the top stays at the top, like "/.."
                   ELSE Append(acc, s)

RECURSIVE CleanAcc(_, _)
CleanAcc(acc, rest) == IF rest = <<>> THEN acc ELSE CleanAcc(StepSeg(acc, Head(rest)), Tail(rest))
Clean(p) == CleanAcc(<<>>, p)

\* lowest depth the walk reaches while cleaning (to show that no generated name leaves the sandbox top)
RECURSIVE LowAcc(_, _, _)
LowAcc(acc, rest, low) == IF rest = <<>> THEN low
                          ELSE LET n == StepSeg(acc, Head(rest))
                               IN LowAcc(n, Tail(rest), IF Len(n) < low THEN Len(n) ELSE low)
Low(base, segs) == LowAcc(Clean(base), segs, Len(Clean(base)))

\* a name joined under / appended to `base` (Go: filepath.Join(base, name) and Clean(base + "/" + name):
\* a leading separator of the name does not make the result absolute)
Resolve(base, segs) == Clean(base \o segs)

IsPrefix(r, p) == Len(r) <= Len(p) /\ SubSeq(p, 1, Len(r)) = r
\* roots: sequence of owned directories
Inside(roots, p) == \E i \in 1..Len(roots) : IsPrefix(roots[i], p)
Escapes(roots, base, segs) == ~Inside(roots, Resolve(base, segs))

\* independent second formulation (filepath.Rel): the way from the root to p begins with ".."
RECURSIVE Common(_, _)
Common(r, p) == IF r = <<>> \/ p = <<>> \/ Head(r) # Head(p) THEN 0 ELSE 1 + Common(Tail(r), Tail(p))
Rel(r, p) == LET c == Common(r, p)
             IN [i \in 1..(Len(r) - c) |-> ".."] \o SubSeq(p, c + 1, Len(p))
EscapesRel(roots, base, segs) ==
    LET p == Resolve(base, segs)
    IN \A i \in 1..Len(roots) : LET q == Rel(roots[i], p) IN q # <<>> /\ Head(q) = ".."

\* ---- sandbox layout (model paths below the sandbox top) ----
\* pad: directories the model never names, so that a bounded number of ".." stays inside the sandbox
Pad(n) == [i \in 1..n |-> "w"]
Outer(n) == Pad(n) \o <<"o">>
GenRoot(n, d) == IF d = 1 THEN Outer(n) \o <<"root">> ELSE Outer(n) \o <<"a", "root">>
\* updater: storage directory, unpack directory (storage/tmp/<archive>) and final destination
Store(n) == Outer(n) \o <<"s">>
ZipUnpack(n) == Store(n) \o <<"tmp", "root">>
ZipDest(n, d) == IF d = 1 THEN Store(n) \o <<"root">> ELSE Store(n) \o <<"a", "root">>

\* component, operation -> how the name reaches the component
\*   fstree  put/get/delete : database key; query : query key prefix      (joined under the base path)
\*   zip     file/dir       : archive entry name of a file / a directory   (joined under the unpack dir)
\*   ds      rel            : DirStructure.EnsureRelPath(name)
\*           relchild       : child.EnsureRelPath(name), child = root/a    (scope is the top structure)
\*           absroot        : EnsureAbsPath(<root> + "/" + name)
\*           absparent      : EnsureAbsPath(<parent of root> + "/" + name)
\*           reldir         : EnsureRelDir(segment, segment, ...)   (the segments of the name as separate arguments)
\*   scan    root / parent  : ScanStorage(<storage> + "/" + name) / ScanStorage(<parent> + "/" + name)
\*           relroot        : ScanStorage(name) with a relative name, the working directory being the storage directory
CompOps == { <<"fstree", "put">>, <<"fstree", "get">>, <<"fstree", "delete">>, <<"fstree", "query">>,
             <<"zip", "file">>, <<"zip", "dir">>,
             <<"ds", "rel">>, <<"ds", "relchild">>, <<"ds", "absroot">>, <<"ds", "absparent">>, <<"ds", "reldir">>,
             <<"scan", "root">>, <<"scan", "parent">>, <<"scan", "relroot">> }

\* the four ways a name is resolved: against the root, a child of the root, the parent of the root,
\* and the unpack directory of the updater
Kinds == {"root", "child", "parent", "zip"}
Kind(comp, op) == IF comp = "zip" THEN "zip"
                  ELSE IF op = "relchild" THEN "child"
                  ELSE IF op \in {"absparent", "parent"} THEN "parent"
                  ELSE "root"
LayoutK(k, n, d) ==
    IF k = "zip" THEN [roots |-> <<ZipUnpack(n), ZipDest(n, d)>>, base |-> ZipUnpack(n)]
    ELSE IF k = "child" THEN [roots |-> <<GenRoot(n, d)>>, base |-> GenRoot(n, d) \o <<"a">>]
    ELSE IF k = "parent" THEN [roots |-> <<GenRoot(n, d)>>, base |-> Parent(GenRoot(n, d))]
    ELSE [roots |-> <<GenRoot(n, d)>>, base |-> GenRoot(n, d)]
Layout(comp, op, n, d) == LayoutK(Kind(comp, op), n, d)

\* ---- the property ----
\* Observation of one call: did it return an error (a panic is not an error), which paths of the
\* sandbox differ between the snapshot before and after the call (`changes`: created, deleted, modified,
\* chmod), and which files the data / entries it returned came from (`got`).
\*   - for EVERY name nothing outside the owned directories is changed or returned;
\*   - a name that resolves outside is rejected with an error.
\* Everything else (error or success for names that stay inside, what happens inside) is left open.
Conforms(roots, base, segs, err, changed, got) ==
    /\ \A i \in 1..Len(changed) : Inside(roots, changed[i])
    /\ \A i \in 1..Len(got) : Inside(roots, got[i])
    /\ Escapes(roots, base, segs) => err

\* label of a name for reports / violation signatures (not part of the verdict)
Class(roots, base, segs) ==
    LET p == Resolve(base, segs)
        r == roots[1]
    IN IF Inside(roots, p) THEN (IF \E i \in 1..Len(roots) : p = roots[i] THEN "root-itself"
                                  ELSE IF ".." \in {segs[i] : i \in 1..Len(segs)} THEN "inside-via-dotdot" ELSE "inside")
       ELSE IF IsPrefix(p, r) THEN "ancestor"
       ELSE IF Len(p) >= Len(r) /\ SubSeq(p, 1, Len(r) - 1) = Parent(r) /\ p[Len(r)] = "root-other" THEN "sibling-prefix"
       ELSE IF Len(p) >= Len(r) /\ SubSeq(p, 1, Len(r) - 1) = Parent(r) /\ p[Len(r)] = "ROOT" THEN "sibling-case"
       ELSE "outside"
====
