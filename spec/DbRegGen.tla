---- MODULE DbRegGen ----
\* Extension check X06: (a) breadth-first model checking of the laws of spec/DbReg.tla on every reachable
\* state of small argument domains (Emit = FALSE), (b) generation of operation histories for the driver
\* harness/cmd/dbreg (Emit = TRUE, -simulate).
EXTENDS DbReg, Json

CONSTANTS MaxLen,    \* operations per emitted history / depth bound of the breadth-first search
          MaxProcs,  \* process lifetimes per history
          MaxVer,    \* versions 1..MaxVer
          Focus,     \* "life": registry and life cycle, "mig": migrations, "mix"
          Emit       \* print finished histories as JSON

VARIABLES st, hist, done, np, nid
vars == <<st, hist, done, np, nid>>

Init == st = Empty /\ hist = <<>> /\ done = FALSE /\ np = 0 /\ nid = 0

\* the dummy parameter keeps TLC from caching a draw
Rnd(S, n) == RandomElement(S)
OrElse(S, T) == IF S = {} THEN T ELSE S
Rep(f, k) == [i \in 1..k |-> f]

\* ---------------------------------------------------------------- random operations (simulation)
\* the families are weighted by what the state makes interesting: registrations while little is registered, first
\* uses of what is registered, maintenance and shutdown while several storages run, migration runs once
\* there is something to run; a share of every family goes to arguments that do not apply (error paths)
FamStart == Rep("init", 10) \o <<"register", "use", "shutdown", "migrate", "inject", "maintain", "madd">>
FamShut == Rep("proc", 5) \o <<"use", "use", "inject", "maintain", "maintain", "shutdown", "register", "migrate", "withdraw", "init", "madd">>
FamLife(s) ==
    LET nreg == Cardinality(s.mem)
        nrun == Cardinality(s.ctl)
        idle == {r \in s.mem : ~Running(s, r.n)}
        injrun == {c \in s.ctl : c.t = "injected"}
    IN Rep("register", IF nreg < 2 THEN 8 ELSE IF nreg < 3 THEN 4 ELSE 2)
       \o Rep("use", IF {r \in idle : r.t # "injected"} # {} THEN 7 ELSE 1)
       \o Rep("inject", IF {r \in idle : r.t = "injected"} # {} THEN 5 ELSE 1)
       \o Rep("withdraw", IF injrun # {} THEN 1 ELSE 0)
       \o Rep("fail", IF nrun >= 2 THEN 3 ELSE IF nrun = 1 THEN 1 ELSE 0)
       \o Rep("maintain", IF nrun >= 2 THEN 6 ELSE IF nrun = 1 THEN 2 ELSE 1)
       \o Rep("shutdown", IF nrun >= 2 THEN 2 ELSE 1)
       \o Rep("proc", IF nreg >= 1 THEN 2 ELSE 0)
       \o Rep("race", IF Cardinality(idle) >= 2 THEN 4 ELSE IF nreg >= 1 THEN 1 ELSE 0)
       \o <<"init">>
FamMig(s) ==
    LET nmig == Len(s.migs)
        core == Has(s, "core")
    IN Rep("register", IF core THEN 1 ELSE 8)
       \o Rep("madd", IF nmig < 3 THEN 6 ELSE IF nmig < 6 THEN 2 ELSE 1)
       \o Rep("migrate", IF core /\ nmig > 0 THEN 8 ELSE 1)
       \o Rep("proc", IF s.diskver > 0 \/ s.memver > 0 THEN 3 ELSE 1)
       \o <<"use", "shutdown", "inject", "fail">>

TypeBag == <<"plain", "maint", "maint", "maint", "disk", "disk", "injected", "injected", "injected", "nostart", "ghost">>
CoreTypeBag == <<"disk", "disk", "disk", "disk", "disk", "plain", "maint", "maint", "injected", "nostart">>

Bounded(f) == IF f = "proc" /\ np >= MaxProcs THEN "use"
              ELSE IF f = "shutdown" /\ st.mod /\ ~st.inited THEN "init"
              ELSE f

FileFlags(s) == {r.n : r \in {x \in s.file : x.ll}}
MigIds(s) == {s.migs[i].id : i \in 1..Len(s.migs)}

RandOp(n) ==
    LET F == IF ~st.up THEN <<"proc">>
             ELSE IF ~st.inited THEN FamStart
             ELSE IF st.shut THEN FamShut
             ELSE IF Focus = "life" THEN FamLife(st) ELSE IF Focus = "mig" THEN FamMig(st) ELSE FamLife(st) \o FamMig(st)
        f == Bounded(F[Rnd(1..Len(F), n)])
        regd == {r.n : r \in st.mem}
        idle == {r.n : r \in {x \in st.mem : ~Running(st, x.n)}}
        inj == {r.n : r \in {x \in st.mem : x.t = "injected"}}
        run == {c.n : c \in st.ctl}
        \* mostly a name the operation applies to
        pickname(S) == IF Rnd(1..8, n + 2) = 1 THEN Rnd(GoodNames, n + 3) ELSE Rnd(OrElse(S, GoodNames), n + 3)
        sel == Rnd(1..8, n + 1)
        regname == IF Focus = "mig" /\ ~Has(st, "core") /\ sel <= 7 THEN "core"
                   ELSE IF sel = 1 THEN Rnd(BadNames, n + 3)
                   ELSE IF sel <= 5 THEN Rnd(OrElse(GoodNames \ regd, GoodNames), n + 3)
                   ELSE Rnd(OrElse(regd, GoodNames), n + 3)
    IN CASE f = "proc" -> [Op("proc") EXCEPT !.per = (Rnd(1..4, n + 4) # 1), !.mod = (Rnd(1..5, n + 5) = 1)]
         [] f = "init" -> [Op("init") EXCEPT !.fll = IF st.persist THEN FileFlags(st) ELSE {}]
         [] f = "register" -> [Op("register") EXCEPT !.n = regname,
                                  !.t = IF regname = "core" THEN CoreTypeBag[Rnd(1..Len(CoreTypeBag), n + 6)] ELSE TypeBag[Rnd(1..Len(TypeBag), n + 6)],
                                  !.d = Rnd(1..2, n + 7), !.s = (Rnd(1..3, n + 8) = 1)]
         [] f = "use" -> [Op("use") EXCEPT !.n = pickname(IF sel <= 6 THEN idle \ inj ELSE regd)]
         [] f = "inject" -> [Op("inject") EXCEPT !.n = pickname(IF sel <= 6 THEN inj \cap idle ELSE inj), !.cap = (Rnd(1..3, n + 9) # 1)]
         [] f = "withdraw" -> [Op("withdraw") EXCEPT !.n = pickname(inj \cap run)]
         [] f = "fail" -> [Op("fail") EXCEPT !.n = pickname(OrElse(run, regd)), !.w = Rnd(Kinds \cup {"shutdown"}, n + 10)]
         [] f = "maintain" -> [Op("maintain") EXCEPT !.w = Rnd(Kinds, n + 11)]
         [] f = "shutdown" -> Op("shutdown")
         \* two or three first uses / injections / registrations at the same time, mostly against a shutdown
         [] f = "race" ->
              LET Sub(name, nm, t, cap) == [op |-> name, n |-> nm, t |-> t, d |-> 1, s |-> FALSE, cap |-> cap]
                  safe == {r.n : r \in {x \in st.mem : x.t # "nostart"}}
                  one(m) == LET k == Rnd(1..8, m)
                                nm == Rnd(OrElse(IF k <= 6 THEN idle \cap safe ELSE safe, OrElse(GoodNames \ regd, {"none-such"})), m + 1)
                            IN IF Has(st, nm) /\ Desc(st, nm).t = "injected" THEN Sub("inject", nm, "", Rnd(BOOLEAN, m + 2))
                               ELSE IF k = 8 THEN Sub("register", Rnd(GoodNames, m + 3), TypeBag[Rnd(1..8, m + 4)], FALSE)
                               ELSE Sub("use", nm, "", FALSE)
                  cnt == Rnd(2..3, n + 30)
                  subs == [i \in 1..cnt |-> one(n + 30 + 5 * i)]
              IN [Op("race") EXCEPT !.w = IF Rnd(1..2, n + 51) = 1 THEN "gate" ELSE "",
                                    !.par = IF ~st.mod /\ Rnd(1..4, n + 50) # 1 THEN Append(subs, Sub("shutdown", "", "", FALSE)) ELSE subs]
         [] f = "madd" ->
              LET len == Rnd({1, 2, 3}, n + 12)
                  draw(i) == IF Rnd(1..10, n + 12 + i) = 1 THEN 0 ELSE Rnd(1..MaxVer, n + 15 + i)
              IN [Op("madd") EXCEPT !.batch = [i \in 1..len |-> [id |-> nid + i, ver |-> draw(i), sp |-> Rnd(0..2, n + 18 + i)]]]
         [] f = "migrate" ->
              LET ids == MigIds(st)
                  some(k, m) == IF ids = {} \/ Rnd(1..k, m) # 1 THEN {} ELSE {Rnd(ids, m + 1)}
              IN [Op("migrate") EXCEPT !.fails = some(3, n + 22) \cup some(9, n + 24), !.vetoes = some(4, n + 26)]

\* ---------------------------------------------------------------- all operations of small domains (breadth-first)
SmallNames == {"core", "alpha", "ab"}
Sub(S) == SUBSET S
BfsOps ==
    (IF np < MaxProcs THEN {[Op("proc") EXCEPT !.per = p] : p \in BOOLEAN} ELSE {})
    \cup (IF ~st.up THEN {} ELSE
         {[Op("init") EXCEPT !.fll = f] : f \in (IF ~st.persist THEN {{}}
                                                 ELSE IF st.sloppy THEN Sub(st.ever \cap {r.n : r \in st.file}) ELSE {FileFlags(st)})}
    \cup {[Op("register") EXCEPT !.n = n, !.t = t, !.d = d, !.s = (d = 2)] : n \in SmallNames, t \in {"maint", "disk", "injected", "nostart"}, d \in 1..2}
    \cup {[Op("use") EXCEPT !.n = n] : n \in {"core", "alpha"}}
    \cup {[Op("inject") EXCEPT !.n = n, !.cap = TRUE] : n \in {"core", "alpha"}}
    \cup {[Op("withdraw") EXCEPT !.n = n] : n \in {"alpha"}}
    \cup {[Op("fail") EXCEPT !.n = "alpha", !.w = w] : w \in {"records", "shutdown"}}
    \cup {[Op("maintain") EXCEPT !.w = w] : w \in {"maintain", "records"}}
    \cup {Op("shutdown")}
    \cup {[Op("race") EXCEPT !.par = p] : p \in {
              << [op |-> "use", n |-> "alpha", t |-> "", d |-> 1, s |-> FALSE, cap |-> FALSE],
                 [op |-> "use", n |-> "alpha", t |-> "", d |-> 1, s |-> FALSE, cap |-> FALSE],
                 [op |-> "shutdown", n |-> "", t |-> "", d |-> 1, s |-> FALSE, cap |-> FALSE] >>,
              << [op |-> "use", n |-> "core", t |-> "", d |-> 1, s |-> FALSE, cap |-> FALSE],
                 [op |-> "inject", n |-> "alpha", t |-> "", d |-> 1, s |-> FALSE, cap |-> TRUE],
                 [op |-> "register", n |-> "alpha", t |-> "injected", d |-> 1, s |-> FALSE, cap |-> FALSE] >> }}
    \cup {[Op("madd") EXCEPT !.batch = b] : b \in {<<[id |-> nid + 1, ver |-> v, sp |-> 0]>> : v \in 0..2}
                                               \cup {<<[id |-> nid + 1, ver |-> 2, sp |-> 0], [id |-> nid + 2, ver |-> 0, sp |-> 0], [id |-> nid + 3, ver |-> 1, sp |-> 1]>>}}
    \cup {[Op("migrate") EXCEPT !.fails = f, !.vetoes = v] : f \in Sub(MigIds(st) \cap 1..2), v \in Sub(MigIds(st) \cap 2..3)})

Pick(S) == IF Emit THEN {RandomElement(S)} ELSE S

DoOp == /\ ~done /\ Len(hist) < MaxLen
        /\ \E o \in (IF Emit THEN {RandOp(0)} ELSE BfsOps) : \E x \in Pick(Step(st, o)) :
              /\ st' = x.st
              /\ hist' = Append(hist, IF Emit THEN o ELSE 0)
              /\ np' = IF o.op = "proc" THEN np + 1 ELSE np
              /\ nid' = IF o.op = "madd" THEN nid + Len(o.batch) ELSE IF o.op = "proc" THEN 0 ELSE nid
        /\ UNCHANGED done

Finish == /\ Emit /\ Len(hist) = MaxLen /\ ~done
          /\ done' = TRUE
          /\ PrintT(<<"@@", ToJson([focus |-> Focus, steps |-> hist])>>)
          /\ UNCHANGED <<st, hist, np, nid>>

Next == DoOp \/ Finish
Spec == Init /\ [][Next]_vars

\* the laws of the reference semantics hold in every reachable state, for every operation of the domain
Laws == /\ CtlSound(st) /\ FileIsMem(st) /\ NamesValid(st) /\ LoadedSound(st)
        /\ \A o \in BfsOps : /\ Step(st, o) # {}
                             /\ \A x \in Step(st, o) : TypeFixed(st, o, x) /\ ShutQuiet(st, o, x) /\ FailKeeps(st, o, x) /\ RunsOK(st, o, x)
View == <<st, Len(hist), done, np, nid>>
====
