---- MODULE DbRegGen ----
\* Extension check X06: (a) breadth-first model checking of the laws of spec/DbReg.tla on every reachable
\* state of small argument domains (Emit = FALSE), (b) generation of operation histories for the driver
\* harness/cmd/dbreg (Emit = TRUE, -simulate).
EXTENDS DbReg, Json

CONSTANTS MaxLen,    \* operations per emitted history / depth bound of the breadth-first search
          MaxProcs,  \* process lifetimes per history
          MaxVer,    \* versions 1..MaxVer
          Focus,     \* "life": registry and life cycle, "mig": migrations, "mix"
          Emit       \* print finished histories as JSON

VARIABLES st, hist, done, np, nid
vars == <<st, hist, done, np, nid>>

Init == st = Empty /\ hist = <<>> /\ done = FALSE /\ np = 0 /\ nid = 0

\* the dummy parameter keeps TLC from caching a draw
Rnd(S, n) == RandomElement(S)
OrElse(S, T) == IF S = {} THEN T ELSE S
Rep(f, k) == [i \in 1..k |-> f]

\* ---------------------------------------------------------------- random operations (simulation)
FamStart == <<"init", "init", "init", "init", "init", "init", "init", "init", "register", "use", "shutdown", "migrate", "inject", "maintain", "madd">>
FamShut == <<"proc", "proc", "proc", "proc", "use", "use", "inject", "maintain", "maintain", "shutdown", "register", "migrate", "withdraw", "init", "madd">>
FamLife == Rep("register", 6) \o Rep("use", 6) \o Rep("inject", 3) \o Rep("withdraw", 1) \o Rep("fail", 2) \o Rep("maintain", 5)
           \o Rep("shutdown", 2) \o Rep("proc", 1) \o <<"migrate", "madd", "init">>
FamMig == Rep("register", 3) \o Rep("use", 1) \o Rep("madd", 5) \o Rep("migrate", 7) \o Rep("shutdown", 1) \o Rep("proc", 2)
          \o <<"maintain", "inject", "fail">>
FamMix == FamLife \o FamMig

TypeBag == <<"plain", "maint", "maint", "disk", "disk", "injected", "injected", "injected", "nostart", "ghost">>
CoreTypeBag == <<"disk", "disk", "disk", "disk", "plain", "maint", "injected", "nostart">>
NameBagLife == <<"core", "alpha", "alpha", "alpha", "b_2-X", "b_2-X", "ab", "bad name", "dot.ted">>
NameBagMig == <<"core", "core", "core", "core", "alpha", "ab">>

Bounded(f) == IF f = "proc" /\ np >= MaxProcs THEN "use"
              ELSE IF f = "shutdown" /\ st.mod /\ ~st.inited THEN "init"
              ELSE f

FileFlags(s) == {r.n : r \in {x \in s.file : x.ll}}
MigIds(s) == {s.migs[i].id : i \in 1..Len(s.migs)}

RandOp(n) ==
    LET F == IF ~st.up THEN <<"proc">>
             ELSE IF ~st.inited THEN FamStart
             ELSE IF st.shut THEN FamShut
             ELSE IF Focus = "life" THEN FamLife ELSE IF Focus = "mig" THEN FamMig ELSE FamMix
        f == Bounded(F[Rnd(1..Len(F), n)])
        nb == IF Focus = "mig" THEN NameBagMig ELSE NameBagLife
        nm == nb[Rnd(1..Len(nb), n + 1)]
        regd == {r.n : r \in st.mem}
        inj == {r.n : r \in {x \in st.mem : x.t = "injected"}}
        run == {c.n : c \in st.ctl}
        pickname(S) == IF Rnd(1..4, n + 2) = 1 THEN Rnd(GoodNames, n + 3) ELSE Rnd(OrElse(S, GoodNames), n + 3)
    IN CASE f = "proc" -> [Op("proc") EXCEPT !.per = (Rnd(1..4, n + 4) # 1), !.mod = (Rnd(1..5, n + 5) = 1)]
         [] f = "init" -> [Op("init") EXCEPT !.fll = IF st.persist THEN FileFlags(st) ELSE {}]
         [] f = "register" -> [Op("register") EXCEPT !.n = nm,
                                  !.t = IF nm = "core" THEN CoreTypeBag[Rnd(1..Len(CoreTypeBag), n + 6)] ELSE TypeBag[Rnd(1..Len(TypeBag), n + 6)],
                                  !.d = Rnd(1..2, n + 7), !.s = (Rnd(1..3, n + 8) = 1)]
         [] f = "use" -> [Op("use") EXCEPT !.n = pickname(regd)]
         [] f = "inject" -> [Op("inject") EXCEPT !.n = pickname(inj), !.cap = (Rnd(1..2, n + 9) = 1)]
         [] f = "withdraw" -> [Op("withdraw") EXCEPT !.n = pickname(inj \cap run)]
         [] f = "fail" -> [Op("fail") EXCEPT !.n = pickname(OrElse(run, regd)), !.w = Rnd(Kinds \cup {"shutdown", "shutdown"}, n + 10)]
         [] f = "maintain" -> [Op("maintain") EXCEPT !.w = Rnd(Kinds, n + 11)]
         [] f = "shutdown" -> Op("shutdown")
         [] f = "madd" ->
              LET len == Rnd({1, 1, 2, 2, 3}, n + 12)
                  draw(i) == IF Rnd(1..9, n + 12 + i) = 1 THEN 0 ELSE Rnd(1..MaxVer, n + 15 + i)
              IN [Op("madd") EXCEPT !.batch = [i \in 1..len |-> [id |-> nid + i, ver |-> draw(i), sp |-> Rnd(0..2, n + 18 + i)]]]
         [] f = "migrate" ->
              LET ids == MigIds(st)
                  some(k, m) == IF ids = {} \/ Rnd(1..k, m) # 1 THEN {} ELSE {Rnd(ids, m + 1)}
              IN [Op("migrate") EXCEPT !.fails = some(3, n + 22) \cup some(9, n + 24), !.vetoes = some(4, n + 26)]

\* ---------------------------------------------------------------- all operations of small domains (breadth-first)
SmallNames == {"core", "alpha", "ab"}
Sub(S) == SUBSET S
BfsOps ==
    (IF np < MaxProcs THEN {[Op("proc") EXCEPT !.per = p] : p \in BOOLEAN} ELSE {})
    \cup (IF ~st.up THEN {} ELSE
         {[Op("init") EXCEPT !.fll = f] : f \in (IF ~st.persist THEN {{}}
                                                 ELSE IF st.sloppy THEN Sub(st.ever \cap {r.n : r \in st.file}) ELSE {FileFlags(st)})}
    \cup {[Op("register") EXCEPT !.n = n, !.t = t, !.d = d, !.s = (d = 2)] : n \in SmallNames, t \in {"maint", "disk", "injected", "nostart"}, d \in 1..2}
    \cup {[Op("use") EXCEPT !.n = n] : n \in {"core", "alpha"}}
    \cup {[Op("inject") EXCEPT !.n = n, !.cap = TRUE] : n \in {"core", "alpha"}}
    \cup {[Op("withdraw") EXCEPT !.n = n] : n \in {"alpha"}}
    \cup {[Op("fail") EXCEPT !.n = "alpha", !.w = w] : w \in {"records", "shutdown"}}
    \cup {[Op("maintain") EXCEPT !.w = w] : w \in {"maintain", "records"}}
    \cup {Op("shutdown")}
    \cup {[Op("madd") EXCEPT !.batch = b] : b \in {<<[id |-> nid + 1, ver |-> v, sp |-> 0]>> : v \in 0..2}
                                               \cup {<<[id |-> nid + 1, ver |-> 2, sp |-> 0], [id |-> nid + 2, ver |-> 0, sp |-> 0], [id |-> nid + 3, ver |-> 1, sp |-> 1]>>}}
    \cup {[Op("migrate") EXCEPT !.fails = f, !.vetoes = v] : f \in Sub(MigIds(st) \cap 1..2), v \in Sub(MigIds(st) \cap 2..3)})

Pick(S) == IF Emit THEN {RandomElement(S)} ELSE S

DoOp == /\ ~done /\ Len(hist) < MaxLen
        /\ \E o \in (IF Emit THEN {RandOp(0)} ELSE BfsOps) : \E x \in Pick(Step(st, o)) :
              /\ st' = x.st
              /\ hist' = Append(hist, IF Emit THEN o ELSE 0)
              /\ np' = IF o.op = "proc" THEN np + 1 ELSE np
              /\ nid' = IF o.op = "madd" THEN nid + Len(o.batch) ELSE IF o.op = "proc" THEN 0 ELSE nid
        /\ UNCHANGED done

Finish == /\ Emit /\ Len(hist) = MaxLen /\ ~done
          /\ done' = TRUE
          /\ PrintT(<<"@@", ToJson([focus |-> Focus, steps |-> hist])>>)
          /\ UNCHANGED <<st, hist, np, nid>>

Next == DoOp \/ Finish
Spec == Init /\ [][Next]_vars

\* the laws of the reference semantics hold in every reachable state, for every operation of the domain
Laws == /\ CtlSound(st) /\ FileIsMem(st) /\ NamesValid(st) /\ LoadedSound(st)
        /\ \A o \in BfsOps : /\ Step(st, o) # {}
                             /\ \A x \in Step(st, o) : TypeFixed(st, o, x) /\ ShutQuiet(st, o, x) /\ FailKeeps(st, o, x) /\ RunsOK(st, o, x)
View == <<st, Len(hist), done, np, nid>>
====
