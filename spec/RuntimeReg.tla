---- MODULE RuntimeReg ----
\* Extension check X03: the runtime registry (package runtime: registry.go, provider.go,
\* singe_record_provider.go, storage.go, modules_integration.go) seen through the injected database.
\*
\* STATEMENT (derived from the doc comments of Registry.Register / Get / Put / Query, ValueProvider,
\* PushFunc, ProvideRecord, SimpleValueGetterFunc / SimpleValueSetterFunc, the Err* variables and
\* registry_test.go).  A registration key ending in "/" is a prefix and is responsible for every key that
\* starts with it, any other registration key is responsible for exactly itself.  For every history of
\* Register / InjectAsDatabase / Get / Put / Delete / Query / Subscribe / PushFunc calls:
\*  R1 registration: Register(k) fails with ErrKeyTaken, and changes nothing, exactly if k is already
\*     registered, or k lies inside a registered prefix, or k is a prefix and a registered key lies inside
\*     it; otherwise it succeeds.  Hence never two providers are responsible for the same key.
\*     (The documentation is silent on the empty key: accepting or refusing it are both allowed.)
\*  R2 injection: InjectAsDatabase succeeds once, every later call fails with ErrInjected; before it every
\*     database operation on the name fails, pushed updates are dropped and DatabaseName() is empty,
\*     afterwards it is the name.  GetRegistrationKeys() is the set of keys registered successfully.
\*  R3 Get(key) is answered by the one responsible provider and by no other: the record it holds under
\*     exactly that key (carrying that key), else ErrNotFound; no responsible provider: ErrNotFound; a
\*     write-only provider (ErrWriteOnly) is hidden as ErrNotFound; any other provider error is returned.
\*     Nothing is cached: a Get always shows the provider's current value.
\*  R4 Put(record) reaches the Set of the one responsible provider exactly once and of no other; without
\*     a responsible provider it fails (ErrKeyUnmanaged by the documentation of that error, ErrReadOnly by
\*     the comment of Registry.Put: both are allowed) and reaches no provider; a read-only provider (ProvideRecord,
\*     SimpleValueGetterFunc, ModulesIntegration) yields ErrReadOnly; a provider error is returned and
\*     nobody is notified; after a successful Put every subscription whose query matches the key receives
\*     the record exactly once.
\*  R5 Query(prefix) returns exactly the records, each once and with its own key, that Get would return for
\*     the keys starting with the prefix, across ALL providers at, below or above the prefix; write-only
\*     providers contribute nothing and do not fail the query; the error of a failing provider is
\*     reported by the iterator.  (No provider at all: ErrKeyUnmanaged or an empty result.)
\*  R6 provider calls: a provider is only ever called for keys it is responsible for ("keyOrPrefix is
\*     guaranteed to be at least the prefix used to register the ValueProvider"; a provider registered
\*     for a single key is only asked for that key), and only providers the operation concerns are called.
\*  R7 PushFunc: every record pushed reaches every subscription whose query matches its key, exactly
\*     once and in the order pushed, and nobody else; it changes no stored value.
\*  R8 Delete: the registry has no delete; Delete of a key that Get would not return fails like Get,
\*     otherwise it fails with an error, and a failed Delete changes nothing: the record stays readable.
\*
\* Keys are sequences over 1..3 (1 = "a", 2 = "b", 3 = "/").  Providers are abstract:
\*   rw      stores what is Set, Get(arg) returns its records whose key starts with arg
\*   sloppy  like rw, but Get returns all its records whatever is asked (as the provider in registry_test.go)
\*   ro      runtime.SimpleValueGetterFunc around the Get of rw
\*   wo      runtime.SimpleValueSetterFunc around the Set of rw
\*   single  runtime.ProvideRecord(r): one live record under the registration key
\*   fail    Get and Set return an error of the provider's own
\*   modint  &runtime.ModulesIntegration{}: Get = database.ErrNotFound, Set = ErrReadOnly
EXTENDS Integers, Sequences, FiniteSets, TLC

\* ---------------------------------------------------------------- keys
IsPrefixOf(p, k) == Len(p) <= Len(k) /\ \A i \in 1..Len(p) : p[i] = k[i]
IsPrefixKey(k) == Len(k) > 0 /\ k[Len(k)] = 3
\* the provider registered at K is responsible for key
Covers(K, key) == K = key \/ (IsPrefixKey(K) /\ IsPrefixOf(K, key))

Range(s) == {s[i] : i \in 1..Len(s)}
SeqIsPermOfSet(s, S) == Len(s) = Cardinality(S) /\ Range(s) = S

\* ---------------------------------------------------------------- state and record shapes
\* regs: registrations in the order they succeeded (index = provider id); store: what the providers hold;
\* subs: key prefixes of the subscriptions in the order they were made
Empty == [inj |-> FALSE, regs |-> <<>>, store |-> {}, subs |-> <<>>]

Op(name, k, v, p, kind, k2, v2) == [op |-> name, k |-> k, v |-> v, p |-> p, kind |-> kind, k2 |-> k2, v2 |-> v2]
KV(k, v) == [k |-> k, v |-> v]
Res(err, v, rk, recs, feeds) == [err |-> err, v |-> v, rk |-> rk, recs |-> recs, feeds |-> feeds]
NoFeeds(st) == [i \in 1..Len(st.subs) |-> <<>>]
Plain(st, err) == Res(err, 0, <<>>, {}, NoFeeds(st))
Out(r, st) == [res |-> r, st |-> st]
\* "anyerr": the statement only says that the call fails

Pids(st) == 1..Len(st.regs)
KeyOf(st, p) == st.regs[p].key
KindOf(st, p) == st.regs[p].kind
Route(st, key) == {p \in Pids(st) : Covers(KeyOf(st, p), key)}
\* providers a query on prefix concerns: registered at or below the prefix, or a prefix above it
Involved(st, prefix) == {p \in Pids(st) : IsPrefixOf(prefix, KeyOf(st, p))
                                          \/ (IsPrefixKey(KeyOf(st, p)) /\ IsPrefixOf(KeyOf(st, p), prefix))}
Readable(kind) == kind \in {"rw", "sloppy", "ro", "single"}
Writable(kind) == kind \in {"rw", "sloppy", "wo"}
ReadOnlyKind(kind) == kind \in {"ro", "single", "modint"}

StoreSet(st, p, k, v) == {r \in st.store : ~(r.p = p /\ r.k = k)}
                         \cup (IF v = 0 THEN {} ELSE {[p |-> p, k |-> k, v |-> v]})
\* what the database shows: the records of readable providers (a provider only holds keys it is responsible for)
Visible(st) == {KV(r.k, r.v) : r \in {x \in st.store : Readable(KindOf(st, x.p)) /\ x.p \in Route(st, x.k)}}
Deliver(st, recs) == [i \in 1..Len(st.subs) |-> SelectSeq(recs, LAMBDA r : IsPrefixOf(st.subs[i], r.k))]

Conflict(st, k) == \E p \in Pids(st) : Covers(KeyOf(st, p), k) \/ (IsPrefixKey(k) /\ IsPrefixOf(k, KeyOf(st, p)))

\* ---------------------------------------------------------------- the reference semantics
GetRes(st, key) ==
    IF ~st.inj THEN Plain(st, "anyerr")
    ELSE IF Route(st, key) = {} THEN Plain(st, "notfound")
    ELSE LET p == CHOOSE q \in Route(st, key) : TRUE
             kind == KindOf(st, p)
             hit == {r \in st.store : r.p = p /\ r.k = key}
         IN CASE kind = "fail" -> Plain(st, "boom")
              [] ~Readable(kind) -> Plain(st, "notfound")
              [] hit = {} -> Plain(st, "notfound")
              [] OTHER -> Res("ok", (CHOOSE r \in hit : TRUE).v, key, {}, NoFeeds(st))

Step(st, o) ==
  CASE o.op = "register" ->
         LET n == Len(st.regs) + 1
             added == [st EXCEPT !.regs = Append(@, [key |-> o.k, kind |-> o.kind]),
                                 !.store = IF o.kind = "single" THEN @ \cup {[p |-> n, k |-> o.k, v |-> o.v]} ELSE @]
         IN IF Conflict(st, o.k) THEN {Out(Plain(st, "taken"), st)}
            ELSE IF o.k = <<>> THEN {Out(Plain(st, "ok"), added), Out(Plain(st, "anyerr"), st)}
            ELSE {Out(Plain(st, "ok"), added)}
    [] o.op = "inject" ->
         IF st.inj THEN {Out(Plain(st, "injected"), st)} ELSE {Out(Plain(st, "ok"), [st EXCEPT !.inj = TRUE])}
    [] o.op = "get" -> {Out(GetRes(st, o.k), st)}
    [] o.op = "put" ->
         IF ~st.inj THEN {Out(Plain(st, "anyerr"), st)}
         \* ErrKeyUnmanaged says it is returned by such a Put, the comment of Registry.Put says ErrReadOnly
         ELSE IF Route(st, o.k) = {} THEN {Out(Plain(st, "unmanaged"), st), Out(Plain(st, "readonly"), st)}
         ELSE LET p == CHOOSE q \in Route(st, o.k) : TRUE
                  kind == KindOf(st, p)
              IN CASE kind = "fail" -> {Out(Plain(st, "boom"), st)}
                   [] ReadOnlyKind(kind) -> {Out(Plain(st, "readonly"), st)}
                   [] OTHER -> {Out(Res("ok", 0, <<>>, {}, Deliver(st, <<KV(o.k, o.v)>>)),
                                    [st EXCEPT !.store = StoreSet(st, p, o.k, o.v)])}
    [] o.op = "delete" ->
         LET g == GetRes(st, o.k) IN
         IF g.err # "ok" THEN {Out(g, st)} ELSE {Out(Plain(st, "anyerr"), st)}
    [] o.op = "query" ->
         IF ~st.inj THEN {Out(Plain(st, "anyerr"), st)}
         ELSE LET inv == Involved(st, o.k)
                  expected == {r \in Visible(st) : IsPrefixOf(o.k, r.k)}
                  failing == {p \in inv : KindOf(st, p) = "fail"}
                  soft == {p \in inv : KindOf(st, p) = "modint"}
                  errs == (IF failing # {} THEN {"boom"} ELSE {"ok"}) \cup (IF soft # {} THEN {"notfound"} ELSE {})
              IN IF inv = {} THEN {Out(Plain(st, "unmanaged"), st), Out(Plain(st, "ok"), st)}
                 ELSE UNION { IF e = "ok" THEN {Out(Res("ok", 0, <<>>, expected, NoFeeds(st)), st)}
                              ELSE {Out(Res(e, 0, <<>>, R, NoFeeds(st)), st) : R \in SUBSET expected}
                              : e \in errs }
    [] o.op = "subscribe" ->
         IF ~st.inj THEN {Out(Plain(st, "anyerr"), st)}
         ELSE LET nst == [st EXCEPT !.subs = Append(@, o.k)] IN {Out(Plain(nst, "ok"), nst)}
    \* the provider changes a value on its own (v = 0: drops it); the registry is not involved
    [] o.op = "poke" -> {Out(Plain(st, "ok"), [st EXCEPT !.store = StoreSet(st, o.p, o.k, o.v)])}
    \* PushFunc of registration p with one or two records; a ProvideRecord provider pushes its live record
    \* after setting the new value (the example in the documentation of ProvideRecord)
    [] o.op = "push" ->
         LET recs == <<KV(o.k, o.v)>> \o (IF o.v2 = 0 THEN <<>> ELSE <<KV(o.k2, o.v2)>>)
             nst == IF KindOf(st, o.p) = "single" THEN [st EXCEPT !.store = StoreSet(st, o.p, o.k, o.v)] ELSE st
         IN {Out(Res("ok", 0, <<>>, {}, IF st.inj THEN Deliver(st, recs) ELSE NoFeeds(st)), nst)}

\* R6: the calls the providers saw during one operation ([p, m, k]: provider, "get"/"set", key argument)
CallOK(st, o, c) ==
    /\ c.p \in Pids(st)
    /\ LET K == KeyOf(st, c.p) IN
       CASE o.op \in {"get", "delete"} -> c.m = "get" /\ c.k = o.k /\ Covers(K, o.k)
         [] o.op = "put" -> c.m = "set" /\ c.k = o.k /\ Covers(K, o.k)
         [] o.op = "query" -> /\ c.m = "get" /\ c.p \in Involved(st, o.k)
                              /\ IsPrefixOf(K, c.k) /\ (~IsPrefixKey(K) => c.k = K)
         [] OTHER -> FALSE
CallsOK(st, o, calls) ==
    /\ \A i \in 1..Len(calls) : CallOK(st, o, calls[i])
    /\ (o.op = "put" => Cardinality({i \in 1..Len(calls) : calls[i].m = "set"}) <= 1)

\* ---------------------------------------------------------------- argument domains
KeysSmall == { <<>>, <<1>>, <<1, 3>>, <<1, 3, 1>>, <<1, 3, 1, 3>>, <<1, 2>>, <<1, 2, 3>>, <<1, 2, 3, 1>> }
KeysAll == KeysSmall \cup { <<2>>, <<3>>, <<2, 3>>, <<1, 3, 2>>, <<1, 3, 2, 3>>, <<1, 3, 2, 3, 1>>, <<1, 3, 1, 3, 1>>,
                            <<1, 2, 1>>, <<2, 3, 1>>, <<3, 1>>, <<1, 1>>, <<1, 3, 3>>, <<1, 2, 3, 1, 2>>, <<1, 3, 1, 2>> }
KindsSmall == {"rw", "ro", "wo", "fail"}
KindsAll == {"rw", "sloppy", "ro", "wo", "single", "fail", "modint"}
Vals == {1, 2}

\* keys a provider may hold / push: those it is responsible for
Own(st, p, K) == {k \in K : Covers(KeyOf(st, p), k)}

OpsOf(f, st, K, Kinds) ==
  CASE f = "register"  -> UNION { {Op("register", k, 1, 0, kind, <<>>, 0) : kind \in (IF IsPrefixKey(k) THEN Kinds \ {"single"} ELSE Kinds)}
                                  : k \in K }
    [] f = "inject"    -> {Op("inject", <<>>, 0, 0, "", <<>>, 0)}
    [] f = "get"       -> {Op("get", k, 0, 0, "", <<>>, 0) : k \in K}
    [] f = "put"       -> {Op("put", k, v, 0, "", <<>>, 0) : k \in K, v \in Vals}
    [] f = "delete"    -> {Op("delete", k, 0, 0, "", <<>>, 0) : k \in K}
    [] f = "query"     -> {Op("query", k, 0, 0, "", <<>>, 0) : k \in K}
    [] f = "subscribe" -> {Op("subscribe", k, 0, 0, "", <<>>, 0) : k \in K}
    [] f = "poke"      -> UNION { {Op("poke", k, v, p, "", <<>>, 0) : k \in Own(st, p, K),
                                      v \in (IF KindOf(st, p) = "single" THEN Vals ELSE Vals \cup {0})}
                                  : p \in {q \in Pids(st) : KindOf(st, q) \in {"rw", "sloppy", "ro", "single"}} }
    [] f = "push"      -> UNION { {Op("push", k, v, p, "", k2, v2) : k \in Own(st, p, K), v \in Vals, k2 \in Own(st, p, K),
                                      v2 \in (IF KindOf(st, p) = "single" THEN {0} ELSE {0, 1})}
                                  : p \in Pids(st) }

\* ---------------------------------------------------------------- laws of the model (checked by TLC)
\* R1: never two providers responsible for one key; no registered prefix contains another registration
RouteUnique(st, K) == \A k \in K : Cardinality(Route(st, k)) <= 1
NoOverlap(st) == \A p, q \in Pids(st) : p # q => ~Covers(KeyOf(st, p), KeyOf(st, q))
\* a provider only holds keys it is responsible for
StoreOwned(st) == \A r \in st.store : r.p \in Pids(st) /\ Covers(KeyOf(st, r.p), r.k)
\* R5: a query without error is the same as asking Get for every key below the prefix
QueryIsGets(st, K) == \A pre \in K : \A x \in Step(st, Op("query", pre, 0, 0, "", <<>>, 0)) :
    (st.inj /\ x.res.err = "ok") =>
        \A k \in K : IsPrefixOf(pre, k) =>
            LET g == GetRes(st, k) IN
            IF g.err = "ok" THEN KV(k, g.v) \in x.res.recs ELSE \A r \in x.res.recs : r.k # k
\* R4: a Put that succeeded is what Get shows next, and it moves no other key
PutThenGet(st, K) == \A k \in K : \A v \in Vals : \A x \in Step(st, Op("put", k, v, 0, "", <<>>, 0)) :
    x.res.err = "ok" =>
        /\ LET g == GetRes(x.st, k) IN g.err = "ok" => g.v = v
        /\ \A k2 \in K \ {k} : GetRes(x.st, k2) = GetRes(st, k2)
\* an operation that fails changes nothing; only Register changes the registrations
FailuresChangeNothing(st, o) == \A x \in Step(st, o) :
    /\ (x.res.err # "ok" => x.st = st)
    /\ (o.op # "register" => x.st.regs = st.regs)
====
