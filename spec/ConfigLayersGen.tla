---- MODULE ConfigLayersGen ----
\* Generates configuration histories for the driver harness/cmd/cfg (property C04) and checks the laws
\* of the reference semantics ConfigLayers on every reachable state (BFS with Emit = FALSE).
EXTENDS ConfigLayers, Json

CONSTANTS MaxLen,   \* operations per history
          Emit      \* TRUE: simulation draws random operations and prints finished histories as JSON;
                    \* FALSE: BFS over the small representative operation domain SmallOps

VARIABLES st, hist, last, done
vars == <<st, hist, last, done>>

NoLast == [op |-> SaveLoadOp, res |-> Res(FALSE, {}), before |-> InitSt]
Init == st = InitSt /\ hist = <<>> /\ last = NoLast /\ done = FALSE

\* ---------------------------------------------------------------- random operations (simulation)
Layers == {"user", "def"}
AnyRaw == RawIds \cup {"nil"}
LevelRaw == {"s:stable", "s:beta", "s:experimental", "s:beta", "s:experimental", "nil", "s:x"}
\* one entry of a replace map: absent half of the time, else mostly a value of the option's own type
Entry(k) == LET c == RandomElement(1..12) IN
            IF c <= 6 THEN "-"
            ELSE IF k = "unk" THEN RandomElement(AnyRaw)
            ELSE IF k = "rl" /\ c <= 11 THEN RandomElement(LevelRaw)
            ELSE IF c <= 10 THEN RandomElement(Matching(k))
            ELSE RandomElement(AnyRaw)
\* (the parameter keeps TLC from evaluating the definition once and caching it as a constant)
RandMap(n) == [str |-> Entry("str"), arr |-> Entry("arr"), num |-> Entry("num"), flg |-> Entry("flg"),
            re |-> Entry("re"), al |-> Entry("al"), fn |-> Entry("fn"), nre |-> Entry("nre"),
            nal |-> Entry("nal"), are |-> Entry("are"), beta |-> Entry("beta"),
            exp |-> Entry("exp"), rl |-> Entry("rl"), unk |-> Entry("unk")]

Family == {"match", "match2", "any", "level", "level2", "gated", "gated2", "replace", "replace2", "saveload"}
RandOp(f) ==
    LET L == RandomElement(Layers) IN
    CASE f \in {"match", "match2"} -> LET o == RandomElement(Opts) IN SetOp(L, o, RandomElement(Matching(o) \cup {"nil"}))
      [] f = "any"                 -> SetOp(L, RandomElement(Keys), RandomElement(AnyRaw))
      [] f \in {"level", "level2"} -> SetOp(L, "rl", RandomElement(LevelRaw))
      [] f \in {"gated", "gated2"} -> LET o == RandomElement({"beta", "exp"}) IN SetOp(L, o, RandomElement(Matching(o) \cup {"nil"}))
      [] f \in {"replace", "replace2"} -> ReplaceOp(L, RandMap(Len(hist)))
      [] f = "saveload"            -> SaveLoadOp

\* ---------------------------------------------------------------- small exhaustive domain (BFS)
SmallRaw == {"nil", "s:a", "s:c", "s:beta", "s:stable", "s:experimental", "i:4", "i:5", "f:4.5", "is:a,b", "is:a,#1", "b:true", "f:p53"}
SmallKeys == {"rl", "beta", "exp", "re", "fn", "arr", "unk"}
SmallMaps == {EmptyMap,
              [EmptyMap EXCEPT !["rl"] = "s:beta", !["beta"] = "s:a"],
              [EmptyMap EXCEPT !["rl"] = "s:experimental", !["exp"] = "f:4", !["fn"] = "i:5", !["unk"] = "s:a"],
              [EmptyMap EXCEPT !["rl"] = "nil", !["beta"] = "i:4", !["arr"] = "is:a,b", !["re"] = "s:c"],
              [EmptyMap EXCEPT !["rl"] = "s:stable", !["exp"] = "i:5", !["arr"] = "is:a,#1"]}
SmallOps == {SetOp(L, o, v) : L \in Layers, o \in SmallKeys, v \in SmallRaw}
            \cup {ReplaceOp(L, m) : L \in Layers, m \in SmallMaps}
            \cup {SaveLoadOp}

DoOp == /\ Len(hist) < MaxLen /\ ~done
        /\ \E o \in (IF Emit THEN {RandOp(RandomElement(Family))} ELSE SmallOps) : \E x \in Step(st, o) :
              /\ st' = x.st
              /\ hist' = Append(hist, [op |-> o])
              /\ last' = [op |-> o, res |-> x.res, before |-> st]
        /\ done' = done

Finish == /\ Len(hist) = MaxLen /\ ~done
          /\ done' = TRUE
          /\ (Emit => PrintT(<<"@@", ToJson([steps |-> hist])>>))
          /\ UNCHANGED <<st, hist, last>>

Next == DoOp \/ Finish
Spec == Init /\ [][Next]_vars
View == <<st, last, Len(hist), done>>

\* ---------------------------------------------------------------- laws of the reference semantics
\* every layer holds only values that are valid for the option
LayersValid == \A o \in Opts :
    /\ st.user[o] # "NIL" => \E v \in Matching(o) : Valid(o, v) /\ Canon(v) = st.user[o]
    /\ st.def[o] # "NIL" => \E v \in Matching(o) : Valid(o, v) /\ Canon(v) = st.def[o]
\* what a getter shows comes from one of the three layers, in priority order, behind the gate
GetterLayered == \A o \in Opts :
    LET e == Effective(st, o) IN
    /\ e \in {st.user[o], st.def[o], Reg[o]} \ {"NIL"}
    /\ (st.user[o] # "NIL" /\ Enabled(st, o)) => e = st.user[o]
    /\ (st.user[o] = "NIL" \/ ~Enabled(st, o)) => e = (IF st.def[o] # "NIL" THEN st.def[o] ELSE Reg[o])
\* the user's release level wins over the default layer's (the level option itself is stable)
UserLevelWins == st.user["rl"] # "NIL" => EffLevel(st) = LevelOf(st.user["rl"])
\* a rejected single set leaves everything unchanged; a successful one changes only that option in that layer
SetLocal == last.op.op = "Set" =>
    IF last.res.err THEN st = last.before
    ELSE /\ \A o \in Opts \ {last.op.o} : st.user[o] = last.before.user[o] /\ st.def[o] = last.before.def[o]
         /\ (last.op.L = "user" => st.def = last.before.def)
         /\ (last.op.L = "def" => st.user = last.before.user)
\* a replace touches only its own layer and reports at least every invalid entry
ReplaceLocal == last.op.op = "Replace" =>
    /\ (last.op.L = "user" => st.def = last.before.def)
    /\ (last.op.L = "def" => st.user = last.before.user)
    /\ \A o \in Opts : (last.op.m[o] = "-") =>
          (IF last.op.L = "user" THEN st.user[o] ELSE st.def[o]) = "NIL"
    /\ \A o \in Opts : (last.op.m[o] \notin {"-", "nil"} /\ ~Valid(o, last.op.m[o])) => o \in last.res.inv
\* save and load keeps the user layer
SaveLoadKeeps == last.op.op = "SaveLoad" => st.user = last.before.user
Laws == LayersValid /\ GetterLayered /\ UserLevelWins /\ SetLocal /\ ReplaceLocal /\ SaveLoadKeeps
====
