---- MODULE UpdaterTrace ----
\* Judges histories recorded from a real updater.ResourceRegistry (driver harness/cmd/upd) against
\* spec/Updater.tla (property C19).  trace.ndjson, one JSON object per line:
\*   {"e":"new","init":{"online":..,"dev":..,"usepre":..},"vers":[..],"names":[..],"id":".."}   start of a history
\*   {"e":"op","op":{...},"res":{"err":..,"v":..,"path":..,"panic":..},"obs":{...}}            one call and what is
\*        observable afterwards: l/av/cur/pre/bl = version ids listed / Available / CurrentRelease / PreRelease /
\*        Blacklisted (Export()), files = versions whose file is in the storage directory, sel/act = selected /
\*        active version, registry flags, odd = number of things that have no place in the model.
\* One TLC state per line.  A call that the model does not allow is reported once with the names of the
\* violated requirements (PrintT "@@" line) and the rest of that history is skipped, so a single run judges
\* all histories; `Accepted` holds when every line was consumed.
EXTENDS Updater, Json

Trace == ndJsonDeserialize("trace.ndjson")

VARIABLES l, st, dead
vars == <<l, st, dead>>

Init == l = 1 /\ st = Empty(FALSE, FALSE, FALSE) /\ dead = FALSE

\* the model state that an observation describes (idx is not observable: taken from s)
FromObs(s, ob) == [L |-> Range(ob.l), av |-> Range(ob.av), cur |-> Range(ob.cur), pre |-> Range(ob.pre),
                   bl |-> Range(ob.bl), files |-> Range(ob.files), sel |-> ob.sel, act |-> ob.act,
                   online |-> ob.online, dev |-> ob.dev, usepre |-> ob.usepre, idx |-> s.idx]

SameVersions(s, t) == s.L = t.L /\ s.av = t.av /\ s.cur = t.cur /\ s.pre = t.pre /\ s.bl = t.bl
SameFlags(s, t) == s.online = t.online /\ s.dev = t.dev /\ s.usepre = t.usepre

\* names of what is wrong with event ev in state s; {} = the model allows it
Verdict(s, ev) ==
    LET o == ev.op
        t == FromObs(s, ev.obs)
        base == IF ev.obs.odd # 0 THEN {"unexpected-entries-or-files"} ELSE {}
    IN IF ev.res.panic # "" THEN {"panic"}       \* no call is allowed to panic or hang (no observation is taken then)
       ELSE IF o.op = "Purge"
       THEN base \cup PurgeViolations(s, o.keep, t) \cup (IF ev.res = Ok THEN {} ELSE {"result"})
       ELSE LET X == Step(s, o)
                T == [x \in X |-> [x.st EXCEPT !.idx = s.idx]]
                R == {x \in X : x.res = ev.res}          \* allowed outcomes with the observed result
            IN IF \E x \in R : T[x] = t THEN base
               ELSE IF R = {} THEN base \cup {"result"}
               ELSE LET parts == (IF \E x \in R : T[x].sel = t.sel THEN {} ELSE {"selected"})
                                 \cup (IF \E x \in R : T[x].act = t.act THEN {} ELSE {"active"})
                                 \cup (IF \E x \in R : SameVersions(T[x], t) THEN {} ELSE {"versions"})
                                 \cup (IF \E x \in R : T[x].files = t.files THEN {} ELSE {"files"})
                                 \cup (IF \E x \in R : SameFlags(T[x], t) THEN {} ELSE {"registry-flags"})
                    IN base \cup (IF parts = {} THEN {"state"} ELSE parts)

After(s, ev) ==
    IF ev.op.op = "Purge" THEN FromObs(s, ev.obs)
    ELSE (CHOOSE x \in Step(s, ev.op) : x.res = ev.res /\ [x.st EXCEPT !.idx = s.idx] = FromObs(s, ev.obs)).st

New == /\ l <= Len(Trace) /\ Trace[l].e = "new"
       /\ IF Trace[l].vers = VerStr /\ Trace[l].names = FileName /\ Trace[l].id = Identifier
          THEN /\ dead' = FALSE
               /\ st' = Empty(Trace[l].init.online, Trace[l].init.dev, Trace[l].init.usepre)
          ELSE /\ PrintT(<<"@@", ToJson([line |-> l, why |-> {"driver-tables-differ-from-spec"}])>>)
               /\ dead' = TRUE /\ st' = st
       /\ l' = l + 1

DoOp == /\ l <= Len(Trace) /\ Trace[l].e = "op"
        /\ IF dead THEN UNCHANGED <<st, dead>>
           ELSE LET V == Verdict(st, Trace[l]) IN
                IF V = {} THEN st' = After(st, Trace[l]) /\ dead' = FALSE
                ELSE /\ PrintT(<<"@@", ToJson([line |-> l, why |-> V])>>)
                     /\ dead' = TRUE /\ st' = st
        /\ l' = l + 1

Next == New \/ DoOp
Spec == Init /\ [][Next]_vars

Accepted == TLCGet("stats").diameter - 1 = Len(Trace)
====
