---- MODULE PathScopeTrace ----
\* C18: judges recorded calls of the real components against the PathScope model.  Stateless: one event
\* per call (one sandbox per call):
\*  {"comp","op","depth","pad","abs","segs",            the vector (symbolic name)
\*   "err": BOOLEAN, "panic": BOOLEAN,                   what the call returned
\*   "changes": [{"k": kind, "p": path}],                snapshot difference of the whole sandbox
\*   "got": [path],                                      origin of every piece of data / entry returned
\*   "roots": [path], "base": path,                      layout the driver built (must be the model's)
\*   ...concrete strings for the reader}
EXTENDS PathScope, Json, TLC

Trace == ndJsonDeserialize("trace.ndjson")
VARIABLE l

Good(ev) ==
    LET L == Layout(ev.comp, ev.op, ev.pad, ev.depth)
    IN /\ <<ev.comp, ev.op>> \in CompOps
       /\ ev.roots = L.roots /\ ev.base = L.base
       /\ Conforms(L.roots, L.base, ev.segs, ev.err /\ ~ev.panic,
                   [i \in 1..Len(ev.changes) |-> ev.changes[i].p], ev.got)

Bad == {i \in 1..Len(Trace) : ~Good(Trace[i])}
Init == l = 0 /\ PrintT(<<"@@", ToJson([bad |-> Bad, n |-> Len(Trace)])>>)
Next == l < 1 /\ l' = 1
Spec == Init /\ [][Next]_l
Accepted == TLCGet("level") >= 0 /\ Bad = {}
====
