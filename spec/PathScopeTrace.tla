---- MODULE PathScopeTrace ----
\* C18: judges recorded calls of the real components against the PathScope model.  Stateless: one event
\* per call (one sandbox per call):
\*  {"comp","op","depth","pad","abs","segs",            the vector (symbolic name)
\*   "err": BOOLEAN, "panic": BOOLEAN,                   what the call returned
\*   "changes": [{"k": kind, "p": path}],                snapshot difference of the whole sandbox
\*   "got": [path],                                      origin of every piece of data / entry returned
\*   "roots": [path], "base": path,                      layout the driver built (must be the model's)
\*   ...concrete strings for the reader}
EXTENDS PathScope, Json, TLC

Trace == ndJsonDeserialize("trace.ndjson")
VARIABLE l

Good(ev) ==
    LET L == Layout(ev.comp, ev.op, ev.pad, ev.depth)
    IN /\ <<ev.comp, ev.op>> \in CompOps
       /\ ev.roots = L.roots /\ ev.base = L.base
       /\ Conforms(L.roots, L.base, ev.segs, ev.err /\ ~ev.panic,
                   [i \in 1..Len(ev.changes) |-> ev.changes[i].p], ev.got)

\* which part of the property a rejected event breaks (for the report; the verdict is Good)
Why(ev) ==
    LET L == Layout(ev.comp, ev.op, ev.pad, ev.depth)
    IN [layout |-> ~(<<ev.comp, ev.op>> \in CompOps /\ ev.roots = L.roots /\ ev.base = L.base),
        changed |-> {ev.changes[i].k : i \in {j \in 1..Len(ev.changes) : ~Inside(L.roots, ev.changes[j].p)}},
        where |-> {ev.changes[i].p : i \in {j \in 1..Len(ev.changes) : ~Inside(L.roots, ev.changes[j].p)}}
                  \cup {ev.got[i] : i \in {j \in 1..Len(ev.got) : ~Inside(L.roots, ev.got[j])}},
        returned |-> \E i \in 1..Len(ev.got) : ~Inside(L.roots, ev.got[i]),
        noerror |-> Escapes(L.roots, L.base, ev.segs) /\ ~(ev.err /\ ~ev.panic),
        escapes |-> Escapes(L.roots, L.base, ev.segs),
        cls |-> Class(L.roots, L.base, ev.segs)]

Bad == {i \in 1..Len(Trace) : ~Good(Trace[i])}
BadSeq == LET RECURSIVE f(_) f(S) == IF S = {} THEN <<>> ELSE LET m == CHOOSE x \in S : \A y \in S : x <= y IN <<m>> \o f(S \ {m}) IN f(Bad)
Init == l = 0 /\ PrintT(<<"@@", ToJson([bad |-> BadSeq, n |-> Len(Trace), why |-> [i \in 1..Len(BadSeq) |-> Why(Trace[BadSeq[i]])]])>>)
Next == l < 1 /\ l' = 1
Spec == Init /\ [][Next]_l
Accepted == TLCGet("level") >= 0 /\ Bad = {}
====
