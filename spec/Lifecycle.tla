---- MODULE Lifecycle ----
\* modules/start.go, stop.go, status.go, mgmt.go, modules.go: the module manager as the code performs it
\* (implementation-shaped layer of property C01): prepareModules / startModules / stopModules fix-point
\* loops with their exec/report counters, one report received at a time, dependency-tree marking,
\* lifecycle callbacks as environment actions (they may take arbitrarily long and may fail).
\*
\* Fixed = TRUE is the repaired semantics (a failed start returns the module to offline and the pass
\* waits for the callbacks that are still in flight before it returns the error); Fixed = FALSE is
\* the behaviour of the pinned tree, kept so that TLC reproduces the defect (known_findings F-C01-1).
EXTENDS Naturals, FiniteSets, Sequences, TLC

CONSTANTS N,            \* number of modules (1..N); deps only point to lower numbers
          Mgmt,         \* module management enabled
          MaxFail,      \* budget of failing callbacks
          MaxOps,       \* budget of Enable/Disable/Manage calls
          Fixed         \* TRUE: repaired start-failure handling

Modules == 1..N
None == "none"

VARIABLES deps,        \* [Modules -> SUBSET Modules]
          status,      \* lifecycle status per module
          enabled, enabledDep,
          cb,          \* running lifecycle callback per module: none/prep/start/stop
          reports,     \* finished callbacks whose report was not yet received: set of <<m, ok>>
          mgr,         \* manager record
          locked, shutdown, fails, ops,
          prepCalls, startsOk, stopCalls,
          lastRet,     \* last API return: [op, ok]
          dirty        \* enabled flags changed since the last buildEnabledTree

vars == <<deps, status, enabled, enabledDep, cb, reports, mgr, locked, shutdown, fails, ops, prepCalls, startsOk, stopCalls, lastRet, dirty>>

Rank(s) == CASE s = "dead" -> 0 [] s = "preparing" -> 1 [] s = "offline" -> 2
             [] s = "stopping" -> 3 [] s = "starting" -> 4 [] s = "online" -> 5

RevDeps(m) == {r \in Modules : m \in deps[r]}

Idle == [op |-> "idle", phase |-> "-", pc |-> "-", exec |-> 0, rep |-> 0, err |-> FALSE]

Init == /\ deps \in {d \in [Modules -> SUBSET Modules] : \A m \in Modules : \A x \in d[m] : x < m}
        /\ status = [m \in Modules |-> "dead"]
        /\ enabled \in IF Mgmt THEN [Modules -> BOOLEAN] ELSE {[m \in Modules |-> FALSE]}
        /\ enabledDep = [m \in Modules |-> FALSE]
        /\ cb = [m \in Modules |-> None]
        /\ reports = {}
        /\ mgr = Idle
        /\ locked = FALSE /\ shutdown = FALSE /\ fails = 0 /\ ops = 0
        /\ prepCalls = [m \in Modules |-> 0]
        /\ startsOk = [m \in Modules |-> 0]
        /\ stopCalls = [m \in Modules |-> 0]
        /\ lastRet = [op |-> "-", ok |-> TRUE]
        /\ dirty = FALSE

\* ---- readiness predicates (modules/status.go) ----
Wanted(m) == (~Mgmt) \/ enabled[m] \/ enabledDep[m]

ReadyPrep(m)  == status[m] = "dead" /\ \A d \in deps[m] : Rank(status[d]) >= 2
WaitPrep(m)   == status[m] = "dead" /\ ~ReadyPrep(m)
ReadyStart(m) == Wanted(m) /\ status[m] = "offline" /\ \A d \in deps[m] : status[d] = "online"
WaitStart(m)  == Wanted(m) /\ status[m] = "offline" /\ ~ReadyStart(m)
StopWanted(m) == ~(Mgmt /\ ~shutdown /\ (enabled[m] \/ enabledDep[m]))
ReadyStop(m)  == StopWanted(m) /\ status[m] = "online" /\ \A r \in RevDeps(m) : Rank(status[r]) <= 2
WaitStop(m)   == StopWanted(m) /\ status[m] = "online" /\ ~ReadyStop(m)

Ready(ph, m) == CASE ph = "prep" -> ReadyPrep(m) [] ph = "start" -> ReadyStart(m) [] ph = "stop" -> ReadyStop(m)
Waiting(ph, m) == CASE ph = "prep" -> WaitPrep(m) [] ph = "start" -> WaitStart(m) [] ph = "stop" -> WaitStop(m)
Inter(ph) == CASE ph = "prep" -> "preparing" [] ph = "start" -> "starting" [] ph = "stop" -> "stopping"

\* transitive closure of dependencies of enabled modules (buildEnabledTree)
RECURSIVE Closure(_)
Closure(S) == LET S2 == S \cup UNION {deps[m] : m \in S} IN IF S2 = S THEN S ELSE Closure(S2)
EnabledTree == [m \in Modules |-> m \in (Closure({x \in Modules : enabled[x]}) \ {x \in Modules : enabled[x]})
                                    \/ (m \in UNION {deps[x] : x \in Closure({y \in Modules : enabled[y]})})]

\* ---- API calls ----
CallStart == /\ mgr.op = "idle" /\ ~locked /\ ~shutdown
             /\ locked' = TRUE
             /\ mgr' = [op |-> "start", phase |-> "prep", pc |-> "scan", exec |-> 0, rep |-> 0, err |-> FALSE]
             /\ UNCHANGED <<deps, status, enabled, enabledDep, cb, reports, shutdown, fails, ops, prepCalls, startsOk, stopCalls, lastRet, dirty>>

StartedOK == lastRet.op \in {"start", "manage"} \/ (locked /\ lastRet.op = "start")

CallManage == /\ Mgmt /\ mgr.op = "idle" /\ locked /\ ~shutdown /\ ops < MaxOps
              /\ lastRet.op \in {"start", "manage"} /\ (lastRet.op = "start" => lastRet.ok)
              /\ ops' = ops + 1
              /\ enabledDep' = EnabledTree
              /\ dirty' = FALSE
              /\ mgr' = [op |-> "manage", phase |-> "stop", pc |-> "scan", exec |-> 0, rep |-> 0, err |-> FALSE]
              /\ UNCHANGED <<deps, status, enabled, cb, reports, locked, shutdown, fails, prepCalls, startsOk, stopCalls, lastRet>>

Toggle(m) == /\ Mgmt /\ mgr.op = "idle" /\ locked /\ ~shutdown /\ ops < MaxOps
             /\ lastRet.op \in {"start", "manage"} /\ (lastRet.op = "start" => lastRet.ok)
             /\ ops' = ops + 1
             /\ enabled' = [enabled EXCEPT ![m] = ~@]
             /\ dirty' = TRUE
             /\ UNCHANGED <<deps, status, enabledDep, cb, reports, mgr, locked, shutdown, fails, prepCalls, startsOk, stopCalls, lastRet>>

CallShutdown == /\ mgr.op = "idle" /\ locked /\ ~shutdown
                /\ shutdown' = TRUE
                /\ mgr' = [op |-> "shutdown", phase |-> "stop", pc |-> "scan", exec |-> 0, rep |-> 0, err |-> FALSE]
                /\ UNCHANGED <<deps, status, enabled, enabledDep, cb, reports, locked, fails, ops, prepCalls, startsOk, stopCalls, lastRet, dirty>>

\* ---- manager loop (prepareModules/startModules/stopModules) ----
Return(ok) == /\ lastRet' = [op |-> mgr.op, ok |-> ok]
              /\ mgr' = Idle

NextPhase == \* called when current phase finished without abort
    CASE mgr.op = "start" /\ mgr.phase = "prep" ->
            /\ enabledDep' = EnabledTree
            /\ mgr' = [mgr EXCEPT !.phase = "start", !.pc = "scan", !.exec = 0, !.rep = 0]
            /\ UNCHANGED lastRet
      [] mgr.op = "start" /\ mgr.phase = "start" -> Return(TRUE) /\ UNCHANGED enabledDep
      [] mgr.op = "manage" /\ mgr.phase = "stop" ->
            /\ mgr' = [mgr EXCEPT !.phase = "start", !.pc = "scan", !.exec = 0, !.rep = 0]
            /\ UNCHANGED <<lastRet, enabledDep>>
      [] mgr.op = "manage" /\ mgr.phase = "start" -> Return(~mgr.err) /\ UNCHANGED enabledDep
      [] mgr.op = "shutdown" -> Return(~mgr.err) /\ UNCHANGED enabledDep

Scan == /\ mgr.op # "idle" /\ mgr.pc = "scan"
        /\ LET ph == mgr.phase
               L == {m \in Modules : Ready(ph, m)}
               W == {m \in Modules : Waiting(ph, m)}
           IN IF L # {} \/ mgr.rep < mgr.exec
              THEN /\ status' = [m \in Modules |-> IF m \in L THEN Inter(ph) ELSE status[m]]
                   /\ cb' = [m \in Modules |-> IF m \in L THEN ph ELSE cb[m]]
                   /\ prepCalls' = [m \in Modules |-> IF m \in L /\ ph = "prep" THEN prepCalls[m] + 1 ELSE prepCalls[m]]
                   /\ stopCalls' = [m \in Modules |-> IF m \in L /\ ph = "stop" THEN stopCalls[m] + 1 ELSE stopCalls[m]]
                   /\ mgr' = [mgr EXCEPT !.pc = "wait", !.exec = @ + Cardinality(L)]
                   /\ UNCHANGED <<lastRet, enabledDep>>
              ELSE \* nothing running, nothing to launch: phase done
                   /\ IF W # {}
                      THEN \* "dependency loop detected"
                           IF mgr.op = "manage" /\ mgr.phase = "stop"
                           THEN /\ mgr' = [mgr EXCEPT !.phase = "start", !.pc = "scan", !.exec = 0, !.rep = 0, !.err = TRUE]
                                /\ UNCHANGED <<lastRet, enabledDep>>
                           ELSE Return(FALSE) /\ UNCHANGED enabledDep
                      ELSE NextPhase
                   /\ UNCHANGED <<status, cb, prepCalls, stopCalls>>
        /\ UNCHANGED <<deps, enabled, reports, locked, shutdown, fails, ops, startsOk, dirty>>

InFlight == {m \in Modules : cb[m] # None} # {} \/ reports # {}

Receive(m, ok) ==
    /\ mgr.op # "idle" /\ mgr.pc = "wait" /\ <<m, ok>> \in reports
    /\ reports' = reports \ {<<m, ok>>}
    /\ IF ok \/ mgr.phase = "stop"
       THEN /\ mgr' = [mgr EXCEPT !.pc = "scan", !.rep = @ + 1, !.err = @ \/ ~ok]
            /\ UNCHANGED lastRet
       ELSE \* prep/start error aborts the pass
            IF Fixed /\ mgr.rep + 1 < mgr.exec
            THEN /\ mgr' = [mgr EXCEPT !.pc = "drain", !.rep = @ + 1, !.err = TRUE]
                 /\ UNCHANGED lastRet
            ELSE Return(FALSE)
    /\ UNCHANGED <<deps, status, enabled, enabledDep, cb, locked, shutdown, fails, ops, prepCalls, startsOk, stopCalls, dirty>>

Drain(m, ok) ==
    /\ mgr.op # "idle" /\ mgr.pc = "drain" /\ <<m, ok>> \in reports
    /\ reports' = reports \ {<<m, ok>>}
    /\ IF mgr.rep + 1 < mgr.exec
       THEN mgr' = [mgr EXCEPT !.rep = @ + 1] /\ UNCHANGED lastRet
       ELSE Return(FALSE)
    /\ UNCHANGED <<deps, status, enabled, enabledDep, cb, locked, shutdown, fails, ops, prepCalls, startsOk, stopCalls, dirty>>

\* ---- environment: a lifecycle callback returns (Module.prep/start/stopAllTasks) ----
Finish(m, ok) ==
    /\ cb[m] # None
    /\ (~ok) => fails < MaxFail
    /\ fails' = IF ok THEN fails ELSE fails + 1
    /\ cb' = [cb EXCEPT ![m] = None]
    /\ reports' = reports \cup {<<m, ok>>}
    /\ status' = [status EXCEPT ![m] =
          CASE cb[m] = "prep"  -> IF ok THEN "offline" ELSE "preparing"
            [] cb[m] = "start" -> IF ok THEN "online" ELSE (IF Fixed THEN "offline" ELSE "starting")
            [] cb[m] = "stop"  -> "offline"]
    /\ startsOk' = [startsOk EXCEPT ![m] = IF cb[m] = "start" /\ ok THEN @ + 1 ELSE @]
    /\ UNCHANGED <<deps, enabled, enabledDep, mgr, locked, shutdown, ops, prepCalls, stopCalls, lastRet, dirty>>

Next == \/ CallStart \/ CallManage \/ CallShutdown \/ Scan
        \/ \E m \in Modules : Toggle(m)
        \/ \E m \in Modules, ok \in BOOLEAN : Receive(m, ok) \/ Drain(m, ok) \/ Finish(m, ok)

Spec == Init /\ [][Next]_vars

\* ---------------- properties (C01) ----------------
StartOrder == [][\A m \in Modules : (cb'[m] = "start" /\ cb[m] # "start") => \A d \in deps[m] : status[d] = "online"]_vars
StopOrder  == [][\A m \in Modules : (cb'[m] = "stop" /\ cb[m] # "stop") => \A r \in RevDeps(m) : Rank(status[r]) <= 2]_vars
PrepOrder  == [][\A m \in Modules : (cb'[m] = "prep" /\ cb[m] # "prep") => \A d \in deps[m] : Rank(status[d]) >= 2]_vars
PrepOnce   == \A m \in Modules : prepCalls[m] <= 1
NoStartBeforeAllPrepped == \A m \in Modules : cb[m] = "start" => \A x \in Modules : Rank(status[x]) >= 2

WantedSet == IF Mgmt THEN Closure({x \in Modules : enabled[x]}) ELSE Modules
AfterOK == (mgr.op = "idle" /\ lastRet.op \in {"start", "manage"} /\ lastRet.ok /\ ~shutdown /\ ~dirty)
              => {m \in Modules : status[m] = "online"} = WantedSet
AfterShutdown == (mgr.op = "idle" /\ lastRet.op = "shutdown")
              => \A m \in Modules : /\ Rank(status[m]) <= 2
                                    /\ stopCalls[m] = startsOk[m]
                                    /\ cb[m] \notin {"start", "stop"}
====
