---- MODULE Updater ----
\* updater.ResourceRegistry / Resource for ONE resource (property C19): which version is selected, what
\* Blacklist may do and what a purge must leave behind.
\*
\* Versions are symbolic ids 1..6 with the order of the ids = semantic-version order (the driver maps
\* them to the strings of VerStr):
\*     1 = 0.0.0 (dev version)   2 = 1.0.0   3 = 1.1.0   4 = 1.2.0-beta   5 = 2.0.0-rc   6 = 2.0.0
\* 0 stands for "no version".  The state is a record `st`:
\*     L      listed versions (entries of Resource.Versions)
\*     av     entries with Available          cur   entries with CurrentRelease
\*     pre    entries with PreRelease         bl    entries with Blacklisted
\*     files  versions whose file exists in the storage directory
\*     sel    Resource.SelectedVersion        act   Resource.ActiveVersion
\*     online, dev, usepre   registry flags   idx   index the resource was last defined in:
\*                                                  "none" | "auto" (AutoDownload) | "manual"
\* `Step(st, o)` is the SET of allowed outcomes [res, st] of one call; a purge is specified by
\* post-conditions only (`PurgeAllowed`).  The same definitions generate histories (UpdaterGen) and judge
\* what the Go code did (UpdaterTrace).
EXTENDS Integers, Sequences, FiniteSets, TLC

AllV == 1..6
DevV == 1
PreNum == {4, 5}            \* pre-release by version number
NoV == 0
VerStr == <<"0.0.0", "1.0.0", "1.1.0", "1.2.0-beta", "2.0.0-rc", "2.0.0">>
Identifier == "pkg/sub.d/tool.tar.gz"
\* documented file-name format: the version goes behind the first dot-free part of the file name
FileName == <<"pkg/sub.d/tool_v0-0-0.tar.gz", "pkg/sub.d/tool_v1-0-0.tar.gz", "pkg/sub.d/tool_v1-1-0.tar.gz",
              "pkg/sub.d/tool_v1-2-0-beta.tar.gz", "pkg/sub.d/tool_v2-0-0-rc.tar.gz", "pkg/sub.d/tool_v2-0-0.tar.gz">>

Max(S) == CHOOSE x \in S : \A y \in S : y <= x
Min(S) == CHOOSE x \in S : \A y \in S : x <= y
MinOf(a, b) == IF a < b THEN a ELSE b
Range(s) == {s[i] : i \in DOMAIN s}

Empty(on, dv, up) ==
    [L |-> {}, av |-> {}, cur |-> {}, pre |-> {}, bl |-> {}, files |-> {}, sel |-> NoV, act |-> NoV,
     online |-> on, dev |-> dv, usepre |-> up, idx |-> "none"]

\* ------------------------------------------------------------------ selection
\* not blacklisted and either here or allowed to be downloaded on request
Selectable(s, v) == /\ v \in s.L /\ v \notin s.bl
                    /\ (v \in s.av \/ (s.online /\ s.idx = "auto"))

\* The documented order, as a cascade.
Prescribed(s) ==
    IF s.L = {} THEN NoV
    ELSE IF s.dev /\ DevV \in s.L /\ DevV \in s.av THEN DevV                         \* 1 dev version in dev mode
    ELSE IF \E v \in s.cur : Selectable(s, v) THEN Max({v \in s.cur : Selectable(s, v)})   \* 2 current release
    ELSE IF s.usepre /\ \E v \in s.L : Selectable(s, v) THEN Max({v \in s.L : Selectable(s, v)})  \* 3 newest
    ELSE IF \E v \in s.L \ s.pre : Selectable(s, v) THEN Max({v \in s.L \ s.pre : Selectable(s, v)}) \* 4 stable
    ELSE Max(s.L)                                                                    \* 5 last resort

\* The same order, said differently: every version gets the best tier it qualifies for, the winner is the
\* newest version of the best tier.  TLC checks that both formulations agree (UpdaterGen!SelectionLaws).
Tier(s, v) ==
    IF s.dev /\ v = DevV /\ v \in s.av THEN 1
    ELSE IF v \in s.cur /\ Selectable(s, v) THEN 2
    ELSE IF s.usepre /\ Selectable(s, v) THEN 3
    ELSE IF v \notin s.pre /\ Selectable(s, v) THEN 4
    ELSE 5
PrescribedByTier(s) ==
    IF s.L = {} THEN NoV
    ELSE LET best == Min({Tier(s, v) : v \in s.L})
         IN Max({v \in s.L : Tier(s, v) = best})

\* ------------------------------------------------------------------ uniform record shapes
Op(name, v, avail, cur, pre, idx, flag, keep) ==
    [op |-> name, v |-> v, avail |-> avail, cur |-> cur, pre |-> pre, idx |-> idx, flag |-> flag, keep |-> keep]
Res(err, v, path) == [err |-> err, v |-> v, path |-> path, panic |-> ""]
Out(r, s) == [res |-> r, st |-> s]
Ok == Res("", NoV, "")
OkFile(v) == Res("", v, FileName[v])

\* ------------------------------------------------------------------ purge: post-conditions only
NewestStable(s) == IF s.L \ s.pre = {} THEN NoV ELSE Max(s.L \ s.pre)
Needed(s) == {s.sel, s.act, NewestStable(s)} \ {NoV}

\* names of the requirements that the state t violates as the state after Purge(keep) in s
PurgeViolations(s, keep, t) ==
    (IF /\ t.sel = s.sel /\ t.act = s.act /\ t.online = s.online /\ t.dev = s.dev /\ t.usepre = s.usepre
        /\ t.idx = s.idx
     THEN {} ELSE {"selection-or-flags-changed"})
    \cup (IF t.L \subseteq s.L /\ t.files \subseteq s.files THEN {} ELSE {"versions-or-files-appeared"})
    \cup (IF /\ t.cur = s.cur \cap t.L /\ t.pre = s.pre \cap t.L /\ t.bl = s.bl \cap t.L
             /\ t.av \subseteq s.av \cap t.L
             /\ \A v \in (s.av \cap t.L) \ t.av : v \notin t.files      \* Available may be cleared with the file
          THEN {} ELSE {"flags-of-kept-entries-changed"})
    \cup (IF ({s.sel, s.act} \cap s.L) \subseteq t.L THEN {} ELSE {"entry-of-needed-version-dropped"})
    \cup (IF s.sel \in s.files /\ s.sel \notin t.files THEN {"file-of-selected-version-removed"} ELSE {})
    \cup (IF s.act \in s.files /\ s.act \notin t.files THEN {"file-of-active-version-removed"} ELSE {})
    \cup (IF NewestStable(s) \in s.files /\ NewestStable(s) \notin t.files
          THEN {"file-of-newest-stable-version-removed"} ELSE {})
    \cup (IF Cardinality(t.files \ Needed(s)) >= MinOf(keep, Cardinality(s.files \ Needed(s)))
          THEN {} ELSE {"fewer-further-versions-kept-than-requested"})
    \cup (IF t.av \subseteq t.files THEN {} ELSE {"listed-available-without-file"})

PurgeAllowed(s, keep, t) == PurgeViolations(s, keep, t) = {}

\* every allowed state after a purge (small version sets only: 4^|L| candidates); the Available flag of a
\* kept entry is determined by the post-conditions: it stays exactly when the file stays
PurgeOutcomes(s, keep) ==
    { t \in { [s EXCEPT !.L = nl, !.files = nf, !.av = s.av \cap nl \cap nf, !.cur = s.cur \cap nl,
                        !.pre = s.pre \cap nl, !.bl = s.bl \cap nl]
              : nl \in SUBSET s.L, nf \in SUBSET s.files }
      : PurgeAllowed(s, keep, t) }

\* the intended algorithm (Resource.Purge): versions newest first; everything up to the oldest needed version
\* stays, then max(keep, 2) further versions that are on disk, the rest goes (file and entry).  Paused while
\* anything is blacklisted, and nothing is purged when there is no stable version.
PurgeRef(s, keep) ==
    LET k == IF keep < 2 THEN 2 ELSE keep
        need == Needed(s) \cap s.L
        older == {v \in s.L : v < Min(need)}
        onDisk == older \cap s.av
        kept == {v \in onDisk : Cardinality({w \in onDisk : w > v}) < k}
        gone == IF Cardinality(onDisk) <= k THEN {} ELSE {v \in older : v < Min(kept)}
    IN IF s.bl # {} \/ NewestStable(s) = NoV \/ (s.act # NoV /\ s.act \notin s.L) \/ (s.sel # NoV /\ s.sel \notin s.L)
       THEN s
       ELSE [s EXCEPT !.L = s.L \ gone, !.files = s.files \ (gone \cap s.av), !.av = s.av \ gone,
                      !.cur = s.cur \ gone, !.pre = s.pre \ gone, !.bl = s.bl \ gone]

\* ------------------------------------------------------------------ the reference semantics
NonBlacklisted(s) == s.L \ s.bl
Valid(s) == (s.L \ {DevV}) \ s.bl           \* what Blacklist counts: dev versions are ignored

Step(s, o) ==
  CASE o.op = "Add" ->      \* registry.AddResource(identifier, version, index, available, current, pre-release)
          {Out(Ok, [s EXCEPT !.L = @ \cup {o.v},
                             !.av = IF o.avail THEN @ \cup {o.v} ELSE @,
                             !.files = IF o.avail THEN @ \cup {o.v} ELSE @,    \* the driver puts the file there
                             !.cur = IF o.cur THEN {o.v} ELSE @,
                             !.pre = IF o.pre \/ o.v \in PreNum THEN @ \cup {o.v} ELSE @,
                             !.idx = o.idx])}
    [] o.op = "Scan" ->     \* registry.ScanStorage(""): every versioned file becomes an available version
          {Out(Ok, [s EXCEPT !.L = @ \cup s.files, !.av = @ \cup s.files,
                             !.pre = @ \cup (s.files \cap PreNum),
                             !.idx = IF s.files = {} THEN @ ELSE "none"])}
    [] o.op = "SetOnline" -> {Out(Ok, [s EXCEPT !.online = o.flag])}
    [] o.op = "SetDev"    -> {Out(Ok, [s EXCEPT !.dev = o.flag])}
    [] o.op = "SetPre"    -> {Out(Ok, [s EXCEPT !.usepre = o.flag])}
    [] o.op = "Select"    -> {Out(Ok, [s EXCEPT !.sel = Prescribed(s)])}      \* registry.SelectVersions()
    [] o.op = "GetSelected" -> {Out(Res("", s.sel, ""), s)}                   \* registry.GetSelectedVersions()
    [] o.op = "GetFile" ->  \* registry.GetFile(identifier): selects when nothing is selected, marks active
          IF s.L = {} THEN {Out(Res("notfound", NoV, ""), s)}
          ELSE LET v == IF s.sel # NoV THEN s.sel ELSE Prescribed(s)
                   t == [s EXCEPT !.sel = v]
               IN IF v \in s.av THEN {Out(OkFile(v), [t EXCEPT !.act = v])}
                  ELSE IF ~s.online THEN {Out(Res("notlocal", NoV, ""), t)}
                  ELSE \* download on request; the property says nothing about its success or the Available flag
                       {Out(Res("fetch", NoV, ""), t),
                        Out(OkFile(v), [t EXCEPT !.act = v, !.files = @ \cup {v}]),
                        Out(OkFile(v), [t EXCEPT !.act = v, !.files = @ \cup {v}, !.av = @ \cup {v}])}
    [] o.op = "Blacklist" ->
          IF s.L = {} THEN {Out(Res("nores", NoV, ""), s)}
          ELSE IF o.v \notin s.L THEN {Out(Res("nolisted", NoV, ""), s)}
          ELSE LET t == [s EXCEPT !.bl = @ \cup {o.v}]
                   accept == Out(Ok, [t EXCEPT !.sel = Prescribed(t)])
                   refuse == Out(Res("refused", NoV, ""), s)
               IN IF Valid(s) = {o.v} \/ NonBlacklisted(s) = {o.v} THEN {refuse}   \* the last one stays
                  ELSE IF Cardinality(Valid(s)) >= 2 THEN {accept}
                  ELSE {accept, refuse}     \* nothing valid left to lose: the property is silent
    [] o.op = "Purge" -> {Out(Ok, t) : t \in PurgeOutcomes(s, o.keep)}

\* ------------------------------------------------------------------ argument domains
Idxs == {"none", "auto", "manual"}
Keeps == {0, 1, 2, 3}
NoArg(name) == Op(name, NoV, FALSE, FALSE, FALSE, "none", FALSE, 0)
OpsOf(f, Vs) ==
    CASE f = "add"       -> {Op("Add", v, a, c, p, i, FALSE, 0) : v \in Vs, a \in BOOLEAN, c \in BOOLEAN, p \in BOOLEAN, i \in Idxs}
      [] f = "addfile"   -> {Op("Add", v, TRUE, c, FALSE, i, FALSE, 0) : v \in Vs, c \in BOOLEAN, i \in Idxs}
      [] f = "flag"      -> {Op(n, NoV, FALSE, FALSE, FALSE, "none", b, 0) : n \in {"SetOnline", "SetDev", "SetPre"}, b \in BOOLEAN}
      [] f = "select"    -> {NoArg("Select")}
      [] f = "getfile"   -> {NoArg("GetFile")}
      [] f = "observe"   -> {NoArg("GetSelected"), NoArg("Scan")}
      [] f = "blacklist" -> {Op("Blacklist", v, FALSE, FALSE, FALSE, "none", FALSE, 0) : v \in Vs}
      [] f = "purge"     -> {Op("Purge", NoV, FALSE, FALSE, FALSE, "none", FALSE, k) : k \in Keeps}
Families == {"add", "addfile", "flag", "select", "getfile", "observe", "blacklist", "purge"}
Ops(Vs) == UNION {OpsOf(f, Vs) : f \in Families}

\* ------------------------------------------------------------------ laws of the model (checked by TLC)
WellFormed(s) ==
    /\ s.av \subseteq s.L /\ s.cur \subseteq s.L /\ s.pre \subseteq s.L /\ s.bl \subseteq s.L
    /\ Cardinality(s.cur) <= 1
    /\ s.sel \in s.L \cup {NoV} /\ s.act \in s.L \cup {NoV}
    /\ s.av \subseteq s.files                      \* listed as available => the file exists
    /\ s.act # NoV => s.act \in s.files
    /\ s.L \cap PreNum \subseteq s.pre

SelectionLaws(s) ==
    /\ Prescribed(s) = PrescribedByTier(s)
    /\ s.L # {} => Prescribed(s) \in s.L
    \* outside dev mode a blacklisted version is selected only as the last resort: nothing else qualifies
    /\ LET p == Prescribed(s) IN
         (p \in s.bl /\ ~(s.dev /\ p = DevV /\ p \in s.av)) =>
            /\ p = Max(s.L)
            /\ ~\E v \in s.cur : Selectable(s, v)
            /\ s.usepre => ~\E v \in s.L : Selectable(s, v)
            /\ ~\E v \in s.L \ s.pre : Selectable(s, v)
    \* a selectable version is never passed over for an unselectable one
    /\ LET p == Prescribed(s) IN
         (p # NoV /\ ~Selectable(s, p) /\ ~(s.dev /\ p = DevV /\ p \in s.av)) =>
            ~\E v \in s.L : Selectable(s, v) /\ (s.usepre \/ v \notin s.pre \/ v \in s.cur)

BlacklistLaws(s, Vs) == \A v \in Vs : \A x \in Step(s, Op("Blacklist", v, FALSE, FALSE, FALSE, "none", FALSE, 0)) :
    /\ (Valid(s) # {} => Valid(x.st) # {})                        \* never the last valid one
    /\ (NonBlacklisted(s) # {} => NonBlacklisted(x.st) # {})
    /\ (x.res.err = "" => x.st.sel = Prescribed(x.st) /\ v \in x.st.bl)
    /\ (x.res.err # "" => x.st = s)

PurgeLaws(s) == \A k \in Keeps :
    /\ PurgeAllowed(s, k, s)                                        \* purging nothing is always allowed
    /\ PurgeAllowed(s, k, PurgeRef(s, k))                           \* the intended algorithm meets the post-conditions
    /\ Needed(s) \cap s.files \subseteq PurgeRef(s, k).files
\* (every allowed outcome is a successor state in UpdaterGen, so WellFormed is checked on all of them)
====
