---- MODULE RngTrace ----
\* Validates recorded calls of package rng against the Rng model (X14). Stateless: one event per call.
\*  {"e":"call","cls":fn,"c":{fn,phase,n,max},"r":{ok,len,num}}     {"e":"blocks","cls":"w<k>","bs":[hex, ...]}
EXTENDS Rng, Json, TLC

Trace == ndJsonDeserialize("trace.ndjson")
VARIABLE l

Good(ev) ==
    /\ "panic" \notin DOMAIN ev
    /\ CASE ev.e = "call"   -> CallOK(ev.c, ev.r)
         [] ev.e = "blocks" -> BlocksOK(ev.bs)
         [] OTHER -> FALSE

Bad == {i \in 1..Len(Trace) : ~Good(Trace[i])}
Init == l = 0 /\ PrintT(<<"@@", ToJson([bad |-> Bad, n |-> Len(Trace)])>>)
Next == l < 1 /\ l' = 1
Spec == Init /\ [][Next]_l
Accepted == TLCGet("level") >= 0 /\ Bad = {}
====
