---- MODULE LifecycleAbs ----
\* Property-level state machine of the module lifecycle (C01): it allows EVERY order of callbacks that
\* is compatible with the dependency graph and nothing else.  Used as the monitor for traces recorded
\* from the real module manager (LifecycleTrace) — only a rejection here is a violation.
EXTENDS Integers, Sequences, FiniteSets, TLC

VARIABLES n,         \* number of modules
          deps,      \* [1..n -> SUBSET 1..n]
          mgmt,      \* module management enabled
          enabled,   \* [1..n -> BOOLEAN]
          ph,        \* [1..n -> phase]
          startsOk, stopCalls,
          inCall,    \* API call in progress: "none" | "start" | "manage" | "shutdown"
          anyStart,  \* some start routine has begun
          dirty,     \* Enable/Disable happened while a call was in progress (wanted set ambiguous)
          panicked,  \* a lifecycle routine begun by the call in progress panicked (C06)
          callNo,    \* number of API calls so far
          cbCall     \* [1..n -> number of the call during which the module's running routine began]
avars == <<n, deps, mgmt, enabled, ph, startsOk, stopCalls, inCall, anyStart, dirty, panicked, callNo, cbCall>>

Mods == 1..n
RevDeps(m) == {r \in Mods : m \in deps[r]}
RECURSIVE Closure(_)
Closure(S) == LET S2 == S \cup UNION {deps[m] : m \in S} IN IF S2 = S THEN S ELSE Closure(S2)
Wanted == IF mgmt THEN Closure({m \in Mods : enabled[m]}) ELSE Mods
Online == {m \in Mods : ph[m] = "online"}
Prepped(m) == ph[m] \in {"offline", "starting", "online", "stopping", "expired"}

AbsInit == /\ n = 0 /\ deps = <<>> /\ mgmt = FALSE /\ enabled = <<>> /\ ph = <<>>
           /\ startsOk = <<>> /\ stopCalls = <<>> /\ inCall = "none" /\ anyStart = FALSE /\ dirty = FALSE /\ panicked = FALSE
           /\ callNo = 0 /\ cbCall = <<>>

Reg(k, d, mg, en) ==
    /\ n' = k /\ deps' = d /\ mgmt' = mg /\ enabled' = en
    /\ ph' = [m \in 1..k |-> "dead"]
    /\ startsOk' = [m \in 1..k |-> 0] /\ stopCalls' = [m \in 1..k |-> 0]
    /\ inCall' = "none" /\ anyStart' = FALSE /\ dirty' = FALSE /\ panicked' = FALSE
    /\ callNo' = 0 /\ cbCall' = [m \in 1..k |-> 0]

Call(op) == /\ inCall = "none" /\ inCall' = op /\ dirty' = FALSE /\ panicked' = FALSE
            /\ callNo' = callNo + 1
            /\ UNCHANGED <<n, deps, mgmt, enabled, ph, startsOk, stopCalls, anyStart, cbCall>>

\* online: the Online() flags the harness read right after the call returned
Ret(op, ok, online) ==
    /\ inCall = op /\ inCall' = "none"
    /\ panicked => ~ok       \* a panicking lifecycle routine makes Start / ManageModules / Shutdown return an error (C06)
    /\ (op \in {"start", "manage"} /\ ok) =>
          /\ \A m \in Mods : ph[m] \notin {"prepping", "starting", "stopping"}
          /\ dirty \/ Online = Wanted
          /\ \A m \in Mods : online[m] = (ph[m] = "online")
    /\ (op = "shutdown") =>
          /\ \A m \in Mods : ph[m] \notin {"starting", "online", "stopping"}
          /\ \A m \in Mods : stopCalls[m] = startsOk[m]
          /\ \A m \in Mods : ~online[m]
    /\ UNCHANGED <<n, deps, mgmt, enabled, ph, startsOk, stopCalls, anyStart, dirty, panicked, callNo, cbCall>>

Toggle(m, on) == /\ enabled' = [enabled EXCEPT ![m] = on]
                 /\ dirty' = (dirty \/ inCall # "none")
                 /\ UNCHANGED <<n, deps, mgmt, ph, startsOk, stopCalls, inCall, anyStart, panicked, callNo, cbCall>>

Begin(m, c) ==
    /\ CASE c = "prep"  -> /\ ph[m] = "dead"                       \* once
                           /\ ~anyStart                            \* before any start
                           /\ \A d \in deps[m] : Prepped(d)        \* after the prep of its dependencies
                           /\ ph' = [ph EXCEPT ![m] = "prepping"]
                           /\ UNCHANGED <<stopCalls, anyStart>>
         [] c = "start" -> /\ ph[m] = "offline"
                           /\ \A d \in deps[m] : ph[d] = "online"  \* every dependency finished starting successfully
                           /\ ph' = [ph EXCEPT ![m] = "starting"]
                           /\ anyStart' = TRUE
                           /\ UNCHANGED stopCalls
         [] c = "stop"  -> /\ ph[m] = "online"                     \* one stop per successful start
                           /\ \A r \in RevDeps(m) : ph[r] \notin {"starting", "online", "stopping"}
                           /\ ph' = [ph EXCEPT ![m] = "stopping"]
                           /\ stopCalls' = [stopCalls EXCEPT ![m] = @ + 1]
                           /\ UNCHANGED anyStart
    /\ cbCall' = [cbCall EXCEPT ![m] = callNo]
    /\ UNCHANGED <<n, deps, mgmt, enabled, startsOk, inCall, dirty, panicked, callNo>>

\* the start routine of m has been running for longer than the start timeout: the manager gives up on it; this run of
\* the routine is not a successful one, whatever it returns later
Expire(m, c) ==
    /\ c = "start" /\ ph[m] = "starting" /\ ph' = [ph EXCEPT ![m] = "expired"]
    /\ UNCHANGED <<n, deps, mgmt, enabled, startsOk, stopCalls, inCall, anyStart, dirty, panicked, callNo, cbCall>>

End(m, c, ok, pan) ==
    /\ CASE c = "prep"  -> /\ ph[m] = "prepping"
                           /\ ph' = [ph EXCEPT ![m] = IF ok THEN "offline" ELSE "prepfailed"]
                           /\ UNCHANGED startsOk
         [] c = "start" -> /\ ph[m] \in {"starting", "expired"}
                           /\ ph' = [ph EXCEPT ![m] = IF ok /\ ph[m] = "starting" THEN "online" ELSE "offline"]
                           /\ startsOk' = [startsOk EXCEPT ![m] = IF ok /\ ph[m] = "starting" THEN @ + 1 ELSE @]
         [] c = "stop"  -> /\ ph[m] = "stopping"
                           /\ ph' = [ph EXCEPT ![m] = "offline"]
                           /\ UNCHANGED startsOk
    /\ panicked' = (panicked \/ (pan /\ inCall # "none" /\ cbCall[m] = callNo))
    /\ UNCHANGED <<n, deps, mgmt, enabled, stopCalls, inCall, anyStart, dirty, callNo, cbCall>>
====
