SPECIFICATION Spec
CONSTANTS
  MaxLen = 14
  MaxQ = 40
  Emit = TRUE
CHECK_DEADLOCK FALSE
