---- MODULE ConfigFlag ----
\* The validity-flag hand-over of portbase/config between setters and getter closures (property C04,
\* concurrent part): config/set.go setConfigOption + signalChanges, config/get-safe.go getter closures
\* (one option).  Implementation-shaped: one action per shared-memory step.
\*
\*   setter:  lock option; write value; unlock  --  signalChanges: old flag := invalid, install new flag  --  return
\*   getter:  lock closure mutex; check cached flag; if invalid: fetch current flag, fetch value; return cached value
\*
\* Fresh: a getter call that begins after a setter returned returns that setter's value or a later one.
\* FlagFirst = FALSE is the mutant order (value before flag) that TLC must refute.
EXTENDS Integers, FiniteSets, Sequences, TLC
CONSTANTS NS,             \* number of setters (each sets once)
          NC, Share,      \* NC callers; callers 1..Share share closure 1 (one mutex), every other caller has its own
          FlagFirst       \* the getter re-fetches the flag before the value (TRUE in the code)

Setters == 1..NS
Callers == 1..NC
CallerClosure == [g \in Callers |-> IF g <= Share THEN 1 ELSE g - Share + 1]
Closures == {CallerClosure[g] : g \in Callers}
C(g) == CallerClosure[g]

VARIABLES value,      \* the option's active value (version number = order of the writes)
          curFlag,    \* id of the current validity flag object
          flagValid,  \* [flag id -> BOOLEAN]
          spc, sval,  \* setter pc / the version it wrote
          committed,  \* highest version whose setter has returned
          cflag, cval, cmutex, \* per closure: cached flag id, cached value, mutex holder (0 = free)
          gpc, gstart, gret,   \* per caller: pc, `committed` when the call began, returned value
          stale       \* ghost: some call returned a value older than what was committed when it began
vars == <<value, curFlag, flagValid, spc, sval, committed, cflag, cval, cmutex, gpc, gstart, gret, stale>>

MaxFlag == NS + 1
Init == /\ value = 0 /\ curFlag = 1 /\ flagValid = [f \in 1..MaxFlag |-> TRUE]
        /\ spc = [s \in Setters |-> "idle"] /\ sval = [s \in Setters |-> 0] /\ committed = 0
        /\ cflag = [c \in Closures |-> 1] /\ cval = [c \in Closures |-> 0] /\ cmutex = [c \in Closures |-> 0]
        /\ gpc = [g \in Callers |-> "idle"] /\ gstart = [g \in Callers |-> 0] /\ gret = [g \in Callers |-> 0]
        /\ stale = FALSE

SWrite(s) == /\ spc[s] = "idle" /\ value' = value + 1 /\ sval' = [sval EXCEPT ![s] = value + 1]
             /\ spc' = [spc EXCEPT ![s] = "signal"]
             /\ UNCHANGED <<curFlag, flagValid, committed, cflag, cval, cmutex, gpc, gstart, gret, stale>>
SSignal(s) == /\ spc[s] = "signal"
              /\ flagValid' = [flagValid EXCEPT ![curFlag] = FALSE]
              /\ curFlag' = curFlag + 1
              /\ spc' = [spc EXCEPT ![s] = "ret"]
              /\ UNCHANGED <<value, sval, committed, cflag, cval, cmutex, gpc, gstart, gret, stale>>
SReturn(s) == /\ spc[s] = "ret" /\ spc' = [spc EXCEPT ![s] = "done"]
              /\ committed' = IF sval[s] > committed THEN sval[s] ELSE committed
              /\ UNCHANGED <<value, curFlag, flagValid, sval, cflag, cval, cmutex, gpc, gstart, gret, stale>>

GCall(g) == /\ gpc[g] = "idle" /\ cmutex[C(g)] = 0
            /\ cmutex' = [cmutex EXCEPT ![C(g)] = g]
            /\ gstart' = [gstart EXCEPT ![g] = committed]
            /\ gpc' = [gpc EXCEPT ![g] = "check"]
            /\ UNCHANGED <<value, curFlag, flagValid, spc, sval, committed, cflag, cval, gret, stale>>
GCheck(g) == /\ gpc[g] = "check"
             /\ gpc' = [gpc EXCEPT ![g] = IF flagValid[cflag[C(g)]] THEN "ret" ELSE (IF FlagFirst THEN "flag" ELSE "val")]
             /\ UNCHANGED <<value, curFlag, flagValid, spc, sval, committed, cflag, cval, cmutex, gstart, gret, stale>>
GFlag(g) == /\ gpc[g] = "flag" /\ cflag' = [cflag EXCEPT ![C(g)] = curFlag]
            /\ gpc' = [gpc EXCEPT ![g] = IF FlagFirst THEN "val" ELSE "ret"]
            /\ UNCHANGED <<value, curFlag, flagValid, spc, sval, committed, cval, cmutex, gstart, gret, stale>>
GVal(g) == /\ gpc[g] = "val" /\ cval' = [cval EXCEPT ![C(g)] = value]
           /\ gpc' = [gpc EXCEPT ![g] = IF FlagFirst THEN "ret" ELSE "flag"]
           /\ UNCHANGED <<value, curFlag, flagValid, spc, sval, committed, cflag, cmutex, gstart, gret, stale>>
GRet(g) == /\ gpc[g] = "ret"
           /\ gret' = [gret EXCEPT ![g] = cval[C(g)]]
           /\ stale' = (stale \/ cval[C(g)] < gstart[g])
           /\ cmutex' = [cmutex EXCEPT ![C(g)] = 0]
           /\ gpc' = [gpc EXCEPT ![g] = "idle"]
           /\ UNCHANGED <<value, curFlag, flagValid, spc, sval, committed, cflag, cval, gstart>>

Next == \/ \E s \in Setters : SWrite(s) \/ SSignal(s) \/ SReturn(s)
        \/ \E g \in Callers : GCall(g) \/ GCheck(g) \/ GFlag(g) \/ GVal(g) \/ GRet(g)
Spec == Init /\ [][Next]_vars

TypeOK == /\ value \in 0..NS /\ curFlag \in 1..MaxFlag /\ committed \in 0..NS
          /\ \A c \in Closures : cflag[c] \in 1..MaxFlag /\ cval[c] \in 0..NS /\ cmutex[c] \in {0} \cup Callers
\* the property
Fresh == ~stale
\* why it holds: a closure whose cached flag is still valid holds the newest value, unless a setter is
\* between its write and its flag swap (then the cached flag is the current one and is about to be invalidated)
CachedFlagCovers == \A c \in Closures :
    (flagValid[cflag[c]] /\ cmutex[c] = 0 /\ cval[c] < value) => (cflag[c] = curFlag /\ \E s \in Setters : spc[s] = "signal")
====
