---- MODULE RecordFormatGen ----
\* Property C08: laws of the RecordFormat model (checked by TLC, BFS over all states) and the vectors
\* for the Go driver cmd/recfmt (the same state space, printed when Emit).
\*
\* A state is one test case:
\*   kind "valid"   a record and its canonical encoding                       (initial states)
\*   kind "typed"   a typed record of the harness schema (payload produced by the real code)
\*   kind "trunc"   a proper prefix of a canonical encoding                   (successor of "valid")
\*   kind "corrupt" a canonical encoding with one field replaced              (successor of "valid")
EXTENDS RecordFormat, Json, TLC

CONSTANTS Rots,       \* strides that tie the classes of modified/expires to the class of created
          Flags,      \* subset of 0..3: bit 0 = secret, bit 1 = cronjewel
          Formats,    \* data format identifiers
          NPay,       \* payloads 1..NPay of PayloadList
          NTyped,     \* number of typed records
          CutFormats, \* truncations/corruptions are derived from the records with these formats, ...
          CutPays,    \* ... these payload indices ...
          CutFlags,   \* ... and these flag combinations
          Emit        \* print every state as a driver directive

VARIABLES kind, rec, key, tv, bytes, cls
vars == <<kind, rec, key, tv, bytes, cls>>

\* ---------------------------------------------------------------- domains
\* int64 classes: 0, 1, -1, MinInt64, MaxInt64, a current Unix time
Cls == << Rep8(0),
          <<1, 0, 0, 0, 0, 0, 0, 0>>,
          Rep8(255),
          <<0, 0, 0, 0, 0, 0, 0, 128>>,
          <<255, 255, 255, 255, 255, 255, 255, 127>>,
          <<224, 214, 223, 104, 0, 0, 0, 0>> >>
NCls == Len(Cls)
At(seq, i) == seq[(i % Len(seq)) + 1]

MetaAt(c, r, d, fl) == [created |-> At(Cls, c), modified |-> At(Cls, c + r), expires |-> At(Cls, c + 2 * r + 1),
                        deleted |-> At(Cls, d), secret |-> (fl % 2 = 1), cronjewel |-> ((fl \div 2) % 2 = 1)]

PayloadList == << <<1, 35, 71, 0, 128, 255, 1>>,                 \* looks like a record header; starts with 0x01
                  <<>>,
                  <<123, 34, 97, 34, 58, 49, 125>>,               \* {"a":1}
                  <<0>>,
                  <<200, 1, 2>> >>
KeyList == << <<116, 58, 97>>,                \* t:a
              <<100, 98, 58, 120, 58, 121>>,  \* db:x:y
              <<110, 111, 99>>,               \* noc          (no separator)
              <<58, 108>>,                    \* :l           (empty database name)
              <<>>,
              <<100, 58>>,                    \* d:
              <<195, 164, 58, 195, 188, 47>> >>  \* non-ASCII

\* typed records of the harness schema: strings are UTF-8 byte sequences, integers 8-byte images
StrList == << <<>>, <<97>>, <<195, 169, 32, 120>>, <<34, 92, 10, 9>>, <<60, 62, 38>>, <<226, 128, 168>>, <<0, 127>> >>
SubAt(i) == [a |-> At(Cls, i), b |-> At(StrList, i + 2), c |-> At(PayloadList, i)]
TypedAt(i) == [s |-> At(StrList, i), n |-> At(Cls, i \div 7), u |-> At(Cls, i + 3), f |-> (i % 2 = 0),
               b |-> At(PayloadList, i \div 2),
               l |-> At(<< <<>>, <<At(StrList, i)>>, <<At(StrList, i + 1), <<>>, At(StrList, i + 4)>> >>, i \div 3),
               m |-> At(<< <<>>, << <<(<<107>>), At(Cls, i)>> >>,
                          << <<(<<>>), At(Cls, i + 1)>>, <<(<<107, 50>>), At(Cls, i + 2)>> >> >>, i \div 5),
               sub |-> SubAt(i),
               p |-> At(<< <<>>, <<SubAt(i + 1)>> >>, i \div 4)]
NoTyped == TypedAt(0)

\* ---------------------------------------------------------------- printing
Say(x) == IF Emit THEN PrintT(<<"@@", ToJson(x)>>) ELSE TRUE

\* ---------------------------------------------------------------- initial states: valid encodings, typed records
InitValid ==
    \E c \in 0..(NCls - 1), r \in Rots, d \in 0..(NCls - 1), fl \in Flags, f \in Formats, p \in 1..NPay :
        /\ kind = "valid"
        /\ rec = [meta |-> MetaAt(c, r, d, fl), format |-> f, data |-> PayloadList[p]]
        /\ key = At(KeyList, c + d + f + p)
        /\ tv = NoTyped
        /\ bytes = Encode(rec)
        /\ cls = "valid"
        /\ Say([fam |-> "rt", cls |-> cls, key |-> key, meta |-> rec.meta, format |-> rec.format, data |-> rec.data])

InitTyped ==
    \E i \in 1..NTyped :
        /\ kind = "typed"
        /\ rec = [meta |-> MetaAt(i, 1 + (i % 5), i \div 6, i \div 3), format |-> JSON, data |-> <<>>]
        /\ key = At(KeyList, i)
        /\ tv = TypedAt(i)
        /\ bytes = <<>>
        /\ cls = "typed"
        /\ Say([fam |-> "typed", cls |-> cls, key |-> key, meta |-> rec.meta, t |-> tv])

Init == InitValid \/ InitTyped

\* ---------------------------------------------------------------- derived byte strings
Selected == /\ kind = "valid"
            /\ rec.format \in CutFormats
            /\ \E p \in CutPays : rec.data = PayloadList[p]
            /\ FlagByte(rec.meta.secret) + 2 * FlagByte(rec.meta.cronjewel) \in CutFlags

Derive(c, b) == /\ kind' = IF c = "trunc" THEN "trunc" ELSE "corrupt"
                /\ cls' = c
                /\ bytes' = b
                /\ UNCHANGED <<rec, key, tv>>
                /\ Say([fam |-> "parse", cls |-> c, b |-> b])

Truncate == /\ Selected
            /\ \E k \in 0..(Len(bytes) - 1) : Derive("trunc", Take(bytes, k))

\* replace n bytes at position i
Repl(e, i, n, new) == Take(e, i - 1) \o new \o Drop(e, i - 1 + n)
RepN(v, k) == [i \in 1..k |-> v]

\* layout of a canonical encoding: 1 version | 2 meta length | 3 DSD id | 4..37 meta | 38.. format, payload
Corruptions(e, r) ==
       { [cls |-> "version", b |-> Repl(e, 1, 1, v)] :
            v \in { <<0>>, <<2>>, <<127>>, <<128, 1>>, <<129, 1>>, <<255>>, <<129>>, <<255, 255, 1>>, <<>> } }
  \cup { [cls |-> "version-nonshortest", b |-> Repl(e, 1, 1, v)] : v \in { <<129, 0>>, <<129, 128, 0>> } }
  \cup { [cls |-> "metalen-short", b |-> Repl(e, 2, 1, v)] : v \in { <<0>>, <<1>>, <<34>>, <<2>> } }
  \cup { [cls |-> "metalen-over", b |-> Repl(e, 2, 1, v)] :
            v \in { <<Len(e) - 1>>, <<127>>, <<128, 1>>, <<255, 255, 255, 255, 15>>, <<128, 128, 128, 128, 128, 64>>,
                    RepN(128, 8) \o <<64>>, RepN(255, 8) \o <<127>>, RepN(128, 9) \o <<1>>, RepN(255, 9) \o <<1>>,
                    RepN(255, 9) \o <<2>>, RepN(255, 10), RepN(128, 11) \o <<1>>, <<128>> } }
  \cup { [cls |-> "metalen-long", b |-> Repl(e, 2, 1, v)] : v \in { <<36>>, <<Len(e) - 2>>, <<163, 0>> } }
  \cup { [cls |-> "metalong", b |-> Repl(Repl(e, 2, 1, <<35 + Len(x)>>), 38, 0, x)] : x \in { <<9>>, <<1, 74, 1>> } }
  \cup { [cls |-> "metaid", b |-> Repl(e, 3, 1, v)] :
            v \in { <<0>>, <<1>>, <<67>>, <<70>>, <<72>>, <<74>>, <<76>>, <<77>>, <<89>>, <<90>>, <<127>>,
                    <<199, 1>>, <<199, 0>>, <<199>>, <<255>>, <<199, 2>> } }
  \cup { [cls |-> "flagbyte", b |-> Repl(e, i, 1, <<v>>)] : i \in {36, 37}, v \in {2, 128, 255} }
  \cup { [cls |-> "metabyte", b |-> Repl(e, 3 + k, 1, <<(e[3 + k] + 128) % 256>>)] : k \in {1, 8, 9, 16, 24, 25, 32} }
  \cup { [cls |-> "deleted", b |-> Repl(e, 28, 8, At(Cls, k))] : k \in 0..(NCls - 1) }
  \cup (IF IsDeleted(r.meta) THEN { [cls |-> "deleted-tail", b |-> e \o x] : x \in { <<74>>, <<1, 2, 3>>, <<128>> } }
        ELSE { [cls |-> "format", b |-> Repl(e, 38, Len(PackByte(r.format)), v)] :
                 v \in { <<>>, <<128>>, <<255, 2>>, <<128, 128, 1>>, <<(r.format % 128) + 128, 0>>,
                         <<r.format % 128>>, <<(r.format % 128) + 128, 1>>, <<(r.format % 128) + 128>> } })

Corrupt == /\ Selected
           /\ \E x \in Corruptions(bytes, rec) : Derive(x.cls, x.b)

Next == Truncate \/ Corrupt
Spec == Init /\ [][Next]_vars

\* ---------------------------------------------------------------- laws of the model
\* the reader is total and never hands out bytes that are not the tail of its input
Total == ParseSet(bytes) # {}
Inside == \A a \in ParseSet(bytes) : a.ok => \E k \in 0..Len(bytes) : a.data = Drop(bytes, k)

\* writer and reader are inverse, the canonical encoding has exactly one reading
RoundTrip == kind = "valid" =>
    /\ ParseSet(bytes) = {Canon(rec)}
    /\ Accepts(bytes, Obs(TRUE, rec.meta, rec.format, IF IsDeleted(rec.meta) THEN <<>> ELSE rec.data))
    /\ IsStorageFormOf(bytes, rec.meta, rec.format, rec.data, FALSE)
    /\ Len(bytes) = HeaderLen(rec) + (IF IsDeleted(rec.meta) THEN 0 ELSE Len(rec.data))
    /\ ~Accepts(bytes, Obs(FALSE, ZeroMeta, 0, <<>>))

\* a truncation inside the header is an error, a truncation of the payload is the record with less payload
TruncLaw == kind = "trunc" =>
    IF Len(bytes) < HeaderLen(rec) THEN ParseSet(bytes) = {ErrOut}
    ELSE ParseSet(bytes) = {Canon([rec EXCEPT !.data = Take(rec.data, Len(bytes) - HeaderLen(rec))])}

\* corruptions that must be detected
CorruptLaw == /\ cls \in {"version", "metalen-short", "metalen-over"} => ParseSet(bytes) = {ErrOut}
              /\ cls \in {"version-nonshortest", "metalong"} => ErrOut \in ParseSet(bytes)
              /\ cls = "metaid" => \A a \in ParseSet(bytes) : ~a.ok \/ a.mwild
              /\ cls = "flagbyte" => \A a \in ParseSet(bytes) : a.ok /\ ~a.mwild
              /\ cls = "deleted-tail" => \A a \in ParseSet(bytes) : a.ok /\ a.meta = rec.meta /\ a.fwild

\* keys: "name:key" splits at the first separator and joins back
KeyLaw == LET p == ParseKey(key) IN
          /\ IndexOf(p.name, Colon, 1) = 0
          /\ ParseKey(KeyOf(p)) = p
          /\ (IndexOf(key, Colon, 1) # 0 => KeyOf(p) = key)

====
