---- MODULE SubsysImpl ----
\* X05 - implementation-shaped model of modules/subsystems/registry.go on top of the parts of the module manager
\* it drives (one action per critical section), with the reference semantics spec/Subsys.tla as the oracle:
\* TLC explores every interleaving of
\*   - config change handlers (handleConfigChanges: debounce flag, sleep, SetEnabled per subsystem, ManageModules
\*     under the management lock: rebuild the dependency flags, stop unwanted modules, start wanted ones, a failing
\*     start routine ends the pass; then - in the repaired code - the refresh of all records),
\*   - module change notification workers (handleModuleUpdate: compare the ModuleStatus with the module, push on change),
\*   - the environment (config changes at any time; module failures and failing start routines in a quiet system)
\* and checks in every quiet state that the reference explains it (invariant QuietOK: states, flags, failures, records =
\* module states, a push for every record that changed since the last observation).
\* Fault variants (the code as pinned) that TLC must reject:
\*   KeyBug    a record is pushed before it has a key (the key is set by the first read only): the push reaches nobody
\*   StaleBug  no refresh after a config change was handled: enabling/disabling a module that is not running changes
\*             no record
EXTENDS Subsys

CONSTANTS ShapeNo,    \* which module graph / registration (below)
          MaxSet,     \* config changes made by the environment
          MaxFail,    \* module failures reported by the environment
          MaxSF,      \* changes of the set of failing start routines
          KeyBug, StaleBug

Sub(m, k, def) == [m |-> m, k |-> k, def |-> def]
Cfg == CASE ShapeNo = 1 -> [n |-> 3, deps |-> << {}, {}, {2} >>, regs |-> << Sub(1, 0, FALSE), Sub(3, 1, FALSE) >>]
                            \* core subsystem on base; a feature on m3 with the plain dependency m2
         [] ShapeNo = 2 -> [n |-> 4, deps |-> << {}, {}, {2}, {2} >>, regs |-> << Sub(3, 1, FALSE), Sub(4, 1, TRUE) >>]
                            \* two features sharing the dependency m2
         [] ShapeNo = 3 -> [n |-> 3, deps |-> << {}, {}, {2} >>, regs |-> << Sub(2, 1, FALSE), Sub(3, 1, FALSE) >>]
                            \* the module of one subsystem is a dependency of the other's

RECURSIVE Registered(_, _)
Registered(s, i) == IF i > Len(Cfg.regs) THEN s
                    ELSE Registered((CHOOSE x \in Step(s, Op("register", i, Cfg.regs[i].m, Cfg.regs[i].k, Cfg.regs[i].def, "", 0, 0)) : TRUE).st, i + 1)
Started == {x.st : x \in Step(Registered(New(Cfg.n, Cfg.deps), 1), Op("start", 0, 0, 0, FALSE, "", 0, 0))}

N == Cfg.n
H == MaxSet + 1          \* handler instances: the initial one and one per config change event
Free == [pc |-> "free", todo |-> {}, chg |-> FALSE, errp |-> FALSE, abort |-> FALSE]

VARIABLES ref,       \* reference state: as of the last observation, plus the steps of the environment since
          en, depf,  \* enabled / enabled-as-dependency flags of the modules
          status,    \* module status: 2 offline, 3 stopping, 4 starting, 5 online
          resolving, \* modules that have been stopped and whose failure is about to be resolved
          fl,        \* module failure
          rec,       \* the ModuleStatus kept for each module in its subsystem record
          keyset, pushed,
          evq, deb, hs, lock, nq,
          nset, nfailed, nsf
vars == <<ref, en, depf, status, resolving, fl, rec, keyset, pushed, evq, deb, hs, lock, nq, nset, nfailed, nsf>>
View == vars

Actual(m) == [m |-> m, en |-> (m \in en \cup depf), st |-> status[m], fs |-> fl[m].lvl, fid |-> fl[m].id, msg |-> fl[m].msg]
Parent(m) == IF m \in SubMods(ref) THEN CHOOSE i \in Regs(ref) : ref.subs[i].m = m ELSE ref.asg[m]

Init == /\ ref \in Started
        /\ en = {} /\ depf = {Base}
        /\ status = [m \in 1..N |-> IF m = Base THEN 5 ELSE 2]
        /\ resolving = {}
        /\ fl = [m \in 1..N |-> NoFail]
        /\ rec = [m \in 1..N |-> [m |-> m, en |-> (m = Base), st |-> IF m = Base THEN 5 ELSE 2, fs |-> 0, fid |-> 0, msg |-> 0]]
        /\ keyset = {} /\ pushed = {}
        /\ evq = 1 /\ deb = FALSE /\ hs = [h \in 1..H |-> Free] /\ lock = 0
        /\ nq = [m \in 1..N |-> 0]
        /\ nset = 0 /\ nfailed = 0 /\ nsf = 0

Notify(q, m) == [q EXCEPT ![m] = IF @ < 2 THEN @ + 1 ELSE @]
Push(P, i) == IF KeyBug /\ i \notin keyset THEN P ELSE P \cup {i}
KeyAfterPush(i) == IF KeyBug THEN keyset ELSE keyset \cup {i}

\* ------------------------------------------------------------------------------ handleModuleUpdate (one worker)
NotifyWorker(m) ==
    /\ nq[m] > 0
    /\ nq' = [nq EXCEPT ![m] = @ - 1]
    /\ LET i == Parent(m) IN
       IF i = 0 \/ rec[m] = Actual(m) THEN UNCHANGED <<rec, pushed, keyset>>
       ELSE /\ rec' = [rec EXCEPT ![m] = Actual(m)]
            /\ pushed' = Push(pushed, i)
            /\ keyset' = KeyAfterPush(i)
    /\ UNCHANGED <<ref, en, depf, status, resolving, fl, evq, deb, hs, lock, nset, nfailed, nsf>>

\* ------------------------------------------------------------------------------ handleConfigChanges
HBegin == /\ evq > 0
          /\ evq' = evq - 1
          /\ IF deb THEN UNCHANGED <<deb, hs>>                                   \* debounced: returns at once
             ELSE LET h == CHOOSE x \in 1..H : hs[x].pc = "free" /\ \A y \in 1..H : hs[y].pc = "free" => x <= y IN
                  /\ deb' = TRUE
                  /\ hs' = [hs EXCEPT ![h] = [Free EXCEPT !.pc = "sleep"]]
          /\ UNCHANGED <<ref, en, depf, status, resolving, fl, rec, keyset, pushed, lock, nq, nset, nfailed, nsf>>

HWake(h) == /\ hs[h].pc = "sleep"
            /\ deb' = FALSE
            /\ hs' = [hs EXCEPT ![h].pc = "loop", ![h].todo = Regs(ref)]
            /\ UNCHANGED <<ref, en, depf, status, resolving, fl, rec, keyset, pushed, evq, lock, nq, nset, nfailed, nsf>>

\* subsystem.module.SetEnabled(subsystem.toggleValue()) for one subsystem (map order: any)
HLoop(h) == /\ hs[h].pc = "loop"
            /\ \E i \in hs[h].todo :
                 LET m == ref.subs[i].m
                     v == Toggle(ref, i)
                     c == (m \in en) # v
                     rest == hs[h].todo \ {i}
                     chg == hs[h].chg \/ c
                 IN /\ en' = IF v THEN en \cup {m} ELSE en \ {m}
                    /\ hs' = [hs EXCEPT ![h].todo = rest, ![h].chg = chg,
                                        ![h].pc = IF rest # {} THEN "loop" ELSE IF chg THEN "lock" ELSE "free"]
            /\ UNCHANGED <<ref, depf, status, resolving, fl, rec, keyset, pushed, evq, deb, lock, nq, nset, nfailed, nsf>>

HLock(h) == /\ hs[h].pc = "lock" /\ lock = 0
            /\ lock' = h
            /\ hs' = [hs EXCEPT ![h].pc = "tree"]
            /\ UNCHANGED <<ref, en, depf, status, resolving, fl, rec, keyset, pushed, evq, deb, nq, nset, nfailed, nsf>>

HTree(h) == /\ hs[h].pc = "tree"
            /\ depf' = Clo(ref.deps, UNION {ref.deps[m] : m \in en} \cup {Base})
            /\ hs' = [hs EXCEPT ![h].pc = "stop"]
            /\ UNCHANGED <<ref, en, status, resolving, fl, rec, keyset, pushed, evq, deb, lock, nq, nset, nfailed, nsf>>


StopReady == {m \in 1..N : status[m] = 5 /\ m \notin en \cup depf /\ \A r \in RevDeps(ref, m) : status[r] <= 2}
StopBegin(h) == /\ hs[h].pc = "stop"
                /\ \E m \in StopReady : status' = [status EXCEPT ![m] = 3]
                /\ UNCHANGED <<ref, en, depf, resolving, fl, rec, keyset, pushed, evq, deb, hs, lock, nq, nset, nfailed, nsf>>
StopOffline(m) == /\ status[m] = 3
                  /\ status' = [status EXCEPT ![m] = 2]
                  /\ resolving' = resolving \cup {m}
                  /\ nq' = Notify(nq, m)
                  /\ UNCHANGED <<ref, en, depf, fl, rec, keyset, pushed, evq, deb, hs, lock, nset, nfailed, nsf>>
StopResolve(m) == /\ m \in resolving
                  /\ resolving' = resolving \ {m}
                  /\ fl' = [fl EXCEPT ![m] = NoFail]
                  /\ nq' = Notify(nq, m)
                  /\ UNCHANGED <<ref, en, depf, status, rec, keyset, pushed, evq, deb, hs, lock, nset, nfailed, nsf>>
StopDone(h) == /\ hs[h].pc = "stop" /\ StopReady = {} /\ resolving = {} /\ \A m \in 1..N : status[m] # 3
               /\ hs' = [hs EXCEPT ![h].pc = "start"]
               /\ UNCHANGED <<ref, en, depf, status, resolving, fl, rec, keyset, pushed, evq, deb, lock, nq, nset, nfailed, nsf>>

StartReady == {m \in 1..N : status[m] = 2 /\ m \in en \cup depf /\ \A d \in ref.deps[m] : status[d] = 5}
StartBegin(h) == /\ hs[h].pc = "start" /\ ~hs[h].abort
                 /\ \E m \in StartReady : status' = [status EXCEPT ![m] = 4]
                 /\ UNCHANGED <<ref, en, depf, resolving, fl, rec, keyset, pushed, evq, deb, hs, lock, nq, nset, nfailed, nsf>>
StartEnd(h, m) == /\ hs[h].pc = "start" /\ status[m] = 4
                  /\ IF m \in ref.sf
                     THEN /\ status' = [status EXCEPT ![m] = 2]
                          /\ fl' = [fl EXCEPT ![m] = IF @.id = 9 THEN @ ELSE StartFailed]
                          /\ hs' = [hs EXCEPT ![h].errp = TRUE]
                     ELSE /\ status' = [status EXCEPT ![m] = 5]
                          /\ UNCHANGED <<fl, hs>>
                  /\ nq' = Notify(nq, m)
                  /\ UNCHANGED <<ref, en, depf, resolving, rec, keyset, pushed, evq, deb, lock, nset, nfailed, nsf>>
StartAbort(h) == /\ hs[h].pc = "start" /\ hs[h].errp /\ ~hs[h].abort
                 /\ hs' = [hs EXCEPT ![h].abort = TRUE]
                 /\ UNCHANGED <<ref, en, depf, status, resolving, fl, rec, keyset, pushed, evq, deb, lock, nq, nset, nfailed, nsf>>
\* ManageModules returns: the lock is released; the repaired code refreshes the records
StartDone(h) == /\ hs[h].pc = "start" /\ \A m \in 1..N : status[m] # 4
                /\ (hs[h].errp \/ StartReady = {})
                /\ lock' = 0
                /\ hs' = [hs EXCEPT ![h] = IF StaleBug THEN Free ELSE [Free EXCEPT !.pc = "refresh", !.todo = Regs(ref)]]
                /\ UNCHANGED <<ref, en, depf, status, resolving, fl, rec, keyset, pushed, evq, deb, nq, nset, nfailed, nsf>>

HRefresh(h) == /\ hs[h].pc = "refresh"
               /\ \E i \in hs[h].todo :
                    LET ms == Members(ref, i)
                        upd == \E m \in ms : rec[m] # Actual(m)
                        rest == hs[h].todo \ {i}
                    IN /\ rec' = [m \in 1..N |-> IF m \in ms THEN Actual(m) ELSE rec[m]]
                       /\ pushed' = IF upd THEN Push(pushed, i) ELSE pushed
                       /\ keyset' = IF upd THEN KeyAfterPush(i) ELSE keyset
                       /\ hs' = [hs EXCEPT ![h] = IF rest = {} THEN Free ELSE [@ EXCEPT !.todo = rest]]
               /\ UNCHANGED <<ref, en, depf, status, resolving, fl, evq, deb, lock, nq, nset, nfailed, nsf>>

\* ------------------------------------------------------------------------------ environment
Quiescent == evq = 0 /\ \A h \in 1..H : hs[h].pc = "free" /\ \A m \in 1..N : nq[m] = 0
The(S) == CHOOSE x \in S : TRUE

SetCfg == /\ nset < MaxSet
          /\ \E i \in {j \in Regs(ref) : ref.subs[j].k # 0} :
                ref' = The(Step(ref, Op("set", i, 0, 0, FALSE, IF Toggle(ref, i) THEN "F" ELSE "T", 0, 0))).st
          /\ evq' = evq + 1
          /\ nset' = nset + 1
          /\ UNCHANGED <<en, depf, status, resolving, fl, rec, keyset, pushed, deb, hs, lock, nq, nfailed, nsf>>

ModFail == /\ nfailed < MaxFail /\ Quiescent /\ ref.pend = <<>>
           /\ \E m \in 2..N : LET x == The(Step(ref, Op("fail", 0, m, 0, FALSE, "", 3, 1))).st IN
                /\ ref' = x
                /\ fl' = [fl EXCEPT ![m] = x.fl[m]]
                /\ nq' = Notify(nq, m)
           /\ nfailed' = nfailed + 1
           /\ UNCHANGED <<en, depf, status, resolving, rec, keyset, pushed, evq, deb, hs, lock, nset, nsf>>

SetSF == /\ nsf < MaxSF /\ Quiescent /\ ref.pend = <<>>
         /\ \E m \in 2..N : ref' = The(Step(ref, Op("sfail", 0, m, 0, FALSE, IF m \in ref.sf THEN "F" ELSE "T", 0, 0))).st
         /\ nsf' = nsf + 1
         /\ UNCHANGED <<en, depf, status, resolving, fl, rec, keyset, pushed, evq, deb, hs, lock, nq, nset, nfailed>>

\* ------------------------------------------------------------------------------ the oracle
Explains(t) ==
    /\ t.en = en /\ t.depf = depf /\ t.fl = fl
    /\ t.on = {m \in 1..N : status[m] = 5}
    /\ \A m \in 1..N : status[m] \in {2, 5}
    /\ \A i \in Regs(ref) : /\ Rec(t, i) = {rec[m] : m \in Members(ref, i)}
                            /\ (Rec(t, i) # ref.rec0[i] => i \in pushed)
Matches == {t \in Quiet(ref) : Explains(t)}
QuietOK == Quiescent => Matches # {}

\* the observer looks (reads the records: every record has its key afterwards)
Observe == /\ Quiescent /\ Matches # {} /\ (ref.pend # <<>> \/ \E i \in Regs(ref) : Rec(ref, i) # ref.rec0[i])
           /\ \E t \in Matches : ref' = [t EXCEPT !.rec0 = Recs(t)]
           /\ pushed' = {} /\ keyset' = Regs(ref)
           /\ UNCHANGED <<en, depf, status, resolving, fl, rec, evq, deb, hs, lock, nq, nset, nfailed, nsf>>

Next == \/ HBegin \/ SetCfg \/ ModFail \/ SetSF \/ Observe
        \/ \E m \in 1..N : NotifyWorker(m) \/ StopOffline(m) \/ StopResolve(m)
        \/ \E h \in 1..H : \/ HWake(h) \/ HLoop(h) \/ HLock(h) \/ HTree(h) \/ StopBegin(h) \/ StopDone(h)
                           \/ StartBegin(h) \/ StartAbort(h) \/ StartDone(h) \/ HRefresh(h)
                           \/ \E m \in 1..N : StartEnd(h, m)
Spec == Init /\ [][Next]_vars

TypeOK == /\ en \subseteq 1..N /\ depf \subseteq 1..N /\ lock \in 0..H /\ evq \in 0..H
          /\ (lock # 0 => hs[lock].pc \in {"tree", "stop", "start"})
          /\ \A h \in 1..H : hs[h].pc \in {"tree", "stop", "start"} => lock = h
====
