---- MODULE Metrics ----
\* Reference semantics of package metrics (extension check X11): registry, export, counters, persistence.
\*
\* STATEMENT (derived from the doc comments of metrics/*.go, the option descriptions and the API they offer;
\* "life" = one process from its start to its end, "labeled id" = what Metric.LabeledID() returns):
\*
\*  M1 format     New<Kind>(id, labels, opts) succeeds only if id with every "/" replaced by "_" matches
\*                ^[a-zA-Z_][a-zA-Z0-9_]*$ and every label name matches it too; a fetching counter needs a fetch
\*                function.  A call that returns an error never registers anything and never panics.
\*  M2 labeled id is <namespace>_<id with "/" -> "_"> followed, if there is any label, by {n1="v1",n2="v2",...}
\*                over the labels of the call plus the global labels whose name the call does not use (a label of
\*                the call wins over a global one, the instance name of the configuration is the global label
\*                "instance"), rendered as name="quoted value" and sorted, so that it is reproducible.
\*  M3 registry   registration is refused before the module is started ("too early") and for a labeled id or a
\*                non-empty InternalID that is registered already (ErrAlreadyRegistered); otherwise the metric is
\*                registered.  A refused registration leaves the registry as it was.
\*  M4 immutable  SetNamespace / AddGlobalLabel work only before the first metric is registered (afterwards
\*                ErrAlreadyStarted, nothing changes); a namespace is set at most once (ErrAlreadySet);
\*                AddGlobalLabel refuses a malformed label name.  Whatever namespace SetNamespace accepted, no later
\*                call panics because of it.  A malformed instance name keeps the module from starting.
\*  M5 export     WriteMetrics(w, perm, level) writes, for exactly the registered metrics with
\*                Options.Permission <= perm (a permission below PermitAnyone counts as PermitUser) and
\*                Options.ExpertiseLevel <= level, one line "<labeled id> <current value>" each (a histogram without
\*                observations writes nothing), every metric once, in ascending order of the labeled id.
\*                ExportMetrics(perm) lists exactly the registered metrics with Permission <= perm, once each, in the
\*                same order, with their current value; ExportValues(perm, internalOnly) maps InternalID (or, unless
\*                internalOnly, the labeled id) to the current value of the metrics with Permission <= perm that
\*                have a value.  The "/metrics" API handler answers with WriteMetrics for the read permission of the
\*                request and the expertise level of its "level" parameter (developer if absent or unknown).
\*  M6 counters   a counter starts at 0 (a persisted one: at the value loaded, see M7), Inc/Add add exactly their
\*                amount also when called concurrently, the value never decreases during a life; gauges and fetching
\*                counters report what their function returns at the time of the export.
\*  M7 persist    EnableMetricPersistence(key) works once per life (then ErrAlreadyInitialized).  When the module
\*                stops, the value of every registered counter with Options.Persist is stored under key; in a later
\*                life on the same data a counter with Persist and the same labeled id continues from the stored
\*                value: its value is stored value + everything counted in this life, no matter whether it was
\*                registered (and incremented) before or after persistence was enabled.  Counters without Persist,
\*                other metric kinds and lives without EnableMetricPersistence store nothing and start at zero.  A
\*                life that ends without a module stop leaves the stored values as they were.
\*
\* Left open on purpose (every outcome allowed): whether a failed registration attempt already makes namespace and
\* global labels immutable (and with it whether a later start with an instance name succeeds), whether SetNamespace
\* validates its argument, which value survives when a global label is added twice, what happens to the stored value
\* of a counter that is not registered in a life that stores, histograms with observations.
\*
\* Strings are sequences of ASCII codes, so that sorting and quoting are those of the real strings.
EXTENDS Integers, Sequences, FiniteSets, TLC

Handles == 0..30
Keys == {1, 2}
Instance == <<105, 110, 115, 116, 97, 110, 99, 101>>      \* "instance"

\* ---------------------------------------------------------------- strings
Min2(a, b) == IF a < b THEN a ELSE b
LexLess(a, b) == \E i \in 1..(Min2(Len(a), Len(b)) + 1) :
                    /\ \A j \in 1..(i - 1) : a[j] = b[j]
                    /\ \/ (i > Len(a) /\ i <= Len(b))
                       \/ (i <= Len(a) /\ i <= Len(b) /\ a[i] < b[i])
RECURSIVE SortSet(_)
SortSet(S) == IF S = {} THEN <<>>
              ELSE LET m == CHOOSE x \in S : \A y \in S : x = y \/ LexLess(x, y) IN <<m>> \o SortSet(S \ {m})
RECURSIVE Join(_)
Join(ss) == IF ss = <<>> THEN <<>> ELSE IF Len(ss) = 1 THEN ss[1] ELSE ss[1] \o <<44>> \o Join(Tail(ss))

IsLetter(c) == (c >= 65 /\ c <= 90) \/ (c >= 97 /\ c <= 122) \/ c = 95
IsAlnum(c) == IsLetter(c) \/ (c >= 48 /\ c <= 57)
PromOK(s) == Len(s) > 0 /\ IsLetter(s[1]) /\ \A i \in 2..Len(s) : IsAlnum(s[i])
Sanit(id) == [i \in 1..Len(id) |-> IF id[i] = 47 THEN 95 ELSE id[i]]
\* Go %q over the characters used here: " -> \"   \ -> \\   newline -> \n
EscC(c) == IF c = 34 THEN <<92, 34>> ELSE IF c = 92 THEN <<92, 92>> ELSE IF c = 10 THEN <<92, 110>> ELSE <<c>>
RECURSIVE Esc(_)
Esc(v) == IF v = <<>> THEN <<>> ELSE EscC(Head(v)) \o Esc(Tail(v))
Quote(v) == <<34>> \o Esc(v) \o <<34>>

\* ---------------------------------------------------------------- records
Res(e, lid, v, lines) == [err |-> e, lid |-> lid, v |-> v, lines |-> lines]
R0(e) == Res(e, <<>>, 0, <<>>)
Out(r, s) == [res |-> r, st |-> s]

NoDisk == [k \in Keys |-> [has |-> FALSE, m |-> {}]]
Fresh(disk) == [phase |-> "pre", first |-> 0, ns |-> <<>>, gl |-> {}, reg |-> {}, val |-> [h \in Handles |-> 0],
                pinit |-> FALSE, ploaded |-> FALSE, pkey |-> 1, disk |-> disk]

Custom(o) == {o.labels[i] : i \in 1..Len(o.labels)}
Eff(st, o) == Custom(o) \cup {g \in st.gl : \A c \in Custom(o) : c.n # g.n}
Rendered(E) == {e.n \o <<61>> \o Quote(e.v) : e \in E}
LID(st, o) == (IF st.ns # <<>> THEN st.ns \o <<95>> ELSE <<>>) \o Sanit(o.id) \o
              (IF Eff(st, o) = {} THEN <<>> ELSE <<123>> \o Join(SortSet(Rendered(Eff(st, o)))) \o <<125>>)
Stored(d, lid) == IF \E e \in d.m : e.lid = lid THEN (CHOOSE e \in d.m : e.lid = lid).v ELSE 0
NsBad(st) == st.ns # <<>> /\ ~PromOK(st.ns)
Touched(st) == [st EXCEPT !.first = IF @ = 2 THEN 2 ELSE 1]

\* a set of [lid, v] records with distinct lid, as the sequence in ascending order of lid
Lines(P) == LET ks == SortSet({p.lid : p \in P}) IN [i \in 1..Len(ks) |-> CHOOSE p \in P : p.lid = ks[i]]
Visible(st, p) == {r \in st.reg : p >= r.perm}

\* ---------------------------------------------------------------- operations
NewStep(st, o) ==
  LET valid == PromOK(Sanit(o.id)) /\ (\A c \in Custom(o) : PromOK(c.n)) /\ ~(o.kind = "fcounter" /\ o.flag)
      lid == LID(st, o)
      perm == IF o.perm < 1 THEN 2 ELSE o.perm
      init == IF o.kind = "counter" THEN (IF o.persist /\ st.ploaded THEN Stored(st.disk[st.pkey], lid) ELSE 0)
              ELSE IF o.kind = "hist" THEN 0 - 1 ELSE o.n
      rec == [lid |-> lid, kind |-> o.kind, perm |-> perm, level |-> o.level, persist |-> o.persist, iid |-> o.iid, h |-> o.h]
      dup == \E r \in st.reg : r.lid = lid \/ (o.iid # <<>> /\ r.iid = o.iid)
      normal == IF st.phase = "pre" THEN {Out(R0("early"), Touched(st))}
                ELSE IF dup THEN {Out(R0("dup"), Touched(st))}
                ELSE {Out(Res("ok", lid, init, <<>>), [st EXCEPT !.first = 2, !.reg = @ \cup {rec}, !.val[o.h] = init])}
  IN IF st.phase = "dead" THEN {}
     ELSE IF ~valid THEN {Out(R0("invalid"), st)}
     ELSE IF NsBad(st) THEN {Out(R0("invalid"), st), Out(R0("invalid"), Touched(st))} \cup normal
     ELSE normal

NsStep(st, o) ==
  LET base == IF st.ns # <<>> THEN Out(R0("alreadyset"), st) ELSE Out(R0("ok"), [st EXCEPT !.ns = o.id])
      set == IF o.id = <<>> \/ PromOK(o.id) THEN {base} ELSE {base, Out(R0("invalid"), st)}
      started == {Out(R0("started"), st)}
  IN IF st.phase = "dead" THEN {}
     ELSE CASE st.first = 2 -> started [] st.first = 1 -> started \cup set [] OTHER -> set

GlStep(st, o) ==
  LET others == {g \in st.gl : g.n # o.id}
      old == {g \in st.gl : g.n = o.id}
      add == IF ~PromOK(o.id) THEN {Out(R0("invalid"), st)}
             ELSE {Out(R0("ok"), [st EXCEPT !.gl = others \cup {[n |-> o.id, v |-> o.iid]}])} \cup {Out(R0("ok"), st) : x \in old}
      started == {Out(R0("started"), st)}
  IN IF st.phase = "dead" THEN {}
     ELSE CASE st.first = 2 -> started [] st.first = 1 -> started \cup add [] OTHER -> add

StartStep(st, o) ==
  LET inst == o.id
      up == [st EXCEPT !.phase = "up", !.first = 2,
                       !.gl = IF inst = <<>> THEN @ ELSE {g \in @ : g.n # Instance} \cup {[n |-> Instance, v |-> inst]}]
      dead == [st EXCEPT !.phase = "dead"]
  IN IF st.phase # "pre" THEN {}
     ELSE IF inst # <<>> /\ ~PromOK(inst) THEN {Out(R0("fail"), dead)}
     ELSE {Out(R0("ok"), up)} \cup (IF (st.first # 0 /\ inst # <<>>) \/ NsBad(st) THEN {Out(R0("fail"), dead)} ELSE {})

\* inc: o.g goroutines call Inc() o.n times each (o.n = 0: just read the value); set: the value the function of a
\* gauge / fetching counter returns from now on
IncStep(st, o) ==
  LET r == {x \in st.reg : x.h = o.h /\ ((o.op = "inc" /\ x.kind = "counter") \/ (o.op = "set" /\ x.kind \in {"gauge", "fcounter"}))}
      nv == IF o.op = "inc" THEN st.val[o.h] + o.n * o.g ELSE o.n
  IN IF st.phase # "up" \/ r = {} THEN {}
     ELSE {Out(Res("ok", <<>>, nv, <<>>), [st EXCEPT !.val[o.h] = nv])}

ExportStep(st, o) ==
  LET vis == Visible(st, o.perm)
      P == CASE o.op \in {"write", "http"} -> {[lid |-> r.lid, v |-> st.val[r.h]] : r \in {x \in vis : o.level >= x.level /\ x.kind # "hist"}}
             [] o.op = "list"  -> {[lid |-> r.lid, v |-> st.val[r.h]] : r \in vis}
             [] o.op = "values" -> {[lid |-> IF r.iid # <<>> THEN r.iid ELSE r.lid, v |-> st.val[r.h]] :
                                       r \in {x \in vis : x.kind # "hist" /\ (o.flag => x.iid # <<>>)}}
  IN IF st.phase = "dead" \/ (o.op = "http" /\ st.phase # "up") THEN {} ELSE {Out(Res("ok", <<>>, 0, Lines(P)), st)}

EnableStep(st, o) ==
  LET d == st.disk[o.key]
      pc(h) == {r \in st.reg : r.h = h /\ r.kind = "counter" /\ r.persist}
  IN IF st.phase # "up" THEN {}
     ELSE IF st.pinit THEN {Out(R0("already"), st)}
     ELSE IF ~d.has THEN {Out(R0("ok"), [st EXCEPT !.pinit = TRUE, !.pkey = o.key])}
     ELSE {Out(R0("ok"), [st EXCEPT !.pinit = TRUE, !.pkey = o.key, !.ploaded = TRUE,
              !.val = [h \in Handles |-> IF pc(h) # {} THEN st.val[h] + Stored(d, (CHOOSE r \in pc(h) : TRUE).lid) ELSE st.val[h]]])}

StopStep(st, o) ==
  LET dead == [st EXCEPT !.phase = "dead"]
      cur == {[lid |-> r.lid, v |-> st.val[r.h]] : r \in {x \in st.reg : x.kind = "counter" /\ x.persist}}
      old == {e \in st.disk[st.pkey].m : \A c \in cur : c.lid # e.lid}
  IN IF st.phase # "up" THEN {}
     ELSE IF ~st.pinit THEN {Out(R0("ok"), dead)}
     ELSE {Out(R0("ok"), [dead EXCEPT !.disk[st.pkey] = [has |-> TRUE, m |-> cur \cup keep]]) : keep \in SUBSET old}

\* the set of allowed outcomes [res, st] of one operation
Step(st, o) ==
  CASE o.op = "proc"   -> {Out(R0("ok"), Fresh(st.disk))}      \* a new process on the same data (the old one just ends)
    [] o.op = "ns"     -> NsStep(st, o)
    [] o.op = "glabel" -> GlStep(st, o)
    [] o.op = "start"  -> StartStep(st, o)
    [] o.op = "new"    -> NewStep(st, o)
    [] o.op \in {"inc", "set"} -> IncStep(st, o)
    [] o.op \in {"write", "list", "values", "http"} -> ExportStep(st, o)
    [] o.op = "enable" -> EnableStep(st, o)
    [] o.op = "stop"   -> StopStep(st, o)
    [] OTHER -> {}

\* ---------------------------------------------------------------- laws of the model (checked by MetricsGen)
RegOK(st) == /\ \A r, s \in st.reg : r # s => (r.lid # s.lid /\ r.h # s.h /\ (r.iid = <<>> \/ r.iid # s.iid))
             /\ (st.phase = "pre" => st.reg = {})
             /\ \A r \in st.reg : r.perm \in 1..4
             /\ \A k \in Keys : \A e, f \in st.disk[k].m : e # f => e.lid # f.lid
             /\ (st.ploaded => st.pinit /\ st.disk[st.pkey].has)
ExpOp(name, p, l, f) == [op |-> name, kind |-> "", id |-> <<>>, labels |-> <<>>, perm |-> p, level |-> l, persist |-> FALSE,
                         iid |-> <<>>, h |-> 0, n |-> 0, g |-> 0, key |-> 1, flag |-> f]
LinesOf(st, name, p, l, f) == (CHOOSE x \in Step(st, ExpOp(name, p, l, f)) : TRUE).res.lines
Range(s) == {s[i] : i \in 1..Len(s)}
ExportOK(st) == st.phase = "dead" \/
   /\ \A p \in 0..4 : \A l \in 0..2 :
         LET w == LinesOf(st, "write", p, l, FALSE) ls == LinesOf(st, "list", p, 0, FALSE) IN
         /\ \A i \in 1..(Len(w) - 1) : LexLess(w[i].lid, w[i + 1].lid)
         /\ \A i \in 1..(Len(ls) - 1) : LexLess(ls[i].lid, ls[i + 1].lid)
         /\ Range(w) \subseteq Range(ls)
         /\ (p < 4 => Range(w) \subseteq Range(LinesOf(st, "write", p + 1, l, FALSE)))
         /\ (l < 2 => Range(w) \subseteq Range(LinesOf(st, "write", p, l + 1, FALSE)))
         /\ Range(LinesOf(st, "values", p, 0, TRUE)) \subseteq {[lid |-> r.iid, v |-> st.val[r.h]] : r \in st.reg}
   /\ Len(LinesOf(st, "list", 4, 0, FALSE)) = Cardinality(st.reg)
   /\ LinesOf(st, "list", 0, 0, FALSE) = <<>>
====
