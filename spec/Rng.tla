---- MODULE Rng ----
\* Package rng (second subject of extension check X14).  Derived statement:
\*  R1 Bytes, Read, Reader.Read and Number fail with an error (and hand out nothing) until the module has started.
\*  R2 afterwards Bytes(n) returns exactly n bytes, Read(b) and Reader.Read(b) fill the whole slice (n = len(b), no
\*     short reads, no error), for every length including 0.
\*  R3 Number(max) returns a number in 0..max for every max of the uint64 range, 0 and 2^64-1 included.
\*  R4 concurrent callers are served one after the other by one generator: no 16-byte block is handed out twice.
\* (no statistical claims.)  64-bit numbers are sequences of four 16-bit limbs, most significant first.
EXTENDS Integers, Sequences, FiniteSets

Limb == 0..65535
RECURSIVE Leq(_, _)
Leq(a, b) == IF a = <<>> THEN TRUE
             ELSE IF Head(a) < Head(b) THEN TRUE
             ELSE IF Head(a) > Head(b) THEN FALSE
             ELSE Leq(Tail(a), Tail(b))

\* a call: [fn, phase, n (requested length), max (limbs)] and its result [ok, len, num (limbs)]
CallOK(c, r) ==
    IF c.phase = "before" THEN ~r.ok /\ r.len = 0
    ELSE CASE c.fn \in {"bytes", "read", "reader"} -> r.ok /\ r.len = c.n
           [] c.fn = "number" -> r.ok /\ Len(r.num) = 4 /\ (\A i \in 1..4 : r.num[i] \in Limb) /\ Leq(r.num, c.max)
           [] OTHER -> FALSE
\* blocks handed out to concurrent callers (hexadecimal strings)
BlocksOK(bs) == Cardinality({bs[i] : i \in 1..Len(bs)}) = Len(bs)
====
