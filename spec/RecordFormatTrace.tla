---- MODULE RecordFormatTrace ----
\* Judges what database/record really did (property C08). Stateless: one event per case, produced by
\* harness/cmd/recfmt.  Byte strings, keys and strings are arrays of 0..255, int64 are 8-byte arrays.
\*
\*  {"e":"rt", "typed":false, "key","rkey", "meta":{created,modified,expires,deleted,secret,cronjewel},
\*   "format","data",                 the record handed to NewWrapper(...).MarshalRecord
\*   "mok","wire",                    its storage form
\*   "pok","pkey","pmeta","pformat","pdata",   NewRawWrapper(dbname, dbkey, wire)
\*   "rok","rwire"}                   MarshalRecord of the parsed record
\*  {"e":"rt", "typed":true, ..., "tin":{...}, "uok","ukey","umeta","tout":{...}}    harness struct embedding
\*                                    record.Base: MarshalRecord -> NewRawWrapper -> Unwrap into a fresh struct
\*  {"e":"parse", "b":bytes, "ok","meta","format","data", "rok","rwire"}   NewRawWrapper on arbitrary bytes
\*                                    (+ MarshalRecord of the result when there is one)
\*  {"e":"misc", "cls":name}          records without metadata, foreign arguments: survival only
\*  any event: "panic": text          a step panicked
EXTENDS RecordFormat, Json, TLC

Trace == ndJsonDeserialize("trace.ndjson")
VARIABLE l

RtGood(ev) ==
    LET del == IsDeleted(ev.meta)
        fmt == IF ev.typed THEN JSON ELSE ev.format
    IN
    \* serialising succeeds and yields a canonical storage form of exactly this record
    /\ ev.mok
    /\ IsStorageFormOf(ev.wire, ev.meta, fmt, IF ev.typed THEN <<>> ELSE ev.data, ev.typed)
    \* the real decoder reads it as the model does ...
    /\ ev.pok
    /\ Accepts(ev.wire, Obs(TRUE, ev.pmeta, ev.pformat, ev.pdata))
    \* ... which is: same key, same six meta fields, same format, identical data, no data when deleted
    /\ ev.pkey = ev.rkey
    /\ ev.pmeta = ev.meta
    /\ IF del THEN ev.pdata = <<>>
       ELSE ev.pformat = fmt /\ (~ev.typed => ev.pdata = ev.data)
    \* serialising the parsed record gives the same bytes again
    /\ ev.rok /\ ev.rwire = ev.wire
    \* a typed record unwrapped from the result equals the original
    /\ (ev.typed /\ ~del) => /\ ev.uok
                             /\ ev.tout = ev.tin
                             /\ ev.ukey = ev.rkey
                             /\ ev.umeta = ev.meta

ParseGood(ev) ==
    /\ Accepts(ev.b, Obs(ev.ok, ev.meta, ev.format, ev.data))
    \* whatever was accepted is a record: it serialises to a canonical form of what was reported
    /\ ev.ok => /\ ev.rok
                /\ IsStorageFormOf(ev.rwire, ev.meta, ev.format, ev.data, FALSE)

Good(ev) ==
    /\ "panic" \notin DOMAIN ev
    /\ CASE ev.e = "rt"    -> RtGood(ev)
         [] ev.e = "parse" -> ParseGood(ev)
         [] ev.e = "misc"  -> TRUE      \* API corners the property is silent on: only survival is judged

Bad == {i \in 1..Len(Trace) : ~Good(Trace[i])}
Init == l = 0 /\ PrintT(<<"@@", ToJson([bad |-> Bad, n |-> Len(Trace)])>>)
Next == l < 1 /\ l' = 1
Spec == Init /\ [][Next]_l
Accepted == TLCGet("level") >= 0 /\ Bad = {}
====
