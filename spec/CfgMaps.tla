---- MODULE CfgMaps ----
\* Extension check X09, second part: the pure map conversions of portbase/config (persistence.go).
\*
\* STATEMENT (from the doc comments of Flatten, Expand, PutValueIntoHierarchicalConfig, JSONToMap,
\* MapToJSON, CleanFlattenedConfig, CleanHierarchicalConfig and persistence_test.go).  A hierarchical
\* config is a nested map whose leaves are values; its flattened form has one entry per leaf under the
\* key "seg/seg/.../seg" of the path to it.  For every nested map T and every flat map F:
\*  M1 Flatten(T) has exactly one entry per leaf of T, with the leaf's value; sections without a leaf
\*     contribute nothing; T is not changed.
\*  M2 PutValueIntoHierarchicalConfig(T, key, v) makes v the leaf at the path of key, creating the
\*     sections on the way; "conflicting entries will be replaced": a leaf on the way becomes a
\*     section, a section at the path becomes the leaf; nothing else changes.
\*  M3 Expand(F) is the result of putting the entries of F into an empty map (in some order - it only
\*     matters if one key of F is a path prefix of another).  Hence Expand(Flatten(T)) = T without its
\*     empty sections, and Flatten(Expand(F)) = F for every F without such conflicts.
\*  M4 JSONToMap(json of T) = Flatten(T); MapToJSON(F) is the JSON text of Expand(F).
\*  M5 CleanFlattenedConfig(F) keeps exactly the entries of F whose key is a registered option;
\*     CleanHierarchicalConfig(T) keeps exactly the leaves of T whose path is the key of a registered
\*     option and removes the sections that have no such leaf (persistence_test.go: cleaning a map
\*     without any registered option leaves the empty map).
\*
\* A nested map is a set of entries [p |-> path, v |-> value] with pairwise incomparable paths (no path
\* is a prefix of another); v = 0 marks an empty section.  Path segments 1 2 3 = "a" "b" "c"; values 1..4
\* = "s", 7, true, ["x","y"].  A flat map is a set of entries with distinct paths.
EXTENDS Integers, Sequences, FiniteSets, TLC

IsPrefix(p, q) == Len(p) <= Len(q) /\ \A i \in 1..Len(p) : p[i] = q[i]
Comparable(p, q) == IsPrefix(p, q) \/ IsPrefix(q, p)
E(p, v) == [p |-> p, v |-> v]

IsTree(T) == \A e1, e2 \in T : e1 # e2 => ~Comparable(e1.p, e2.p)
IsFlat(F) == (\A e1, e2 \in F : e1.p = e2.p => e1 = e2) /\ (\A e \in F : e.v # 0)
ConflictFree(F) == IsTree(F)

Put(T, p, v) == {e \in T : ~Comparable(e.p, p)} \cup {E(p, v)}
Prune(T) == {e \in T : e.v # 0}
Flatten(T) == Prune(T)

\* all results of putting the entries of F into T one after the other, in any order
RECURSIVE Fold(_, _)
Fold(T, F) == IF F = {} THEN {T} ELSE UNION {Fold(Put(T, e.p, e.v), F \ {e}) : e \in F}
Expands(F) == Fold({}, F)

CleanFlat(F, Reg) == {e \in F : e.p \in Reg}
CleanHier(T, Reg) == CleanFlat(Prune(T), Reg)

\* ---------------------------------------------------------------- laws (checked by TLC on every tree of a small domain)
TreeLaws(T, Reg) ==
    /\ IsTree(T)
    /\ IsFlat(Flatten(T)) /\ ConflictFree(Flatten(T))
    /\ Expands(Flatten(T)) = {Prune(T)}                                  \* M3: expand(flatten(m)) = m
    /\ \A X \in Expands(Flatten(T)) : Flatten(X) = Flatten(T)
    /\ IsTree(CleanHier(T, Reg)) /\ Flatten(CleanHier(T, Reg)) = CleanFlat(Flatten(T), Reg)   \* the two cleaners agree
    /\ CleanFlat(CleanFlat(Flatten(T), Reg), Reg) = CleanFlat(Flatten(T), Reg)
PutLaws(T, p, v) == LET T2 == Put(T, p, v) IN
    /\ IsTree(T2)
    /\ E(p, v) \in T2
    /\ \A e \in T : ~Comparable(e.p, p) => e \in T2
    /\ Put(T2, p, v) = T2
FlatLaws(F) ==
    /\ \A X \in Expands(F) : IsTree(X) /\ Flatten(X) \subseteq F
    /\ (ConflictFree(F) => Expands(F) = {F})
====
