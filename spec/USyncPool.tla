---- MODULE USyncPool ----
\* Implementation-shaped model of utils.StablePool (utils/stablepool.go): the slice of slots, cnt, getIndex
\* and putIndex with the scan loops of Put and Get; every method runs under the pool's mutex, so one method
\* call is one action.  Every step is compared with the sequential contract PoolStep of USyncSeq (P1..P5):
\* TLC checks, for every sequence of at most MaxOps operations, that the result of the ring is an outcome
\* the contract allows.
\*
\* Loops = "fixed": the scan visits every slot once, starting at the index.
\* Loops = "pinned": the loops of the pinned tree, `stopAt := index - 1; for i := index; i != stopAt; ...`,
\*   which never look at slot index-1 (when index > 0).  TLC finds operation sequences (8 operations) after
\*   which Get answers nil/New() although the pool holds an item.
\* Loops = "getfixed": only the loop of Get is repaired; TLC finds sequences (17 operations) after which Put
\*   drops its argument (Size() one too small, the item is never returned).
\*   With Report the violating sequences of the two fault variants are printed (one JSON script each) and
\*   replayed against the real package as directed scripts.
\* The same module generates random sequential scripts (TLC -simulate, Emit = TRUE).
EXTENDS USyncSeq, Json, TLC

CONSTANTS MaxOps, Loops, Emit,
          Report,  \* print violating sequences instead of stopping at the first
          Lean     \* exhaustive runs: only Put(x), Get and Size (deeper sequences)

VARIABLES pool, cnt, gi, pi, hasNew, abs, hist, nput, bad, done
vars == <<pool, cnt, gi, pi, hasNew, abs, hist, nput, bad, done>>

Init == /\ pool = <<>> /\ cnt = 0 /\ gi = 0 /\ pi = 0
        /\ hasNew \in BOOLEAN
        /\ abs = PoolInit(hasNew)
        /\ hist = <<>> /\ nput = 0 /\ bad = "" /\ done = FALSE

\* 0-based slot indices visited by a scan that starts at `start` in a slice of length n
Scan(start, n, opname) ==
  IF (Loops = "pinned" \/ (Loops = "getfixed" /\ opname = "put")) /\ start > 0
  THEN [k \in 1..(n - 1) |-> (start + k - 1) % n]      \* stops in front of slot start-1
  ELSE [k \in 1..n |-> (start + k - 1) % n]

\* first visited slot that satisfies Want (-1: none)
First(order, Want(_)) ==
  LET hits == {k \in 1..Len(order) : Want(order[k])}
  IN IF hits = {} THEN -1 ELSE order[CHOOSE k \in hits : \A j \in hits : k <= j]

\* the ring: result and next state of one method call
Ring(o) ==
  CASE o.op = "put" ->
         IF o.a = 0 THEN [res |-> Res("ok", 0), pool |-> pool, cnt |-> cnt, gi |-> gi, pi |-> pi]
         ELSE IF cnt = Len(pool)
         THEN [res |-> Res("ok", 0), pool |-> Append(pool, o.a), cnt |-> cnt + 1, gi |-> gi, pi |-> cnt + 1]
         ELSE LET p0 == pi % Len(pool)
                  Free(i) == pool[i + 1] = 0
                  i == First(Scan(p0, Len(pool), "put"), Free)
              IN IF i = -1 THEN [res |-> Res("ok", 0), pool |-> pool, cnt |-> cnt, gi |-> gi, pi |-> p0]
                 ELSE [res |-> Res("ok", 0), pool |-> [pool EXCEPT ![i + 1] = o.a], cnt |-> cnt + 1, gi |-> gi, pi |-> i + 1]
    [] o.op = "get" ->
         IF cnt = 0 THEN [res |-> IF hasNew THEN Res("new", 0) ELSE Res("nil", 0), pool |-> pool, cnt |-> cnt, gi |-> gi, pi |-> pi]
         ELSE LET g0 == gi % Len(pool)
                  Full(i) == pool[i + 1] # 0
                  i == First(Scan(g0, Len(pool), "get"), Full)
              IN IF i = -1 THEN [res |-> IF hasNew THEN Res("new", 0) ELSE Res("nil", 0), pool |-> pool, cnt |-> cnt, gi |-> g0, pi |-> pi]
                 ELSE [res |-> Res("item", pool[i + 1]), pool |-> [pool EXCEPT ![i + 1] = 0], cnt |-> cnt - 1, gi |-> i + 1, pi |-> pi]
    [] o.op = "size" -> [res |-> Res("int", cnt), pool |-> pool, cnt |-> cnt, gi |-> gi, pi |-> pi]
    [] o.op = "max" -> [res |-> Res("int", Len(pool)), pool |-> pool, cnt |-> cnt, gi |-> gi, pi |-> pi]

OpNames == IF Lean THEN {"put", "get", "size"} ELSE {"put", "get", "putnil", "size", "max"}
\* simulation draws the operation from this list (biased towards put and get)
Weighted == <<"put", "put", "put", "get", "get", "get", "putnil", "size", "max">>

MkOp(name) == CASE name = "put" -> Op("put", nput + 1)
                [] name = "putnil" -> Op("put", 0)
                [] OTHER -> Op(name, 0)

DoOp == /\ Len(hist) < MaxOps /\ bad = "" /\ ~done
        /\ \E name \in (IF Emit /\ ~Report THEN {Weighted[RandomElement(1..Len(Weighted))]} ELSE OpNames) :
             LET o == MkOp(name)
                 r == Ring(o)
                 ok == {x \in PoolStep(abs, o) : x.res = r.res}
             IN /\ pool' = r.pool /\ cnt' = r.cnt /\ gi' = r.gi /\ pi' = r.pi
                /\ nput' = IF name = "put" THEN nput + 1 ELSE nput
                /\ hist' = Append(hist, o)
                /\ IF ok = {}
                   THEN /\ bad' = o.op \o "=" \o r.res.k
                        /\ abs' = abs
                        /\ (Report => PrintT(<<"@@", ToJson([kind |-> "pool", hasnew |-> hasNew, procs |-> <<Append(hist, o)>>,
                                                             why |-> o.op \o "=" \o r.res.k])>>))
                   ELSE /\ bad' = ""
                        /\ abs' = (CHOOSE x \in ok : TRUE).st
        /\ UNCHANGED <<hasNew, done>>

Finish == /\ Len(hist) = MaxOps /\ bad = "" /\ ~done
          /\ done' = TRUE
          /\ (Emit /\ ~Report => PrintT(<<"@@", ToJson([kind |-> "pool", hasnew |-> hasNew, procs |-> <<hist>>])>>))
          /\ UNCHANGED <<pool, cnt, gi, pi, hasNew, abs, hist, nput, bad>>

Next == DoOp \/ Finish
Spec == Init /\ [][Next]_vars

Conforms == Report \/ bad = ""
\* the ring's own bookkeeping
RingOK == bad = "" => /\ cnt = Cardinality({i \in 1..Len(pool) : pool[i] # 0})
                      /\ cnt = Cardinality(abs.items)
                      /\ {pool[i] : i \in {i \in 1..Len(pool) : pool[i] # 0}} = {x.v : x \in abs.items}
                      /\ (Loops = "fixed" => Len(pool) = abs.hwm)
View == <<pool, cnt, gi, pi, hasNew, abs, nput, bad, done, Len(hist)>>
====
