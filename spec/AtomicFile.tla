---- MODULE AtomicFile ----
\* C17 - files are published atomically: the destination shows the complete old state or the complete
\* new content, never a fragment.
\*
\* A small file-system model with two views:
\*   cache view   ns / objs.len     what every process sees (survives a crash of the writer process)
\*   disk  view   ddest+pend / objs.dlen   what survives a power loss: data of a file is only known to be on
\*                stable storage up to the last fsync; namespace operations on the destination become
\*                durable in order, at a time the file system chooses (`pend` = not yet durable)
\* Names are paths = sequences of path components; every name carries a location class:
\*   "dest"   the destination path (and, for a published directory, everything beneath it)
\*   "tmp"    inside a temporary location (TMPDIR, an explicitly given temp dir, the updater's tmp dir)
\*   "sib"    next to the destination with the dot-prefixed pattern .<base(dest)>* (renameio's fallback)
\*   "parent" an ancestor directory of the destination (MkdirAll)
\*   "other"  anywhere else
\* The module defines the effect of every file-system call (used by the writer programs of
\* AtomicFileMC, which TLC model-checks, and by AtomicFileTrace, which replays the system calls the
\* real code issued), the views of the destination and the invariants of the property.
EXTENDS Integers, Sequences, FiniteSets, TLC

VARIABLES
    ns,     \* cache namespace: name -> [o |-> object id, loc |-> location class]
    objs,   \* object id -> [kind, gen, len, dlen, tgt]
            \*   kind: "file" | "dir" | "link"
            \*   gen : "old" (published before the operation, untouched) | "dirty" (old, modified in place) | "new"
            \*   len : units of content in the cache view,  dlen: units known to be on stable storage
            \*   tgt : links only - what the link points to: "old" | "new" | "other"
    ddest,  \* object at the destination in the durable namespace (0: none)
    pend,   \* objects (0: removal) put at the destination by namespace operations that are not durable yet
    cfg     \* the operation: [dest, kind, size, entries, old]   old: "absent" | "old"

fsvars == <<ns, objs, ddest, pend, cfg>>

TempLocs == {"tmp", "sib"}
Empty == <<>>     \* the empty function

IsPrefix(a, n) == Len(a) <= Len(n) /\ SubSeq(n, 1, Len(a)) = a
UnderIn(nsx, a) == {n \in DOMAIN nsx : IsPrefix(a, n)}
Under(a) == UnderIn(ns, a)
Range(s) == {s[i] : i \in DOMAIN s}
NewId == Cardinality(DOMAIN objs) + 1
DestIdIn(nsx) == IF cfg.dest \in DOMAIN nsx THEN nsx[cfg.dest].o ELSE 0
Allowed == {cfg.old, "new"}

\* ids of old objects at proper ancestors of n: a change beneath an old directory modifies it in place
OldAbove(n) == {ns[a].o : a \in {x \in DOMAIN ns : IsPrefix(x, n) /\ x # n /\ objs[ns[x].o].gen = "old"}}
Taint(ids, ob) == [i \in DOMAIN ob |-> IF i \in ids THEN [ob[i] EXCEPT !.gen = "dirty"] ELSE ob[i]]

\* every namespace change that alters what the destination name refers to is queued for the disk view
Queue(nsx) == IF DestIdIn(nsx) # DestIdIn(ns) THEN Append(pend, DestIdIn(nsx)) ELSE pend

InitFS(c, osize) ==
    /\ cfg = c
    /\ IF c.old = "old"
       THEN /\ ns = (c.dest :> [o |-> 1, loc |-> "dest"])
            /\ objs = (1 :> [kind |-> c.kind, gen |-> "old", len |-> osize, dlen |-> osize, tgt |-> "old"])
            /\ ddest = 1
       ELSE /\ ns = Empty /\ objs = Empty /\ ddest = 0
    /\ pend = <<>>

------------------------------------------------------------------------------------------------
\* effects of the file-system calls (primed assignments to ns, objs, ddest, pend; cfg never changes)

Nop == UNCHANGED fsvars

Create(n, loc, kind, tgt) ==
    /\ n \notin DOMAIN ns
    /\ LET id == NewId
           nsx == ns @@ (n :> [o |-> id, loc |-> loc]) IN
       /\ ns' = nsx
       /\ objs' = Taint(OldAbove(n), objs) @@
                    (id :> [kind |-> kind, gen |-> "new", len |-> 0, dlen |-> 0, tgt |-> tgt])
       /\ pend' = Queue(nsx)
    /\ UNCHANGED <<ddest, cfg>>

\* n units are appended to the file at name n (a name the model does not know: data goes into a
\* pre-existing tree; if that tree is old published state it is modified in place)
Write(n, k) ==
    /\ IF n \in DOMAIN ns
       THEN LET o == ns[n].o IN
            objs' = [Taint(OldAbove(n), objs) EXCEPT ![o].len = @ + k,
                                                     ![o].gen = IF @ = "old" THEN "dirty" ELSE @]
       ELSE objs' = Taint(OldAbove(n), objs)
    /\ UNCHANGED <<ns, ddest, pend, cfg>>

Trunc(n, k) ==
    /\ IF n \in DOMAIN ns
       THEN LET o == ns[n].o IN
            objs' = [Taint(OldAbove(n), objs) EXCEPT ![o].len = k,
                                                     ![o].dlen = IF @ > k THEN k ELSE @,
                                                     ![o].gen = IF @ = "old" THEN "dirty" ELSE @]
       ELSE objs' = Taint(OldAbove(n), objs)
    /\ UNCHANGED <<ns, ddest, pend, cfg>>

\* open for writing: creates the file, truncates it, or changes nothing
OpenW(n, loc, creat, trunc) ==
    IF n \in DOMAIN ns THEN (IF trunc THEN Trunc(n, 0) ELSE Nop)
    ELSE IF creat THEN Create(n, loc, "file", "")
    ELSE IF trunc THEN Trunc(n, 0) ELSE Nop

Fsync(n) ==
    /\ IF n \in DOMAIN ns
       THEN objs' = [objs EXCEPT ![ns[n].o].dlen = objs[ns[n].o].len]
       ELSE objs' = objs
    /\ UNCHANGED <<ns, ddest, pend, cfg>>

Unlink(n) ==
    /\ LET nsx == [m \in DOMAIN ns \ Under(n) |-> ns[m]] IN
       /\ ns' = nsx
       /\ pend' = Queue(nsx)
    /\ objs' = Taint(OldAbove(n), objs)
    /\ UNCHANGED <<ddest, cfg>>

\* rename(a, b): the tree at a replaces whatever is at b
Rename(a, b, locb) ==
    IF a \notin DOMAIN ns THEN
       \* the source is not a name created by the writer (a pre-existing file is moved into place): the
       \* model takes it to be complete, but nothing is known about it having been flushed
       /\ LET id == NewId
              nsx == [m \in DOMAIN ns \ Under(b) |-> ns[m]] @@ (b :> [o |-> id, loc |-> locb]) IN
          /\ ns' = nsx
          /\ objs' = Taint(OldAbove(b), objs) @@
                       (id :> [kind |-> cfg.kind, gen |-> "new", len |-> cfg.size, dlen |-> 0, tgt |-> "new"])
          /\ pend' = Queue(nsx)
       /\ UNCHANGED <<ddest, cfg>>
    ELSE
       /\ LET moved == Under(a)
              keep  == (DOMAIN ns \ moved) \ Under(b)
              reroot(m) == b \o SubSeq(m, Len(a) + 1, Len(m))
              back(x) == CHOOSE m \in moved : reroot(m) = x
              nsx == [x \in keep \cup {reroot(m) : m \in moved} |->
                        IF x \in keep THEN ns[x] ELSE [o |-> ns[back(x)].o, loc |-> locb]] IN
          /\ ns' = nsx
          /\ pend' = Queue(nsx)
       /\ objs' = Taint(OldAbove(a) \cup OldAbove(b), objs)
       /\ UNCHANGED <<ddest, cfg>>

------------------------------------------------------------------------------------------------
\* views

RECURSIVE SumLen(_, _)
SumLen(nsx, S) == IF S = {} THEN 0
                  ELSE LET n == CHOOSE x \in S : TRUE IN objs[nsx[n].o].len + SumLen(nsx, S \ {n})

\* what a process that looks at object id (reached through name n, if any) sees
ObjView(id, sub) ==
    IF id = 0 THEN "absent"
    ELSE LET o == objs[id] IN
         IF o.gen = "old" THEN "old"
         ELSE IF o.gen = "dirty" \/ o.kind # cfg.kind THEN "frag"
         ELSE CASE cfg.kind = "file" -> IF o.len = cfg.size THEN "new" ELSE "frag"
                [] cfg.kind = "link" -> IF o.tgt = "new" THEN "new" ELSE "frag"
                [] cfg.kind = "dir"  -> IF /\ Cardinality(sub) = cfg.entries
                                           /\ SumLen(ns, sub) = cfg.size
                                           /\ \A m \in sub : objs[ns[m].o].gen = "new"
                                        THEN "new" ELSE "frag"

DestView == ObjView(DestIdIn(ns), Under(cfg.dest))

\* what the destination can be after a power loss if object id is what the durable namespace holds:
\* data that was not flushed may be missing
DurView(id) ==
    IF id = 0 THEN "absent"
    ELSE LET o == objs[id] IN
         IF o.gen = "old" THEN "old"
         ELSE IF o.kind = "file" /\ o.gen = "new" /\ o.len = cfg.size /\ o.dlen = o.len THEN "new"
         ELSE "frag"

PowerLossOutcomes == {ddest} \cup Range(pend)

Strays(loc) == Cardinality({n \in DOMAIN ns : ns[n].loc = loc})

------------------------------------------------------------------------------------------------
\* the property

\* at every instant (and therefore after a kill of the writer at any point) the destination is old or new
DestOK == DestView \in Allowed

\* single files: whatever subset of the pending namespace operations reached the disk, the destination
\* is the complete old or the complete new content (=> the new content is flushed before the rename)
DurableOK == cfg.kind = "file" => \A id \in PowerLossOutcomes : DurView(id) \in Allowed

\* temporary files live only in a temporary location or next to the destination with the dot pattern
TempLocOK == \A n \in DOMAIN ns :
                \/ ns[n].loc \in TempLocs \cup {"dest"}
                \/ ns[n].loc = "parent" /\ objs[ns[n].o].kind = "dir"

Safe == DestOK /\ DurableOK /\ TempLocOK
====
