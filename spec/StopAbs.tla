---- MODULE StopAbs ----
\* Property-level monitor for "stopping a module waits for all of its managed work" (C05) and for the
\* containment of panics in managed work (C06).  One module M (optionally depending on module A) with
\* work items; events come from harness/cmd/stopwork.  Times are milliseconds since driver start.
EXTENDS Integers, Sequences, FiniteSets, TLC

CONSTANTS PromptMs     \* "promptly": bound between the last return / release and the stop completing

VARIABLES items,       \* set of item ids of this history
          kind,        \* [items -> kind string]
          hasStopFn,
          st,          \* [items -> "new" | "running" | "ended"]
          stopCalled,  \* Shutdown / stop has been requested
          atStop,      \* items that were running when the stop was requested
          fn,          \* stop function: "none" | "running" | "ended"
          offline,     \* module reported offline
          lastT,       \* time of the last event that the stop had to wait for (work end, fn end, driver release)
          expectPanic, \* items whose function panics (C06)
          reported,    \* items for which a panic report was seen on the error channel
          failing,     \* items whose function returns an error or panics
          againT,      \* [items -> time from which a second run became due (service worker failed / task re-queued), -1 = none]
          needAgain,   \* items that must have run again before the end (fixed when the stop is requested)
          again,       \* items that were seen running again
          backoff,     \* [items -> restart back-off of a service worker in milliseconds]
          depSt        \* the module M depends on: "none" (there is none), "want" (has to stop too), "seen" (began stopping)
avars == <<items, kind, hasStopFn, st, stopCalled, atStop, fn, offline, lastT, expectPanic, reported, failing, againT, needAgain, again, backoff, depSt>>
\* counter a concrete kind is accounted under
Counter(k) == CASE k \in {"worker", "startworker", "service"} -> "worker"
                [] k \in {"hook", "xhook"} -> "hook"
                [] k = "task" -> "task"
                [] OTHER -> "micro"
RestartMs == 150   \* a service worker backs off 10 ms in the harness; a re-queued task starts within milliseconds

AbsInit == /\ items = {} /\ kind = <<>> /\ hasStopFn = FALSE /\ st = <<>>
           /\ stopCalled = FALSE /\ atStop = {} /\ fn = "none" /\ offline = FALSE /\ lastT = 0
           /\ expectPanic = {} /\ reported = {} /\ failing = {} /\ againT = <<>> /\ needAgain = {} /\ again = {}
           /\ backoff = <<>> /\ depSt = "none"

Max(a, b) == IF a > b THEN a ELSE b
ToSet(s) == {s[i] : i \in 1..Len(s)}

\* ids: sequence of item ids, kinds: sequence of kinds (same order), pan: ids that will panic, fail: ids that fail
Reset(ids, kinds, fnFlag, pan, fail, bos, dep) ==
    /\ depSt' = IF dep THEN "want" ELSE "none"
    /\ items' = ToSet(ids)
    /\ kind' = [i \in ToSet(ids) |-> kinds[CHOOSE k \in 1..Len(ids) : ids[k] = i]]
    /\ hasStopFn' = fnFlag
    /\ st' = [i \in ToSet(ids) |-> "new"]
    /\ stopCalled' = FALSE /\ atStop' = {} /\ fn' = "none" /\ offline' = FALSE /\ lastT' = 0
    /\ expectPanic' = ToSet(pan) /\ reported' = {} /\ failing' = ToSet(fail)
    /\ againT' = [i \in ToSet(ids) |-> -1] /\ needAgain' = {} /\ again' = {}
    /\ backoff' = [i \in ToSet(ids) |-> bos[CHOOSE k \in 1..Len(ids) : ids[k] = i]]

\* the stop has to wait for the stop function and for everything that was running when it was requested
WorkDone == /\ (hasStopFn => fn = "ended")
            /\ \A i \in atStop : st[i] = "ended"

WBegin(i, ctxdone, t) ==
    /\ i \in items /\ st[i] = "new"
    \* work started on a module that is already offline: workers and microtasks see a cancelled context,
    \* tasks and event hooks are not executed at all
    /\ offline => (ctxdone /\ Counter(kind[i]) \notin {"task", "hook"})
    /\ st' = [st EXCEPT ![i] = "running"]
    /\ UNCHANGED <<items, kind, hasStopFn, stopCalled, atStop, fn, offline, lastT, expectPanic, reported, failing, againT, needAgain, again, backoff, depSt>>

\* ctxdone: the context the item was handed is cancelled when it returns.  Once the stop routine has been invoked the
\* context of every piece of work of the module is cancelled - also of work that was started before the module was
WEnd(i, ctxdone, t) ==
    /\ i \in items /\ st[i] = "running"
    /\ (hasStopFn /\ fn # "none") => ctxdone
    /\ st' = [st EXCEPT ![i] = "ended"]
    /\ lastT' = Max(lastT, t)
    \* a failed service worker is restarted after its back-off
    /\ againT' = IF kind[i] = "service" /\ i \in failing /\ ~stopCalled THEN [againT EXCEPT ![i] = t] ELSE againT
    /\ UNCHANGED <<items, kind, hasStopFn, stopCalled, atStop, fn, offline, expectPanic, reported, failing, needAgain, again, backoff, depSt>>

\* the harness queued a task again after its (failed) run
Requeued(i, t) ==
    /\ i \in items /\ kind[i] = "task" /\ st[i] = "ended"
    /\ againT' = IF ~stopCalled THEN [againT EXCEPT ![i] = t] ELSE againT
    /\ UNCHANGED <<items, kind, hasStopFn, st, stopCalled, atStop, fn, offline, lastT, expectPanic, reported, failing, needAgain, again, backoff, depSt>>
RanAgain(i) ==
    /\ i \in items /\ st[i] = "ended" /\ kind[i] \in {"service", "task"}
    /\ again' = again \cup {i}
    /\ UNCHANGED <<items, kind, hasStopFn, st, stopCalled, atStop, fn, offline, lastT, expectPanic, reported, failing, againT, needAgain, backoff, depSt>>

StopCall(t) ==
    /\ ~stopCalled /\ stopCalled' = TRUE
    /\ atStop' = {i \in items : st[i] = "running"}
    /\ lastT' = Max(lastT, t)
    /\ needAgain' = {i \in items : againT[i] >= 0 /\ t - againT[i] >= RestartMs + backoff[i]}
    /\ UNCHANGED <<items, kind, hasStopFn, st, fn, offline, expectPanic, reported, failing, againT, again, backoff, depSt>>

\* the context is cancelled no later than the moment the stop routine is invoked
FnBegin(ctxdone, t) ==
    /\ stopCalled /\ fn = "none" /\ ctxdone
    /\ fn' = "running"
    /\ UNCHANGED <<items, kind, hasStopFn, st, stopCalled, atStop, offline, lastT, expectPanic, reported, failing, againT, needAgain, again, backoff, depSt>>
FnEnd(t) ==
    /\ fn = "running" /\ fn' = "ended" /\ lastT' = Max(lastT, t)
    /\ UNCHANGED <<items, kind, hasStopFn, st, stopCalled, atStop, offline, expectPanic, reported, failing, againT, needAgain, again, backoff, depSt>>

\* the driver stopped holding goroutines at yield points at time t (everything runs freely from here)
Released(t) ==
    /\ lastT' = Max(lastT, t)
    /\ UNCHANGED <<items, kind, hasStopFn, st, stopCalled, atStop, fn, offline, expectPanic, reported, failing, againT, needAgain, again, backoff, depSt>>

\* observed: module reported offline / a module it depends on began stopping
Offline(t) ==
    /\ stopCalled /\ WorkDone
    /\ offline' = TRUE
    /\ UNCHANGED <<items, kind, hasStopFn, st, stopCalled, atStop, fn, lastT, expectPanic, reported, failing, againT, needAgain, again, backoff, depSt>>
DepStop(t) ==
    /\ stopCalled /\ WorkDone
    /\ depSt' = "seen"
    /\ UNCHANGED <<items, kind, hasStopFn, st, stopCalled, atStop, fn, offline, lastT, expectPanic, reported, failing, againT, needAgain, again, backoff>>

\* Shutdown returned: only after the work is done, and promptly after the last thing it had to wait for
StopRet(t) ==
    /\ stopCalled /\ WorkDone
    /\ depSt # "want"            \* the modules it depends on have begun stopping (also when its stop routine failed)
    /\ t - lastT <= PromptMs
    /\ offline' = TRUE
    /\ UNCHANGED <<items, kind, hasStopFn, st, stopCalled, atStop, fn, lastT, expectPanic, reported, failing, againT, needAgain, again, backoff, depSt>>

\* ---- C06 observations ----
\* a blocking run variant returned: a panic error exactly for the panicking items, carrying value and stack
WRet(i, isPanic, valueOK, hasStack) ==
    /\ i \in items
    /\ isPanic = (i \in expectPanic)
    /\ isPanic => (valueOK /\ hasStack)
    /\ UNCHANGED avars
\* a report arrived on the module error channel
Report(i, severity, hasStack) ==
    /\ i \in items
    /\ (severity = "panic") => (i \in expectPanic /\ hasStack)
    /\ reported' = IF severity = "panic" THEN reported \cup {i} ELSE reported
    /\ UNCHANGED <<items, kind, hasStopFn, st, stopCalled, atStop, fn, offline, lastT, expectPanic, failing, againT, needAgain, again, backoff, depSt>>
\* final accounting after quiescence: counters back to zero, every panic reported, process alive
Final(workers, tasks, micro, alive) ==
    /\ alive /\ workers = 0 /\ tasks = 0 /\ micro = 0
    /\ \A i \in expectPanic : st[i] = "ended" => i \in reported
    /\ needAgain \subseteq again      \* service workers are restarted, a failed task can run again
    /\ UNCHANGED avars
====
