---- MODULE LogFmtGen ----
\* Generates scripts for harness/cmd/logfmt from the LogFmt model (X14) and checks laws of the model itself
\* on every reachable state (BFS with Emit = FALSE and small domains).
EXTENDS LogFmt, Json

CONSTANTS MaxOps,   \* operations per script
          Emit,     \* print finished scripts as JSON (simulation)
          Small     \* small argument domains (exhaustive exploration)

VARIABLES st, ini, hist, dead, cdead, begun, done
vars == <<st, ini, hist, dead, cdead, begun, done>>

Pick(S) == IF Emit THEN {RandomElement(S)} ELSE S
\* weighted choice: a sequence may list an element several times
Range(q) == {q[i] : i \in 1..Len(q)}
W(q) == q[RandomElement(1..Len(q))]
PickW(q) == IF Emit THEN {W(q)} ELSE Range(q)

Op(k, a, b, c, s, l, m) == [k |-> k, a |-> a, b |-> b, c |-> c, s |-> s, l |-> l, m |-> m, txt |-> "", t0 |-> 0, t1 |-> 0]
SyncOp == Op("sync", 0, 0, 0, 0, <<>>, 0)

\* ---- start parameters
\* (operators with RandomElement take a state-dependent dummy argument: TLC evaluates constant definitions only once)
Pairs(d) == IF Small
         THEN { <<>>, <<[p |-> 1, lv |-> 1]>>, <<[p |-> 1, lv |-> 8], [p |-> 2, lv |-> 5]>> }
         ELSE LET lvs == <<1, 2, 3, 4, 5, 6, 1, 2, 4, 5, 1, 3, 7, 8, 9>> IN
              { [i \in 1..n |-> [p |-> perm[i], lv |-> W(lvs)]] :
                n \in {W(<<0, 0, 0, 1, 2, 2, 3, 4>>)},
                perm \in {RandomElement({<<1, 2, 3, 4, 5>>, <<2, 4, 1, 5, 3>>, <<4, 3, 2, 1, 5>>, <<5, 1, 4, 2, 3>>, <<3, 5, 2, 4, 1>>})} }
PreLines(d) == IF Small THEN { <<>>, <<[sev |-> 4, site |-> 1, m |-> 0]>> }
            ELSE LET n == W(<<0, 0, 1, 2, 3>>) IN
                 { [i \in 1..n |-> [sev |-> RandomElement(1..6), site |-> RandomElement(1..NSites), m |-> RandomElement(0..5)]] }
Inis(d) == { [flag |-> f, flagc |-> c, preset |-> ps, plog |-> pl, pre |-> pr] :
          f \in PickW(IF Small THEN <<0, 2, 7>> ELSE <<0, 0, 0, 0, 1, 1, 2, 3, 4, 5, 6, 7>>), c \in Pick(IF Small THEN {0} ELSE 0..2),
          ps \in PickW(IF Small THEN <<0, 1>> ELSE <<0, 0, 0, 1, 1, 1, 1, 1, 2, 3, 4, 5, 6>>), pl \in Pairs(d), pr \in PreLines(d) }

\* the model wants the lines logged before Start with text and call window: the generator has none
PreRecs(i) == [i EXCEPT !.pre = [k \in 1..Len(i.pre) |-> LineRec(i.pre[k].sev, i.pre[k].site, "", 0, 0)]]

NoIni == [flag |-> 0, flagc |-> 0, preset |-> 0, plog |-> <<>>, pre |-> <<>>]
Init == /\ ini = NoIni /\ begun = FALSE
        /\ st = Started(NoIni, FALSE)
        /\ hist = <<>> /\ dead = <<FALSE, FALSE>> /\ cdead = <<FALSE, FALSE>> /\ done = FALSE
\* (the start parameters are drawn in a step of their own: TLC computes the initial states only once)
Begin == /\ ~begun /\ begun' = TRUE
         /\ ini' \in Inis(hist)
         /\ st' = Started(PreRecs(ini'), FALSE)
         /\ UNCHANGED <<hist, dead, cdead, done>>

\* ---- operations
Levels == IF Small THEN {1, 4} ELSE 1..6
SitesG == IF Small THEN {1, 3} ELSE 1..NSites
Sevs == IF Small THEN {1, 4} ELSE 1..6
Slots == IF Small THEN {1} ELSE {1, 2}
PkgTuples(d) == IF Small THEN { <<0, 1, 0, 0, 0>>, <<5, 0, 0, 0, 0>> }
             ELSE { [i \in 1..NPkgs |-> W(<<0, 0, 0, 1, 1, 1, 2, 3, 4, 5, 6>>)] }

Candidates(f) ==
    CASE f = "log"       -> { Op("log", sv, r, fm, s, <<>>, m) : sv \in Sevs, r \in (IF Small THEN {1} ELSE {1, 2, 3}),
                                                                    fm \in (IF Small THEN {0} ELSE {0, 1}), s \in SitesG, m \in (IF Small THEN {0} ELSE 0..5) }
      [] f = "tlog"      -> { Op("tlog", a, sv, fm, s, <<>>, m) : a \in Slots, sv \in Sevs, fm \in (IF Small THEN {0} ELSE {0, 1}),
                                                                     s \in SitesG, m \in (IF Small THEN {0} ELSE 0..5) }
      [] f = "addtracer" -> { Op("addtracer", a, b, c, s, <<>>, 0) : a \in Slots, b \in (IF Small THEN {1, 2} ELSE {0, 1, 1, 2}), c \in Slots, s \in SitesG }
      [] f = "submit"    -> { Op("submit", a, 0, 0, 0, <<>>, 0) : a \in Slots }
      [] f = "gettracer" -> { Op("gettracer", a, 0, 0, 0, <<>>, 0) : a \in Slots }
      [] f = "setlevel"  -> { Op("setlevel", lv, 0, 0, 0, <<>>, 0) : lv \in (IF Small THEN Levels ELSE {W(<<1, 1, 1, 1, 1, 2, 3, 4, 5, 6>>)}) }
      [] f = "setpkg"    -> { Op("setpkg", 0, 0, 0, 0, l, 0) : l \in PkgTuples(hist) }
      [] f = "parse"     -> { Op("parse", n, c, d, 0, <<>>, 0) : n \in (IF Small THEN {0, 3} ELSE 0..6), c \in (IF Small THEN {0} ELSE 0..6), d \in (IF Small THEN {0, 1, 3} ELSE 0..5) }
      [] f = "names"     -> { Op("names", a, 0, 0, 0, <<>>, 0) : a \in (IF Small THEN {0, 4} ELSE 0..8) }
      [] OTHER           -> { Op(f, 0, 0, 0, 0, <<>>, 0) }      \* unsetpkg getlevel sync totals unexp

Families == IF Small
            THEN <<"log", "tlog", "addtracer", "submit", "gettracer", "setlevel", "setpkg", "unsetpkg", "macro">>
            ELSE <<"macro", "macro", "macro", "log", "log", "log", "log", "log", "tlog", "tlog", "tlog", "tlog", "tlog", "addtracer", "addtracer", "addtracer", "submit", "submit",
                  "gettracer", "setlevel", "setlevel", "setpkg", "setpkg", "unsetpkg", "getlevel", "sync", "sync", "totals", "unexp", "parse", "names">>

\* operations on a tracer that has been submitted are outside of what the package promises: never generated
Legal(o) == CASE o.k \in {"tlog", "submit"} -> ~dead[o.a]
              [] o.k = "gettracer" -> ~cdead[o.a]
              [] OTHER -> TRUE

\* a whole trace in one step (the random walk rarely lines up AddTracer, several lines on that tracer and Submit)
\* (a set with one element: bound variables are evaluated once, LET definitions with RandomElement are not)
Macro(d) == IF Small THEN { <<Op("addtracer", 1, 1, 1, 1, <<>>, 0), Op("tlog", 1, 4, 0, 3, <<>>, 0), Op("tlog", 1, 1, 0, 1, <<>>, 0), Op("submit", 1, 0, 0, 0, <<>>, 0)>> }
            ELSE { <<Op("addtracer", a, 1, a, RandomElement(1..NSites), <<>>, 0)>>
                   \o [i \in 1..n |-> Op("tlog", a, RandomElement(1..6), RandomElement({0, 1}), RandomElement(1..NSites), <<>>, RandomElement(0..5))]
                   \o <<Op("submit", a, 0, 0, 0, <<>>, 0)>> : a \in {W(<<1, 2>>)}, n \in {W(<<1, 2, 2, 3, 4, 6>>)} }
RECURSIVE ApplyAll(_, _)
ApplyAll(s, ops) == IF ops = <<>> THEN s ELSE ApplyAll(Apply(s, Head(ops)), Tail(ops))

DoOp == /\ begun /\ ~done /\ Len(hist) < MaxOps
        /\ \E f \in PickW(Families) : \E o0 \in Pick(Candidates(f)) :
             \E ops \in (IF f = "macro" THEN Macro(hist)
                          ELSE LET o == IF Legal(o0) THEN o0 ELSE Op("totals", 0, 0, 0, 0, <<>>, 0) IN
                               \* GetLastUnexpectedLogs is read when everything handed over has been written
                               {IF o.k = "unexp" THEN <<SyncOp, o>> ELSE <<o>>}) :
             LET last == ops[Len(ops)] IN
             /\ (~Emit => Legal(o0))
             /\ st' = ApplyAll(st, ops)
             /\ hist' = hist \o ops
             /\ dead' = CASE last.k = "submit" -> <<TRUE, TRUE>>
                          [] last.k \in {"addtracer", "gettracer"} -> [dead EXCEPT ![last.a] = FALSE]
                          [] OTHER -> dead
             /\ cdead' = CASE last.k = "submit" -> <<TRUE, TRUE>>
                           [] last.k = "addtracer" -> [cdead EXCEPT ![last.a] = IF last.b = 2 THEN cdead[last.c] ELSE FALSE]
                           [] OTHER -> cdead
        /\ UNCHANGED <<ini, begun, done>>

Strip(o) == [k |-> o.k, a |-> o.a, b |-> o.b, c |-> o.c, s |-> o.s, l |-> o.l, m |-> o.m]
Finish == /\ begun /\ ~done /\ Len(hist) >= MaxOps
          /\ done' = TRUE
          /\ (Emit => PrintT(<<"@@", ToJson([ini |-> ini, ops |-> [i \in 1..Len(hist) |-> Strip(hist[i])]])>>))
          /\ UNCHANGED <<st, ini, hist, dead, cdead, begun>>

Next == Begin \/ DoOp \/ Finish
Spec == Init /\ [][Next]_vars

\* ---- laws of the model (invariants of the exhaustive run)
Count(k) == Cardinality({i \in 1..Len(hist) : hist[i].k = k})
Reps == LET RECURSIVE f(_) f(i) == IF i = 0 THEN 0 ELSE (IF hist[i].k = "log" THEN hist[i].b ELSE 0) + f(i - 1) IN f(Len(hist))
Laws ==
    \* levels stay levels, the totals' bounds are ordered
    /\ st.g \in 1..6 /\ \A i \in 1..3 : st.lo[i] <= st.hi[i]
    \* a package level decides alone, in both directions; an unlisted package follows the global level
    /\ \A s \in 1..NSites : \A sv \in 1..6 :
          LET p == PkgIdx(s) IN
          IF st.pkgOn /\ p # 0 /\ st.pkg[p] # 0 THEN Enabled(st, sv, s) = (sv >= st.pkg[p]) ELSE Enabled(st, sv, s) = (sv >= st.g)
    \* the package of a call site is the directory of its file and nothing else
    /\ PkgIdx(1) = 1 /\ PkgIdx(2) = 1 /\ PkgIdx(3) = 2 /\ PkgIdx(4) = 3 /\ PkgIdx(5) = 4 /\ PkgIdx(SyncSite) = 0
    \* the shown origin is a suffix of the path of at most 10 characters
    /\ \A s \in 1..Len(Sites) : LET f == Sites[s].file o == Last10(f) IN
          Len(o) <= 10 /\ (Len(f) <= 10 => o = f) /\ o = SubSeq(f, Len(f) - Len(o) + 1, Len(f))
    \* names round trip
    /\ \A s \in 1..6 : ParseAllowed(s, 0) = {s} /\ Name(s) # "none" /\ Tag(s) # "NONE"
    /\ \A s, t \in 0..7 : (Name(s) = Name(t) \/ Tag(s) = Tag(t)) => (s = t \/ ({s, t} \cap 1..6 = {}))
    \* tracers: only handed-out tracers are held; a tracer writes nothing before Submit: the lines to come
    \* are at most the plain calls, the submissions and the synchronisation lines
    /\ \A a \in 1..2 : st.slot[a] <= st.ntr /\ st.ctxh[a] <= st.ntr
    /\ Len(st.trs) = st.ntr
    /\ Len(st.pend) <= Reps + Count("tlog") + Count("submit") + Count("sync")
    /\ \A i \in 1..Len(st.pend) : st.pend[i].lines # <<>> => Len(st.pend[i].lines) < Count("tlog")
    \* a handed-out tracer means that trace level was in force for some call site
    /\ st.ntr <= Count("addtracer")
    \* Start: an error iff a pair is malformed; pairs in front of it are in force
    /\ StartErr(ini) = (\E i \in 1..Len(ini.plog) : ini.plog[i].lv > 6)
    /\ \A i \in 1..Len(ini.plog) : i < FirstBad(ini.plog) =>
          (PkgAfterStart(ini, FALSE)[ini.plog[i].p] # 0 /\ PkgAfterStart(ini, TRUE)[ini.plog[i].p] # 0)
    /\ NextCtr(999) = 1 /\ NextCtr(0) = 1 /\ \A c \in 1..998 : NextCtr(c) = c + 1
View == <<st, ini, Len(hist), dead, cdead, begun, done>>
====
