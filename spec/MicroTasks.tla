---- MODULE MicroTasks ----
EXTENDS Integers, FiniteSets, Sequences, TLC

\* modules/microtasks.go: the microtask scheduler (grant = close the clearance signal, then count it, as two
\* separate steps), the clearance queues, high priority bypass, max-delay expiry, and the two-step conclusion
\* (module counter, then global counter).  Property C15.
CONSTANTS NTasks,       \* microtasks 1..NTasks
          P1, P2, P3, P4, P5, P6, \* priority of task i: "high" | "med" | "low"
          Threshold,    \* concurrency limit (>= 2)
          AllowTimeout, \* whether max-delay expiry is explored
          QCap          \* capacity of each clearance queue (GOMAXPROCS * 100 in the code)

Tasks == 1..NTasks
Prio == [t \in Tasks |-> CASE t = 1 -> P1 [] t = 2 -> P2 [] t = 3 -> P3 [] t = 4 -> P4 [] t = 5 -> P5 [] OTHER -> P6]

VARIABLES tpc,      \* per task program counter
          count,    \* global microTasks counter (may dip below the true value)
          modCnt,   \* per-module microTaskCnt (single module)
          medQ, lowQ,  \* clearance request queues (sequences of task ids)
          cleared,  \* set of tasks whose signal channel was closed
          spc,      \* scheduler pc: "check" | "grant"
          sgrant,   \* task being granted (signal closed, count not yet incremented)
          timedOut, \* tasks that started because their max delay expired
          runs      \* how often each task function ran

vars == <<tpc, count, modCnt, medQ, lowQ, cleared, spc, sgrant, timedOut, runs>>

Init == /\ tpc = [t \in Tasks |-> "new"]
        /\ count = 0 /\ modCnt = 0
        /\ medQ = <<>> /\ lowQ = <<>>
        /\ cleared = {} /\ spc = "check" /\ sgrant = 0
        /\ timedOut = {} /\ runs = [t \in Tasks |-> 0]

\* --- task side ---
SubmitHigh(t) == /\ tpc[t] = "new" /\ Prio[t] = "high"
                 /\ count' = count + 1
                 /\ tpc' = [tpc EXCEPT ![t] = "ready"]
                 /\ UNCHANGED <<modCnt, medQ, lowQ, cleared, spc, sgrant, timedOut, runs>>

\* the clearance queue is a bounded channel: a request blocks while it is full ...
Request(t) == /\ tpc[t] = "new" /\ Prio[t] # "high"
              /\ Len(IF Prio[t] = "med" THEN medQ ELSE lowQ) < QCap
              /\ IF Prio[t] = "med" THEN medQ' = Append(medQ, t) /\ UNCHANGED lowQ
                                    ELSE lowQ' = Append(lowQ, t) /\ UNCHANGED medQ
              /\ tpc' = [tpc EXCEPT ![t] = "waiting"]
              /\ UNCHANGED <<count, modCnt, cleared, spc, sgrant, timedOut, runs>>

GotClearance(t) == /\ tpc[t] = "waiting" /\ t \in cleared
                   /\ tpc' = [tpc EXCEPT ![t] = "ready"]
                   /\ UNCHANGED <<count, modCnt, medQ, lowQ, cleared, spc, sgrant, timedOut, runs>>

\* max delay expired while waiting for the signal: start anyway, do NOT count
WaitTimeout(t) == /\ AllowTimeout /\ tpc[t] = "waiting" /\ t \notin cleared
                  /\ tpc' = [tpc EXCEPT ![t] = "ready"]
                  /\ timedOut' = timedOut \cup {t}
                  /\ UNCHANGED <<count, modCnt, medQ, lowQ, cleared, spc, sgrant, runs>>

\* ... and if it is still full when the max delay expires the microtask starts without clearance and counts itself
SubmitTimeout(t) == /\ AllowTimeout /\ tpc[t] = "new" /\ Prio[t] # "high"
                    /\ Len(IF Prio[t] = "med" THEN medQ ELSE lowQ) >= QCap
                    /\ count' = count + 1
                    /\ tpc' = [tpc EXCEPT ![t] = "ready"]
                    /\ timedOut' = timedOut \cup {t}
                    /\ UNCHANGED <<modCnt, medQ, lowQ, cleared, spc, sgrant, runs>>

Begin(t) == /\ tpc[t] = "ready"
            /\ modCnt' = modCnt + 1
            /\ runs' = [runs EXCEPT ![t] = @ + 1]
            /\ tpc' = [tpc EXCEPT ![t] = "running"]
            /\ UNCHANGED <<count, medQ, lowQ, cleared, spc, sgrant, timedOut>>

EndMod(t) == /\ tpc[t] = "running"
             /\ modCnt' = modCnt - 1
             /\ tpc' = [tpc EXCEPT ![t] = "concluding"]
             /\ UNCHANGED <<count, medQ, lowQ, cleared, spc, sgrant, timedOut, runs>>

EndGlobal(t) == /\ tpc[t] = "concluding"
                /\ count' = count - 1
                /\ tpc' = [tpc EXCEPT ![t] = "done"]
                /\ UNCHANGED <<modCnt, medQ, lowQ, cleared, spc, sgrant, timedOut, runs>>

\* --- scheduler ---
SchedGrant == /\ spc = "check" /\ count < Threshold
              /\ \/ /\ medQ # <<>>
                    /\ sgrant' = Head(medQ) /\ medQ' = Tail(medQ) /\ UNCHANGED lowQ
                 \/ /\ medQ = <<>> /\ lowQ # <<>>
                    /\ sgrant' = Head(lowQ) /\ lowQ' = Tail(lowQ) /\ UNCHANGED medQ
              /\ cleared' = cleared \cup {sgrant'}
              /\ spc' = "grant"
              /\ UNCHANGED <<tpc, count, modCnt, timedOut, runs>>

SchedCount == /\ spc = "grant"
              /\ count' = count + 1
              /\ spc' = "check" /\ sgrant' = 0
              /\ UNCHANGED <<tpc, modCnt, medQ, lowQ, cleared, timedOut, runs>>

Next == \/ SchedGrant \/ SchedCount
        \/ \E t \in Tasks : SubmitHigh(t) \/ Request(t) \/ SubmitTimeout(t) \/ GotClearance(t) \/ WaitTimeout(t) \/ Begin(t) \/ EndMod(t) \/ EndGlobal(t)

Spec == Init /\ [][Next]_vars /\ WF_vars(Next)

\* ---------------- properties (C15) ----------------
Active(t) == tpc[t] \in {"ready", "running", "concluding"}
HighActive == \E t \in Tasks : Prio[t] = "high" /\ Active(t)
RunningML == {t \in Tasks : Prio[t] # "high" /\ tpc[t] = "running"}

\* at most Threshold medium/low microtasks run concurrently while no high-priority one is active
\* and no max delay has expired
Limit == (~HighActive /\ timedOut = {}) => Cardinality(RunningML) <= Threshold

ExactlyOnce == \A t \in Tasks : runs[t] <= 1 /\ (tpc[t] = "done" => runs[t] = 1)

Quiescent == /\ \A t \in Tasks : tpc[t] = "done"
             /\ spc = "check" /\ medQ = <<>> /\ lowQ = <<>>
Balanced == Quiescent => (count = 0 /\ modCnt = 0)
ModNonNeg == modCnt >= 0

AllDone == <>(\A t \in Tasks : tpc[t] = "done")
====
