---- MODULE LifecycleTrace ----
\* Trace validation of the real module manager against LifecycleAbs (C01).
\* trace.ndjson events (written by harness/cmd/life):
\*  {"e":"reg","n":3,"deps":[[],[1],[1,2]],"mgmt":false,"enabled":[false,false,false]}   new history
\*  {"e":"call","op":"start"}   {"e":"ret","op":"start","ok":true,"online":[true,true,true]}
\*  {"e":"toggle","m":2,"on":true}
\*  {"e":"begin","m":1,"cb":"prep"}   {"e":"end","m":1,"cb":"prep","ok":true}
\*  {"e":"note",...}    driver remarks (skipped steps); no state change
\* Anything else (e.g. {"e":"hang"}: an API call did not return although every callback had returned) is
\* matched by no action and therefore rejected.
EXTENDS LifecycleAbs, Json

Trace == ndJsonDeserialize("trace.ndjson")
VARIABLE l
tvars == <<avars, l>>

ToSet(s) == {s[i] : i \in 1..Len(s)}
Ev == Trace[l]

TInit == AbsInit /\ l = 1
TNext == /\ l <= Len(Trace)
         /\ l' = l + 1
         /\ CASE Ev.e = "reg"    -> Reg(Ev.n, [m \in 1..Ev.n |-> ToSet(Ev.deps[m])], Ev.mgmt, Ev.enabled)
              [] Ev.e = "call"   -> Call(Ev.op)
              [] Ev.e = "ret"    -> Ret(Ev.op, Ev.ok, Ev.online)
              [] Ev.e = "toggle" -> Toggle(Ev.m, Ev.on)
              [] Ev.e = "begin"  -> Begin(Ev.m, Ev.cb)
              [] Ev.e = "end"    -> End(Ev.m, Ev.cb, Ev.ok, Ev.how = "panic")
              [] Ev.e = "expired" -> Expire(Ev.m, Ev.cb)
              [] Ev.e = "note"   -> UNCHANGED avars
              [] OTHER           -> FALSE
Spec == TInit /\ [][TNext]_tvars
Accepted == TLCGet("stats").diameter - 1 = Len(Trace)
====
