---- MODULE LogFmt ----
\* Extension check X14: what package log shows of a line and how levels / tracers are handed out
\* (everything of package log that C20 - "which lines reach the adapter, once, in order" - leaves open).
\*
\* Derived statement (from the code of log/*.go, its doc comments, the flag help texts and tests):
\*  P1 names     ParseLevel maps exactly the six level names trace debug info warning error critical, in any
\*               letter case, to 1..6 and every other string to 0; Severity.Name() / String() are "trace"/"TRAC" ...
\*               "critical"/"CRIT" and "none"/"NONE" for every other value; ParseLevel(s.Name()) = s.
\*  P2 levels    GetLogLevel returns the level of the last SetLogLevel.  The level in force for a call is the
\*               level listed by the last SetPkgLevels for the *directory name of the caller's file* while
\*               package levels are set (in both directions: stricter and laxer than the global level),
\*               otherwise the global level.
\*  P3 flags     Start applies -log (a level name; an invalid one falls back to info) and -plog
\*               ("pkg=level,pkg=level"): every well-formed pair in front of the first malformed one is in
\*               force; Start returns an error iff there is a malformed pair, and logging works all the same.
\*  P4 tracers   AddTracer hands out a tracer iff the context is not nil, holds no tracer yet and trace level
\*               is in force for the caller's package; Tracer(ctx) returns the tracer the context holds (else nil);
\*               a nil context stays nil.
\*  P5 tracing   every method of a nil *ContextTracer is safe and logs a plain line under the rules of P2; a real
\*               tracer collects its lines whatever the level is and writes nothing until Submit; Submit of a nil
\*               or empty tracer writes nothing; otherwise it writes exactly one message: the last collected line
\*               is the main line (Text, Severity, File, LineNumber, Time are those of that line) and the other
\*               lines follow in collection order, each with its own severity, origin and text.
\*  P6 message   Text() is the message of the call verbatim (X) or formatted (Xf); Severity() that of the
\*               function called; File()/LineNumber() the call site (path without ".go"); Time() lies within
\*               the call - also for a line logged before Start (which is kept and written after Start).
\*  P7 text      the default formatter renders  <colour><yymmdd hh:mm:ss.mmm of Time()> <last 10 characters of
\*               File()>:<line, at least 3 digits> (arrow) <TAG> <counter, 3 digits>[ [Nx]]<reset> <text>
\*               with the colour of the severity, N = duplicates + 1 (no marker for 0), a counter that goes
\*               001, 002, .. 999, 001 .. over the lines formatted, and for a trace " (Sigma)=<total>" plus one
\*               line per collected line: <colour><step duration, right aligned to 19> <origin> (arrow) <TAG><reset>
\*               5 blanks <text>; the step durations are >= 0 and add up to the total.
\*  P8 records   TotalWarning/Error/CriticalLogLines count every line of that severity logged since program
\*               start, whichever way it was logged (package function, tracer, nil tracer); GetLastUnexpectedLogs
\*               returns the (at most) 10 last written lines that are of level warning or higher or are traces
\*               that contain such a line, oldest first, rendered without colours.
\* Where nothing is promised the model allows every outcome: the counter may or may not advance for the
\* internal rendering of an unexpected line; totals of lines that are filtered out by the level are free;
\* -plog pairs behind a malformed pair may or may not be applied; surrounding blanks in ParseLevel are free;
\* a line logged before Start is judged by the level in force at the call or the one after Start.
EXTENDS Integers, Sequences, FiniteSets, TLC

\* ------------------------------------------------------------------ names, tags, colours (P1, P7)
Tag(s) == CASE s = 1 -> "TRAC" [] s = 2 -> "DEBU" [] s = 3 -> "INFO" [] s = 4 -> "WARN"
            [] s = 5 -> "ERRO" [] s = 6 -> "CRIT" [] OTHER -> "NONE"
Name(s) == CASE s = 1 -> "trace" [] s = 2 -> "debug" [] s = 3 -> "info" [] s = 4 -> "warning"
            [] s = 5 -> "error" [] s = 6 -> "critical" [] OTHER -> "none"
\* ANSI colour number of a severity (0: none)
Colour(s) == CASE s = 2 -> 36 [] s = 3 -> 34 [] s = 4 -> 33 [] s = 5 -> 31 [] s = 6 -> 35 [] OTHER -> 0
Arrow == 9654     \* code point of the arrow between origin and tag

\* ParseLevel vectors are symbolic: name 0..6 (0: not a level name), c: letter case variant, d: decoration
\*   d = 0 the name itself; 1 blank in front; 2 blank behind; 3 an "s" appended; 4 last letter dropped;
\*   5 the number of the level in digits.   name = 0: c selects one of a few strings that are no level names.
ParseAllowed(name, d) ==
    IF name = 0 THEN {0}
    ELSE CASE d = 0 -> {name} [] d \in {1, 2} -> {name, 0} [] OTHER -> {0}

\* ------------------------------------------------------------------ call sites (P2, P6, P7)
\* File paths as sequences of one-character strings (TLC strings are atomic).  The driver's call sites carry
\* exactly these positions (line directives), Sites[6] is the driver's synchronisation line.
Sites == <<
  [file |-> <<"/","w","/","a","l","p","h","a","/","s","e","r","v","e","r">>, line |-> 41],
  [file |-> <<"/","w","/","a","l","p","h","a","/","a">>, line |-> 3],
  [file |-> <<"/","w","/","b","e","t","a","/","d","b","x">>, line |-> 1234],
  [file |-> <<"b","/","x">>, line |-> 5],
  [file |-> <<"/","w","/","g","a","m","m","a","/","d","e","e","p","/","e","r","/","h","a","n","d","l","e","r">>, line |-> 100],
  [file |-> <<"/","w","/","s","y","n","c","/","p","o","i","n","t">>, line |-> 1] >>
NSites == 5      \* sites 1..5 are used by generated operations
SyncSite == 6
\* packages that SetPkgLevels / -plog can list (index into a level tuple; level 0 = not listed)
PkgNames == << <<"a","l","p","h","a">>, <<"b","e","t","a">>, <<"b">>, <<"e","r">>, <<"g","a","m","m","a">> >>
NPkgs == 5

LastSlash(f) == LET S == {i \in 1..Len(f) : f[i] = "/"} IN IF S = {} THEN 0 ELSE CHOOSE i \in S : \A j \in S : j <= i
\* the directory name of a file path: the path segment in front of the last one
DirOf(f) == LET j == LastSlash(f) IN
            IF j = 0 THEN <<"?">>
            ELSE LET pre == SubSeq(f, 1, j - 1) IN SubSeq(pre, LastSlash(pre) + 1, j - 1)
PkgIdx(site) == LET d == DirOf(Sites[site].file)
                    S == {k \in 1..NPkgs : PkgNames[k] = d}
                IN IF S = {} THEN 0 ELSE CHOOSE k \in S : TRUE
Last10(f) == IF Len(f) > 10 THEN SubSeq(f, Len(f) - 9, Len(f)) ELSE f
NumWidth(n) == IF n < 1000 THEN 3 ELSE IF n < 10000 THEN 4 ELSE IF n < 100000 THEN 5 ELSE 6

\* ------------------------------------------------------------------ state
\* g       global level                     pkgOn, pkg   package levels set / the listed levels
\* ntr     tracers handed out so far        trs          per tracer: collected lines, submitted
\* slot    the tracer a driver slot holds (0: nil)        ctxh   what the context of a slot holds
\*                                                               (-1: nil context - also before the first AddTracer -, 0: no tracer, n: tracer n)
\* pend    lines handed to the logger that must still reach the adapter, in order
\* pre     lines logged before Start that are still to come (any order); must = FALSE: may also stay away,
\*         may = FALSE: no level in force since the call lets it pass
\* lo, hi  bounds of the three totals       ring         the last unexpected lines as rendered
\* pctr, pun  counter of the line formatted last, and whether that line was an unexpected one
LineRec(sev, site, txt, t0, t1) == [sev |-> sev, site |-> site, txt |-> txt, t0 |-> t0, t1 |-> t1]
Entry(ln, lines, must) == [sev |-> ln.sev, site |-> ln.site, txt |-> ln.txt, t0 |-> ln.t0, t1 |-> ln.t1,
                           lines |-> lines, must |-> must, may |-> TRUE]

Enabled(st, sev, site) ==
    LET p == PkgIdx(site) IN
    IF st.pkgOn /\ p # 0 /\ st.pkg[p] # 0 THEN sev >= st.pkg[p] ELSE sev >= st.g
TraceOn(st, site) == Enabled(st, 1, site)

Bump(t, sev, n) == [i \in 1..3 |-> IF i = sev - 3 THEN t[i] + n ELSE t[i]]
Rep(x, n) == [i \in 1..n |-> x]

NoTracers == <<>>
Fresh(g, pkgOn, pkg) ==
    [g |-> g, pkgOn |-> pkgOn, pkg |-> pkg, ntr |-> 0, trs |-> NoTracers, slot |-> <<0, 0>>, ctxh |-> <<-1, -1>>,
     pend |-> <<>>, pre |-> <<>>, lo |-> <<0, 0, 0>>, hi |-> <<0, 0, 0>>, ring |-> <<>>, pctr |-> 0, pun |-> FALSE]

\* what the context handed to AddTracer holds: b = 0 nil context, 1 a fresh background context, 2 the context of slot c
CtxHeld(st, op) == CASE op.b = 0 -> -1 [] op.b = 1 -> 0 [] OTHER -> st.ctxh[op.c]
Hands(st, op) == CtxHeld(st, op) = 0 /\ TraceOn(st, op.s)

\* a plain line (package function or nil tracer): rep identical calls from one call site
Plain(st, op, rep) ==
    LET en == Enabled(st, op.a, op.s)
        e == Entry(LineRec(op.a, op.s, op.txt, op.t0, op.t1), <<>>, TRUE) IN
    [st EXCEPT !.pend = IF en THEN @ \o Rep(e, rep) ELSE @,
               !.lo = IF en /\ op.a >= 4 THEN Bump(@, op.a, rep) ELSE @,
               !.hi = IF op.a >= 4 THEN Bump(@, op.a, rep) ELSE @]

\* Operations (all records have the fields k a b c s l txt t0 t1):
\*  setlevel a | getlevel | setpkg l | unsetpkg | log s a(sev) b(rep) c(0 plain, 1 formatted) | addtracer a(slot) s b c
\*  tlog a(slot) s b(sev) c | submit a | gettracer a | sync | totals | unexp | parse a b c | names a
\* A line logged before Start is handed to the writer by a goroutine of its own once Start is through: until it
\* has been written it may meet every level that is set meanwhile (it must be written only if all of them let it
\* pass, and may be written if one of them does).
Relevel(st) == [st EXCEPT !.pre = [k \in 1..Len(st.pre) |->
                    [st.pre[k] EXCEPT !.must = @ /\ Enabled(st, st.pre[k].sev, st.pre[k].site),
                                      !.may = @ \/ Enabled(st, st.pre[k].sev, st.pre[k].site)]]]
Apply(st, op) ==
    CASE op.k = "setlevel" -> Relevel([st EXCEPT !.g = op.a])
      [] op.k = "setpkg"   -> Relevel([st EXCEPT !.pkgOn = TRUE, !.pkg = op.l])
      [] op.k = "unsetpkg" -> Relevel([st EXCEPT !.pkgOn = FALSE])
      [] op.k = "log"      -> Plain(st, op, op.b)
      [] op.k = "tlog"     ->
            LET id == st.slot[op.a] IN
            IF id = 0 THEN Plain(st, [op EXCEPT !.a = op.b], 1)
            ELSE IF st.trs[id].sub THEN st
            ELSE [st EXCEPT !.trs[id].lines = Append(@, LineRec(op.b, op.s, op.txt, op.t0, op.t1)),
                            !.lo = IF op.b >= 4 THEN Bump(@, op.b, 1) ELSE @,
                            !.hi = IF op.b >= 4 THEN Bump(@, op.b, 1) ELSE @]
      [] op.k = "submit"   ->
            LET id == st.slot[op.a] IN
            IF id = 0 THEN st
            ELSE IF st.trs[id].sub \/ st.trs[id].lines = <<>> THEN st
            ELSE LET ls == st.trs[id].lines IN
                 [st EXCEPT !.pend = Append(@, Entry(ls[Len(ls)], SubSeq(ls, 1, Len(ls) - 1), TRUE)),
                            !.trs[id] = [lines |-> <<>>, sub |-> TRUE]]
      [] op.k = "addtracer" ->
            IF Hands(st, op)
            THEN [st EXCEPT !.ntr = @ + 1, !.trs = Append(@, [lines |-> <<>>, sub |-> FALSE]),
                            !.slot[op.a] = st.ntr + 1, !.ctxh[op.a] = st.ntr + 1]
            ELSE [st EXCEPT !.slot[op.a] = 0, !.ctxh[op.a] = CtxHeld(st, op)]
      [] op.k = "gettracer" -> [st EXCEPT !.slot[op.a] = IF st.ctxh[op.a] > 0 THEN st.ctxh[op.a] ELSE 0]
      [] op.k = "sync"     -> [st EXCEPT !.pend = Append(@, Entry(LineRec(3, SyncSite, op.txt, op.t0, op.t1), <<>>, TRUE))]
      [] OTHER -> st

\* the synchronous result of an operation: [lv, nn, ctxnil, held, tot, name, tag] (fields that an operation
\* does not produce are 0 / FALSE / "" and not looked at)
ResOK(st, op, res) ==
    CASE op.k = "getlevel"  -> res.lv = st.g
      [] op.k = "parse"     -> res.lv \in ParseAllowed(op.a, op.c)
      [] op.k = "names"     -> res.name = Name(op.a) /\ res.tag = Tag(op.a)
      [] op.k = "addtracer" -> /\ res.nn = Hands(st, op)
                               /\ res.ctxnil = (CtxHeld(st, op) = -1)
                               /\ res.held = (IF Hands(st, op) THEN st.ntr + 1
                                              ELSE IF CtxHeld(st, op) > 0 THEN CtxHeld(st, op) ELSE 0)
      [] op.k = "gettracer" -> res.held = (IF st.ctxh[op.a] > 0 THEN st.ctxh[op.a] ELSE 0)
      [] op.k = "totals"    -> \A i \in 1..3 : st.lo[i] <= res.tot[i] /\ res.tot[i] <= st.hi[i]
      [] OTHER -> TRUE

\* ------------------------------------------------------------------ Start: flags and lines logged before it (P3, P6)
\* ini = [flag, preset, plog, pre]: flag 0 no -log, 1..6 a level name, 7 an invalid name; preset: SetLogLevel before
\* Start (0: none); plog: <<[p, lv]>> with lv 1..6 a level, 7 an unknown level name, 8 no "=", 9 two "=";
\* pre: lines logged before Start [sev, site, txt, t0, t1].  cont: are pairs behind a malformed one applied.
Malformed(pr) == pr.lv > 6
FirstBad(plog) == LET S == {i \in 1..Len(plog) : Malformed(plog[i])} IN
                  IF S = {} THEN Len(plog) + 1 ELSE CHOOSE i \in S : \A j \in S : i <= j
StartErr(ini) == FirstBad(ini.plog) <= Len(ini.plog)
PkgAfterStart(ini, cont) ==
    [p \in 1..NPkgs |->
        LET S == {i \in 1..Len(ini.plog) : ini.plog[i].p = p /\ ~Malformed(ini.plog[i]) /\ (cont \/ i < FirstBad(ini.plog))} IN
        IF S = {} THEN 0 ELSE ini.plog[CHOOSE i \in S : \A j \in S : j <= i].lv]
CallLevel(ini) == IF ini.preset # 0 THEN ini.preset ELSE 3
Started(ini, cont) ==
    LET g == IF ini.flag = 0 THEN CallLevel(ini) ELSE IF ini.flag \in 1..6 THEN ini.flag ELSE 3
        st == Fresh(g, Len(ini.plog) > 0, PkgAfterStart(ini, cont))
        A(x) == x.sev >= CallLevel(ini)
        B(x) == Enabled(st, x.sev, x.site)
        keep == ini.pre
        tot(f(_)) == [i \in 1..3 |-> Cardinality({k \in 1..Len(ini.pre) : ini.pre[k].sev = i + 3 /\ f(ini.pre[k])})]
    IN [st EXCEPT !.pre = [k \in 1..Len(keep) |-> [Entry(keep[k], <<>>, A(keep[k]) /\ B(keep[k])) EXCEPT !.may = A(keep[k]) \/ B(keep[k])]],
                  !.lo = tot(LAMBDA x : A(x) /\ B(x)),
                  !.hi = tot(LAMBDA x : TRUE)]

\* ------------------------------------------------------------------ written lines (P5, P6, P7, P8)
NextCtr(c) == IF c >= 999 THEN 1 ELSE c + 1
Unexpected(e) == e.sev >= 4 \/ \E i \in 1..Len(e.lines) : e.lines[i].sev >= 4
RECURSIVE Sum(_)
Sum(s) == IF s = <<>> THEN 0 ELSE Head(s) + Sum(Tail(s))
SamePlain(x, y) == x.sev = y.sev /\ x.site = y.site /\ x.txt = y.txt /\ x.lines = <<>> /\ y.lines = <<>>

\* r: the rendered text split into its fields by the driver
\*  [c0 colour number in front (0 none), c1 reset present (1/0), ts, origin, oline, olw, arrow, tag, ctr, ctrw,
\*   dupn (0: no marker), msg, sigma (ns, -1: none), subs: <<[c0, c1, dur, durw, durlen, origin, oline, olw, arrow, tag, msg]>>]
HeadOK(r, sev, site, col) ==
    /\ r.c0 = (IF col THEN Colour(sev) ELSE 0)
    /\ r.c1 = (IF col THEN 1 ELSE 0)
    /\ r.origin = Last10(Sites[site].file)
    /\ r.oline = Sites[site].line /\ r.olw = NumWidth(Sites[site].line)
    /\ r.arrow = Arrow
    /\ r.tag = Tag(sev)
RenderOK(r, e, dups, col) ==
    /\ HeadOK(r, e.sev, e.site, col)
    /\ r.ctr \in 1..999 /\ r.ctrw = 3
    /\ r.dupn = (IF dups = 0 THEN 0 ELSE dups + 1)
    /\ r.msg = e.txt
    /\ Len(r.subs) = Len(e.lines)
    /\ IF e.lines = <<>> THEN r.sigma = -1
       ELSE /\ r.sigma = Sum([i \in 1..Len(r.subs) |-> r.subs[i].dur])
            /\ \A i \in 1..Len(r.subs) :
                  /\ HeadOK(r.subs[i], e.lines[i].sev, e.lines[i].site, col)
                  /\ r.subs[i].dur >= 0
                  /\ r.subs[i].durw = (IF r.subs[i].durlen > 19 THEN r.subs[i].durlen ELSE 19)
                  /\ r.subs[i].msg = e.lines[i].txt
\* the form a line takes in GetLastUnexpectedLogs: no colours, no duplicates marker, any counter
Plainly(r) == [r EXCEPT !.c0 = 0, !.c1 = 0, !.dupn = 0, !.ctr = 0, !.mt = <<>>,
                        !.subs = [i \in 1..Len(r.subs) |-> [r.subs[i] EXCEPT !.c0 = 0, !.c1 = 0]]]
Last(s, n) == IF Len(s) > n THEN SubSeq(s, Len(s) - n + 1, Len(s)) ELSE s

\* The adapter received a message (ev): it is the head of pend - with ev.dups identical plain lines behind it -
\* or one of the lines logged before Start.  Result: the set of possible successor states (empty: rejected).
MsgOK(ev, e) ==
    /\ ev.txt = e.txt /\ ev.sev = e.sev
    /\ ev.file = Sites[e.site].file /\ ev.line = Sites[e.site].line
    /\ e.t0 <= ev.tus /\ ev.tus <= e.t1
    /\ ev.r.ts = ev.r.mt
CtrOK(st, r) == r.ctr = NextCtr(st.pctr) \/ (st.pun /\ r.ctr = NextCtr(NextCtr(st.pctr)))
Written(st, ev, e) ==
    [st EXCEPT !.pctr = ev.r.ctr, !.pun = Unexpected(e),
               !.ring = IF Unexpected(e) THEN Last(Append(@, Plainly(ev.r)), 10) ELSE @]
OutStates(st, ev) ==
    (IF /\ Len(st.pend) >= ev.dups + 1
        /\ \A k \in 2..(ev.dups + 1) : SamePlain(st.pend[1], st.pend[k])
        /\ MsgOK(ev, st.pend[1]) /\ RenderOK(ev.r, st.pend[1], ev.dups, TRUE) /\ CtrOK(st, ev.r)
     THEN {[Written(st, ev, st.pend[1]) EXCEPT !.pend = SubSeq(st.pend, ev.dups + 2, Len(st.pend))]}
     ELSE {})
    \cup
    { [Written(st, ev, st.pre[k]) EXCEPT !.pre = SubSeq(st.pre, 1, k - 1) \o SubSeq(st.pre, k + 1, Len(st.pre))]
      : k \in {k \in 1..Len(st.pre) : /\ ev.dups = 0 /\ st.pre[k].may /\ MsgOK(ev, st.pre[k])
                                      /\ RenderOK(ev.r, st.pre[k], 0, TRUE) /\ CtrOK(st, ev.r)} }

\* GetLastUnexpectedLogs
UnexpOK(st, un) == /\ Len(un) = Len(st.ring)
                   /\ \A i \in 1..Len(un) : un[i].ctr \in 1..999 /\ un[i].ctrw = 3 /\ Plainly(un[i]) = st.ring[i]
\* everything handed over before the synchronisation line has been written
Drained(st) == st.pend = <<>>
\* after Shutdown: nothing that had to be written is missing
Finished(st) == st.pend = <<>> /\ \A k \in 1..Len(st.pre) : ~st.pre[k].must
====
