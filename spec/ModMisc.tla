---- MODULE ModMisc ----
\* Extension X15: package modules beyond C01/C05/C06/C07/C15/X01/X05 - the failure-status API, the status
\* predicates and the status export, module error reports, RunWorker / StartServiceWorker, and the global
\* Start / Shutdown flow (global prep and shutdown functions, command line operation, exit code).
\*
\* STATEMENT (derived from the doc comments of modules/status.go, error.go, worker.go, start.go, stop.go, exit.go,
\* cmd.go, export.go, mgmt.go and from how run/main.go uses the package). For every sequence of API calls, observed
\* at quiet points (no call in flight, notification workers finished):
\*
\* F1  Hint/Warning/Error(id, title, msg) on a module whose current failure id differs from id sets the failure status
\*     to (hint < warning < error, id, msg); FailureStatus() returns exactly that until the next change. A call with
\*     the id of the current failure is ignored: FailureStatus() is unchanged and nothing is announced (F3).
\* F2  Resolve(id) clears the failure (FailureNone, "", "") if id is the current failure id or id is ""; otherwise it
\*     changes nothing. A failure set while the module is not online is kept (nothing in the docs refuses it).
\* F3  the function given to SetFailureUpdateNotifyFunc is called on every change of a failure status (and not for
\*     calls that are ignored or resolve nothing that is there): with
\*     (FailureNone, previous id) for a failure that is replaced or resolved - never later than the announcement of
\*     its successor - and with (status, id, title, msg) of the new failure, unaltered.
\* F4  a stopped module carries no failure any more (stop resolves it); a failed start leaves the module offline with
\*     the error "<module>:start-failed", a failed prep with "<module>:prep-failed".
\* P1  Status() is dead before Start, offline after a successful prep, online after a successful start, offline again
\*     after stop; Online() <=> Status() = online; IsStopping() and a closed Stopping() channel exactly from the stop of
\*     the module on; OnlineSoon() is true for an online module that is not stopping and false once it is stopping
\*     (or when module management is on and the module is neither enabled nor needed).
\* P2  GetStatus() is nil before Start and afterwards agrees, module by module, with Status(), FailureStatus(),
\*     Enabled() and the number of running workers.
\* R1  module.New*Message/NewPanicError carry module name, task name, severity; Report() never blocks; the report is
\*     delivered to the channel given to SetErrorReportingChannel iff that channel has room, in report order; without
\*     a channel it is dropped; GetLastReportedError() is the last report in every case. Recovered worker panics and
\*     failed prep/start/stop routines are reported the same way.
\* W1  RunWorker(fn) returns fn's error (identity preserved), nil for nil, a *ModuleError (IsPanic) for a panic, which
\*     is also reported; the worker is counted in the module's worker count exactly while it runs and gets the
\*     module's context.
\* W2  StartServiceWorker(backoff, fn) runs fn again after an error or panic, after waiting at least
\*     (number of failures so far) * backoff (and not absurdly longer), at once after ErrRestartNow, and never again
\*     after fn returned nil or context.Canceled or after the module's context was cancelled; at no time do two
\*     instances of fn run.
\* G1  Start(): second call fails; the -help flag, a global prep function or module prep returning ErrCleanExit make it
\*     return ErrCleanExit without starting anything; the global prep function runs before every module prep; a
\*     failing (global) prep is returned as an error, naming the module; with a command line operation set, all
\*     modules are prepared, the operation runs after the last prep, nothing is started, ErrCleanExit is returned
\*     and the exit code is 1 iff the operation failed.
\* G2  a start routine that fails makes Start return an error naming the module; the modules it depends on are
\*     online, the failed module and everything depending on it are not; a following Shutdown() stops exactly the
\*     modules that are online. (The doc of Start promises an automatic shutdown, the code and run.Run do it in the
\*     caller: the model follows run.Run - Start leaves them online, Shutdown stops them.)
\* G3  Shutdown(): ShuttingDown() is closed and IsShuttingDown() true before the global shutdown function and before
\*     any stop routine runs; the global shutdown function runs first and once; every online module is stopped once,
\*     dependents first; the result is nil, or the error of a failing stop routine; every later or concurrent call
\*     returns only after the shutdown is complete and runs nothing again.
\* G4  GetExitStatusCode() blocks until Shutdown has completed and then returns the last SetExitStatusCode value.
\* M1  with module management enabled Start starts exactly the enabled modules and what they depend on; the change
\*     function is called (at least once) for every module whose status or failure status changed; Enable/Disable +
\*     ManageModules bring exactly the enabled modules and their dependencies online.
\* T1  SleepyTicker.Wait() returns the module's WaitIfSleeping() channel while the module sleeps and the ticker has
\*     no sleep interval (no tick then), and the ticker's own channel otherwise, which ticks with the normal or the
\*     sleep interval; Stop() returns and no tick is delivered after it.
\*
\* Where the docs are silent the model allows every outcome (sets / alternative successor states below).
\*
\* Shape: reference semantics at quiet points, `Step(s, o)` = set of allowed outcomes [ret, retm, st, fn]
\* (ret: set of allowed result classes, fn: set of allowed notification sequences), plus the predicates ViewOK
\* (status snapshot), LogOK (callback order of Start/Shutdown/Manage), SvcOK (service worker timing).
EXTENDS Integers, Sequences, FiniteSets, TLC

\* ------------------------------------------------------------------------------------------------ helpers
ToSet(q) == {q[i] : i \in 1..Len(q)}
DepSet(c, m) == ToSet(c.deps[m])
RECURSIVE Anc(_, _)
Anc(c, m) == LET d == DepSet(c, m) IN d \cup UNION {Anc(c, x) : x \in d}     \* dependencies point to lower numbers
Desc(c, m) == {x \in 1..c.n : m \in Anc(c, x)}
Mods(c) == 1..c.n

NoFail == [s |-> 0, id |-> "", k |-> 0]
Fail(sev, id, k) == [s |-> sev, id |-> id, k |-> k]
LifeFail(id) == [s |-> 3, id |-> id, k |-> -2]          \* k = -2: a message written by the package itself
NoRep == [sev |-> "none", m |-> 0, task |-> "", k |-> 0]
Rep(sev, m, task, k) == [sev |-> sev, m |-> m, task |-> task, k |-> k]
Note(sev, id, k) == [s |-> sev, id |-> id, k |-> k]

\* deliver reports rs (in order) to the channel: q, cap (-1: no channel)
RECURSIVE Push(_, _, _)
Push(q, cap, rs) == IF rs = <<>> THEN q
                    ELSE Push(IF Len(q) < cap THEN Append(q, Head(rs)) ELSE q, cap, Tail(rs))
Reported(s, rs) == IF rs = <<>> THEN s ELSE [s EXCEPT !.q = Push(s.q, s.cap, rs), !.last = rs[Len(rs)]]

\* reports of a failing lifecycle routine: a panic is reported as such first, then the failure as an error
CbReports(how, m, task) == IF how = "panic" THEN <<Rep("panic", m, task, 0), Rep("error", m, task, 0)>>
                           ELSE IF how = "err" THEN <<Rep("error", m, task, 0)>> ELSE <<>>

\* fa: the notifications of this operation are not constrained
Out(ret, retm, st, fn) == [ret |-> ret, retm |-> retm, st |-> st, fn |-> fn, fa |-> FALSE]
OutAny(ret, retm, st) == [ret |-> ret, retm |-> retm, st |-> st, fn |-> {<<>>}, fa |-> TRUE]

\* modules that are to run: all of them, or (management) the enabled ones and their dependencies
Needed(c, en) == UNION {Anc(c, m) : m \in {x \in Mods(c) : en[x]}}
Target(c, en) == IF c.mgmt THEN {m \in Mods(c) : en[m]} \cup Needed(c, en) ELSE Mods(c)

InitState(c) == [cfg |-> c, ph |-> "init", locked |-> FALSE, started |-> FALSE, gsd |-> FALSE,
                 ms |-> [m \in Mods(c) |-> "dead"], fs |-> [m \in Mods(c) |-> NoFail],
                 stopped |-> [m \in Mods(c) |-> FALSE], live |-> [m \in Mods(c) |-> 0],
                 en |-> c.en, dep |-> [m \in Mods(c) |-> FALSE],
                 sleep |-> [m \in Mods(c) |-> FALSE],
                 runs |-> 0, q |-> <<>>, cap |-> -1, last |-> NoRep, exit |-> 0]

\* ------------------------------------------------------------------------------------------------ failure API
FailStep(s, o) ==
  LET cur == s.fs[o.m] IN
  IF o.a = cur.id
  THEN {Out({"ok"}, 0, s, {<<>>})}         \* ignored: nothing changes, nothing is announced
  ELSE {Out({"ok"}, 0, [s EXCEPT !.fs[o.m] = Fail(o.k, o.a, o.n)],
            IF s.cfg.notify
            THEN {(IF cur.id # "" THEN <<Note(0, cur.id, -1)>> ELSE <<>>) \o <<Note(o.k, o.a, o.n)>>}
            ELSE {<<>>})}

ResolveStep(s, o) ==
  LET cur == s.fs[o.m] IN
  IF o.a = "" \/ o.a = cur.id
  THEN {Out({"ok"}, 0, [s EXCEPT !.fs[o.m] = NoFail],
            IF ~s.cfg.notify THEN {<<>>}
            ELSE IF cur.id # "" THEN {<<Note(0, cur.id, -1)>>}
            ELSE {<<>>, <<Note(0, "", -1)>>})}
  ELSE {Out({"ok"}, 0, s, {<<>>})}

\* ------------------------------------------------------------------------------------------------ reports
ReportStep(s, o) == {Out({"ok"}, 0, Reported(s, <<Rep(o.a, o.m, IF o.a = "info" THEN "" ELSE "tk", o.n)>>), {<<>>})}
SetChanStep(s, o) == {Out({"ok"}, 0, [s EXCEPT !.q = <<>>, !.cap = o.k], {<<>>})}
DrainStep(s, o) == {Out({"ok"}, 0, [s EXCEPT !.q = <<>>], {<<>>})}

\* ------------------------------------------------------------------------------------------------ workers
RunWorkerStep(s, o) ==
  CASE o.a = "ok"     -> {Out({"nil"}, 0, s, {<<>>})}
    [] o.a = "err"    -> {Out({"same"}, 0, s, {<<>>})}
    [] o.a = "cancel" -> {Out({"cancel"}, 0, s, {<<>>})}
    [] o.a = "panic"  -> {Out({"panic"}, 0, Reported(s, <<Rep("panic", o.m, "w", 0)>>), {<<>>})}

PanicReports(sq, m) == [i \in 1..Cardinality({j \in 1..Len(sq) : sq[j] = "panic"}) |-> Rep("panic", m, "svc", 0)]
ServiceStep(s, o) ==
  LET s1 == Reported(s, PanicReports(o.sq, o.m))
      hold == o.a \in {"hold", "holderr"} IN
  IF s.stopped[o.m] THEN {Out({"ok"}, 0, s, {<<>>})}      \* a stopped module runs no new service worker
  ELSE {Out({"ok"}, 0, [s1 EXCEPT !.runs = @ + Len(o.sq) + 1, !.live[o.m] = IF hold THEN @ + 1 ELSE @], {<<>>})}

\* observed: sv = [runs, conc, gaps (microseconds between the end of a run and the start of the next)]
FailsUpTo(sq, i) == Cardinality({j \in 1..i : sq[j] # "restart"})
SvcOK(s, o, sv) ==
  IF s.stopped[o.m] THEN sv.runs = 0 ELSE
  /\ sv.runs = Len(o.sq) + 1
  /\ sv.conc = 1
  /\ Len(sv.gaps) = Len(o.sq)
  /\ \A i \in 1..Len(o.sq) :
        /\ sv.gaps[i] <= 10 * i * s.cfg.unit + 10000000
        /\ (o.sq[i] # "restart" => sv.gaps[i] >= FailsUpTo(o.sq, i) * s.cfg.unit)

\* ------------------------------------------------------------------------------------------------ Start
OneOf(S) == CHOOSE x \in S : TRUE
StartStep(s, o) ==
  LET c == s.cfg
      lk == [s EXCEPT !.locked = TRUE]
      pf == {m \in Mods(c) : c.prep[m] # "ok"}
      tgt == Target(c, s.en)
      sf == {m \in tgt : c.start[m] # "ok"}
      allOff == [m \in Mods(c) |-> "off"]
      dp == [m \in Mods(c) |-> m \in Needed(c, s.en)]
  IN
  IF s.locked THEN {OutAny({"already"}, 0, s)}
  ELSE IF c.help THEN {OutAny({"clean"}, 0, [lk EXCEPT !.ph = "clean"])}
  ELSE IF c.gprep = "err" THEN {OutAny({"err:gprep"}, 0, [lk EXCEPT !.ph = "failed"])}
  ELSE IF c.gprep = "clean" THEN {OutAny({"clean"}, 0, [lk EXCEPT !.ph = "clean"])}
  ELSE IF pf # {} THEN
      \* (generated configurations have at most one failing prep routine)
      LET f == OneOf(pf)
          how == c.prep[f]
          ms1 == [m \in Mods(c) |-> IF m = f THEN "prep" ELSE IF m \in Anc(c, f) THEN "off"
                                     ELSE IF f \in Anc(c, m) THEN "dead" ELSE "unk"]
          s1 == Reported([lk EXCEPT !.ms = ms1, !.ph = IF how = "clean" THEN "clean" ELSE "failed"],
                         CbReports(how, f, "prep"))
          withF == [s1 EXCEPT !.fs[f] = LifeFail("prepfail")]
      IN IF how = "clean" THEN {OutAny({"clean"}, 0, s1), OutAny({"clean"}, 0, withF)}
         ELSE {OutAny({"err:prep"}, f, withF)}
  ELSE IF c.cmd # "none" THEN
      {OutAny({"clean"}, 0, [lk EXCEPT !.ph = "clean", !.ms = allOff, !.exit = IF c.cmd = "err" THEN 1 ELSE @])}
  ELSE IF sf = {} THEN
      {OutAny({"ok"}, 0, [lk EXCEPT !.ph = "run", !.started = TRUE, !.dep = dp,
                                    !.ms = [m \in Mods(c) |-> IF m \in tgt THEN "on" ELSE "off"]])}
  ELSE \* (at most one failing start routine among the modules to start)
      LET f == OneOf(sf)
          must == Anc(c, f)
          free == tgt \ (must \cup Desc(c, f) \cup {f})
          alts == {X \in SUBSET free : \A x \in X : (Anc(c, x) \cap free) \subseteq X}
      IN {OutAny({"err:start"}, f,
              Reported([lk EXCEPT !.ph = "failed", !.dep = dp, !.fs[f] = LifeFail("startfail"),
                                  !.ms = [m \in Mods(c) |-> IF m \in must \cup X THEN "on" ELSE "off"]],
                       CbReports(c.start[f], f, "start"))) : X \in alts}

\* ------------------------------------------------------------------------------------------------ Shutdown
ShutdownStep(s, o) ==
  LET c == s.cfg
      on == {m \in Mods(c) : s.ms[m] = "on"}
      bad == {m \in on : c.stop[m] # "ok"}
      base == [s EXCEPT !.ph = "shut", !.gsd = TRUE,
                        !.ms = [m \in Mods(c) |-> IF m \in on THEN "off" ELSE s.ms[m]],
                        !.stopped = [m \in Mods(c) |-> s.stopped[m] \/ m \in on],
                        !.live = [m \in Mods(c) |-> IF m \in on THEN 0 ELSE s.live[m]],
                        !.fs = [m \in Mods(c) |-> IF m \in on THEN NoFail ELSE s.fs[m]]]
  IN
  IF s.gsd THEN {OutAny({"already", "nil"}, 0, s)}
  ELSE IF bad = {} THEN {OutAny({"nil"}, 0, base)}
  ELSE \* (at most one failing stop routine); whether the stop error survives the final Resolve is left open
      LET f == OneOf(bad)
          s1 == Reported(base, CbReports(c.stop[f], f, "stop"))
      IN {OutAny({"err:stop"}, 0, s1), OutAny({"err:stop"}, 0, [s1 EXCEPT !.fs[f] = LifeFail("stopfail")])}

\* ------------------------------------------------------------------------------------------------ management
ToggleStep(s, o) == {OutAny({IF s.en[o.m] # (o.k = 1) THEN "changed" ELSE "same"}, 0, [s EXCEPT !.en[o.m] = (o.k = 1)])}

\* ManageModules: generated only in phase "run" of configurations whose start and stop routines all succeed
ManageStep(s, o) ==
  LET c == s.cfg
      tgt == Target(c, s.en)
      stop == {m \in Mods(c) : s.ms[m] = "on" /\ m \notin tgt}
      start == {m \in tgt : s.ms[m] = "off"}
  IN IF ~c.mgmt \/ s.gsd THEN {OutAny({"nil"}, 0, s)}
     ELSE {OutAny({"nil"}, 0, [s EXCEPT !.dep = [m \in Mods(c) |-> m \in Needed(c, s.en)],
                                    !.ms = [m \in Mods(c) |-> IF m \in stop THEN "off" ELSE IF m \in start THEN "on" ELSE s.ms[m]],
                                    !.stopped = [m \in Mods(c) |-> IF m \in stop THEN TRUE ELSE IF m \in start THEN FALSE ELSE s.stopped[m]],
                                    !.live = [m \in Mods(c) |-> IF m \in stop \cup start THEN 0 ELSE s.live[m]],
                                    !.fs = [m \in Mods(c) |-> IF m \in stop THEN NoFail ELSE s.fs[m]]])}

\* ------------------------------------------------------------------------------------------------ exit code, sleep
SetExitStep(s, o) == {Out({"ok"}, 0, [s EXCEPT !.exit = o.k], {<<>>})}
GetExitStep(s, o) == {IF s.gsd THEN Out({"code"}, s.exit, s, {<<>>}) ELSE Out({"blocked"}, 0, s, {<<>>})}
SleepStep(s, o) == {Out({"ok"}, 0, [s EXCEPT !.sleep[o.m] = (o.k = 1)], {<<>>})}
\* a sleepy ticker of module o.m with (o.k = 1) or without (o.k = 0) a sleep interval: which channel Wait() returns
TickStep(s, o) == {Out({IF s.sleep[o.m] /\ o.k = 0 THEN "sleepwait" ELSE "ticker"}, 0, s, {<<>>})}

Step(s, o) ==
  CASE o.op = "fail"      -> FailStep(s, o)
    [] o.op = "resolve"   -> ResolveStep(s, o)
    [] o.op = "report"    -> ReportStep(s, o)
    [] o.op = "setchan"   -> SetChanStep(s, o)
    [] o.op = "drain"     -> DrainStep(s, o)
    [] o.op = "runworker" -> RunWorkerStep(s, o)
    [] o.op = "service"   -> ServiceStep(s, o)
    [] o.op = "start"     -> StartStep(s, o)
    [] o.op \in {"shutdown", "shutdown2"} -> ShutdownStep(s, o)
    [] o.op = "toggle"    -> ToggleStep(s, o)
    [] o.op = "manage"    -> ManageStep(s, o)
    [] o.op = "setexit"   -> SetExitStep(s, o)
    [] o.op = "getexit"   -> GetExitStep(s, o)
    [] o.op = "sleep"     -> SleepStep(s, o)
    [] o.op = "tick"      -> TickStep(s, o)

\* uniform operation record
Op(op, m, a, k, n, sq) == [op |-> op, m |-> m, a |-> a, k |-> k, n |-> n, sq |-> sq]

\* ------------------------------------------------------------------------------------------------ snapshots
StatusName == <<"dead", "preparing", "offline", "stopping", "starting", "online">>
FailName == <<"", "hint", "warning", "error">>
StatusOf(x) == CASE x = "dead" -> {0} [] x = "prep" -> {1} [] x = "off" -> {2} [] x = "on" -> {5} [] x = "unk" -> {0, 1, 2}

\* enabledAsDependency is only refreshed by Start / ManageModules: s.dep is what they left behind
MgmtOut(s, m) == s.cfg.mgmt /\ ~s.en[m] /\ ~s.dep[m]
SoonAllowed(s, m) ==
  IF MgmtOut(s, m) THEN {FALSE}
  ELSE IF s.stopped[m] THEN {FALSE}
  ELSE IF s.ms[m] = "on" THEN {TRUE}
  ELSE BOOLEAN

\* v: [mods: per module [st, fs, fid, fk, online, soon, stopping, ctxdone, wk, est, efs, efid, efk, een, sleeping],
\*     starting, sdflag, sdch, nil, last]
ModOK(s, m, v, nil) ==
  /\ v.st \in StatusOf(s.ms[m])
  /\ v.fs = s.fs[m].s /\ v.fid = s.fs[m].id /\ v.fk = s.fs[m].k
  /\ v.online = (v.st = 5)
  /\ v.stopping = s.stopped[m]
  /\ v.ctxdone = s.stopped[m]
  /\ v.soon \in SoonAllowed(s, m)
  /\ v.sleeping = s.sleep[m]
  /\ IF nil THEN v.wk = -1
     ELSE /\ v.wk = s.live[m]
          /\ v.est = StatusName[v.st + 1]
          /\ v.efs = FailName[v.fs + 1] /\ v.efid = v.fid /\ v.efk = v.fk
          /\ v.een = s.en[m]
ViewOK(s, v) ==
  /\ Len(v.mods) = s.cfg.n
  /\ v.nil = ~s.locked
  /\ \A m \in Mods(s.cfg) : ModOK(s, m, v.mods[m], v.nil)
  /\ v.sdflag = s.gsd /\ v.sdch = s.gsd
  /\ (s.ph = "init" => v.starting)
  /\ (s.started => ~v.starting)
  /\ v.last = s.last

\* ------------------------------------------------------------------------------------------------ callback order
\* lg: sequence of [t (gprep, prep, cmd, start, gshut, stop), m, sd (ShuttingDown closed and IsShuttingDown)]
Pos(lg, t, m) == {i \in 1..Len(lg) : lg[i].t = t /\ lg[i].m = m}
Kind(lg, t) == {i \in 1..Len(lg) : lg[i].t = t}
MSet(lg, t) == {lg[i].m : i \in Kind(lg, t)}
AtMostOnce(lg) == \A i, j \in 1..Len(lg) : (lg[i].t = lg[j].t /\ lg[i].m = lg[j].m) => i = j

PrepAllOk(c) == \A m \in Mods(c) : c.prep[m] = "ok"
StartBodyOK(c, t, lg) ==
  \* preparation: after the dependencies, before any start and before the command line operation
  /\ \A i \in Kind(lg, "prep") : \A d \in Anc(c, lg[i].m) : \E j \in 1..(i - 1) : lg[j].t = "prep" /\ lg[j].m = d
  /\ \A i \in Kind(lg, "prep") : \A d \in Anc(c, lg[i].m) : c.prep[d] = "ok"
  /\ \A i \in Kind(lg, "prep"), j \in Kind(lg, "start") \cup Kind(lg, "cmd") : i < j
  /\ (PrepAllOk(c) => MSet(lg, "prep") = Mods(c))
  /\ (~PrepAllOk(c) => (Kind(lg, "start") = {} /\ Kind(lg, "cmd") = {}))
  /\ \A f \in Mods(c) : c.prep[f] # "ok" => (f \in MSet(lg, "prep") /\ Desc(c, f) \cap MSet(lg, "prep") = {})
  /\ IF c.cmd # "none" /\ PrepAllOk(c)
     THEN Kind(lg, "cmd") = {Len(lg)} /\ Kind(lg, "start") = {}
     ELSE Kind(lg, "cmd") = {}
  \* start routines: of the modules that are online afterwards, and of a module whose start failed
  /\ \A m \in Mods(c) : t.ms[m] = "on" => m \in MSet(lg, "start")
  /\ \A m \in MSet(lg, "start") : t.ms[m] = "on" \/ c.start[m] # "ok"
  /\ \A i \in Kind(lg, "start") : \A d \in Anc(c, lg[i].m) : \E j \in 1..(i - 1) : lg[j].t = "start" /\ lg[j].m = d
  /\ \A i \in 1..Len(lg) : ~lg[i].sd

StartLogOK(s, t, lg) ==
  LET c == s.cfg IN
  /\ AtMostOnce(lg)
  /\ Kind(lg, "stop") = {} /\ Kind(lg, "gshut") = {}
  /\ IF s.locked \/ c.help THEN lg = <<>>
     ELSE /\ IF c.gprep = "none" THEN Kind(lg, "gprep") = {} ELSE Kind(lg, "gprep") = {1}
          /\ (c.gprep \in {"err", "clean"} => Len(lg) = 1)
          /\ (c.gprep \notin {"err", "clean"} => StartBodyOK(c, t, lg))

ShutLogOK(s, t, lg) ==
  LET c == s.cfg
      on == {m \in Mods(c) : s.ms[m] = "on"} IN
  /\ AtMostOnce(lg)
  /\ IF s.gsd THEN lg = <<>>
     ELSE /\ \A i \in 1..Len(lg) : lg[i].t \in {"gshut", "stop"} /\ lg[i].sd
          /\ IF c.gshut THEN Kind(lg, "gshut") = {1} ELSE Kind(lg, "gshut") = {}
          /\ MSet(lg, "stop") = on
          /\ \A i, j \in Kind(lg, "stop") : i < j => lg[i].m \notin Anc(c, lg[j].m)

ManageLogOK(s, t, lg) ==
  LET c == s.cfg IN
  /\ AtMostOnce(lg)
  /\ \A i \in 1..Len(lg) : lg[i].t \in {"start", "stop"}
  /\ MSet(lg, "stop") = {m \in Mods(c) : s.ms[m] = "on" /\ t.ms[m] = "off"}
  /\ MSet(lg, "start") = {m \in Mods(c) : s.ms[m] = "off" /\ t.ms[m] = "on"}
  /\ \A i \in Kind(lg, "stop"), j \in Kind(lg, "start") : i < j

\* Start returns at the first failing prep routine without waiting for the prep routines of unrelated modules that
\* are still running (status "unk"): their entries may show up in the log of a later operation
Late(s, lg) == SelectSeq(lg, LAMBDA e : ~(e.t = "prep" /\ e.m \in Mods(s.cfg) /\ s.ms[e.m] = "unk"))
LogOK(s, o, t, lg0) ==
  LET lg == Late(s, lg0) IN
  CASE o.op = "start" -> StartLogOK(s, t, lg)
    [] o.op \in {"shutdown", "shutdown2"} -> ShutLogOK(s, t, lg)
    [] o.op = "manage" -> ManageLogOK(s, t, lg)
    [] OTHER -> lg = <<>>

\* module change notifications (management on): at least one for every module whose status or failure changed
ChangedMods(s, t) == {m \in Mods(s.cfg) : (s.ms[m] # t.ms[m] /\ t.ms[m] # "unk") \/ s.fs[m] # t.fs[m]}
ChgOK(s, t, chg) == s.cfg.mgmt => ChangedMods(s, t) \subseteq ToSet(chg)

\* notifications of the failure update function
NotesOK(x, fnotes) == x.fa \/ fnotes \in x.fn

\* ------------------------------------------------------------------------------------------------ laws of the reference
Laws(s) ==
  LET c == s.cfg IN
  /\ \A m \in Mods(c) :
        /\ (s.fs[m].s = 0) = (s.fs[m].id = "")
        /\ s.fs[m].s \in 0..3
        /\ (s.stopped[m] => s.ms[m] # "on")
        /\ (s.live[m] > 0 /\ s.gsd => s.ms[m] # "on")
        /\ (s.ms[m] = "on" => \A d \in Anc(c, m) : s.ms[d] = "on")          \* nothing runs without its dependencies
  /\ Len(s.q) <= (IF s.cap < 0 THEN 0 ELSE s.cap)
  /\ (s.q # <<>> => s.last # NoRep)
  /\ (s.gsd => \A m \in Mods(c) : s.ms[m] # "on")
  /\ (s.ph = "run" => s.locked /\ s.started)
  /\ (s.ph = "clean" => \A m \in Mods(c) : s.ms[m] # "on")
  /\ (~s.locked => \A m \in Mods(c) : s.ms[m] = "dead")
====
