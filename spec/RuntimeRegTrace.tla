---- MODULE RuntimeRegTrace ----
\* Validates what the Go runtime registry did (driver harness/cmd/rtreg) against spec/RuntimeReg.tla (X03).
\* trace.ndjson, one JSON object per line:
\*   {"e":"new"}     a fresh registry and database (start of one recorded history)
\*   {"e":"race","keys":[k..],"errs":[..],"regs":[k..]}   concurrent registrations, their results and
\*        GetRegistrationKeys() afterwards
\*   {"e":"op","op":{...},"res":{"err","v","rk","recs":[{k,v}..],"feeds":[[{k,v}..]..]},
\*    "calls":[{p,m,k}..],"stores":[{p,k,v}..],"vis":[{k,v}..],"regkeys":[k..],"dbn":0|1|2}
\*        one operation with what it returned, what every subscription received during it, the calls
\*        the providers saw, what the providers hold afterwards and what Get shows afterwards for every
\*        key of the history (read through the database while the call log is switched off),
\*        GetRegistrationKeys() and DatabaseName() (0 = "", 1 = the database of the history)
EXTENDS RuntimeReg, Json

Trace == ndJsonDeserialize("trace.ndjson")

VARIABLES st, l
vars == <<st, l>>

Init == st = Empty /\ l = 1

New == /\ l <= Len(Trace) /\ Trace[l].e = "new"
       /\ st' = Empty
       /\ l' = l + 1

Match(x, ev) ==
    /\ IF x.res.err = "anyerr" THEN ev.res.err # "ok" ELSE ev.res.err = x.res.err
    /\ ev.res.v = x.res.v
    /\ ev.res.rk = x.res.rk
    /\ SeqIsPermOfSet(ev.res.recs, x.res.recs)
    /\ ev.res.feeds = x.res.feeds
    /\ SeqIsPermOfSet(ev.stores, x.st.store)
    /\ IF x.st.inj THEN SeqIsPermOfSet(ev.vis, Visible(x.st)) ELSE ev.vis = <<>>
    /\ SeqIsPermOfSet(ev.regkeys, {KeyOf(x.st, p) : p \in Pids(x.st)})
    /\ ev.dbn = (IF x.st.inj THEN 1 ELSE 0)

\* a provider-side step must make sense in the state the model is in: a provider that exists and keys it
\* is responsible for (the driver leaves out generated steps that do not apply to what it observed)
WellFormed(o) == o.op \in {"poke", "push"} =>
    /\ o.p \in Pids(st)
    /\ Covers(KeyOf(st, o.p), o.k)
    /\ (o.op = "push" /\ o.v2 # 0 => Covers(KeyOf(st, o.p), o.k2) /\ KindOf(st, o.p) # "single")
    /\ (o.op = "poke" => \/ KindOf(st, o.p) \in {"rw", "sloppy", "ro"}
                         \/ KindOf(st, o.p) = "single" /\ o.v # 0)

DoOp == /\ l <= Len(Trace) /\ Trace[l].e = "op"
        /\ WellFormed(Trace[l].op)
        /\ CallsOK(st, Trace[l].op, Trace[l].calls)
        /\ \E x \in Step(st, Trace[l].op) :
              /\ Match(x, Trace[l])
              /\ st' = x.st
        /\ l' = l + 1

\* registrations racing each other at the start of a history (each from its own goroutine): the outcome
\* must be the outcome of the same registrations made one after the other in SOME order (Register is
\* atomic); the successful ones become providers 1.. in the order of the list
RegOp(k) == Op("register", k, 0, 0, "rw", <<>>, 0)
RECURSIVE RaceOK(_, _, _, _)
RaceOK(s, keys, errs, todo) ==
    IF todo = {} THEN TRUE
    ELSE \E i \in todo : \E x \in Step(s, RegOp(keys[i])) :
            /\ (IF x.res.err = "anyerr" THEN errs[i] # "ok" ELSE errs[i] = x.res.err)
            /\ RaceOK(x.st, keys, errs, todo \ {i})
RECURSIVE Winners(_, _, _)
Winners(keys, errs, i) == IF i > Len(keys) THEN <<>>
                          ELSE (IF errs[i] = "ok" THEN <<[key |-> keys[i], kind |-> "rw"]>> ELSE <<>>) \o Winners(keys, errs, i + 1)
Race == /\ l <= Len(Trace) /\ Trace[l].e = "race"
        /\ st = Empty
        /\ Len(Trace[l].keys) = Len(Trace[l].errs)
        /\ RaceOK(Empty, Trace[l].keys, Trace[l].errs, 1..Len(Trace[l].keys))
        /\ LET w == Winners(Trace[l].keys, Trace[l].errs, 1) IN
              /\ SeqIsPermOfSet(Trace[l].regs, {w[i].key : i \in 1..Len(w)})
              /\ st' = [Empty EXCEPT !.regs = w]
        /\ l' = l + 1

Next == New \/ DoOp \/ Race
Spec == Init /\ [][Next]_vars

Accepted == TLCGet("stats").diameter - 1 = Len(Trace)
====
