---- MODULE RngGen ----
\* Vectors for package rng and laws of the comparison the model uses.
EXTENDS Rng, Json, TLC

VARIABLE x
Top == <<65535, 65535, 65535, 65535>>
Zero == <<0, 0, 0, 0>>
Maxes == { Zero, <<0, 0, 0, 1>>, <<0, 0, 0, 2>>, <<0, 0, 0, 3>>, <<0, 0, 0, 6>>, <<0, 0, 0, 255>>, <<0, 0, 0, 256>>, <<0, 0, 0, 65535>>,
           <<0, 0, 1, 0>>, <<0, 0, 65535, 65535>>, <<0, 1, 0, 0>>, <<32767, 65535, 65535, 65535>>, <<32768, 0, 0, 0>>, <<32768, 0, 0, 1>>,
           <<43690, 43690, 43690, 43690>>, <<65535, 65535, 65535, 65534>>, Top }
Lens == {0, 1, 2, 15, 16, 17, 31, 32, 33, 1000, 4096, 65536, 70001}
Fns == {"bytes", "read", "reader"}
SetToSeq(S) == LET RECURSIVE f(_) f(T) == IF T = {} THEN <<>> ELSE LET e == CHOOSE e \in T : TRUE IN <<e>> \o f(T \ {e}) IN f(S)
Calls == { [fn |-> f, n |-> n, max |-> Zero] : f \in Fns, n \in Lens } \cup { [fn |-> "number", n |-> 0, max |-> m] : m \in Maxes }
Before == { [fn |-> f, n |-> 16, max |-> <<0, 0, 0, 100>>] : f \in Fns \cup {"number"} }

Init == x = 0 /\ PrintT(<<"@@", ToJson([before |-> SetToSeq(Before), calls |-> SetToSeq(Calls)])>>)
Next == x < 1 /\ x' = x + 1
Spec == Init /\ [][Next]_x

\* the limb comparison is a total order with Zero and Top as its ends; the allowed results of Number(0) are just 0
Laws == /\ \A a, b \in Maxes : (Leq(a, b) \/ Leq(b, a)) /\ ((Leq(a, b) /\ Leq(b, a)) => a = b)
        /\ \A a, b, c \in Maxes : (Leq(a, b) /\ Leq(b, c)) => Leq(a, c)
        /\ \A a \in Maxes : Leq(Zero, a) /\ Leq(a, Top)
        /\ \A a \in Maxes : Leq(a, Zero) => a = Zero
        /\ \A c \in Calls : ~CallOK([c EXCEPT !.fn = c.fn] @@ [phase |-> "after"], [ok |-> FALSE, len |-> 0, num |-> Zero])
        /\ \A c \in Before : CallOK(c @@ [phase |-> "before"], [ok |-> FALSE, len |-> 0, num |-> Zero])
                             /\ ~CallOK(c @@ [phase |-> "before"], [ok |-> TRUE, len |-> c.n, num |-> Zero])
====
