---- MODULE USyncOnce ----
\* Implementation-shaped model of utils.OnceAgain (utils/onceagain.go): one action per atomic operation /
\* critical section of Do and doSlow.  TLC checks the contract monitor USyncBundle (B1 B2 B3 B6) for every
\* interleaving of NP processes making Calls calls each, that the object is back in its initial state
\* whenever no call is in progress, and that no call can get stuck (deadlock check).
\*
\* Variant "real" is the code.  Variant "cas" is the implementation the doc comment of Do calls incorrect
\* (compare-and-swap, the loser returns at once): the monitor must reject it (model sensitivity).
EXTENDS USyncBundle, Sequences

CONSTANTS NP, Calls, Variant, Panics

VARIABLES pc, left, done, waiters, mu, pan, m
vars == <<pc, left, done, waiters, mu, pan, m>>

P == 1..NP

Init == /\ pc = [p \in P |-> "idle"]
        /\ left = [p \in P |-> Calls]
        /\ done = 0 /\ waiters = 0 /\ mu = 0
        /\ pan = [p \in P |-> FALSE]
        /\ m = BInit(NP, FALSE, 0, 0)

Go(p, l) == pc' = [pc EXCEPT ![p] = l]

Call(p) == /\ pc[p] = "idle" /\ left[p] > 0
           /\ m' = BCall(m, p)
           /\ pan' = [pan EXCEPT ![p] = FALSE]
           /\ Go(p, "load")
           /\ UNCHANGED <<left, done, waiters, mu>>

\* if atomic.LoadUint32(&o.done) == 0 { o.doSlow(f) }
Load(p) == /\ pc[p] = "load"
           /\ IF Variant = "cas"
              THEN IF done = 0 THEN done' = 1 /\ Go(p, "fs") ELSE done' = done /\ Go(p, "retn")
              ELSE done' = done /\ Go(p, IF done = 0 THEN "inc" ELSE "retn")
           /\ UNCHANGED <<left, waiters, mu, pan, m>>

\* atomic.AddInt32(&o.waiters, 1)
Inc(p) == /\ pc[p] = "inc" /\ waiters' = waiters + 1 /\ Go(p, "lock")
          /\ UNCHANGED <<left, done, mu, pan, m>>

\* o.m.Lock()
Lock(p) == /\ pc[p] = "lock" /\ mu = 0 /\ mu' = p /\ Go(p, "check")
           /\ UNCHANGED <<left, done, waiters, pan, m>>

\* if o.done == 0 {
Check(p) == /\ pc[p] = "check" /\ Go(p, IF done = 0 THEN "fs" ELSE "unlock")
            /\ UNCHANGED <<left, done, waiters, mu, pan, m>>

\* f()
Fs(p) == /\ pc[p] = "fs" /\ m' = BFs(m, p, 0) /\ Go(p, "fe")
         /\ UNCHANGED <<left, done, waiters, mu, pan>>

Fe(p) == /\ pc[p] = "fe"
         /\ \E b \in (IF Panics THEN BOOLEAN ELSE {FALSE}) :
               /\ m' = BFe(m, p, 0, b)
               /\ pan' = [pan EXCEPT ![p] = b]
         /\ Go(p, IF Variant = "cas" THEN "retn" ELSE "store")
         /\ UNCHANGED <<left, done, waiters, mu>>

\* defer atomic.StoreUint32(&o.done, 1)
Store(p) == /\ pc[p] = "store" /\ done' = 1 /\ Go(p, "unlock")
            /\ UNCHANGED <<left, waiters, mu, pan, m>>

\* defer o.m.Unlock()
Unlock(p) == /\ pc[p] = "unlock" /\ mu' = 0 /\ Go(p, "dec")
             /\ UNCHANGED <<left, done, waiters, pan, m>>

\* if atomic.AddInt32(&o.waiters, -1) == 0 {
Dec(p) == /\ pc[p] = "dec" /\ waiters' = waiters - 1
          /\ Go(p, IF waiters - 1 = 0 THEN "reset" ELSE "retn")
          /\ UNCHANGED <<left, done, mu, pan, m>>

\* atomic.StoreUint32(&o.done, 0) // reset
Reset(p) == /\ pc[p] = "reset" /\ done' = 0 /\ Go(p, "retn")
            /\ UNCHANGED <<left, waiters, mu, pan, m>>

Ret(p) == /\ pc[p] = "retn"
          /\ m' = BRet(m, p, pan[p])
          /\ left' = [left EXCEPT ![p] = @ - 1]
          /\ Go(p, "idle")
          /\ UNCHANGED <<done, waiters, mu, pan>>

Terminated == /\ \A p \in P : pc[p] = "idle" /\ left[p] = 0
              /\ UNCHANGED vars

Next == \/ \E p \in P : Call(p) \/ Load(p) \/ Inc(p) \/ Lock(p) \/ Check(p) \/ Fs(p) \/ Fe(p)
                        \/ Store(p) \/ Unlock(p) \/ Dec(p) \/ Reset(p) \/ Ret(p)
        \/ Terminated

Spec == Init /\ [][Next]_vars

Contract == m.bad = ""
\* "automatically reused when the function was executed and everyone who waited has left"
Reusable == (\A p \in P : pc[p] = "idle") => (done = 0 /\ waiters = 0 /\ mu = 0)
MutexOK == mu = 0 \/ pc[mu] \in {"check", "fs", "fe", "store", "unlock"}
====
