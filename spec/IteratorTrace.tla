---- MODULE IteratorTrace ----
\* Monitor for the events recorded by harness/cmd/dbx (kind "iter") around a real iterator.Iterator (C02):
\*   {"e":"reset","err":E}   a new iterator; the producer is going to finish it with error class E
\*   {"e":"fin"} {"e":"finret"}   the producer calls Finish / Finish returned
\*   {"e":"end","n":k}       the consumer drained k records and saw the stream end
\*   {"e":"err","v":V}       the consumer called Err() and got error class V
\*   {"e":"slowq","total":T,"n":k,"v":V,"panic":P}   a real backend with T matching records and a consumer that
\*        started late: it received k records before the stream ended and Err() then gave class V
\*   {"e":"bulk","total":T,"purged":P,"left":L,"controls":C,"v":V,"panic":X}   a purge of T records below one prefix
\* Rules: once the consumer has seen the end of the stream, Err() is the producer's error; a stream that ends
\* with fewer records than the query selects ends with an error, a complete one without.
EXTENDS Integers, Sequences, TLC, Json

Trace == ndJsonDeserialize("trace.ndjson")

VARIABLES l, want, ended, items
vars == <<l, want, ended, items>>

Init == l = 1 /\ want = "nil" /\ ended = FALSE /\ items = 0

Step == /\ l <= Len(Trace)
        /\ LET ev == Trace[l] IN
           CASE ev.e = "reset" -> want' = ev.err /\ ended' = FALSE /\ items' = ev.items
             [] ev.e = "end"   -> ev.n = items /\ ended' = TRUE /\ UNCHANGED <<want, items>>
             [] ev.e = "err"   -> (ended => ev.v = want) /\ UNCHANGED <<want, ended, items>>
             [] ev.e = "slowq" -> /\ ev.panic = ""
                                  /\ \/ ev.n = ev.total /\ ev.v = "nil"
                                     \/ ev.n < ev.total /\ ev.v # "nil"
                                  /\ UNCHANGED <<want, ended, items>>
             \* kind "bulk": total records below one prefix were written, the prefix was purged: a backend that implements
             \* Purge reports exactly that many, nothing is left below the prefix, the three records next to it are
             \* still there (large purges are done in several storage batches)
             [] ev.e = "bulk"  -> /\ ev.panic = ""
                                  /\ \/ ev.v = "notimpl"
                                     \/ ev.v = "nil" /\ ev.purged = ev.total /\ ev.left = 0 /\ ev.controls = 3
                                  /\ UNCHANGED <<want, ended, items>>
             [] OTHER          -> UNCHANGED <<want, ended, items>>
        /\ l' = l + 1

Spec == Init /\ [][Step]_vars
Accepted == TLCGet("stats").diameter - 1 = Len(Trace)
====
