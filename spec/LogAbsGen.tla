---- MODULE LogAbsGen ----
\* Generates logging workloads from LogAbs: per-producer programs separated by barriers at which levels
\* change (so that "the level in force" is well defined for every line), and checks on the way that the
\* abstract model itself keeps its promises (everything pending is eventually written in order).
EXTENDS LogAbs, Json

CONSTANTS NP, MaxOps, Emit,
          Rerun   \* bias the workload towards tracer operations that run again around level changes
VARIABLES hist, cnt, done
gvars == <<avars, hist, cnt, done>>

Pick(S) == IF Emit THEN {RandomElement(S)} ELSE S
Txt(p, k) == <<p, k>>      \* symbolic text; the driver renders it as "p<p>-<k>"

GenInit == /\ np = NP /\ pending = [p \in 1..NP |-> <<>>] /\ global = 3 /\ pkgOn = FALSE
           /\ pkgLv = [o \in Origins |-> 0] /\ shut = "no"
           /\ hist = <<>> /\ cnt = 0 /\ done = FALSE

Ev(kind, p, origin, sev, rep, lines, a, b) ==
    [kind |-> kind, p |-> p, origin |-> origin, sev |-> sev, rep |-> rep, k |-> cnt + 1, lines |-> lines, a |-> a, b |-> b]

GLog == \E p \in Pick(1..NP) : \E o \in Pick(Origins) : \E s \in Pick(1..6) : \E r \in Pick({1, 1, 1, 2, 4}) :
           /\ Log(p, o, s, Txt(p, 100 * (cnt + 1)), r)
           /\ hist' = Append(hist, Ev("log", p, o, s, r, <<>>, 0, 0))
\* a tracer: either fresh texts, or the previous tracer operation of this producer runs again ("the same code
\* location handles the next request": same origin, texts and severities - with a level change in between the
\* first run may have produced plain lines and the second a real trace whose main line is identical)
PrevTr(p) == {i \in 1..Len(hist) : hist[i].kind = "tracer" /\ hist[i].p = p /\ Len(hist[i].lines) > 0}
LinesOf(p, k, ss) == [i \in 1..Len(ss) |-> [sev |-> ss[i], txt |-> Txt(p, 100 * k + i)]]
GTracer == \E p \in Pick(1..NP) : \E again \in Pick(IF Rerun THEN {TRUE} ELSE {FALSE, TRUE}) :
           IF again /\ PrevTr(p) # {}
           THEN LET i == CHOOSE x \in PrevTr(p) : \A y \in PrevTr(p) : y <= x
                    o == hist[i] IN
                /\ TracerSubmit(p, o.origin, LinesOf(p, o.k, o.lines))
                /\ hist' = Append(hist, [o EXCEPT !.a = 1])
           ELSE \E o \in Pick(Origins) : \E n \in Pick(0..3) : \E ss \in Pick([1..n -> 1..6]) :
                /\ TracerSubmit(p, o, LinesOf(p, cnt + 1, ss))
                /\ hist' = Append(hist, Ev("tracer", p, o, 0, 1, [i \in 1..n |-> ss[i]], 0, 0))
GLevel == \E l \in Pick(1..6) : SetLevel(l) /\ hist' = Append(hist, Ev("setlevel", 0, "logx", l, 0, <<>>, 0, 0))
GPkg == \E a \in Pick(0..6) : \E b \in Pick(0..6) :
           SetPkg(a, b) /\ hist' = Append(hist, Ev("setpkg", 0, "logx", 0, 0, <<>>, a, b))
GUnset == UnsetPkg /\ hist' = Append(hist, Ev("unsetpkg", 0, "logx", 0, 0, <<>>, 0, 0))

\* the writer: any pending head may be written (with or without merging)
GOut == /\ \E p \in 1..NP : pending[p] # <<>> /\
            LET h == pending[p][1] IN \E d \in {0, 1} : Out(h.txt, h.sev, d, h.lines)
        /\ UNCHANGED hist

GStep == /\ ~done /\ cnt < MaxOps /\ cnt' = cnt + 1 /\ done' = done
         /\ \E f \in Pick(1..12) :
               IF Rerun
               THEN CASE f <= 1 -> GLog [] f <= 7 -> GTracer [] f <= 10 -> GLevel [] f = 11 -> GPkg [] OTHER -> GUnset
               ELSE CASE f <= 7 -> GLog [] f <= 9 -> GTracer [] f = 10 -> GLevel [] f = 11 -> GPkg [] OTHER -> GUnset
GWrite == ~Emit /\ ~done /\ GOut /\ UNCHANGED <<cnt, done>>
GEmit == /\ ~done /\ cnt = MaxOps /\ done' = TRUE
         /\ (Emit => PrintT(<<"@@", ToJson([np |-> NP, ops |-> hist])>>))
         /\ UNCHANGED <<avars, hist, cnt>>
GenNext == GStep \/ GWrite \/ GEmit
GenSpec == GenInit /\ [][GenNext]_gvars

\* (holds only for workloads without re-run tracer operations; kept for reference, not checked)
Ordered == \A p \in 1..NP : \A i, j \in 1..Len(pending[p]) :
              i < j => pending[p][i].txt[2] <= pending[p][j].txt[2]
OnlyEnabled == \A p \in 1..NP : \A i \in 1..Len(pending[p]) : pending[p][i].sev \in 1..6
View == <<avars, cnt, done>>
====
