---- MODULE ConfigFlagGen ----
\* Behaviours of ConfigFlag projected to the sequence of actors taking a step at a yield point of the
\* real code = scheduling policies for the driver harness/cmd/cfgflag:
\*   "s<i>": setter i  (call .. value written | flag swapped | returned)
\*   "g<i>": caller i  (call .. flag fetched | value fetched .. returned)
EXTENDS ConfigFlag, Json

CONSTANT MaxCalls        \* getter calls per caller in one behaviour
VARIABLES hist, calls, done
gvars == <<vars, hist, calls, done>>

GenInit == Init /\ hist = <<>> /\ calls = [g \in Callers |-> 0] /\ done = FALSE

SetterMoved == {s \in Setters : spc'[s] # spc[s]}
CallerMoved == {g \in Callers : gpc'[g] # gpc[g]}
\* only the steps that start at a point where the real goroutine can be held are part of the policy
Label == IF SetterMoved # {} THEN << <<"s", CHOOSE s \in SetterMoved : TRUE>> >>
         ELSE LET g == CHOOSE x \in CallerMoved : TRUE IN
              IF gpc[g] \in {"idle", "val"} THEN << <<"g", g>> >> ELSE <<>>

Terminal == (\A s \in Setters : spc[s] = "done") /\ (\A g \in Callers : gpc[g] = "idle" /\ calls[g] >= 1)

GenStep == /\ ~done /\ Next
           /\ \A g \in Callers : (gpc[g] = "idle" /\ gpc'[g] # "idle") => calls[g] < MaxCalls
           /\ calls' = [g \in Callers |-> IF gpc[g] = "idle" /\ gpc'[g] # "idle" THEN calls[g] + 1 ELSE calls[g]]
           /\ hist' = hist \o Label
           /\ done' = done
GenEmit == /\ ~done /\ Terminal /\ done' = TRUE
           /\ PrintT(<<"@@", ToJson([ns |-> NS, callers |-> CallerClosure, policy |-> hist])>>)
           /\ UNCHANGED <<vars, hist, calls>>
GenNext == GenStep \/ GenEmit
GenSpec == GenInit /\ [][GenNext]_gvars
====
