---- MODULE UpdaterNamesTrace ----
\* Judges recorded calls of updater.GetVersionedPath / GetIdentifierAndVersion (driver harness/cmd/upd)
\* against spec/UpdaterNames.tla.  Stateless, one event per vector:
\*   {"e":"name", dir, stem, exts, maj, min, pat, pre : the vector,
\*    "name": GetVersionedPath(identifier, version), "ok","id","ver": GetIdentifierAndVersion(name), "panic"}
EXTENDS UpdaterNames, Json

Trace == ndJsonDeserialize("trace.ndjson")
VARIABLE l

Good(ev) ==
    /\ ev.panic = ""
    /\ ev.name = NameStr(ev, ev)                                     \* pair -> name
    /\ CleanStem(ev, ev) => /\ ev.ok                                 \* name -> the same pair again
                            /\ ev.id = IdentStr(ev)
                            /\ ev.ver = VersionStr(ev)

Bad == {i \in 1..Len(Trace) : ~Good(Trace[i])}
Init == l = 0 /\ PrintT(<<"@@", ToJson([bad |-> Bad, n |-> Len(Trace)])>>)
Next == l < 1 /\ l' = 1
Spec == Init /\ [][Next]_l
Accepted == TLCGet("level") >= 0 /\ Bad = {}
====
