---- MODULE StopProtocol ----
\* One module, its managed work items and the stop sequence (modules/modules.go stop/stopAllTasks/checkIfStopComplete,
\* worker.go, tasks.go executeWithLocking, microtasks.go runMicroTask/concludeMicroTask).
EXTENDS Integers, FiniteSets, Sequences, TLC

CONSTANTS NItems,    \* number of work items (1..NItems)
          K1, K2, K3, K4, \* kind of item 1..4: "worker" | "task" | "micro" (which counter it uses)
          HasStopFn, \* module has a stop function
          ManualCtrl, \* stopAllTasks sets ctrlFuncRunning before the stop flag (TRUE in the code)
          StopAfterWork, \* TRUE: the stop is requested only after every item has finished (C06 scripts)
          LateTail   \* the goroutine that ran the previous control function (the start routine) signals its end only now:
                     \* "none" (it has long finished), "own" (it ends its own invocation only: repaired tree),
                     \* "clears" (it clears the flag whoever set it: finding F-C01-2)

Items == 1..NItems
Kind == [i \in Items |-> CASE i = 1 -> K1 [] i = 2 -> K2 [] i = 3 -> K3 [] OTHER -> K4]

VARIABLES ipc,       \* item pc: "idle","counted","running","returned","decremented","chk1".."chk5","closing","done"
          cnt,       \* [kind -> Int] counters
          stopFlag, ctrl, stopCompleted, closed, ctxCancelled,
          spc,       \* stopper pc
          fpc,       \* stop function goroutine pc
          status,    \* "online","stopping","offline"
          sawCancelAtStopFn, \* ghost: ctx state when the stop fn began
          lateItems, \* ghost: items that were started after stop began
          tpc        \* pc of the late tail of the previous control function: "pending", "chk1".."chk5", "cas", "closing", "done"

vars == <<ipc, cnt, stopFlag, ctrl, stopCompleted, closed, ctxCancelled, spc, fpc, status, sawCancelAtStopFn, lateItems, tpc>>

Kinds == {"worker", "task", "micro"}

Init == /\ ipc = [i \in Items |-> "idle"]
        /\ cnt = [k \in Kinds |-> 0]
        /\ stopFlag = FALSE /\ ctrl = FALSE /\ stopCompleted = TRUE /\ closed = FALSE /\ ctxCancelled = FALSE
        /\ spc = "idle" /\ fpc = "idle" /\ status = "online"
        /\ sawCancelAtStopFn = TRUE /\ lateItems = {}
        /\ tpc = IF LateTail = "none" THEN "done" ELSE "pending"

\* ---- work items ----
Count(i) == /\ ipc[i] = "idle"
            /\ cnt' = [cnt EXCEPT ![Kind[i]] = @ + 1]
            /\ ipc' = [ipc EXCEPT ![i] = "running"]
            /\ lateItems' = IF spc # "idle" THEN lateItems \cup {i} ELSE lateItems
            /\ UNCHANGED <<stopFlag, ctrl, stopCompleted, closed, ctxCancelled, spc, fpc, status, sawCancelAtStopFn, tpc>>
\* the work function returns (only after cancellation, or any time: both allowed)
Return(i) == /\ ipc[i] = "running"
             /\ ipc' = [ipc EXCEPT ![i] = "returned"]
             /\ UNCHANGED <<cnt, stopFlag, ctrl, stopCompleted, closed, ctxCancelled, spc, fpc, status, sawCancelAtStopFn, lateItems, tpc>>
Dec(i) == /\ ipc[i] = "returned"
          /\ cnt' = [cnt EXCEPT ![Kind[i]] = @ - 1]
          /\ ipc' = [ipc EXCEPT ![i] = "chk1"]
          /\ UNCHANGED <<stopFlag, ctrl, stopCompleted, closed, ctxCancelled, spc, fpc, status, sawCancelAtStopFn, lateItems, tpc>>

\* checkIfStopComplete: five separate reads, then CAS + close. who \in Items \cup {"fn"}
ChkStep(pc, setpc(_)) ==
    \/ /\ pc = "chk1" /\ (IF stopFlag THEN setpc("chk2") ELSE setpc("done"))
    \/ /\ pc = "chk2" /\ (IF ~ctrl THEN setpc("chk3") ELSE setpc("done"))
    \/ /\ pc = "chk3" /\ (IF cnt["worker"] = 0 THEN setpc("chk4") ELSE setpc("done"))
    \/ /\ pc = "chk4" /\ (IF cnt["task"] = 0 THEN setpc("chk5") ELSE setpc("done"))
    \/ /\ pc = "chk5" /\ (IF cnt["micro"] = 0 THEN setpc("cas") ELSE setpc("done"))

ItemChk(i) == /\ ipc[i] \in {"chk1", "chk2", "chk3", "chk4", "chk5"}
              /\ ChkStep(ipc[i], LAMBDA v : ipc' = [ipc EXCEPT ![i] = v])
              /\ UNCHANGED <<cnt, stopFlag, ctrl, stopCompleted, closed, ctxCancelled, spc, fpc, status, sawCancelAtStopFn, lateItems, tpc>>
ItemCas(i) == /\ ipc[i] = "cas"
              /\ IF ~stopCompleted THEN /\ stopCompleted' = TRUE /\ ipc' = [ipc EXCEPT ![i] = "closing"]
                                   ELSE /\ UNCHANGED stopCompleted /\ ipc' = [ipc EXCEPT ![i] = "done"]
              /\ UNCHANGED <<cnt, stopFlag, ctrl, closed, ctxCancelled, spc, fpc, status, sawCancelAtStopFn, lateItems, tpc>>
ItemClose(i) == /\ ipc[i] = "closing"
                /\ Assert(~closed, "double close of stopComplete")
                /\ closed' = TRUE /\ ipc' = [ipc EXCEPT ![i] = "done"]
                /\ UNCHANGED <<cnt, stopFlag, ctrl, stopCompleted, ctxCancelled, spc, fpc, status, sawCancelAtStopFn, lateItems, tpc>>

\* ---- stopper: Module.stop + stopAllTasks ----
StopBegin == /\ spc = "idle" /\ status = "online"
             /\ StopAfterWork => \A i \in Items : ipc[i] = "done"
             /\ stopCompleted' = FALSE /\ closed' = FALSE /\ status' = "stopping"
             /\ spc' = IF ManualCtrl THEN "s1" ELSE "s2"
             /\ UNCHANGED <<ipc, cnt, stopFlag, ctrl, ctxCancelled, fpc, sawCancelAtStopFn, lateItems, tpc>>
S1 == /\ spc = "s1" /\ ctrl' = TRUE /\ spc' = "s2"
      /\ UNCHANGED <<ipc, cnt, stopFlag, stopCompleted, closed, ctxCancelled, fpc, status, sawCancelAtStopFn, lateItems, tpc>>
S2 == /\ spc = "s2" /\ stopFlag' = TRUE /\ spc' = "s3"
      /\ UNCHANGED <<ipc, cnt, ctrl, stopCompleted, closed, ctxCancelled, fpc, status, sawCancelAtStopFn, lateItems, tpc>>
S3 == /\ spc = "s3" /\ ctxCancelled' = TRUE /\ spc' = "s4"
      /\ UNCHANGED <<ipc, cnt, stopFlag, ctrl, stopCompleted, closed, fpc, status, sawCancelAtStopFn, lateItems, tpc>>
\* startCtrlFn
S4 == /\ spc = "s4"
      /\ IF HasStopFn THEN /\ ctrl' = TRUE /\ fpc' = "run" /\ sawCancelAtStopFn' = ctxCancelled
                      ELSE /\ ctrl' = FALSE /\ fpc' = "chk1" /\ UNCHANGED sawCancelAtStopFn
      /\ spc' = IF HasStopFn THEN "s5" ELSE "s4b"
      /\ UNCHANGED <<ipc, cnt, stopFlag, stopCompleted, closed, ctxCancelled, status, lateItems, tpc>>
\* without stop fn the check runs synchronously in the stopper
S4b == /\ spc = "s4b" /\ fpc \in {"done"} /\ spc' = "s5"
       /\ UNCHANGED <<ipc, cnt, stopFlag, ctrl, stopCompleted, closed, ctxCancelled, fpc, status, sawCancelAtStopFn, lateItems, tpc>>
S5 == /\ spc = "s5" /\ closed      \* wait for stopComplete (timeout not modelled: work returns within the limit)
      /\ spc' = "s7"
      /\ UNCHANGED <<ipc, cnt, stopFlag, ctrl, stopCompleted, closed, ctxCancelled, fpc, status, sawCancelAtStopFn, lateItems, tpc>>
S7 == /\ spc = "s7" /\ status' = "offline" /\ spc' = "end"
      /\ UNCHANGED <<ipc, cnt, stopFlag, ctrl, stopCompleted, closed, ctxCancelled, fpc, sawCancelAtStopFn, lateItems, tpc>>

\* ---- stop function goroutine ----
FnReturn == /\ fpc = "run" /\ fpc' = "unset"
            /\ UNCHANGED <<ipc, cnt, stopFlag, ctrl, stopCompleted, closed, ctxCancelled, spc, status, sawCancelAtStopFn, lateItems, tpc>>
FnUnset == /\ fpc = "unset" /\ ctrl' = FALSE /\ fpc' = "chk1"
           /\ UNCHANGED <<ipc, cnt, stopFlag, stopCompleted, closed, ctxCancelled, spc, status, sawCancelAtStopFn, lateItems, tpc>>
FnChk == /\ fpc \in {"chk1", "chk2", "chk3", "chk4", "chk5"}
         /\ ChkStep(fpc, LAMBDA v : fpc' = v)
         /\ UNCHANGED <<ipc, cnt, stopFlag, ctrl, stopCompleted, closed, ctxCancelled, spc, status, sawCancelAtStopFn, lateItems, tpc>>
FnCas == /\ fpc = "cas"
         /\ IF ~stopCompleted THEN /\ stopCompleted' = TRUE /\ fpc' = "closing"
                              ELSE /\ UNCHANGED stopCompleted /\ fpc' = "done"
         /\ UNCHANGED <<ipc, cnt, stopFlag, ctrl, closed, ctxCancelled, spc, status, sawCancelAtStopFn, lateItems, tpc>>
FnClose == /\ fpc = "closing"
           /\ Assert(~closed, "double close of stopComplete")
           /\ closed' = TRUE /\ fpc' = "done"
           /\ UNCHANGED <<ipc, cnt, stopFlag, ctrl, stopCompleted, ctxCancelled, spc, status, sawCancelAtStopFn, lateItems, tpc>>

\* ---- late tail of the previous control function (worker.go startCtrlFn, deferred part) ----
TailEnd == /\ tpc = "pending"
           /\ ctrl' = IF LateTail = "clears" THEN FALSE ELSE ctrl
           /\ tpc' = "chk1"
           /\ UNCHANGED <<ipc, cnt, stopFlag, stopCompleted, closed, ctxCancelled, spc, fpc, status, sawCancelAtStopFn, lateItems>>
TailChk == /\ tpc \in {"chk1", "chk2", "chk3", "chk4", "chk5"}
           /\ ChkStep(tpc, LAMBDA v : tpc' = v)
           /\ UNCHANGED <<ipc, cnt, stopFlag, ctrl, stopCompleted, closed, ctxCancelled, spc, fpc, status, sawCancelAtStopFn, lateItems>>
TailCas == /\ tpc = "cas"
           /\ IF ~stopCompleted THEN /\ stopCompleted' = TRUE /\ tpc' = "closing"
                                ELSE /\ UNCHANGED stopCompleted /\ tpc' = "done"
           /\ UNCHANGED <<ipc, cnt, stopFlag, ctrl, closed, ctxCancelled, spc, fpc, status, sawCancelAtStopFn, lateItems>>
TailClose == /\ tpc = "closing"
             /\ Assert(~closed, "double close of stopComplete")
             /\ closed' = TRUE /\ tpc' = "done"
             /\ UNCHANGED <<ipc, cnt, stopFlag, ctrl, stopCompleted, ctxCancelled, spc, fpc, status, sawCancelAtStopFn, lateItems>>

Next == \/ TailEnd \/ TailChk \/ TailCas \/ TailClose
        \/ StopBegin \/ S1 \/ S2 \/ S3 \/ S4 \/ S4b \/ S5 \/ S7
        \/ FnReturn \/ FnUnset \/ FnChk \/ FnCas \/ FnClose
        \/ \E i \in Items : Count(i) \/ Return(i) \/ Dec(i) \/ ItemChk(i) \/ ItemCas(i) \/ ItemClose(i)

Spec == Init /\ [][Next]_vars /\ WF_vars(Next)

\* ---------------- properties (C05) ----------------
\* the context is cancelled no later than the stop routine is invoked
CancelBeforeStopFn == sawCancelAtStopFn
\* offline only after the stop fn returned and every item that was running when the stop began has returned
OfflineAfterWork == status = "offline" =>
        /\ fpc \notin {"run"}
        /\ \A i \in Items : (i \notin lateItems /\ ipc[i] # "idle") => ipc[i] \notin {"running"}
\* once everything has returned and finished its bookkeeping, completion is signalled (no lost wake-up)
NoLostSignal == (spc = "s5" /\ fpc = "done" /\ tpc \in {"pending", "done"} /\ \A i \in Items : ipc[i] \in {"idle", "done"}) => closed
CountersNonNeg == \A k \in Kinds : cnt[k] >= 0
\* liveness: the stop completes
StopCompletes == (spc = "s1" \/ spc = "s2") ~> (status = "offline")
====
