---- MODULE CfgMapsTrace ----
\* Validates recorded calls of the map conversions of portbase/config against spec/CfgMaps.tla (X09).
\* Stateless: one event per call, {"fn", "tree":[{p,v}..], "flat":[{p,v}..], "k":path, "v":n, "reg":[path..], "out":[{p,v}..]}
\*   flatten  out = Flatten(tree) as entries, "same" = the argument was left unchanged
\*   expand   out = Expand(flat) as nested entries         put      out = tree after PutValueIntoHierarchicalConfig(tree, k, v)
\*   j2m      out = JSONToMap(JSON text of tree)           m2j      out = nested entries of the JSON text MapToJSON(flat)
\*   cleanflat / cleanhier   out = the map after Clean*Config, reg = the option keys registered in the driver
\*   round    out = Expand(Flatten(tree))
EXTENDS CfgMaps, Json, TLC

Trace == ndJsonDeserialize("trace.ndjson")
VARIABLE l

S(seq) == {seq[i] : i \in 1..Len(seq)}
NoDup(seq) == Cardinality(S(seq)) = Len(seq)

Good(ev) ==
    /\ "panic" \notin DOMAIN ev
    /\ NoDup(ev.out)
    /\ LET tree == S(ev.tree)  flat == S(ev.flat)  out == S(ev.out)  reg == S(ev.reg) IN
       CASE ev.fn = "flatten"   -> out = Flatten(tree) /\ ev.same
         [] ev.fn = "j2m"       -> out = Flatten(tree)
         [] ev.fn = "expand"    -> out \in Expands(flat)
         [] ev.fn = "m2j"       -> out \in Expands(flat)
         [] ev.fn = "put"       -> out = Put(tree, ev.k, ev.v)
         [] ev.fn = "round"     -> out = Prune(tree)
         [] ev.fn = "cleanflat" -> out = CleanFlat(flat, reg)
         [] ev.fn = "cleanhier" -> out = CleanHier(tree, reg)
         [] OTHER -> FALSE

Bad == {i \in 1..Len(Trace) : ~Good(Trace[i])}
Init == l = 0 /\ PrintT(<<"@@", ToJson([bad |-> Bad, n |-> Len(Trace)])>>)
Next == l < 1 /\ l' = 1
Spec == Init /\ [][Next]_l
Accepted == TLCGet("level") >= 0 /\ Bad = {}
====
