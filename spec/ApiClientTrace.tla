---- MODULE ApiClientTrace ----
\* Validates what the real api/client did (recorded by harness/cmd/apicl) against ApiClient.tla (X13).
\* trace.ndjson, one JSON object per line:
\*   {"e":"new","bar":"#1","connected":true}     a new client and fake server; bar = id of the driver's barrier operation
\*   {"e":"step","op":{...},"obs":{...}}         one step of the script and what was observed (see ObsOK)
EXTENDS ApiClient, Json

Trace == ndJsonDeserialize("trace.ndjson")

VARIABLES st, ids, bar, l
vars == <<st, ids, bar, l>>

Init == st = Init0 /\ ids = <<>> /\ bar = "" /\ l = 1

New == /\ l <= Len(Trace) /\ Trace[l].e = "new"
       /\ Trace[l].connected /\ Trace[l].bar # ""
       /\ st' = Init0 /\ ids' = <<>> /\ bar' = Trace[l].bar
       /\ l' = l + 1

NewIds(o, b) == IF o.op = "start" THEN <<b.id>> ELSE IF o.op \in {"many", "storm"} THEN b.ids ELSE <<>>

Step == /\ l <= Len(Trace) /\ Trace[l].e = "step"
        /\ LET o == Trace[l].op  b == Trace[l].obs IN
             \* "= TRUE": evaluated as a value, so that TLC does not enumerate the disjunctions inside as successors
             /\ Enabled(st, o) = TRUE
             /\ ObsOK(st, ids, bar, o, b) = TRUE
             /\ st' = Next(st, o)
             /\ ids' = ids \o NewIds(o, b)
        /\ l' = l + 1 /\ UNCHANGED bar

Next2 == New \/ Step
Spec == Init /\ [][Next2]_vars

Accepted == TLCGet("stats").diameter - 1 = Len(Trace)
====
