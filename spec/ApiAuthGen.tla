---- MODULE ApiAuthGen ----
\* The state machine around the decision function of ApiAuth (property C12): API-key configuration
\* changes, development mode, authenticator behaviour, session creation / expiry / cleaning, the expiry
\* instant of keys, and requests in between.
\*  * Emit = FALSE (BFS, Small domains): every reachable configuration state is combined with every request of
\*    the small request space and the laws of ApiAuth are checked on the pair.
\*  * Emit = TRUE (simulation): random histories over the full domains are printed as scripts for the driver
\*    harness/cmd/apiauth.
EXTENDS ApiAuth, Json, TLC

CONSTANTS MaxLen,    \* operations per history
          Emit,      \* print finished histories as JSON
          Small,     \* small domains (exhaustive search)
          AuthSet,   \* simulation: is an authenticator registered (fixed per process)
          Storms     \* simulation: histories contain concurrent configuration changes

VARIABLES S, hist, done, cur, late
vars == <<S, hist, done, cur, late>>

K(r, w, exp, form, short, reuse) == [r |-> r, w |-> w, exp |-> exp, form |-> form, short |-> short, reuse |-> reuse]
RW(route, a, b) == [route |-> route, rr |-> a, rw |-> b]
Az(k, i, n) == [azk |-> k, azid |-> i, azn |-> n]
Ck(k, i) == [ckk |-> k, ckid |-> i]
Mk(via, rt, me, or, az, ck) ==
    [via |-> via, route |-> rt.route, rr |-> rt.rr, rw |-> rt.rw, m |-> me[1], acrm |-> me[2], origin |-> or,
     azk |-> az.azk, azid |-> az.azid, azn |-> az.azn, ckk |-> ck.ckk, ckid |-> ck.ckid]

\* simulation draws one element (of a sequence: duplicates are weights) before anything is enumerated
Pick(X)    == IF Emit THEN {RandomElement(X)} ELSE X
PickSeq(s) == IF Emit THEN {s[RandomElement(1..Len(s))]} ELSE {s[i] : i \in 1..Len(s)}
Rnd(s)     == s[RandomElement(1..Len(s))]

\* ------------------------------------------------------------------------------------ domains
EpPerms == PDynamic..PSelf
Routes == IF Small
          THEN {RW("wrap", -1, 2), RW("wrap", 2, 3), RW("ep", 3, 0), RW("plain", 4, 4), RW("none", -2, -2)}
          ELSE {RW("wrap", a, b) : a, b \in Perms} \cup {RW("ep", a, b) : a, b \in EpPerms}
               \cup {RW("getonly", a, b) : a, b \in {1, 2, 4}}
               \cup {RW("plain", 4, 4), RW("none", -2, -2), RW("epmiss", -2, -2)}
Methods == IF Small THEN << <<"GET", "">>, <<"POST", "">>, <<"OPTIONS", "GET">> >>
           ELSE << <<"GET", "">>, <<"GET", "">>, <<"GET", "">>, <<"HEAD", "">>, <<"POST", "">>, <<"POST", "">>, <<"PUT", "">>,
                   <<"DELETE", "">>, <<"PATCH", "">>, <<"OPTIONS", "">>, <<"OPTIONS", "GET">>, <<"OPTIONS", "POST">>,
                   <<"OPTIONS", "PATCH">>, <<"GET", "POST">>, <<"POST", "GET">> >>
OriginsSeq == IF Small THEN <<"none", "local", "foreign">>
              ELSE <<"none", "none", "none", "none", "none", "none", "host", "hostnoport", "portless", "ext", "local", "local",
                     "foreign", "bad", "garbage">>
Vias == IF Small THEN <<"http", "bridge">> ELSE <<"http", "http", "http", "http", "http", "http", "http", "http", "http", "bridge">>

AzKinds == IF Small THEN <<"none", "bearer", "old", "short">>
           ELSE <<"none", "none", "none", "bearer", "bearer", "bearer", "basic", "basic", "old", "unknown", "short", "short",
                  "basicshort", "basicbad", "scheme", "garbage">>
CkKinds == IF Small THEN <<"none", "sess">>
           ELSE <<"none", "none", "none", "none", "sess", "sess", "sess", "sess", "unknown", "othername", "garbage">>

AzOf(st, kind) == CASE kind \in {"bearer", "basic"} -> {Az(kind, i, 0) : i \in Pick(1..(Len(st.keys) + 1))}
                    [] kind = "old"                 -> {Az(kind, i, 0) : i \in Pick(1..(st.prevn + 1))}
                    [] kind \in {"short", "basicshort"} -> {Az(kind, 0, n) : n \in Pick(IF Small THEN {2} ELSE 0..3)}
                    [] OTHER -> {Az(kind, 0, 0)}
CkOf(st, kind) == IF kind = "sess" THEN {Ck(kind, i) : i \in Pick(1..(Len(st.sess) + 1))} ELSE {Ck(kind, 0)}

SmallKeyConfigs == { << >>,
                     << K(2, 3, "none", "ok", FALSE, FALSE), K(3, 3, "soon", "ok", FALSE, FALSE) >>,
                     << K(1, 1, "none", "ok", FALSE, TRUE), K(3, 3, "past", "ok", FALSE, FALSE) >>,
                     << K(3, 1, "none", "badperm", FALSE, FALSE), K(3, 3, "none", "ok", TRUE, TRUE) >> }
\* a random key configuration (x is a dummy parameter: the operator must be evaluated afresh every time)
RandKeys(x, exps) == LET n == RandomElement(0..4) IN
    [i \in 1..n |-> K(RandomElement(1..3), RandomElement(1..3), Rnd(exps),
                      Rnd(<<"ok", "ok", "ok", "ok", "badperm", "badexp">>), Rnd(<<FALSE, FALSE, FALSE, TRUE>>),
                      Rnd(<<FALSE, FALSE, TRUE>>))]
KeyConfigs == IF Emit THEN {RandKeys(Len(hist), <<"none", "none", "none", "far", "past", "soon">>)} ELSE SmallKeyConfigs
\* configurations for concurrent changes: no entry expires (no clean-up of the option is triggered)
StormConfigs == IF Emit THEN {RandKeys(Len(hist), <<"none", "none", "far">>)}
                ELSE {<< >>, << K(2, 3, "none", "ok", FALSE, FALSE), K(3, 1, "far", "ok", TRUE, TRUE) >>}

AuthModes == IF Small THEN {<<"nil", 1, 1>>, <<"ok", 3, 1>>, <<"ok", 0, 4>>, <<"err", 1, 1>>, <<"denied", 1, 1>>}
             ELSE {<<"nil", 1, 1>>, <<"err", 1, 1>>, <<"denied", 1, 1>>} \cup {<<"ok", r, w>> : r, w \in Perms}
AuthPick(x) == IF Emit
            THEN {LET m == Rnd(<<"nil", "ok", "ok", "ok", "ok", "err", "denied">>)
                      p == <<-3, -2, -1, 0, 1, 1, 2, 2, 3, 3, 4, 4, 5>> IN
                  IF m = "ok" THEN <<m, Rnd(p), Rnd(p)>> ELSE <<m, 1, 1>>}
            ELSE AuthModes

HasSoon(st) == \E i \in 1..Len(st.keys) : st.keys[i].exp = "soon"

\* ------------------------------------------------------------------------------------ actions
Init == /\ S \in {S0(a) : a \in IF Emit THEN {AuthSet} ELSE BOOLEAN}
        /\ hist = << >> /\ done = FALSE /\ late = FALSE
        /\ cur = [on |-> FALSE, S |-> S0(TRUE), q |-> Mk("http", RW("none", -2, -2), <<"GET", "">>, "none", Az("none", 0, 0), Ck("none", 0)), ph |-> "before"]

Step(o, st, lt) == /\ S' = st /\ late' = lt
                   /\ hist' = Append(hist, o)
                   /\ cur' = [cur EXCEPT !.on = FALSE]
                   /\ UNCHANGED done

DoKeys == \E ks \in KeyConfigs : Step([op |-> "keys", keys |-> ks], SetKeys(S, ks), FALSE)
\* the key option and the development mode are changed at the same time (two callers): both take effect
DoStorm == \E ks \in StormConfigs : \E b \in Pick(BOOLEAN) :
              Step([op |-> "storm", keys |-> ks, on |-> b], SetDev(SetKeys(S, ks), b), FALSE)
DoDev == \E b \in Pick(BOOLEAN) : Step([op |-> "dev", on |-> b], SetDev(S, b), late)
DoAuth == \E a \in AuthPick(Len(hist)) : Step([op |-> "auth", mode |-> a[1], r |-> a[2], w |-> a[3]], SetAuth(S, a[1], a[2], a[3]), late)
DoExpire == /\ Len(S.sess) > 0
            /\ \E k \in Pick(1..Len(S.sess)) : Step([op |-> "expire", s |-> k], ExpireSession(S, k), late)
DoClean == Step([op |-> "clean"], CleanSessions(S), late)
DoWait == /\ HasSoon(S) /\ ~late
          /\ Step([op |-> "wait"], S, TRUE)
DoPanic == \E k \in Pick({"action", "data", "struct", "record", "handler", "wrap", "handlerlate", "wraplate"}) :
           \E v \in Pick({"nil", "err", "str", "rt", "struct"}) : \E m \in Pick({"GET", "POST"}) :
              Step([op |-> "panic", kind |-> k, pv |-> v, m |-> m], S, late)
\* the requests of the (small or full) request space in configuration st
ReqSpace(st) == UNION { UNION { UNION {
    {LET q0 == Mk(via, rt, me, or, az, c) IN
     \* the bridge reaches the endpoints only and carries no headers
     IF via = "bridge"
     THEN [q0 EXCEPT !.route = IF rt.route \in {"ep", "epmiss"} THEN rt.route ELSE "ep",
                     !.rr = IF rt.rr \in EpPerms THEN rt.rr ELSE PAdmin,
                     !.rw = IF rt.rw \in EpPerms THEN rt.rw ELSE PUser,
                     !.acrm = "", !.origin = "none",
                     !.azk = "none", !.azid = 0, !.azn = 0, !.ckk = "none", !.ckid = 0]
     ELSE q0 : via \in PickSeq(Vias), rt \in Pick(Routes), me \in PickSeq(Methods), or \in PickSeq(OriginsSeq)}
    : az \in AzOf(st, ak), c \in CkOf(st, ck)} : ak \in PickSeq(AzKinds)} : ck \in PickSeq(CkKinds)}

\* simulation: a request is one operation of the history
DoReq == /\ Emit
         /\ \E q \in ReqSpace(S) :
            /\ S' = IF CreatesSession(S, q) THEN AddSession(S) ELSE S
            /\ hist' = Append(hist, [op |-> "req", q |-> q])
            /\ UNCHANGED <<done, late, cur>>

\* exhaustive search: every request of the small space is a leaf below the configuration state (it is judged
\* by the invariants and has no successors), and one request that logs in continues the history
LoginReq == Mk("http", RW("wrap", PDynamic, PUser), <<"GET", "">>, "none", Az("none", 0, 0), Ck("none", 0))
DoProbe == /\ ~Emit /\ ~cur.on
           /\ \E q \in ReqSpace(S) : cur' = [on |-> TRUE, S |-> S, q |-> q, ph |-> IF late THEN "after" ELSE "before"]
           /\ UNCHANGED <<S, hist, done, late>>
DoLogin == /\ ~Emit /\ CreatesSession(S, LoginReq)
           /\ Step([op |-> "req", q |-> LoginReq], AddSession(S), late)

\* simulation: the family of the next operation is drawn first; a family that is not enabled becomes a request
Families == <<"req", "req", "req", "req", "req", "req", "req", "req", "req", "req", "req", "req", "req", "req", "req", "req",
              "keys", "keys", "keys", "keys", "auth", "auth", "auth", "auth", "dev", "dev",
              "expire", "expire", "expire", "expire", "clean", "clean", "wait", "wait", "wait", "wait", "panic", "panic", "storm">>
Fam(f) == IF ~Emit THEN f
          ELSE IF f = "expire" /\ Len(S.sess) = 0 THEN "req"
          ELSE IF f = "wait" /\ (~HasSoon(S) \/ late) THEN "req"
          ELSE IF f = "storm" /\ ~Storms THEN "req"
          ELSE IF f = "auth" /\ Storms THEN "storm" ELSE f

DoOp == /\ Len(hist) < MaxLen /\ ~cur.on
        /\ \E f0 \in PickSeq(Families) : LET f == Fam(f0) IN
              CASE f = "req"    -> DoReq
                [] f = "keys"   -> DoKeys
                [] f = "auth"   -> DoAuth
                [] f = "dev"    -> DoDev
                [] f = "expire" -> DoExpire
                [] f = "clean"  -> DoClean
                [] f = "wait"   -> DoWait
                [] f = "storm"  -> DoStorm
                [] f = "panic"  -> Emit /\ DoPanic
                [] OTHER        -> FALSE

Finish == /\ Len(hist) = MaxLen /\ ~done /\ ~cur.on
          /\ done' = TRUE
          /\ (Emit => PrintT(<<"@@", ToJson([authset |-> S.authset, steps |-> hist])>>))
          /\ UNCHANGED <<S, hist, cur, late>>

Next == DoOp \/ DoProbe \/ (Len(hist) < MaxLen /\ ~cur.on /\ DoLogin) \/ Finish
Spec == Init /\ [][Next]_vars

\* ------------------------------------------------------------------------------------ checked by TLC (BFS)
\* the laws of the decision function on every (reachable configuration, request) pair, for the phase the
\* machine is in and for a request that overlaps the expiry instant
LawsHold == cur.on => Laws(cur.S, cur.q, cur.ph) /\ Laws(cur.S, cur.q, "around")

\* a session that expired or was cleaned away never grants again; live sessions keep their token
SessionsMonotone == [][\A k \in 1..Len(S.sess) :
                          /\ Len(S'.sess) >= Len(S.sess)
                          /\ S'.sess[k].r = S.sess[k].r /\ S'.sess[k].w = S.sess[k].w
                          /\ S.sess[k].state # "live" => S'.sess[k].state # "live"]_vars

\* replacing the key configuration leaves no grant of a key that was not taken over
RevokedKeysDead == cur.on /\ cur.q.azk = "old" /\ ~(cur.q.azid \in 1..Len(cur.S.keys) /\ cur.q.azid <= cur.S.prevn
                                                    /\ cur.S.keys[cur.q.azid].reuse)
                      => Decide(cur.S, cur.q, cur.ph) = Decide(cur.S, NoKey(cur.q), cur.ph)

View == <<S, cur, late, Len(hist), done>>
====
