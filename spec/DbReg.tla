---- MODULE DbReg ----
\* Extension check X06: package database beyond the listed properties - the database registry and its
\* persistence (registry.go), the controller life cycle (controllers.go, main.go), maintenance
\* (maintenance.go, dbmodule) and the migration runner (database/migration).
\*
\* STATEMENT (derived from the doc comments of Register, InjectDatabase, Controller.Withdraw, Shutdown,
\* Maintain*, EnableRegistryPersistence, migration.Registry.Add / Migrate, Migration, Diagnostics, the Err*
\* variables and the package tests).  For every history of Initialize / Register / first use / InjectDatabase /
\* Withdraw / Maintain* / Shutdown / migration calls, over any number of process lifetimes on one data directory:
\*  G1 registration: Register fails before Initialize.  A new name is accepted exactly if it matches
\*     ^[A-Za-z0-9_-]{3,}$; a refused registration changes nothing.  Registering an existing name updates
\*     "only the description and the primary API" (ShadowDelete): the storage type of a registered database
\*     never changes, and the effective (already registered) object is returned.
\*  G2 persistence: with registry persistence enabled, every accepted change of the registry is in
\*     databases.json when Register returns, and a later process that initializes on the same directory
\*     starts from exactly the databases of that file (name, storage type, description, ShadowDelete);
\*     without persistence the file is neither read nor written.  LastLoaded of an entry is zero until the
\*     database is first loaded; it is set when a database is started; a non-zero LastLoaded (in memory or
\*     in the file) means the database has been loaded at some time.
\*  G3 first use: a database is started on first use, exactly once per process, with the storage type
\*     of its registration and at <root>/databases/<name>/<type>; using an unregistered database, a
\*     database of type "injected" that is not injected, or a database whose storage cannot be started
\*     fails, starts nothing and may be retried.
\*  G4 injection: InjectDatabase succeeds exactly if the name is registered with type "injected", is not
\*     loaded and the system is not shutting down (then ErrShuttingDown); Withdraw unloads an injected
\*     database and leaves it registered (it can be injected again).
\*  G5 shutdown: the first Shutdown shuts down the storage of EVERY loaded database exactly once - also
\*     when one of them fails, whose error is returned; later Shutdown calls touch no storage.  After
\*     Shutdown every use fails with ErrShuttingDown, InjectDatabase fails with ErrShuttingDown, nothing is
\*     started and no storage is touched any more.
\*  G6 maintenance: Maintain / MaintainThorough call the method of that name on every loaded database
\*     whose storage implements storage.Maintainer, MaintainRecordStates on every loaded database, each
\*     at most once per call and on no other; without a storage error all of them are visited and nil is
\*     returned; a storage error is returned (the documentation is silent on whether the remaining
\*     storages are still visited: both are allowed).  After Shutdown no storage is visited.
\*  G7 migrations: Add accepts a migration exactly if its version is a semantic version (it is silent on a
\*     batch with an invalid entry: nothing or the entries before it may have been added, and on two
\*     migrations of the same version: they may be refused).  Migrate runs the registered migrations
\*     whose version is greater than the stored version, in ascending version order, each at most once,
\*     handing each the previous and its own version; after every success the stored version is that
\*     migration's version; the first failing migration stops the run, leaves the stored version at the
\*     last success and is reported as *Diagnostics (FailedMigration, the wrapped error, StartOfMigration,
\*     LastSuccessfulMigration, TargetVersion, ExecutionPlan); nil is only returned if everything planned
\*     ran and the stored version is the last planned version (a stored version that could not be
\*     written must not be reported as success); an error is always a *Diagnostics; if the database of
\*     the version key cannot be read, nothing runs.
\*  G8 concurrency: Register, InjectDatabase, a first use and Shutdown called at the same time behave as if
\*     their critical sections ran one after the other in some order (a use is getController followed by the
\*     controller's Get): a database is started at most once, and every storage that was started or
\*     injected before Shutdown took effect is shut down by it exactly once.
\* Where the documentation is silent (Register after Shutdown, the result of a second Shutdown, maintenance
\* results after Shutdown, LastLoaded after a failed start, the ShadowDelete flag an already loaded database
\* is maintained with after it was changed, ...) every outcome is allowed.
\*
\* Storage types of the model (the driver registers factories for them):
\*   plain    volatile, no Maintainer        maint   volatile, Maintainer      disk  persistent (fstree), Maintainer
\*   nostart  the factory fails              ghost   no factory registered     injected  database.StorageTypeInjected
\* Versions are 1..MaxVer in semver order (0 = not a semantic version, as stored version: none).
EXTENDS Integers, Sequences, FiniteSets, SequencesExt, TLC

GoodNames == {"core", "alpha", "b_2-X"}
BadNames == {"ab", "bad name", "dot.ted"}
Types == {"plain", "maint", "disk", "nostart", "ghost", "injected"}
Capable(t) == t \in {"maint", "disk"}
Kinds == {"maintain", "thorough", "records"}


\* ---------------------------------------------------------------- shapes
D(n, t, d, s, ll) == [n |-> n, t |-> t, d |-> d, s |-> s, ll |-> ll]
Obj(r) == [some |-> TRUE, t |-> r.t, d |-> r.d, s |-> r.s, ll |-> r.ll]
None == [some |-> FALSE, t |-> "", d |-> 0, s |-> FALSE, ll |-> FALSE]
C(n, ev, x) == [n |-> n, ev |-> ev, x |-> x]
NE(n, ev) == [n |-> n, ev |-> ev]
NoDiag == [failed |-> 0, wid |-> 0, start |-> 0, lastok |-> 0, target |-> 0, plan |-> <<>>]

Op(name) == [op |-> name, n |-> "", t |-> "", d |-> 0, s |-> FALSE, cap |-> FALSE, per |-> FALSE, mod |-> FALSE,
             w |-> "", batch |-> <<>>, fails |-> {}, vetoes |-> {}, fll |-> {}, tie |-> <<>>, par |-> <<>>]

\* err: "ok", "shutdown" (ErrShuttingDown), "boom" (the error of a storage), "diag" (*migration.Diagnostics),
\*      "err" (any other error); in the model also "anyerr" (the call fails) and "any" (silent)
\* robj: the objects Register may return; may/must/one: storage life-cycle calls (allowed / [n, ev] that must
\* occur / [n, ev] of which at least one must occur); io: "zero" = no storage may be read or written;
\* errs: the result classes of the operations of a race
R(err) == [err |-> err, robj |-> {None}, may |-> {}, must |-> {}, one |-> {}, io |-> "zero",
           runs |-> <<>>, dchk |-> FALSE, diag |-> NoDiag, sv |-> -1, errs |-> <<>>]
Out(r, st) == [res |-> r, st |-> st]

Empty == [file |-> {}, sloppy |-> FALSE, ever |-> {}, diskver |-> 0,
          up |-> FALSE, persist |-> FALSE, mod |-> FALSE, inited |-> FALSE, shut |-> FALSE,
          mem |-> {}, ctl |-> {}, failing |-> {}, migs |-> <<>>, memver |-> 0]

Has(st, n) == \E r \in st.mem : r.n = n
Desc(st, n) == CHOOSE r \in st.mem : r.n = n
Running(st, n) == \E c \in st.ctl : c.n = n
Ctl(st, n) == CHOOSE c \in st.ctl : c.n = n
SetDesc(mem, r) == {x \in mem : x.n # r.n} \cup {r}
Save(st) == IF st.persist THEN [st EXCEPT !.file = st.mem] ELSE st
SdText(b) == IF b THEN "sd1" ELSE "sd0"

\* ---------------------------------------------------------------- first use (getController)
U(clss, st, may, must, io) == [clss |-> clss, st |-> st, may |-> may, must |-> must, io |-> io]
Use(st, n) ==
    IF ~st.inited THEN {U({"anyerr"}, st, {}, {}, "zero")}
    ELSE IF Running(st, n) THEN {IF st.shut THEN U({"shutdown"}, st, {}, {}, "zero") ELSE U({"up"}, st, {}, {}, "any")}
    ELSE IF st.shut THEN {U(IF Has(st, n) THEN {"shutdown"} ELSE {"shutdown", "anyerr"}, st, {}, {}, "zero")}
    ELSE IF ~Has(st, n) THEN {U({"anyerr"}, st, {}, {}, "zero")}
    ELSE LET r == Desc(st, n)
             est == [st EXCEPT !.ever = @ \cup {n}]
             lst == [est EXCEPT !.mem = SetDesc(@, [r EXCEPT !.ll = TRUE])]
         IN CASE r.t \in {"injected", "ghost"} -> {U({"anyerr"}, lst, {}, {}, "zero"), U({"anyerr"}, est, {}, {}, "zero")}
              [] r.t = "nostart" -> {U({"anyerr"}, lst, {C(n, "start", r.t)}, {NE(n, "start")}, "zero"),
                                     U({"anyerr"}, est, {C(n, "start", r.t)}, {NE(n, "start")}, "zero")}
              [] OTHER -> {U({"up"}, [lst EXCEPT !.ctl = @ \cup {[n |-> n, t |-> r.t, sd |-> r.s, cap |-> Capable(r.t)]}],
                             {C(n, "start", r.t)}, {NE(n, "start")}, "any")}

\* getController alone: a loaded database is handed out also after Shutdown (its operations then fail)
Use1(st, n) == IF st.inited /\ Running(st, n) THEN {U({"up"}, st, {}, {}, "any")} ELSE Use(st, n)

\* ---------------------------------------------------------------- migrations
Stored(st) == IF Running(st, "core") /\ Ctl(st, "core").t = "disk" THEN st.diskver ELSE st.memver
SetStored(st, v) == IF Running(st, "core") /\ Ctl(st, "core").t = "disk" THEN [st EXCEPT !.diskver = v] ELSE [st EXCEPT !.memver = v]

\* the order in which the migrations P (indices into migs) run: ascending version; the statement is silent on
\* migrations of equal version: tie (a sequence of migration ids, from the operation) ranks them, the rest
\* follows in the order added
Pos(seq, x) == IF \E i \in 1..Len(seq) : seq[i] = x THEN CHOOSE i \in 1..Len(seq) : seq[i] = x /\ \A j \in 1..(i - 1) : seq[j] # x ELSE 0
OrderOf(migs, P, tie) ==
    LET key(i) == migs[i].ver * 10000 + (IF Pos(tie, migs[i].id) > 0 THEN Pos(tie, migs[i].id) ELSE Len(tie) + i)
    IN SetToSortSeq(P, LAMBDA a, b : key(a) < key(b))

\* executing one order from position k: applied = version handed on as "from", lastok = last success of this
\* run, stored = the persisted version, vetoed = a version could not be written earlier in this run
E(end, runs, stored, applied, lastok, failed, vetoed) ==
    [end |-> end, runs |-> runs, stored |-> stored, applied |-> applied, lastok |-> lastok, failed |-> failed, vetoed |-> vetoed]
RECURSIVE Exec(_, _, _, _, _, _, _, _, _)
Exec(migs, ord, o, k, runs, stored, applied, lastok, vetoed) ==
    IF k > Len(ord) THEN {E("done", runs, stored, applied, lastok, 0, vetoed)}
    ELSE LET m == migs[ord[k]]
             runs2 == Append(runs, [id |-> m.id, from |-> applied, to |-> m.ver])
         IN IF m.id \in o.fails THEN {E("failed", runs2, stored, applied, lastok, m.id, vetoed)}
            ELSE IF m.id \in o.vetoes
                 THEN {E("vetostop", runs2, stored, m.ver, m.ver, m.id, TRUE)}
                      \cup Exec(migs, ord, o, k + 1, runs2, stored, m.ver, m.ver, TRUE)
                 ELSE Exec(migs, ord, o, k + 1, runs2, m.ver, m.ver, m.ver, vetoed)

MigrateFrom(u, o) ==
    LET st == u.st
        s == Stored(st)
        P == {i \in 1..Len(st.migs) : st.migs[i].ver > s}
        base == [R("ok") EXCEPT !.may = u.may, !.must = u.must, !.io = "any"]
    IN IF P = {} THEN {Out([base EXCEPT !.sv = s], st)}
       ELSE UNION { UNION {
           LET dg == [failed |-> e.failed, wid |-> e.failed, start |-> s, lastok |-> e.lastok,
                      target |-> st.migs[ord[Len(ord)]].ver, plan |-> [i \in 1..Len(ord) |-> st.migs[ord[i]].ver]]
               rr == [base EXCEPT !.runs = e.runs, !.sv = e.stored]
               nst == SetStored(st, e.stored)
           IN CASE e.end = "failed" -> {Out([rr EXCEPT !.err = "diag", !.dchk = ~e.vetoed, !.diag = dg], nst)}
                [] e.end = "vetostop" -> {Out([rr EXCEPT !.err = "diag"], nst)}
                [] OTHER -> (IF e.stored = e.applied THEN {Out(rr, nst)} ELSE {})
                            \cup (IF e.vetoed THEN {Out([rr EXCEPT !.err = "diag"], nst)} ELSE {})
           : e \in Exec(st.migs, ord, o, 1, <<>>, s, s, 0, FALSE) }
           : ord \in {OrderOf(st.migs, P, o.tie)} }

\* ---------------------------------------------------------------- the reference semantics
Step1(st, o) ==
  CASE o.op = "proc" ->
         {Out(R("ok"), [st EXCEPT !.up = TRUE, !.persist = o.per, !.mod = o.mod, !.inited = FALSE, !.shut = FALSE,
                                  !.mem = {}, !.ctl = {}, !.failing = {}, !.migs = <<>>, !.memver = 0])}
    [] o.op = "init" ->
         IF st.inited THEN {Out(R("anyerr"), st)}
         ELSE LET mem0 == IF st.persist THEN {[r EXCEPT !.ll = (r.n \in o.fll)] : r \in st.file} ELSE {}
              IN {Out(R("ok"), [st EXCEPT !.inited = TRUE, !.mem = mem0,
                                          !.file = IF st.persist THEN mem0 ELSE @,
                                          !.sloppy = IF st.persist THEN FALSE ELSE @])}
    [] o.op = "register" ->
         LET refuse == IF st.shut THEN {Out(R("anyerr"), st)} ELSE {} IN
         IF ~st.inited THEN {Out(R("anyerr"), st)}
         ELSE IF Has(st, o.n) THEN
              LET r == Desc(st, o.n)
                  nr == [r EXCEPT !.d = o.d, !.s = o.s]
                  nst == [st EXCEPT !.mem = SetDesc(@, nr)]
              IN {Out([R("ok") EXCEPT !.robj = {Obj(nr)}], x) : x \in (IF nr = r THEN {st, Save(st)} ELSE {Save(nst)})} \cup refuse
         ELSE IF o.n \notin GoodNames THEN {Out(R("anyerr"), st)}
         ELSE LET nr == D(o.n, o.t, o.d, o.s, FALSE)
              IN {Out([R("ok") EXCEPT !.robj = {None, Obj(nr)}], Save([st EXCEPT !.mem = @ \cup {nr}]))} \cup refuse
    [] o.op = "use" ->
         UNION {{Out([R(IF c = "up" THEN "ok" ELSE c) EXCEPT !.may = u.may, !.must = u.must, !.io = u.io], u.st) : c \in u.clss} : u \in Use(st, o.n)}
    [] o.op = "inject" ->
         IF st.shut THEN {Out(R("shutdown"), st)}
         ELSE IF Running(st, o.n) \/ ~Has(st, o.n) THEN {Out(R("anyerr"), st)}
         ELSE IF Desc(st, o.n).t # "injected" THEN {Out(R("anyerr"), st)}
         ELSE {Out(R("ok"), [st EXCEPT !.ctl = @ \cup {[n |-> o.n, t |-> "injected", sd |-> FALSE, cap |-> o.cap]}])}
    [] o.op = "withdraw" ->
         IF Running(st, o.n) /\ Ctl(st, o.n).t = "injected"
         THEN {Out(R("ok"), [st EXCEPT !.ctl = @ \ {Ctl(st, o.n)}])} \cup (IF st.shut THEN {Out(R("ok"), st)} ELSE {})
         ELSE {Out(R("ok"), st)}
    \* the storage of database n will fail its next calls of kind w (driver side, no library code involved)
    [] o.op = "fail" -> {Out(R("ok"), [st EXCEPT !.failing = @ \cup {[n |-> o.n, w |-> o.w]}])}
    [] o.op = "maintain" ->
         LET targets == {c \in st.ctl : o.w = "records" \/ c.cap}
             bad == {c.n : c \in {x \in targets : [n |-> x.n, w |-> o.w] \in st.failing}}
             xs(c) == IF o.w # "records" THEN {""}
                      ELSE IF c.t = "injected" THEN {"sd0", "sd1"}
                      ELSE {SdText(c.sd), SdText(Desc(st, c.n).s)}
             may == UNION {{C(c.n, o.w, x) : x \in xs(c)} : c \in targets}
         IN IF st.shut THEN {Out(R("any"), st)}
            ELSE IF bad = {} THEN {Out([R("ok") EXCEPT !.may = may, !.must = {NE(c.n, o.w) : c \in targets}, !.io = "any"], st)}
            ELSE {Out([R("boom") EXCEPT !.may = may, !.one = {NE(n, o.w) : n \in bad}, !.io = "any"], st)}
    [] o.op = "shutdown" ->
         IF st.shut THEN {Out(R("any"), st)}
         ELSE LET names == {c.n : c \in st.ctl}
                  bad == {n \in names : [n |-> n, w |-> "shutdown"] \in st.failing}
                  nst == [st EXCEPT !.shut = TRUE, !.sloppy = @ \/ st.persist]
                  \* through the module system the error of the stop function arrives wrapped in a module error
                  cls == IF bad = {} THEN "ok" ELSE IF st.mod THEN "anyerr" ELSE "boom"
              IN {Out([R(cls) EXCEPT !.may = {C(n, "shutdown", "") : n \in names}, !.must = {NE(n, "shutdown") : n \in names}, !.io = "any"], nst)}
    [] o.op = "madd" ->
         LET b == o.batch
             n == Len(b)
             firstbad == IF \A i \in 1..n : b[i].ver # 0 THEN n + 1 ELSE CHOOSE i \in 1..n : b[i].ver = 0 /\ \A j \in 1..(i - 1) : b[j].ver # 0
             all == st.migs \o b
             dupl == \E i, j \in 1..Len(all) : i < j /\ j > Len(st.migs) /\ all[i].ver = all[j].ver /\ all[i].ver # 0
             added(k) == [st EXCEPT !.migs = @ \o SubSeq(b, 1, k)]
         IN IF firstbad > n
            THEN {Out(R("ok"), added(n))} \cup (IF dupl THEN {Out(R("anyerr"), added(k)) : k \in 0..(n - 1)} ELSE {})
            ELSE {Out(R("anyerr"), added(k)) : k \in (IF dupl THEN 0..(firstbad - 1) ELSE {0, firstbad - 1})}
    [] o.op = "migrate" ->
         UNION { IF u.clss = {"up"} THEN MigrateFrom(u, o)
                 ELSE {Out([R("diag") EXCEPT !.may = u.may, !.must = u.must, !.io = u.io], u.st)}
                 : u \in Use(st, "core") }

\* ---------------------------------------------------------------- operations racing each other
\* o.par: operations (use / inject / register / shutdown) started at the same time, each from its own goroutine.
\* Implementation-shaped: register, inject and shutdown are one critical section each; a use is two steps
\* (getController under the controllers lock, then the controller's Get, which looks at the shutdown flag).
\* Every interleaving of these steps is an allowed outcome.
RaceSub(q) == [Op(q.op) EXCEPT !.n = q.n, !.t = q.t, !.d = q.d, !.s = q.s, !.cap = q.cap]
RECURSIVE RaceOut(_, _, _, _, _, _)
RaceOut(st, par, pc, errs, may, must) ==
    IF \A i \in 1..Len(par) : pc[i] = 2
    THEN {Out([R("ok") EXCEPT !.errs = errs, !.may = may, !.must = must, !.io = "any"], st)}
    ELSE UNION {
        IF par[i].op = "use" THEN
            IF pc[i] = 0
            THEN UNION { IF "up" \in u.clss
                         THEN RaceOut(u.st, par, [pc EXCEPT ![i] = 1], errs, may \cup u.may, must \cup u.must)
                         ELSE UNION {RaceOut(u.st, par, [pc EXCEPT ![i] = 2], [errs EXCEPT ![i] = c], may \cup u.may, must \cup u.must) : c \in u.clss}
                         : u \in Use1(st, par[i].n) }
            ELSE RaceOut(st, par, [pc EXCEPT ![i] = 2], [errs EXCEPT ![i] = IF st.shut THEN "shutdown" ELSE "ok"], may, must)
        ELSE UNION { RaceOut(x.st, par, [pc EXCEPT ![i] = 2], [errs EXCEPT ![i] = x.res.err], may \cup x.res.may, must \cup x.res.must)
                     : x \in Step1(st, RaceSub(par[i])) }
        : i \in {j \in 1..Len(par) : pc[j] # 2} }

Step(st, o) ==
    IF o.op = "race"
    THEN RaceOut(st, o.par, [i \in 1..Len(o.par) |-> 0], [i \in 1..Len(o.par) |-> ""], {}, {})
    ELSE Step1(st, o)

\* ---------------------------------------------------------------- what an observation must look like
\* calls: the storage life-cycle calls seen during the operation, in order ([n, ev, x])
CallsOK(r, calls) ==
    /\ \A i \in 1..Len(calls) : calls[i] \in r.may
    \* every call at most once per storage (a factory that fails is asked again by every use)
    /\ \A i, j \in 1..Len(calls) : (i # j /\ calls[i] # C(calls[i].n, "start", "nostart"))
                                        => NE(calls[i].n, calls[i].ev) # NE(calls[j].n, calls[j].ev)
    /\ r.must \subseteq {NE(calls[i].n, calls[i].ev) : i \in 1..Len(calls)}
    /\ (r.one # {} => r.one \cap {NE(calls[i].n, calls[i].ev) : i \in 1..Len(calls)} # {})
ErrOK(want, got) == /\ got \in {"ok", "shutdown", "boom", "diag", "err"}
                    /\ CASE want = "any" -> TRUE
                         [] want = "anyerr" -> got # "ok"
                         [] OTHER -> got = want
\* the registry file: the descriptors exactly; the LastLoaded flags exactly, unless the registry writer of a
\* shut down process may have written in between (then: only databases that were loaded at some time)
FileOK(st, f) ==
    /\ {[r EXCEPT !.ll = FALSE] : r \in f} = {[r EXCEPT !.ll = FALSE] : r \in st.file}
    /\ Cardinality(f) = Cardinality(st.file)
    /\ IF st.sloppy THEN \A r \in f : r.ll => r.n \in st.ever ELSE f = st.file

\* ---------------------------------------------------------------- laws of the model (checked by TLC)
TypeFixed(st, o, x) == \A r \in st.mem : \A q \in x.st.mem : (o.op # "proc" /\ r.n = q.n) => r.t = q.t
\* a controller exists only for registered names, with the registered type (or as injected), at most one per name
CtlSound(st) == /\ \A c \in st.ctl : Has(st, c.n) /\ Desc(st, c.n).t = c.t
                /\ \A c, e \in st.ctl : c.n = e.n => c = e
                /\ \A c \in st.ctl : c.t \notin {"nostart", "ghost"}
\* with persistence the file is the registry (up to LastLoaded flags) whenever the process is initialized
FileIsMem(st) == (st.up /\ st.persist /\ st.inited) =>
                    {[r EXCEPT !.ll = FALSE] : r \in st.file} = {[r EXCEPT !.ll = FALSE] : r \in st.mem}
NamesValid(st) == \A r \in st.mem \cup st.file : r.n \in GoodNames
LoadedSound(st) == \A r \in st.mem \cup st.file : r.ll => r.n \in st.ever
\* after shutdown nothing is started, nothing touched, no operation reports success on a storage
ShutQuiet(st, o, x) == (st.shut /\ o.op \notin {"proc", "withdraw", "race"}) =>
                          /\ x.res.may = {} /\ x.res.io = "zero"
                          /\ x.st.ctl = st.ctl
                          /\ (o.op \in {"use", "inject", "migrate"} => x.res.err \notin {"ok", "any"})
\* a failed operation leaves registry, controllers and migrations alone (first use may set LastLoaded)
FailKeeps(st, o, x) == (x.res.err \in {"anyerr", "shutdown"} /\ o.op \notin {"shutdown", "madd", "use"}) =>
                          x.st.mem = st.mem /\ x.st.ctl = st.ctl /\ x.st.migs = st.migs /\ x.st.file = st.file
\* migrations: runs ascend strictly above the stored version... (equal versions allowed next to each other),
\* each at most once, chained from/to, and the stored version never decreases
RunsOK(st, o, x) == o.op = "migrate" =>
    LET runs == x.res.runs IN
    /\ \A i \in 1..Len(runs) : runs[i].to >= runs[i].from /\ (i > 1 => runs[i].from = runs[i - 1].to)
    /\ \A i, j \in 1..Len(runs) : i # j => runs[i].id # runs[j].id
    /\ \A i \in 1..Len(runs) : \E k \in 1..Len(x.st.migs) : x.st.migs[k].id = runs[i].id /\ x.st.migs[k].ver = runs[i].to
    /\ x.st.diskver >= st.diskver /\ x.st.memver >= st.memver
    /\ (x.res.err = "ok" =>
            \A k \in 1..Len(x.st.migs) : x.st.migs[k].ver <= Stored(x.st))
====
