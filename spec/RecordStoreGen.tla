---- MODULE RecordStoreGen ----
\* Property C02: (a) breadth-first model checking of the laws of spec/RecordStore.tla on every reachable
\* state of a small key set (Emit = FALSE), (b) generation of operation histories for the driver
\* harness/cmd/dbx (Emit = TRUE, -simulate).
EXTENDS RecordStore, Json

CONSTANTS MaxLen,    \* operations per emitted history / depth bound of the breadth-first search
          Emit,      \* print finished histories as JSON
          Timed,     \* histories with clock ticks, expiry times a few seconds ahead and relative expiries
          BfsKeys,   \* index of the key set of the breadth-first search (BfsKeySets)
          BfsOpt     \* Always... option of the interface in the breadth-first search ("none", "sec", "cj", "abs", "rel")

VARIABLES st, now, keys, hist, done,
          opt        \* [k, x]: the Always... option of the interface of this history (x: offset for "abs", seconds for "rel")
vars == <<st, now, keys, hist, done, opt>>

T0 == 1000

\* key sets of emitted histories: the first four are legal for the file-tree backend
KeyChoices == << {KAB, KABC, KAD, KAB2}, {KA, KAB2, KXYZ}, {KAB, KAD, KAB2, KXYZ}, {KAB, KABC, KAD, KAB2, KXYZ},
                 {KAB, KABC, KAD, KAB2}, {KAB, KAD, KAB2, KXYZ}, AllKeys, {KA, KAB, KAB2} >>

\* interface options of emitted histories: mostly none; expiries far ahead (and, in timed histories, a few seconds ahead)
OptChoices == << [k |-> "none", x |-> 0], [k |-> "none", x |-> 0], [k |-> "none", x |-> 0], [k |-> "none", x |-> 0],
                 [k |-> "sec", x |-> 0], [k |-> "cj", x |-> 0], [k |-> "abs", x |-> 3600], [k |-> "rel", x |-> 3600],
                 [k |-> "abs", x |-> IF Timed THEN 3 ELSE 3600], [k |-> "rel", x |-> IF Timed THEN 2 ELSE 3600] >>
\* the option as the operations carry it: an absolute expiry is fixed when the interface is created
\* (what an expiry option does to a record that its writer hands in marked deleted is not documented: setting an expiry
\*  clears the mark in the code; such records are not generated for these interfaces)
NoDel(o) == IF opt.k \in {"abs", "rel"}
            THEN [o EXCEPT !.m = [@ EXCEPT !.del = FALSE], !.batch = [j \in 1..Len(o.batch) |-> [o.batch[j] EXCEPT !.m = [@ EXCEPT !.del = FALSE]]]]
            ELSE o
OptOf(o) == WithOpt(NoDel(o), opt.k, IF opt.k = "abs" THEN T0 + opt.x ELSE opt.x)

BfsKeySets == << {KAB, KAD}, {KA, KAB2}, {KAB, KABC, KAB2}, {KA, KAD, KXYZ} >>

Init == /\ st = Empty
        /\ now = T0
        /\ keys \in (IF Emit THEN {{}} ELSE {BfsKeySets[BfsKeys]})
        /\ hist = <<>>
        /\ done = FALSE
        /\ opt \in (IF Emit THEN {[k |-> "unset", x |-> 0]}
                    ELSE {[k |-> BfsOpt, x |-> IF BfsOpt \in {"abs", "rel"} THEN 3600 ELSE 0]})

\* emitted histories: key set and interface option are drawn in the first step of every behaviour (TLC evaluates Init
\* once per simulation run: drawn there, all histories of a run would share them)
Choose == /\ Emit /\ opt.k = "unset"
          /\ keys' = KeyChoices[RandomElement(1..Len(KeyChoices))]
          /\ opt' = OptChoices[RandomElement(1..Len(OptChoices))]
          /\ UNCHANGED <<st, now, hist, done>>

\* ---------------------------------------------------------------- random operations (Emit = TRUE)
\* every component is drawn separately (the product sets are far too large to enumerate); the dummy
\* parameter keeps TLC from caching a draw
Rnd(S, n) == RandomElement(S)
RandData(n) == Data(Rnd(IntDom, n), Rnd(IntDom, n), Rnd(FloatDom, n), Rnd(BOOLEAN, n), Rnd(StrDom, n), Rnd(StrDom, n))
ExpOffsets == IF Timed THEN <<0, 0, 0, 0, 0, -10, 3600, 2, 2, 3>> ELSE <<0, 0, 0, 0, 0, 0, -10, -10, 3600, 3600>>
RandExp(n) == ExpOffsets[Rnd(1..Len(ExpOffsets), n)]
RandMeta(n) == LET sel == Rnd(0..19, n) IN
    IF sel < 8 THEN NoMeta
    ELSE IF sel = 8 THEN MetaIn(Rnd(0..3, n), 0, TRUE, 0, FALSE, FALSE)                       \* handed in as deleted
    ELSE IF sel = 9 /\ Timed THEN MetaIn(Rnd(0..3, n), 0, FALSE, Rnd({1, 2}, n), FALSE, FALSE)   \* relative expiry
    ELSE MetaIn(Rnd(0..3, n), RandExp(n), FALSE, 0, Rnd(0..5, n) = 0, Rnd(0..5, n) = 0)
Forms == {"struct", "json"}

IntKeys == <<FI1, FI2>>
RandKeyFor(op, n) ==
    LET kind == FieldKind(op)
        right == CASE kind = "int" -> {FI1, FI2} [] kind = "float" -> {FF} [] kind = "bool" -> {FB}
                   [] kind = "any" -> {FI1, FF, FB, FS1, FM} [] OTHER -> {FS1, FS2}
    IN IF Rnd(0..9, n) < 8 THEN Rnd(right, n) ELSE Rnd({FI1, FI2, FF, FB, FS1, FS2, FM}, n)
RandVal(op, n) ==
    CASE op \in IntOps -> IntV(Rnd(IntDom, n))
      [] op \in FloatOps -> FloatV(IF Rnd(0..15, n) = 0 THEN NaN ELSE Rnd(FloatDom, n))
      [] op \in StrOps -> StrV(Rnd(StrOperands, n))
      [] op = "in" -> ListV(IF Rnd(0..1, n) = 0 THEN <<Rnd(StrOperands, n), Rnd(StrOperands, n)>>
                            ELSE <<Rnd(StrOperands, n), Rnd(StrOperands, n), Rnd(StrOperands, n)>>)
      [] op = "matches" -> ReV(Rnd(0..3, n), Rnd(StrOperands, n))
      [] op = "is" -> BoolV(Rnd(BOOLEAN, n))
      [] op = "exists" -> NoV
RandLeaf(n) == LET op == Rnd(Ops, n) IN Leaf(RandKeyFor(op, n), op, RandVal(op, n))
RECURSIVE RandCond(_)
RandCond(d) == LET sel == Rnd(0..11, d) IN
    IF d = 0 \/ sel < 5 THEN RandLeaf(d)
    ELSE IF sel < 7 THEN And(<<RandCond(d - 1), RandCond(d - 1)>>)
    ELSE IF sel < 9 THEN Or(<<RandCond(d - 1), RandCond(d - 1)>>)
    ELSE IF sel = 9 THEN And(<<RandCond(d - 1), RandCond(d - 1), RandCond(d - 1)>>)
    ELSE Not(RandCond(d - 1))
RandQuery(name, n) == QueryOp(name, Rnd(QPrefixes, n), IF Rnd(0..3, n) = 0 THEN NoCondition ELSE RandCond(2))
RandBatch(K, n) == LET len == Rnd(1..4, n) IN [j \in 1..len |-> BatchEl(Rnd(K, n), RandData(n), RandMeta(n), Rnd(Forms, n))]

Families == <<"put", "put", "put", "put", "putnew", "get", "get", "get", "exists", "delete", "delete", "putmany", "purge",
              "setabs", "setabs", "flag", "maintain", "query", "query", "query", "query", "flush", "setrelfar">>
TimedFamilies == <<"tick", "tick", "setrel", "get", "query">>
RandOp(K, n) ==
    LET F == IF Timed THEN Families \o TimedFamilies ELSE Families
        f == F[Rnd(1..Len(F), n)]
    IN CASE f = "put"     -> PutOp("Put", Rnd(K, n), RandData(n), RandMeta(n), Rnd(Forms, n))
         [] f = "putnew"  -> PutOp("PutNew", Rnd(K, n), RandData(n), RandMeta(n), Rnd(Forms, n))
         [] f = "get"     -> KeyOp("Get", Rnd(K, n))
         [] f = "exists"  -> KeyOp("Exists", Rnd(K, n))
         [] f = "delete"  -> KeyOp("Delete", Rnd(K, n))
         [] f = "putmany" -> BatchOp(RandBatch(K, n))
         [] f = "purge"   -> RandQuery("Purge", n)
         [] f = "setabs"  -> NumOp("SetAbsoluteExpiry", Rnd(K, n), RandExp(n))
         [] f = "setrel"  -> NumOp("SetRelativeExpiry", Rnd(K, n), Rnd({1, 2}, n))
         \* a relative expiry far in the future: its interplay with absolute expiries and later saves shows without waiting
         [] f = "setrelfar" -> NumOp("SetRelativeExpiry", Rnd(K, n), 3600)
         [] f = "flag"    -> KeyOp(Rnd({"MakeSecret", "MakeCrownJewel"}, n), Rnd(K, n))
         [] f = "maintain" -> PlainOp(Rnd(Maintenance, n))
         [] f = "query"   -> RandQuery("Query", n)
         [] f = "flush"   -> PlainOp("FlushCache")
         [] f = "tick"    -> NumOp("Tick", <<>>, Rnd({1, 2, 3}, n))

\* ---------------------------------------------------------------- the small operation set of the breadth-first search
D1 == Data(1, 3, 2, TRUE, <<1>>, <<1, 2>>)
D2 == Data(3, 1, 0, FALSE, <<1, 2>>, <<>>)
BfsMetas == {NoMeta, MetaIn(2, 0, TRUE, 0, FALSE, FALSE), MetaIn(0, -10, FALSE, 0, TRUE, FALSE), MetaIn(1, 3, FALSE, 0, FALSE, TRUE),
             MetaIn(0, 0, FALSE, 2, FALSE, FALSE)}
BfsConds == {NoCondition, Leaf(FI1, "gt", IntV(2)), Not(Leaf(FS1, "startswith", StrV(<<1, 2>>))),
             Leaf(FI1, "fgt", FloatV(1)), Or(<<Leaf(FB, "is", BoolV(TRUE)), Leaf(FM, "exists", NoV)>>)}
BfsPrefixes == {<<>>, <<1>>, <<1, 5>>, <<1, 5, 2>>}
BfsOps(K) ==
    {PutOp(n, k, d, m, "struct") : n \in {"Put", "PutNew"}, k \in K, d \in {D1, D2}, m \in BfsMetas}
    \cup {KeyOp(n, k) : n \in {"Get", "Exists", "Delete", "MakeSecret", "MakeCrownJewel"}, k \in K}
    \cup {NumOp("SetAbsoluteExpiry", k, x) : k \in K, x \in {0, -10, 3, 3600}}
    \cup {NumOp("SetRelativeExpiry", k, 2) : k \in K}
    \cup {QueryOp(n, p, c) : n \in {"Query", "Purge"}, p \in BfsPrefixes, c \in BfsConds}
    \cup {BatchOp(<<BatchEl(k1, D1, NoMeta, "json"), BatchEl(k2, D2, m, "struct")>>) : k1 \in K, k2 \in K, m \in BfsMetas}
    \cup {PlainOp(n) : n \in Maintenance \cup {"FlushCache"}}
    \cup {NumOp("Tick", <<>>, 2), NumOp("Tick", <<>>, 5)}

Pick(S) == IF Emit THEN {RandomElement(S)} ELSE S

DoOp == /\ ~done /\ Len(hist) < MaxLen /\ opt.k # "unset"
        /\ \E o \in (IF Emit THEN {RandOp(keys, 0)} ELSE BfsOps(keys)) :
           \E x \in Pick(StepAt(st, OptOf(Concretize(o, now)), now)) :
              /\ st' = x.st
              /\ now' = IF o.op = "Tick" THEN now + o.x ELSE now
              /\ hist' = Append(hist, IF Emit THEN NoDel(o) ELSE 0)
        /\ UNCHANGED <<keys, done, opt>>

Finish == /\ Emit /\ Len(hist) = MaxLen /\ ~done
          /\ done' = TRUE
          /\ PrintT(<<"@@", ToJson([keys |-> keys, fs |-> SegFree(keys), timed |-> Timed, opt |-> opt, steps |-> hist])>>)
          /\ UNCHANGED <<st, now, keys, hist, opt>>

Next == Choose \/ DoOp \/ Finish
Spec == Init /\ [][Next]_vars

\* ---------------------------------------------------------------- invariants (Emit = FALSE)
StateOK == WellFormedState(st) /\ VisibleKeys(st, now) \subseteq {k \in AllKeys : st[k].present} /\ \A k \in AllKeys \ keys : st[k] = Absent
LawsOK == OpLaws(st, {OptOf(Concretize(o, now)) : o \in BfsOps(keys)}, now)
View == <<st, now, Len(hist), done, opt>>
====
