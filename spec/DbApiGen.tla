---- MODULE DbApiGen ----
\* The database API protocol of DbApi.tla with a client and a most general server (property C13).
\*
\*   Emit = FALSE  model checking: the client sends up to MaxReq requests from a small universe, the server
\*                 sends every reply that Rep allows.  Invariants: the laws of the monitor itself (a finished
\*                 operation stays silent, hidden records are never shown, a written record is read back,
\*                 the notification accounting is consistent).  Liveness: under a fair server the connection
\*                 always becomes quiet with nothing owed (no state of the monitor is a trap in which a
\*                 correct API could not satisfy it any more).
\*   Emit = TRUE   -simulate: the client alone; every behaviour is one request script for the Go driver
\*                 (printed as JSON by Finish).
EXTENDS DbApi, Json

CONSTANTS MaxReq,     \* requests per connection
          Emit,
          GenIds,     \* operation ids the client uses
          GenKeys,    \* keys the client uses (subset of 1..5)
          GenQs,      \* queries the client uses
          GenModes,   \* subset of {"seq", "burst"}
          GenKinds,   \* initial kinds of the records of GenKeys
          GenFams,    \* request families the client uses ({} in simulation: the weighted mix of Family)
          GenBackends \* storage backends of the generated scripts

VARIABLES s, n, hist, hdr, stage
vars == <<s, n, hist, hdr, stage>>

Pick(S) == IF S = {} THEN {} ELSE IF Emit THEN {RandomElement(S)} ELSE S
\* weighted draw from a sequence (model checking: every element)
PickW(q) == IF Emit THEN {q[RandomElement(1..Len(q))]} ELSE {q[j] : j \in 1..Len(q)}

AllC == {<<a, b, c>> : a \in 0..2, b \in 0..2, c \in 0..2}
GenC == IF Emit THEN AllC ELSE {<<1, 0, 0>>, <<1, 2, 0>>}
InsC == IF Emit THEN AllC ELSE {<<2, 0, 0>>}
UniC == {<<1, 0, 0>>, <<1, 2, 0>>, <<2, 0, 0>>, <<2, 2, 0>>, OtherC}   \* contents the model-checked server can show

\* initial records: [k, c, sub]; sub = the concrete class the driver stores (ignored by the model)
InitRecs(key) ==
    IF key \notin GenKeys \/ key = 5 THEN {[k |-> "abs", c |-> NoC, sub |-> "none"]}
    ELSE UNION {
        IF "abs" \in GenKinds THEN {[k |-> "abs", c |-> NoC, sub |-> "none"]} ELSE {},
        IF "json" \in GenKinds THEN {[k |-> "json", c |-> c, sub |-> "json"] : c \in GenC} ELSE {},
        IF "opq" \in GenKinds
            THEN {[k |-> "opq", c |-> NoC, sub |-> x] : x \in IF Emit THEN {"cbor", "raw", "empty", "msgpack", "jarray", "jtext"} ELSE {"cbor"}}
            ELSE {},
        IF "hid" \in GenKinds
            THEN {[k |-> "hid", c |-> c, sub |-> x] : c \in Pick(GenC), x \in IF Emit THEN {"secret", "crown", "both"} ELSE {"secret"}}
            ELSE {},
        IF "bad" \in GenKinds
            THEN {[k |-> "bad", c |-> NoC, sub |-> x] : x \in IF Emit THEN {"version", "short"} ELSE {"version"}}
            ELSE {} }

\* weights for generation: classes of initial records
KindBag == <<"abs", "abs", "json", "json", "json", "opq", "opq", "hid", "bad">>
InitRecW(key, backend) ==
    LET bag == SelectSeq(KindBag, LAMBDA x : x \in GenKinds)
        kd == bag[RandomElement(1..Len(bag))]
        \* bbolt cannot hold the empty database key; only bbolt can hold an unreadable record
        S == {r \in InitRecs(key) : r.k = kd /\ (kd = "bad" => backend = "bbolt") /\ (key = 4 => backend # "bbolt")}
    IN IF S = {} THEN {[k |-> "abs", c |-> NoC, sub |-> "none"]} ELSE {RandomElement(S)}

Init == /\ s = InitState("seq", [k \in Keys |-> [k |-> "abs", c |-> NoC]])
        /\ n = 0 /\ hist = <<>> /\ stage = "setup"
        /\ hdr = [mode |-> "seq", backend |-> "hashmap", init |-> <<>>]

Setup == /\ stage = "setup"
         /\ \E mode \in Pick(GenModes) : \E be \in Pick(IF Emit THEN GenBackends ELSE {"hashmap"}) :
            \E r1 \in (IF Emit THEN InitRecW(1, be) ELSE InitRecs(1)) :
            \E r2 \in (IF Emit THEN InitRecW(2, be) ELSE InitRecs(2)) :
            \E r3 \in (IF Emit THEN InitRecW(3, be) ELSE InitRecs(3)) :
            \E r4 \in (IF Emit THEN InitRecW(4, be) ELSE InitRecs(4)) :
               LET store == <<r1, r2, r3, r4, [k |-> "abs", c |-> NoC, sub |-> "none"]>> IN
               /\ hdr' = [mode |-> mode, backend |-> be, init |-> IF Emit THEN store ELSE <<>>]
               /\ s' = InitState(mode, store)
         /\ stage' = "run"
         /\ UNCHANGED <<n, hist>>

\* ---------------------------------------------------------------- client
R(cmd, id, key, q, pf, c, cls) == [cmd |-> cmd, id |-> id, key |-> key, q |-> q, pf |-> pf, c |-> c, cls |-> cls]

Free == {i \in GenIds : s.op[i].cmd = "none"}
Reusable == {i \in GenIds : s.op[i].cmd \notin (SubCmds \cup {"none"}) /\ (Emit \/ s.op[i].ph = "term")}
\* ids for a new operation: concurrent operations never share an id; an id of a subscription is never reused
NewIds == IF IsSeq(s) THEN (IF Emit /\ Free # {} /\ Reusable # {} /\ RandomElement(1..10) <= 7 THEN Free ELSE Free \cup Reusable)
          ELSE Free
SubIds == {i \in GenIds : SubLive(s.op[i])}
CancelIds == IF Emit /\ SubIds # {} /\ RandomElement(1..10) <= 7 THEN SubIds ELSE GenIds

Family == <<"get", "get", "query", "sub", "qsub", "put", "put", "insert", "insert", "delete", "cancel", "cancel", "mal", "iw">>

ReqsOf(f) ==
    CASE f = "get"    -> {R("get", i, k, 0, "", NoC, "") : i \in Pick(NewIds), k \in Pick(GenKeys)}
      [] f = "query"  -> {R("query", i, 0, q, "", NoC, "") : i \in Pick(NewIds), q \in Pick(GenQs)}
      [] f = "sub"    -> {R("sub", i, 0, q, "", NoC, "") : i \in Pick(Free), q \in Pick(GenQs)}
      [] f = "qsub"   -> {R("qsub", i, 0, q, "", NoC, "") : i \in Pick(Free), q \in Pick(GenQs)}
      [] f = "put"    -> {R(cm, i, k, 0, pf, IF pf = "J" THEN c ELSE NoC, "") :
                              cm \in Pick({"create", "update"}), i \in Pick(NewIds), k \in Pick(GenKeys),
                              pf \in PickW(<<"J", "J", "opq">>), c \in Pick(GenC)}
      [] f = "insert" -> {R("insert", i, k, 0, pf, IF pf = "J" THEN c ELSE NoC, "") :
                              i \in Pick(NewIds), k \in Pick(GenKeys),
                              pf \in PickW(<<"J", "J", "J", "opq">>), c \in Pick(InsC)}
      [] f = "delete" -> {R("delete", i, k, 0, "", NoC, "") : i \in Pick(NewIds), k \in Pick(GenKeys)}
      [] f = "cancel" -> {R("cancel", i, 0, 0, "", NoC, "") : i \in Pick(CancelIds)}
      [] f = "mal"    -> {R("mal", IF cl \in {"nosep", "empty"} THEN 0 ELSE i, 0, 0, "", NoC, cl) :
                              i \in Pick(GenIds),
                              cl \in Pick(IF Emit THEN {"nosep", "onesep", "unkcmd", "nopayload", "short", "empty"}
                                                   ELSE {"nosep", "unkcmd"})}
      [] f = "iw"     -> UNION {{R("iw", 0, k, 0, pf, IF pf = "J" THEN c ELSE NoC, "") :
                                    pf \in IF s.st[k].k = "hid" THEN {"hid"} ELSE PickW(<<"J", "J", "opq", "del">>), c \in Pick(GenC)}
                                : k \in Pick(GenKeys \ (IF hdr.backend = "bbolt" THEN {4, 5} ELSE {5}))}

\* an internal write never changes whether a record is hidden (the monitor relies on it)
Sensible(r) == r.cmd = "iw" => (r.pf = "hid" <=> s.st[r.key].k = "hid")

\* one request at a time: the sequential client waits for the terminal reply (a subscription has none)
Ready == Emit \/ ~IsSeq(s) \/ \A i \in GenIds : s.op[i].ph # "run"

ClientReq == /\ stage = "run" /\ n < MaxReq /\ Ready
             /\ \E f \in (IF Emit /\ GenFams = {} THEN PickW(Family) ELSE Pick(GenFams)) : \E r \in ReqsOf(f) :
                   /\ Sensible(r)
                   /\ s' = IF r.cmd = "iw" THEN Req(Req(s, r), [r EXCEPT !.cmd = "iwok"]) ELSE Req(s, r)
                   /\ hist' = IF Emit THEN Append(hist, r) ELSE hist
             /\ n' = n + 1
             /\ UNCHANGED <<hdr, stage>>

Finish == /\ stage = "run" /\ n = MaxReq /\ Emit
          /\ stage' = "done"
          /\ PrintT(<<"@@", ToJson([mode |-> hdr.mode, backend |-> hdr.backend, init |-> hdr.init, steps |-> hist])>>)
          /\ UNCHANGED <<s, n, hist, hdr>>

\* ---------------------------------------------------------------- most general server
Universe ==
    {[id |-> i, typ |-> t, key |-> 0, c |-> NoC, meta |-> FALSE] : i \in GenIds, t \in {"error", "done", "success", "warning"}}
    \cup {[id |-> i, typ |-> "del", key |-> k, c |-> NoC, meta |-> FALSE] : i \in GenIds, k \in GenKeys}
    \cup {[id |-> i, typ |-> t, key |-> k, c |-> c, meta |-> TRUE] :
            i \in GenIds, t \in {"ok", "upd", "new"}, k \in GenKeys, c \in UniC}
    \* without the metadata section: one content is enough (the section is judged independently of the content)
    \cup {[id |-> i, typ |-> t, key |-> k, c |-> <<1, 0, 0>>, meta |-> FALSE] :
            i \in GenIds, t \in {"ok", "upd", "new"}, k \in GenKeys}

ServerRep == /\ stage = "run" /\ ~Emit
             /\ \E m \in Universe : \E t \in Rep(s, m) : s' = t
             /\ UNCHANGED <<n, hist, hdr, stage>>

\* a reply that settles something: an operation, a malformed message, an owed notification
Better(a, b) ==
    \/ \E i \in GenIds : ~OpSettled(a.op[i]) /\ OpSettled(b.op[i])
    \/ \E i \in Ids : b.mal[i] < a.mal[i]
    \/ \E i \in GenIds : \E k \in Keys : a.op[i].got[k] < a.op[i].owed[k] /\ b.op[i].got[k] > a.op[i].got[k]
    \/ \E i \in GenIds : a.op[i].ph = "run" /\ b.op[i].ph = "sub"
Progress == /\ stage = "run" /\ ~Emit
            /\ \E m \in Universe : \E t \in Rep(s, m) : Better(s, t) /\ s' = t
            /\ UNCHANGED <<n, hist, hdr, stage>>

Next == Setup \/ ClientReq \/ ServerRep \/ Finish
Spec == Init /\ [][Next]_vars
FairSpec == Spec /\ WF_vars(Progress)

\* ---------------------------------------------------------------- laws
Accepted(m) == Rep(s, m) # {}
NoCredit(i) == s.cred[i] = 0 /\ s.mal[i] = 0 /\ (i = 0 => \A j \in Ids : s.mal[j] = 0)

TypeOK == /\ s.mode \in {"seq", "burst"}
          /\ \A k \in Keys : s.st[k].k \in {"abs", "json", "opq", "hid", "bad", "unk"}
          /\ \A i \in Ids : s.op[i].cmd \in OpCmds \cup {"none"} /\ s.op[i].ph \in {"none", "run", "sub", "term"}
          /\ \A i \in Ids : s.cred[i] >= 0 /\ s.mal[i] >= 0
\* no reply after the terminal reply; replies only to ids that were used
Silent == \A i \in GenIds : (~Live(s.op[i]) /\ NoCredit(i)) => \A m \in Universe : m.id = i => ~Accepted(m)
\* after the terminal reply only the errors owed to cancels and malformed messages can follow
OnlyErrors == \A i \in GenIds : ~Live(s.op[i]) => \A m \in Universe : (m.id = i /\ Accepted(m)) => m.typ = "error"
\* secret and crown jewel records are never shown (C03 overlap)
NoHidden == \A m \in Universe : (m.key # 0 /\ s.st[m.key].k = "hid") => ~Accepted(m)
\* a record written through the API is read back unchanged, with the metadata section
ReadBack == IsSeq(s) => \A i \in GenIds :
                LET o == s.op[i] IN
                (o.cmd = "get" /\ o.ph = "run" /\ s.st[o.key].k = "json") =>
                    /\ \E m \in Universe : m.id = i /\ m.typ = "ok" /\ Accepted(m)
                    /\ \A m \in Universe : (m.id = i /\ Accepted(m)) =>
                          \/ m.typ = "ok" /\ m.key = o.key /\ m.c = s.st[o.key].c /\ m.meta
                          \/ m.typ = "error" /\ ~NoCredit(i)
\* all laws about replies in one pass over the reply universe (TLC evaluates Rep once per message)
ReplyLaws ==
    \A m \in Universe :
        LET i == m.id
            o == s.op[i]
            acc == Accepted(m)
        IN /\ (~Live(o) /\ NoCredit(i)) => ~acc
           /\ (~Live(o) /\ acc) => m.typ = "error"
           /\ (m.key # 0 /\ s.st[m.key].k = "hid") => ~acc
           /\ (IsSeq(s) /\ o.cmd = "get" /\ o.ph = "run" /\ s.st[o.key].k = "json" /\ acc) =>
                  \/ m.typ = "ok" /\ m.key = o.key /\ m.c = s.st[o.key].c /\ m.meta
                  \/ m.typ = "error" /\ ~NoCredit(i)
ReadBackPossible ==
    IsSeq(s) => \A i \in GenIds : LET o == s.op[i] IN
        (o.cmd = "get" /\ o.ph = "run" /\ s.st[o.key].k = "json") =>
            Accepted([id |-> i, typ |-> "ok", key |-> o.key, c |-> s.st[o.key].c, meta |-> TRUE])
Counters == \A i \in GenIds : \A k \in Keys :
                LET o == s.op[i] IN
                /\ o.got[k] <= s.wr[k] - o.base[k]
                /\ (o.cmd \in SubCmds => o.owed[k] <= s.wr[k] - o.base[k])
StoreSane == \A k \in Keys : (s.st[k].k = "json" => s.st[k].c \in s.st[k].seen)
                          /\ (s.st[k].k \in {"opq", "unk", "bad"} => s.st[k].loose)
\* a correct server can always finish: nothing stays owed for ever
Quiesces == <>[]EndOK(s)
====
