---- MODULE USyncTrace ----
\* X02 -- validates the histories recorded from the real utils.OnceAgain, utils.CallLimiter, utils.StablePool
\* and utils.BroadcastFlag (harness/cmd/usync) against the contract monitors USyncBundle (bundling
\* primitives) and USyncLin/USyncSeq (linearizable objects).  trace.ndjson, one JSON object per line, in the
\* real-time order of the events (a global atomic counter orders them; "call" is recorded before the method
\* is invoked, "ret" after it returned, "fs"/"fe" first and last thing inside the function given to Do):
\*   {"e":"new","kind":"once"|"limiter"|"pool"|"flag","np":n,"pause":us,"hasnew":b,"nf":n}   next history
\*   {"e":"call","p":p}  {"e":"fs","p":p,"t":us}  {"e":"fe","p":p,"t":us,"pan":b}  {"e":"ret","p":p,"pan":b}
\*   {"e":"call","p":p,"op":name,"a":n}  {"e":"ret","p":p,"k":kind,"v":n}
\*   {"e":"stuck"}   the calls of the history did not all return (never accepted)
\* One TLC state per consumed line; the reason of a rejection is printed (<<"@@", {"l":line,"why":reason}>>).
EXTENDS USyncBundle, USyncLin, Json, TLC

Trace == ndJsonDeserialize("trace.ndjson")

VARIABLES kind, m, l
vars == <<kind, m, l>>

Init == kind = "-" /\ m = [bad |-> ""] /\ l = 1

Ev == Trace[l]
Bundled == kind \in {"once", "limiter"}

Why(w) == PrintT(<<"@@", ToJson([l |-> l, why |-> kind \o ":" \o w])>>) /\ FALSE
Take(m2) == /\ IF m2.bad = "" THEN TRUE ELSE Why(m2.bad)
            /\ m' = m2 /\ l' = l + 1 /\ UNCHANGED kind

New == /\ l <= Len(Trace) /\ Ev.e = "new"
       /\ kind' = Ev.kind
       /\ m' = CASE Ev.kind = "once" -> BInit(Ev.np, FALSE, 0, 0)
                 [] Ev.kind = "limiter" -> BInit(Ev.np, TRUE, Ev.pause, Ev.pause \div 10)
                 [] Ev.kind = "pool" -> LInit("pool", PoolInit(Ev.hasnew), Ev.np)
                 [] Ev.kind = "flag" -> LInit("flag", FlagInit(Ev.nf), Ev.np)
       /\ l' = l + 1

Call == /\ l <= Len(Trace) /\ Ev.e = "call"
        /\ Take(IF Bundled THEN BCall(m, Ev.p) ELSE LCall(m, Ev.p, Op(Ev.op, Ev.a)))

FStart == /\ l <= Len(Trace) /\ Ev.e = "fs" /\ Bundled
          /\ Take(BFs(m, Ev.p, Ev.t))

FEnd == /\ l <= Len(Trace) /\ Ev.e = "fe" /\ Bundled
        /\ Take(BFe(m, Ev.p, Ev.t, Ev.pan))

Ret == /\ l <= Len(Trace) /\ Ev.e = "ret"
       /\ Take(IF Bundled THEN BRet(m, Ev.p, Ev.pan) ELSE LRet(m, Ev.p, Res(Ev.k, Ev.v)))

Stuck == /\ l <= Len(Trace) /\ Ev.e = "stuck"
         /\ Why("stuck")
         /\ UNCHANGED vars

Next == New \/ Call \/ FStart \/ FEnd \/ Ret \/ Stuck
Spec == Init /\ [][Next]_vars

Accepted == TLCGet("stats").diameter - 1 = Len(Trace)
====
