---- MODULE Container ----
\* container.Container as a plain byte queue (property C16).
\*
\* State: q, the sequence of bytes held.  Every public operation is one action; `Step(q, op)` is the
\* set of allowed outcomes [res, q] of one operation, so that the same definition serves
\*   * generation of operation sequences (ContainerGen: TLC -simulate / BFS prints histories), and
\*   * validation of traces recorded from the Go implementation (ContainerTrace).
\* Where the property leaves an outcome open the set has more than one element.
EXTENDS Integers, Sequences, FiniteSets, TLC, Varint

\* ---------------------------------------------------------------- helpers
Take(s, n) == IF n <= 0 THEN <<>> ELSE IF n >= Len(s) THEN s ELSE SubSeq(s, 1, n)
Drop(s, n) == IF n <= 0 THEN s ELSE IF n >= Len(s) THEN <<>> ELSE SubSeq(s, n + 1, Len(s))
RECURSIVE Flat(_)
Flat(ss) == IF ss = <<>> THEN <<>> ELSE Head(ss) \o Flat(Tail(ss))

\* uniform record shapes (TLC cannot compare records of different shape inside one set)
\* c = the container the operation is applied to, keep = the container (or slice) it returns lives on
\* as a further container (see MStep below); both are ignored by Step
Op(name, b, n, num, parts) == [op |-> name, b |-> b, n |-> n, num |-> num, parts |-> parts, c |-> 1, keep |-> FALSE]
Res(ok, data, num, flag) == [ok |-> ok, data |-> data, num |-> num, flag |-> flag]
Out(r, nq) == [res |-> r, q |-> nq]

OkData(d) == Res(TRUE, d, <<0>>, FALSE)
OkNone == Res(TRUE, <<>>, <<0>>, FALSE)
Err == Res(FALSE, <<>>, <<0>>, FALSE)

\* ---------------------------------------------------------------- the reference semantics
Step(q, o) ==
  CASE o.op = "Append"          -> {Out(OkNone, q \o o.b)}
    [] o.op = "Prepend"         -> {Out(OkNone, o.b \o q)}
    [] o.op \in {"AppendNumber", "AppendInt"}   -> {Out(OkNone, q \o Pack(o.num))}
    [] o.op \in {"PrependNumber", "PrependInt"} -> {Out(OkNone, Pack(o.num) \o q)}
    [] o.op = "AppendAsBlock"   -> {Out(OkNone, q \o Pack(OfNat(Len(o.b))) \o o.b)}
    [] o.op = "PrependAsBlock"  -> {Out(OkNone, Pack(OfNat(Len(o.b))) \o o.b \o q)}
    [] o.op = "PrependLength"   -> {Out(OkNone, Pack(OfNat(Len(q))) \o q)}
    [] o.op = "AppendContainer" -> {Out(OkNone, q \o Flat(o.parts))}
    [] o.op = "AppendContainerAsBlock" ->
            {Out(OkNone, q \o Pack(OfNat(Len(Flat(o.parts)))) \o Flat(o.parts))}
    \* the appended container was partly consumed before (o.n bytes were taken out of it with Get)
    [] o.op = "AppendUsedContainer" ->
            LET src == Flat(o.parts) rest == IF o.n <= Len(src) THEN Drop(src, o.n) ELSE src
            IN {Out(OkNone, q \o rest)}
    [] o.op = "AppendUsedContainerAsBlock" ->
            LET src == Flat(o.parts) rest == IF o.n <= Len(src) THEN Drop(src, o.n) ELSE src
            IN {Out(OkNone, q \o Pack(OfNat(Len(rest))) \o rest)}
    [] o.op = "Replace"         -> {Out(OkNone, o.b)}
    [] o.op = "Reload"          -> {Out(OkNone, q)}      \* UnmarshalJSON(MarshalJSON())
    \* --- non-consuming reads
    [] o.op = "Peek"            -> {Out(OkData(Take(q, o.n)), q)}
    [] o.op = "PeekContainer"   -> IF o.n < 0 \/ o.n > Len(q) THEN {Out(Err, q)}
                                   ELSE {Out(OkData(Take(q, o.n)), q)}
    [] o.op = "CompileData"     -> {Out(OkData(q), q)}
    [] o.op = "HoldsData"       -> {Out(Res(TRUE, <<>>, <<0>>, Len(q) > 0), q)}
    \* --- consuming reads
    [] o.op \in {"Get", "GetAsContainer"} ->
            IF o.n > Len(q) THEN {Out(Err, q)}
            ELSE IF o.n < 0 THEN {Out(Err, q), Out(OkData(<<>>), q)}   \* property is silent on negative sizes
            ELSE {Out(OkData(Take(q, o.n)), Drop(q, o.n))}
    [] o.op = "GetMax"          -> {Out(OkData(Take(q, o.n)), Drop(q, o.n))}
    [] o.op = "GetAll"          -> {Out(OkData(q), <<>>)}
    [] o.op = "WriteToSlice"    -> \* o.n = len(slice) >= 0; flag = container emptied
            {Out(Res(TRUE, Take(q, o.n), <<0>>, Drop(q, o.n) = <<>>), Drop(q, o.n))}
    \* --- varint framed reads
    [] o.op \in {"GetNextBlock", "GetNextBlockAsContainer"} ->
            UNION { IF ~u.ok THEN {Out(Err, q)}
                    ELSE LET L == ToNat(u.val) IN
                         IF L < 0 \/ L > Len(q) - u.n
                         THEN {Out(Err, q), Out(Err, Drop(q, u.n))}     \* prefix may have been consumed
                         ELSE {Out(OkData(SubSeq(q, u.n + 1, u.n + L)), Drop(q, u.n + L))}
                  : u \in UnpackAllowed(q, 64, 10) }
    [] o.op = "GetNextN"        -> \* o.n = width
            { IF u.ok THEN Out(Res(TRUE, <<>>, u.val, FALSE), Drop(q, u.n)) ELSE Out(Err, q)
              : u \in UnpackAllowed(q, o.n, See(o.n)) }

\* ---------------------------------------------------------------- several containers
\* "Container-splitting": Get/Peek/GetNextBlock and their ...AsContainer forms hand out data that the caller
\* goes on using, typically as a container of its own (New(slice) or the returned container), and
\* AppendContainer shares the source's data with the target.  The Go code never copies in these
\* operations, the byte queue model does: from then on every container is a queue of its own.
\*   qs          sequence of queues, qs[1] is the container the history started with
\*   o.c         index of the container the operation works on
\*   o.keep      the result of a successful splitting operation becomes container Len(qs) + 1
\*   AppendExisting(AsBlock): o.n = index of the source container, which stays as it is
Splitters == {"Get", "GetMax", "GetAll", "Peek", "PeekContainer", "GetAsContainer", "GetNextBlock", "GetNextBlockAsContainer"}
MOut(r, nqs) == [res |-> r, qs |-> nqs]
MStep(qs, o) ==
    IF o.op = "AppendExisting" THEN {MOut(OkNone, [qs EXCEPT ![o.c] = @ \o qs[o.n]])}
    ELSE IF o.op = "AppendExistingAsBlock"
    THEN {MOut(OkNone, [qs EXCEPT ![o.c] = @ \o Pack(OfNat(Len(qs[o.n]))) \o qs[o.n]])}
    ELSE { MOut(x.res, LET base == [qs EXCEPT ![o.c] = x.q]
                       IN IF o.keep /\ x.res.ok /\ o.op \in Splitters THEN Append(base, x.res.data) ELSE base)
           : x \in Step(qs[o.c], o) }
On(o, c, keep) == [o EXCEPT !.c = c, !.keep = keep]
ExistingOps(qs, c) == { [Op(n, <<>>, j, <<0>>, <<>>) EXCEPT !.c = c] :
                        n \in {"AppendExisting", "AppendExistingAsBlock"}, j \in (1..Len(qs)) \ {c} }
\* an operation on one container leaves every other container exactly as it was
OthersUntouched(qs, o) == \A x \in MStep(qs, o) : \A i \in 1..Len(qs) : i # o.c => x.qs[i] = qs[i]

\* ---------------------------------------------------------------- argument domains
Slices == { <<>>, <<7>>, <<1, 2, 3>>, <<128>>, <<200, 1>>, <<255, 127>>, <<128, 0>>, <<3, 9, 9, 9>>,
            <<255, 255, 255, 255, 255, 255, 255, 255, 255, 1>>,      \* 2^64-1
            <<255, 255, 255, 255, 255, 255, 255, 255, 255, 2>>,      \* overflow
            <<128, 128, 128, 128, 128, 128, 128, 128, 128, 128, 1>>, \* 11 groups
            <<128, 128, 128, 128, 128, 128, 128, 128, 128, 1>>,      \* 2^63
            <<10, 11, 12, 13, 14, 15, 16, 17, 18, 19, 20, 21>> }
Nine127 == [i \in 1..9 |-> 127]
Nine0 == [i \in 1..9 |-> 0]
Nums == { <<0>>, <<1>>, <<2>>, <<5>>, <<127>>, <<0, 1>>, <<72, 1>>, <<127, 1>>, <<0, 2>>,
          <<127, 127, 3>>, <<0, 0, 4>>, <<127, 127, 127, 127, 15>>, <<0, 0, 0, 0, 16>>,
          Nine127, Nine0 \o <<1>>, Nine127 \o <<1>> }
PartLists == { <<>>, << <<>> >>, << <<1, 2>> >>, << <<5>>, <<>>, <<6, 7>> >>, << <<2>>, <<8, 9>>, <<200>>, <<1>> >> }
Sizes(q) == {-1, 0, 1, 2, 3, 5, Len(q), Len(q) + 1, Len(q) - 1} \ {-2}

Ops(q) ==
    {Op(n, b, 0, <<0>>, <<>>) : n \in {"Append", "Prepend", "AppendAsBlock", "PrependAsBlock", "Replace"}, b \in Slices}
    \cup {Op(n, <<>>, 0, d, <<>>) : n \in {"AppendNumber", "PrependNumber", "AppendInt", "PrependInt"}, d \in Nums}
    \cup {Op(n, <<>>, 0, <<0>>, p) : n \in {"AppendContainer", "AppendContainerAsBlock"}, p \in PartLists}
    \cup {Op(n, <<>>, k, <<0>>, p) : n \in {"AppendUsedContainer", "AppendUsedContainerAsBlock"}, p \in PartLists, k \in {1, 2, 3}}
    \cup {Op(n, <<>>, 0, <<0>>, <<>>) : n \in {"PrependLength", "Reload", "CompileData", "HoldsData", "GetAll",
                                               "GetNextBlock", "GetNextBlockAsContainer"}}
    \cup {Op(n, <<>>, k, <<0>>, <<>>) : n \in {"Peek", "PeekContainer", "Get", "GetAsContainer", "GetMax"}, k \in Sizes(q)}
    \cup {Op("WriteToSlice", <<>>, k, <<0>>, <<>>) : k \in Sizes(q) \ {-1}}
    \cup {Op("GetNextN", <<>>, w, <<0>>, <<>>) : w \in {8, 16, 32, 64}}

\* weights for generation: reads are as likely as writes although they have fewer argument variants
Family == {"write", "number", "container", "plain", "sized", "slice", "varint"}
OpsOf(f, q) ==
    CASE f = "write"     -> {o \in Ops(q) : o.op \in {"Append", "Prepend", "AppendAsBlock", "PrependAsBlock", "Replace"}}
      [] f = "number"    -> {o \in Ops(q) : o.op \in {"AppendNumber", "PrependNumber", "AppendInt", "PrependInt"}}
      [] f = "container" -> {o \in Ops(q) : o.op \in {"AppendContainer", "AppendContainerAsBlock",
                                                        "AppendUsedContainer", "AppendUsedContainerAsBlock"}}
      [] f = "plain"     -> {o \in Ops(q) : o.op \in {"PrependLength", "Reload", "CompileData", "HoldsData", "GetAll"}}
      [] f = "sized"     -> {o \in Ops(q) : o.op \in {"Peek", "PeekContainer", "Get", "GetAsContainer", "GetMax"}}
      [] f = "slice"     -> {o \in Ops(q) : o.op = "WriteToSlice"}
      [] f = "varint"    -> {o \in Ops(q) : o.op \in {"GetNextBlock", "GetNextBlockAsContainer", "GetNextN"}}

\* ---------------------------------------------------------------- queue invariants checked by TLC
\* every byte comes out exactly once, in order: reads return a prefix, and the remainder is the matching suffix
ReadIsPrefix(q, o) == \A x \in Step(q, o) :
    (o.op \in {"Get", "GetAsContainer", "GetMax", "GetAll", "WriteToSlice"} /\ x.res.ok)
        => x.res.data \o x.q = q
FramedReadInside(q, o) == \A x \in Step(q, o) :
    (o.op \in {"GetNextBlock", "GetNextBlockAsContainer", "GetNextN"})
        => \E k \in 0..Len(q) : x.q = Drop(q, k)
====
