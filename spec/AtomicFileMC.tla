---- MODULE AtomicFileMC ----
\* Writer programs of the atomic-replace primitives over the file-system model of AtomicFile, with a
\* process kill (Crash) and a power loss (PowerLoss) enabled in every state, the file system making
\* pending namespace operations durable whenever it likes (Commit), and a concurrent reader.
\* TLC checks DestOK / DurableOK / TempLocOK / ReaderOK on every reachable state.
\* `Mutant` selects a deliberately wrong writer; the check demands that TLC refutes each of them
\* (sensitivity of the model): "nofsync", "latefsync", "inplace", "badloc", "unlinkfirst".
EXTENDS AtomicFile

CONSTANTS Kind,      \* "file" | "dir" | "link"
          OldState,  \* "absent" | "old"
          N,         \* chunks of the new content
          Probe,     \* renameio probes the temp dir first (create in tmp, create next to dest, rename, unlink)
          Mutant     \* "none" or the name of a wrong writer

VARIABLES pc,      \* control state of the writer
          t,       \* name of the temp file / dir in use
          rd       \* reader: [st |-> "idle"|"open"|"done", o |-> object id, res |-> what it read]

vars == <<ns, objs, ddest, pend, cfg, pc, t, rd>>

D    == <<"pub", "f">>
P0   == <<"tmp", ".f0">>
P1   == <<"pub", ".f0">>
T1   == <<"tmp", ".f1">>
S1   == <<"pub", ".f1">>
X1   == <<"pub", "g">>
SD   == <<"pub", ".f2">>
SL   == <<"pub", ".f2", "l">>
TD   == <<"tmp", "a">>
TDx  == <<"tmp", "a", "x">>
TDy  == <<"tmp", "a", "y">>
Dx   == <<"pub", "f", "x">>
Dy   == <<"pub", "f", "y">>

LocOf(n) == CASE IsPrefix(D, n) -> "dest"
              [] n[1] = "tmp" -> "tmp"
              [] n \in {P1, S1, SD, SL} -> "sib"
              [] OTHER -> "other"

Init == /\ InitFS([dest |-> D, kind |-> Kind, size |-> N, entries |-> IF Kind = "dir" THEN 3 ELSE 1,
                   old |-> OldState], 1)
        /\ pc = "start" /\ t = <<>>
        /\ rd = [st |-> "idle", o |-> 0, res |-> "none"]

Live == pc \notin {"done", "failed", "dead"}
Go(p) == pc' = p /\ UNCHANGED <<t, rd>>
Temp(p, n) == pc' = p /\ t' = n /\ UNCHANGED rd

\* ---------------------------------------------------------------- single file
n_written == IF t \in DOMAIN ns THEN objs[ns[t].o].len ELSE 0
FileWriter ==
    \/ /\ pc = "start" /\ Probe /\ Mutant # "inplace"
       /\ Create(P0, "tmp", "file", "") /\ Go("p2")
    \/ /\ pc = "p2" /\ Create(P1, "sib", "file", "") /\ Go("p3")
    \/ /\ pc = "p3" /\ Rename(P0, P1, "sib") /\ Go("p4")
    \/ /\ pc = "p4" /\ Unlink(P1) /\ Go("create")
    \/ /\ pc = "start" /\ ~Probe /\ Mutant # "inplace" /\ Nop /\ Go("create")
    \/ /\ pc = "create"
       /\ \E n \in (IF Mutant = "badloc" THEN {X1} ELSE {T1, S1}) :
             Create(n, LocOf(n), "file", "") /\ Temp("write", n)
    \/ /\ pc = "write" /\ n_written < N /\ Write(t, 1) /\ Go("write")
    \/ /\ pc = "write" /\ n_written = N
       /\ IF Mutant \in {"nofsync", "latefsync"} THEN Nop ELSE Fsync(t)
       /\ Go(IF Mutant = "unlinkfirst" THEN "unlink" ELSE "rename")
    \/ /\ pc = "unlink" /\ Unlink(D) /\ Go("rename")
    \/ /\ pc = "rename" /\ Rename(t, D, "dest") /\ Go(IF Mutant = "latefsync" THEN "sync2" ELSE "done")
    \/ /\ pc = "sync2" /\ Fsync(D) /\ Go("done")
    \* the operation fails (source read error, disk full, ...) before the rename: the temp file is removed
    \/ /\ pc \in {"write", "rename"} /\ Nop /\ Go("cleanup")
    \/ /\ pc = "cleanup" /\ Unlink(t) /\ Go("failed")
    \* wrong writer: writes the destination in place
    \/ /\ pc = "start" /\ Mutant = "inplace" /\ OpenW(D, "dest", TRUE, TRUE) /\ Temp("write", D)

\* ---------------------------------------------------------------- directory (archive unpacking)
DirWriter ==
    LET root == IF Mutant = "inplace" THEN D ELSE TD
        x == IF Mutant = "inplace" THEN Dx ELSE TDx
        y == IF Mutant = "inplace" THEN Dy ELSE TDy IN
    \/ /\ pc = "start" /\ OldState = "old" /\ Nop /\ Go("done")     \* already unpacked: nothing is done
    \/ /\ pc = "start" /\ OldState = "absent" /\ Create(root, LocOf(root), "dir", "") /\ Temp("x", root)
    \/ /\ pc = "x" /\ Create(x, LocOf(x), "file", "") /\ Go("wx")
    \/ /\ pc = "wx" /\ objs[ns[x].o].len < N /\ Write(x, 1) /\ Go("wx")
    \/ /\ pc = "wx" /\ objs[ns[x].o].len = N /\ Nop /\ Go("y")
    \/ /\ pc = "y" /\ Create(y, LocOf(y), "dir", "") /\ Go(IF Mutant = "inplace" THEN "done" ELSE "rename")
    \/ /\ pc = "rename" /\ Rename(TD, D, "dest") /\ Go("done")
    \/ /\ pc \in {"x", "wx", "y"} /\ Nop /\ Go("cleanup")
    \/ /\ pc = "cleanup" /\ Unlink(root) /\ Go("failed")

\* ---------------------------------------------------------------- symbolic link
LinkWriter ==
    \/ /\ pc = "start" /\ (D \notin DOMAIN ns \/ Mutant = "unlinkfirst")
       /\ IF D \in DOMAIN ns THEN Unlink(D) /\ Go("direct") ELSE Create(D, "dest", "link", "new") /\ Go("done")
    \/ /\ pc = "direct" /\ Create(D, "dest", "link", "new") /\ Go("done")
    \/ /\ pc = "start" /\ D \in DOMAIN ns /\ Mutant # "unlinkfirst"
       /\ Create(SD, "sib", "dir", "") /\ Temp("link", SD)
    \/ /\ pc = "link" /\ Create(SL, "sib", "link", "new") /\ Go("rename")
    \/ /\ pc = "rename" /\ Rename(SL, D, "dest") /\ Go("rmdir")
    \/ /\ pc = "rmdir" /\ Unlink(SD) /\ Go("done")
    \/ /\ pc \in {"link", "rename"} /\ Nop /\ Go("cleanup")
    \/ /\ pc = "cleanup" /\ Unlink(SD) /\ Go("failed")

Writer == CASE Kind = "file" -> FileWriter
            [] Kind = "dir"  -> DirWriter
            [] Kind = "link" -> LinkWriter

\* ---------------------------------------------------------------- environment
\* the writer process is killed: everything it did so far stays as it is
Crash == /\ Live /\ pc' = "dead" /\ UNCHANGED <<ns, objs, ddest, pend, cfg, t, rd>>

\* the file system makes the oldest pending namespace operation durable
Commit == /\ pend # <<>> /\ ddest' = Head(pend) /\ pend' = Tail(pend)
          /\ UNCHANGED <<ns, objs, cfg, pc, t, rd>>

\* power loss: the durable namespace plus any prefix of the pending operations survives; a file whose
\* data was not flushed comes back with any shorter length (a zero-length file is a possible outcome)
PowerLoss ==
    /\ Kind = "file" /\ pc # "dead"
    /\ \E id \in PowerLossOutcomes :
          /\ ns' = IF id = 0 THEN [m \in DOMAIN ns \ {D} |-> ns[m]]
                   ELSE [m \in DOMAIN ns \cup {D} |-> IF m = D THEN [o |-> id, loc |-> "dest"] ELSE ns[m]]
          /\ ddest' = id /\ pend' = <<>>
          /\ IF id = 0 \/ objs[id].dlen = objs[id].len THEN objs' = objs
             ELSE \E k \in 0..objs[id].len :
                    objs' = [objs EXCEPT ![id].len = k, ![id].dlen = k,
                                         ![id].gen = IF @ = "old" THEN "dirty" ELSE @]
    /\ pc' = "dead" /\ UNCHANGED <<cfg, t, rd>>

\* a concurrent reader opens the destination and later reads the object it got
ROpen == /\ rd.st = "idle" /\ rd' = [st |-> "open", o |-> DestIdIn(ns), res |-> "none"]
         /\ UNCHANGED <<ns, objs, ddest, pend, cfg, pc, t>>
RRead == /\ rd.st = "open"
         /\ rd' = [rd EXCEPT !.st = "done", !.res = ObjView(rd.o, {})]
         /\ UNCHANGED <<ns, objs, ddest, pend, cfg, pc, t>>

Next == (Live /\ Writer) \/ Crash \/ Commit \/ PowerLoss \/ (Kind = "file" /\ pc # "dead" /\ (ROpen \/ RRead))
Spec == Init /\ [][Next]_vars

\* ---------------------------------------------------------------- what TLC checks
ReaderOK == rd.res \in Allowed \cup {"none"}
DoneNew == pc = "done" /\ ~(Kind = "dir" /\ OldState = "old") => DestView = "new"
FailedOld == pc = "failed" => DestView = cfg.old
Inv == DestOK /\ DurableOK /\ TempLocOK /\ ReaderOK /\ DoneNew /\ FailedOld
====
