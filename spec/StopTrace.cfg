SPECIFICATION Spec
CONSTANTS PromptMs = 2500
POSTCONDITION Accepted
CHECK_DEADLOCK FALSE
