---- MODULE TasksTrace ----
EXTENDS TasksAbs, Json
Trace == ndJsonDeserialize("trace.ndjson")
VARIABLE l
tvars == <<avars, l>>
Ev == Trace[l]
TInit == AbsInit /\ l = 1
TNext == /\ l <= Len(Trace)
         /\ l' = l + 1
         /\ CASE Ev.e = "init"      -> Reset(Ev.n, Ev.ordered, Ev.mdMs)
              [] Ev.e = "sub"       -> Sub(Ev.task, Ev.kind, Ev.at, Ev.t, IF "iv" \in DOMAIN Ev THEN Ev.iv ELSE 0)
              [] Ev.e = "repoff"    -> RepOff(Ev.task)
              [] Ev.e = "cancelret" -> CancelRet(Ev.task)
              [] Ev.e = "unsched"   -> Unsched(Ev.task)
              [] Ev.e = "checked"   -> Checked(Ev.task, Ev.t, Ev.by)
              [] Ev.e = "begin"     -> Begin(Ev.task, Ev.t)
              [] Ev.e = "end"       -> End(Ev.task, Ev.t)
              [] Ev.e = "final"     -> Final(Ev.t)
              [] Ev.e = "note"      -> UNCHANGED avars
              [] OTHER              -> FALSE
Spec == TInit /\ [][TNext]_tvars
Accepted == TLCGet("stats").diameter - 1 = Len(Trace)
====
