---- MODULE Iterator ----
\* The hand-over of a query's terminal error from the storage backend (producer) to the consumer of an
\* iterator.Iterator (property C02, clause "a storage error during the query is reported to the consumer
\* once the result stream has ended").
\*
\* Producer: sends its records, then Iterator.Finish(err) = two halves around the yield point
\* iterator.finish.mid:  StoreFirst = TRUE:  store the error | close the stream
\*                       StoreFirst = FALSE: close the stream | store the error     (the order of the pinned code)
\* Consumer: drains the stream until it is closed, then calls Err().
\* Steps that release a goroutine from a yield point of the driver (harness/cmd/dbx, kind "iter") are recorded
\* in `pol`; a finished behaviour is a scheduling policy for the driver.
EXTENDS Integers, Sequences, TLC, Json

CONSTANTS StoreFirst,   \* order of the two halves of Finish
          HasErr,       \* the storage failed
          Emit          \* print the policy of every finished behaviour

VARIABLES ppc, cpc, closed, err, readv, pol
vars == <<ppc, cpc, closed, err, readv, pol>>

TheErr == IF HasErr THEN "other" ELSE "nil"

Init == /\ ppc = "gate" /\ cpc = "start" /\ closed = FALSE /\ err = "nil" /\ readv = "unread" /\ pol = <<>>

\* producer released from p.finish: first half of Finish, up to iterator.finish.mid
PFirst == /\ ppc = "gate" /\ ppc' = "mid"
          /\ IF StoreFirst THEN err' = TheErr /\ UNCHANGED closed ELSE closed' = TRUE /\ UNCHANGED err
          /\ pol' = Append(pol, "p") /\ UNCHANGED <<cpc, readv>>
\* producer released from iterator.finish.mid: second half
PSecond == /\ ppc = "mid" /\ ppc' = "done"
           /\ IF StoreFirst THEN closed' = TRUE /\ UNCHANGED err ELSE err' = TheErr /\ UNCHANGED closed
           /\ pol' = Append(pol, "p") /\ UNCHANGED <<cpc, readv>>
\* consumer released from c.start: it drains the stream
CStart == /\ cpc = "start" /\ cpc' = "draining"
          /\ pol' = Append(pol, "c") /\ UNCHANGED <<ppc, closed, err, readv>>
\* the stream is closed and empty: the consumer has seen its end (no release: it happens by itself)
CEnd == /\ cpc = "draining" /\ closed /\ cpc' = "drained"
        /\ UNCHANGED <<ppc, closed, err, readv, pol>>
\* consumer released from c.drained: Err()
CRead == /\ cpc = "drained" /\ cpc' = "done" /\ readv' = err
         /\ pol' = Append(pol, "c") /\ UNCHANGED <<ppc, closed, err>>

Finished == ppc = "done" /\ cpc = "done"
Done == /\ Finished /\ pol # <<>> /\ Head(pol) # "x"
        /\ (Emit => PrintT(<<"@@", ToJson([policy |-> pol, err |-> HasErr])>>))
        /\ pol' = <<"x">> \o pol /\ UNCHANGED <<ppc, cpc, closed, err, readv>>

Next == PFirst \/ PSecond \/ CStart \/ CEnd \/ CRead \/ Done
Spec == Init /\ [][Next]_vars

\* a consumer that saw the stream end reads the producer's error
ErrHandOver == cpc = "done" => readv = TheErr
====
