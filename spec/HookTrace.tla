---- MODULE HookTrace ----
EXTENDS HookAbs, Json
Trace == ndJsonDeserialize("trace.ndjson")
VARIABLE l
tvars == <<avars, l>>
Ev == Trace[l]
TInit == AbsInit /\ l = 1
TNext == /\ l <= Len(Trace)
         /\ l' = l + 1
         /\ CASE Ev.e = "init"       -> Reset(Ev.hooks, Ev.ops)
              [] Ev.e = "opcall"     -> OpCall(Ev.o)
              [] Ev.e = "hookbegin"  -> HookBegin(Ev.o, Ev.hk)
              [] Ev.e = "hookend"    -> UNCHANGED avars
              [] Ev.e = "opret"      -> OpRet(Ev.o)
              [] Ev.e = "cancelcall" -> CancelCall(Ev.hk)
              [] Ev.e = "cancelret"  -> CancelRet(Ev.hk)
              [] Ev.e = "note"       -> UNCHANGED avars
              [] OTHER               -> FALSE
Spec == TInit /\ [][TNext]_tvars
Accepted == TLCGet("stats").diameter - 1 = Len(Trace)
====
