---- MODULE UpdFlowGen ----
\* Extension check X08: (a) breadth-first model checking of the laws of spec/UpdFlow.tla on every state
\* reachable with a small catalogue of server behaviours (Emit = FALSE), (b) generation of call histories
\* for the driver harness/cmd/updflow (Emit = TRUE, -simulate).
EXTENDS UpdFlow, Json

CONSTANTS MaxLen,   \* calls per emitted history / depth bound of the breadth-first search
          Emit      \* print finished histories as JSON

VARIABLES st, ini, hist, done
vars == <<st, ini, hist, done>>

Vs == {2, 3, 4, 6}          \* versions the servers offer (plus 7, the unparsable one)

Cfgs == IF Emit THEN {Cfg(on, up, n, a1, a2, m) : on \in BOOLEAN, up \in BOOLEAN, n \in 1..2, a1 \in BOOLEAN, a2 \in BOOLEAN,
                                                  m \in {{}, {1}, {2}, {1, 2}}}
        ELSE {Cfg(TRUE, FALSE, 1, TRUE, FALSE, {2}), Cfg(TRUE, TRUE, 2, TRUE, TRUE, {})}

Init == /\ ini \in Cfgs
        /\ st = Empty(ini)
        /\ hist = <<>>
        /\ done = FALSE

\* the code's own choices where the model leaves room (generation follows them)
CanonUpd(p, c, u) ==
    CASE u.mode = "none" -> p
      [] u.mode = "checkok" -> [p EXCEPT !.chkAt = c + 1, !.chkErr = FALSE, !.pend = u.plo, !.succAt = c + 1]
      [] u.mode \in {"checkfail", "checkcancel"} -> [p EXCEPT !.chkAt = c + 1, !.chkErr = TRUE, !.pend = {}]
      [] u.mode \in {"dl", "dlcancel"} -> IF u.att = <<>> THEN p
                          ELSE [p EXCEPT !.dlAt = c + 1, !.dlErr = (u.suc # Range(u.att)), !.lastdl = Range(u.att),
                                         !.pend = @ \ Range(u.att), !.succAt = IF u.suc # Range(u.att) THEN @ ELSE c + 1]
Note(id, dn, upto, dres, upd) == [id |-> id, dn |-> dn, upto |-> upto, dres |-> dres, upd |-> upd]
CanonNotes(opid, att, p, t) ==
    IF opid = "" THEN <<>>
    ELSE IF opid # "downloading" THEN <<Note(opid, -1, 0, <<>>, p)>> \o (IF p = t THEN <<>> ELSE <<Note(opid, -1, 0, <<>>, t)>>)
                                      \o <<Note("ready", -1, 0, <<>>, t)>>
    ELSE LET n == Len(att) IN
         <<Note(opid, -1, 0, <<>>, p)>> \o [k \in 1..(n + 1) |-> Note(opid, n, k - 1, att, p)]
         \o (IF p = t THEN <<>> ELSE <<Note(opid, n, n, att, t)>>) \o <<Note("ready", -1, 0, <<>>, t)>>
Follow(s, x) == LET t == CanonUpd(s.upd, s.clock, x.u) IN
                [x.st EXCEPT !.upd = t, !.clock = IF t = s.upd THEN @ ELSE @ + 1]

\* ---------------------------------------------------------------- operations
Pick(S) == IF Emit THEN {RandomElement(S)} ELSE S
Doc(tag, kind, chan, pub, rel) == [tag |-> tag, kind |-> kind, chan |-> chan, pub |-> pub, rel |-> rel]

\* breadth first: four documents, one failure mode
SmallDocs == {Doc(1, "v2", "right", 1, <<2, 0, 0>>), Doc(2, "v2", "", 2, <<3, 2, 3>>),
              Doc(3, "old", "", 0, <<2, 3, 0>>), Doc(4, "v2", "right", 0, <<7, 6, 0>>)}
SmallOps(s) ==
    {Op("SetIndex", 0, 0, u, i, FALSE, "ok", d) : u \in 1..s.cfg.nurls, i \in I, d \in SmallDocs}
    \cup {Op("SetIndex", 0, 0, 1, i, FALSE, "404", NoDoc) : i \in I}
    \cup {Op("SetFile", r, v, 1, 0, FALSE, m, NoDoc) : r \in {1, 2}, v \in {2, 3}, m \in {"ok", "500"}}
    \cup {NoArg("UpdateIndexes"), NoArg("LoadIndexes"), NoArg("Select"), NoArg("Restart")}
    \cup {[NoArg("Download") EXCEPT !.flag = b] : b \in BOOLEAN}
    \cup {[NoArg(n) EXCEPT !.mode = "cancelled"] : n \in {"UpdateIndexes", "LoadIndexes", "Download"}}
    \cup {[NoArg("SetOnline") EXCEPT !.flag = b] : b \in BOOLEAN}
    \cup {[NoArg("GetFile") EXCEPT !.r = r] : r \in R}
    \cup {[NoArg("Blacklist") EXCEPT !.i = k] : k \in 1..2}
    \cup {[NoArg("Par") EXCEPT !.r = r, !.flag = TRUE] : r \in {1, 2}}

\* simulation: weighted families, the weights follow the situation the model is in (n = calls so far)
Bag(s, n) ==
    <<"setindex", "setfile", "update", "load", "select", "download", "getfile", "getfile", "blacklist", "online", "restart", "par">>
    \o (IF n < 3 THEN <<"setindex", "setindex", "setindex", "setindex", "update", "update">> ELSE <<>>)
    \o (IF \A u \in 1..s.cfg.nurls : \A i \in I : ~s.srv[u].iok[i] THEN <<"setindex", "setindex", "setindex", "setindex">> ELSE <<"update", "update">>)
    \o (IF Pending(s, TRUE, TRUE) # {} THEN <<"download", "download", "download", "par", "par", "setfile", "setfile">> ELSE <<>>)
    \o (IF \E r \in Known(s) : s.res[r].cur # {} /\ s.res[r].cur # {s.res[r].sel} THEN <<"select", "select", "getfile", "getfile">> ELSE <<>>)
    \o (IF Len(s.handles) > 0 THEN <<"blacklist", "setindex", "update", "select">> ELSE <<"getfile", "getfile">>)
KindBag == <<"v2", "v2", "v2", "v2", "v2", "v2", "v2", "v2", "old", "garbage">>
ChanBag == <<"right", "right", "right", "right", "right", "", "", "wrong">>
PubBag == <<0, 1, 2, 2, 3, 3, 3, 9>>
ModeBag == <<"ok", "ok", "ok", "ok", "ok", "ok", "ok", "ok", "slow", "404", "500", "trunc">>
FModeBag == <<"ok", "ok", "slow", "404", "500", "trunc", "404">>
RelBag == <<0, 2, 3, 3, 4, 4, 6, 6, 6, 7>>
Rel3Bag == <<0, 0, 0, 0, 2, 6>>
CtxBag == <<"", "", "", "", "", "", "", "", "", "", "", "cancelled">>
\* (operators without parameters would be evaluated once and cached by TLC: every draw goes through a parameter)
Draw(seq, n) == seq[RandomElement(1..Len(seq))]

SimOps(s, n) ==
    LET fam == Draw(Bag(s, n), n)
        u == IF RandomElement(1..3) = 1 THEN RandomElement(1..s.cfg.nurls) ELSE 1
    IN CASE fam = "setindex" ->
              LET m == Draw(ModeBag, n)
                  k == Draw(KindBag, n + 1)
                  i == RandomElement(I)
                  top == s.lmax[i]
                  \* mostly not older than what the registry has seen of this index
                  pubs == <<0, top, top, IF top < 3 THEN top + 1 ELSE 3, IF top < 3 THEN top + 1 ELSE 3, 3, 1, 2, 9>>
              IN {Op("SetIndex", 0, 0, u, i, FALSE, m,
                     IF m \in FailModes /\ m # "trunc" THEN NoDoc
                     ELSE Doc(n + 1, k, IF k = "v2" THEN Draw(ChanBag, n) ELSE "", IF k = "v2" THEN Draw(pubs, n) ELSE 0,
                              IF k = "garbage" THEN <<0, 0, 0>> ELSE <<Draw(RelBag, n), Draw(RelBag, n + 1), Draw(Rel3Bag, n)>>))}
         [] fam = "setfile" ->
              \* mostly about versions that are current releases somewhere
              LET curs == {<<r, v>> \in R \X Vs : v \in s.res[r].cur}
                  p == IF curs # {} /\ RandomElement(1..4) > 1 THEN RandomElement(curs) ELSE <<RandomElement(R), RandomElement(Vs)>>
              IN {Op("SetFile", p[1], p[2], u, 0, FALSE, Draw(FModeBag, n), NoDoc)}
         [] fam = "update" -> {[NoArg("UpdateIndexes") EXCEPT !.mode = Draw(CtxBag, n)]}
         [] fam = "load" -> {[NoArg("LoadIndexes") EXCEPT !.mode = Draw(CtxBag, n)]}
         [] fam = "select" -> {NoArg("Select")}
         [] fam = "download" -> {[NoArg("Download") EXCEPT !.flag = RandomElement(BOOLEAN), !.mode = Draw(CtxBag, n)]}
         [] fam = "getfile" -> LET k == Known(s) IN
                               {[NoArg("GetFile") EXCEPT !.r = IF k # {} /\ RandomElement(1..6) > 1 THEN RandomElement(k) ELSE RandomElement(R)]}
         [] fam = "par" -> LET k == {r \in Known(s) : s.res[r].sel # NoV} IN      \* (GetFile of a resource with a selected version)
                           IF k = {} THEN {NoArg("Select")}
                           ELSE {[NoArg("Par") EXCEPT !.r = RandomElement(k), !.flag = RandomElement(BOOLEAN)]}
         [] fam = "blacklist" -> IF Len(s.handles) = 0 THEN {NoArg("Select")}
                                 ELSE {[NoArg("Blacklist") EXCEPT !.i = RandomElement(1..Len(s.handles))]}
         [] fam = "online" -> {[NoArg("SetOnline") EXCEPT !.flag = RandomElement(1..3) > 1]}
         [] fam = "restart" -> {NoArg("Restart")}

OpsNow == IF Emit THEN SimOps(st, Len(hist)) ELSE SmallOps(st)

DoOp == /\ ~done
        /\ Emit => Len(hist) < MaxLen
        /\ \E o \in OpsNow : \E x \in Pick(Step(st, o)) :
              /\ st' = Follow(st, x)
              /\ hist' = IF Emit THEN Append(hist, o) ELSE hist
        /\ UNCHANGED <<ini, done>>

Finish == /\ Emit /\ Len(hist) = MaxLen /\ ~done
          /\ done' = TRUE
          /\ PrintT(<<"@@", ToJson([cfg |-> [online |-> ini.online, usepre |-> ini.usepre, nurls |-> ini.nurls, auto |-> ini.auto,
                                            mand |-> [r \in R |-> r \in ini.mand]],
                                   steps |-> hist])>>)
          /\ UNCHANGED <<st, ini, hist>>

Next == DoOp \/ Finish
Spec == Init /\ [][Next]_vars

\* ---------------------------------------------------------------- invariants (Emit = FALSE)
ShapeOK == WellFormed(st)
LawsOK == CallLaws(st)
\* every call has an allowed outcome, and the code's own choices are among what the model tolerates
TotalOK == \A o \in SmallOps(st) : /\ Step(st, o) # {}
                                  /\ \A x \in Step(st, o) :
                                        LET t == CanonUpd(st.upd, st.clock, x.u) IN
                                        /\ UpdViolations(st.upd, st.clock, x.u, t) = {}
                                        /\ NoteViolations(x.opid, x.u.att, st.upd, t, CanonNotes(x.opid, x.u.att, st.upd, t), TRUE) = {}
Depth == TLCGet("level") <= MaxLen + 1
View == <<st, done>>
====
