---- MODULE Varint ----
\* formats/varint: standard base-128 varints (little endian groups of 7 bits, continuation bit 0x80).
\*
\* TLC integers are 32 bit, so a number is a *digit sequence*: <<d1, ..., dk>> over 0..127 with the
\* least significant digit first and no leading (= trailing in the sequence) zero digit except for
\* the number zero, which is <<0>>.  uint64 needs at most 10 digits with d10 <= 1.
EXTENDS Integers, Sequences

Digit == 0..127
Byte == 0..255

\* ---- digit sequences ----
RECURSIVE Norm(_)
Norm(d) == IF Len(d) > 1 /\ d[Len(d)] = 0 THEN Norm(SubSeq(d, 1, Len(d) - 1)) ELSE d

IsNorm(d) == Len(d) >= 1 /\ (Len(d) > 1 => d[Len(d)] # 0)

\* most significant digit allowed in the last group of the widest encoding of each width
TopLen(w) == CASE w = 8 -> 2 [] w = 16 -> 3 [] w = 32 -> 5 [] w = 64 -> 10
TopMax(w) == CASE w = 8 -> 1 [] w = 16 -> 3 [] w = 32 -> 15 [] w = 64 -> 1

\* does the (normalised) number fit into w bits
Fits(d, w) == \/ Len(d) < TopLen(w)
              \/ Len(d) = TopLen(w) /\ d[Len(d)] <= TopMax(w)

\* small natural -> digits (n < 2^21, enough for lengths of model queues)
OfNat(n) == IF n < 128 THEN <<n>>
            ELSE IF n < 16384 THEN <<n % 128, n \div 128>>
            ELSE <<n % 128, (n \div 128) % 128, n \div 16384>>
\* digits -> small natural, or -1 if it does not fit three digits
ToNat(d) == IF Len(d) = 1 THEN d[1]
            ELSE IF Len(d) = 2 THEN d[1] + 128 * d[2]
            ELSE IF Len(d) = 3 THEN d[1] + 128 * d[2] + 16384 * d[3]
            ELSE -1

\* ---- Pack: the shortest standard encoding ----
Pack(d) == [i \in 1..Len(d) |-> IF i < Len(d) THEN d[i] + 128 ELSE d[i]]
EncodedSize(d) == Len(d)

\* ---- Unpack ----
\* index of the first byte without continuation bit among the first `lim` bytes, 0 if none
RECURSIVE FirstEnd(_, _, _)
FirstEnd(b, i, lim) == IF i > Len(b) \/ i > lim THEN 0
                       ELSE IF b[i] < 128 THEN i ELSE FirstEnd(b, i + 1, lim)

\* Classification of the head of byte string b for width w (the decoder sees at most `see` bytes):
\*   [kind |-> "ok", val |-> digits, n |-> consumed, shortest |-> BOOLEAN]
\*   [kind |-> "trunc"]      no terminating byte in what is visible
\*   [kind |-> "toolarge"]   value does not fit the width / more than 10 groups / 10th group > 1
Classify(b, w, see) ==
    LET vis == IF Len(b) > see THEN SubSeq(b, 1, see) ELSE b
        k == FirstEnd(vis, 1, 10)
    IN IF k = 0
       THEN IF Len(vis) >= 10 THEN [kind |-> "toolarge", val |-> <<0>>, n |-> 0, shortest |-> FALSE]
                              ELSE [kind |-> "trunc", val |-> <<0>>, n |-> 0, shortest |-> FALSE]
       ELSE LET raw == [i \in 1..k |-> vis[i] % 128]
                v == Norm(raw)
            IN IF (k = 10 /\ raw[10] > 1) \/ ~Fits(v, w)
               THEN [kind |-> "toolarge", val |-> <<0>>, n |-> 0, shortest |-> FALSE]
               ELSE [kind |-> "ok", val |-> v, n |-> k, shortest |-> (Len(v) = k)]

\* Allowed results of UnpackW(b): set of [ok, val, n].
\*  - a shortest encoding of a fitting value must be decoded: value and exact byte count
\*  - a non-shortest (zero padded) encoding may be decoded (value, exact byte count) or refused
\*  - everything else must be an error
ErrRes == [ok |-> FALSE, val |-> <<0>>, n |-> 0]
UnpackAllowed(b, w, see) ==
    LET c == Classify(b, w, see)
    IN IF c.kind = "ok"
       THEN IF c.shortest THEN {[ok |-> TRUE, val |-> c.val, n |-> c.n]}
            ELSE {[ok |-> TRUE, val |-> c.val, n |-> c.n], ErrRes}
       ELSE {ErrRes}

\* visible window the implementation hands to the decoder for each width (container.GetNextN*)
See(w) == CASE w = 8 -> 2 [] w = 16 -> 3 [] w = 32 -> 5 [] w = 64 -> 10

\* ---- length-prefixed blocks (varint.GetNextBlock / PrependLength) ----
\* Allowed results of GetNextBlock(b): [ok, data, total]
BlockAllowed(b) ==
    LET us == UnpackAllowed(b, 64, 1000)
    IN { IF ~u.ok THEN [ok |-> FALSE, data |-> <<>>, total |-> 0]
         ELSE LET L == ToNat(u.val)
              IN IF L < 0 \/ L + u.n > Len(b)
                 THEN [ok |-> FALSE, data |-> <<>>, total |-> 0]
                 ELSE [ok |-> TRUE, data |-> SubSeq(b, u.n + 1, u.n + L), total |-> u.n + L]
         : u \in us }
====
