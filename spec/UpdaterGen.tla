---- MODULE UpdaterGen ----
\* Property C19: (a) model checking of the laws of spec/Updater.tla on every reachable state of a small
\* version set (Emit = FALSE, breadth first, all allowed purge outcomes), (b) generation of operation
\* histories for the driver harness/cmd/upd (Emit = TRUE, -simulate).
EXTENDS Updater, Json

CONSTANTS Vs,       \* version ids in use (subset of 1..6)
          MaxLen,   \* operations per emitted history / depth bound of the breadth-first search
          Emit      \* print finished histories as JSON

VARIABLES st, ini, hist, done
vars == <<st, ini, hist, done>>

Init == /\ st \in {Empty(on, dv, up) : on \in BOOLEAN, dv \in BOOLEAN, up \in BOOLEAN}
        /\ ini = [online |-> st.online, dev |-> st.dev, usepre |-> st.usepre]
        /\ hist = <<>>
        /\ done = FALSE

\* Simulation draws the operation before its outcomes are enumerated; adding versions with a file is
\* drawn more often so that purges have something to work on.
Pick(S) == IF Emit THEN {RandomElement(S)} ELSE S
Weighted == <<"add", "flag", "select", "getfile", "observe", "blacklist", "purge",       \* 1..7: each family once
              "addfile", "addfile", "addfile", "select", "getfile", "purge">>
\* (an operator without parameters would be evaluated once and cached by TLC: the draw has to go through Pick)
FamIdx == IF Emit THEN 1..Len(Weighted) ELSE 1..7

\* breadth first: an index without AutoDownload ("manual") is the same as no index for the model
GenOps(f) == IF Emit THEN OpsOf(f, Vs) ELSE {o \in OpsOf(f, Vs) : o.idx # "manual"}

\* Histories only need the operations; in simulation the model follows the intended purge algorithm.
Outcomes(s, o) == IF Emit /\ o.op = "Purge" THEN {Out(Ok, PurgeRef(s, o.keep))} ELSE Step(s, o)

DoOp == /\ ~done
        /\ Emit => Len(hist) < MaxLen
        /\ \E i \in Pick(FamIdx) : \E o \in Pick(GenOps(Weighted[i])) : \E x \in Pick(Outcomes(st, o)) :
              /\ st' = x.st
              /\ hist' = IF Emit THEN Append(hist, o) ELSE hist
        /\ UNCHANGED <<ini, done>>

Finish == /\ Emit /\ Len(hist) = MaxLen /\ ~done
          /\ done' = TRUE
          /\ PrintT(<<"@@", ToJson([init |-> ini, steps |-> hist])>>)
          /\ UNCHANGED <<st, ini, hist>>

Next == DoOp \/ Finish
Spec == Init /\ [][Next]_vars

\* ---------------------------------------------------------------- invariants (Emit = FALSE)
SelectionOK == WellFormed(st) /\ SelectionLaws(st)
BlacklistOK == BlacklistLaws(st, Vs)
PurgeOK == PurgeLaws(st)
\* every call has an allowed outcome (for a purge: PurgeLaws, purging nothing)
TotalOK == \A o \in Ops(Vs) : o.op # "Purge" => Step(st, o) # {}
Depth == TLCGet("level") <= MaxLen
View == <<st, done>>
====
