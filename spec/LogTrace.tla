---- MODULE LogTrace ----
\* Trace validation of the real logger against LogAbs (C20).  Events (harness/cmd/logx):
\*  {"e":"init","np":3}
\*  {"e":"log","p":1,"origin":"logx","sev":3,"txt":"p1-7","rep":1}       emitted right BEFORE the log call(s)
\*  {"e":"tracer","p":2,"origin":"other","lines":[{"sev":1,"txt":"p2-301"},...]}   before AddTracer .. Submit
\*  {"e":"setlevel","lvl":2} {"e":"setpkg","a":0,"b":4} {"e":"unsetpkg"}   at barriers (no producer running)
\*  {"e":"out","txt":"p1-7","sev":3,"dups":0,"lines":[]}                   inside the adapter
\*  {"e":"shutcall"} {"e":"shutret"}
EXTENDS LogAbs, Json
Trace == ndJsonDeserialize("trace.ndjson")
VARIABLE l
tvars == <<avars, l>>
Ev == Trace[l]
TInit == AbsInit /\ l = 1
TNext == /\ l <= Len(Trace)
         /\ l' = l + 1
         /\ CASE Ev.e = "init"     -> Reset(Ev.np)
              [] Ev.e = "log"      -> Log(Ev.p, Ev.origin, Ev.sev, Ev.txt, Ev.rep)
              [] Ev.e = "tracer"   -> TracerSubmit(Ev.p, Ev.origin, Ev.lines)
              [] Ev.e = "setlevel" -> SetLevel(Ev.lvl)
              [] Ev.e = "setpkg"   -> SetPkg(Ev.a, Ev.b)
              [] Ev.e = "unsetpkg" -> UnsetPkg
              [] Ev.e = "out"      -> Out(Ev.txt, Ev.sev, Ev.dups, Ev.lines)
              [] Ev.e = "shutcall" -> ShutCall
              [] Ev.e = "shutret"  -> ShutRet
              [] Ev.e = "note"     -> UNCHANGED avars
              [] OTHER             -> FALSE
Spec == TInit /\ [][TNext]_tvars
Accepted == TLCGet("stats").diameter - 1 = Len(Trace)
====
