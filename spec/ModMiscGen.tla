---- MODULE ModMiscGen ----
\* X15: (a) generation of configurations + operation scripts for harness/cmd/modmisc (TLC -simulate, Emit = TRUE),
\* (b) the laws of the reference semantics ModMisc itself, checked breadth-first over a fixed family of
\* configurations (Emit = FALSE): invariant LawsOK.
EXTENDS ModMisc, Json

CONSTANTS MaxLen,   \* operations per script
          Emit,     \* print finished scripts as JSON
          Level     \* BFS: 1 = short service sequences and one id, 2 = richer

VARIABLES s, hist, setup, done
vars == <<s, hist, setup, done>>

Pick(S) == IF Emit THEN {RandomElement(S)} ELSE S

Shapes(n) == IF n = 1 THEN { << <<>> >> }
             ELSE IF n = 2 THEN { << <<>>, <<>> >>, << <<>>, <<1>> >> }
             ELSE { << <<>>, <<>>, <<>> >>, << <<>>, <<1>>, <<2>> >>, << <<>>, <<1>>, <<1>> >>,
                    << <<>>, <<>>, <<1, 2>> >>, << <<>>, <<1>>, <<>> >> }
AllOk(n) == [m \in 1..n |-> "ok"]
Cfg(n, deps, mgmt, en, prep, start, stop, gprep, gshut, cmd, help, notify) ==
  [n |-> n, deps |-> deps, mgmt |-> mgmt, en |-> en, prep |-> prep, start |-> start, stop |-> stop,
   gprep |-> gprep, gshut |-> gshut, cmd |-> cmd, help |-> help, notify |-> notify, unit |-> 12000]

\* one faulty lifecycle routine at most
Faulty(n, kind, m, how) ==
  [prep  |-> IF kind = "prep"  THEN [AllOk(n) EXCEPT ![m] = how] ELSE AllOk(n),
   start |-> IF kind = "start" THEN [AllOk(n) EXCEPT ![m] = IF how = "clean" THEN "err" ELSE how] ELSE AllOk(n),
   stop  |-> IF kind = "stop"  THEN [AllOk(n) EXCEPT ![m] = IF how = "clean" THEN "err" ELSE how] ELSE AllOk(n)]

BfsCfgs ==
  LET d3 == << <<>>, <<1>>, <<1>> >> f3 == <<FALSE, FALSE, FALSE>> IN
  { Cfg(3, d3, FALSE, f3, AllOk(3), AllOk(3), AllOk(3), "none", TRUE, "none", FALSE, TRUE),
    Cfg(3, d3, FALSE, f3, AllOk(3), <<"ok", "err", "ok">>, AllOk(3), "ok", FALSE, "none", FALSE, TRUE),
    Cfg(3, d3, FALSE, f3, AllOk(3), AllOk(3), <<"ok", "ok", "panic">>, "none", TRUE, "none", FALSE, FALSE),
    Cfg(3, d3, FALSE, f3, <<"ok", "panic", "ok">>, AllOk(3), AllOk(3), "none", FALSE, "none", FALSE, TRUE),
    Cfg(2, << <<>>, <<1>> >>, FALSE, <<FALSE, FALSE>>, AllOk(2), AllOk(2), AllOk(2), "none", FALSE, "err", FALSE, TRUE),
    Cfg(3, << <<>>, <<1>>, <<2>> >>, TRUE, <<FALSE, TRUE, FALSE>>, AllOk(3), AllOk(3), AllOk(3), "none", FALSE, "none", FALSE, TRUE) }

Init == s = InitState(Cfg(1, << <<>> >>, FALSE, <<FALSE>>, AllOk(1), AllOk(1), AllOk(1), "none", FALSE, "none", FALSE, FALSE))
        /\ hist = <<>> /\ setup = FALSE /\ done = FALSE

Setup == /\ ~setup /\ setup' = TRUE /\ UNCHANGED <<hist, done>>
         /\ IF ~Emit THEN \E c \in BfsCfgs : s' = InitState(c)
            ELSE \E n0 \in Pick({2, 3, 4, 5}) : LET n == IF n0 > 3 THEN 3 ELSE n0 IN
                 \E d \in Pick(Shapes(n)) : \E mg \in Pick({1, 2, 3}) : LET mgmt == (mg = 1) IN
                 \E en \in Pick([1..n -> BOOLEAN]) :
                 \E kind \in Pick({"none", "none2", "none3", "prep", "start", "start2", "stop", "stop2"}) : \E fm \in Pick(1..n) :
                 \E how \in Pick({"err", "panic", "clean"}) :
                 \E gp \in Pick(1..12) : \E gshut \in Pick(BOOLEAN) :
                 \E cm0 \in Pick(1..12) :
                 \E help \in Pick(1..16) : \E nf \in Pick({1, 2, 3}) : LET notify == nf # 1 IN
                   LET f == Faulty(n, IF kind = "start2" THEN "start" ELSE IF kind = "stop2" THEN "stop" ELSE kind, fm, how)
                       g == IF gp = 1 THEN "err" ELSE IF gp = 2 THEN "clean" ELSE IF gp < 8 THEN "ok" ELSE "none"
                       cm == IF cm0 = 1 THEN "ok" ELSE IF cm0 = 2 THEN "err" ELSE "none"
                   IN s' = InitState(Cfg(n, d, mgmt, [m \in 1..n |-> en[m]], f.prep, f.start, f.stop, g, gshut, cm,
                                         help = 1, IF mgmt THEN TRUE ELSE notify))

Ids == IF Emit \/ Level > 1 THEN {"a", "b"} ELSE {"a"}
SvcSeqs == LET A == {"err", "panic", "restart"} IN
           IF Emit THEN {<<>>} \cup {<<x>> : x \in A} \cup {<<x, y>> : x, y \in A} \cup {<<x, y, z>> : x, y, z \in A}
           ELSE IF Level > 1 THEN {<<>>} \cup {<<x>> : x \in A} ELSE {<<>>, <<"panic">>}
Cnt == IF Emit THEN Len(hist) + 1 ELSE 1
AllFine(c) == \A m \in Mods(c) : c.start[m] = "ok" /\ c.stop[m] = "ok"

Families ==
  LET c == s.cfg IN
  {"fail", "fail", "resolve", "report", "setchan", "drain", "runworker", "setexit", "getexit"}
  \cup (IF \E m \in Mods(c) : ~s.stopped[m] THEN {"service"} ELSE {})
  \cup (IF ~s.locked /\ ~s.gsd THEN {"start", "start2"} ELSE {})
  \cup (IF ~s.locked /\ Len(hist) > 3 /\ ~s.gsd THEN {"start3", "start4"} ELSE {})
  \cup (IF s.locked \/ Len(hist) > 5 THEN {"shutdown", "shutdown2"} ELSE {})
  \cup (IF c.mgmt /\ ~s.gsd THEN {"toggle"} ELSE {})
  \cup (IF s.ph = "run" /\ AllFine(c) THEN {"manage"} ELSE {})
  \cup (IF s.ph = "run" /\ AllFine(c) /\ c.mgmt THEN {"manage2", "toggle2"} ELSE {})
  \cup (IF \E m \in Mods(c) : s.ms[m] = "on" THEN {"service2"} ELSE {})
  \cup (IF Emit \/ Level > 1 THEN {"sleep", "tick"} ELSE {})

Candidates(f) ==
  LET c == s.cfg M == Mods(c) IN
  CASE f = "fail"      -> {Op("fail", m, id, k, Cnt, <<>>) : m \in M, id \in Ids, k \in 1..3}
    [] f = "resolve"   -> {Op("resolve", m, id, 0, 0, <<>>) : m \in M, id \in Ids \cup {"", "startfail"}}
    [] f = "report"    -> {Op("report", m, a, 0, Cnt, <<>>) : m \in M, a \in {"info", "error", "panic"}}
    [] f = "setchan"   -> {Op("setchan", 0, "", k, 0, <<>>) : k \in {-1, 0, 1, 2, 3}}
    [] f = "drain"     -> {Op("drain", 0, "", 0, 0, <<>>)}
    [] f = "runworker" -> {Op("runworker", m, a, 0, 0, <<>>) : m \in M, a \in {"ok", "err", "cancel", "panic"}}
    [] f = "service2"  -> {Op("service", m, a, 0, 0, sq) : m \in {x \in M : s.ms[x] = "on"}, sq \in SvcSeqs,
                                                                a \in {"hold", "holderr"}}
    [] f = "service"   -> {Op("service", m, a, 0, 0, sq) : m \in {x \in M : ~s.stopped[x]}, sq \in SvcSeqs,
                                                          a \in {"ok", "cancel"}}
                          \cup {Op("service", m, a, 0, 0, sq) : m \in {x \in M : s.ms[x] = "on"}, sq \in SvcSeqs,
                                                                a \in {"hold", "holderr"}}
    [] f \in {"start", "start2", "start3", "start4"} -> {Op("start", 0, "", 0, 0, <<>>)}
    [] f = "shutdown"  -> {Op("shutdown", 0, "", 0, 0, <<>>)}
    [] f = "shutdown2" -> {Op("shutdown2", 0, "", 0, 0, <<>>)}
    [] f \in {"toggle", "toggle2"} -> {Op("toggle", m, "", k, 0, <<>>) : m \in M, k \in {0, 1}}
    [] f \in {"manage", "manage2"} -> {Op("manage", 0, "", 0, 0, <<>>)}
    [] f = "setexit"   -> {Op("setexit", 0, "", k, 0, <<>>) : k \in {0, 2, 3}}
    [] f = "getexit"   -> {Op("getexit", 0, "", 0, 0, <<>>)}
    [] f = "sleep"     -> {Op("sleep", m, "", k, 0, <<>>) : m \in M, k \in {0, 1}}
    [] f = "tick"      -> {Op("tick", m, "", k, 0, <<>>) : m \in M, k \in {0, 1}}

DoOp == /\ setup /\ Len(hist) < MaxLen /\ ~done
        /\ \E f \in Pick(Families) : \E o \in Pick(Candidates(f)) : \E x \in Pick(Step(s, o)) :
              /\ s' = x.st
              /\ hist' = Append(hist, o)
        /\ UNCHANGED <<setup, done>>

Finish == /\ setup /\ Len(hist) = MaxLen /\ ~done
          /\ done' = TRUE
          /\ (Emit => PrintT(<<"@@", ToJson([cfg |-> s.cfg, steps |-> hist])>>))
          /\ UNCHANGED <<s, hist, setup>>

Next == Setup \/ DoOp \/ Finish
Spec == Init /\ [][Next]_vars

\* every operation has an outcome in every reachable state, and the reference obeys its own laws
LawsOK == /\ Laws(s)
          /\ setup => \A f \in Families : \A o \in Candidates(f) : Step(s, o) # {} /\ \A x \in Step(s, o) : Laws(x.st) /\ x.ret # {}
View == <<s, Len(hist), setup, done>>
====
