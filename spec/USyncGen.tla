---- MODULE USyncGen ----
\* X02 -- workload scripts for harness/cmd/usync (TLC -simulate; one behaviour = one script, printed as JSON).
\* A script gives every process its sequence of calls with the delay before each call (microseconds), for the
\* bundling primitives also how long the function holds and whether it panics.  The driver runs the
\* processes concurrently against one object of the real package and records the call/return history;
\* USyncTrace judges the history.  (Sequential StablePool scripts come from USyncPool.)
EXTENDS Integers, Sequences, Json, TLC

CONSTANTS Kind,     \* "once" | "limiter" | "pool" | "flag"
          MaxP,     \* processes: 2..MaxP
          MaxOps,   \* calls of a script: MaxOps-2 .. MaxOps
          Timed     \* delays / holds / pauses in the millisecond range (otherwise free-running)

VARIABLES procs, nput, par, goal, done
vars == <<procs, nput, par, goal, done>>

Rnd(seq) == seq[RandomElement(1..Len(seq))]

Delays == IF Timed THEN <<0, 0, 40, 300, 1000, 2500, 6000>> ELSE <<0, 0, 0, 0, 5, 30, 150>>
Holds == IF Timed THEN <<0, 100, 1000, 3000>> ELSE <<0, 0, 0, 10, 100>>
Pauses == IF Timed THEN <<0, 2000, 5000>> ELSE <<0, 0, 300>>

NoPar == [pause |-> 0, hasnew |-> FALSE, nn |-> 0]
Init == procs = <<>> /\ par = NoPar /\ goal = 0 /\ nput = 0 /\ done = FALSE

\* first step of every behaviour (initial states are computed only once per TLC run)
Setup == /\ procs = <<>> /\ ~done
         /\ \E np \in {RandomElement(2..MaxP)} :
              /\ procs' = [p \in 1..np |-> <<>>]
              /\ par' = [pause |-> IF Kind = "limiter" THEN Rnd(Pauses) ELSE 0,
                         hasnew |-> RandomElement(BOOLEAN),
                         nn |-> IF Kind = "flag" THEN RandomElement(1..(np - 1)) ELSE 0]
         /\ goal' = RandomElement((MaxOps - 2)..MaxOps)
         /\ UNCHANGED <<nput, done>>

Count == LET RECURSIVE Sum(_)
             Sum(k) == IF k = 0 THEN 0 ELSE Len(procs[k]) + Sum(k - 1)
         IN Sum(Len(procs))

\* r: random numbers drawn once by Add (a LET or an operator argument would be drawn again at every use)
PoolNames == <<"put", "put", "put", "get", "get", "get", "get", "putnil", "size", "max">>
FlagNames == <<"refresh", "refresh", "isset", "isset", "poll", "poll", "wait">>
NewOp(p, r) ==
  CASE Kind \in {"once", "limiter"} ->
         [d |-> Delays[1 + (r[1] % Len(Delays))], hold |-> Holds[1 + (r[2] % Len(Holds))], pan |-> (r[3] % 8) = 0]
    [] Kind = "pool" ->
         LET o == PoolNames[1 + (r[2] % Len(PoolNames))]
         IN [op |-> IF o = "putnil" THEN "put" ELSE o, a |-> IF o = "put" THEN nput + 1 ELSE 0, d |-> Delays[1 + (r[1] % Len(Delays))]]
    [] Kind = "flag" ->
         IF p <= par.nn THEN [op |-> "notify", a |-> 0, d |-> Delays[1 + (r[1] % Len(Delays))]]
         ELSE [op |-> FlagNames[1 + (r[2] % Len(FlagNames))], a |-> p - par.nn, d |-> Delays[1 + (r[1] % Len(Delays))]]

R == 0..839      \* divisible by every list length used above

Add == /\ ~done /\ procs # <<>> /\ Count < goal
       /\ \E p \in {IF Kind # "flag" THEN RandomElement(1..Len(procs))
                    ELSE IF RandomElement(1..3) = 1 THEN RandomElement(1..par.nn)
                    ELSE RandomElement((par.nn + 1)..Len(procs))} :
          \E r \in {<<RandomElement(R), RandomElement(R), RandomElement(R)>>} :
            LET o == NewOp(p, r) IN
            /\ procs' = [procs EXCEPT ![p] = Append(@, o)]
            /\ nput' = IF Kind = "pool" /\ o.op = "put" /\ o.a # 0 THEN nput + 1 ELSE nput
       /\ UNCHANGED <<par, goal, done>>

Finish == /\ ~done /\ procs # <<>> /\ Count >= goal
          /\ done' = TRUE
          /\ PrintT(<<"@@", ToJson([kind |-> Kind, pause |-> par.pause, hasnew |-> par.hasnew, nn |-> par.nn, procs |-> procs])>>)
          /\ UNCHANGED <<procs, nput, par, goal>>

Next == Setup \/ Add \/ Finish
Spec == Init /\ [][Next]_vars
====
